/-
  C15 — Loading into a populated world merges by marker; marker ids stay unique.
  Property theorems only; the model is SpecsModel/SaveLoad/Model.lean, helper lemmas live in
  SpecsModel/SaveLoad/Lemmas*.lean.

  Quantifier: every finite history `ops : List SOp` of create (both paths) / component writes /
  mark / delete (World::delete_entity, delete_entities incl. failing and repeating batches,
  Entities::delete) / maintain / allocator.maintain / serialize / serialize_recursive /
  deserialize of *arbitrary* data (`List EntityData`: own, foreign, repeated, duplicate
  markers, dangling references, ids above the allocator's counter), with handles referenced by
  slot (every handle passed to an operation was returned earlier; entities created by a load are
  appended to the log). A second world exchanging data with this one is a source of "arbitrary
  data" and is exercised in the correspondence check.
-/
import SpecsModel.SaveLoad.LemmasGlue
namespace SpecsModel.C15
open SpecsModel SpecsModel.SaveLoad

/-- The world built by a history. -/
def world (ops : List SOp) : SW := (SLWorld.run ops).1.w

/-- **C15, invariant.** After any history: every marker id carried by a not-dead entity (an item
    `(e, m)` of the `(entities, markers)` join) is below the allocator's counter, is carried by
    no other not-dead entity, and the allocator's mapping sends it to that entity. -/
theorem marker_invariant (ops : List SOp) (e : Entity) (m : Nat)
    (hem : (e, m) ∈ (world ops).joinMarked) :
    m < (world ops).ma.index ∧ (∀ e', (e', m) ∈ (world ops).joinMarked → e' = e) ∧
    mapLookup (world ops).ma.mapping m = some e := by
  obtain ⟨s, h⟩ := run_inv ops
  have hI : SInv (world ops) s := h.inv
  exact (inv_concrete hI).1 e m hem

/-- … and a mapping entry can be wrong only by being stale: if the entity it names is not dead,
    that entity carries exactly that id. -/
theorem mapping_stale_or_right (ops : List SOp) (id : Nat) (e : Entity)
    (hl : mapLookup (world ops).ma.mapping id = some e) (ha : (world ops).alloc.isAlive e = true) :
    (e, id) ∈ (world ops).joinMarked := by
  obtain ⟨s, h⟩ := run_inv ops
  have hI : SInv (world ops) s := h.inv
  have hlive := (hI.r.alive_iff_live (hI.mapS id e hl)).mp ha
  obtain ⟨h1, h2⟩ := hI.mapA id e hl hlive
  exact (mem_joinMarked hI e id).mpr ⟨hlive, h1, h2⟩

/-- **C15, uniqueness.** After any step of any history no two not-dead entities carry the same
    marker id. -/
theorem markers_unique (ops : List SOp) : ((world ops).joinMarked.map (·.2)).Nodup := by
  obtain ⟨s, h⟩ := run_inv ops
  have hI : SInv (world ops) s := h.inv
  exact (inv_concrete hI).2

/-- No operation other than the two serialisers can panic (the `unwrap` in `retrieve_entity`,
    the ignored `insert` results and the allocator's asserts are unreachable); the serialisers
    panic only through `Entity::convert_into` (see C14). -/
theorem only_serialisers_panic (ops : List SOp) (op : SOp) (why : String)
    (hp : ((SLWorld.run ops).1.step op).2 = .panic why) : op = .serialize ∨ op = .serializeRec := by
  obtain ⟨s, h⟩ := run_inv ops
  exact (step_inv h op).2 why hp

/-- **C15, `mark`.** Marking an already marked entity returns its existing marker, reports
    "not added", and changes nothing (in particular the counter does not advance). -/
theorem mark_marked (ops : List SOp) (e : Entity) (m : Nat) (hem : (e, m) ∈ (world ops).joinMarked) :
    (world ops).mark e = (world ops, some (m, false)) := by
  obtain ⟨s, h⟩ := run_inv ops
  have hI : SInv (world ops) s := h.inv
  have hc := (mem_joinMarked hI e m).mp hem
  rcases mark_spec hI (hI.r.live_seen hc.1) with ⟨hn, _⟩ | ⟨_, _, hm⟩ | ⟨_, hh, _⟩
  · exact absurd hc.1 hn
  · rw [hm, hc.2.2]
  · rw [hc.2.1] at hh; cases hh

/-- Marking a not-dead unmarked entity gives it the counter's value, which nobody carries, and
    advances the counter by one. -/
theorem mark_unmarked (ops : List SOp) (e : Entity) (he : e ∈ (world ops).alloc.joinEntities)
    (hu : (world ops).mks.has e.id = false) :
    ∃ w', (world ops).mark e = (w', some ((world ops).ma.index, true)) ∧
      w'.ma.index = (world ops).ma.index + 1 ∧
      (∀ e0, (e0, (world ops).ma.index) ∉ (world ops).joinMarked) := by
  obtain ⟨s, h⟩ := run_inv ops
  have hI : SInv (world ops) s := h.inv
  have hl := (hI.r.mem_join e).mp he
  rcases mark_spec hI (hI.r.live_seen hl) with ⟨hn, _⟩ | ⟨_, hh, _⟩ | ⟨_, _, w', hm, _, _, _, _, _, _, _, hidx⟩
  · exact absurd hl hn
  · rw [hu] at hh; cases hh
  · refine ⟨w', hm, hidx, ?_⟩
    intro e0 h0
    have := ((inv_concrete hI).1 e0 _ h0).1
    omega

/-- Final state of a run continued: `runFrom` composes. -/
theorem runFrom_append_fst (x : SLWorld) (a b : List SOp) :
    (SLWorld.runFrom x (a ++ b)).1 = (SLWorld.runFrom (SLWorld.runFrom x a).1 b).1 := by
  induction a generalizing x with
  | nil => rfl
  | cons op a ih => simp only [List.cons_append, SLWorld.runFrom]; exact ih _

theorem runFrom_marks (x : SLWorld) (js : List Nat) :
    (SLWorld.runFrom x (js.map SOp.mark)).1 = js.foldl (fun y j => (y.step (.mark j)).1) x := by
  induction js generalizing x with
  | nil => rfl
  | cons j js ih => simp only [List.map_cons, SLWorld.runFrom, List.foldl_cons]; exact ih _

/-- **Lazy marking is an ordinary history.** A `maintain` that applies lazily queued markings (`maintainLazy`, the
    model of `LazyBuilder::marked`; the driver replays `mark_lazy … maintain` with it) reaches the state of the history
    `maintain, mark j₁, …, mark jₙ`. Every theorem of this file — uniqueness, the invariant, `mark_marked`: an entity
    that got a marker between the queueing and the `maintain` keeps it — therefore covers lazily marked entities. -/
theorem lazy_marking_is_a_history (ops : List SOp) (js : List Nat)
    (hm : ((SLWorld.run ops).1.step .maintain).2 = .ok) :
    ((SLWorld.run ops).1.maintainLazy js).1 = (SLWorld.run (ops ++ SOp.maintain :: js.map SOp.mark)).1 := by
  unfold SLWorld.run at hm ⊢
  rw [runFrom_append_fst]
  generalize SLWorld.runFrom {} ops = st0 at hm ⊢
  have h2 : (SLWorld.runFrom st0.1 (SOp.maintain :: js.map SOp.mark)).1 =
      (SLWorld.runFrom (st0.1.step SOp.maintain).1 (js.map SOp.mark)).1 := by
    simp only [SLWorld.runFrom]
  rw [h2, runFrom_marks]
  unfold SLWorld.maintainLazy
  generalize hst : st0.1.step SOp.maintain = st at hm
  obtain ⟨x', r⟩ := st
  simp only at hm
  subst hm
  rfl

/-- … in particular the markers stay unique after a `maintain` with any queued markings. -/
theorem lazy_marking_keeps_markers_unique (ops : List SOp) (js : List Nat)
    (hm : ((SLWorld.run ops).1.step .maintain).2 = .ok) :
    (((SLWorld.run ops).1.maintainLazy js).1.w.joinMarked.map (·.2)).Nodup := by
  rw [lazy_marking_is_a_history ops js hm]
  exact markers_unique _

/-- **C15, merge.** Deserialising arbitrary data into the world reached by any history succeeds
    and
    1. keeps every known marker id on the entity that carried it (update in place, no duplicate),
    2. deletes nothing and does not change which existing entities are marked,
    3. gives every mentioned id a carrier (unique by `markers_unique` for the new world, 9.),
    4. creates entities only for mentioned ids that nobody carried,
    5. the carrier of such an id is a created entity (so: exactly one new entity per unknown id),
    6. for every record that is the last one with its marker id, the carrier of that id ends up
       with exactly the record's components — serialising it again gives back the record, so
       component types recorded as absent have been removed —,
    7. existing entities carrying none of the record ids keep their components. -/
theorem deserialize_merges (ops : List SOp) (ds : List EntityData) :
    ∃ w', (world ops).deserialize ds = .ok w' ∧
      (∀ e m, (e, m) ∈ (world ops).joinMarked → (e, m) ∈ w'.joinMarked) ∧
      (∀ e, e ∈ (world ops).alloc.joinEntities →
        e ∈ w'.alloc.joinEntities ∧ w'.mks.has e.id = (world ops).mks.has e.id) ∧
      (∀ m, m ∈ mentionedAll ds → ∃ e, (e, m) ∈ w'.joinMarked) ∧
      (∀ e, e ∈ w'.alloc.joinEntities → e ∉ (world ops).alloc.joinEntities →
        ∃ m, m ∈ mentionedAll ds ∧ (e, m) ∈ w'.joinMarked ∧ ∀ e0, (e0, m) ∉ (world ops).joinMarked) ∧
      (∀ m, m ∈ mentionedAll ds → (∀ e0, (e0, m) ∉ (world ops).joinMarked) →
        ∀ e, (e, m) ∈ w'.joinMarked → e ∉ (world ops).alloc.joinEntities) ∧
      (∀ l1 d l2, ds = l1 ++ d :: l2 → (∀ d', d' ∈ l2 → d'.marker ≠ d.marker) →
        ∃ e, (e, d.marker) ∈ w'.joinMarked ∧ w'.recOf e d.marker = some d) ∧
      (∀ e, e ∈ (world ops).alloc.joinEntities → (∀ d, d ∈ ds → (e, d.marker) ∉ w'.joinMarked) →
        sget w'.alloc w'.cp e = sget (world ops).alloc (world ops).cp e ∧
        sget w'.alloc w'.cr e = sget (world ops).alloc (world ops).cr e ∧
        sget w'.alloc w'.ce e = sget (world ops).alloc (world ops).ce e) ∧
      (w'.joinMarked.map (·.2)).Nodup := by
  obtain ⟨s, h⟩ := run_inv ops
  have hI : SInv (world ops) s := h.inv
  obtain ⟨w', s', hd, hI', c1, c2, c3, c4, c5, c6, c7⟩ := deserialize_concrete hI ds
  exact ⟨w', hd, c1, c2, c3, c4, c5, c6, c7, (inv_concrete hI').2⟩

/-- Loading the same data twice changes nothing the second time as far as entities and markers
    are concerned: no entity is created by the repeated load. -/
theorem reload_creates_nothing (ops : List SOp) (ds : List EntityData) (w1 : SW)
    (h1 : (world ops).deserialize ds = .ok w1) :
    ∃ w2, w1.deserialize ds = .ok w2 ∧
      ∀ e, e ∈ w2.alloc.joinEntities → e ∈ w1.alloc.joinEntities := by
  have hw : world (ops ++ [.deserialize ds]) = w1 := by
    have hrun : ∀ (l : List SOp) (x : SLWorld) (op : SOp),
        (x.runFrom (l ++ [op])).1 = ((x.runFrom l).1.step op).1 := by
      intro l
      induction l with
      | nil => intro x op; simp [SLWorld.runFrom]
      | cons a l ih => intro x op; simp only [List.cons_append, SLWorld.runFrom]; exact ih _ op
    have : (SLWorld.run (ops ++ [.deserialize ds])).1 = ((SLWorld.run ops).1.step (.deserialize ds)).1 :=
      hrun ops {} _
    unfold world
    rw [this]
    have h1' : (SLWorld.run ops).1.w.deserialize ds = .ok w1 := h1
    simp [SLWorld.step, h1', SLWorld.outRes]
  obtain ⟨w2, hd, _, _, _, c4, _⟩ := deserialize_merges (ops ++ [.deserialize ds]) ds
  rw [hw] at hd c4
  refine ⟨w2, hd, ?_⟩
  intro e he
  apply Classical.byContradiction
  intro hn
  obtain ⟨m, hm, _, hu⟩ := c4 e he hn
  -- every mentioned id already has a carrier in `w1`
  obtain ⟨w1', h1', _, _, a3, _⟩ := deserialize_merges ops ds
  rw [h1] at h1'
  cases h1'
  obtain ⟨e0, he0⟩ := a3 m hm
  exact hu e0 he0

/-! ### Non-vacuity -/

/-- A world with two marked entities is loaded with data that knows marker 1, mentions unknown
    markers 5 and 9 (above the counter) and records `P` as absent for marker 1: marker 1 is
    updated in place and loses `P`, exactly two entities are created, the counter ends at 10,
    and the next `mark` gets id 10. -/
example :
    let x := (SLWorld.run [.create false, .create false, .create false, .setP 1 (some 4),
      .mark 0, .mark 1,
      .deserialize [{ marker := 1, p := none, r := some (5, 1), e := none },
                    { marker := 5, p := some 2, r := none, e := some (.one 9) }],
      .mark 2]).1
    (x.w.view.map (fun v => (v.ent, v.marker, v.p)), x.w.ma.index) =
      ([(⟨0, 1⟩, some 0, none), (⟨1, 1⟩, some 1, none), (⟨2, 1⟩, some 10, none),
        (⟨3, 1⟩, some 5, some 2), (⟨4, 1⟩, some 9, none)], 11) := by decide +kernel

/-- Stale mapping: the carrier of marker 0 is deleted and its index reused by an unmarked
    entity; reloading creates a fresh carrier instead of trusting the mapping. -/
example :
    let x := (SLWorld.run [.create false, .mark 0, .serialize, .delNow 0, .create false,
      .deserialize [{ marker := 0, p := some 1, r := none, e := none }]]).1
    x.w.view.map (fun v => (v.ent, v.marker, v.p)) =
      [(⟨0, 2⟩, none, none), (⟨1, 1⟩, some 0, some 1)] := by decide +kernel

end SpecsModel.C15
