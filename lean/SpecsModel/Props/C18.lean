/-
  C18 — Derived component and save/load conversions behave as field-wise definitions.
  Property theorems only; helper lemmas live in SpecsModel/Derive/Lemmas*.lean.

  Quantifier: every type definition of the grammar `Shape` (named structs, tuple structs, enums
  with unit / tuple / named variants; any number of fields; fields of type `Entity`, of a type
  covered by the blanket impl, of a generic parameter, or of another such definition applied to
  type arguments — to any nesting depth; any fields marked `convert_save_load_skip_convert`;
  any forwarded or other attributes on fields and variants; `convertible`: every conversion call
  the macro generates has an impl to resolve to, i.e. the program type-checks), every impl environment for its
  generic parameters that itself satisfies the property (`GoodEnv`; the empty environment for
  closed types), every marker mapping, and every value of the type (`wt`).

  The model is of the macros' meaning (see Derive/Model.lean). The real `Error` type is
  `Infallible`: a missing marker is an `unwrap` panic, which is the "error" of (c).
-/
import SpecsModel.Derive.LemmasShape
namespace SpecsModel.C18
open SpecsModel SpecsModel.Derive

/-! ## (a) field-wise definition -/

/-- A field is converted by its own type's conversion unless it is marked to skip conversion, in
    which case it is cloned unchanged. -/
theorem field_into (f : Field) (env : List Impl) (ids : Ids) (v : Val) :
    (implField f env).into ids v = if f.skip then .ok (.keep v) else (implTy f.ty env).into ids v := by
  cases h : f.skip
  · rw [implField_noskip env h]; simp
  · rw [implField_skip env h]; simp [Impl.skipped]

theorem field_from (f : Field) (env : List Impl) (ents : Ents) (d : DVal) :
    (implField f env).from_ ents d =
      if f.skip then (match d with | .keep v => .ok v | _ => .ub illTyped) else (implTy f.ty env).from_ ents d := by
  cases h : f.skip
  · rw [implField_noskip env h]; simp
  · rw [implField_skip env h]; cases d <;> simp [Impl.skipped]

/-- Entity-valued fields go through the marker mapping (and panic on `None`). -/
theorem entity_into (env : List Impl) (ids : Ids) (e : Entity) :
    (implTy .entity env).into ids (.ent e) =
      match ids e with
      | some m => .ok (.marker m)
      | none => .panic unwrapNone := by
  rw [implTy]; rfl

theorem entity_from (env : List Impl) (ents : Ents) (m : Marker) :
    (implTy .entity env).from_ ents (.marker m) =
      match ents m with
      | some e => .ok (.ent e)
      | none => .panic unwrapNone := by
  rw [implTy]; rfl

/-- Fields of blanket-impl types are cloned. -/
theorem plain_into (p : PTy) (env : List Impl) (ids : Ids) (pv : PVal) :
    (implTy (.plain p) env).into ids (.plain pv) = .ok (.plain pv) := by
  rw [implTy]; rfl

/-- A field whose type is a generic parameter uses the impl supplied for that parameter. -/
theorem param_impl (n : Nat) (env : List Impl) (i : Impl) (h : env[n]? = some i) :
    implTy (.param n) env = i := by
  rw [implTy]; simp [h]

/-- A field of another deriving type uses that type's derived impl, instantiated with the impls
    of the type arguments. -/
theorem nested_impl (s : Shape) (args : List Ty) (env : List Impl) :
    implTy (.nested s args) env = implShape s (implTys args env) := by
  rw [implTy]

theorem implTys_get (args : List Ty) (env : List Impl) (i : Nat) :
    (implTys args env)[i]? = (args[i]?).map (fun t => implTy t env) := by
  induction args generalizing i with
  | nil => rw [implTys]; simp
  | cons t ts ih =>
    rw [implTys]
    cases i with
    | zero => simp
    | succ i => simpa using ih i

/-- Field-wise conversion with order preserved: the derived `convert_into` of a struct with
    named fields yields a struct of as many fields whose i-th field is the i-th declared field's
    conversion of the i-th field of the input. -/
theorem named_struct_into (nm : String) (k : Nat) (fs : List Field) (env : List Impl) (ids : Ids) (v : Val) (d : DVal)
    (h : (implShape (.namedStruct nm k fs) env).into ids v = .ok d) :
    ∃ vs ds, v = .struct vs ∧ d = .struct ds ∧ vs.length = fs.length ∧ ds.length = fs.length ∧
      ∀ (i : Nat) (f : Field), fs[i]? = some f →
        ∃ vi di, vs[i]? = some vi ∧ ds[i]? = some di ∧ (implField f env).into ids vi = .ok di := by
  rw [implShape] at h
  cases v <;> simp [Impl.ofStruct] at h
  rename_i vs
  obtain ⟨ds, hds, rfl⟩ := map_eq_ok.mp h
  obtain ⟨h1, h2, h3⟩ := implFields_into_fieldwise fs env ids vs ds hds
  exact ⟨vs, ds, rfl, rfl, h1, h2, h3⟩

/-- The same for tuple structs. -/
theorem tuple_struct_into (nm : String) (k : Nat) (fs : List Field) (env : List Impl) (ids : Ids) (v : Val) (d : DVal)
    (h : (implShape (.tupleStruct nm k fs) env).into ids v = .ok d) :
    ∃ vs ds, v = .struct vs ∧ d = .struct ds ∧ vs.length = fs.length ∧ ds.length = fs.length ∧
      ∀ (i : Nat) (f : Field), fs[i]? = some f →
        ∃ vi di, vs[i]? = some vi ∧ ds[i]? = some di ∧ (implField f env).into ids vi = .ok di := by
  rw [implShape] at h
  cases v <;> simp [Impl.ofStruct] at h
  rename_i vs
  obtain ⟨ds, hds, rfl⟩ := map_eq_ok.mp h
  obtain ⟨h1, h2, h3⟩ := implFields_into_fieldwise fs env ids vs ds hds
  exact ⟨vs, ds, rfl, rfl, h1, h2, h3⟩

/-- Enums: the result is the data variant with the **same identifier** as the value's variant,
    and its fields are the field-wise conversions with that variant's declared fields. -/
theorem enum_into (nm : String) (k : Nat) (vars : List Variant) (env : List Impl) (ids : Ids) (v : Val) (d : DVal)
    (h : (implShape (.enum nm k vars) env).into ids v = .ok d) :
    ∃ n vs ds var, v = .variant n vs ∧ d = .variant n ds ∧
      vars.find? (fun x => x.name = n) = some var ∧ var.name = n ∧
      vs.length = var.fields.length ∧ ds.length = var.fields.length ∧
      ∀ (i : Nat) (f : Field), var.fields[i]? = some f →
        ∃ vi di, vs[i]? = some vi ∧ ds[i]? = some di ∧ (implField f env).into ids vi = .ok di := by
  rw [implShape] at h
  cases v <;> simp [Impl.ofEnum] at h
  rename_i n vs
  rw [implVariants_into] at h
  cases hf : vars.find? (fun x => x.name = n) with
  | none => simp [hf] at h
  | some var =>
    simp only [hf] at h
    obtain ⟨ds, hds, rfl⟩ := map_eq_ok.mp h
    obtain ⟨h1, h2, h3⟩ := implFields_into_fieldwise var.fields env ids vs ds hds
    have hn : var.name = n := by simpa using List.find?_some hf
    exact ⟨n, vs, ds, var, rfl, rfl, hf, hn, h1, h2, h3⟩

/-- `convert_from`, field-wise (structs). -/
theorem struct_from (s : Shape) (fs : List Field) (env : List Impl) (ents : Ents) (d : DVal) (v : Val)
    (hs : (∃ nm k, s = .namedStruct nm k fs) ∨ (∃ nm k, s = .tupleStruct nm k fs))
    (h : (implShape s env).from_ ents d = .ok v) :
    ∃ ds vs, d = .struct ds ∧ v = .struct vs ∧ ds.length = fs.length ∧ vs.length = fs.length ∧
      ∀ (i : Nat) (f : Field), fs[i]? = some f →
        ∃ di vi, ds[i]? = some di ∧ vs[i]? = some vi ∧ (implField f env).from_ ents di = .ok vi := by
  have h' : (Impl.ofStruct (implFields fs env)).from_ ents d = .ok v := by
    rcases hs with ⟨nm, k, rfl⟩ | ⟨nm, k, rfl⟩ <;> (rw [implShape] at h; exact h)
  cases d <;> simp [Impl.ofStruct] at h'
  rename_i ds
  obtain ⟨vs, hvs, rfl⟩ := map_eq_ok.mp h'
  obtain ⟨h1, h2, h3⟩ := implFields_from_fieldwise fs env ents ds vs hvs
  exact ⟨ds, vs, rfl, rfl, h1, h2, h3⟩

/-- `convert_from`, field-wise (enums): data variant to the variant of the same identifier. -/
theorem enum_from (nm : String) (k : Nat) (vars : List Variant) (env : List Impl) (ents : Ents) (d : DVal) (v : Val)
    (h : (implShape (.enum nm k vars) env).from_ ents d = .ok v) :
    ∃ n ds vs var, d = .variant n ds ∧ v = .variant n vs ∧
      vars.find? (fun x => x.name = n) = some var ∧
      ∀ (i : Nat) (f : Field), var.fields[i]? = some f →
        ∃ di vi, ds[i]? = some di ∧ vs[i]? = some vi ∧ (implField f env).from_ ents di = .ok vi := by
  rw [implShape] at h
  cases d <;> simp [Impl.ofEnum] at h
  rename_i n ds
  rw [implVariants_from] at h
  cases hf : vars.find? (fun x => x.name = n) with
  | none => simp [hf] at h
  | some var =>
    simp only [hf] at h
    obtain ⟨vs, hvs, rfl⟩ := map_eq_ok.mp h
    obtain ⟨_, _, h3⟩ := implFields_from_fieldwise var.fields env ents ds vs hvs
    exact ⟨n, ds, vs, var, rfl, rfl, hf, h3⟩

/-! ## (b) round trip -/

/-- Every entity of `l` has a marker and `ents` maps that marker back to it. -/
def MarkedInverse (ids : Ids) (ents : Ents) (l : List Entity) : Prop :=
  ∀ e ∈ l, ∃ m, ids e = some m ∧ ents m = some e

/-- An inverse exists only for injective mappings: `MarkedInverse` makes `ids` injective on `l`. -/
theorem markedInverse_injective {ids : Ids} {ents : Ents} {l : List Entity} (h : MarkedInverse ids ents l) :
    ∀ e₁ ∈ l, ∀ e₂ ∈ l, ids e₁ = ids e₂ → e₁ = e₂ := by
  intro e₁ h₁ e₂ h₂ heq
  obtain ⟨m₁, hm₁, hi₁⟩ := h e₁ h₁
  obtain ⟨m₂, hm₂, hi₂⟩ := h e₂ h₂
  rw [hm₁, hm₂] at heq
  cases heq
  rw [hi₁] at hi₂
  exact Option.some.inj hi₂

/-- Conversely, a mapping that is total and injective on `l` has an inverse there. -/
theorem injective_has_inverse (ids : Ids) (l : List Entity)
    (htot : ∀ e ∈ l, ∃ m, ids e = some m)
    (hinj : ∀ e₁ ∈ l, ∀ e₂ ∈ l, ids e₁ = ids e₂ → e₁ = e₂) :
    ∃ ents : Ents, MarkedInverse ids ents l :=
  ⟨fun m => l.find? (fun e => ids e = some m), by
    intro e he
    obtain ⟨m, hm⟩ := htot e he
    refine ⟨m, hm, ?_⟩
    show l.find? (fun e => ids e = some m) = some e
    cases hf : l.find? (fun e => ids e = some m) with
    | none =>
      have := List.find?_eq_none.mp hf e he
      simp [hm] at this
    | some e' =>
      have h1 : ids e' = some m := by simpa using List.find?_some hf
      have h2 : e' ∈ l := List.mem_of_find?_eq_some hf
      rw [hinj e' h2 e he (h1.trans hm.symm)]⟩

/-- **Round trip, per definition.** For every type definition `s`, instantiated with impls `env`
    for its generic parameters that have the property themselves, and every value `v` of it:
    if the marker mapping is (total and) inverted by `ents` on the entities that conversion
    visits in `v`, then `convert_from(convert_into(v))` is `Ok(v)`. -/
theorem round_trip_shape (s : Shape) (hc : s.convertible = true) (env : List Impl) (henv : GoodEnv env)
    (ids : Ids) (ents : Ents) (v : Val)
    (hv : (implShape s env).wt v = true) (hm : MarkedInverse ids ents ((implShape s env).occ v)) :
    ∃ d, (implShape s env).into ids v = .ok d ∧ (implShape s env).from_ ents d = .ok v := by
  have g := good_implShape s env hc henv
  obtain ⟨d, hd⟩ := g.into_ok ids v hv (fun e he => let ⟨m, h, _⟩ := hm e he; ⟨m, h⟩)
  refine ⟨d, hd, g.round_trip ids ents v d hv hd ?_⟩
  intro e he m hme
  obtain ⟨m', h1, h2⟩ := hm e he
  rw [h1] at hme; cases hme; exact h2

/-- **Round trip, closed types** (the form the correspondence check exercises). -/
theorem round_trip (ty : Ty) (hc : ty.convertible = true) (ids : Ids) (ents : Ents) (v : Val)
    (hv : hasTy ty v = true) (hm : MarkedInverse ids ents (entitiesOf ty v)) :
    ∃ d, convertInto ty ids v = .ok d ∧ convertFrom ty ents d = .ok v := by
  have g := good_implTy ty [] hc goodEnv_nil
  obtain ⟨d, hd⟩ := g.into_ok ids v hv (fun e he => let ⟨m, h, _⟩ := hm e he; ⟨m, h⟩)
  refine ⟨d, hd, g.round_trip ids ents v d hv hd ?_⟩
  intro e he m hme
  obtain ⟨m', h1, h2⟩ := hm e he
  rw [h1] at hme; cases hme; exact h2

/-- The derived impl of a definition has the whole property as soon as the impls of its type
    arguments have it (this is what makes nesting and generics compose). -/
theorem derived_impl_good (s : Shape) (args : List Ty) (hc : (Ty.nested s args).convertible = true)
    (env : List Impl) (henv : GoodEnv env) : Good (implTy (.nested s args) env) :=
  good_implTy _ env hc henv

/-! ## (c) a missing marker is a panic, and nothing else goes wrong -/

/-- If some entity the conversion visits has no marker, `convert_into` panics with the `unwrap`
    message — it does not return a partial or different value. -/
theorem missing_marker_panics (ty : Ty) (hc : ty.convertible = true) (ids : Ids) (v : Val) (hv : hasTy ty v = true)
    (h : ∃ e ∈ entitiesOf ty v, ids e = none) : convertInto ty ids v = .panic unwrapNone :=
  (good_implTy ty [] hc goodEnv_nil).into_panic ids v hv h

/-- `convert_into` has exactly two outcomes on values of the type: `Ok` when every visited entity
    is marked, the `unwrap` panic otherwise (never `ub`, never another panic). -/
theorem into_outcomes (ty : Ty) (hc : ty.convertible = true) (ids : Ids) (v : Val) (hv : hasTy ty v = true) :
    ((∀ e ∈ entitiesOf ty v, ∃ m, ids e = some m) ∧ ∃ d, convertInto ty ids v = .ok d) ∨
    ((∃ e ∈ entitiesOf ty v, ids e = none) ∧ convertInto ty ids v = .panic unwrapNone) := by
  have g := good_implTy ty [] hc goodEnv_nil
  rcases allMarked_or_unmarked ids (entitiesOf ty v) with h | h
  · exact Or.inl ⟨h, g.into_ok ids v hv h⟩
  · exact Or.inr ⟨h, g.into_panic ids v hv h⟩

/-- Loading side: if the marker of some visited entity is not resolved by `ents`, `convert_from`
    of the converted value panics with the `unwrap` message; otherwise it is `Ok` or that panic. -/
theorem unresolved_marker_panics (ty : Ty) (hc : ty.convertible = true) (ids : Ids) (ents : Ents) (v : Val) (d : DVal)
    (hv : hasTy ty v = true) (hd : convertInto ty ids v = .ok d)
    (h : ∃ e ∈ entitiesOf ty v, ∀ m, ids e = some m → ents m = none) :
    convertFrom ty ents d = .panic unwrapNone :=
  (good_implTy ty [] hc goodEnv_nil).from_panic ids ents v d hv hd h

theorem from_outcomes (ty : Ty) (hc : ty.convertible = true) (ids : Ids) (ents : Ents) (v : Val) (d : DVal)
    (hv : hasTy ty v = true) (hd : convertInto ty ids v = .ok d) :
    (∃ v', convertFrom ty ents d = .ok v') ∨ convertFrom ty ents d = .panic unwrapNone :=
  (good_implTy ty [] hc goodEnv_nil).from_total ids ents v d hv hd

/-- Skipped fields are not visited: entities inside them need no marker. -/
theorem skipped_field_not_visited (f : Field) (env : List Impl) (v : Val) (h : f.skip = true) :
    (implField f env).occ v = [] := by
  rw [implField_skip env h]; rfl

/-! ## (d) the generated data type -/

/-- The data type has the same kind, the same number of fields / variants in the same order,
    and its i-th field is `replace_field` of the i-th field. -/
theorem data_struct_fields (nm : String) (k : Nat) (fs : List Field) :
    dataShape (.namedStruct nm k fs) = .namedStruct (nm ++ "SaveloadData") (k + 1) (fs.map dataField) ∧
    dataShape (.tupleStruct nm k fs) = .tupleStruct (nm ++ "SaveloadData") (k + 1) (fs.map dataField) ∧
    ∀ i : Nat, (fs.map dataField)[i]? = (fs[i]?).map dataField :=
  ⟨rfl, rfl, fun _ => List.getElem?_map ..⟩

theorem data_enum_variants (nm : String) (k : Nat) (vars : List Variant) :
    dataShape (.enum nm k vars) = .enum (nm ++ "SaveloadData") (k + 1) (vars.map dataVariant) ∧
    ∀ i : Nat, ((vars.map dataVariant)[i]?).map DVariant.name = (vars[i]?).map Variant.name := by
  refine ⟨rfl, fun i => ?_⟩
  rw [List.getElem?_map]
  cases vars[i]? <;> simp [dataVariant_name]

theorem data_variant (v : Variant) :
    (dataVariant v).name = v.name ∧ (dataVariant v).attrs = replaceAttributes v.attrs ∧
    (dataVariant v).fields = v.fields.map dataField :=
  ⟨dataVariant_name v, dataVariant_attrs v, dataVariant_fields v⟩

/-- A forwarded attribute `#[convert_save_load_attr(t)]` on a field shows up as `#[t]` on the same
    field of the data type; nothing else appears there except the field's other attributes; the
    skip marker itself is removed. Order is preserved (`replaceAttributes` is a `filterMap`). -/
theorem data_field_attrs (f : Field) (t : String) :
    t ∈ (dataField f).attrs ↔ Attr.forward t ∈ f.attrs ∨ Attr.other t ∈ f.attrs :=
  mem_replaceAttributes f.attrs t

theorem forwarded_only (inners : List String) :
    replaceAttributes (inners.map Attr.forward) = inners ∧
    replaceAttributes (Attr.skip :: inners.map Attr.forward) = inners := by
  have h : replaceAttributes (inners.map Attr.forward) = inners := by
    induction inners with
    | nil => rfl
    | cons a l ih => simp only [replaceAttributes, List.map_cons, List.filterMap_cons] at ih ⊢; rw [ih]
  exact ⟨h, by simpa [replaceAttributes] using h⟩

/-- Skipped fields keep their type; other fields get `replace_entity_type` of their type;
    identifiers are kept. -/
theorem data_field_type (f : Field) :
    (dataField f).name = f.name ∧
    (f.skip = true → (dataField f).ty = .orig f.ty) ∧
    (f.skip = false → (dataField f).ty = replaceEntityType f.ty) := by
  refine ⟨rfl, ?_, ?_⟩ <;> intro h <;> simp [dataField, h]

/-- For a field of plain type the rewritten type — whatever mixture of tuples, arrays and
    parentheses `replace_entity_type` walked through — denotes the type itself, which is the
    `Data` of the blanket impl the conversion call resolves to. -/
theorem plain_data_type_is_self (p : PTy) : (replaceEntityType (.plain p)).normP = some p := by
  rw [replaceEntityType]; exact replP_norm p

/-- `Entity`, parameters and named types become projections `<T as ConvertSaveload<MA>>::Data`. -/
theorem path_data_type :
    replaceEntityType .entity = .proj .entity ∧
    (∀ n, replaceEntityType (.param n) = .proj (.param n)) ∧
    (∀ s args, replaceEntityType (.nested s args) = .proj (.nested s args)) :=
  ⟨rfl, fun _ => rfl, fun _ _ => rfl⟩

/-- A skipped field may have a type without any impl (e.g. not even serde-serializable, the
    `UnserializableType` of tests/saveload.rs): it is kept and cloned, no conversion is called. -/
theorem skipped_opaque_field (nm : Option String) (attrs : List Attr) (h : attrs.any Attr.isSkip = true)
    (env : List Impl) (ids : Ids) (ents : Ents) (n : Nat) :
    (Field.mk nm .opaque attrs).convertible = true ∧
    (implField (.mk nm .opaque attrs) env).wt (.opaque n) = true ∧
    (implField (.mk nm .opaque attrs) env).into ids (.opaque n) = .ok (.keep (.opaque n)) ∧
    (implField (.mk nm .opaque attrs) env).from_ ents (.keep (.opaque n)) = .ok (.opaque n) ∧
    (dataField (.mk nm .opaque attrs)).ty = .orig .opaque := by
  refine ⟨by simp [Field.convertible, h], ?_, ?_, ?_, ?_⟩
  · rw [implField]; simp [h, Impl.skipped, implTy, Impl.opaque]
  · rw [implField]; simp [h, Impl.skipped]
  · rw [implField]; simp [h, Impl.skipped]
  · simp [dataField, Field.skip, Field.attrs, Field.ty, h]

/-! ## (e) `#[derive(Component)]` -/

/-- No `storage` attribute: `DenseVecStorage<Self>`. -/
theorem storage_default (attrs : List TAttr) (h : ∀ a ∈ attrs, a.storagePath? = none) :
    implComponent attrs = .ok ⟨[⟨"DenseVecStorage", .none⟩], true⟩ := by
  simp [implComponent, findSome_storage_none attrs h]

/-- `#[storage(path<args>)]`: exactly the requested type, nothing appended. -/
theorem storage_explicit (pre post : List TAttr) (init : List Seg) (ident : String) (args : List String)
    (h : ∀ a ∈ pre, a.storagePath? = none) :
    implComponent (pre ++ .storage (init ++ [⟨ident, .angle args⟩]) :: post) =
      .ok ⟨init ++ [⟨ident, .angle args⟩], false⟩ := by
  simp [implComponent, findSome_storage_first pre post _ h]

/-- `#[storage(path)]` without type arguments: the requested path with `<Self>` appended. -/
theorem storage_implicit_self (pre post : List TAttr) (init : List Seg) (ident : String)
    (h : ∀ a ∈ pre, a.storagePath? = none) :
    implComponent (pre ++ .storage (init ++ [⟨ident, .none⟩]) :: post) =
      .ok ⟨init ++ [⟨ident, .none⟩], true⟩ := by
  simp [implComponent, findSome_storage_first pre post _ h]

/-- `impl_component` never panics on a non-empty path, and appends `<Self>` iff the last segment
    has no angle-bracketed arguments. -/
theorem storage_append_iff (attrs : List TAttr) (c : ComponentImpl) (h : implComponent attrs = .ok c) :
    ∃ last, c.storage.getLast? = some last ∧ (c.appendSelf = true ↔ ∀ a, last.args ≠ .angle a) := by
  simp only [implComponent] at h
  split at h
  · cases h
  · rename_i last hl
    split at h
    · cases h; exact ⟨last, hl, by simp_all⟩
    · cases h; refine ⟨last, hl, ?_⟩
      simp only [true_iff]
      intro a ha
      rename_i hne
      exact hne a ha

/-! ## Non-vacuity -/

namespace Ex
/-- `struct Inner<T> { t: T, #[convert_save_load_attr(serde(rename = "who"))] e: Entity }` -/
def inner : Shape := .namedStruct "Inner" 1
  [.mk (some "t") (.param 0) [], .mk (some "e") .entity [.forward "serde(rename = \"who\")"]]
/-- `enum Ev { Idle, Hit(Entity, #[convert_save_load_skip_convert] u32), Own { by: Inner<Entity>, n: (u32, bool) } }` -/
def ev : Shape := .enum "Ev" 0
  [.unit "Idle" [],
   .tuple "Hit" [] [.mk none .entity [], .mk none (.plain .u32) [.skip]],
   .named "Own" [] [.mk (some "by") (.nested inner [.entity]) [], .mk (some "n") (.plain (.tuple [.u32, .bool])) []]]
/-- `struct Top(Ev, Entity);` -/
def top : Ty := .nested (.tupleStruct "Top" 0 [.mk none (.nested ev []) [], .mk none .entity []]) []

def ids : Ids := fun e => if e.id < 3 then some (10 + e.id) else none
def ents : Ents := fun m => if 10 ≤ m ∧ m < 13 then some ⟨m - 10, 1⟩ else none
def v1 : Val := .struct [.variant "Own" [.struct [.ent ⟨2, 1⟩, .ent ⟨0, 1⟩], .plain (.seq [.int 7, .bool true])], .ent ⟨1, 1⟩]
def v2 : Val := .struct [.variant "Hit" [.ent ⟨3, 1⟩, .plain (.int 5)], .ent ⟨1, 1⟩]
def v3 : Val := .struct [.variant "Hit" [.ent ⟨1, 1⟩, .plain (.int 5)], .ent ⟨2, 1⟩]

example : top.convertible = true := by decide +kernel
example : hasTy top v1 = true := by decide +kernel
example : entitiesOf top v1 = [⟨2, 1⟩, ⟨0, 1⟩, ⟨1, 1⟩] := by decide +kernel
example : convertInto top ids v1 =
    .ok (.struct [.variant "Own" [.struct [.marker 12, .marker 10], .plain (.seq [.int 7, .bool true])], .marker 11]) := by
  decide +kernel
example : (convertInto top ids v1 >>= convertFrom top ents) = .ok v1 := by decide +kernel
/-- skipped field kept, variant identity preserved -/
example : convertInto top ids v3 = .ok (.struct [.variant "Hit" [.marker 11, .keep (.plain (.int 5))], .marker 12]) := by
  decide +kernel
example : (convertInto top ids v3 >>= convertFrom top ents) = .ok v3 := by decide +kernel
/-- entity 3 is unmarked: the `unwrap` panic -/
example : hasTy top v2 = true ∧ convertInto top ids v2 = .panic unwrapNone := by decide +kernel
/-- a non-injective marker mapping cannot be inverted: the round trip yields another value -/
example : (convertInto top (fun _ => some 10) v3 >>= convertFrom top ents)
    = .ok (.struct [.variant "Hit" [.ent ⟨0, 1⟩, .plain (.int 5)], .ent ⟨0, 1⟩]) := by decide +kernel
/-- forwarded attribute lands on the same field of the data type -/
example : (match dataShape inner with
    | .namedStruct n k fs => (n, k, fs.map (fun f => (f.name, f.attrs)))
    | _ => ("", 0, [])) = ("InnerSaveloadData", 2, [(some "t", []), (some "e", ["serde(rename = \"who\")"])]) := by
  decide +kernel
/-- `struct Mixed { #[convert_save_load_skip_convert] #[convert_save_load_attr(serde(skip))] o: Opaque, e: Entity }` -/
def mixed : Ty := .nested (.namedStruct "Mixed" 0
  [.mk (some "o") .opaque [.skip, .forward "serde(skip)"], .mk (some "e") .entity []]) []
example : mixed.convertible = true ∧
    convertInto mixed ids (.struct [.opaque 7, .ent ⟨0, 1⟩]) = .ok (.struct [.keep (.opaque 7), .marker 10]) ∧
    (convertInto mixed ids (.struct [.opaque 7, .ent ⟨0, 1⟩]) >>= convertFrom mixed ents) = .ok (.struct [.opaque 7, .ent ⟨0, 1⟩]) := by
  decide +kernel
example : implComponent [] = .ok ⟨[⟨"DenseVecStorage", .none⟩], true⟩ := by decide +kernel
example : implComponent [.other "derive(Debug)", .storage [⟨"specs", .none⟩, ⟨"VecStorage", .none⟩]]
    = .ok ⟨[⟨"specs", .none⟩, ⟨"VecStorage", .none⟩], true⟩ := by decide +kernel
example : implComponent [.storage [⟨"FlaggedStorage", .angle ["Self", "VecStorage<Self>"]⟩]]
    = .ok ⟨[⟨"FlaggedStorage", .angle ["Self", "VecStorage<Self>"]⟩], false⟩ := by decide +kernel
end Ex

end SpecsModel.C18
