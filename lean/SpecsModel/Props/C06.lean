/-
  C06 — A join visits exactly the intersection, once each, in index order.
  Property theorems only; helper lemmas live in SpecsModel/Join/Lemmas*.lean.

  Quantifier: every world `w` (stores of any kind with any membership, raw bit sets, entities),
  every member list `ms` (any arity — the Rust tuples stop at 16 —, any mix of `&storage`,
  `&mut storage`, `!&storage`, `.maybe()`, `&entities`, bit-set expressions, restricted storages,
  drains, entries, change sets), every visitor `f` (what the loop body writes through the mutable
  components), every index-space bound (`MAXIDX = 2^24` for hibitset).

  Level A (theorems `join_*`, `lend_*`): masks are sets, `BitSetLike::iter` is the ascending
  enumeration. Level B (`level_b_*`): hibitset's `BitIter` over the four-layer representation
  computes exactly that enumeration. Residual assumption: a 64-bit word ↔ ascending list of its
  set-bit positions (SpecsModel/Join/HiBitSet.lean header). Level C (`level_c_*`, end of file):
  that assumption proved — words are `Nat`s below `2^64`, the iterator and the bit-set operations
  are transcribed with machine-word operations and shown to refine Level B.
-/
import SpecsModel.Join.LemmasSpec
import SpecsModel.Join.LemmasHi
import SpecsModel.Join.LemmasHiOps
import SpecsModel.Join.WordPar
namespace SpecsModel.C06
open SpecsModel Join

/-- Index `i` is present in every required member and absent from every negated one
    (`.maybe()` / `entries()` never constrain). -/
def inJoin (w : JWorld) (ms : List Member) (i : Nat) : Bool := ms.all (fun m => (m.mask w).mem i)

/-- What the membership test of each member kind means. -/
theorem mask_meaning (w : JWorld) (i k : Nat) (m : Member) :
    ((Member.storage k).mask w).mem i = (w.lookup k i).isSome ∧
    ((Member.storageMut k).mask w).mem i = (w.lookup k i).isSome ∧
    ((Member.anti k).mask w).mem i = (w.lookup k i).isNone ∧
    ((Member.maybe m).mask w).mem i = true ∧
    (Member.entities.mask w).mem i = w.ents.mem i := by
  simp only [Member.mask, Mask.mem_ofSet, Mask.mem_not, Mask.mem_all, JWorld.lookup]
  cases (w.store k).mask.mem i <;> simp

/-- The keys of a join: strictly ascending (so each index at most once) … -/
theorem keys_ascending (bound : Nat) (w : JWorld) (ms : List Member) :
    ((tupleMask w ms).toList bound).Pairwise (· < ·) := Mask.toList_sorted bound _

/-- … and exactly the indices that pass every member's membership test (inside the index space
    when no member constrains the join). -/
theorem keys_exact (bound : Nat) (w : JWorld) (ms : List Member) (i : Nat) :
    i ∈ (tupleMask w ms).toList bound ↔
      inJoin w ms i = true ∧ ((tupleMask w ms).neg = true → i < bound) := by
  rw [Mask.mem_toList, mem_tupleMask]; rfl

/-- Closed form: with all bit sets inside the index space, the keys are `0..bound` filtered. -/
theorem keys_eq_filter (bound : Nat) (w : JWorld) (hw : w.Bdd bound) (ms : List Member) :
    (tupleMask w ms).toList bound = (List.range bound).filter (inJoin w ms) := by
  rw [Mask.toList_eq_filter bound _ (fun _ => tupleMask_bdd hw ms)]
  congr 1
  funext i
  exact mem_tupleMask w ms i

/-- **C06 (a)+(b), sequential join.** `for item in ms.join() { visit }` has defined behaviour (no
    unchecked access outside a mask, no "accessed same index twice" panic), delivers exactly one
    item per key, in ascending key order, and the item at `i` consists of the members' own
    components at `i` as found in the world *before* the join. -/
theorem join_items (bound : Nat) (f : Nat → Int → Int) (w : JWorld) (ms : List Member) :
    ∃ w', join bound f w ms =
      .ok (((tupleMask w ms).toList bound).map
            (fun i => (i, ms.map (fun m => (m.open w).item i))), w') := by
  have hk := Mask.toList_nodup bound (tupleMask w ms)
  have hr : ∀ om ∈ ms.map (Member.open w), ∀ i ∈ (tupleMask w ms).toList bound, om.ready i = true := by
    intro om ho i hi
    obtain ⟨m, hm, rfl⟩ := List.mem_map.mp ho
    apply Member.ready_open
    have := ((Mask.mem_toList bound _ i).mp hi).1
    rw [mem_tupleMask, List.all_eq_true] at this
    exact this m hm
  simp only [join, JoinIter.new, runKeys_closed f _ _ hk hr, List.map_map]
  exact ⟨_, rfl⟩

/-- (a) as an equation on indices. -/
theorem join_indices (bound : Nat) (f : Nat → Int → Int) (w : JWorld) (hw : w.Bdd bound)
    (ms : List Member) :
    ∃ out w', join bound f w ms = .ok (out, w') ∧
      out.map (·.1) = (List.range bound).filter (inJoin w ms) := by
  obtain ⟨w', h⟩ := join_items bound f w ms
  refine ⟨_, w', h, ?_⟩
  rw [List.map_map, ← keys_eq_filter bound w hw ms]
  simp [Function.comp_def]

/-- (b) Every component of the item at a key equals the direct lookup at that index;
    `.maybe()` reports `Some` exactly for members. -/
theorem item_is_lookup (bound : Nat) (w : JWorld) (ms : List Member) (i : Nat)
    (hi : i ∈ (tupleMask w ms).toList bound) (m : Member) (hm : m ∈ ms) :
    m.Agrees w i ((m.open w).item i) := by
  apply Member.item_agrees
  have := ((Mask.mem_toList bound _ i).mp hi).1
  rw [mem_tupleMask, List.all_eq_true] at this
  exact this m hm

theorem maybe_some_iff (w : JWorld) (m : Member) (i : Nat) :
    (∃ it, ((Member.maybe m).open w).item i = .opt (some it)) ↔ (m.mask w).mem i = true := by
  simp only [Member.open, OMember.item]
  by_cases h : (m.mask w).mem i = true <;> simp [h]

/-- **C06 (c), step level.** A write through a mutable item component changes the value at that
    index of that store and nothing else (mask, other indices; other stores are other values). -/
theorem write_frame (s : Store) (i j : Nat) (v : Int) :
    (s.write i v).vals.get j = (if j = i then v else s.vals.get j) ∧ (s.write i v).mask = s.mask := by
  simp [Store.write, DMap.get_set]

/-- **C06 (c), frame of a whole join.** A store that no member borrows exclusively is untouched;
    bit sets and entities are untouched. -/
theorem join_frame (bound : Nat) (f : Nat → Int → Int) (w w' : JWorld) (ms : List Member)
    (out : List (Nat × List Item)) (h : join bound f w ms = .ok (out, w')) (k : Nat)
    (hk : k ∉ ms.filterMap Member.touches) :
    w'.store k = w.store k ∧ w'.sets = w.sets ∧ w'.ents = w.ents ∧ w'.gens = w.gens := by
  have hkeys := Mask.toList_nodup bound (tupleMask w ms)
  have hr : ∀ om ∈ ms.map (Member.open w), ∀ i ∈ (tupleMask w ms).toList bound, om.ready i = true := by
    intro om ho i hi
    obtain ⟨m, hm, rfl⟩ := List.mem_map.mp ho
    apply Member.ready_open
    have := ((Mask.mem_toList bound _ i).mp hi).1
    rw [mem_tupleMask, List.all_eq_true] at this
    exact this m hm
  simp only [join, JoinIter.new, runKeys_closed f _ _ hkeys hr, Out.ok.injEq, Prod.mk.injEq] at h
  obtain ⟨_, rfl⟩ := h
  refine ⟨closeAll_frame k _ w ?_, closeAll_other _ w⟩
  intro om ho hkey
  simp only [List.map_map, List.mem_map, Function.comp] at ho
  obtain ⟨m, hm, rfl⟩ := ho
  rw [OMember.key_advs, Member.key_open] at hkey
  exact hk (List.mem_filterMap.mpr ⟨m, hm, hkey⟩)

/-- **C06 (c), visibility.** After joining with `&mut storage_k` (exclusive borrows pairwise
    distinct, as the borrow checker enforces), the value of `k` at every visited index is the
    visitor's result on the old value, every other index keeps its value, membership is unchanged. -/
theorem join_writes_visible (bound : Nat) (f : Nat → Int → Int) (w w' : JWorld) (ms : List Member)
    (out : List (Nat × List Item)) (h : join bound f w ms = .ok (out, w')) (hd : MutDistinct ms)
    (k : Nat) (hk : Member.storageMut k ∈ ms ∨ Member.restrictedMut k ∈ ms) :
    (w'.store k).mask = (w.store k).mask ∧
    ∀ j, (w'.store k).vals.get j =
      if j ∈ (tupleMask w ms).toList bound then f k ((w.store k).vals.get j) else (w.store k).vals.get j := by
  have hkeys := Mask.toList_nodup bound (tupleMask w ms)
  have hr : ∀ om ∈ ms.map (Member.open w), ∀ i ∈ (tupleMask w ms).toList bound, om.ready i = true := by
    intro om ho i hi
    obtain ⟨m, hm, rfl⟩ := List.mem_map.mp ho
    apply Member.ready_open
    have := ((Mask.mem_toList bound _ i).mp hi).1
    rw [mem_tupleMask, List.all_eq_true] at this
    exact this m hm
  simp only [join, JoinIter.new, runKeys_closed f _ _ hkeys hr, Out.ok.injEq, Prod.mk.injEq] at h
  obtain ⟨_, rfl⟩ := h
  have hnd : (((ms.map (Member.open w)).map
      (OMember.advs f ((tupleMask w ms).toList bound))).filterMap OMember.key).Nodup := by
    have : ((ms.map (Member.open w)).map
        (OMember.advs f ((tupleMask w ms).toList bound))).filterMap OMember.key
        = ms.filterMap Member.touches := by
      rw [List.map_map, List.filterMap_map]
      congr 1
      funext m
      simp [OMember.key_advs, Member.key_open]
    rw [this]; exact hd
  rcases hk with hk | hk
  · have hst := closeAll_at k _ w
      ((Member.open w (.storageMut k)).advs f ((tupleMask w ms).toList bound))
      (((tupleMask w ms).toList bound).foldl (Store.bump (f k)) (w.store k)) hnd
      (List.mem_map.mpr ⟨_, List.mem_map.mpr ⟨_, hk, rfl⟩, rfl⟩)
      (by rw [OMember.key_advs]; rfl) (by simp [Member.open, advs_excl, OMember.back])
    rw [hst]
    exact ⟨(foldl_bump_mask _ _ _).1, foldl_bump_vals _ _ _ hkeys⟩
  · have hst := closeAll_at k _ w
      ((Member.open w (.restrictedMut k)).advs f ((tupleMask w ms).toList bound))
      (((tupleMask w ms).toList bound).foldl (Store.bump (f k)) (w.store k)) hnd
      (List.mem_map.mpr ⟨_, List.mem_map.mpr ⟨_, hk, rfl⟩, rfl⟩)
      (by rw [OMember.key_advs]; rfl) (by simp [Member.open, advs_exclR, OMember.back])
    rw [hst]
    exact ⟨(foldl_bump_mask _ _ _).1, foldl_bump_vals _ _ _ hkeys⟩

/-- (c) for an optional mutable member `(&mut storage_k).maybe()`: written exactly where the join
    visited *and* the component exists. -/
theorem join_maybe_writes_visible (bound : Nat) (f : Nat → Int → Int) (w w' : JWorld) (ms : List Member)
    (out : List (Nat × List Item)) (h : join bound f w ms = .ok (out, w')) (hd : MutDistinct ms)
    (k : Nat) (hk : Member.maybe (.storageMut k) ∈ ms) :
    (w'.store k).mask = (w.store k).mask ∧
    ∀ j, (w'.store k).vals.get j =
      if j ∈ (tupleMask w ms).toList bound ∧ (w.store k).mask.mem j = true
      then f k ((w.store k).vals.get j) else (w.store k).vals.get j := by
  rw [join_world bound f w w' ms out h]
  have hst := worldAfter_store f w ms ((tupleMask w ms).toList bound) hd _ hk k rfl
    ((((tupleMask w ms).toList bound).filter (Mask.ofSet (w.store k).mask).mem).foldl
      (Store.bump (f k)) (w.store k))
    (by simp [Member.open, Member.mask, advs_maybe, advs_excl, OMember.back])
  rw [hst]
  refine ⟨(foldl_bump_mask _ _ _).1, fun j => ?_⟩
  rw [foldl_bump_vals _ _ _ ((Mask.toList_nodup bound _).sublist List.filter_sublist)]
  simp [List.mem_filter]

/-- (c) for a drain: exactly the visited indices leave the store; the values are untouched. -/
theorem join_drain_removes (bound : Nat) (f : Nat → Int → Int) (w w' : JWorld) (ms : List Member)
    (out : List (Nat × List Item)) (h : join bound f w ms = .ok (out, w')) (hd : MutDistinct ms)
    (k : Nat) (hk : Member.drain k ∈ ms) :
    (w'.store k).vals = (w.store k).vals ∧
    ∀ j, (w'.store k).mask.mem j =
      ((w.store k).mask.mem j && !((tupleMask w ms).toList bound).contains j) := by
  rw [join_world bound f w w' ms out h]
  obtain ⟨st', h1, h2, _, h4⟩ := advs_drain f k ((tupleMask w ms).toList bound) (w.store k)
  have hst := worldAfter_store f w ms ((tupleMask w ms).toList bound) hd _ hk k rfl st'
    (by simp only [Member.open]; rw [h1]; rfl)
  rw [hst]
  exact ⟨h2, h4⟩

/-- **C06 (d), lending variant.** `while let Some(item) = it.next() { visit }` on the lending
    iterator delivers the same item list as the `for` loop of the sequential join. -/
theorem lend_same_items (bound : Nat) (f : Nat → Int → Int) (w : JWorld) (ms : List Member) :
    ∃ it', JoinIter.run f ((tupleMask w ms).toList bound).length (JoinIter.new bound w ms) =
      .ok (((tupleMask w ms).toList bound).map
            (fun i => (i, ms.map (fun m => (m.open w).item i))), it') := by
  have hk := Mask.toList_nodup bound (tupleMask w ms)
  have hr : ∀ om ∈ ms.map (Member.open w), ∀ i ∈ (tupleMask w ms).toList bound, om.ready i = true := by
    intro om ho i hi
    obtain ⟨m, hm, rfl⟩ := List.mem_map.mp ho
    apply Member.ready_open
    have := ((Mask.mem_toList bound _ i).mp hi).1
    rw [mem_tupleMask, List.all_eq_true] at this
    exact this m hm
  have hrun := run_eq_runKeys f ((tupleMask w ms).toList bound).length (JoinIter.new bound w ms)
    (Nat.le_refl _)
  rw [hrun]
  simp only [JoinIter.new, runKeys_closed f _ _ hk hr, List.map_map]
  exact ⟨_, rfl⟩

/-- **C06 (d), lookup by entity.** `JoinLendIter::get(e, &entities)` returns an item exactly when
    `e` is alive and its index is in the joined mask — and then it is the item of that index,
    obtained without undefined behaviour. -/
theorem lend_get_iff (bound : Nat) (w : JWorld) (ms : List Member) (alive : Entity → Bool) (e : Entity) :
    ((JoinIter.new bound w ms).lendGet alive e).isSome = (alive e && inJoin w ms e.id) ∧
    (alive e = true → inJoin w ms e.id = true →
      ∃ it', (JoinIter.new bound w ms).lendGet alive e =
        some (.ok (ms.map (fun m => (m.open w).item e.id), it'))) := by
  have hm : (JoinIter.new bound w ms).mask.mem e.id = inJoin w ms e.id := mem_tupleMask w ms e.id
  constructor
  · unfold JoinIter.lendGet
    rw [hm]
    cases alive e <;> cases inJoin w ms e.id <;> simp
  · intro ha hi
    have hr : ∀ om ∈ ms.map (Member.open w), om.ready e.id = true := by
      intro om ho
      obtain ⟨m, hmm, rfl⟩ := List.mem_map.mp ho
      apply Member.ready_open
      have := hi
      simp only [inJoin, List.all_eq_true] at this
      exact this m hmm
    unfold JoinIter.lendGet
    rw [hm, hi, ha]
    simp only [Bool.and_self, if_true, JoinIter.new, getAll_of_ready _ _ hr, List.map_map]
    exact ⟨_, rfl⟩

/-- `get_unchecked(i)`: the mask test only. -/
theorem lend_get_unchecked_iff (bound : Nat) (w : JWorld) (ms : List Member) (i : Nat) :
    ((JoinIter.new bound w ms).lendGetUnchecked i).isSome = inJoin w ms i := by
  have hm : (JoinIter.new bound w ms).mask.mem i = inJoin w ms i := mem_tupleMask w ms i
  unfold JoinIter.lendGetUnchecked
  rw [hm]
  cases inJoin w ms i <;> simp

/-- **C06 (e), Level B.** `BitIter::next` over the four-layer representation: every call pops
    the head of `items`; drained, a fresh iterator over well-formed layers (ascending words, summary
    soundness) yields exactly the members, ascending, each once. -/
theorem level_b_next (L : HiBitSet.Layers) (s : HiBitSet.It) :
    (match HiBitSet.next L s with
     | some (x, s') => HiBitSet.items L s = x :: HiBitSet.items L s'
     | none => HiBitSet.items L s = []) := HiBitSet.next_items L s

theorem level_b_enumerates (L : HiBitSet.Layers) (h : HiBitSet.WF L) (n : Nat)
    (hn : (HiBitSet.items L (HiBitSet.fresh L)).length ≤ n) :
    HiBitSet.collect L n (HiBitSet.fresh L) = (List.range MAXIDX).filter L.contains := by
  rw [HiBitSet.collect_items L n _ hn, HiBitSet.items_fresh_eq h]
  rfl

/-- Level A's "ascending members of the mask" is what Level B computes: if well-formed layers `L`
    represent the mask (same `contains` on the index space), `BitIter` yields `Mask.toList`. -/
theorem level_b_refines_level_a (L : HiBitSet.Layers) (h : HiBitSet.WF L) (m : Mask)
    (hb : m.Bdd MAXIDX) (hrep : ∀ i, i < MAXIDX → L.contains i = m.mem i) (n : Nat)
    (hn : (HiBitSet.items L (HiBitSet.fresh L)).length ≤ n) :
    HiBitSet.collect L n (HiBitSet.fresh L) = m.toList MAXIDX := by
  rw [level_b_enumerates L h n hn, Mask.toList_eq_filter MAXIDX m (fun _ => hb)]
  apply List.filter_congr
  intro i hi
  exact hrep i (List.mem_range.mp hi)

/-- **C06 (e), Level B, the hypotheses are met by hibitset.** Every `BitSet` produced by any
    sequence of in-range `add` / `remove` calls from `BitSet::new()` is well-formed (ascending words,
    summary soundness) and has exactly the members of its Level-A counterpart … -/
theorem level_b_bitset (ops : List (Bool × Nat)) (h : ∀ o ∈ ops, o.2 < MAXIDX) :
    HiBitSet.WF (layersAfter ops) ∧
    ∀ i, i < MAXIDX → (layersAfter ops).contains i = (bsetAfter ops).mem i := by
  obtain ⟨h1, h2⟩ := represents_after ops h
  exact ⟨h1, fun i hi => by rw [h2 i hi, Mask.mem_ofSet]⟩

/-- … and so is every composite a join is opened with (`BitSetAnd/Or/Not/Xor/All`, the `BitAnd`
    tree of a tuple): for every world whose base bit sets are represented (`LRepr`) and every member
    list, hibitset's `BitIter` over the layered tuple mask yields exactly the Level-A key list of
    the join — ascending, each key once. -/
theorem level_b_join_keys (lw : LWorld) (w : JWorld) (h : LRepr lw w) (hw : w.Bdd MAXIDX)
    (ms : List Member) (n : Nat)
    (hn : (HiBitSet.items (tupleLayers lw ms) (HiBitSet.fresh (tupleLayers lw ms))).length ≤ n) :
    HiBitSet.collect (tupleLayers lw ms) n (HiBitSet.fresh (tupleLayers lw ms)) =
      (tupleMask w ms).toList MAXIDX := by
  obtain ⟨hwf, hrep⟩ := tupleLayers_represents h ms
  exact level_b_refines_level_a _ hwf _ (tupleMask_bdd hw ms) hrep n hn

/-- The representation hypothesis `LRepr` is met by every world whose bit sets arose from `add` /
    `remove` histories (store masks, raw bit sets, the entities mask): the Level-B world built from
    the same histories represents it. -/
theorem level_b_world (lw : LWorld) (w : JWorld) (hs hb : Nat → List (Bool × Nat)) (he : List (Bool × Nat))
    (bs : ∀ k, (∀ o ∈ hs k, o.2 < MAXIDX) ∧ lw.stores k = layersAfter (hs k) ∧ (w.store k).mask = bsetAfter (hs k))
    (bb : ∀ b, (∀ o ∈ hb b, o.2 < MAXIDX) ∧ lw.sets b = layersAfter (hb b) ∧ w.sets.get b = bsetAfter (hb b))
    (be : (∀ o ∈ he, o.2 < MAXIDX) ∧ lw.ents = layersAfter he ∧ w.ents = bsetAfter he) :
    LRepr lw w where
  stores k := by rw [(bs k).2.1, (bs k).2.2]; exact represents_after _ (bs k).1
  sets b := by rw [(bb b).2.1, (bb b).2.2]; exact represents_after _ (bb b).1
  ents := by rw [be.2.1, be.2.2]; exact represents_after _ be.1

/-! ### Non-vacuity -/

/-- A world whose stores straddle the first layer boundary 63/64; entities 0..69. (Array-backed
    sets are evaluated by the kernel, so the Level-A example stays below 70; the deeper boundaries
    4095/4096 and 262143/262144 are in the Level-B example, whose words are lists.) -/
def exWorld : JWorld :=
  let s0 : Store :=
    { kind := .vec,
      mask := ((((BSet.empty.add 5).add 62).add 63).add 64).add 65,
      vals := (((((DMap.empty 0).set 5 50).set 62 620).set 63 630).set 64 640).set 65 650 }
  let s1 : Store :=
    { kind := .dense,
      mask := (((BSet.empty.add 63).add 64).add 65).add 66,
      vals := ((((DMap.empty 0).set 63 1).set 64 2).set 65 3).set 66 4 }
  let s2 : Store := { kind := .hash, mask := BSet.empty.add 64, vals := (DMap.empty 0).set 64 9 }
  { stores := (((DMap.empty {}).set 0 s0).set 1 s1).set 2 s2,
    ents := ⟨Array.replicate 70 true⟩ }

/-- `(&s0, &mut s1, !&s2, (&s2).maybe(), &entities)` visits 63 and 65 — both sides of the layer
    boundary 63/64 —, skips 64 (negated member present), increments s1 there only. -/
example :
    (match join 100 (fun _ v => v + 1) exWorld
        [.storage 0, .storageMut 1, .anti 2, .maybe (.storage 2), .entities] with
     | .ok (out, w') => (out.map (·.1), out.map (fun x => x.2.length),
          (w'.store 1).vals.get 63, (w'.store 1).vals.get 64, (w'.store 1).vals.get 65)
     | _ => ([], [], 0, 0, 0))
    = ([63, 65], [5, 5], 2, 2, 4) := by decide +kernel

/-- An unconstrained join (`(!&s2, (&s0).maybe())`) ranges over the whole index space. -/
example :
    (match joinTake 100 3 (fun _ v => v) exWorld [.anti 2, .maybe (.storage 0)] with
     | .ok (out, _) => out.map (·.1)
     | _ => []) = [0, 1, 2] := by decide +kernel

/-- Level B on a set straddling 63/64, 4095/4096 and 262143/262144: layers built by `BitSet::add`. -/
def exLayers : HiBitSet.Layers :=
  (((((((HiBitSet.Layers.empty.add 63).add 64).add 4095).add 4096).add 5).add 262144).add 262143).add
    16777215

example : HiBitSet.collect exLayers 10 (HiBitSet.fresh exLayers)
    = [5, 63, 64, 4095, 4096, 262143, 262144, 16777215] := by
  rw [HiBitSet.collect_items _ _ _ (by decide +kernel)]
  decide +kernel

/-- … and after `BitSet::remove` of both sides of a boundary. -/
example : HiBitSet.items ((exLayers.remove 4095).remove 64) (HiBitSet.fresh ((exLayers.remove 4095).remove 64))
    = [5, 63, 4096, 262143, 262144, 16777215] := by decide +kernel

/-! ### Level C: machine words

  Level B's residual assumption — a 64-bit word is the ascending list of its set-bit positions, with
  the table of word operations in the header of SpecsModel/Join/HiBitSet.lean — is a theorem at this
  level. A word is a `Nat` below `2^64`; `HiBitSet.bits` lists its set positions; hibitset's
  `BitIter::next` / `handle_level`, `BitSet::{add, remove, contains}` and the composites are
  transcribed with `&`, `|`, `!`, `<<`, `>>`, `trailing_zeros` as the Rust source has them
  (SpecsModel/Join/{Word, WordIter, WordSet}.lean) and proved to commute with `bits`.
  What remains assumed about hibitset: nothing at the level of words; the `Vec` growth of `BitSet`
  (`extend` / `fill_up`: a word beyond `len` reads as 0) is abstracted as at Level B. -/

section LevelC
open HiBitSet

/-- **C06 (e), Level C, the table.** Every line of the word ↔ list correspondence, for every
    `usize`. Shift amounts are below 64 wherever the code shifts (`b < 64` here; in the code:
    `trailingZeros_lt`, `row_lt`, `averageOnes64_lt`). -/
theorem level_c_words (w : Nat) (hw : w < 2 ^ 64) :
    Word (bits w) ∧ ofBits (bits w) = w ∧ (bits w = [] ↔ w = 0) ∧
    (∀ b rest, bits w = b :: rest →
      trailingZeros w = b ∧ b < 64 ∧ bits (w &&& wnot (shl 1 (trailingZeros w))) = rest) ∧
    (∀ b, b < 64 →
      bits (w &&& (shl 1 b - 1)) = lo b (bits w) ∧ bits (w &&& wnot (shl 1 b - 1)) = hi b (bits w) ∧
      bits (w ||| shl 1 b) = wAdd b (bits w) ∧ bits (w &&& wnot (shl 1 b)) = wDel b (bits w) ∧
      ((w &&& shl 1 b ≠ 0) ↔ (bits w).contains b = true)) ∧
    (∀ v, bits (w &&& v) = wInter (bits w) (bits v) ∧ bits (w ||| v) = wUnion (bits w) (bits v) ∧
      bits (w ^^^ v) = wXor (bits w) (bits v)) ∧
    bits (wnot w) = wNot (bits w) ∧ wnot w = 2 ^ 64 - 1 - w :=
  ⟨word_bits w, ofBits_bits hw, bits_eq_nil hw,
   fun b _ h => ⟨trailingZeros_eq_head h,
     ((mem_bits w b).mp (by rw [h]; exact List.mem_cons_self)).1, bits_clear_first h⟩,
   fun _ hb => ⟨bits_lowmask w hb, bits_highmask w hb, bits_set w hb, bits_clear w hb,
     and_bit_ne_zero w hb⟩,
   fun v => ⟨bits_and w v, bits_or w v, bits_xor w v⟩, bits_wnot w, wnot_eq_sub hw⟩

/-- … and of the index arithmetic: `prefix | bit` and the `u32` shift `idx << BITS` are `+` and
    `* 64` on the values that occur, and `Row::{row, offset}` are the base-64 digits / quotients of
    an index. -/
theorem level_c_index :
    (∀ p b, p % 64 = 0 → b < 64 → p ||| b = p + b) ∧ (∀ x, x < 2 ^ 26 → shl32 x 6 = x * 64) ∧
    (∀ id, row id 0 = id % B ∧ row id 6 = id / B % B ∧ row id 12 = id / (B * B) % B ∧
      row id 18 = id / (B * B * B) % B ∧ offset id 6 = id / B ∧ offset id 12 = id / (B * B) ∧
      offset id 18 = id / (B * B * B) ∧ row id 0 < 64 ∧ rmask id 0 = 2 ^ (id % 64)) ∧
    (∀ id, id < 2 ^ 24 → id = ((row id 18 * 64 + row id 12) * 64 + row id 6) * 64 + row id 0) :=
  ⟨fun _ _ hp hb => or_eq_add hp hb, fun _ h => shl32_six h,
   fun id => by
     obtain ⟨a, b, c, d, e, f, g⟩ := rows_offsets id
     refine ⟨a, b, c, d, e, f, g, row_lt id 0, ?_⟩
     rw [rmask_eq]; simp,
   fun _ h => (index_decompose h).1⟩

/-- **C06 (e), Level C, one step.** The word-level `BitIter::next` (`wnext`, transcribed from
    src/iter/mod.rs) commutes with the abstraction: on every state satisfying the word invariant it
    computes the Level-B `next` of the abstracted state, re-establishes the invariant (so no `<<`
    ever loses a bit) and yields an index inside the index space. -/
theorem level_c_next (WL : WLayers) (hL : WL.OK) (s : WIt) (hs : s.OK) :
    (wnext WL s).map (fun r => (r.1, r.2.toIt)) = HiBitSet.next WL.toLayers s.toIt ∧
    (∀ x s', wnext WL s = some (x, s') → s'.OK ∧ x < MAXIDX) :=
  ⟨wnext_refines hL hs, fun _ _ h => ⟨wnext_ok hL hs h, wnext_lt hL hs h⟩⟩

/-- **C06 (e), Level C, drained.** The word-level iterator yields the very list Level B talks
    about … -/
theorem level_c_collect (WL : WLayers) (hL : WL.OK) (n : Nat) :
    wcollect WL n (wfresh WL) = collect WL.toLayers n (fresh WL.toLayers) := by
  rw [wcollect_refines hL n _ (wfresh_ok hL), wfresh_toIt]

/-- … hence, on word-level layers with sound summaries (`WLayers.Sound`: a non-zero word has its
    summary bit set), exactly the indices for which the word-level `contains` holds, ascending, each
    once. (`MAXIDX` calls of `next` always suffice.) -/
theorem level_c_enumerates (WL : WLayers) (hL : WL.OK) (hS : WL.Sound) (n : Nat) (hn : MAXIDX ≤ n) :
    wcollect WL n (wfresh WL) = (List.range MAXIDX).filter WL.contains := by
  have hwf := wf_toLayers hL hS
  have hlen : (items WL.toLayers (fresh WL.toLayers)).length ≤ n := by
    have := (wordInv_fresh hL hwf).2.2
    rw [wfresh_toIt] at this
    exact Nat.le_trans this hn
  rw [level_c_collect WL hL n, level_b_enumerates _ hwf n hlen]
  apply List.filter_congr
  intro i _
  exact contains_toLayers WL i

/-- **C06 (e), Level C, `BitSet`.** The word-level `add`, `remove`, `contains` (src/lib.rs, with the
    `Row` arithmetic of src/util.rs) are the Level-B operations under `bits`, for every index. -/
theorem level_c_bitset_ops (WL : WLayers) (hL : WL.OK) (id : Nat) :
    (WL.add id).toLayers = WL.toLayers.add id ∧ (WL.add id).OK ∧
    (WL.remove id).toLayers = WL.toLayers.remove id ∧ (WL.remove id).OK ∧
    WL.contains id = WL.toLayers.contains id :=
  ⟨toLayers_add hL id, ok_add hL id, toLayers_remove hL id, ok_remove hL id,
   (contains_toLayers WL id).symm⟩

/-- The composites of src/ops.rs. -/
theorem level_c_composites (a b : WLayers) :
    (a.and b).toLayers = a.toLayers.and b.toLayers ∧ (a.or b).toLayers = a.toLayers.or b.toLayers ∧
    a.not.toLayers = a.toLayers.not ∧ (a.xor b).toLayers = a.toLayers.xor b.toLayers ∧
    WLayers.all.toLayers = Layers.all :=
  ⟨toLayers_and a b, toLayers_or a b, toLayers_not a, toLayers_xor a b, toLayers_all⟩

/-- **C06 (e), Level C, end to end for `BitSet`.** Whatever in-range `add` / `remove` history built
    a word-level `BitSet` from `BitSet::new()`, the word-level `BitIter` over it yields exactly the
    members of the Level-A set, ascending, each once. -/
theorem level_c_bitset (ops : List (Bool × Nat)) (h : ∀ o ∈ ops, o.2 < MAXIDX) (n : Nat)
    (hn : MAXIDX ≤ n) :
    wcollect (wlayersAfter ops) n (wfresh (wlayersAfter ops)) =
      (List.range MAXIDX).filter (bsetAfter ops).mem := by
  obtain ⟨hok, href⟩ := wlayersAfter_refines ops
  obtain ⟨hwf, hmem⟩ := level_b_bitset ops h
  have hlen : (items (layersAfter ops) (fresh (layersAfter ops))).length ≤ n := by
    rw [items_fresh_eq hwf]
    have := List.length_filter_le (layersAfter ops).contains (List.range (B * B * B * B))
    rw [List.length_range] at this
    exact Nat.le_trans this hn
  rw [level_c_collect _ hok n, href, level_b_enumerates _ hwf n hlen]
  apply List.filter_congr
  intro i hi
  exact hmem i (List.mem_range.mp hi)

/-- **C06 (e), Level C, end to end for joins.** For every world whose bit sets are given as machine
    words (`WLWorld`, every word a `usize`) and represent the Level-A world, and every member list:
    the word-level `BitIter` over the word-level tuple mask (`BitAnd` tree of the composites) yields
    exactly the Level-A key list of the join. -/
theorem level_c_join_keys (wl : WLWorld) (hwl : wl.OK) (w : JWorld) (h : LRepr wl.toLWorld w)
    (hw : w.Bdd MAXIDX) (ms : List Member) (n : Nat) (hn : MAXIDX ≤ n) :
    wcollect (wtupleLayers wl ms) n (wfresh (wtupleLayers wl ms)) = (tupleMask w ms).toList MAXIDX := by
  obtain ⟨href, hok⟩ := wtupleLayers_refines wl hwl ms
  obtain ⟨hwf, _⟩ := tupleLayers_represents h ms
  have hlen : (items (tupleLayers wl.toLWorld ms) (fresh (tupleLayers wl.toLWorld ms))).length ≤ n := by
    rw [items_fresh_eq hwf]
    have := List.length_filter_le (tupleLayers wl.toLWorld ms).contains (List.range (B * B * B * B))
    rw [List.length_range] at this
    exact Nat.le_trans this hn
  rw [level_c_collect _ hok n, href]
  exact level_b_join_keys wl.toLWorld w h hw ms n hlen

/-! #### Non-vacuity at Level C -/

/-- The word-level `BitSet` after adding both sides of the layer boundaries 63/64, 4095/4096,
    262143/262144 and the last index; its layer-3 word and two layer-0 words. -/
def exWLayers : WLayers :=
  wlayersAfter [(true, 63), (true, 64), (true, 4095), (true, 4096), (true, 5), (true, 262144),
    (true, 262143), (true, 16777215)]

example : (exWLayers.l3, exWLayers.l0 0, exWLayers.l0 63, exWLayers.l2 63) =
    (0x8000000000000003, 0x8000000000000020, 0x8000000000000000, 0x8000000000000000) := by
  decide +kernel

/-- The word-level iterator run by the kernel (through its fuel-bounded twin). -/
example : wcollect exWLayers 10 (wfresh exWLayers) =
    [5, 63, 64, 4095, 4096, 262143, 262144, 16777215] :=
  wcollectF_eq _ 20 _ _ _ (by decide +kernel)

/-- … and after `remove` of both sides of a boundary (the emptied layer-0 word clears its summary). -/
example : wcollect ((exWLayers.remove 4095).remove 64) 10 (wfresh ((exWLayers.remove 4095).remove 64)) =
    [5, 63, 4096, 262143, 262144, 16777215] :=
  wcollectF_eq _ 20 _ _ _ (by decide +kernel)

example : (exWLayers.contains 16777215, exWLayers.contains 16777214, exWLayers.contains 64) =
    (true, false, true) := by decide +kernel

end LevelC

end SpecsModel.C06
