/-
  C12 — Change-tracking storages report every insertion, removal and mutable access.
  Property theorems only (lemmas: Lemmas/Events.lean).

  Quantifier: every `Masked` storage state `m` whose inner storage is `flagged inner ev emit` or
  `derefFlagged inner ev emit` over *any* inner storage (the theorems need no reachability
  invariant and nothing about the inner kind: they only require that the call returned normally),
  every allocator state — each op of a history carries its own, so the entity population may change
  arbitrarily between ops — every handle (live, dead, stale), every number of mutable dereferences,
  every operation history over the Storage API other than the bulk `clear` (which by design emits
  nothing and therefore breaks the replay law: `Ev.clear_appends`), with `set_event_emission`
  toggled at arbitrary points.

  Vocabulary (Lemmas/Events.lean): `Ev.wrap s` is the wrapper kind (`flagged`/`deref`/`none`),
  `Ev.emitOn s` the emission flag, `Ev.evl s` the channel as a list, `Ev.opX m op` the expected
  events of `op` in state `m` — the rows of DESIGN Appendix C written as a function of the op, the
  membership bit, `isAlive`, the wrapper kind and the number of mutable dereferences —,
  `Ev.opE m op = if emitOn then opX m op else []`, `Ev.stepS`/`Ev.run` the runner (stops at the first
  panic/UB), `Ev.runE` the concatenation of the `opE` along the run, `Ev.replay` the replay function.
  For `s = .flagged inner ev emit` or `.derefFlagged inner ev emit`: `s.events = some ev`,
  `Ev.emitOn s = emit` by definition.
-/
import SpecsModel.Lemmas.Events
namespace SpecsModel.C12
open SpecsModel SpecsModel.Ev

/-- The table. A reader registered before the op sees, after it, the old channel content followed
    by exactly the expected events of the op (Appendix C row, gated by the emission flag). -/
theorem expected_events (m m' : Masked) (op : SOp) (ev : Array CEv)
    (htr : m.inner.events = some ev) (h : stepS m op = .ok m') :
    m'.inner.events = some (ev ++ (opE m op).toArray) :=
  let ⟨e, _, w⟩ := stepS_spec h
  events_of_evl htr w e

/-- Exactly one insertion event for each component added to an entity that had none, and none
    otherwise — for every op of the API (`insert`, vacant `entry.or_insert`/`replace`,
    `get_mut_or_default` are the ones that can add). -/
theorem insertion_event_iff (m m' : Masked) (op : SOp) (ev : Array CEv)
    (htr : m.inner.events = some ev) (hon : emitOn m.inner = true) (h : stepS m op = .ok m') :
    m'.inner.events = some (ev ++ (opX m op).toArray) ∧
    ∀ i, (opX m op).count (.inserted i) =
      if m.mask.mem i = false ∧ m'.mask.mem i = true then 1 else 0 := by
  refine ⟨by simpa [opE, gate_on hon] using expected_events m m' op ev htr h, fun i => ?_⟩
  rw [(stepS_spec h).2.1 i]
  exact (opX_faithful m op i).1

/-- `Storage::insert`, keyed by its result as in Appendix C: `Ok(None)` ↦ `Inserted id`,
    `Ok(Some old)` ↦ `Modified id` (both wrappers), `Err` (dead/stale handle) ↦ nothing; nothing
    at all while emission is off. -/
theorem insert_events_by_result (m : Masked) (a : Alloc) (e : Entity) (v : Int)
    (r : SRes Masked.InsRes) (ev : Array CEv) (htr : m.inner.events = some ev)
    (h : m.insert a e v = .ok r) :
    r.st.inner.events = some (ev ++ (if emitOn m.inner then
      (match r.val with
       | .inserted => [CEv.inserted e.id]
       | .replaced _ => [.modified e.id]
       | .wrongGen => [])
      else []).toArray) := by
  rw [(insert_eff h).events_some htr, insert_val h]
  generalize r.val = x
  cases x <;> rfl

/-- Exactly one removal event for each component taken out individually (explicit `remove`,
    `entry.remove`, `drain`, deletion of its entity), none otherwise — for every op of the API. -/
theorem removal_event_iff (m m' : Masked) (op : SOp) (ev : Array CEv)
    (htr : m.inner.events = some ev) (hon : emitOn m.inner = true) (h : stepS m op = .ok m') :
    m'.inner.events = some (ev ++ (opX m op).toArray) ∧
    ∀ i, (opX m op).count (.removed i) =
      if m.mask.mem i = true ∧ m'.mask.mem i = false then 1 else 0 := by
  refine ⟨by simpa [opE, gate_on hon] using expected_events m m' op ev htr h, fun i => ?_⟩
  rw [(stepS_spec h).2.1 i]
  exact (opX_faithful m op i).2

/-- `Storage::remove`, keyed by its result: `Some` ↦ `Removed id`, `None` ↦ nothing. -/
theorem remove_events_by_result (m : Masked) (a : Alloc) (e : Entity)
    (r : SRes (Option Int)) (ev : Array CEv) (htr : m.inner.events = some ev)
    (h : m.remove a e = .ok r) :
    r.st.inner.events = some (ev ++
      (if emitOn m.inner && r.val.isSome then [CEv.removed e.id] else []).toArray) := by
  rw [(remove_eff h).events_some htr, remove_val h]
  cases hon : emitOn m.inner <;> cases ha : a.isAlive e <;> cases hm : m.mask.mem e.id <;>
    simp [gate, xRemove, xRemoveId, hon, ha, hm]

/-- `drain`: one `Removed` per drained index, in index order. -/
theorem drain_events (m : Masked) (n : Nat) (r : SRes (List (Nat × Int))) (ev : Array CEv)
    (htr : m.inner.events = some ev) (h : m.drain n = .ok r) :
    r.st.inner.events = some (ev ++
      (if emitOn m.inner then (m.mask.toList.take n).map CEv.removed else []).toArray) :=
  (drain_eff h).events_some htr

/-- A modification event is produced for an entity exactly when its component was accessed mutably:
    the `Modified` events of any op are those of the mutable access it hands out (`Ev.access`) —
    one at the call on `flagged`, exactly one per mutable dereference (or overwrite) on
    `derefFlagged` — and there are none when it hands out none. -/
theorem modification_event_iff_mutable_access (m m' : Masked) (op : SOp) (ev : Array CEv)
    (htr : m.inner.events = some ev) (hon : emitOn m.inner = true) (h : stepS m op = .ok m') :
    m'.inner.events = some (ev ++ (opX m op).toArray) ∧
    (opX m op).filter isMod =
      (match access m op with
       | some (i, d) =>
         (match wrap m.inner with
          | .flagged => [CEv.modified i]
          | .deref => List.replicate d (.modified i)
          | .none => [])
       | none => []) := by
  have ht : wrap m.inner ≠ .none := by
    intro hn; rw [(events_none_iff _).2 hn] at htr; cases htr
  refine ⟨by simpa [opE, gate_on hon] using expected_events m m' op ev htr h, ?_⟩
  rw [opX_modified m op ht]
  cases access m op with
  | none => rfl
  | some p => cases hw : wrap m.inner <;> simp [modEv]

/-- `get_mut` on a `FlaggedStorage`: `Modified id` at the call iff it returned `Some`,
    whatever is then done with the reference. -/
theorem getMut_flagged (mask : BSet) (inner : UStore) (ev : Array CEv) (emit : Bool)
    (a : Alloc) (e : Entity) (derefs : Nat) (w : Option Int) (r : SRes (Option Int))
    (h : Masked.getMut ⟨mask, .flagged inner ev emit⟩ a e derefs w = .ok r) :
    r.st.inner.events =
      some (ev ++ (if emit && r.val.isSome then [CEv.modified e.id] else []).toArray) := by
  rw [(getMut_eff h).events_some (ev := ev) rfl, getMut_val h]
  cases emit <;> cases hc : (mask.mem e.id && a.isAlive e) <;>
    simp [gate, emitOn, xGetMut, hc, modEv, wrap]

/-- `get_mut` on a `DerefFlaggedStorage`: exactly `derefs` events `Modified id` iff it returned
    `Some` — none if the access is only read. -/
theorem getMut_derefFlagged (mask : BSet) (inner : UStore) (ev : Array CEv) (emit : Bool)
    (a : Alloc) (e : Entity) (derefs : Nat) (w : Option Int) (r : SRes (Option Int))
    (h : Masked.getMut ⟨mask, .derefFlagged inner ev emit⟩ a e derefs w = .ok r) :
    r.st.inner.events =
      some (ev ++ (if emit && r.val.isSome then List.replicate derefs (CEv.modified e.id)
                   else []).toArray) := by
  rw [(getMut_eff h).events_some (ev := ev) rfl, getMut_val h]
  cases emit <;> cases hc : (mask.mem e.id && a.isAlive e) <;>
    simp [gate, emitOn, xGetMut, hc, modEv, wrap]

/-- `entry(e)` followed by an entry operation, keyed by the result (wrongGen / occupied / vacant)
    as in Appendix C. -/
theorem entry_events_by_result (m : Masked) (a : Alloc) (e : Entity) (op : Masked.EntryOp)
    (r : SRes Masked.EntryRes) (ev : Array CEv) (htr : m.inner.events = some ev)
    (h : m.entry a e op = .ok r) :
    r.st.inner.events = some (ev ++ (if emitOn m.inner then
      (match r.val, op with
       | .wrongGen, _ => []
       | .occupied _, .orInsert _ d _ => modEv (wrap m.inner) e.id d
       | .occupied _, .replace _ => [CEv.modified e.id]
       | .occupied _, .remove => [.removed e.id]
       | .vacant, .orInsert _ d _ => .inserted e.id :: modEv (wrap m.inner) e.id d
       | .vacant, .replace _ => .inserted e.id :: modEv (wrap m.inner) e.id 0
       | .vacant, .remove => [])
      else []).toArray) := by
  rw [(entry_eff h).events_some htr]
  obtain ⟨h1, h2, h3⟩ := entry_val h
  congr 3
  unfold gate xEntry
  cases hv : r.val with
  | wrongGen => simp [h1.1 hv]
  | occupied old => obtain ⟨ha, hm⟩ := h2.1 ⟨old, hv⟩; cases op <;> simp [ha, hm]
  | vacant => obtain ⟨ha, hm⟩ := h3.1 hv; cases op <;> simp [ha, hm]

/-- Read-only access produces no event and leaves the whole storage (mask, contents, channel, flag)
    untouched; so does a deferred access that is never dereferenced mutably. -/
theorem reads_emit_nothing (m m' : Masked) (a : Alloc) (e : Entity) :
    (stepS m (.get a e) = .ok m' → m' = m) ∧
    (stepS m (.contains a e) = .ok m' → m' = m) ∧
    (stepS m (.getOther a e) = .ok m' → m' = m) ∧
    opE m (.get a e) = [] ∧ opE m (.contains a e) = [] ∧ opE m (.getOther a e) = [] ∧
    (wrap m.inner = .deref → stepS m (.getMut a e 0 none) = .ok m' →
      m'.inner.events = m.inner.events) := by
  refine ⟨fun h => ?_, fun h => ?_, fun h => ?_, by simp [opE, opX], by simp [opE, opX],
    by simp [opE, opX], fun hw h => ?_⟩
  · obtain ⟨_, _, rfl⟩ := map_ok h; rfl
  · simp only [stepS, Out.ok.injEq] at h; exact h.symm
  · obtain ⟨_, _, rfl⟩ := map_ok h; rfl
  · have ht : m.inner.events = some (evl m.inner).toArray :=
      events_eq_some_evl (by rw [hw]; simp)
    rw [expected_events m m' _ _ ht h, ht]
    simp [opE, opX, xGetMut, hw, modEv, gate]

/-- While event emission is switched off nothing is produced, by any op or any history that does not
    switch it back on. -/
theorem emission_off_emits_nothing (m m' : Masked) (ops : List SOp)
    (hoff : emitOn m.inner = false) (hno : ∀ op ∈ ops, op.isSetEmit = false)
    (h : run m ops = .ok m') : m'.inner.events = m.inner.events := by
  obtain ⟨e, w⟩ := run_events h
  rw [runE_off hoff hno, List.append_nil] at e
  cases hev : m.inner.events with
  | none => exact (events_none_iff _).2 (w.trans ((events_none_iff _).1 hev))
  | some ev => simpa using events_of_evl (L := []) hev w (by simpa using e)

/-- Emission toggled at arbitrary points: over any history the reader receives, in op order,
    exactly the expected events of the ops executed while emission was on (`runE` reads the flag
    from the state each op is executed in). -/
theorem toggled_emission_events (m m' : Masked) (ops : List SOp) (ev : Array CEv)
    (htr : m.inner.events = some ev) (h : run m ops = .ok m') :
    m'.inner.events = some (ev ++ (runE m ops).toArray) :=
  let ⟨e, w⟩ := run_events h
  events_of_evl htr w e

/-- The replay law: with emission on, over any history (no bulk `clear`, no toggling) the events
    the reader received since registration — which are exactly the expected ones, `runE` — replayed
    over the membership at registration time reproduce the current membership. -/
theorem replay_reproduces_membership (m m' : Masked) (ops : List SOp) (ev : Array CEv)
    (htr : m.inner.events = some ev) (hon : emitOn m.inner = true)
    (hno : ∀ op ∈ ops, op.isSetEmit = false) (h : run m ops = .ok m') :
    m'.inner.events = some (ev ++ (runE m ops).toArray) ∧
    ∀ j, m'.mask.mem j = replay (runE m ops) (fun j => m.mask.mem j) j := by
  refine ⟨toggled_emission_events m m' ops ev htr h, fun j => ?_⟩
  rw [runE_eq_runX hon hno]
  exact run_mask h j

/-- Entity deletion taking effect (`AnyStorage::drop(entities)`): one `Removed e.id` for each entity
    of the batch whose component was present, in batch order. (`Ev.xDropAll` is the same without
    the distinctness hypothesis: a repeated index is reported once, at its first occurrence.) -/
theorem entity_deletion_emits_removed (m : Masked) (es : List Entity) (acc : List Int)
    (r : SRes Unit) (ev : Array CEv) (htr : m.inner.events = some ev)
    (hon : emitOn m.inner = true) (h : m.dropAll es acc = .ok r) :
    r.st.inner.events = some (ev ++ (xDropAll m.mask es).toArray) ∧
    ((es.map (·.id)).Nodup → xDropAll m.mask es =
      (es.filter (fun e => m.mask.mem e.id)).map (fun e => .removed e.id)) ∧
    (∀ j, r.st.mask.mem j = replay (xDropAll m.mask es) (fun j => m.mask.mem j) j) :=
  ⟨by simpa [gate_on hon] using (dropAll_eff h).events_some htr, xDropAll_nodup m.mask es,
   (dropAll_eff h).mask⟩

/-- World level, `delete_components`: every tracked storage in the meta table receives exactly the
    removal events of the batch; storages outside the table and all reader cursors are untouched. -/
theorem world_deletion_emits_removed (w w' : World) (es : List Entity) (ks : List Nat)
    (h : w.deleteComponents es ks = .ok w') (k : Nat) (m : Masked) (ev : Array CEv)
    (hm : w.store? k = some m) (htr : m.inner.events = some ev) :
    ∃ m', w'.store? k = some m' ∧
      m'.inner.events = some (ev ++ (if emitOn m.inner ∧ k ∈ ks then xDropAll m.mask es else []).toArray) ∧
      w'.cursors = w.cursors := by
  obtain ⟨m', h1, h2, h3⟩ := deleteComponents_store h k m hm
  refine ⟨m', h1, ?_, h3⟩
  rw [h2.events_some htr]
  cases hon : emitOn m.inner <;> by_cases hk : k ∈ ks <;> simp [gate, hon, hk]

/-- World level, reader cursor: `World.step fuel w (.events k)` returns exactly the events appended
    to storage `k`'s channel since the previous `.events k`. `w₁` is the world at the previous read,
    `w₂` any later world in which the reader's cursor is still where that read left it and the
    channel has grown by `new`. -/
theorem events_read_returns_appended (fuel₁ fuel₂ : Nat) (w₁ w₂ : World) (k : Nat)
    (m₁ m₂ : Masked) (new : List CEv)
    (hm₁ : w₁.store? k = some m₁) (ht : wrap m₁.inner ≠ .none) (hk : k < w₁.cursors.size)
    (hcur : w₂.cursors[k]? = (World.step fuel₁ w₁ (.events k)).1.cursors[k]?)
    (hm₂ : w₂.store? k = some m₂) (hw : wrap m₂.inner = wrap m₁.inner)
    (hev : evl m₂.inner = evl m₁.inner ++ new) :
    (World.step fuel₂ w₂ (.events k)).2 = .events new := by
  rw [step_events hm₁ (events_eq_some_evl ht)] at hcur
  have hc : w₂.cursors[k]? = some (evl m₁.inner).length := by
    rw [hcur]; simp [hk]
  exact (step_events_from_cursor hm₂ (by rw [hw]; exact ht) hc hev).1

/-- World level, end to end: read, one storage op on kind `k` through the world API, read again —
    the second read returns exactly the expected events of that op (and nothing if it was a read,
    a refused access, or emission is off). -/
theorem world_op_between_reads (fuel₁ fuel₂ fuel₃ : Nat) (w : World) (wop : WOp) (k : Nat)
    (sop : SOp) (m m' : Masked)
    (hm : w.store? k = some m) (ht : wrap m.inner ≠ .none) (hk : k < w.cursors.size)
    (hs : wopS (World.step fuel₁ w (.events k)).1 wop = some (k, sop))
    (hstep : stepS m sop = .ok m') :
    (World.step fuel₃ (World.step fuel₂ (World.step fuel₁ w (.events k)).1 wop).1 (.events k)).2
      = .events (opE m sop) := by
  have h1 := step_events (fuel := fuel₁) hm (events_eq_some_evl ht)
  have hm1 : (World.step fuel₁ w (.events k)).1.store? k = some m := by rw [h1]; exact hm
  obtain ⟨hst, hcu⟩ := step_wopS (fuel := fuel₂) hs hm1 hstep
  obtain ⟨e, _, hw⟩ := stepS_spec hstep
  refine (step_events_from_cursor (old := evl m.inner) (by rw [hst]; simp) (by rw [hw]; exact ht)
    ?_ e).1
  rw [hcu, h1]; simp [hk]

/-! ## Non-vacuity -/

/-- Vacant `entry.or_insert` on a flagged store: `[Inserted i, Modified i]`. -/
example :
    (Masked.entry ⟨.empty, .flagged (.vec #[]) #[] true⟩ Alloc.init ⟨3, 1⟩ (.orInsert 7 0 none)).map
      (fun r => (r.val, r.st.inner.events, r.st.mask.toList))
    = .ok (.vacant, some #[.inserted 3, .modified 3], [3]) := by decide +kernel

/-- … on a derefFlagged store with 2 mutable dereferences: `[Inserted i, Modified i, Modified i]`;
    with none: `[Inserted i]`. -/
example :
    (Masked.entry ⟨.empty, .derefFlagged (.dense #[] #[] #[]) #[] true⟩ Alloc.init ⟨3, 1⟩
      (.orInsert 7 2 (some 9))).map (fun r => (r.val, r.st.inner.events))
    = .ok (.vacant, some #[.inserted 3, .modified 3, .modified 3]) ∧
    (Masked.entry ⟨.empty, .derefFlagged (.dense #[] #[] #[]) #[] true⟩ Alloc.init ⟨3, 1⟩
      (.orInsert 7 0 none)).map (fun r => (r.val, r.st.inner.events))
    = .ok (.vacant, some #[.inserted 3]) := by decide +kernel

/-- Vacant `entry.replace`: flagged `[Inserted, Modified]`, derefFlagged `[Inserted]`; a dead handle
    (generation 2 of a never-recycled index) is refused and emits nothing. -/
example :
    (Masked.entry ⟨.empty, .flagged (.hash []) #[] true⟩ Alloc.init ⟨0, 1⟩ (.replace 5)).map
      (fun r => r.st.inner.events) = .ok (some #[.inserted 0, .modified 0]) ∧
    (Masked.entry ⟨.empty, .derefFlagged (.btree []) #[] true⟩ Alloc.init ⟨0, 1⟩ (.replace 5)).map
      (fun r => r.st.inner.events) = .ok (some #[.inserted 0]) ∧
    (Masked.entry ⟨.empty, .flagged (.hash []) #[] true⟩ Alloc.init ⟨0, 2⟩ (.replace 5)).map
      (fun r => (r.val, r.st.inner.events)) = .ok (.wrongGen, some #[]) := by decide +kernel

/-- A history with emission toggled: insert 1, insert 2, overwrite 1, (off) remove 2, get_mut 1,
    (on) get_mut_or_default 4, drain 1, delete entities 4 and 9, read. The channel holds exactly the
    events of the ops executed while emission was on; the mask is `{}`. -/
example :
    let a := Alloc.init
    let ops : List SOp := [.insert a ⟨1, 1⟩ 10, .insert a ⟨2, 1⟩ 20, .insert a ⟨1, 1⟩ 11,
      .setEmit false, .remove a ⟨2, 1⟩, .getMut a ⟨1, 1⟩ 1 (some 12), .setEmit true,
      .getMutOrDefault a ⟨4, 1⟩ 1 none, .drain 1, .dropAll [⟨4, 1⟩, ⟨9, 1⟩], .get a ⟨1, 1⟩]
    (run ⟨.empty, .flagged (.vec #[]) #[] true⟩ ops).map (fun m => (m.inner.events, m.mask.toList))
    = .ok (some #[.inserted 1, .inserted 2, .modified 1, .inserted 4, .modified 4, .removed 1,
                  .removed 4], []) := by decide +kernel

/-- The same history without the toggles on a derefFlagged store: replaying the received events over
    the (empty) initial membership gives the final membership. -/
example :
    let a := Alloc.init
    let ops : List SOp := [.insert a ⟨1, 1⟩ 10, .insert a ⟨2, 1⟩ 20, .insert a ⟨1, 1⟩ 11,
      .remove a ⟨2, 1⟩, .getMut a ⟨1, 1⟩ 2 (some 12), .getMutOrDefault a ⟨4, 1⟩ 0 none, .drain 1,
      .entry a ⟨7, 1⟩ (.orInsert 3 1 none)]
    let m₀ : Masked := ⟨.empty, .derefFlagged (.dense #[] #[] #[]) #[] true⟩
    (run m₀ ops).map (fun m => (m.inner.events, m.mask.toList,
        (List.range 10).filter (replay (runE m₀ ops) (fun _ => false))))
    = .ok (some #[.inserted 1, .inserted 2, .modified 1, .removed 2, .modified 1, .modified 1,
                  .inserted 4, .removed 1, .inserted 7, .modified 7], [4, 7], [4, 7]) := by
  decide +kernel

/-- World level: register a flagged kind, create an entity with a component, read (sees the
    insertion), overwrite, read (sees only the modification), delete the entity, read (sees the
    removal), read again (sees nothing). -/
example :
    let ops : List WOp := [.reg 6 0, .createWith false false [(6, 7)], .events 6, .ins 6 0 8,
      .events 6, .ent (.delNow 0), .events 6, .events 6]
    (ops.foldl (fun (st : World × List WRes) op =>
      let (w', r) := World.step 100 st.1 op; (w', st.2 ++ [r])) ({}, [])).2
    = [.unit, .e (.ent ⟨0, 1⟩), .events [.inserted 0], .ins (.replaced 7), .events [.modified 0],
       .e (.kill .ok), .events [.removed 0], .events []] := by decide +kernel

end SpecsModel.C12
