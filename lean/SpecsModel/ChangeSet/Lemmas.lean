/-
  Helper lemmas for C16 (change set): the structural invariant `DenseOf.Rep` of the dense storage
  (same formulation as for `UStore.dense`: equal lengths, forward map, backward map, all with
  option-valued indexing), one contract lemma per storage function, `ChangeSet.Holds`, and the
  loops of `from_iter` / `extend` / the three joins against the abstract per-index map.
-/
import SpecsModel.ChangeSet.Model
namespace SpecsModel

namespace DenseOf
variable {α : Type}

/-! ### `DenseOf Int` is `UStore.dense` -/

/-- The same three vectors as a `UStore.dense`. -/
def toU (s : DenseOf Int) : UStore := .dense s.data s.entityId s.dataId

theorem toU_get (s : DenseOf Int) (id : Nat) : s.toU.get id = s.get id := by
  simp only [toU, UStore.get, get]
  cases s.dataId[id]? with
  | none => rfl
  | some o =>
    cases o with
    | none => rfl
    | some k => simp only []; cases s.data[k]? <;> rfl

theorem toU_insert (s : DenseOf Int) (id : Nat) (v : Int) :
    s.toU.insert id v = (s.insert id v).map (fun s' => (s'.toU, [])) := by
  simp only [toU, UStore.insert, insert, Out.map]

theorem toU_poke (s : DenseOf Int) (id : Nat) (v : Int) :
    s.toU.poke id v = (s.poke id v).map toU := by
  simp only [toU, UStore.poke, poke]
  cases s.dataId[id]? with
  | none => rfl
  | some o =>
    cases o with
    | none => rfl
    | some k => simp only []; split <;> rfl

theorem toU_remove (s : DenseOf Int) (id : Nat) :
    s.toU.remove id = (s.remove id).map (fun p => (p.1.toU, p.2)) := by
  simp only [toU, UStore.remove, remove]
  cases s.dataId[id]? with
  | none => rfl
  | some o =>
    cases o with
    | none => rfl
    | some k =>
      simp only []
      cases s.entityId.back? with
      | none => rfl
      | some last =>
        simp only []
        split
        · cases s.data[k]? with
          | none => rfl
          | some v => simp only []; split <;> rfl
        · rfl

theorem toU_clean (s : DenseOf Int) (has : BSet) :
    s.toU.clean has = (s.clean has).map (fun p => (p.1.toU, p.2)) := by
  simp only [toU, UStore.clean, clean, Out.map]

/-! ### Array helpers -/

/-- Point update of a partial map. -/
def upd (m : Nat → Option α) (i : Nat) (v : Option α) : Nat → Option α :=
  fun j => if j = i then v else m j

theorem getElem?_lt {β} {a : Array β} {k : Nat} {x : β} (h : a[k]? = some x) : k < a.size := by
  by_cases hk : k < a.size
  · exact hk
  · simp [Array.getElem?_eq_none (Nat.le_of_not_lt hk)] at h

theorem back?_eq {β} (a : Array β) : a.back? = a[a.size - 1]? := by
  simp [Array.back?]

theorem size_growTo {β} (a : Array β) (id : Nat) (fill : β) :
    (UStore.growTo a id fill).size = max a.size (id + 1) := by
  unfold UStore.growTo; split
  · simp only [Array.size_append, Array.size_replicate]; omega
  · omega

theorem growTo_get? {β} (a : Array β) (id j : Nat) (fill : β) :
    (UStore.growTo a id fill)[j]? =
      if j < a.size then a[j]? else if j ≤ id then some fill else none := by
  unfold UStore.growTo; split
  · simp only [Array.getElem?_append, Array.getElem?_replicate]
    grind
  · grind

theorem swapRemove_get? {β} (a : Array β) (k j : Nat) (hk : k < a.size) :
    (UStore.swapRemove a k)[j]? =
      if j < a.size - 1 then (if j = k then a[a.size - 1]? else a[j]?) else none := by
  have h2 : a.back? = some a[a.size - 1] := by simp [Array.back?]
  unfold UStore.swapRemove
  rw [h2]
  simp only [Array.getElem?_pop, Array.size_setIfInBounds, Array.getElem?_setIfInBounds]
  grind

theorem size_swapRemove {β} (a : Array β) (k : Nat) (hk : k < a.size) :
    (UStore.swapRemove a k).size = a.size - 1 := by
  have h2 : a.back? = some a[a.size - 1] := by simp [Array.back?]
  unfold UStore.swapRemove
  rw [h2]
  simp

/-! ### The structural invariant -/

/-- `Rep s m`: the dense storage `s` holds exactly the payloads of the partial map `m`:
    `data` and `entity_id` have the same length, every entry of `m` is reachable through
    `data_id` (forward map), every dense slot belongs to an entry of `m` and `data_id` points
    back at it (backward map). -/
def Rep (s : DenseOf α) (m : Nat → Option α) : Prop :=
  s.data.size = s.entityId.size ∧
  (∀ i v, m i = some v →
    ∃ k, s.dataId[i]? = some (some k) ∧ s.data[k]? = some v ∧ s.entityId[k]? = some i) ∧
  (∀ k i, s.entityId[k]? = some i → (m i).isSome ∧ s.dataId[i]? = some (some k))

theorem rep_empty : Rep (empty : DenseOf α) (fun _ => none) := by
  refine ⟨rfl, ?_, ?_⟩
  · intro i v h; cases h
  · intro k i h; simp [empty] at h

theorem get_ok {s : DenseOf α} {m : Nat → Option α} (h : Rep s m) {i : Nat} {v : α}
    (hm : m i = some v) : s.get i = .ok v := by
  obtain ⟨_, hf, _⟩ := h
  obtain ⟨k, h1, h2, _⟩ := hf i v hm
  simp [get, h1, h2]

theorem insert_ok {s : DenseOf α} {m : Nat → Option α} (h : Rep s m) {i : Nat} (v : α)
    (hm : m i = none) :
    ∃ s', s.insert i v = .ok s' ∧ Rep s' (upd m i (some v)) := by
  obtain ⟨hsz, hf, hb⟩ := h
  refine ⟨_, rfl, ?_⟩
  refine ⟨by simp [hsz], ?_, ?_⟩
  · intro j w hj
    simp only [upd] at hj
    by_cases hji : j = i
    · subst hji; simp only [if_true, Option.some.injEq] at hj
      refine ⟨s.data.size, ?_, ?_, ?_⟩
      · simp only [Array.getElem?_setIfInBounds, size_growTo, growTo_get?]; grind
      · simp [hj]
      · simp [hsz]
    · simp only [hji, if_false] at hj
      obtain ⟨k, h1, h2, h3⟩ := hf j w hj
      refine ⟨k, ?_, ?_, ?_⟩
      · simp only [Array.getElem?_setIfInBounds, size_growTo, growTo_get?]; grind
      · simp only [Array.getElem?_push]; grind
      · simp only [Array.getElem?_push]; grind
  · intro k j hk
    simp only [Array.getElem?_push] at hk
    simp only [upd, Array.getElem?_setIfInBounds, size_growTo, growTo_get?]
    by_cases hke : k = s.entityId.size
    · simp only [hke, if_true, Option.some.injEq] at hk
      subst hk
      simp [hsz]; omega
    · simp only [hke, if_false] at hk
      have := hb k j hk
      grind

theorem poke_ok {s : DenseOf α} {m : Nat → Option α} (h : Rep s m) {i : Nat} {old : α} (v : α)
    (hm : m i = some old) :
    ∃ s', s.poke i v = .ok s' ∧ Rep s' (upd m i (some v)) := by
  obtain ⟨hsz, hf, hb⟩ := h
  obtain ⟨k, h1, h2, h3⟩ := hf i old hm
  have hk : k < s.data.size := getElem?_lt h2
  refine ⟨⟨s.data.setIfInBounds k v, s.entityId, s.dataId⟩, by simp only [poke, h1, hk, if_true], ?_⟩
  refine ⟨by simpa using hsz, ?_, ?_⟩
  · intro j w hj
    simp only [upd] at hj
    by_cases hji : j = i
    · subst hji; simp only [if_true, Option.some.injEq] at hj
      exact ⟨k, h1, by simp [hk, hj], h3⟩
    · simp only [hji, if_false] at hj
      obtain ⟨k', g1, g2, g3⟩ := hf j w hj
      refine ⟨k', g1, ?_, g3⟩
      have hkk : k' ≠ k := by
        intro e; subst e; rw [h3] at g3; exact hji (Option.some.inj g3).symm
      simp only [Array.getElem?_setIfInBounds]; grind
  · intro k' j hk'
    have := hb k' j hk'
    simp only [upd]; grind

/-- `DenseVecStorage::remove`: swap_remove in `data` and `entity_id`, redirect the moved entry. -/
theorem remove_ok {s : DenseOf α} {m : Nat → Option α} (h : Rep s m) {i : Nat} {v : α}
    (hm : m i = some v) :
    ∃ s', s.remove i = .ok (s', v) ∧ Rep s' (upd m i none) := by
  obtain ⟨data, eid, did⟩ := s
  obtain ⟨hsz, hf, hb⟩ := h
  simp only at hsz hf hb
  obtain ⟨k, h1, h2, h3⟩ := hf i v hm
  have hk : k < eid.size := getElem?_lt h3
  have hkd : k < data.size := by omega
  obtain ⟨last, hlast⟩ : ∃ last, eid[eid.size - 1]? = some last :=
    ⟨eid[eid.size - 1]'(by omega), by simp⟩
  have hbl := hb _ _ hlast
  have hll : last < did.size := getElem?_lt hbl.2
  refine ⟨⟨UStore.swapRemove data k, UStore.swapRemove eid k, did.setIfInBounds last (some k)⟩, ?_, ?_⟩
  · simp only [remove, h1, back?_eq, hlast, hll, if_true, h2, hk]
  · refine ⟨by simp only []; rw [size_swapRemove _ _ hk, size_swapRemove _ _ hkd, hsz], ?_, ?_⟩
    · intro j w hj
      simp only [upd] at hj
      by_cases hji : j = i
      · simp [hji] at hj
      · simp only [hji, if_false] at hj
        obtain ⟨k', g1, g2, g3⟩ := hf j w hj
        have hk' : k' < eid.size := getElem?_lt g3
        have hkk : k' ≠ k := by
          intro e; subst e; rw [h3] at g3; exact hji (Option.some.inj g3).symm
        by_cases hend : k' = eid.size - 1
        · have hjl : j = last := by
            rw [hend, hlast] at g3; exact (Option.some.inj g3).symm
          refine ⟨k, ?_, ?_, ?_⟩
          · simp only [Array.getElem?_setIfInBounds]; grind
          · simp only []; rw [swapRemove_get? _ _ _ hkd]; grind
          · simp only []; rw [swapRemove_get? _ _ _ hk]; grind
        · have hjl : j ≠ last := by
            intro e; subst e
            rw [g1] at hbl; grind
          refine ⟨k', ?_, ?_, ?_⟩
          · simp only [Array.getElem?_setIfInBounds]; grind
          · simp only []; rw [swapRemove_get? _ _ _ hkd]; grind
          · simp only []; rw [swapRemove_get? _ _ _ hk]; grind
    · intro k' j hk'
      simp only [] at hk'
      rw [swapRemove_get? _ _ _ hk] at hk'
      simp only [upd, Array.getElem?_setIfInBounds]
      by_cases hlt : k' < eid.size - 1
      · simp only [hlt, if_true] at hk'
        by_cases hkk : k' = k
        · simp only [hkk, if_true] at hk'
          have hjl : j = last := by rw [hlast] at hk'; exact (Option.some.inj hk').symm
          subst hjl
          have hji : j ≠ i := by
            intro e; subst e
            rw [h1] at hbl; grind
          grind
        · simp only [hkk, if_false] at hk'
          have := hb k' j hk'
          have hji : j ≠ i := by
            intro e; subst e; grind
          have hjl : j ≠ last := by
            intro e; subst e; grind
          grind
      · simp [hlt] at hk'

theorem clean_ok (s : DenseOf α) (has : BSet) :
    ∃ s', s.clean has = .ok (s', s.dropAll) ∧ Rep s' (fun _ => none) :=
  ⟨_, rfl, rep_empty⟩

/-! ### What a drop of the storage destroys -/

/-- Slot `k` of `data` is the payload of the entity index in slot `k` of `entity_id`. -/
theorem data_at {s : DenseOf α} {m : Nat → Option α} (h : Rep s m) {k i : Nat}
    (hk : s.entityId[k]? = some i) : s.data[k]? = m i := by
  obtain ⟨_, hf, hb⟩ := h
  obtain ⟨hs, hd⟩ := hb k i hk
  obtain ⟨v, hv⟩ := Option.isSome_iff_exists.mp hs
  obtain ⟨k', g1, g2, _⟩ := hf i v hv
  rw [hd] at g1
  have : k = k' := by simpa using g1
  subst this
  rw [g2, hv]

theorem dropAll_eq {s : DenseOf α} {m : Nat → Option α} (h : Rep s m) :
    s.dropAll.map some = s.entityId.toList.map m := by
  apply List.ext_getElem?
  intro k
  simp only [dropAll, List.getElem?_map, Array.getElem?_toList]
  by_cases hk : k < s.entityId.size
  · have hk2 : s.entityId[k]? = some s.entityId[k] := by simp [hk]
    rw [hk2, Option.map_some, ← data_at h hk2]
    have : k < s.data.size := by rw [h.1]; exact hk
    simp [this]
  · have h1 : s.entityId[k]? = none := Array.getElem?_eq_none (Nat.le_of_not_lt hk)
    have h2 : s.data[k]? = none := Array.getElem?_eq_none (by rw [h.1]; exact Nat.le_of_not_lt hk)
    simp [h1, h2]

theorem mem_entityId {s : DenseOf α} {m : Nat → Option α} (h : Rep s m) (i : Nat) :
    i ∈ s.entityId.toList ↔ (m i).isSome = true := by
  obtain ⟨_, hf, hb⟩ := h
  constructor
  · intro hi
    obtain ⟨k, hk, hke⟩ := List.getElem_of_mem hi
    have : s.entityId[k]? = some i := by
      simp only [Array.length_toList] at hk
      simp [hk, ← hke]
    exact (hb k i this).1
  · intro hs
    obtain ⟨v, hv⟩ := Option.isSome_iff_exists.mp hs
    obtain ⟨k, _, _, g3⟩ := hf i v hv
    have hk := getElem?_lt g3
    have : s.entityId[k] = i := by
      have := Array.getElem?_eq_getElem hk
      rw [this] at g3; exact Option.some.inj g3
    rw [← this]
    exact Array.getElem_mem_toList hk

theorem entityId_nodup {s : DenseOf α} {m : Nat → Option α} (h : Rep s m) :
    s.entityId.toList.Nodup := by
  obtain ⟨_, _, hb⟩ := h
  unfold List.Nodup
  rw [List.pairwise_iff_getElem]
  intro a b ha hbl hab heq
  simp only [Array.length_toList] at ha hbl
  simp only [Array.getElem_toList] at heq
  have ha' : s.entityId[a]? = some s.entityId[a] := by simp [ha]
  have hb' : s.entityId[b]? = some s.entityId[b] := by simp [hbl]
  have h1 := (hb a _ ha').2
  have h2 := (hb b _ hb').2
  rw [heq, h2] at h1
  have : b = a := by simpa using h1
  omega

end DenseOf

namespace ChangeSet
open DenseOf (Rep upd)

/-! ### The abstract content of a change set -/

/-- The amounts of the pairs with index `i`, in arrival order. -/
def amountsAt (ps : List (Nat × Amount)) (i : Nat) : List Amount :=
  (ps.filter (fun p => p.1 == i)).map (·.2)

/-- Some pair mentions index `i`. -/
def mentioned (ps : List (Nat × Amount)) (i : Nat) : Bool := ps.any (fun p => p.1 == i)

/-- The combination of the amounts given for index `i`, in arrival order. -/
def acc (ps : List (Nat × Amount)) (i : Nat) : Amount := (amountsAt ps i).flatten

/-- The map a change set built from `ps` must hold. -/
def expected (ps : List (Nat × Amount)) (i : Nat) : Option Amount :=
  if mentioned ps i then some (acc ps i) else none

/-- One `add` on the abstract map. -/
def stepMap (m : Nat → Option Amount) (p : Nat × Amount) : Nat → Option Amount :=
  upd m p.1 (some (match m p.1 with
    | some old => old ++ p.2
    | none => p.2))

/-- `Holds cs m`: the set is structurally sound and holds exactly the map `m`
    (`mask` = domain of `m`, the dense storage represents `m`). -/
def Holds (cs : ChangeSet) (m : Nat → Option Amount) : Prop :=
  Rep cs.inner m ∧ ∀ i, cs.mask.mem i = (m i).isSome

theorem holds_new : Holds new (fun _ => none) :=
  ⟨DenseOf.rep_empty, fun i => by simp [new]⟩

theorem add_ok {cs : ChangeSet} {m : Nat → Option Amount} (h : Holds cs m) (id : Nat) (v : Amount) :
    ∃ cs', cs.add id v = .ok cs' ∧ Holds cs' (stepMap m (id, v)) := by
  obtain ⟨hr, hm⟩ := h
  cases hmi : m id with
  | none =>
    have hmem : cs.mask.mem id = false := by rw [hm, hmi]; rfl
    obtain ⟨s', hs, hr'⟩ := DenseOf.insert_ok hr v hmi
    refine ⟨⟨cs.mask.add id, s'⟩, by simp [add, hmem, hs], ?_⟩
    refine ⟨by simpa [stepMap, hmi] using hr', ?_⟩
    intro i
    simp only [stepMap, upd, BSet.mem_add, hmi]
    by_cases hi : i = id
    · simp [hi]
    · simp [hi, hm]
  | some old =>
    have hmem : cs.mask.mem id = true := by rw [hm, hmi]; rfl
    have hg := DenseOf.get_ok hr hmi
    obtain ⟨s', hs, hr'⟩ := DenseOf.poke_ok hr (old ++ v) hmi
    refine ⟨{ cs with inner := s' }, by simp [add, hmem, hg, hs], ?_⟩
    refine ⟨by simpa [stepMap, hmi] using hr', ?_⟩
    intro i
    simp only [stepMap, upd, hmi]
    by_cases hi : i = id
    · simp [hi, hmem]
    · simp [hi, hm]

theorem extend_ok {cs : ChangeSet} {m : Nat → Option Amount} (h : Holds cs m)
    (ps : List (Nat × Amount)) :
    ∃ cs', cs.extend ps = .ok cs' ∧ Holds cs' (ps.foldl stepMap m) := by
  induction ps generalizing cs m with
  | nil => exact ⟨cs, rfl, h⟩
  | cons p ps ih =>
    obtain ⟨id, v⟩ := p
    obtain ⟨c1, h1, hh1⟩ := add_ok h id v
    obtain ⟨c2, h2, hh2⟩ := ih hh1
    exact ⟨c2, by simp only [extend, h1, h2], by simpa using hh2⟩

theorem fromIterLoop_eq_extend (cs : ChangeSet) (ps : List (Nat × Amount)) :
    fromIterLoop cs ps = cs.extend ps := by
  induction ps generalizing cs with
  | nil => rfl
  | cons p ps ih =>
    obtain ⟨id, v⟩ := p
    simp only [fromIterLoop, extend]
    cases cs.add id v with
    | ok c => exact ih c
    | panic w => rfl
    | ub w => rfl

theorem addSeq_eq_extend (cs : ChangeSet) (ps : List (Nat × Amount)) :
    cs.addSeq ps = cs.extend ps := by
  unfold addSeq
  induction ps generalizing cs with
  | nil => rfl
  | cons p ps ih =>
    obtain ⟨id, v⟩ := p
    simp only [List.foldl_cons, extend]
    cases h : cs.add id v with
    | ok c => exact ih c
    | panic w =>
      clear ih h
      induction ps with
      | nil => rfl
      | cons q qs ih2 => simpa using ih2
    | ub w =>
      clear ih h
      induction ps with
      | nil => rfl
      | cons q qs ih2 => simpa using ih2

theorem extend_append (cs : ChangeSet) (ps qs : List (Nat × Amount)) :
    cs.extend (ps ++ qs) = match cs.extend ps with
      | .ok c => c.extend qs
      | .panic w => .panic w
      | .ub w => .ub w := by
  induction ps generalizing cs with
  | nil => rfl
  | cons p ps ih =>
    obtain ⟨id, v⟩ := p
    simp only [List.cons_append, extend]
    cases cs.add id v with
    | ok c => exact ih c
    | panic w => rfl
    | ub w => rfl

/-! ### The abstract fold is the per-index accumulation -/

/-- Continue an accumulation with further amounts. -/
def combine : Option Amount → List Amount → Option Amount
  | o, [] => o
  | none, v :: vs => combine (some v) vs
  | some a, v :: vs => combine (some (a ++ v)) vs

theorem combine_some (a : Amount) (vs : List Amount) :
    combine (some a) vs = some (a ++ vs.flatten) := by
  induction vs generalizing a with
  | nil => simp [combine]
  | cons v vs ih => simp [combine, ih]

theorem combine_none (vs : List Amount) :
    combine none vs = if vs.isEmpty then none else some vs.flatten := by
  cases vs with
  | nil => rfl
  | cons v vs => simp [combine, combine_some]

theorem foldl_stepMap (m : Nat → Option Amount) (ps : List (Nat × Amount)) (i : Nat) :
    ps.foldl stepMap m i = combine (m i) (amountsAt ps i) := by
  induction ps generalizing m with
  | nil => rfl
  | cons p ps ih =>
    simp only [List.foldl_cons]
    rw [ih]
    simp only [amountsAt, List.filter_cons]
    by_cases hp : p.1 = i
    · subst hp
      simp only [beq_self_eq_true, if_true, List.map_cons, stepMap, upd]
      cases m p.1 <;> rfl
    · have : (p.1 == i) = false := by simp [hp]
      simp only [this, Bool.false_eq_true, if_false, stepMap, upd]
      have : ¬ i = p.1 := fun e => hp e.symm
      simp [this]

theorem amountsAt_isEmpty (ps : List (Nat × Amount)) (i : Nat) :
    (amountsAt ps i).isEmpty = !mentioned ps i := by
  induction ps with
  | nil => rfl
  | cons p ps ih =>
    simp only [amountsAt, mentioned, List.filter_cons, List.any_cons] at ih ⊢
    by_cases hp : p.1 = i
    · simp [hp]
    · have : (p.1 == i) = false := by simp [hp]
      simp only [this, Bool.false_eq_true, if_false, Bool.false_or]
      exact ih

theorem foldl_stepMap_empty (ps : List (Nat × Amount)) :
    ps.foldl stepMap (fun _ => none) = expected ps := by
  funext i
  rw [foldl_stepMap, combine_none, amountsAt_isEmpty]
  unfold expected acc
  cases mentioned ps i <;> rfl

theorem fromIter_ok (ps : List (Nat × Amount)) :
    ∃ cs, fromIter ps = .ok cs ∧ Holds cs (expected ps) := by
  obtain ⟨cs, h1, h2⟩ := extend_ok holds_new ps
  rw [foldl_stepMap_empty] at h2
  exact ⟨cs, by rw [fromIter, fromIterLoop_eq_extend]; exact h1, h2⟩

theorem amountsAt_append (ps qs : List (Nat × Amount)) (i : Nat) :
    amountsAt (ps ++ qs) i = amountsAt ps i ++ amountsAt qs i := by
  simp [amountsAt]

theorem acc_append (ps qs : List (Nat × Amount)) (i : Nat) :
    acc (ps ++ qs) i = acc ps i ++ acc qs i := by
  simp [acc, amountsAt_append]

theorem mentioned_append (ps qs : List (Nat × Amount)) (i : Nat) :
    mentioned (ps ++ qs) i = (mentioned ps i || mentioned qs i) := by
  simp [mentioned]

/-! ### Joins -/

theorem mem_joinIds {cs : ChangeSet} {m : Nat → Option Amount} (h : Holds cs m) (M : BSet) (i : Nat) :
    i ∈ cs.joinIds M ↔ ((m i).isSome = true ∧ M.mem i = true) := by
  simp [joinIds, BSet.mem_toList, BSet.mem_inter, h.2]

theorem joinIds_sorted (cs : ChangeSet) (M : BSet) : (cs.joinIds M).Pairwise (· < ·) :=
  BSet.toList_sorted _

theorem joinIds_nodup (cs : ChangeSet) (M : BSet) : (cs.joinIds M).Nodup :=
  BSet.toList_nodup _

/-- The value a present index holds. -/
def valAt (m : Nat → Option Amount) (i : Nat) : Amount := (m i).getD []

theorem sharedLoop_ok {s : DenseOf Amount} {m : Nat → Option Amount} (h : Rep s m) (ids : List Nat)
    (hin : ∀ i ∈ ids, (m i).isSome = true) :
    sharedLoop s ids = .ok (ids.map (fun i => (i, valAt m i))) := by
  induction ids with
  | nil => rfl
  | cons i is ih =>
    obtain ⟨v, hv⟩ := Option.isSome_iff_exists.mp (hin i (by simp))
    have := ih (fun j hj => hin j (by simp [hj]))
    simp [sharedLoop, DenseOf.get_ok h hv, this, valAt, hv]

/-- The map after a mutable join that visited `ids` and left `f i old` behind. -/
def mapAfter (f : Nat → Amount → Amount) (m : Nat → Option Amount) (ids : List Nat) :
    Nat → Option Amount :=
  fun j => if j ∈ ids then (m j).map (f j) else m j

theorem mutLoop_ok (f : Nat → Amount → Amount) {s : DenseOf Amount} {m : Nat → Option Amount}
    (h : Rep s m) (ids : List Nat) (hin : ∀ i ∈ ids, (m i).isSome = true) (hnd : ids.Nodup) :
    ∃ s', mutLoop f s ids = .ok (s', ids.map (fun i => (i, valAt m i))) ∧
      Rep s' (mapAfter f m ids) := by
  induction ids generalizing s m with
  | nil =>
    have : mapAfter f m [] = m := by funext j; simp [mapAfter]
    exact ⟨s, rfl, by rw [this]; exact h⟩
  | cons i is ih =>
    obtain ⟨v, hv⟩ := Option.isSome_iff_exists.mp (hin i (by simp))
    obtain ⟨s1, hp, hr1⟩ := DenseOf.poke_ok h (f i v) hv
    have hni : i ∉ is := (List.nodup_cons.mp hnd).1
    have hin1 : ∀ j ∈ is, (upd m i (some (f i v)) j).isSome = true := by
      intro j hj
      have : j ≠ i := fun e => hni (e ▸ hj)
      simp only [upd, this, if_false]
      exact hin j (by simp [hj])
    obtain ⟨s2, hl, hr2⟩ := ih hr1 hin1 (List.nodup_cons.mp hnd).2
    refine ⟨s2, ?_, ?_⟩
    · simp only [mutLoop, DenseOf.get_ok h hv, hp, hl, List.map_cons, valAt, hv, Option.getD_some]
      congr 2
      simp only [List.cons.injEq, true_and]
      apply List.map_congr_left
      intro j hj
      have : j ≠ i := fun e => hni (e ▸ hj)
      simp [upd, this]
    · have : mapAfter f (upd m i (some (f i v))) is = mapAfter f m (i :: is) := by
        funext j
        simp only [mapAfter, upd, List.mem_cons]
        by_cases hji : j = i
        · subst hji; simp [hni, hv]
        · simp [hji]
      rw [← this]; exact hr2

/-- The map after a by-value join that visited `ids`. -/
def mapWithout (m : Nat → Option Amount) (ids : List Nat) : Nat → Option Amount :=
  fun j => if j ∈ ids then none else m j

theorem consumeLoop_ok {s : DenseOf Amount} {m : Nat → Option Amount}
    (h : Rep s m) (ids : List Nat) (hin : ∀ i ∈ ids, (m i).isSome = true) (hnd : ids.Nodup) :
    ∃ s', consumeLoop s ids = .ok (s', ids.map (fun i => (i, valAt m i))) ∧
      Rep s' (mapWithout m ids) := by
  induction ids generalizing s m with
  | nil =>
    have : mapWithout m [] = m := by funext j; simp [mapWithout]
    exact ⟨s, rfl, by rw [this]; exact h⟩
  | cons i is ih =>
    obtain ⟨v, hv⟩ := Option.isSome_iff_exists.mp (hin i (by simp))
    obtain ⟨s1, hp, hr1⟩ := DenseOf.remove_ok h hv
    have hni : i ∉ is := (List.nodup_cons.mp hnd).1
    have hin1 : ∀ j ∈ is, (upd m i none j).isSome = true := by
      intro j hj
      have : j ≠ i := fun e => hni (e ▸ hj)
      simp only [upd, this, if_false]
      exact hin j (by simp [hj])
    obtain ⟨s2, hl, hr2⟩ := ih hr1 hin1 (List.nodup_cons.mp hnd).2
    refine ⟨s2, ?_, ?_⟩
    · simp only [consumeLoop, hp, hl, List.map_cons, valAt, hv, Option.getD_some]
      congr 2
      simp only [List.cons.injEq, true_and]
      apply List.map_congr_left
      intro j hj
      have : j ≠ i := fun e => hni (e ▸ hj)
      simp [upd, this]
    · have : mapWithout (upd m i none) is = mapWithout m (i :: is) := by
        funext j
        simp only [mapWithout, upd, List.mem_cons]
        by_cases hji : j = i
        · subst hji; simp
        · simp [hji]
      rw [← this]; exact hr2

/-- What is destroyed when a storage representing `m` is dropped: the payload of each index of
    `entity_id`, which lists the domain of `m` exactly once each. -/
theorem dropAll_spec {s : DenseOf Amount} {m : Nat → Option Amount} (h : Rep s m) :
    s.dropAll = s.entityId.toList.map (valAt m) ∧ s.entityId.toList.Nodup ∧
      ∀ i, i ∈ s.entityId.toList ↔ (m i).isSome = true := by
  refine ⟨?_, DenseOf.entityId_nodup h, DenseOf.mem_entityId h⟩
  have h1 := DenseOf.dropAll_eq h
  have h2 : s.entityId.toList.map m = (s.entityId.toList.map (valAt m)).map some := by
    rw [List.map_map]
    apply List.map_congr_left
    intro i hi
    obtain ⟨v, hv⟩ := Option.isSome_iff_exists.mp ((DenseOf.mem_entityId h i).mp hi)
    simp [valAt, hv]
  rw [h2] at h1
  exact (List.map_inj_right (fun _ _ e => Option.some.inj e)).mp h1

theorem entity_ext {a b : Entity} (h1 : a.id = b.id) (h2 : a.gen = b.gen) : a = b := by
  cases a; cases b; simp_all

theorem perm_of_nodup_mem {l₁ l₂ : List Nat} (n₁ : l₁.Nodup) (n₂ : l₂.Nodup)
    (h : ∀ a, a ∈ l₁ ↔ a ∈ l₂) : l₁.Perm l₂ :=
  (List.perm_ext_iff_of_nodup n₁ n₂).mpr h

end ChangeSet
end SpecsModel
