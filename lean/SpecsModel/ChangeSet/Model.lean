/-
  Model of /repo/src/changeset.rs (`ChangeSet<T>`), one Lean function per Rust function.

  * `DenseOf α` is `DenseVecStorage<T>` (/repo/src/storage/storages.rs) for an arbitrary payload
    type; its functions mirror `UStore.dense` of Model/Storages.lean one-to-one (same arrays, same
    `Out.ub` / `Out.panic` outcomes; `DenseOf.toU_*` in ChangeSet/Lemmas.lean proves the two agree
    at `α = Int`). `data_id` slots that were never written are `none` (`MaybeUninit`), reading one
    is `Out.ub`; `get_unchecked` out of bounds is `Out.ub`; `unwrap`/`swap_remove` failures are
    `Out.panic`.
  * Amounts are `List Int` under concatenation (`+=` is append), so the arrival order matters.
  * The change set is keyed by the entity INDEX (`entity.id()`); the generation never enters.
    `addE` is the Rust signature (takes the handle), `add` the body after `entity.id()`.
  * Join members: `open` hands out `(mask, storage)`; a join visits the ascending members of the
    conjunction of all masks (BitAnd + BitIter, Level A = `BSet.inter` + `BSet.toList`) and calls
    `get(value, id)` once per visited index. `M` is the combined mask of the other join members.
  * A by-value join moves the storage into the iterator; `get` = `remove(id)`; the mask is not
    touched; when the iterator is dropped the remaining `DenseVecStorage` is dropped, i.e. its
    `data: Vec<T>` drops the remaining payloads front to back (`DenseOf.dropAll`).
-/
import SpecsModel.Model.Storages
import SpecsModel.Model.Entity
namespace SpecsModel

/-- `DenseVecStorage<T>`: `data`, `entity_id`, `data_id` (`none` = uninitialised slot). -/
structure DenseOf (α : Type) where
  data : Array α
  entityId : Array Nat
  dataId : Array (Option Nat)
  deriving Repr

namespace DenseOf
variable {α : Type}

/-- `Default::default()`. -/
def empty : DenseOf α := ⟨#[], #[], #[]⟩

/-- `UnprotectedStorage::insert`. -/
def insert (s : DenseOf α) (id : Nat) (v : α) : Out (DenseOf α) :=
  .ok ⟨s.data.push v, s.entityId.push id,
       (UStore.growTo s.dataId id none).setIfInBounds id (some s.data.size)⟩

/-- `UnprotectedStorage::get`. -/
def get (s : DenseOf α) (id : Nat) : Out α :=
  match s.dataId[id]? with
  | some (some k) =>
    (match s.data[k]? with
     | some v => .ok v
     | none => .ub "DenseVecStorage::get: data index out of bounds")
  | some none => .ub "DenseVecStorage::get: uninitialised data_id"
  | none => .ub "DenseVecStorage::get: data_id out of bounds"

/-- The write through the reference returned by `get_mut` / `shared_get_mut`. -/
def poke (s : DenseOf α) (id : Nat) (v : α) : Out (DenseOf α) :=
  match s.dataId[id]? with
  | some (some k) =>
    if k < s.data.size then .ok ⟨s.data.setIfInBounds k v, s.entityId, s.dataId⟩
    else .ub "DenseVecStorage::get_mut: data index out of bounds"
  | some none => .ub "DenseVecStorage::get_mut: uninitialised data_id"
  | none => .ub "DenseVecStorage::get_mut: data_id out of bounds"

/-- `UnprotectedStorage::remove`. -/
def remove (s : DenseOf α) (id : Nat) : Out (DenseOf α × α) :=
  match s.dataId[id]? with
  | some (some k) =>
    (match s.entityId.back? with
     | none => .panic "DenseVecStorage::remove: entity_id.last().unwrap() on empty"
     | some last =>
       if last < s.dataId.size then
         (match s.data[k]? with
          | some v =>
            if k < s.entityId.size then
              .ok (⟨UStore.swapRemove s.data k, UStore.swapRemove s.entityId k,
                    s.dataId.setIfInBounds last (some k)⟩, v)
            else .panic "DenseVecStorage::remove: swap_remove index out of bounds"
          | none => .panic "DenseVecStorage::remove: swap_remove index out of bounds")
       else .ub "DenseVecStorage::remove: data_id[last] out of bounds")
  | some none => .ub "DenseVecStorage::remove: uninitialised data_id"
  | none => .ub "DenseVecStorage::remove: data_id out of bounds"

/-- Dropping the storage: `data: Vec<T>` drops its elements front to back. -/
def dropAll (s : DenseOf α) : List α := s.data.toList

/-- `UnprotectedStorage::clean(has)`: the three vectors are cleared; returns the storage and the
    payloads destroyed (in `data` order). -/
def clean (s : DenseOf α) (_has : BSet) : Out (DenseOf α × List α) :=
  .ok (⟨#[], #[], #[]⟩, s.data.toList)

end DenseOf

/-- The harness payload: a sequence of integers; `+=` appends. -/
abbrev Amount := List Int

/-- `ChangeSet<T>`. -/
structure ChangeSet where
  mask : BSet
  inner : DenseOf Amount
  deriving Repr

namespace ChangeSet

/-- `ChangeSet::new`. -/
def new : ChangeSet := ⟨BSet.empty, DenseOf.empty⟩

/-- `ChangeSet::add` after `entity.id()`. -/
def add (cs : ChangeSet) (id : Nat) (value : Amount) : Out ChangeSet :=
  if cs.mask.mem id then
    -- `*self.inner.get_mut(id) += value`
    match cs.inner.get id with
    | .ok old =>
      (match cs.inner.poke id (old ++ value) with
       | .ok inner' => .ok { cs with inner := inner' }
       | .panic w => .panic w
       | .ub w => .ub w)
    | .panic w => .panic w
    | .ub w => .ub w
  else
    -- `self.inner.insert(id, value); self.mask.add(id)`
    match cs.inner.insert id value with
    | .ok inner' => .ok ⟨cs.mask.add id, inner'⟩
    | .panic w => .panic w
    | .ub w => .ub w

/-- `ChangeSet::add(entity, value)`: only the index of the handle is used. -/
def addE (cs : ChangeSet) (e : Entity) (value : Amount) : Out ChangeSet := cs.add e.id value

/-- The `for (entity, d) in iter { self.add(entity, d) }` loop of `Extend::extend`. -/
def extend : ChangeSet → List (Nat × Amount) → Out ChangeSet
  | cs, [] => .ok cs
  | cs, (id, d) :: rest =>
    match cs.add id d with
    | .ok cs' => extend cs' rest
    | .panic w => .panic w
    | .ub w => .ub w

/-- The loop of `FromIterator::from_iter` on the accumulator `changeset`. -/
def fromIterLoop : ChangeSet → List (Nat × Amount) → Out ChangeSet
  | changeset, [] => .ok changeset
  | changeset, (id, d) :: rest =>
    match changeset.add id d with
    | .ok c => fromIterLoop c rest
    | .panic w => .panic w
    | .ub w => .ub w

/-- `FromIterator::from_iter`. -/
def fromIter (ps : List (Nat × Amount)) : Out ChangeSet := fromIterLoop new ps

/-- Adding the pairs one by one (a caller's own sequence of `add` calls). -/
def addSeq (cs : ChangeSet) (ps : List (Nat × Amount)) : Out ChangeSet :=
  ps.foldl (fun acc p => match acc with
    | .ok c => c.add p.1 p.2
    | .panic w => .panic w
    | .ub w => .ub w) (.ok cs)

/-- Handle-level versions: the generation is dropped by `entity.id()`. -/
def proj (es : List (Entity × Amount)) : List (Nat × Amount) := es.map (fun p => (p.1.id, p.2))
def fromIterE (es : List (Entity × Amount)) : Out ChangeSet := fromIter (proj es)
def extendE (cs : ChangeSet) (es : List (Entity × Amount)) : Out ChangeSet := cs.extend (proj es)

/-- `ChangeSet::clear`: returns the set and the payloads destroyed. -/
def clear (cs : ChangeSet) : Out (ChangeSet × List Amount) :=
  let maskTemp := cs.mask                       -- `mem::take(&mut self.mask)`
  match cs.inner.clean maskTemp with
  | .ok (inner', d) => .ok (⟨maskTemp.clear, inner'⟩, d)
  | .panic w => .panic w
  | .ub w => .ub w

/-- `ChangeSet::clear` during which the `n`-th (1-based; 0 counts as 1) destructor run panics and the panic is
    caught (C19). The mask is taken out of the set before anything is destroyed, the dense vector resets its two
    index tables first and `Vec::clear` goes on destroying the remaining elements while it unwinds: state and
    destroyed payloads are those of `clear`; the call panics iff at least `n` amounts are destroyed. -/
def clearFault (cs : ChangeSet) (n : Nat) : Out (ChangeSet × List Amount × Bool) :=
  match cs.clear with
  | .ok (cs', d) => .ok (cs', d, decide (max n 1 ≤ d.length))
  | .panic w => .panic w
  | .ub w => .ub w

/-- Dropping the change set: the payloads destroyed. -/
def dropAll (cs : ChangeSet) : List Amount := cs.inner.dropAll

/-- Indices a join of this set with members of combined mask `M` visits, in visiting order. -/
def joinIds (cs : ChangeSet) (M : BSet) : List Nat := (cs.mask.inter M).toList

/-- `get` of `&ChangeSet` on every index of `ids`. -/
def sharedLoop (s : DenseOf Amount) : List Nat → Out (List (Nat × Amount))
  | [] => .ok []
  | i :: is =>
    match s.get i with
    | .ok v =>
      (match sharedLoop s is with
       | .ok r => .ok ((i, v) :: r)
       | .panic w => .panic w
       | .ub w => .ub w)
    | .panic w => .panic w
    | .ub w => .ub w

/-- `(&changeset, …).join()`: items `(index, &amount)`. -/
def joinShared (cs : ChangeSet) (M : BSet) : Out (List (Nat × Amount)) :=
  sharedLoop cs.inner (cs.joinIds M)

/-- `get` of `&mut ChangeSet` on every index of `ids`; the caller receives `&mut T`, sees the
    current amount and leaves `f id amount` behind (e.g. `*a += d`). -/
def mutLoop (f : Nat → Amount → Amount) : DenseOf Amount → List Nat → Out (DenseOf Amount × List (Nat × Amount))
  | s, [] => .ok (s, [])
  | s, i :: is =>
    match s.get i with
    | .ok old =>
      (match s.poke i (f i old) with
       | .ok s' =>
         (match mutLoop f s' is with
          | .ok (s'', r) => .ok (s'', (i, old) :: r)
          | .panic w => .panic w
          | .ub w => .ub w)
       | .panic w => .panic w
       | .ub w => .ub w)
    | .panic w => .panic w
    | .ub w => .ub w

/-- `(&mut changeset, …).join()`: the set afterwards and the items `(index, amount seen)`. -/
def joinMut (cs : ChangeSet) (M : BSet) (f : Nat → Amount → Amount) : Out (ChangeSet × List (Nat × Amount)) :=
  match mutLoop f cs.inner (cs.joinIds M) with
  | .ok (s, r) => .ok ({ cs with inner := s }, r)
  | .panic w => .panic w
  | .ub w => .ub w

/-- `get` of the by-value `ChangeSet` (= `remove`) on every index of `ids`. -/
def consumeLoop : DenseOf Amount → List Nat → Out (DenseOf Amount × List (Nat × Amount))
  | s, [] => .ok (s, [])
  | s, i :: is =>
    match s.remove i with
    | .ok (s', v) =>
      (match consumeLoop s' is with
       | .ok (s'', r) => .ok (s'', (i, v) :: r)
       | .panic w => .panic w
       | .ub w => .ub w)
    | .panic w => .panic w
    | .ub w => .ub w

/-- `(changeset, …).join()` iterated for at most `n` items, then the iterator (owning the mask and
    the storage) is dropped: the items yielded and the payloads destroyed by the drop. -/
def consume (cs : ChangeSet) (M : BSet) (n : Nat) : Out (List (Nat × Amount) × List Amount) :=
  match consumeLoop cs.inner ((cs.joinIds M).take n) with
  | .ok (s, r) => .ok (r, s.dropAll)
  | .panic w => .panic w
  | .ub w => .ub w

end ChangeSet
end SpecsModel
