/-
  C19: the world invariant (with an exemption set for indices whose purge was interrupted) is
  re-established after every operation interrupted by a panicking destructor.
-/
import SpecsModel.Lemmas.WorldInvStep
import SpecsModel.Model.Fault
namespace SpecsModel
open Alloc
namespace World
variable {X : Nat → Prop}

theorem inv_weaken {X Y : Nat → Prop} {w : World} (h : WInvX X w) (hxy : ∀ i, X i → Y i) : WInvX Y w :=
  ⟨h.ent, h.size, h.good, fun k ms hk i hi => (h.owned k ms hk i hi).imp id (hxy i), h.inTable, h.queueOk⟩

theorem inv_ledger {w : World} (h : WInvX X w) (l : List Int) : WInvX X { w with ledger := l } :=
  ⟨h.ent, h.size, h.good, h.owned, h.inTable, h.queueOk⟩

/-- The interrupted purge only performs `MaskedStorage::drop(id)` calls: every storage stays well
    formed, masks only shrink, nothing else changes. -/
theorem purgeFault_inv : ∀ (pairs : List (Nat × Nat)) (w : World) (n : Nat), WInvX X w →
    WInvX X (purgeFault w pairs n).1 := by
  intro pairs
  induction pairs with
  | nil => intro w n h; exact h
  | cons p pairs ih =>
    intro w n h
    obtain ⟨k, id⟩ := p
    simp only [purgeFault]
    cases hst : w.store? k with
    | none => exact ih w n h
    | some m =>
      simp only
      obtain ⟨r, hr, hg⟩ := Masked.good_dropId (h.good k m hst) id
      rw [hr]; simp only
      have h1 : WInvX X ((w.setStore k r.st).destroy r.destroyed) :=
        inv_setStore h hst hg (fun i hi => by
          rw [Masked.dropId_mask hr i] at hi
          split at hi
          · cases hi
          · exact Or.inl hi) _
      split
      · exact h1
      · exact ih _ _ h1

/-- After the allocator part of a deletion (the indices `ids` are no longer occupied, nothing else
    changed) the invariant holds with `ids` exempted — before any component has been purged. -/
theorem inv_after_kill {w : World} (h : WInvX X w) {a' : Alloc} {s' : EntSpec} (ids : List Nat)
    (hW : WR { w.ent with alloc := a' } s')
    (hocc : ∀ j, a'.occ j = (w.ent.alloc.occ j && !ids.contains j)) :
    WInvX (fun i => X i ∨ i ∈ ids) { w with ent := { w.ent with alloc := a' } } := by
  refine ⟨⟨s', hW⟩, h.size, h.good, ?_, h.inTable, h.queueOk⟩
  intro k ms hk i hi
  rcases h.owned k ms hk i hi with ho | hx
  · by_cases hin : i ∈ ids
    · exact Or.inr (Or.inr hin)
    · left
      show a'.occ i = true
      rw [hocc i, ho]; simp [hin]
  · exact Or.inr (Or.inl hx)

theorem deleteEntitiesFault_inv (fuel : Nat) {w : World} (h : WInvX X w) (es : List Entity)
    (hes : ∀ s, WR w.ent s → ∀ e, e ∈ es → e ∈ s.seen) (n : Nat) (op : WOp) :
    ∃ Y : Nat → Prop, (∀ i, X i → Y i) ∧ WInvX Y (deleteEntitiesFault fuel w es n op).1 := by
  obtain ⟨s, hs⟩ := h.ent
  have hseen := hes s hs
  obtain ⟨a', r, s', hk, hstep, hR⟩ := kill_refine hs.r es hseen
  obtain ⟨a'', r'', hk', hocc⟩ := kill_occ hs.r es hseen
  rw [hk] at hk'; cases hk'
  have hW : WR { w.ent with alloc := a' } s' :=
    ⟨hR, by intro e he; rw [kill_seen hstep]; exact hs.logSeen e he⟩
  have hinv1 := inv_after_kill h (killedIds es 0 r) hW hocc
  simp only [deleteEntitiesFault, hk]
  cases r with
  | ok =>
    have key := purgeFault_inv (purgePairs { w with ent := { w.ent with alloc := a' } } es) _ n hinv1
    dsimp only at key ⊢
    split
    · next w2 heq =>
      refine ⟨fun i => X i ∨ i ∈ killedIds es 0 .ok, fun i hi => Or.inl hi, ?_⟩
      rw [heq] at key; exact key
    · exact ⟨X, fun i hi => hi, (inv_mutual fuel).1 w op h⟩
  | err pos =>
    have key := purgeFault_inv (purgePairs { w with ent := { w.ent with alloc := a' } } (es.take pos)) _ n hinv1
    dsimp only at key ⊢
    split
    · next w2 heq =>
      refine ⟨fun i => X i ∨ i ∈ killedIds es 0 (.err pos), fun i hi => Or.inl hi, ?_⟩
      rw [heq] at key; exact key
    · exact ⟨X, fun i hi => hi, (inv_mutual fuel).1 w op h⟩

/-- **Every operation interrupted by a panicking destructor leaves a well-formed world**: the
    invariant holds again, with the indices whose purge was cut short exempted from the ownership
    clause (their components may linger; C19 does not forbid that). -/
theorem stepFault_inv (fuel : Nat) {w : World} (h : WInvX X w) (op : WOp) (n : Nat) (implD : List Int) :
    ∃ Y : Nat → Prop, (∀ i, X i → Y i) ∧ WInvX Y (stepFault fuel w op n implD).1 := by
  have normal : ∃ Y : Nat → Prop, (∀ i, X i → Y i) ∧ WInvX Y (step fuel w op).1 :=
    ⟨X, fun i hi => hi, (inv_mutual fuel).1 w op h⟩
  cases op with
  | ins k hd v =>
    simp only [stepFault]
    cases w.store? k with
    | none => exact normal
    | some m =>
      cases resolve w.ent.log hd with
      | none => exact normal
      | some e =>
        simp only
        split
        · exact ⟨X, fun i hi => hi, inv_ledger h _⟩
        · exact normal
  | entry k hd eop =>
    cases eop with
    | orInsert v d wr =>
      simp only [stepFault]
      cases w.store? k with
      | none => exact normal
      | some m =>
        cases resolve w.ent.log hd with
        | none => exact normal
        | some e =>
          simp only
          split
          · exact ⟨X, fun i hi => hi, (inv_mutual fuel).1 w _ h⟩
          · exact normal
    | replace v => exact normal
    | remove => exact normal
  | ent eop =>
    cases eop with
    | delNow hd =>
      simp only [stepFault]
      cases hr : resolve w.ent.log hd with
      | none => exact normal
      | some e =>
        exact deleteEntitiesFault_inv fuel h [e] (by
          intro s hs x hx; simp only [List.mem_singleton] at hx; subst hx
          exact hs.logSeen _ (resolve_mem hr)) n _
    | delBatch hds =>
      simp only [stepFault]
      cases hr : resolveAll w.ent.log hds with
      | none => exact normal
      | some es =>
        exact deleteEntitiesFault_inv fuel h es (by
          intro s hs x hx; exact hs.logSeen _ (resolveAll_mem hr x hx)) n _
    | delAll =>
      simp only [stepFault]
      exact deleteEntitiesFault_inv fuel h _ (by
        intro s hs e he
        exact ((hs.r.liveIff e).mp ((mem_live_iff hs.r e).mpr ((mem_joinEntities hs.r.inv e).mp he))).1) n _
    | merge =>
      simp only [stepFault]
      obtain ⟨s, hs⟩ := h.ent
      obtain ⟨a', del, s', hm, hstep, hR⟩ := merge_refine hs.r
      obtain ⟨a'', hm', _, hocc, _, _, _, _⟩ := merge_spec hs.r.inv
      rw [hm] at hm'; cases hm'
      have hseen : s'.seen = s.seen := by simp only [EntSpec.step] at hstep; cases hstep; rfl
      have hW : WR { w.ent with alloc := a' } s' := ⟨hR, by intro e he; rw [hseen]; exact hs.logSeen e he⟩
      have hinv1 := inv_after_kill h w.ent.alloc.killed.toList hW (by
        intro j; rw [hocc j]; congr 1
        cases hj : w.ent.alloc.killed.mem j with
        | false =>
          have : ¬ j ∈ w.ent.alloc.killed.toList := fun hc => by
            have := (BSet.mem_toList _ _).mp hc; rw [hj] at this; cases this
          simp [this]
        | true =>
          have : j ∈ w.ent.alloc.killed.toList := (BSet.mem_toList _ _).mpr hj
          simp [this])
      have key := purgeFault_inv (purgePairs { w with ent := { w.ent with alloc := a' } }
          (w.ent.alloc.killed.toList.map (fun i => (⟨i, w.ent.alloc.top i⟩ : Entity)))) _ n hinv1
      simp only [hm]
      dsimp only at key ⊢
      split
      · next w2 heq =>
        refine ⟨fun i => X i ∨ i ∈ w.ent.alloc.killed.toList, fun i hi => Or.inl hi, ?_⟩
        rw [heq] at key; exact key
      · exact normal
    | _ => exact normal
  | clear k =>
    simp only [stepFault]
    obtain ⟨Y, hY, hinv⟩ := normal
    generalize step fuel w (.clear k) = x at *
    obtain ⟨w', r⟩ := x
    simp only
    split
    · exact ⟨Y, hY, inv_ledger hinv _⟩
    · exact ⟨Y, hY, hinv⟩
  | dropWorld =>
    simp only [stepFault]
    obtain ⟨Y, hY, hinv⟩ := normal
    generalize step fuel w .dropWorld = x at *
    obtain ⟨w', r⟩ := x
    simp only
    split
    · exact ⟨Y, hY, inv_ledger hinv _⟩
    · exact ⟨Y, hY, hinv⟩
  | _ => exact normal

end World
end SpecsModel
