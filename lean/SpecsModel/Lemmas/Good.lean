/-
  `Good ms`: the masked storage is well formed — it represents some partial map (`MRep`,
  Lemmas/MaskedRep) — and every `Storage` API call on a good storage returns normally with a good
  storage, for arbitrary arguments (dead handles, absent components, any values).
  This is the "no operation panics or reads a moved-out / never-written slot" half of C08 and the
  base of the world invariants.
-/
import SpecsModel.Lemmas.MaskedRep
import SpecsModel.Model.World
namespace SpecsModel
namespace Masked
open UStore

def Good (ms : Masked) : Prop :=
  (∃ m, ms.MRep m) ∧ (ms.inner.nullBased = true → ms.inner = .null)

theorem good_null (mask : BSet) : Good { mask := mask, inner := .null } := by
  refine ⟨⟨fun i => if mask.mem i then some 0 else none, ?_, ?_⟩, fun _ => rfl⟩
  · intro i; simp only; cases mask.mem i <;> simp
  · intro i v h; simp only at h; split at h <;> simp_all

theorem valOk_of_not_null {s : UStore} (hn : ¬ s.nullBased = true) (v : Int) : s.valOk v :=
  (valOk_iff s v).mpr (fun h => absurd h hn)

theorem good_of {ms ms' : Masked} {m : Nat → Option Int} (hn : ¬ ms.inner.nullBased = true)
    (h : ms'.MRep m) (hnb : ms'.inner.nullBased = ms.inner.nullBased) : Good ms' :=
  ⟨⟨m, h⟩, fun h' => absurd (hnb ▸ h') hn⟩

theorem good_new (k : Nat) : Good { mask := .empty, inner := newStore k } := by
  have hrep : ∀ s : UStore, s.Rep (fun _ => none) →
      (∃ m, ({ mask := BSet.empty, inner := s } : Masked).MRep m) := fun s h => ⟨_, mrep_empty s h⟩
  unfold newStore
  split
  all_goals first
    | exact good_null _
    | (refine ⟨hrep _ ?_, by simp [nullBased]⟩; simp [Rep, assocGet])

theorem good_getMut {ms : Masked} (h : Good ms) (a : Alloc) (e : Entity) (d : Nat) (w : Option Int) :
    ∃ r, ms.getMut a e d w = .ok r ∧ Good r.st := by
  obtain ⟨⟨m, hm⟩, hnull⟩ := h
  by_cases hn : ms.inner.nullBased = true
  · obtain ⟨mask, inner⟩ := ms
    have := hnull hn; simp only at this; subst this
    unfold getMut
    split
    · cases w <;> exact ⟨_, by simp [lift, UStore.get, UStore.touch, UStore.poke]; rfl, good_null _⟩
    · exact ⟨_, rfl, good_null _⟩
  · obtain ⟨r, h1, _, _, h4, h5⟩ := getMut_ref hm a e d w (fun x _ => valOk_of_not_null hn x)
    exact ⟨r, h1, good_of hn h4 h5⟩

theorem good_insert {ms : Masked} (h : Good ms) (a : Alloc) (e : Entity) (v : Int) :
    ∃ r, ms.insert a e v = .ok r ∧ Good r.st := by
  obtain ⟨⟨m, hm⟩, hnull⟩ := h
  by_cases hn : ms.inner.nullBased = true
  · obtain ⟨mask, inner⟩ := ms
    have := hnull hn; simp only at this; subst this
    unfold insert
    split
    · split
      · exact ⟨_, by simp [lift, UStore.get, UStore.touch, UStore.poke]; rfl, good_null _⟩
      · exact ⟨_, by simp [lift, notPresentInsert, UStore.insert]; rfl, good_null _⟩
    · exact ⟨_, rfl, good_null _⟩
  · obtain ⟨r, h1, _, h3, _, h5⟩ := insert_ref hm a e v (valOk_of_not_null hn v)
    exact ⟨r, h1, good_of hn h3 h5⟩

theorem good_removeId {ms : Masked} (h : Good ms) (i : Nat) :
    ∃ r, ms.removeId i = .ok r ∧ Good r.st := by
  obtain ⟨⟨m, hm⟩, hnull⟩ := h
  by_cases hn : ms.inner.nullBased = true
  · obtain ⟨mask, inner⟩ := ms
    have := hnull hn; simp only at this; subst this
    unfold removeId
    split
    · exact ⟨_, by simp [lift, UStore.remove]; rfl, good_null _⟩
    · exact ⟨_, rfl, good_null _⟩
  · obtain ⟨r, h1, _, _, h4, h5⟩ := removeId_ref hm i
    exact ⟨r, h1, good_of hn h4 h5⟩

theorem good_remove {ms : Masked} (h : Good ms) (a : Alloc) (e : Entity) :
    ∃ r, ms.remove a e = .ok r ∧ Good r.st := by
  unfold remove
  split
  · exact good_removeId h e.id
  · exact ⟨_, rfl, h⟩

theorem good_dropId {ms : Masked} (h : Good ms) (i : Nat) :
    ∃ r, ms.dropId i = .ok r ∧ Good r.st := by
  obtain ⟨⟨m, hm⟩, hnull⟩ := h
  by_cases hn : ms.inner.nullBased = true
  · obtain ⟨mask, inner⟩ := ms
    have := hnull hn; simp only at this; subst this
    unfold dropId
    split
    · exact ⟨_, by simp [lift, UStore.remove]; rfl, good_null _⟩
    · exact ⟨_, rfl, good_null _⟩
  · obtain ⟨r, h1, _, h4, h5⟩ := dropId_ref hm i
    exact ⟨r, h1, good_of hn h4 h5⟩

theorem good_dropAll : ∀ (es : List Entity) {ms : Masked} (_ : Good ms) (acc : List Int),
    ∃ r, ms.dropAll es acc = .ok r ∧ Good r.st := by
  intro es
  induction es with
  | nil => intro ms h acc; exact ⟨_, rfl, h⟩
  | cons e es ih =>
    intro ms h acc
    obtain ⟨r1, h1, g1⟩ := good_dropId h e.id
    obtain ⟨r, h2, g2⟩ := ih g1 (r1.destroyed.reverse ++ acc)
    exact ⟨r, by simp only [dropAll, h1, lift_ok, h2], g2⟩

theorem good_clear {ms : Masked} (h : Good ms) : ∃ r, ms.clear = .ok r ∧ Good r.st := by
  obtain ⟨⟨m, hm⟩, hnull⟩ := h
  by_cases hn : ms.inner.nullBased = true
  · obtain ⟨mask, inner⟩ := ms
    have := hnull hn; simp only at this; subst this
    exact ⟨_, by simp [clear, lift, UStore.clean]; rfl, good_null _⟩
  · obtain ⟨r, h1, h2, _, _, h5⟩ := clear_ref hm
    exact ⟨r, h1, good_of hn h2 h5⟩

theorem good_drain {ms : Masked} (h : Good ms) (n : Nat) : ∃ r, ms.drain n = .ok r ∧ Good r.st := by
  obtain ⟨⟨m, hm⟩, hnull⟩ := h
  by_cases hn : ms.inner.nullBased = true
  · -- null storage: every removeId succeeds with a null storage
    have key : ∀ (ids : List Nat) (ms : Masked) (n : Nat) (acc : List (Nat × Int)),
        ms.inner = .null → (∀ i ∈ ids, ms.mask.mem i = true) → ids.Nodup →
        ∃ r, ms.drainLoop ids n acc = .ok r ∧ Good r.st := by
      intro ids
      induction ids with
      | nil => intro ms n acc hi _ _; exact ⟨_, rfl, by obtain ⟨mask, inner⟩ := ms; simp only at hi; subst hi; exact good_null _⟩
      | cons id ids ih =>
        intro ms n acc hi hmem hnd
        obtain ⟨mask, inner⟩ := ms
        simp only at hi; subst hi
        cases n with
        | zero => exact ⟨_, rfl, good_null _⟩
        | succ n =>
          have hid : mask.mem id = true := hmem id (by simp)
          obtain ⟨hni, hnd'⟩ := List.nodup_cons.mp hnd
          simp only [drainLoop, removeId, hid, if_true, UStore.remove, lift]
          apply ih _ n _ rfl
          · intro i hi
            simp only [BSet.mem_remove]
            have : i ≠ id := fun h => hni (h ▸ hi)
            simp [this, hmem i (by simp [hi])]
          · exact hnd'
    exact key _ ms n [] (hnull hn) (fun i hi => (BSet.mem_toList _ _).mp hi) ms.mask.toList_nodup
  · obtain ⟨r, h1, _, _, h4, h5⟩ := drain_ref hm n
    exact ⟨r, h1, good_of hn h4 h5⟩

theorem good_entry {ms : Masked} (h : Good ms) (a : Alloc) (e : Entity) (op : EntryOp) :
    ∃ r, ms.entry a e op = .ok r ∧ Good r.st := by
  obtain ⟨⟨m, hm⟩, hnull⟩ := h
  by_cases hn : ms.inner.nullBased = true
  · obtain ⟨mask, inner⟩ := ms
    have := hnull hn; simp only at this; subst this
    cases hal : a.isAlive e
    · exact ⟨_, by simp [entry, hal]; rfl, good_null _⟩
    · cases hmem : mask.mem e.id
      · cases op with
        | orInsert v d w =>
          cases w <;>
            exact ⟨_, by simp [entry, hal, hmem, lift, notPresentInsert, UStore.insert, UStore.touch, UStore.poke]; rfl, good_null _⟩
        | replace v =>
          exact ⟨_, by simp [entry, hal, hmem, lift, notPresentInsert, UStore.insert, UStore.touch]; rfl, good_null _⟩
        | remove => exact ⟨_, by simp [entry, hal, hmem]; rfl, good_null _⟩
      · cases op with
        | orInsert v d w =>
          cases w <;>
            exact ⟨_, by simp [entry, hal, hmem, lift, UStore.get, UStore.touch, UStore.poke]; rfl, good_null _⟩
        | replace v =>
          exact ⟨_, by simp [entry, hal, hmem, lift, UStore.get, UStore.touch, UStore.poke]; rfl, good_null _⟩
        | remove =>
          exact ⟨_, by simp [entry, hal, hmem, lift, removeId, UStore.remove]; rfl, good_null _⟩
  · have hop : entryValsOk ms.inner op := by
      cases op with
      | orInsert v d w => exact ⟨valOk_of_not_null hn v, fun x _ => valOk_of_not_null hn x⟩
      | replace v => exact valOk_of_not_null hn v
      | remove => trivial
    obtain ⟨r, h1, _, h3, h4, _⟩ := entry_ref hm a e op hop
    exact ⟨r, h1, good_of hn h3 h4⟩

theorem good_getMutOrDefault {ms : Masked} (h : Good ms) (a : Alloc) (e : Entity) (d : Nat)
    (w : Option Int) : ∃ r, ms.getMutOrDefault a e d w = .ok r ∧ Good r.st := by
  unfold getMutOrDefault
  split
  · obtain ⟨r1, h1, g1⟩ := good_insert h a e 0
    rw [h1]; simp only [lift_ok]
    cases hv : r1.val with
    | wrongGen => exact ⟨_, rfl, g1⟩
    | inserted =>
      obtain ⟨r2, h2, g2⟩ := good_getMut g1 a e d w
      simp only [h2, lift_ok]; exact ⟨_, rfl, g2⟩
    | replaced old =>
      obtain ⟨r2, h2, g2⟩ := good_getMut g1 a e d w
      simp only [h2, lift_ok]; exact ⟨_, rfl, g2⟩
  · exact good_getMut h a e d w

theorem good_setEmit {ms : Masked} (h : Good ms) (b : Bool) :
    Good { ms with inner := ms.inner.setEmit b } := by
  obtain ⟨⟨m, hm⟩, hnull⟩ := h
  obtain ⟨mask, inner⟩ := ms
  cases inner with
  | flagged i ev em =>
    exact ⟨⟨m, hm.1, by simpa [UStore.setEmit, Rep] using hm.2⟩, by
      intro h'; have := hnull (by simpa [UStore.setEmit, nullBased] using h'); simp at this⟩
  | derefFlagged i ev em =>
    exact ⟨⟨m, hm.1, by simpa [UStore.setEmit, Rep] using hm.2⟩, by
      intro h'; have := hnull (by simpa [UStore.setEmit, nullBased] using h'); simp at this⟩
  | _ => exact ⟨⟨m, hm⟩, hnull⟩

theorem good_touch {ms : Masked} (h : Good ms) (i d : Nat) :
    Good { ms with inner := ms.inner.touch i d } := by
  obtain ⟨⟨m, hm⟩, hnull⟩ := h
  refine ⟨⟨m, hm.1, (touch_rep _ _ _ _).mpr hm.2⟩, ?_⟩
  intro h'
  rw [touch_nullBased] at h'
  have := hnull h'
  simp only [this, UStore.touch]

end Masked
end SpecsModel
