/-
  C08, world level (continued): entity operations, deletion (purge), registration, builders,
  lazy builders, restricted joins and `drop_world` preserve `XInv`, do not panic and balance the
  ledger.
-/
import SpecsModel.Lemmas.LedgerStep
namespace SpecsModel
open Masked Alloc
namespace World

theorem opIn_ent (eop : EOp) (r : WRes) : opIn (.ent eop) r = [] := by cases r <;> rfl
theorem opOut_ent (eop : EOp) (r : WRes) : opOut (.ent eop) r = [] := by cases r <;> rfl

/-- All storages of a world are `StOk`. -/
def AllOk (w : World) : Prop := ∀ k ms, w.store? k = some ms → StOk k ms

theorem allOk_of {w : World} (hi : WInv w) (hx : XInv w) : AllOk w := fun _ _ hk => stOk_of hi hx hk

theorem AllOk.setStore {w : World} (h : AllOk w) {k : Nat} {ms ms' : Masked}
    (hk : w.store? k = some ms) (hst : StOk k ms') (d : List Int) :
    AllOk ((w.setStore k ms').destroy d) := by
  intro k' m' h'
  rw [store?_setStore_destroy hk] at h'
  split at h'
  · next heq => cases h'; subst heq; exact hst
  · exact h k' m' h'

theorem isSome_setStore {w : World} {k : Nat} {ms : Masked} (hk : w.store? k = some ms)
    (ms' : Masked) (d : List Int) (k' : Nat) :
    (((w.setStore k ms').destroy d).store? k').isSome = (w.store? k').isSome := by
  rw [store?_setStore_destroy hk]
  split
  · next heq => subst heq; rw [hk]; rfl
  · rfl

/-- `XInv` from `AllOk` when table and queue are those of a world satisfying `XInv` and the set of
    registered kinds is the same. -/
theorem XInv.of_allOk {w w' : World} (hx : XInv w) (ha : AllOk w')
    (hd : ∀ k, (w'.store? k).isSome = (w.store? k).isSome)
    (ht : w'.table = w.table) (hq : w'.queue = w.queue) : XInv w' :=
  XInv.of_frame (fun k ms h => ⟨(ha k ms h).wf, (ha k ms h).kind⟩) (fun k h => by rw [hd k]; exact h) ht hq hx

/-! ### Purge -/

theorem led_deleteComponents (es : List Entity) : ∀ (ks : List Nat) (w : World), AllOk w →
    ∃ w', w.deleteComponents es ks = .ok w' ∧ AllOk w' ∧
      (∀ k, (w'.store? k).isSome = (w.store? k).isSome) ∧ (∀ c, tot c w' = tot c w) := by
  intro ks
  induction ks with
  | nil => intro w h; exact ⟨w, rfl, h, fun _ => rfl, fun _ => rfl⟩
  | cons k ks ih =>
    intro w h
    simp only [deleteComponents]
    cases hk : w.store? k with
    | none => exact ih w h
    | some m =>
      obtain ⟨r, h1, h2, h3⟩ := (h k m hk).dropAll es
      simp only [h1]
      obtain ⟨w', g1, g2, g3, g4⟩ := ih _ (h.setStore hk h2 r.destroyed)
      refine ⟨w', g1, g2, fun k' => by rw [g3 k', isSome_setStore hk], ?_⟩
      intro c
      rw [g4 c]
      have e1 := tot_setStore_some w k m r.st r.destroyed hk c
      have e2 := h3 c
      omega

theorem led_purge_match (w w1 : World) (hx : XInv w) (hall : AllOk w1) (hs : w1.stores = w.stores)
    (ht : w1.table = w.table) (hq : w1.queue = w.queue) (hl : w1.ledger = w.ledger)
    (purged : List Entity) (r : KillRes) :
    XInv (match w1.deleteComponents purged w1.table with
      | .ok w' => (w', WRes.e (.kill r))
      | .panic why => (w1, WRes.panic why)
      | .ub why => (w1, WRes.panic ("UB: " ++ why))).1 ∧
    ∀ c, tot c (match w1.deleteComponents purged w1.table with
      | .ok w' => (w', WRes.e (.kill r))
      | .panic why => (w1, WRes.panic why)
      | .ub why => (w1, WRes.panic ("UB: " ++ why))).1 = tot c w := by
  obtain ⟨w', g1, g2, g3, g4⟩ := led_deleteComponents purged w1.table w1 hall
  rw [g1]
  have hfr := LazyQ.deleteComponents_frame _ _ _ _ g1
  have hst : ∀ k, w1.store? k = w.store? k := fun k => by simp only [store?, hs]
  exact ⟨hx.of_allOk g2 (fun k => by rw [g3 k, hst k]) (hfr.table.trans ht) (hfr.queue.trans hq),
    fun c => by rw [g4 c]; exact tot_congr hs hq hl c⟩

theorem led_deleteEntities {w : World} (hi : WInv w) (hx : XInv w) (es : List Entity) :
    XInv (w.deleteEntities es).1 ∧ ∀ c, tot c (w.deleteEntities es).1 = tot c w := by
  unfold deleteEntities
  cases hk : w.ent.alloc.kill es with
  | ok p =>
    obtain ⟨a, r⟩ := p
    have hall : AllOk ({ w with ent := { w.ent with alloc := a } } : World) :=
      fun k ms hk => stOk_of hi hx hk
    exact led_purge_match w { w with ent := { w.ent with alloc := a } } hx hall rfl rfl rfl rfl _ r
  | panic why => exact ⟨hx, fun _ => rfl⟩
  | ub why => exact ⟨hx, fun _ => rfl⟩

theorem led_of_deleteEntities {w : World} (hi : WInv w) (hx : XInv w) (es : List Entity)
    (hes : ∀ s, WR w.ent s → ∀ e, e ∈ es → e ∈ s.seen) (eop : EOp) :
    Led w (.ent eop) (w.deleteEntities es) := by
  obtain ⟨a1, a2⟩ := led_deleteEntities hi hx es
  obtain ⟨_, r, hr⟩ := inv_deleteEntities hi es hes
  refine ⟨a1, ?_, by rw [hr]; rfl⟩
  rw [opIn_ent, opOut_ent]
  exact Bal.of_tot a2

/-! ### Entity operations -/

theorem led_ent_nonmerge {w : World} (hi : WInv w) (hx : XInv w) (fuel : Nat) (eop : EOp)
    (hne : eop ≠ .merge) : Led w (.ent eop) (step fuel w (.ent eop)) := by
  obtain ⟨s, hs⟩ := hi.ent
  have plain : ∀ op : EOp, Led w (.ent eop)
      (match w.ent.step op with | (ew, r) => (({ w with ent := ew } : World), WRes.e r)) := by
    intro op
    have hacc := (step_accept hs op).1
    generalize w.ent.step op = x at *
    obtain ⟨ew, r⟩ := x
    simp only at hacc ⊢
    refine Led.same hx rfl rfl rfl rfl (opIn_ent _ _) (opOut_ent _ _) ?_
    cases r <;> first | rfl | (cases op <;> simp [resShapeOk] at hacc)
  cases eop with
  | merge => exact absurd rfl hne
  | delAll =>
    simp only [step]
    obtain ⟨a1, a2⟩ := led_deleteEntities hi hx w.ent.alloc.joinEntities
    obtain ⟨a', hk, _⟩ := delAll_refine hs.r
    -- the batch kill of the joined entities succeeds
    have hres : ∃ w', w.deleteEntities w.ent.alloc.joinEntities = (w', .e (.kill .ok)) := by
      obtain ⟨_, r, hr⟩ := inv_deleteEntities hi w.ent.alloc.joinEntities (by
        intro s' hs' e he
        exact ((hs'.r.liveIff e).mp ((mem_live_iff hs'.r e).mpr ((mem_joinEntities hs'.r.inv e).mp he))).1)
      have : r = .ok := by
        simp only [deleteEntities, hk] at hr
        split at hr <;> simp at hr
        exact hr.symm
      subst this
      exact ⟨(w.deleteEntities w.ent.alloc.joinEntities).1, Prod.ext rfl hr⟩
    obtain ⟨w', hw'⟩ := hres
    rw [hw'] at a1 a2 ⊢
    exact ⟨a1, by rw [opIn_ent, opOut_ent]; exact Bal.of_tot a2, rfl⟩
  | delNow hd =>
    simp only [step]
    cases hr : resolve w.ent.log hd with
    | none => exact Led.same hx rfl rfl rfl rfl rfl rfl rfl
    | some e =>
      exact led_of_deleteEntities hi hx [e] (by
        intro s' hs' x hx'; simp only [List.mem_singleton] at hx'; subst hx'
        exact hs'.logSeen _ (resolve_mem hr)) _
  | delBatch hds =>
    simp only [step]
    cases hr : resolveAll w.ent.log hds with
    | none => exact Led.same hx rfl rfl rfl rfl rfl rfl rfl
    | some es =>
      exact led_of_deleteEntities hi hx es (by
        intro s' hs' x hx'; exact hs'.logSeen _ (resolveAll_mem hr x hx')) _
  | createNow d => simp only [step]; exact plain (.createNow d)
  | createAtomic d => simp only [step]; exact plain (.createAtomic d)
  | createIterNow n => simp only [step]; exact plain (.createIterNow n)
  | createIterAtomic n => simp only [step]; exact plain (.createIterAtomic n)
  | delAtomic hd => simp only [step]; exact plain (.delAtomic hd)
  | alive hd => simp only [step]; exact plain (.alive hd)
  | walive hd => simp only [step]; exact plain (.walive hd)
  | ejoin => simp only [step]; exact plain .ejoin

/-! ### Registration -/

theorem led_reg {w : World} (hi : WInv w) (hx : XInv w) (fuel k path : Nat) :
    Led w (.reg k path) (step fuel w (.reg k path)) := by
  simp only [step]
  refine ⟨?_, ?_, rfl⟩
  · unfold register
    split
    · next hk =>
      have key : ∀ w' : World, XInv w' →
          XInv (if w'.table.contains k then w' else { w' with table := w'.table ++ [k] }) := by
        intro w' h'
        split
        · exact h'
        · next hc =>
          refine ⟨h'.st, ?_, fun act ha => (h'.queue act ha).mono (fun _ h => h)⟩
          simp only
          rw [List.nodup_append]
          refine ⟨h'.nodup, by simp, ?_⟩
          intro a ha b hb
          simp only [List.mem_singleton] at hb
          subst hb
          intro e; subst e
          exact hc (by simpa using ha)
      apply key
      cases hst : w.store? k with
      | some m => exact hx
      | none =>
        simp only
        have hlt : k < w.stores.size := by rw [hi.size]; exact hk
        have hs : ∀ k', (w.setStore k { mask := .empty, inner := newStore k }).store? k' =
            if k' = k then some { mask := .empty, inner := newStore k } else w.store? k' := by
          intro k'; have := store?_setStore w k k' { mask := .empty, inner := newStore k }
          simpa [hlt] using this
        refine XInv.of_frame (w := w) ?_ ?_ rfl rfl hx
        · intro k' m' h'
          rw [hs] at h'
          split at h'
          · next heq => cases h'; subst heq; exact ⟨(StOk.new k').wf, (StOk.new k').kind⟩
          · exact hx.st k' m' h'
        · intro k' h'
          rw [hs]; split
          · rfl
          · exact h'
    · exact hx
  · apply Bal.of_tot
    intro c
    unfold register
    split
    · next hk =>
      have key : ∀ w' : World,
          tot c (if w'.table.contains k then w' else { w' with table := w'.table ++ [k] }) = tot c w' := by
        intro w'; split
        · rfl
        · exact tot_congr rfl rfl rfl c
      rw [key]
      cases hst : w.store? k with
      | some m => rfl
      | none =>
        simp only
        have hlt : k < w.stores.size := by rw [hi.size]; exact hk
        have := tot_setStore w k { mask := .empty, inner := newStore k } [] hlt c
        rw [destroy_nil, hst, storeHeld_none, StOk.held_new] at this
        simpa using this
    · rfl

/-! ### Builders -/

theorem insOut_eq (r : InsRes) : (match r with | .replaced old => [old] | _ => []) = insOut r := by
  cases r <;> rfl

theorem led_buildComps : ∀ (comps : List (Nat × Int)) (w : World) (e : Entity), AllOk w →
    w.ent.alloc.isAlive e = true →
    (∀ kv, kv ∈ comps → (w.store? kv.1).isSome = true ∧ vOk kv.1 kv.2) →
    ∃ w', w.buildComps e comps = .ok w' ∧ AllOk w' ∧
      (∀ k, (w'.store? k).isSome = (w.store? k).isSome) ∧ w'.ent = w.ent ∧ w'.table = w.table ∧
      w'.queue = w.queue ∧
      ∀ c : Int, c ≠ 0 → tot c w' = tot c w + (comps.map (·.2)).count c := by
  intro comps
  induction comps with
  | nil => intro w e h _ _; exact ⟨w, rfl, h, fun _ => rfl, rfl, rfl, rfl, fun c _ => by simp⟩
  | cons kv comps ih =>
    intro w e h hal hreg
    obtain ⟨k, v⟩ := kv
    obtain ⟨hk, hv⟩ := hreg (k, v) (by simp)
    simp only [buildComps]
    cases hst : w.store? k with
    | none => simp [hst] at hk
    | some m =>
      simp only
      obtain ⟨r, h1, h2, h3, h4⟩ := (h k m hst).insert w.ent.alloc e v hv
      rw [h1]; simp only
      have hne := h3 hal
      have hstep : ∃ w', ((w.setStore k r.st).destroy (r.destroyed ++ insOut r.val)).buildComps e comps = .ok w' ∧
          AllOk w' ∧ (∀ k', (w'.store? k').isSome = (w.store? k').isSome) ∧ w'.ent = w.ent ∧
          w'.table = w.table ∧ w'.queue = w.queue ∧
          ∀ c : Int, c ≠ 0 → tot c w' = tot c w + (((k, v) :: comps).map (·.2)).count c := by
        obtain ⟨w', g1, g2, g3, g4, g5, g6, g7⟩ := ih
          ((w.setStore k r.st).destroy (r.destroyed ++ insOut r.val))
          e (h.setStore hst h2 _) hal (by
            intro kv' hkv'
            obtain ⟨q1, q2⟩ := hreg kv' (by simp [hkv'])
            exact ⟨by rw [isSome_setStore hst]; exact q1, q2⟩)
        refine ⟨w', g1, g2, fun k' => by rw [g3 k', isSome_setStore hst], g4, g5, g6, ?_⟩
        intro c hc
        rw [g7 c hc]
        have e1 := tot_setStore_some w k m r.st (r.destroyed ++ insOut r.val) hst c
        have e2 := h4 c hc
        simp only [List.count_append, List.map_cons, List.count_cons, List.count_nil] at e1 e2 ⊢
        omega
      cases hv' : r.val with
      | wrongGen => exact absurd hv' hne
      | inserted => simp only [hv', insOut] at hstep ⊢; exact hstep
      | replaced old => simp only [hv', insOut] at hstep ⊢; exact hstep

/-- A fresh entity is alive (both creation paths, builder not dropped). -/
theorem create_alive {ew : EWorld} {s : EntSpec} (h : WR ew s) (atomic : Bool) :
    ∃ e ew' s', (if atomic then ew.createAtomic false else ew.createNow false) = (ew', .ent e) ∧
      WR ew' s' ∧ ew'.alloc.isAlive e = true ∧ e ∈ s'.seen := by
  obtain ⟨e, s', h1, h2, _, h4⟩ := create_accept h atomic false
  refine ⟨e, _, s', Prod.ext rfl h1, h4, ?_⟩
  have hstep : s.step (.created e) = .ok s' := by
    simp only [Bool.false_eq_true, if_false, EntSpec.run] at h2
    cases hs : s.step (.created e) with
    | ok s1 => rw [hs] at h2; simp only at h2; rw [h2]
    | error why => rw [hs] at h2; cases h2
  obtain ⟨hseen, hlive⟩ := step_created_ok hstep
  have hl : e ∈ s'.live := by rw [hlive]; simp
  exact ⟨((h4.r.liveIff e).mp hl).2, ((h4.r.liveIff e).mp hl).1⟩

theorem led_createWith {w : World} (hi : WInv w) (hx : XInv w) (fuel : Nat) (atomic dropped : Bool)
    (comps : List (Nat × Int)) (hop : opOk (.createWith atomic dropped comps) = true) :
    Led w (.createWith atomic dropped comps) (step fuel w (.createWith atomic dropped comps)) := by
  simp only [step]
  unfold createWith
  split
  · exact Led.same hx rfl rfl rfl rfl rfl rfl rfl
  · next hany =>
    obtain ⟨s, hs⟩ := hi.ent
    have hreg : ∀ kv, kv ∈ comps → (w.store? kv.1).isSome = true ∧ vOk kv.1 kv.2 := by
      intro kv hkv
      refine ⟨?_, ?_⟩
      · cases hq : w.store? kv.1 with
        | some _ => rfl
        | none =>
          exfalso; apply hany
          simp only [List.any_eq_true]
          exact ⟨kv, hkv, by simp [hq]⟩
      · have : comps.all (fun kv => vOkB kv.1 kv.2) = true := by simpa [opOk] using hop
        exact (vOkB_iff _ _).mp (List.all_eq_true.mp this kv hkv)
    obtain ⟨e, ew, s', hcre, hW, hal, hseen⟩ := create_alive hs atomic
    rw [hcre]
    simp only
    have hall : AllOk ({ w with ent := ew } : World) := fun k ms hk => stOk_of hi hx hk
    obtain ⟨w2, g1, g2, g3, g4, g5, g6, g7⟩ := led_buildComps comps { w with ent := ew } e hall hal hreg
    rw [g1]
    simp only
    have hx2 : XInv w2 := hx.of_allOk g2 g3 g5 g6
    have hbal : Bal w w2 (comps.map (·.2), []) := by
      intro c hc
      have := g7 c hc
      have e0 : tot c ({ w with ent := ew } : World) = tot c w := tot_congr rfl rfl rfl c
      simp only [List.count_nil]
      omega
    cases dropped with
    | false => exact ⟨hx2, hbal, rfl⟩
    | true =>
      simp only [if_true]
      have hW2 : WR w2.ent s' := by rw [g4]; exact hW
      obtain ⟨a', ok, s2, hk, _, _, hok, _⟩ := killAtomic_refine hW2.r e hseen
      have hal2 : w2.ent.alloc.isAlive e = true := by rw [g4]; exact hal
      rw [hal2] at hok; subst hok
      rw [hk]
      simp only
      exact ⟨XInv.of_same (w := w2) rfl rfl rfl hx2, hbal.congr_right (tot_congr rfl rfl rfl), rfl⟩

/-! ### Lazy builder -/

theorem led_lazyCreate {w : World} (hi : WInv w) (hx : XInv w) (fuel : Nat) (comps : List (Nat × Int))
    (hop : opOk (.lazyCreate comps) = true) :
    Led w (.lazyCreate comps) (step fuel w (.lazyCreate comps)) := by
  simp only [step]
  split
  · exact Led.same hx rfl rfl rfl rfl rfl rfl rfl
  · next hany =>
    obtain ⟨s, hs⟩ := hi.ent
    have hreg : ∀ kv, kv ∈ comps → (w.store? kv.1).isSome = true ∧ vOk kv.1 kv.2 := by
      intro kv hkv
      refine ⟨?_, ?_⟩
      · cases hq : w.store? kv.1 with
        | some _ => rfl
        | none =>
          exfalso; apply hany
          simp only [List.any_eq_true]
          exact ⟨kv, hkv, by simp [hq]⟩
      · have : comps.all (fun kv => vOkB kv.1 kv.2) = true := by simpa [opOk] using hop
        exact (vOkB_iff _ _).mp (List.all_eq_true.mp this kv hkv)
    obtain ⟨e, ew, s', hcre, _, _, _⟩ := create_alive hs true
    simp only [if_true] at hcre
    rw [hcre]
    simp only
    have key : ∀ (cs : List (Nat × Int)) (w1 : World), XInv w1 →
        (∀ kv, kv ∈ cs → (w1.store? kv.1).isSome = true ∧ vOk kv.1 kv.2) →
        XInv (cs.foldl (fun (w : World) (kv : Nat × Int) =>
          { w with queue := w.queue ++ [.ins w.nextTag kv.1 e kv.2], nextTag := w.nextTag + 1 }) w1) ∧
        Bal w1 (cs.foldl (fun (w : World) (kv : Nat × Int) =>
          { w with queue := w.queue ++ [.ins w.nextTag kv.1 e kv.2], nextTag := w.nextTag + 1 }) w1)
          (cs.map (·.2), []) := by
      intro cs
      induction cs with
      | nil => intro w1 h1 _; exact ⟨h1, Bal.refl w1⟩
      | cons kv cs ih =>
        intro w1 h1 hr1
        simp only [List.foldl_cons]
        obtain ⟨a1, a2⟩ := led_enqueue h1 (fun t => LazyAct.ins t kv.1 e kv.2) (hr1 kv (by simp))
        obtain ⟨b1, b2⟩ := ih _ a1 (fun kv' hkv' => hr1 kv' (by simp [hkv']))
        exact ⟨b1, a2.trans b2⟩
    have hx1 : XInv ({ w with ent := ew } : World) := XInv.of_same (w := w) rfl rfl rfl hx
    obtain ⟨a1, a2⟩ := key comps { w with ent := ew } hx1 hreg
    exact ⟨a1, a2.congr_left (tot_congr rfl rfl rfl), rfl⟩

/-! ### Teardown -/

theorem led_dropStores (w : World) : ∀ (ks : List Nat) (acc : List Int),
    (∀ k, k ∈ ks → ∀ ms, w.store? k = some ms → StOk k ms) →
    ∃ d, w.dropStores ks acc = .ok (acc ++ d) ∧
      ∀ c : Int, c ≠ 0 → d.count c = (ks.flatMap (fun k => storeHeld (w.store? k))).count c := by
  intro ks
  induction ks with
  | nil => intro acc _; exact ⟨[], by simp [dropStores], fun c _ => rfl⟩
  | cons k ks ih =>
    intro acc h
    simp only [dropStores, List.flatMap_cons]
    cases hk : w.store? k with
    | none =>
      obtain ⟨d, h1, h2⟩ := ih acc (fun k' hk' => h k' (by simp [hk']))
      exact ⟨d, h1, fun c hc => by simpa [storeHeld] using h2 c hc⟩
    | some m =>
      obtain ⟨r, g1, _, _, g4⟩ := (h k (by simp) m hk).clear
      simp only [g1]
      obtain ⟨d, h1, h2⟩ := ih (acc ++ r.destroyed) (fun k' hk' => h k' (by simp [hk']))
      refine ⟨r.destroyed ++ d, by rw [h1, List.append_assoc], ?_⟩
      intro c hc
      simp only [List.count_append, storeHeld, g4 c hc, h2 c hc]

theorem store?_replicate_none (w : World) (hs : w.stores = Array.replicate numKinds none) (k : Nat) :
    w.store? k = none := by
  simp only [store?, hs]
  by_cases hk : k < numKinds
  · simp [hk]
  · simp [hk]

theorem heldStores_none (w : World) (h : ∀ k, w.store? k = none) (c : Int) : w.heldStores.count c = 0 := by
  unfold heldStores
  rw [flatMap_congr' (g := fun _ => []) (fun j _ => by rw [h j]; rfl)]
  have : ∀ L : List Nat, L.flatMap (fun _ => ([] : List Int)) = [] := by
    intro L; induction L with
    | nil => rfl
    | cons a L ih => rw [List.flatMap_cons, ih]; rfl
  rw [this]; rfl

theorem led_dropWorld {w : World} (hi : WInv w) (hx : XInv w) (fuel : Nat) :
    Led w .dropWorld (step fuel w .dropWorld) := by
  simp only [step]
  obtain ⟨d, h1, h2⟩ := led_dropStores w w.table [] (fun k _ ms hk => stOk_of hi hx hk)
  rw [List.nil_append] at h1
  rw [h1]
  refine ⟨⟨?_, by simp, by simp⟩, ?_, rfl⟩
  · intro k ms hk; rw [store?_replicate_none _ rfl k] at hk; cases hk
  · intro c hc
    have e1 : (w.table.flatMap (fun k => storeHeld (w.store? k))).count c = w.heldStores.count c := by
      unfold heldStores
      apply count_flatMap_support hx.nodup List.nodup_range
      intro j hj
      cases hs : w.store? j with
      | none => rw [hs] at hj; exact absurd rfl hj
      | some ms =>
        exact ⟨fun _ => List.mem_range.mpr (lt_size_of_store? hs), fun _ => hi.inTable j ms hs⟩
    have e2 := h2 c hc
    simp only [tot, held, List.count_append]
    rw [heldStores_none _ (fun k => store?_replicate_none _ rfl k)]
    simp only [heldQueue, List.map_nil, List.flatten_nil, List.count_nil, List.count_append,
      List.count_reverse, opIn, opOut]
    omega

end World
end SpecsModel
