/-
  Structural invariant of the allocator model and its preservation by every `Allocator` function.
-/
import SpecsModel.Lemmas.AllocFree
namespace SpecsModel
namespace Alloc

/-- Index `i` is occupied by an entity that is not dead (alive, or created and awaiting merge). -/
def occ (a : Alloc) (i : Nat) : Bool := decide (0 < a.gens.get i) || a.raised.mem i

/-- Highest generation ever issued for index `i`. -/
def top (a : Alloc) (i : Nat) : Int :=
  if 0 < a.gens.get i then a.gens.get i
  else if a.raised.mem i then 1 - a.gens.get i else - a.gens.get i

/-- Invariant, parameterised by a list `p` of indices that have been killed by the loop of
    `kill` but not yet handed to the free list (`p = []` outside that loop). -/
structure InvP (a : Alloc) (p : List Nat) : Prop where
  lenOk : a.cacheLen ≤ a.cache.size
  beyond : ∀ i, a.genLen ≤ i → a.gens.get i = 0
  aliveIff : ∀ i, a.alive.mem i = true ↔ 0 < a.gens.get i
  raisedDead : ∀ i, a.raised.mem i = true → a.gens.get i ≤ 0
  killedOcc : ∀ i, a.killed.mem i = true → (0 < a.gens.get i ∨ a.raised.mem i = true)
  virgin : ∀ i, a.maxId ≤ i → a.gens.get i = 0 ∧ a.raised.mem i = false
  nonVirgin : ∀ i, i < a.maxId → a.gens.get i = 0 → a.raised.mem i = true
  freeOk : ∀ i, i ∈ a.free ++ p → i < a.maxId ∧ a.gens.get i < 0 ∧ a.raised.mem i = false
  freeNodup : (a.free ++ p).Nodup
  noLeak : ∀ i, i < a.maxId → (0 < a.gens.get i ∨ a.raised.mem i = true ∨ i ∈ a.free ++ p)

abbrev Inv (a : Alloc) : Prop := InvP a []

theorem inv_init : Inv init := by
  constructor <;> simp [init, free]

/-- A handle that was issued for its index (generation between 1 and `top`) is reported alive
    exactly when the index is occupied and the handle carries the top generation. -/
theorem isAlive_iff {a : Alloc} {p : List Nat} (h : InvP a p) (e : Entity)
    (h1 : 1 ≤ e.gen) (h2 : e.gen ≤ a.top e.id) (h3 : e.id < a.maxId) :
    a.isAlive e = true ↔ (a.occ e.id = true ∧ e.gen = a.top e.id) := by
  have hb := h.beyond e.id
  have hn := h.nonVirgin e.id h3
  have hr := h.raisedDead e.id
  unfold isAlive curGen genAt occ top at *
  by_cases hlen : e.id < a.genLen
  · simp only [hlen, if_true]
    cases hm : a.raised.mem e.id <;> simp_all <;> grind
  · have h0 : a.gens.get e.id = 0 := hb (by omega)
    have hm : a.raised.mem e.id = true := hn h0
    simp [hlen, h0, hm] at h2 ⊢

theorem delErrOk_of_dead {a : Alloc} {p : List Nat} (h : InvP a p) (e : Entity)
    (h1 : 1 ≤ e.gen) (h2 : e.gen ≤ a.top e.id) (h3 : e.id < a.maxId)
    (hd : a.isAlive e = false) : a.delErrOk e = true := by
  unfold delErrOk
  by_cases hlen : e.id < a.genLen
  · simpa using hlen
  · exfalso
    have h0 : a.gens.get e.id = 0 := h.beyond e.id (by omega)
    have hm : a.raised.mem e.id = true := h.nonVirgin e.id h3 h0
    have : a.isAlive e = true := by
      rw [isAlive_iff h e h1 h2 h3]
      simp [occ, top, hm, h0] at h2 ⊢
      omega
    simp [this] at hd

/-! ### `allocate` -/

theorem genAt_updLen (a : Alloc) (i : Nat) : (a.updLen i).genAt i = some (a.gens.get i) := by
  unfold updLen genAt; split <;> simp <;> omega

theorem updLen_fields (a : Alloc) (i : Nat) :
    (a.updLen i).gens = a.gens ∧ (a.updLen i).alive = a.alive ∧ (a.updLen i).raised = a.raised ∧
    (a.updLen i).killed = a.killed ∧ (a.updLen i).cache = a.cache ∧
    (a.updLen i).cacheLen = a.cacheLen ∧ (a.updLen i).maxId = a.maxId ∧
    (a.updLen i).genLen = max a.genLen (i + 1) := by
  unfold updLen; split <;> simp <;> omega

/-- Field-wise description of the tail of `allocate`. -/
theorem allocateWith_spec (a : Alloc) (id : Nat) (hg : a.gens.get id ≤ 0) :
    ∃ a', a.allocateWith id = .ok (a', ⟨id, 1 - a.gens.get id⟩) ∧
      a'.gens = a.gens.set id (1 - a.gens.get id) ∧ a'.genLen = max a.genLen (id + 1) ∧
      a'.alive = a.alive.add id ∧ a'.raised = a.raised ∧ a'.killed = a.killed ∧
      a'.cache = a.cache ∧ a'.cacheLen = a.cacheLen ∧ a'.maxId = a.maxId := by
  obtain ⟨h1, h2, h3, h4, h5, h6, h7, h8⟩ := updLen_fields a id
  unfold allocateWith raiseAt
  simp only [genAt]
  simp only [h1, h2, h3, h4, h5, h6, h7, h8]
  have : ¬ (a.gens.get id > 0) := by omega
  have hlt : id < max a.genLen (id + 1) := by omega
  simp [hlt, this]

theorem free_congr {a b : Alloc} (h1 : b.cache = a.cache) (h2 : b.cacheLen = a.cacheLen) :
    b.free = a.free := by simp [free, h1, h2]

/-- Effect of `Allocator::allocate`: it succeeds, keeps the invariant, and hands out the last
    element of the free list, or a fresh index when the free list is empty. -/
theorem allocate_spec {a : Alloc} (h : Inv a) :
    ∃ a' id, a.allocate = .ok (a', ⟨id, 1 - a.gens.get id⟩) ∧ Inv a' ∧
      a.occ id = false ∧ a.gens.get id ≤ 0 ∧
      (∀ j, a'.gens.get j = if j = id then 1 - a.gens.get id else a.gens.get j) ∧
      a'.raised = a.raised ∧ a'.killed = a.killed ∧
      ((a.free = [] ∧ id = a.maxId ∧ a'.maxId = a.maxId + 1 ∧ a'.free = []) ∨
       (a.free = a'.free ++ [id] ∧ a'.maxId = a.maxId)) := by
  obtain ⟨hg, hl, hal, hr, hk, hm, hlen⟩ := cachePop_fields a
  obtain ⟨hf, hx⟩ := free_cachePop a
  unfold allocate
  generalize hc : a.cachePop = c at *
  obtain ⟨a1, x⟩ := c
  simp only at hg hl hal hr hk hm hlen hf hx
  subst hx
  obtain ⟨i1, i2, i3, i4, i5, i6, i7, i8, i9, i10⟩ := h
  simp only [List.append_nil] at i8 i9 i10
  cases hlast : a.free.getLast? with
  | none =>
    have hnil : a.free = [] := List.getLast?_eq_none_iff.mp hlast
    have hv := i6 a.maxId (Nat.le_refl _)
    have hg0 : ({ a1 with maxId := a1.maxId + 1 } : Alloc).gens.get a1.maxId ≤ 0 := by
      simp only [hg, hm]; omega
    obtain ⟨a', he, e1, e2, e3, e4, e5, e6, e7, e8⟩ := allocateWith_spec _ _ hg0
    have he' := he
    simp only [hg, hl, hal, hr, hk, hm] at he e1 e2 e3 e4 e5 e6 e7 e8
    have hfa : a'.free = [] := by
      rw [free_congr (a := a1) e6 e7, hf, hnil]; rfl
    refine ⟨a', a.maxId, by dsimp only; rw [he']; simp [hm, hg], ?_, ?_, ?_, ?_, e4, e5, ?_⟩
    · constructor
      all_goals (simp only [hfa, e1, e2, e3, e4, e5, e7, e8, List.append_nil])
      · rw [e6]; exact hlen
      · intro i hi; rw [DMap.get_set]; grind
      · intro i; rw [DMap.get_set, BSet.mem_add]; grind
      · intro i hi; rw [DMap.get_set]; grind
      · intro i hi; rw [DMap.get_set]; grind
      · intro i hi; rw [DMap.get_set]; grind
      · intro i hi; rw [DMap.get_set]; grind
      · intro i hi; exact absurd hi (by simp)
      · simp
      · intro i hi; rw [DMap.get_set]; grind
    · simp [occ, hv.1, hv.2]
    · omega
    · intro j; rw [e1, DMap.get_set]
    · left; exact ⟨hnil, rfl, e8, hfa⟩
  | some id =>
    have hne : a.free ≠ [] := by intro h0; simp [h0] at hlast
    have hsplit : a.free = a.free.dropLast ++ [id] := by
      have h1 := List.dropLast_concat_getLast hne
      have h2 : a.free.getLast hne = id := by
        have := List.getLast?_eq_some_getLast hne
        rw [hlast] at this; exact (Option.some.inj this).symm
      rw [h2] at h1; exact h1.symm
    have hmem : id ∈ a.free := by rw [hsplit]; simp
    have hid := i8 id hmem
    have hg0 : a1.gens.get id ≤ 0 := by simp only [hg]; omega
    obtain ⟨a', he, e1, e2, e3, e4, e5, e6, e7, e8⟩ := allocateWith_spec _ _ hg0
    have he' := he
    simp only [hg, hl, hal, hr, hk, hm] at he e1 e2 e3 e4 e5 e6 e7 e8
    have hfa : a'.free = a.free.dropLast := by
      rw [free_congr (a := a1) e6 e7, hf]
    have hnd : id ∉ a.free.dropLast := by
      rw [hsplit] at i9
      have := List.nodup_append.mp i9
      intro hin; exact (this.2.2 id hin id (by simp)) rfl
    have hsub : ∀ i, i ∈ a.free.dropLast → i ∈ a.free := fun i hi => by rw [hsplit]; simp [hi]
    refine ⟨a', id, by dsimp only; rw [he']; simp [hg], ?_, ?_, ?_, ?_, e4, e5, ?_⟩
    · constructor
      all_goals (simp only [hfa, e1, e2, e3, e4, e5, e7, e8, List.append_nil])
      · rw [e6]; exact hlen
      · intro i hi; rw [DMap.get_set]; grind
      · intro i; rw [DMap.get_set, BSet.mem_add]; grind
      · intro i hi; rw [DMap.get_set]; grind
      · intro i hi; rw [DMap.get_set]; grind
      · intro i hi; rw [DMap.get_set]; grind
      · intro i hi; rw [DMap.get_set]; grind
      · intro i hi; rw [DMap.get_set]; have := i8 i (hsub i hi); grind
      · rw [hsplit] at i9; exact (List.nodup_append.mp i9).1
      · intro i hi; rw [DMap.get_set]
        have := i10 i hi
        rw [hsplit] at this
        grind
    · simp [occ, hid.2.2]; omega
    · omega
    · intro j; rw [e1, DMap.get_set]
    · right; exact ⟨by rw [hfa]; exact hsplit, e8⟩


/-! ### `allocate_atomic` -/

theorem joinGen_dead (a : Alloc) (x : Nat) (hb : ∀ i, a.genLen ≤ i → a.gens.get i = 0)
    (hg : a.gens.get x ≤ 0) : a.joinGen x = 1 - a.gens.get x := by
  unfold joinGen generation genAt
  by_cases hl : x < a.genLen
  · simp only [hl, if_true]
    by_cases h0 : a.gens.get x = 0
    · simp [h0]
    · simp only [h0, if_false]
      have : ¬ (a.gens.get x > 0) := by omega
      simp [this]
  · have := hb x (by omega)
    simp [hl, this]

theorem joinGen_alive (a : Alloc) (x : Nat) (hb : ∀ i, a.genLen ≤ i → a.gens.get i = 0)
    (hg : 0 < a.gens.get x) : a.joinGen x = a.gens.get x := by
  unfold joinGen generation genAt
  by_cases hl : x < a.genLen
  · have h0 : a.gens.get x ≠ 0 := by omega
    simp [hl, h0, hg]
  · have := hb x (by omega); omega

theorem allocateAtomicWith_spec (a : Alloc) (id : Nat)
    (hb : ∀ i, a.genLen ≤ i → a.gens.get i = 0) (hg : a.gens.get id ≤ 0) :
    ∃ a', a.allocateAtomicWith id = (a', ⟨id, 1 - a.gens.get id⟩) ∧
      a'.gens = a.gens ∧ a'.genLen = a.genLen ∧
      a'.alive = a.alive ∧ a'.raised = a.raised.add id ∧ a'.killed = a.killed ∧
      a'.cache = a.cache ∧ a'.cacheLen = a.cacheLen ∧ a'.maxId = a.maxId := by
  have hj : ({ a with raised := a.raised.add id } : Alloc).joinGen id = 1 - a.gens.get id := by
    rw [joinGen_dead] <;> simp only [] <;> first | exact hb | omega
  exact ⟨{ a with raised := a.raised.add id }, by simp only [allocateAtomicWith]; rw [hj], rfl, rfl, rfl, rfl, rfl, rfl, rfl, rfl⟩

theorem allocateAtomic_spec {a : Alloc} (h : Inv a) :
    ∃ a' id, a.allocateAtomic = .ok (a', ⟨id, 1 - a.gens.get id⟩) ∧ Inv a' ∧
      a.occ id = false ∧ a.gens.get id ≤ 0 ∧
      a'.gens = a.gens ∧
      (∀ j, a'.raised.mem j = if j = id then true else a.raised.mem j) ∧ a'.killed = a.killed ∧
      ((a.free = [] ∧ id = a.maxId ∧ a'.maxId = a.maxId + 1 ∧ a'.free = []) ∨
       (a.free = a'.free ++ [id] ∧ a'.maxId = a.maxId)) := by
  obtain ⟨i1, i2, i3, i4, i5, i6, i7, i8, i9, i10⟩ := h
  simp only [List.append_nil] at i8 i9 i10
  unfold allocateAtomic
  by_cases h0 : a.cacheLen = 0
  · obtain ⟨hp, hnil⟩ := cachePopAtomic_zero a h0
    rw [hp]
    have hv := i6 a.maxId (Nat.le_refl _)
    obtain ⟨a', he, e1, e2, e3, e4, e5, e6, e7, e8⟩ :=
      allocateAtomicWith_spec ({ a with maxId := a.maxId + 1 }) a.maxId i2 (by simp only []; omega)
    simp only [] at he e1 e2 e3 e4 e5 e6 e7 e8
    have hfa : a'.free = [] := by
      rw [free_congr (a := a) e6 e7, hnil]
    refine ⟨a', a.maxId, by dsimp only; rw [he], ?_, ?_, ?_, e1, ?_, e5, ?_⟩
    · constructor
      all_goals (simp only [hfa, e1, e2, e3, e4, e5, e7, e8, List.append_nil])
      · rw [e6]; exact i1
      · exact i2
      · exact i3
      · intro i; rw [BSet.mem_add]; grind
      · intro i hi; rw [BSet.mem_add]; grind
      · intro i hi; rw [BSet.mem_add]; grind
      · intro i hi; rw [BSet.mem_add]; grind
      · intro i hi; exact absurd hi (by simp)
      · simp
      · intro i hi; rw [BSet.mem_add]; grind
    · simp [occ, hv.1, hv.2]
    · omega
    · intro j; rw [e4, BSet.mem_add]
    · left; exact ⟨hnil, rfl, e8, hfa⟩
  · obtain ⟨x, hp, hsplit⟩ := cachePopAtomic_pos a i1 h0
    rw [hp]
    have hmem : x ∈ a.free := by rw [hsplit]; simp
    have hid := i8 x hmem
    obtain ⟨a', he, e1, e2, e3, e4, e5, e6, e7, e8⟩ :=
      allocateAtomicWith_spec ({ a with cacheLen := a.cacheLen - 1 }) x i2 (by simp only []; omega)
    simp only [] at he e1 e2 e3 e4 e5 e6 e7 e8
    generalize hfd : ({ a with cacheLen := a.cacheLen - 1 } : Alloc).free = fd at hsplit
    have hfa : a'.free = fd := by
      rw [← hfd]; exact free_congr e6 e7
    have hnd : x ∉ fd := by
      rw [hsplit] at i9
      have := List.nodup_append.mp i9
      intro hin; exact (this.2.2 x hin x (by simp)) rfl
    have hsub : ∀ i, i ∈ fd → i ∈ a.free := fun i hi => by rw [hsplit]; simp [hi]
    refine ⟨a', x, by dsimp only; rw [he], ?_, ?_, ?_, e1, ?_, e5, ?_⟩
    · constructor
      all_goals (simp only [hfa, e1, e2, e3, e4, e5, e7, e8, List.append_nil])
      · rw [e6]; omega
      · exact i2
      · exact i3
      · intro i; rw [BSet.mem_add]; grind
      · intro i hi; rw [BSet.mem_add]; grind
      · intro i hi; rw [BSet.mem_add]; grind
      · intro i hi; rw [BSet.mem_add]; grind
      · intro i hi; rw [BSet.mem_add]; have := i8 i (hsub i hi); grind
      · rw [hsplit] at i9; exact (List.nodup_append.mp i9).1
      · intro i hi; rw [BSet.mem_add]
        have := i10 i hi
        rw [hsplit] at this
        grind
    · simp [occ, hid.2.2]; omega
    · omega
    · intro j; rw [e4, BSet.mem_add]
    · right; exact ⟨by rw [hfa]; exact hsplit, e8⟩


/-! ### `kill_atomic`, `kill` -/

/-- `e` was issued for its index. Every handle in the log satisfies this (Lemmas/EntRefine). -/
structure Valid (a : Alloc) (e : Entity) : Prop where
  pos : 1 ≤ e.gen
  le : e.gen ≤ a.top e.id
  lt : e.id < a.maxId

theorem killAtomic_spec {a : Alloc} {p : List Nat} (h : InvP a p) (e : Entity) (hv : Valid a e) :
    (a.isAlive e = false ∧ a.killAtomic e = .ok (a, false)) ∨
    (a.isAlive e = true ∧ ∃ a', a.killAtomic e = .ok (a', true) ∧ InvP a' p ∧
      a'.gens = a.gens ∧ a'.raised = a.raised ∧ a'.maxId = a.maxId ∧ a'.free = a.free ∧
      (∀ j, a'.killed.mem j = if j = e.id then true else a.killed.mem j)) := by
  cases hal : a.isAlive e
  · left
    have := delErrOk_of_dead h e hv.pos hv.le hv.lt hal
    simp [killAtomic, hal, this]
  · right
    have hocc := ((isAlive_iff h e hv.pos hv.le hv.lt).mp hal).1
    refine ⟨rfl, { a with killed := a.killed.add e.id }, by simp [killAtomic, hal], ?_, rfl, rfl, rfl, rfl, ?_⟩
    · obtain ⟨i1, i2, i3, i4, i5, i6, i7, i8, i9, i10⟩ := h
      have hf : ({ a with killed := a.killed.add e.id } : Alloc).free = a.free := rfl
      constructor
      all_goals (simp only [hf])
      all_goals (first | assumption | skip)
      intro i hi; rw [BSet.mem_add] at hi
      simp only [occ, Bool.or_eq_true, decide_eq_true_eq] at hocc
      grind
    · intro j; simp only []; rw [BSet.mem_add]

/-- Field-wise description of one iteration of the loop of `kill` on an alive handle. -/
theorem killOne_spec {a : Alloc} {p : List Nat} (h : InvP a p) (e : Entity) (hv : Valid a e)
    (hal : a.isAlive e = true) :
    ∃ a', a.killOne e = .ok a' ∧
      (∀ j, a'.gens.get j = if j = e.id then - e.gen else a.gens.get j) ∧
      a'.genLen = max a.genLen (e.id + 1) ∧
      a'.alive = a.alive.remove e.id ∧ a'.raised = a.raised.remove e.id ∧
      a'.killed = a.killed.remove e.id ∧
      a'.cache = a.cache ∧ a'.cacheLen = a.cacheLen ∧ a'.maxId = a.maxId := by
  obtain ⟨hocc, htop⟩ := (isAlive_iff h e hv.pos hv.le hv.lt).mp hal
  obtain ⟨h1, h2, h3, h4, h5, h6, h7, h8⟩ :=
    updLen_fields ({ a with alive := a.alive.remove e.id, killed := a.killed.remove e.id }) e.id
  have hrd := h.raisedDead e.id
  have hlt : e.id < max a.genLen (e.id + 1) := by omega
  unfold killOne raiseAt dieAt
  simp only [genAt]
  simp only [h1, h2, h3, h4, h5, h6, h7, h8] at *
  simp only [occ, top, Bool.or_eq_true, decide_eq_true_eq] at hocc htop
  cases hr : a.raised.mem e.id
  · have hg : 0 < a.gens.get e.id := by simpa [hr] using hocc
    simp only [hg, if_true] at htop
    simp [hlt, hg, htop, DMap.get_set]
  · have hg : ¬ (0 < a.gens.get e.id) := by have := hrd hr; omega
    simp only [hg, if_false, hr, if_true] at htop
    have hg' : ¬ (a.gens.get e.id > 0) := hg
    have hpos : 1 - a.gens.get e.id > 0 := by omega
    have hlt1 : a.gens.get e.id < 1 := by omega
    simp [hlt, hg', htop, hlt1, DMap.get_set]
    intro j; split <;> rfl


/-- One iteration of the loop of `kill` keeps the invariant, with the killed index pending. -/
theorem killOne_inv {a a' : Alloc} {p : List Nat} (h : InvP a p) (e : Entity) (hv : Valid a e)
    (hal : a.isAlive e = true)
    (e1 : ∀ j, a'.gens.get j = if j = e.id then - e.gen else a.gens.get j)
    (e2 : a'.genLen = max a.genLen (e.id + 1))
    (e3 : a'.alive = a.alive.remove e.id) (e4 : a'.raised = a.raised.remove e.id)
    (e5 : a'.killed = a.killed.remove e.id)
    (e6 : a'.cache = a.cache) (e7 : a'.cacheLen = a.cacheLen) (e8 : a'.maxId = a.maxId) :
    InvP a' (p ++ [e.id]) := by
  obtain ⟨hocc, htop⟩ := (isAlive_iff h e hv.pos hv.le hv.lt).mp hal
  have hpos := hv.pos
  have hlt := hv.lt
  obtain ⟨i1, i2, i3, i4, i5, i6, i7, i8, i9, i10⟩ := h
  have hfa : a'.free = a.free := free_congr e6 e7
  simp only [occ, top, Bool.or_eq_true, decide_eq_true_eq] at hocc htop
  have hnotin : e.id ∉ a.free ++ p := by
    intro hin; have := i8 e.id hin; grind
  constructor
  all_goals (simp only [hfa, e1, e2, e3, e4, e5, e7, e8, ← List.append_assoc])
  · rw [e6]; exact i1
  · intro i hi; grind
  · intro i; rw [BSet.mem_remove]; grind
  · intro i; rw [BSet.mem_remove]; grind
  · intro i; rw [BSet.mem_remove, BSet.mem_remove]; grind
  · intro i hi; rw [BSet.mem_remove]; grind
  · intro i hi; rw [BSet.mem_remove]; grind
  · intro i hi; rw [BSet.mem_remove]
    rcases List.mem_append.mp hi with hi | hi
    · have := i8 i hi; grind
    · simp only [List.mem_singleton] at hi; subst hi; simp; omega
  · rw [List.nodup_append]
    refine ⟨i9, by simp, ?_⟩
    intro x hx y hy; simp only [List.mem_singleton] at hy; subst hy
    intro hxy; subst hxy; exact hnotin hx
  · intro i hi; rw [BSet.mem_remove]
    have := i10 i hi
    simp only [List.mem_append, List.mem_singleton] at this ⊢
    grind


/-! ### `merge` -/

theorem mergeRaise_spec : ∀ (l : List Nat) (a : Alloc), l.Nodup →
    (∀ i, i ∈ l → i < a.genLen ∧ a.gens.get i ≤ 0) →
    ∃ a', a.mergeRaise l = .ok a' ∧
      (∀ j, a'.gens.get j = if j ∈ l then 1 - a.gens.get j else a.gens.get j) ∧
      (∀ j, a'.alive.mem j = (decide (j ∈ l) || a.alive.mem j)) ∧
      a'.genLen = a.genLen ∧ a'.raised = a.raised ∧ a'.killed = a.killed ∧
      a'.cache = a.cache ∧ a'.cacheLen = a.cacheLen ∧ a'.maxId = a.maxId := by
  intro l
  induction l with
  | nil => intro a _ _; exact ⟨a, rfl, by simp, by simp, rfl, rfl, rfl, rfl, rfl, rfl⟩
  | cons i l ih =>
    intro a hnd hl
    have hi := hl i (by simp)
    have hng : ¬ (a.gens.get i > 0) := by omega
    obtain ⟨hil, hnd'⟩ := List.nodup_cons.mp hnd
    obtain ⟨a', hr, e1, e2, e3, e4, e5, e6, e7, e8⟩ :=
      ih ({ a with gens := a.gens.set i (1 - a.gens.get i), alive := a.alive.add i }) hnd' (by
        intro j hj
        have hji : j ≠ i := fun h => hil (h ▸ hj)
        simp only [DMap.get_set, hji, if_false]
        exact hl j (by simp [hj]))
    refine ⟨a', by simp [mergeRaise, raiseAt, genAt, hi.1, hng, hr], ?_, ?_, e3, e4, e5, e6, e7, e8⟩
    · intro j; rw [e1]; simp only [DMap.get_set, List.mem_cons]
      by_cases hji : j = i
      · subst hji; simp [hil]
      · simp [hji]
    · intro j; rw [e2]; simp only [BSet.mem_add, List.mem_cons]
      by_cases hji : j = i
      · subst hji; simp
      · simp [hji]

theorem mergeKill_spec : ∀ (l : List Nat) (a : Alloc) (acc : List Entity), l.Nodup →
    (∀ i, i ∈ l → i < a.genLen ∧ 0 < a.gens.get i) →
    ∃ a', a.mergeKill l acc = .ok (a', acc.reverse ++ l.map (fun i => ⟨i, a.gens.get i⟩)) ∧
      (∀ j, a'.gens.get j = if j ∈ l then - a.gens.get j else a.gens.get j) ∧
      (∀ j, a'.alive.mem j = (!decide (j ∈ l) && a.alive.mem j)) ∧
      a'.genLen = a.genLen ∧ a'.raised = a.raised ∧ a'.killed = a.killed ∧
      a'.cache = a.cache ∧ a'.cacheLen = a.cacheLen ∧ a'.maxId = a.maxId := by
  intro l
  induction l with
  | nil => intro a acc _ _; exact ⟨a, by simp [mergeKill], by simp, by simp, rfl, rfl, rfl, rfl, rfl, rfl⟩
  | cons i l ih =>
    intro a acc hnd hl
    have hi := hl i (by simp)
    have hne : a.gens.get i ≠ 0 := by omega
    obtain ⟨hil, hnd'⟩ := List.nodup_cons.mp hnd
    obtain ⟨a', hr, e1, e2, e3, e4, e5, e6, e7, e8⟩ :=
      ih ({ a with alive := a.alive.remove i, gens := a.gens.set i (- a.gens.get i) })
        (⟨i, a.gens.get i⟩ :: acc) hnd' (by
        intro j hj
        have hji : j ≠ i := fun h => hil (h ▸ hj)
        simp only [DMap.get_set, hji, if_false]
        exact hl j (by simp [hj]))
    refine ⟨a', ?_, ?_, ?_, e3, e4, e5, e6, e7, e8⟩
    · simp only [mergeKill, generation, genAt, dieAt, hi.1, if_true, hne, if_false, hi.2]
      rw [hr]
      simp only [List.reverse_cons, List.append_assoc, List.singleton_append, List.map_cons]
      congr 2
      apply congrArg
      apply congrArg
      apply List.map_congr_left
      intro j hj
      have hji : j ≠ i := fun h => hil (h ▸ hj)
      simp [DMap.get_set, hji]
    · intro j; rw [e1]; simp only [DMap.get_set, List.mem_cons]
      by_cases hji : j = i
      · subst hji; simp [hil]
      · simp [hji]
    · intro j; rw [e2]; simp only [BSet.mem_remove, List.mem_cons]
      by_cases hji : j = i
      · subst hji; simp
      · simp [hji]


theorem lt_maxId_of_occ {a : Alloc} {p : List Nat} (h : InvP a p) {i : Nat}
    (ho : 0 < a.gens.get i ∨ a.raised.mem i = true) : i < a.maxId := by
  by_cases hlt : i < a.maxId
  · exact hlt
  · have := h.virgin i (by omega)
    rcases ho with ho | ho
    · omega
    · simp [this.2] at ho

/-- Effect of `Allocator::merge`. -/
theorem merge_spec {a : Alloc} (h : Inv a) :
    ∃ a', a.merge = .ok (a', a.killed.toList.map (fun i => ⟨i, a.top i⟩)) ∧ Inv a' ∧
      (∀ j, a'.occ j = (a.occ j && !a.killed.mem j)) ∧ (∀ j, a'.top j = a.top j) ∧
      (∀ j, a'.killed.mem j = false) ∧ (∀ j, a'.raised.mem j = false) ∧ a'.maxId = a.maxId := by
  have hinv := h
  obtain ⟨i1, i2, i3, i4, i5, i6, i7, i8, i9, i10⟩ := h
  simp only [List.append_nil] at i8 i9 i10
  obtain ⟨u1, u2, u3, u4, u5, u6, u7, u8⟩ := updLen_fields a (a.maxId + 1)
  -- first loop
  obtain ⟨a1, hr1, g1, al1, l1, r1, k1, c1, cl1, m1⟩ :=
    mergeRaise_spec a.raised.toList (a.updLen (a.maxId + 1)) a.raised.toList_nodup (by
      intro i hi
      have hm := (BSet.mem_toList _ _).mp hi
      have := lt_maxId_of_occ hinv (Or.inr hm)
      rw [u8, u1]; exact ⟨by omega, i4 i hm⟩)
  simp only [BSet.mem_toList, u1, u2, u3, u4, u5, u6, u7, u8] at g1 al1 l1 r1 k1 c1 cl1 m1
  -- second loop
  obtain ⟨a3, hr3, g3, al3, l3, r3, k3, c3, cl3, m3⟩ :=
    mergeKill_spec a.killed.toList ({ a1 with raised := a1.raised.clear }) [] a.killed.toList_nodup (by
      intro i hi
      have hm := (BSet.mem_toList _ _).mp hi
      have ho := i5 i hm
      have := lt_maxId_of_occ hinv ho
      simp only [l1, g1]
      refine ⟨by omega, ?_⟩
      rcases ho with ho | ho
      · have : a.raised.mem i ≠ true := fun hr => by have := i4 i hr; omega
        simp [this]; exact ho
      · have := i4 i ho; simp [ho]; omega)
  simp only [BSet.mem_toList, g1, al1, l1, r1, k1, c1, cl1, m1] at g3 al3 l3 r3 k3 c3 cl3 m3
  have hdel : (a.killed.toList.map fun i => (⟨i, ({ a1 with raised := a1.raised.clear } : Alloc).gens.get i⟩ : Entity))
      = a.killed.toList.map (fun i => ⟨i, a.top i⟩) := by
    apply List.map_congr_left
    intro i hi
    have hm := (BSet.mem_toList _ _).mp hi
    have ho := i5 i hm
    simp only [g1, top]
    rcases ho with ho | ho
    · have : a.raised.mem i ≠ true := fun hr => by have := i4 i hr; omega
      simp [this, ho]
    · have := i4 i ho
      have hn : ¬ (0 < a.gens.get i) := by omega
      simp [ho, hn]
  obtain ⟨a4, ha4⟩ : ∃ x : Alloc, x = { a3 with killed := a3.killed.clear } := ⟨_, rfl⟩
  have q1 : a4.gens = a3.gens := by rw [ha4]
  have q2 : a4.genLen = a3.genLen := by rw [ha4]
  have q3 : a4.alive = a3.alive := by rw [ha4]
  have q4 : a4.raised = a3.raised := by rw [ha4]
  have q5 : ∀ j, a4.killed.mem j = false := by intro j; rw [ha4]; simp
  have q6 : a4.maxId = a3.maxId := by rw [ha4]
  have q7 : a4.free = a.free := by rw [ha4]; simp only [free, c3, cl3]
  obtain ⟨a5, ha5⟩ : ∃ x : Alloc, x = a4.cacheExtend a.killed.toList := ⟨_, rfl⟩
  obtain ⟨f1, f2, f3, f4, f5, f6, f7⟩ := cacheExtend_fields a4 a.killed.toList
  have hf := free_cacheExtend a4 a.killed.toList
  rw [← ha5] at f1 f2 f3 f4 f5 f6 f7 hf
  rw [q7] at hf
  refine ⟨a5, ?_, ?_, ?_, ?_, ?_, ?_, ?_⟩
  · unfold merge
    simp only [u3, hr1]
    have hk' : ({ a1 with raised := a1.raised.clear } : Alloc).killed.toList = a.killed.toList := by
      simp only [k1]
    simp only [hk', hr3, List.reverse_nil, List.nil_append, hdel]
    rw [ha5, ha4]
    simp [List.map_map, Function.comp_def]
  · constructor
    all_goals (try simp only [hf, f1, f2, f3, f4, f5, f6, q1, q2, q3, q4, q5, q6, g3, al3, l3, r3, m3,
      List.append_nil, BSet.mem_clear, List.mem_append, BSet.mem_toList])
    · exact f7
    · intro i hi
      have := i2 i (by omega)
      have hnr : a.raised.mem i ≠ true := fun hr => by have := lt_maxId_of_occ hinv (Or.inr hr); omega
      simp [hnr, this]
    · intro i; have := i3 i; have := i4 i; have := i5 i; grind
    · intro i hi; simp at hi
    · intro i hi; simp at hi
    · intro i hi
      have := i6 i hi
      have hnk : a.killed.mem i ≠ true := fun hk => by have := lt_maxId_of_occ hinv (i5 i hk); omega
      simp [this.1, this.2, hnk]
    · intro i hi; have := i7 i hi; have := i4 i; grind
    · intro i hi
      rcases hi with hi | hi
      · have := i8 i hi; have := i5 i; grind
      · have := i5 i hi; have := lt_maxId_of_occ hinv this; have := i4 i; grind
    · rw [List.nodup_append]
      refine ⟨i9, a.killed.toList_nodup, ?_⟩
      intro x hx y hy hxy; subst hxy
      have := i8 x hx; have := i5 x ((BSet.mem_toList _ _).mp hy); grind
    · intro i hi; have := i10 i hi; have := i4 i; grind
  · intro j; simp only [occ, f1, f4, q1, q4, g3, r3, BSet.mem_clear]
    have := i4 j; have := i5 j; grind
  · intro j; simp only [top, f1, f4, q1, q4, g3, r3, BSet.mem_clear]
    have := i4 j; have := i5 j; grind
  · intro j; rw [f5]; exact q5 j
  · intro j; rw [f4, q4, r3]; simp
  · rw [f6, q6, m3]

end Alloc
end SpecsModel
