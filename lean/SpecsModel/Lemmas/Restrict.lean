/-
  Lemmas for C13 (restricted storages): `restrict()` / `restrict_mut()` + `join` / `lend_join` and
  the per-item API of `PairedStorageRead` / `PairedStorageWriteExclusive` (/repo/src/storage/restrict.rs:
  `get`, `get_mut`, `get_other`, `get_other_mut`), modelled by `World.rjoinLoop` and the `.rjoin`
  case of `World.step` (Model/World.lean).

  Contents
  * `specItem`, `specRJoin`: a pure reference semantics of the restricted join on plain partial
    maps `Nat → Option Int` (no storage kinds, no event channel, no panics);
  * `itemEv`, `rjoinEv`: the modification events the join is expected to emit (ungated), as a
    function of the actions only: `Ev.modEv` at `id` for each item fetched mutably, `Ev.modEv` at
    `e.id` for each `get_other_mut` that hits a live member, nothing else;
  * `Frame k w w'`: everything of the world except storage `k` is unchanged;
    `Outcome`: the shape of the effect of (a part of) a restricted join;
  * `rjoin_item`: one item of the join against `specItem` (all five actions, mutable or not,
    handles live / dead / stale / without component);
  * `rjoinLoop_refines`: the whole loop against `specRJoin` — for every storage kind, every storage
    content (`MRep`), every list of visited members, every action list: the loop returns `.items`
    (never `panic` / `noStore`), the items are those of the reference semantics, the final storage
    represents the final map, the mask is literally unchanged, the event channel grows by exactly
    the gated `rjoinEv`, everything else in the world is untouched;
  * `step_rjoin_eq`, `step_rjoin_refines(_gen)`: the instance for `World.step … (.rjoin k mutable acts)`
    (`ids = mask.toList`), `step_rjoin_refines_nonNull` without the value side condition;
  * facts about the reference semantics: `specRJoin_ids`, `specRJoin_keys`, `specRJoin_immutable`,
    `rjoinEv_immutable`, `rjoinEv_reads`.
-/
import SpecsModel.Lemmas.MaskedRep
import SpecsModel.Lemmas.MaskFacts
import SpecsModel.Lemmas.Events
namespace SpecsModel

/-- The value an action writes through the mutable access it fetches (if any). -/
def RAct.write? : RAct → Option Int
  | .getMut _ wr => wr
  | .getOtherMut _ _ wr => wr
  | _ => none

/-- The action never fetches anything mutably. -/
def RAct.isRead : RAct → Bool
  | .getMut .. => false
  | .getOtherMut .. => false
  | _ => true

namespace Restrict
open Masked UStore

/-! ## Reference semantics on plain maps -/

/-- One item of a restricted join on the plain map `m`, for the item at index `id` (a key of `m`):
    result of the action and the map afterwards. `alive` is the allocator's aliveness test, `log`
    the handle log the `@h` slots are resolved in, `mutable` tells `restrict_mut` from `restrict`
    (the read-only item type has no `get_mut` / `get_other_mut`: those actions are skipped). -/
def specItem (alive : Entity → Bool) (log : Array Entity) (mutable : Bool) (m : Nat → Option Int)
    (id : Nat) : RAct → ItemRes × (Nat → Option Int)
  | .skip => (.skip, m)
  | .get => (match m id with | some v => .val v | none => .skip, m)
  | .getMut _ wr =>
    if mutable then
      match m id with
      | some old => (.val old, PMap.write m id wr)
      | none => (.skip, m)
    else (.skip, m)
  | .getOther h =>
    match resolve log h with
    | none => (.skip, m)
    | some e => (.opt (if alive e then m e.id else none), m)
  | .getOtherMut h _ wr =>
    if mutable then
      match resolve log h with
      | none => (.skip, m)
      | some e => (.opt (if alive e then m e.id else none), if alive e then PMap.write m e.id wr else m)
    else (.skip, m)

/-- The whole restricted join over the indices `ids`: the action list is consumed exactly like
    `World.rjoinLoop` consumes it (missing actions are `skip`). -/
def specRJoin (alive : Entity → Bool) (log : Array Entity) (mutable : Bool) :
    (Nat → Option Int) → List Nat → List RAct → List (Nat × ItemRes) × (Nat → Option Int)
  | m, [], _ => ([], m)
  | m, id :: ids, acts =>
    let s := specItem alive log mutable m id (acts.head?.getD .skip)
    let rest := specRJoin alive log mutable s.2 ids acts.tail
    ((id, s.1) :: rest.1, rest.2)

/-- Expected modification events of one item (ungated): `wr` is the wrapper kind, `mem` the
    membership of the storage (which a restricted join cannot change). -/
def itemEv (wr : Ev.Wrap) (alive : Entity → Bool) (log : Array Entity) (mutable : Bool)
    (mem : Nat → Bool) (id : Nat) : RAct → List CEv
  | .getMut d _ => if mutable then Ev.modEv wr id d else []
  | .getOtherMut h d _ =>
    if mutable then
      match resolve log h with
      | some e => if mem e.id && alive e then Ev.modEv wr e.id d else []
      | none => []
    else []
  | _ => []

/-- Expected modification events of the whole join, in visiting order. -/
def rjoinEv (wr : Ev.Wrap) (alive : Entity → Bool) (log : Array Entity) (mutable : Bool)
    (mem : Nat → Bool) : List Nat → List RAct → List CEv
  | [], _ => []
  | id :: ids, acts =>
    itemEv wr alive log mutable mem id (acts.head?.getD .skip) ++
      rjoinEv wr alive log mutable mem ids acts.tail

/-- Values written through the join are storable (only matters for null-based storages, whose
    component type has the single value `0`). -/
def actsOk (s : UStore) (acts : List RAct) : Prop :=
  ∀ act ∈ acts, ∀ x, act.write? = some x → s.valOk x

theorem actsOk_of_not_null {s : UStore} (h : s.nullBased = false) (acts : List RAct) :
    actsOk s acts := by
  intro act _ x _
  rw [valOk_iff, h]; intro hc; cases hc

theorem actsOk_head {s : UStore} {acts : List RAct} (h : actsOk s acts) :
    ∀ x, (acts.head?.getD .skip).write? = some x → s.valOk x := by
  cases acts with
  | nil => intro x hx; simp [RAct.write?] at hx
  | cons a t => intro x hx; exact h a (by simp) x (by simpa using hx)

theorem actsOk_tail {s s' : UStore} {acts : List RAct} (h : actsOk s acts)
    (hn : s'.nullBased = s.nullBased) : actsOk s' acts.tail := by
  intro act hact x hx
  exact (valOk_congr hn x).mpr (h act (List.mem_of_mem_tail hact) x hx)

/-! ### Facts about the reference semantics -/

theorem write_isSome (m : Nat → Option Int) (i : Nat) (w : Option Int) (j : Nat) :
    (PMap.write m i w j).isSome = (m j).isSome := by
  cases hmi : m i with
  | none => rw [PMap.write_absent _ _ _ hmi]
  | some old =>
    cases w with
    | none => rw [PMap.write_none]
    | some x =>
      rw [PMap.write_some _ _ _ _ hmi]
      simp only [upd]
      split
      · rename_i hj; subst hj; simp [hmi]
      · rfl

theorem write_ne (m : Nat → Option Int) (i : Nat) (w : Option Int) {j : Nat} (h : j ≠ i) :
    PMap.write m i w j = m j := by
  cases hmi : m i with
  | none => rw [PMap.write_absent _ _ _ hmi]
  | some old =>
    cases w with
    | none => rw [PMap.write_none]
    | some x => rw [PMap.write_some _ _ _ _ hmi]; exact upd_ne _ _ h

/-- No action changes the key set of the map. -/
theorem specItem_keys (alive : Entity → Bool) (log : Array Entity) (mutable : Bool)
    (m : Nat → Option Int) (id : Nat) (act : RAct) (j : Nat) :
    ((specItem alive log mutable m id act).2 j).isSome = (m j).isSome := by
  cases act with
  | skip => rfl
  | get => rfl
  | getMut d wr =>
    simp only [specItem]
    split
    · split
      · exact write_isSome _ _ _ _
      · rfl
    · rfl
  | getOther h =>
    simp only [specItem]
    split <;> rfl
  | getOtherMut h d wr =>
    simp only [specItem]
    split
    · split
      · rfl
      · simp only
        split
        · exact write_isSome _ _ _ _
        · rfl
    · rfl

theorem specRJoin_keys (alive : Entity → Bool) (log : Array Entity) (mutable : Bool) :
    ∀ (ids : List Nat) (m : Nat → Option Int) (acts : List RAct) (j : Nat),
    ((specRJoin alive log mutable m ids acts).2 j).isSome = (m j).isSome := by
  intro ids
  induction ids with
  | nil => intro m acts j; rfl
  | cons id ids ih =>
    intro m acts j
    simp only [specRJoin]
    rw [ih, specItem_keys]

/-- The items carry exactly the visited indices, in order. -/
theorem specRJoin_ids (alive : Entity → Bool) (log : Array Entity) (mutable : Bool) :
    ∀ (ids : List Nat) (m : Nat → Option Int) (acts : List RAct),
    (specRJoin alive log mutable m ids acts).1.map (·.1) = ids := by
  intro ids
  induction ids with
  | nil => intro m acts; rfl
  | cons id ids ih =>
    intro m acts
    simp only [specRJoin, List.map_cons, ih]

theorem specItem_immutable (alive : Entity → Bool) (log : Array Entity) (m : Nat → Option Int)
    (id : Nat) (act : RAct) : (specItem alive log false m id act).2 = m := by
  cases act with
  | getOther h => simp only [specItem]; split <;> rfl
  | _ => simp [specItem]

/-- Joining `restrict()` (the read-only view) never changes the map. -/
theorem specRJoin_immutable (alive : Entity → Bool) (log : Array Entity) :
    ∀ (ids : List Nat) (m : Nat → Option Int) (acts : List RAct),
    (specRJoin alive log false m ids acts).2 = m := by
  intro ids
  induction ids with
  | nil => intro m acts; rfl
  | cons id ids ih =>
    intro m acts
    simp only [specRJoin]
    rw [ih, specItem_immutable]

theorem specItem_read (alive : Entity → Bool) (log : Array Entity) (mutable : Bool)
    (m : Nat → Option Int) (id : Nat) {act : RAct} (h : act.isRead = true) :
    (specItem alive log mutable m id act).2 = m := by
  cases act with
  | getOther h => simp only [specItem]; split <;> rfl
  | getMut d wr => simp [RAct.isRead] at h
  | getOtherMut hh d wr => simp [RAct.isRead] at h
  | _ => simp [specItem]

theorem head_isRead {acts : List RAct} (h : ∀ a ∈ acts, a.isRead = true) :
    (acts.head?.getD .skip).isRead = true := by
  cases acts with
  | nil => rfl
  | cons a t => simpa using h a (by simp)

/-- A join that only uses `get` / `get_other` (or nothing) never changes the map. -/
theorem specRJoin_reads (alive : Entity → Bool) (log : Array Entity) (mutable : Bool) :
    ∀ (ids : List Nat) (m : Nat → Option Int) (acts : List RAct), (∀ a ∈ acts, a.isRead = true) →
    (specRJoin alive log mutable m ids acts).2 = m := by
  intro ids
  induction ids with
  | nil => intro m acts _; rfl
  | cons id ids ih =>
    intro m acts h
    simp only [specRJoin]
    rw [ih _ _ (fun a ha => h a (List.mem_of_mem_tail ha)), specItem_read _ _ _ _ _ (head_isRead h)]

/-- A key that is neither fetched mutably as an item nor reachable through a handle keeps its
    value: writes only ever go to the item's own index or to the index of the looked-up entity. -/
theorem specItem_other (alive : Entity → Bool) (log : Array Entity) (mutable : Bool)
    (m : Nat → Option Int) (id : Nat) (act : RAct) (j : Nat) (hj : j ≠ id)
    (hlog : ∀ e ∈ log.toList, e.id ≠ j) :
    (specItem alive log mutable m id act).2 j = m j := by
  have hres : ∀ h e, resolve log h = some e → e.id ≠ j := by
    intro h e he
    apply hlog
    unfold resolve at he
    split at he
    · cases he
    · exact Array.mem_toList_iff.mpr (Array.mem_of_getElem? he)
  cases act with
  | skip => rfl
  | get => rfl
  | getMut d wr =>
    simp only [specItem]
    split
    · split
      · exact write_ne _ _ _ hj
      · rfl
    · rfl
  | getOther h => simp only [specItem]; split <;> rfl
  | getOtherMut h d wr =>
    simp only [specItem]
    split
    · split
      · rfl
      · rename_i e he
        simp only
        split
        · exact write_ne _ _ _ (Ne.symm (hres h e he))
        · rfl
    · rfl

theorem itemEv_immutable (wr : Ev.Wrap) (alive : Entity → Bool) (log : Array Entity)
    (mem : Nat → Bool) (id : Nat) (act : RAct) : itemEv wr alive log false mem id act = [] := by
  cases act <;> simp [itemEv]

theorem itemEv_read (wr : Ev.Wrap) (alive : Entity → Bool) (log : Array Entity) (mutable : Bool)
    (mem : Nat → Bool) (id : Nat) {act : RAct} (h : act.isRead = true) :
    itemEv wr alive log mutable mem id act = [] := by
  cases act <;> simp_all [itemEv, RAct.isRead]

/-- The read-only view emits nothing. -/
theorem rjoinEv_immutable (wr : Ev.Wrap) (alive : Entity → Bool) (log : Array Entity)
    (mem : Nat → Bool) : ∀ (ids : List Nat) (acts : List RAct),
    rjoinEv wr alive log false mem ids acts = [] := by
  intro ids
  induction ids with
  | nil => intro acts; rfl
  | cons id ids ih => intro acts; simp only [rjoinEv, ih, itemEv_immutable, List.append_nil]

/-- `skip`, `get`, `get_other` emit nothing. -/
theorem rjoinEv_reads (wr : Ev.Wrap) (alive : Entity → Bool) (log : Array Entity) (mutable : Bool)
    (mem : Nat → Bool) : ∀ (ids : List Nat) (acts : List RAct), (∀ a ∈ acts, a.isRead = true) →
    rjoinEv wr alive log mutable mem ids acts = [] := by
  intro ids
  induction ids with
  | nil => intro acts _; rfl
  | cons id ids ih =>
    intro acts h
    simp only [rjoinEv, ih _ (fun a ha => h a (List.mem_of_mem_tail ha)),
      itemEv_read _ _ _ _ _ _ (head_isRead h), List.append_nil]

/-- Untracked storages: no events whatever is done. -/
theorem rjoinEv_untracked (alive : Entity → Bool) (log : Array Entity) (mutable : Bool)
    (mem : Nat → Bool) : ∀ (ids : List Nat) (acts : List RAct),
    rjoinEv .none alive log mutable mem ids acts = [] := by
  intro ids
  induction ids with
  | nil => intro acts; rfl
  | cons id ids ih =>
    intro acts
    simp only [rjoinEv, ih, List.append_nil]
    cases acts.head?.getD RAct.skip <;> simp [itemEv, Ev.modEv]
    intro _; split <;> rfl

/-! ## Frames and outcomes -/

/-- Everything of the world other than storage `k` is unchanged. -/
structure Frame (k : Nat) (w w' : World) : Prop where
  others : ∀ k', k' ≠ k → w'.store? k' = w.store? k'
  size : w'.stores.size = w.stores.size
  ent : w'.ent = w.ent
  table : w'.table = w.table
  queue : w'.queue = w.queue
  cursors : w'.cursors = w.cursors
  nextTag : w'.nextTag = w.nextTag
  ledger : w'.ledger = w.ledger
  trace : w'.trace = w.trace

theorem Frame.refl (k : Nat) (w : World) : Frame k w w :=
  ⟨fun _ _ => rfl, rfl, rfl, rfl, rfl, rfl, rfl, rfl, rfl⟩

theorem Frame.trans {k : Nat} {w w1 w2 : World} (h1 : Frame k w w1) (h2 : Frame k w1 w2) :
    Frame k w w2 :=
  ⟨fun k' hk => (h2.others k' hk).trans (h1.others k' hk), h2.size.trans h1.size,
   h2.ent.trans h1.ent, h2.table.trans h1.table, h2.queue.trans h1.queue,
   h2.cursors.trans h1.cursors, h2.nextTag.trans h1.nextTag, h2.ledger.trans h1.ledger,
   h2.trace.trans h1.trace⟩

theorem store?_setStore_self {w : World} {k : Nat} {ms : Masked} (hst : w.store? k = some ms)
    (m2 : Masked) : (w.setStore k m2).store? k = some m2 := by
  rw [Ev.store?_setStore w k k m2 (Ev.store?_lt hst)]; simp

theorem frame_setStore {w : World} {k : Nat} {ms : Masked} (hst : w.store? k = some ms)
    (m2 : Masked) : Frame k w (w.setStore k m2) := by
  refine ⟨fun k' hk => ?_, by simp [World.setStore], rfl, rfl, rfl, rfl, rfl, rfl, rfl⟩
  rw [Ev.store?_setStore w k k' m2 (Ev.store?_lt hst)]; simp [hk]

/-- Effect of (a part of) a restricted join over storage `k`: `ms ↦ ms'` representing `m'`, same
    mask, same kind, channel grown by the gated `X`, rest of the world untouched. -/
structure Outcome (k : Nat) (w : World) (ms : Masked) (w' : World) (ms' : Masked)
    (m' : Nat → Option Int) (X : List CEv) : Prop where
  store : w'.store? k = some ms'
  rep : ms'.MRep m'
  mask : ms'.mask = ms.mask
  null : ms'.inner.nullBased = ms.inner.nullBased
  app : Ev.Appends ms.inner ms'.inner X
  frame : Frame k w w'

theorem Outcome.same {k : Nat} {w : World} {ms : Masked} {m : Nat → Option Int}
    (hst : w.store? k = some ms) (hrep : ms.MRep m) : Outcome k w ms w ms m [] :=
  ⟨hst, hrep, rfl, rfl, Ev.Appends.refl _, Frame.refl _ _⟩

theorem Outcome.set {k : Nat} {w : World} {ms ms1 : Masked} {m1 : Nat → Option Int} {X : List CEv}
    (hst : w.store? k = some ms) (hrep : ms1.MRep m1) (hmask : ms1.mask = ms.mask)
    (hnull : ms1.inner.nullBased = ms.inner.nullBased) (happ : Ev.Appends ms.inner ms1.inner X) :
    Outcome k w ms (w.setStore k ms1) ms1 m1 X :=
  ⟨store?_setStore_self hst _, hrep, hmask, hnull, happ, frame_setStore hst _⟩

/-! ## One item -/

/-- One item of the restricted join, every action: the loop continues with the item result of the
    reference semantics pushed, in a world whose storage `k` represents the reference map. -/
theorem rjoin_item {w : World} {k : Nat} {ms : Masked} {m : Nat → Option Int} (mutable : Bool)
    (hst : w.store? k = some ms) (hrep : ms.MRep m) {id : Nat} (hmem : ms.mask.mem id = true)
    (act : RAct) (hw : mutable = true → ∀ x, act.write? = some x → ms.inner.valOk x) :
    ∃ w1 ms1,
      (∀ (ids : List Nat) (acts : List RAct) (acc : List (Nat × ItemRes)),
        acts.head?.getD .skip = act →
        World.rjoinLoop w k mutable (id :: ids) acts acc =
          World.rjoinLoop w1 k mutable ids acts.tail
            ((id, (specItem w.ent.alloc.isAlive w.ent.log mutable m id act).1) :: acc)) ∧
      Outcome k w ms w1 ms1 (specItem w.ent.alloc.isAlive w.ent.log mutable m id act).2
        (itemEv (Ev.wrap ms.inner) w.ent.alloc.isAlive w.ent.log mutable
          (fun i => ms.mask.mem i) id act) := by
  obtain ⟨v, hv⟩ : ∃ v, m id = some v := by
    have := hrep.1 id
    rw [hmem] at this
    exact Option.isSome_iff_exists.mp this.symm
  have hget : ms.inner.get id = .ok v := get_ok hrep.2 hv
  cases act with
  | skip =>
    refine ⟨w, ms, ?_, Outcome.same hst hrep⟩
    intro ids acts acc hact
    simp only [World.rjoinLoop, hst, hact, specItem]
  | get =>
    refine ⟨w, ms, ?_, Outcome.same hst hrep⟩
    intro ids acts acc hact
    simp only [World.rjoinLoop, hst, hact, specItem, hget, hv]
  | getMut d wr =>
    cases mutable with
    | false =>
      refine ⟨w, ms, ?_, by simpa [specItem, itemEv] using Outcome.same hst hrep⟩
      intro ids acts acc hact
      simp [World.rjoinLoop, hst, hact, specItem]
    | true =>
      obtain ⟨s', hs, hr, hn, _⟩ := access_ok hrep.2 hv d wr (by simpa [RAct.write?] using hw rfl)
      have happ : Ev.Appends ms.inner s' (Ev.modEv (Ev.wrap ms.inner) id d) := by
        cases wr with
        | none =>
          simp only [Out.ok.injEq] at hs
          subst hs
          exact Ev.touch_appends _ _ _
        | some x =>
          simp only at hs
          exact ((Ev.touch_appends _ _ _).trans (Ev.poke_appends hs)).of_eq (by simp)
      have hrep' : ({ ms with inner := s' } : Masked).MRep (PMap.write m id wr) :=
        ⟨fun i => by rw [write_isSome]; exact hrep.1 i, hr⟩
      refine ⟨w.setStore k { ms with inner := s' }, { ms with inner := s' }, ?_, ?_⟩
      · intro ids acts acc hact
        cases wr with
        | none =>
          simp only [Out.ok.injEq] at hs
          subst hs
          simp [World.rjoinLoop, hst, hact, specItem, hget, hv]
        | some x =>
          simp only at hs
          simp [World.rjoinLoop, hst, hact, specItem, hget, hv, hs]
      · have := Outcome.set (w := w) hst hrep' rfl hn happ
        simpa [specItem, itemEv, hv] using this
  | getOther h =>
    cases hres : resolve w.ent.log h with
    | none =>
      refine ⟨w, ms, ?_, by simpa [specItem, itemEv, hres] using Outcome.same hst hrep⟩
      intro ids acts acc hact
      simp only [World.rjoinLoop, hst, hact, specItem, hres]
    | some e =>
      refine ⟨w, ms, ?_, by simpa [specItem, itemEv, hres] using Outcome.same hst hrep⟩
      intro ids acts acc hact
      have hg : ms.getOther w.ent.alloc e =
          .ok (if w.ent.alloc.isAlive e then m e.id else none) := get_ref hrep _ e
      simp only [World.rjoinLoop, hst, hact, specItem, hres, hg]
  | getOtherMut h d wr =>
    cases mutable with
    | false =>
      refine ⟨w, ms, ?_, by simpa [specItem, itemEv] using Outcome.same hst hrep⟩
      intro ids acts acc hact
      simp [World.rjoinLoop, hst, hact, specItem]
    | true =>
      cases hres : resolve w.ent.log h with
      | none =>
        refine ⟨w, ms, ?_, by simpa [specItem, itemEv, hres] using Outcome.same hst hrep⟩
        intro ids acts acc hact
        simp [World.rjoinLoop, hst, hact, specItem, hres]
      | some e =>
        obtain ⟨r, hr, hval, _, hrep', hn⟩ :=
          getMut_ref hrep w.ent.alloc e d wr (by simpa [RAct.write?] using hw rfl)
        have heff := Ev.getMut_eff hr
        refine ⟨w.setStore k r.st, r.st, ?_, ?_⟩
        · intro ids acts acc hact
          simp [World.rjoinLoop, hst, hact, specItem, hres, hr, hval]
        · have := Outcome.set (w := w) hst hrep' (getMut_mask hr) hn heff.app
          simpa [specItem, itemEv, hres, Ev.xGetMut] using this

/-! ## The whole loop -/

/-- Refinement of `World.rjoinLoop` to `specRJoin`, for every storage kind and content, every list
    of visited members, every action list, mutable or read-only view. The result is `.items`:
    neither `noStore` nor `panic` (in particular no `get_unchecked` on a missing slot — UB in the
    real code — is reachable). -/
theorem rjoinLoop_refines_gen (k : Nat) (mutable : Bool) :
    ∀ (ids : List Nat) (w : World) (acts : List RAct) (acc : List (Nat × ItemRes)) (ms : Masked)
      (m : Nat → Option Int),
    w.store? k = some ms → ms.MRep m → (mutable = true → actsOk ms.inner acts) →
    (∀ id ∈ ids, ms.mask.mem id = true) →
    ∃ w' ms',
      World.rjoinLoop w k mutable ids acts acc =
        (w', .items (acc.reverse ++
          (specRJoin w.ent.alloc.isAlive w.ent.log mutable m ids acts).1)) ∧
      Outcome k w ms w' ms' (specRJoin w.ent.alloc.isAlive w.ent.log mutable m ids acts).2
        (rjoinEv (Ev.wrap ms.inner) w.ent.alloc.isAlive w.ent.log mutable
          (fun i => ms.mask.mem i) ids acts) := by
  intro ids
  induction ids with
  | nil =>
    intro w acts acc ms m hst hrep _ _
    exact ⟨w, ms, by simp [World.rjoinLoop, specRJoin], Outcome.same hst hrep⟩
  | cons id ids ih =>
    intro w acts acc ms m hst hrep hok hids
    obtain ⟨w1, ms1, hloop, o1⟩ := rjoin_item mutable hst hrep (hids id (by simp))
      (acts.head?.getD .skip) (fun hm => actsOk_head (hok hm))
    obtain ⟨w', ms', hrun, o2⟩ := ih w1 acts.tail
      ((id, (specItem w.ent.alloc.isAlive w.ent.log mutable m id (acts.head?.getD .skip)).1) :: acc)
      ms1 _ o1.store o1.rep (fun hm => actsOk_tail (hok hm) o1.null)
      (fun j hj => by rw [o1.mask]; exact hids j (by simp [hj]))
    rw [o1.frame.ent] at hrun o2
    rw [o1.app.wrap_eq, o1.mask] at o2
    refine ⟨w', ms', ?_, ?_⟩
    · rw [hloop ids acts acc rfl, hrun]
      simp [specRJoin]
    · simp only [specRJoin, rjoinEv]
      exact ⟨o2.store, o2.rep, o2.mask.trans o1.mask, o2.null.trans o1.null,
        o1.app.trans o2.app, o1.frame.trans o2.frame⟩

/-- `rjoinLoop_refines_gen` with the side condition stated unconditionally. -/
theorem rjoinLoop_refines (k : Nat) (mutable : Bool) (ids : List Nat) (w : World)
    (acts : List RAct) (acc : List (Nat × ItemRes)) (ms : Masked) (m : Nat → Option Int)
    (hst : w.store? k = some ms) (hrep : ms.MRep m) (hok : actsOk ms.inner acts)
    (hids : ∀ id ∈ ids, ms.mask.mem id = true) :
    ∃ w' ms',
      World.rjoinLoop w k mutable ids acts acc =
        (w', .items (acc.reverse ++
          (specRJoin w.ent.alloc.isAlive w.ent.log mutable m ids acts).1)) ∧
      Outcome k w ms w' ms' (specRJoin w.ent.alloc.isAlive w.ent.log mutable m ids acts).2
        (rjoinEv (Ev.wrap ms.inner) w.ent.alloc.isAlive w.ent.log mutable
          (fun i => ms.mask.mem i) ids acts) :=
  rjoinLoop_refines_gen k mutable ids w acts acc ms m hst hrep (fun _ => hok) hids

/-- The `.rjoin` operation is the loop started on the ascending member list with no item yet
    (so every theorem about a loop state `(id :: ids, acts, acc)` is about a point of a join). -/
theorem step_rjoin_eq (fuel : Nat) {w : World} {k : Nat} {ms : Masked} (mutable : Bool)
    (acts : List RAct) (hst : w.store? k = some ms) :
    World.step fuel w (.rjoin k mutable acts) = World.rjoinLoop w k mutable ms.mask.toList acts [] := by
  simp only [World.step, hst]

/-- `World.step … (.rjoin k mutable acts)`: the join of `restrict()` / `restrict_mut()` visits
    `mask.toList` and behaves as the reference semantics. (The value side condition is only needed
    for `restrict_mut()`: the read-only view cannot write.) -/
theorem step_rjoin_refines_gen (fuel : Nat) {w : World} {k : Nat} {ms : Masked}
    {m : Nat → Option Int} (mutable : Bool) (acts : List RAct)
    (hst : w.store? k = some ms) (hrep : ms.MRep m) (hok : mutable = true → actsOk ms.inner acts) :
    ∃ w' ms',
      World.step fuel w (.rjoin k mutable acts) =
        (w', .items (specRJoin w.ent.alloc.isAlive w.ent.log mutable m ms.mask.toList acts).1) ∧
      Outcome k w ms w' ms'
        (specRJoin w.ent.alloc.isAlive w.ent.log mutable m ms.mask.toList acts).2
        (rjoinEv (Ev.wrap ms.inner) w.ent.alloc.isAlive w.ent.log mutable
          (fun i => ms.mask.mem i) ms.mask.toList acts) := by
  obtain ⟨w', ms', h1, h2⟩ := rjoinLoop_refines_gen k mutable ms.mask.toList w acts [] ms m hst hrep
    hok (fun id hid => (BSet.mem_toList _ _).mp hid)
  refine ⟨w', ms', ?_, h2⟩
  rw [step_rjoin_eq fuel mutable acts hst]
  simpa using h1

theorem step_rjoin_refines (fuel : Nat) {w : World} {k : Nat} {ms : Masked} {m : Nat → Option Int}
    (mutable : Bool) (acts : List RAct)
    (hst : w.store? k = some ms) (hrep : ms.MRep m) (hok : actsOk ms.inner acts) :
    ∃ w' ms',
      World.step fuel w (.rjoin k mutable acts) =
        (w', .items (specRJoin w.ent.alloc.isAlive w.ent.log mutable m ms.mask.toList acts).1) ∧
      Outcome k w ms w' ms'
        (specRJoin w.ent.alloc.isAlive w.ent.log mutable m ms.mask.toList acts).2
        (rjoinEv (Ev.wrap ms.inner) w.ent.alloc.isAlive w.ent.log mutable
          (fun i => ms.mask.mem i) ms.mask.toList acts) :=
  step_rjoin_refines_gen fuel mutable acts hst hrep (fun _ => hok)

/-- A join that never writes needs no side condition. -/
theorem actsOk_of_reads (s : UStore) {acts : List RAct} (h : ∀ a ∈ acts, a.isRead = true) :
    actsOk s acts := by
  intro act hact x hx
  have := h act hact
  cases act <;> simp_all [RAct.write?, RAct.isRead]

/-- The same without side condition for the storage kinds that are not (wrappers around)
    `NullStorage`. -/
theorem step_rjoin_refines_nonNull (fuel : Nat) {w : World} {k : Nat} {ms : Masked}
    {m : Nat → Option Int} (mutable : Bool) (acts : List RAct)
    (hst : w.store? k = some ms) (hrep : ms.MRep m) (hnn : ms.inner.nullBased = false) :
    ∃ w' ms',
      World.step fuel w (.rjoin k mutable acts) =
        (w', .items (specRJoin w.ent.alloc.isAlive w.ent.log mutable m ms.mask.toList acts).1) ∧
      Outcome k w ms w' ms'
        (specRJoin w.ent.alloc.isAlive w.ent.log mutable m ms.mask.toList acts).2
        (rjoinEv (Ev.wrap ms.inner) w.ent.alloc.isAlive w.ent.log mutable
          (fun i => ms.mask.mem i) ms.mask.toList acts) :=
  step_rjoin_refines fuel mutable acts hst hrep (actsOk_of_not_null hnn acts)

theorem rjoinLoop_refines_nonNull (k : Nat) (mutable : Bool) (ids : List Nat) (w : World)
    (acts : List RAct) (acc : List (Nat × ItemRes)) (ms : Masked) (m : Nat → Option Int)
    (hst : w.store? k = some ms) (hrep : ms.MRep m) (hnn : ms.inner.nullBased = false)
    (hids : ∀ id ∈ ids, ms.mask.mem id = true) :
    ∃ w' ms',
      World.rjoinLoop w k mutable ids acts acc =
        (w', .items (acc.reverse ++
          (specRJoin w.ent.alloc.isAlive w.ent.log mutable m ids acts).1)) ∧
      Outcome k w ms w' ms' (specRJoin w.ent.alloc.isAlive w.ent.log mutable m ids acts).2
        (rjoinEv (Ev.wrap ms.inner) w.ent.alloc.isAlive w.ent.log mutable
          (fun i => ms.mask.mem i) ids acts) :=
  rjoinLoop_refines k mutable ids w acts acc ms m hst hrep (actsOk_of_not_null hnn acts) hids

/-- The channel in `Option (Array CEv)` form: a tracked storage's channel after the join is the old
    content followed by exactly the gated expected events. -/
theorem Outcome.events_some {k : Nat} {w w' : World} {ms ms' : Masked} {m' : Nat → Option Int}
    {X : List CEv} (o : Outcome k w ms w' ms' m' X) {ev : Array CEv}
    (hev : ms.inner.events = some ev) :
    ms'.inner.events = some (ev ++ (Ev.gate ms.inner X).toArray) := o.app.events_some hev

theorem Outcome.events_none {k : Nat} {w w' : World} {ms ms' : Masked} {m' : Nat → Option Int}
    {X : List CEv} (o : Outcome k w ms w' ms' m' X) (hev : ms.inner.events = none) :
    ms'.inner.events = none := o.app.events_none hev

end Restrict
end SpecsModel
