/-
  C08, storage level: conservation of component values by every `Storage` API function.

  `heldVals ms m` is the multiset (as a list) of values held by a masked storage representing the
  partial map `m`; `Masked.held ms` is the same thing observed on the model state (no map needed).
  For every API function: values held afterwards + values destroyed by the call + values handed
  back = values held before + values moved in by the call — as multisets of NON-ZERO values
  (`NzEq`, equivalently `Perm` of the `nz`-filtered lists): 0 is the unit value of the null storage
  and the default filler of the default-filled vector; fillers are made and destroyed by the
  storage itself.
-/
import SpecsModel.Lemmas.MaskedWF
import SpecsModel.Lemmas.Good
namespace SpecsModel

/-- Non-zero values (tokens) of a list. -/
def nz (l : List Int) : List Int := l.filter (· ≠ 0)

/-- Equality as multisets of non-zero values. -/
def NzEq (l₁ l₂ : List Int) : Prop := ∀ a : Int, a ≠ 0 → l₁.count a = l₂.count a

theorem count_nz (a : Int) (l : List Int) : (nz l).count a = if a ≠ 0 then l.count a else 0 := by
  unfold nz
  by_cases h : a ≠ 0
  · rw [if_pos h]
    exact List.count_filter (by simpa using h)
  · rw [if_neg h]
    apply List.count_eq_zero_of_not_mem
    intro hm
    have := (List.mem_filter.mp hm).2
    simp at this
    exact h this

theorem nzEq_iff_perm {l₁ l₂ : List Int} : NzEq l₁ l₂ ↔ (nz l₁).Perm (nz l₂) := by
  rw [List.perm_iff_count]
  constructor
  · intro h a
    rw [count_nz, count_nz]
    by_cases ha : a ≠ 0
    · rw [if_pos ha, if_pos ha]; exact h a ha
    · rw [if_neg ha, if_neg ha]
  · intro h a ha
    have := h a
    rw [count_nz, count_nz] at this
    simpa [ha] using this

theorem NzEq.perm {l₁ l₂ : List Int} (h : NzEq l₁ l₂) : (nz l₁).Perm (nz l₂) := nzEq_iff_perm.mp h

theorem NzEq.refl (l : List Int) : NzEq l l := fun _ _ => rfl
theorem NzEq.symm {l₁ l₂ : List Int} (h : NzEq l₁ l₂) : NzEq l₂ l₁ := fun a ha => (h a ha).symm
theorem NzEq.trans {l₁ l₂ l₃ : List Int} (h : NzEq l₁ l₂) (h' : NzEq l₂ l₃) : NzEq l₁ l₃ :=
  fun a ha => (h a ha).trans (h' a ha)
theorem NzEq.of_perm {l₁ l₂ : List Int} (h : l₁.Perm l₂) : NzEq l₁ l₂ := fun a _ => h.count_eq a

/-- A list of zeros (default fillers / unit values) holds no token. -/
theorem count_zeros {d : List Int} (h : ∀ x ∈ d, x = 0) {a : Int} (ha : a ≠ 0) : d.count a = 0 := by
  apply List.count_eq_zero_of_not_mem
  intro hm
  exact ha (h a hm)

theorem nz_zeros {d : List Int} (h : ∀ x ∈ d, x = 0) : nz d = [] := by
  unfold nz
  rw [List.filter_eq_nil_iff]
  intro x hx
  simp [h x hx]

theorem count_toList_some (a v : Int) : (some v : Option Int).toList.count a = [v].count a := rfl
theorem count_toList_none (a : Int) : (none : Option Int).toList.count a = 0 := rfl

namespace Masked
open UStore

/-- The values held by a storage representing the partial map `m` (ascending index order). -/
def heldVals (ms : Masked) (m : Nat → Option Int) : List Int := ms.mask.toList.filterMap m

/-- The same, observed on the model state: the value `get` yields at every index of the mask. -/
def held (ms : Masked) : List Int :=
  ms.mask.toList.filterMap (fun i => match ms.inner.get i with | .ok v => some v | _ => none)

theorem held_eq {ms : Masked} {m : Nat → Option Int} (h : MRep ms m) : ms.held = heldVals ms m := by
  unfold held heldVals
  apply filterMap_congr'
  intro i hi
  have := (mask_toList_keys h i).mp hi
  obtain ⟨v, hv⟩ := Option.isSome_iff_exists.mp this
  rw [get_ok h.2 hv, hv]

/-- Splitting off one key of a duplicate-free key list. -/
theorem filterMap_split_key {L : List Nat} (_hn : L.Nodup) (m : Nat → Option Int)
    (hL : ∀ j, j ∈ L ↔ (m j).isSome = true) (i : Nat) (a : Int) :
    (L.filterMap m).count a = (m i).toList.count a + ((L.erase i).filterMap m).count a := by
  cases hmi : m i with
  | none =>
    have : i ∉ L := by rw [hL i, hmi]; simp
    rw [List.erase_of_not_mem this]; simp
  | some v =>
    have hi : i ∈ L := by rw [hL i, hmi]; rfl
    have hp := (List.perm_cons_erase hi).filterMap m
    rw [hp.count_eq a, List.filterMap_cons, hmi]
    simp [List.count_cons]
    omega

/-- **Point update**: the values held after `m[i] := x` plus the old entry = the values held
    before plus the new entry (exact multiset equation, zeros included). -/
theorem heldVals_upd {ms ms' : Masked} {m : Nat → Option Int} (h : MRep ms m) {i : Nat}
    {x : Option Int} (h' : MRep ms' (upd m i x)) (a : Int) :
    (heldVals ms' (upd m i x)).count a + (m i).toList.count a =
      (heldVals ms m).count a + x.toList.count a := by
  unfold heldVals
  rw [filterMap_split_key ms.mask.toList_nodup m (mask_toList_keys h) i a,
    filterMap_split_key ms'.mask.toList_nodup (upd m i x) (mask_toList_keys h') i a, upd_same]
  have hperm : (ms'.mask.toList.erase i).Perm (ms.mask.toList.erase i) := by
    rw [List.perm_ext_iff_of_nodup (ms'.mask.toList_nodup.erase i) (ms.mask.toList_nodup.erase i)]
    intro j
    rw [ms'.mask.toList_nodup.mem_erase_iff, ms.mask.toList_nodup.mem_erase_iff,
      mask_toList_keys h', mask_toList_keys h]
    constructor
    · rintro ⟨hne, hs⟩; rw [upd_ne _ _ hne] at hs; exact ⟨hne, hs⟩
    · rintro ⟨hne, hs⟩; rw [upd_ne _ _ hne]; exact ⟨hne, hs⟩
  have hcongr : (ms.mask.toList.erase i).filterMap (upd m i x) = (ms.mask.toList.erase i).filterMap m := by
    apply filterMap_congr'
    intro j hj
    have := (ms.mask.toList_nodup.mem_erase_iff.mp hj).1
    rw [upd_ne _ _ this]
  rw [(hperm.filterMap (upd m i x)).count_eq a, hcongr]
  omega

/-- Two storages representing the same map hold the same values. -/
theorem heldVals_same {ms ms' : Masked} {m : Nat → Option Int} (h : MRep ms m) (h' : MRep ms' m) :
    heldVals ms' m = heldVals ms m := by
  unfold heldVals
  rw [mask_toList_eq h' ms.mask.toList_sorted (mask_toList_keys h)]

theorem heldVals_empty {ms : Masked} (_h : MRep ms (fun _ => none)) : heldVals ms (fun _ => none) = [] := by
  unfold heldVals
  simp

/-! ### Accounting of what an API call moves in and hands back -/

/-- Value moved in by the write through a mutable access (`*r = x`), if the access succeeded. -/
def accIn (write : Option Int) (val : Option Int) : List Int :=
  match write, val with
  | some x, some _ => [x]
  | _, _ => []

/-- Value overwritten in place by that write: it is handed back to (dropped by) the caller. -/
def accOut (write : Option Int) (val : Option Int) : List Int :=
  match write, val with
  | some _, some old => [old]
  | _, _ => []

/-- Values handed back by `insert`. -/
def insOut : InsRes → List Int
  | .replaced old => [old]
  | _ => []

/-- Values handed over to an entry operation that reached the storage. -/
def entryIn : EntryOp → EntryRes → List Int
  | _, .wrongGen => []
  | .orInsert v _ w, _ => v :: w.toList
  | .replace v, _ => [v]
  | .remove, _ => []

/-- Values handed back by an entry operation: the replaced / removed value; for `or_insert`
    followed by a write, the value overwritten in place (the old one, or the just inserted one). -/
def entryOut : EntryOp → EntryRes → List Int
  | .orInsert _ _ (some _), .occupied old => [old]
  | .orInsert v _ (some _), .vacant => [v]
  | .replace _, .occupied old => [old]
  | .remove, .occupied old => [old]
  | _, _ => []

/-! ### Conservation, one statement per API function (`MRep` level) -/

theorem getMut_cons {ms : Masked} {m : Nat → Option Int} (h : MRep ms m) (a : Alloc) (e : Entity)
    (d : Nat) (w : Option Int) (hw : ∀ x, w = some x → ms.inner.valOk x) :
    ∃ r m', ms.getMut a e d w = .ok r ∧ MRep r.st m' ∧
      r.val = (if a.isAlive e then m e.id else none) ∧
      m' = (if a.isAlive e then PMap.write m e.id w else m) ∧
      r.st.inner.nullBased = ms.inner.nullBased ∧
      ∀ c : Int, (heldVals r.st m').count c + r.destroyed.count c + (accOut w r.val).count c =
        (heldVals ms m).count c + (accIn w r.val).count c := by
  obtain ⟨r, h1, h2, h3, h4, h5⟩ := getMut_ref h a e d w hw
  refine ⟨r, _, h1, h4, h2, rfl, h5, ?_⟩
  intro c
  rw [h3, h2]
  cases hal : a.isAlive e
  · simp only [hal, Bool.false_eq_true, if_false] at h4 ⊢
    rw [heldVals_same h h4]; cases w <;> simp [accIn, accOut]
  · simp only [hal, if_true] at h4 ⊢
    cases hmi : m e.id with
    | none =>
      rw [PMap.write_absent _ _ _ hmi] at h4 ⊢
      rw [heldVals_same h h4]; cases w <;> simp [accIn, accOut]
    | some old =>
      cases w with
      | none =>
        rw [PMap.write_none] at h4 ⊢
        rw [heldVals_same h h4]; simp [accIn, accOut]
      | some x =>
        rw [PMap.write_some _ _ _ _ hmi] at h4 ⊢
        have := heldVals_upd h h4 c
        rw [hmi] at this
        simp only [accIn, accOut, List.count_nil, Nat.add_zero]
        simpa using this

theorem insert_cons {ms : Masked} {m : Nat → Option Int} (h : MRep ms m) (a : Alloc) (e : Entity)
    (v : Int) (hv : ms.inner.valOk v) :
    ∃ r m', ms.insert a e v = .ok r ∧ MRep r.st m' ∧
      m' = (if a.isAlive e then upd m e.id (some v) else m) ∧
      r.val = (if a.isAlive e then
                 (match m e.id with | some old => InsRes.replaced old | none => InsRes.inserted)
               else InsRes.wrongGen) ∧
      r.st.inner.nullBased = ms.inner.nullBased ∧
      ∀ c : Int, c ≠ 0 → (heldVals r.st m').count c + r.destroyed.count c + (insOut r.val).count c =
        (heldVals ms m).count c + [v].count c := by
  obtain ⟨r, h1, h2, h3, h4, h5⟩ := insert_ref h a e v hv
  refine ⟨r, _, h1, h3, rfl, h2, h5, ?_⟩
  intro c hc
  rw [h2]
  cases hal : a.isAlive e
  · simp only [hal, Bool.false_eq_true, if_false] at h3 h4 ⊢
    rw [heldVals_same h h3, h4]; simp [insOut]
  · simp only [hal, if_true] at h3 h4 ⊢
    have := heldVals_upd h h3 c
    rw [count_zeros h4 hc]
    cases hmi : m e.id with
    | none => rw [hmi] at this; simp only [insOut]; simpa using this
    | some old => rw [hmi] at this; simp only [insOut]; simpa using this

theorem removeId_cons {ms : Masked} {m : Nat → Option Int} (h : MRep ms m) (i : Nat) :
    ∃ r, ms.removeId i = .ok r ∧ MRep r.st (upd m i none) ∧ r.val = m i ∧ r.destroyed = [] ∧
      r.st.inner.nullBased = ms.inner.nullBased ∧
      ∀ c : Int, (heldVals r.st (upd m i none)).count c + r.destroyed.count c + r.val.toList.count c =
        (heldVals ms m).count c := by
  obtain ⟨r, h1, h2, h3, h4, h5⟩ := removeId_ref h i
  refine ⟨r, h1, h4, h2, h3, h5, ?_⟩
  intro c
  have := heldVals_upd h h4 c
  rw [h3, h2]
  simpa using this

theorem remove_cons {ms : Masked} {m : Nat → Option Int} (h : MRep ms m) (a : Alloc) (e : Entity) :
    ∃ r m', ms.remove a e = .ok r ∧ MRep r.st m' ∧
      m' = (if a.isAlive e then upd m e.id none else m) ∧
      r.val = (if a.isAlive e then m e.id else none) ∧
      r.st.inner.nullBased = ms.inner.nullBased ∧
      ∀ c : Int, (heldVals r.st m').count c + r.destroyed.count c + r.val.toList.count c =
        (heldVals ms m).count c := by
  obtain ⟨r, h1, h2, h3, h4, h5⟩ := remove_ref h a e
  refine ⟨r, _, h1, h4, rfl, h2, h5, ?_⟩
  intro c
  rw [h3, h2]
  cases hal : a.isAlive e
  · simp only [hal, Bool.false_eq_true, if_false] at h4 ⊢
    rw [heldVals_same h h4]; simp
  · simp only [hal, if_true] at h4 ⊢
    have := heldVals_upd h h4 c
    simpa using this

theorem dropId_cons {ms : Masked} {m : Nat → Option Int} (h : MRep ms m) (i : Nat) :
    ∃ r, ms.dropId i = .ok r ∧ MRep r.st (upd m i none) ∧ r.destroyed = (m i).toList ∧
      r.st.inner.nullBased = ms.inner.nullBased ∧
      ∀ c : Int, (heldVals r.st (upd m i none)).count c + r.destroyed.count c = (heldVals ms m).count c := by
  obtain ⟨r, h1, h2, h3, h4⟩ := dropId_ref h i
  refine ⟨r, h1, h3, h2, h4, ?_⟩
  intro c
  have := heldVals_upd h h3 c
  rw [h2]
  simpa using this

/-- `AnyStorage::drop(entities)` (deletion of entities): every component it removes is destroyed,
    exactly once; the rest stays. -/
theorem dropAll_cons : ∀ (es : List Entity) {ms : Masked} {m : Nat → Option Int} (_ : MRep ms m)
    (acc : List Int),
    ∃ r, ms.dropAll es acc = .ok r ∧ MRep r.st (PMap.eraseAll m (es.map (·.id))) ∧
      r.st.inner.nullBased = ms.inner.nullBased ∧
      ∀ c : Int, (heldVals r.st (PMap.eraseAll m (es.map (·.id)))).count c + r.destroyed.count c =
        (heldVals ms m).count c + acc.count c := by
  intro es
  induction es with
  | nil =>
    intro ms m h acc
    have : PMap.eraseAll m [] = m := by funext j; simp [PMap.eraseAll]
    refine ⟨_, rfl, by simpa [this] using h, rfl, ?_⟩
    intro c; simp [this]
  | cons e es ih =>
    intro ms m h acc
    obtain ⟨r1, h1, hrep1, _, hn1, hc1⟩ := dropId_cons h e.id
    obtain ⟨r, h2, hrep2, hn2, hc2⟩ := ih hrep1 (r1.destroyed.reverse ++ acc)
    have heq : PMap.eraseAll (upd m e.id none) (es.map (·.id)) = PMap.eraseAll m ((e :: es).map (·.id)) := by
      funext j; simp only [PMap.eraseAll, upd, List.map_cons, List.mem_cons]; grind
    refine ⟨r, by simp only [dropAll, h1, lift_ok, h2], by rw [← heq]; exact hrep2, by rw [hn2, hn1], ?_⟩
    intro c
    rw [← heq, hc2 c, ← hc1 c]
    simp only [List.count_append, List.count_reverse]
    omega

/-- `clear` / `Drop for MaskedStorage`: every held value is destroyed exactly once (plus fillers). -/
theorem clear_cons {ms : Masked} {m : Nat → Option Int} (h : MRep ms m) (hw : ms.inner.WF) :
    ∃ r, ms.clear = .ok r ∧ MRep r.st (fun _ => none) ∧ r.st.mask = BSet.empty ∧
      r.st.inner.nullBased = ms.inner.nullBased ∧
      ∀ c : Int, c ≠ 0 → (heldVals r.st (fun _ => none)).count c + r.destroyed.count c =
        (heldVals ms m).count c := by
  obtain ⟨r, h1, h2, h3, _, h5⟩ := clear_ref h
  obtain ⟨f, hf, _, hp⟩ := clear_perm h hw h1
  refine ⟨r, h1, h2, h3, h5, ?_⟩
  intro c hc
  rw [heldVals_empty h2, hp.count_eq c, List.count_append, count_zeros hf hc]
  simp [heldVals]

theorem drainLoop_cons : ∀ (ids : List Nat) {ms : Masked} {m : Nat → Option Int} (_ : MRep ms m)
    (n : Nat) (acc : List (Nat × Int)), ids.Nodup → (∀ i ∈ ids, (m i).isSome = true) →
    ∃ r, ms.drainLoop ids n acc = .ok r ∧ MRep r.st (PMap.eraseAll m (ids.take n)) ∧
      r.val = acc.reverse ++ PMap.entries m (ids.take n) ∧
      r.st.inner.nullBased = ms.inner.nullBased ∧
      ∀ c : Int, (heldVals r.st (PMap.eraseAll m (ids.take n))).count c + r.destroyed.count c +
        (r.val.map (·.2)).count c = (heldVals ms m).count c + (acc.map (·.2)).count c := by
  intro ids
  induction ids with
  | nil =>
    intro ms m h n acc _ _
    have : PMap.eraseAll m [] = m := by funext j; simp [PMap.eraseAll]
    refine ⟨_, rfl, by simpa [this] using h, by simp [PMap.entries], rfl, ?_⟩
    intro c; simp [this]
  | cons id ids ih =>
    intro ms m h n acc hnd hall
    cases n with
    | zero =>
      have : PMap.eraseAll m [] = m := by funext j; simp [PMap.eraseAll]
      refine ⟨_, rfl, by simpa [this] using h, by simp [PMap.entries], rfl, ?_⟩
      intro c; simp [this]
    | succ n =>
      obtain ⟨hni, hnd'⟩ := List.nodup_cons.mp hnd
      obtain ⟨r1, h1, hrep1, hv1, hd1, hn1, hc1⟩ := removeId_cons h id
      obtain ⟨v, hv⟩ : ∃ v, m id = some v := Option.isSome_iff_exists.mp (hall id (by simp))
      have hall' : ∀ i ∈ ids, (upd m id none i).isSome = true := by
        intro i hi
        have hne : i ≠ id := fun e => hni (e ▸ hi)
        rw [upd_ne _ _ hne]; exact hall i (by simp [hi])
      obtain ⟨r, h2, hrep2, hv2, hn2, hc2⟩ := ih hrep1 n ((id, v) :: acc) hnd' hall'
      have heq : PMap.eraseAll (upd m id none) (ids.take n) = PMap.eraseAll m ((id :: ids).take (n + 1)) := by
        funext j; simp only [PMap.eraseAll, upd, List.take_succ_cons, List.mem_cons]; grind
      have hent : PMap.entries (upd m id none) (ids.take n) = PMap.entries m (ids.take n) := by
        unfold PMap.entries
        apply filterMap_congr'
        intro i hi
        have hne : i ≠ id := fun e => hni (e ▸ List.mem_of_mem_take hi)
        rw [upd_ne _ _ hne]
      rw [hv] at hv1
      refine ⟨r, by simp only [drainLoop, h1, lift_ok, hv1, h2], by rw [← heq]; exact hrep2, ?_,
        by rw [hn2, hn1], ?_⟩
      · rw [hv2, hent]; simp [PMap.entries, hv]
      · intro c
        have e1 := hc1 c
        rw [hv1, hd1] at e1
        have e2 := hc2 c
        rw [heq] at e2
        simp only [List.map_cons, List.count_cons, Option.toList_some, List.count_nil] at e1 e2 ⊢
        omega

/-- `drain().join()` consumed for `n` items: each drained value is handed back exactly once. -/
theorem drain_cons {ms : Masked} {m : Nat → Option Int} (h : MRep ms m) (n : Nat) :
    ∃ r, ms.drain n = .ok r ∧ MRep r.st (PMap.eraseAll m (ms.mask.toList.take n)) ∧
      r.val = PMap.entries m (ms.mask.toList.take n) ∧
      r.st.inner.nullBased = ms.inner.nullBased ∧
      ∀ c : Int, (heldVals r.st (PMap.eraseAll m (ms.mask.toList.take n))).count c +
        r.destroyed.count c + (r.val.map (·.2)).count c = (heldVals ms m).count c := by
  obtain ⟨r, h1, h2, h3, h4, h5⟩ := drainLoop_cons ms.mask.toList h n [] ms.mask.toList_nodup
    (fun i hi => (mask_toList_keys h i).mp hi)
  exact ⟨r, h1, h2, by simpa using h3, h4, by simpa using h5⟩

/-- `entry(e)` + one entry operation, all three operations in all three states. -/
theorem entry_cons {ms : Masked} {m : Nat → Option Int} (h : MRep ms m) (a : Alloc) (e : Entity)
    (op : EntryOp) (hop : entryValsOk ms.inner op) :
    ∃ r m', ms.entry a e op = .ok r ∧ MRep r.st m' ∧
      m' = (if a.isAlive e then (PMap.entry m e.id op).2 else m) ∧
      r.val = (if a.isAlive e then (PMap.entry m e.id op).1 else .wrongGen) ∧
      r.st.inner.nullBased = ms.inner.nullBased ∧
      ∀ c : Int, c ≠ 0 →
        (heldVals r.st m').count c + r.destroyed.count c + (entryOut op r.val).count c =
        (heldVals ms m).count c + (entryIn op r.val).count c := by
  obtain ⟨r, h1, h2, h3, h4, h5, h6, h7⟩ := entry_ref h a e op hop
  refine ⟨r, _, h1, h3, rfl, h2, h4, ?_⟩
  intro c hc
  rw [h2]
  cases hal : a.isAlive e
  · simp only [hal, Bool.false_eq_true, if_false] at h3 ⊢
    rw [heldVals_same h h3, h5 hal]; cases op <;> simp [entryIn, entryOut]
  · simp only [hal, if_true] at h3 ⊢
    cases hmi : m e.id with
    | some old =>
      have hd := h6 hal (by rw [hmi]; rfl)
      rw [hd]
      cases op with
      | orInsert v d w =>
        simp only [PMap.entry, hmi] at h3 ⊢
        cases w with
        | none =>
          rw [PMap.write_none] at h3 ⊢
          rw [heldVals_same h h3]; simp [entryIn, entryOut]
        | some x =>
          rw [PMap.write_some _ _ _ _ hmi] at h3 ⊢
          have := heldVals_upd h h3 c
          rw [hmi] at this
          simp only [entryIn, entryOut, Option.toList_some, List.count_cons, List.count_nil] at this ⊢
          omega
      | replace v =>
        simp only [PMap.entry, hmi] at h3 ⊢
        have := heldVals_upd h h3 c
        rw [hmi] at this
        simp only [entryIn, entryOut, Option.toList_some, List.count_cons, List.count_nil] at this ⊢
        omega
      | remove =>
        simp only [PMap.entry, hmi] at h3 ⊢
        have := heldVals_upd h h3 c
        rw [hmi] at this
        simp only [entryIn, entryOut, Option.toList_some, Option.toList_none, List.count_cons,
          List.count_nil] at this ⊢
        omega
    | none =>
      have hd := count_zeros (h7 hal hmi) hc
      rw [hd]
      cases op with
      | orInsert v d w =>
        simp only [PMap.entry, hmi] at h3 ⊢
        have := heldVals_upd h h3 c
        rw [hmi] at this
        cases w with
        | none =>
          simp only [entryIn, entryOut, Option.getD_none, Option.toList_some, Option.toList_none,
            List.count_cons, List.count_nil] at this ⊢
          omega
        | some x =>
          simp only [entryIn, entryOut, Option.getD_some, Option.toList_some, Option.toList_none,
            List.count_cons, List.count_nil] at this ⊢
          omega
      | replace v =>
        simp only [PMap.entry, hmi] at h3 ⊢
        have := heldVals_upd h h3 c
        rw [hmi] at this
        simp only [entryIn, entryOut, Option.toList_some, Option.toList_none, List.count_cons,
          List.count_nil] at this ⊢
        omega
      | remove =>
        simp only [PMap.entry, hmi] at h3 ⊢
        rw [heldVals_same h h3]; simp [entryIn, entryOut]

/-- `get_mut_or_default`: the default it inserts is a filler (0), a write moves a value in and
    hands the overwritten one back. -/
theorem getMutOrDefault_cons {ms : Masked} {m : Nat → Option Int} (h : MRep ms m) (a : Alloc)
    (e : Entity) (d : Nat) (w : Option Int) (hw : ∀ x, w = some x → ms.inner.valOk x) :
    ∃ r m', ms.getMutOrDefault a e d w = .ok r ∧ MRep r.st m' ∧
      m' = (if a.isAlive e then upd m e.id (some (w.getD ((m e.id).getD 0))) else m) ∧
      r.val = (if a.isAlive e then some ((m e.id).getD 0) else none) ∧
      r.st.inner.nullBased = ms.inner.nullBased ∧
      ∀ c : Int, c ≠ 0 →
        (heldVals r.st m').count c + r.destroyed.count c + (accOut w r.val).count c =
        (heldVals ms m).count c + (accIn w r.val).count c := by
  obtain ⟨r, h1, h2, h3, h4, h5, h6⟩ := getMutOrDefault_ref h a e d w hw
  refine ⟨r, _, h1, h3, rfl, h2, h4, ?_⟩
  intro c hc
  rw [h2, count_zeros h6 hc]
  cases hal : a.isAlive e
  · simp only [hal, Bool.false_eq_true, if_false] at h3 ⊢
    rw [heldVals_same h h3]; cases w <;> simp [accIn, accOut]
  · simp only [hal, if_true] at h3 ⊢
    have := heldVals_upd h h3 c
    have hz : ([0] : List Int).count c = 0 := by
      simp only [List.count_cons, List.count_nil]
      have : ((0 : Int) == c) = false := by simp; omega
      simp [this]
    cases hmi : m e.id with
    | none =>
      rw [hmi] at this
      cases w with
      | none =>
        simp only [accIn, accOut, Option.getD_none, Option.toList_some, Option.toList_none,
          List.count_nil] at this ⊢
        omega
      | some x =>
        simp only [accIn, accOut, Option.getD_none, Option.getD_some, Option.toList_some,
          Option.toList_none, List.count_nil] at this ⊢
        omega
    | some old =>
      rw [hmi] at this
      cases w with
      | none =>
        simp only [accIn, accOut, Option.getD_none, Option.getD_some, Option.toList_some,
          List.count_nil] at this ⊢
        omega
      | some x =>
        simp only [accIn, accOut, Option.getD_some, Option.toList_some] at this ⊢
        omega

end Masked
end SpecsModel
