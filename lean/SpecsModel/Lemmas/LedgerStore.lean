/-
  C08, storage level, second half: the conservation statements of Lemmas/LedgerMasked restated for
  a storage of a world (`StOk k ms`: good, well formed, null-based only for the zero-sized kind 5)
  in terms of the observable `Masked.held`, with the resulting storage again `StOk`.
  Values of the zero-sized kind must be the unit value (`vOk`).
-/
import SpecsModel.Lemmas.LedgerMasked
namespace SpecsModel

/-- The only value of the zero-sized component kind (kind 5, `NullStorage`) is the unit value 0. -/
def vOk (k : Nat) (v : Int) : Prop := k = 5 → v = 0

/-- A storage of kind `k` as it occurs in a reachable world. -/
structure StOk (k : Nat) (ms : Masked) : Prop where
  good : ms.Good
  wf : ms.inner.WF
  kind : ms.inner.nullBased = true → k = 5

namespace StOk
open Masked UStore

theorem valOk {k : Nat} {ms : Masked} (h : StOk k ms) {v : Int} (hv : vOk k v) : ms.inner.valOk v := by
  rw [valOk_iff]; intro hn; exact hv (h.kind hn)

theorem next {k : Nat} {ms ms' : Masked} (h : StOk k ms) (hg : ms'.Good) (hw : ms'.inner.WF)
    (hn : ms'.inner.nullBased = ms.inner.nullBased) : StOk k ms' :=
  ⟨hg, hw, fun h' => h.kind (hn ▸ h')⟩

theorem ok_inj {α} {a b : α} (h : (Out.ok a : Out α) = .ok b) : a = b := by cases h; rfl

theorem getMut {k : Nat} {ms : Masked} (h : StOk k ms) (a : Alloc) (e : Entity) (d : Nat)
    (w : Option Int) (hw : ∀ x, w = some x → vOk k x) :
    ∃ r, ms.getMut a e d w = .ok r ∧ StOk k r.st ∧ r.destroyed = [] ∧
      ∀ c : Int, c ≠ 0 → r.st.held.count c + r.destroyed.count c + (accOut w r.val).count c =
        ms.held.count c + (accIn w r.val).count c := by
  obtain ⟨m, hm⟩ := h.good.1
  obtain ⟨r, m', h1, h2, _, _, h5, h6⟩ := getMut_cons hm a e d w (fun x hx => h.valOk (hw x hx))
  obtain ⟨r0, g0, _, g3, _⟩ := getMut_ref hm a e d w (fun x hx => h.valOk (hw x hx))
  rw [h1] at g0; cases g0
  obtain ⟨r', g1, g2⟩ := good_getMut h.good a e d w
  rw [h1] at g1; cases g1
  refine ⟨r, h1, h.next g2 (getMut_wf preserved_wf h.wf h1) h5, g3, ?_⟩
  intro c _
  rw [held_eq h2, held_eq hm]; exact h6 c

theorem insert {k : Nat} {ms : Masked} (h : StOk k ms) (a : Alloc) (e : Entity) (v : Int)
    (hv : vOk k v) :
    ∃ r, ms.insert a e v = .ok r ∧ StOk k r.st ∧ (a.isAlive e = true → r.val ≠ .wrongGen) ∧
      ∀ c : Int, c ≠ 0 → r.st.held.count c + r.destroyed.count c + (insOut r.val).count c =
        ms.held.count c + [v].count c := by
  obtain ⟨m, hm⟩ := h.good.1
  obtain ⟨r, m', h1, h2, _, h4, h5, h6⟩ := insert_cons hm a e v (h.valOk hv)
  obtain ⟨r', g1, g2⟩ := good_insert h.good a e v
  rw [h1] at g1; cases g1
  refine ⟨r, h1, h.next g2 (insert_wf' preserved_wf h.wf h1) h5, ?_, ?_⟩
  · intro hal; rw [h4, hal]; simp only [if_true]; split <;> simp
  · intro c hc
    rw [held_eq h2, held_eq hm]; exact h6 c hc

theorem remove {k : Nat} {ms : Masked} (h : StOk k ms) (a : Alloc) (e : Entity) :
    ∃ r, ms.remove a e = .ok r ∧ StOk k r.st ∧
      ∀ c : Int, r.st.held.count c + r.destroyed.count c + r.val.toList.count c = ms.held.count c := by
  obtain ⟨m, hm⟩ := h.good.1
  obtain ⟨r, m', h1, h2, _, _, h5, h6⟩ := remove_cons hm a e
  obtain ⟨r', g1, g2⟩ := good_remove h.good a e
  rw [h1] at g1; cases g1
  refine ⟨r, h1, h.next g2 (remove_wf' preserved_wf h.wf h1) h5, ?_⟩
  intro c
  rw [held_eq h2, held_eq hm]; exact h6 c

theorem dropAll {k : Nat} {ms : Masked} (h : StOk k ms) (es : List Entity) :
    ∃ r, ms.dropAll es [] = .ok r ∧ StOk k r.st ∧
      ∀ c : Int, r.st.held.count c + r.destroyed.count c = ms.held.count c := by
  obtain ⟨m, hm⟩ := h.good.1
  obtain ⟨r, h1, h2, h5, h6⟩ := dropAll_cons es hm []
  obtain ⟨r', g1, g2⟩ := good_dropAll es h.good []
  rw [h1] at g1; cases g1
  refine ⟨r, h1, h.next g2 (dropAll_wf preserved_wf es h.wf h1) h5, ?_⟩
  intro c
  rw [held_eq h2, held_eq hm]; simpa using h6 c

theorem clear {k : Nat} {ms : Masked} (h : StOk k ms) :
    ∃ r, ms.clear = .ok r ∧ StOk k r.st ∧ r.st.held = [] ∧
      ∀ c : Int, c ≠ 0 → r.destroyed.count c = ms.held.count c := by
  obtain ⟨m, hm⟩ := h.good.1
  obtain ⟨r, h1, h2, _, h5, h6⟩ := clear_cons hm h.wf
  obtain ⟨r', g1, g2⟩ := good_clear h.good
  rw [h1] at g1; cases g1
  have he : r.st.held = [] := by rw [held_eq h2]; exact heldVals_empty h2
  refine ⟨r, h1, h.next g2 (clear_wf preserved_wf h.wf h1) h5, he, ?_⟩
  intro c hc
  have := h6 c hc
  rw [heldVals_empty h2] at this
  rw [held_eq hm]; simpa using this

theorem drain {k : Nat} {ms : Masked} (h : StOk k ms) (n : Nat) :
    ∃ r, ms.drain n = .ok r ∧ StOk k r.st ∧
      ∀ c : Int, r.st.held.count c + r.destroyed.count c + (r.val.map (·.2)).count c = ms.held.count c := by
  obtain ⟨m, hm⟩ := h.good.1
  obtain ⟨r, h1, h2, _, h5, h6⟩ := drain_cons hm n
  obtain ⟨r', g1, g2⟩ := good_drain h.good n
  rw [h1] at g1; cases g1
  refine ⟨r, h1, h.next g2 (drain_wf preserved_wf h.wf h1) h5, ?_⟩
  intro c
  rw [held_eq h2, held_eq hm]; exact h6 c

/-- Values handed to an entry operation on kind `k` are storable. -/
def entryOk (k : Nat) : EntryOp → Prop
  | .orInsert v _ w => vOk k v ∧ ∀ x, w = some x → vOk k x
  | .replace v => vOk k v
  | .remove => True

theorem entry {k : Nat} {ms : Masked} (h : StOk k ms) (a : Alloc) (e : Entity) (op : EntryOp)
    (hop : entryOk k op) :
    ∃ r, ms.entry a e op = .ok r ∧ StOk k r.st ∧
      ∀ c : Int, c ≠ 0 → r.st.held.count c + r.destroyed.count c + (entryOut op r.val).count c =
        ms.held.count c + (entryIn op r.val).count c := by
  obtain ⟨m, hm⟩ := h.good.1
  have hop' : entryValsOk ms.inner op := by
    cases op with
    | orInsert v d w => exact ⟨h.valOk hop.1, fun x hx => h.valOk (hop.2 x hx)⟩
    | replace v => exact h.valOk hop
    | remove => trivial
  obtain ⟨r, m', h1, h2, _, _, h5, h6⟩ := entry_cons hm a e op hop'
  obtain ⟨r', g1, g2⟩ := good_entry h.good a e op
  rw [h1] at g1; cases g1
  refine ⟨r, h1, h.next g2 (entry_wf preserved_wf h.wf h1) h5, ?_⟩
  intro c hc
  rw [held_eq h2, held_eq hm]; exact h6 c hc

theorem getMutOrDefault {k : Nat} {ms : Masked} (h : StOk k ms) (a : Alloc) (e : Entity) (d : Nat)
    (w : Option Int) (hw : ∀ x, w = some x → vOk k x) :
    ∃ r, ms.getMutOrDefault a e d w = .ok r ∧ StOk k r.st ∧
      ∀ c : Int, c ≠ 0 → r.st.held.count c + r.destroyed.count c + (accOut w r.val).count c =
        ms.held.count c + (accIn w r.val).count c := by
  obtain ⟨m, hm⟩ := h.good.1
  obtain ⟨r, m', h1, h2, _, _, h5, h6⟩ :=
    getMutOrDefault_cons hm a e d w (fun x hx => h.valOk (hw x hx))
  obtain ⟨r', g1, g2⟩ := good_getMutOrDefault h.good a e d w
  rw [h1] at g1; cases g1
  refine ⟨r, h1, h.next g2 (getMutOrDefault_wf preserved_wf h.wf h1) h5, ?_⟩
  intro c hc
  rw [held_eq h2, held_eq hm]; exact h6 c hc

theorem get {k : Nat} {ms : Masked} (h : StOk k ms) (a : Alloc) (e : Entity) :
    ∃ v, ms.get a e = .ok v := by
  obtain ⟨m, hm⟩ := h.good.1
  exact ⟨_, get_ref hm a e⟩

/-- A fresh storage. -/
theorem new (k : Nat) : StOk k { mask := .empty, inner := newStore k } := by
  refine ⟨good_new k, ?_, ?_⟩
  · unfold newStore; split <;> simp [WF]
  · unfold newStore; split <;> simp [nullBased]

theorem held_new (k : Nat) : ({ mask := .empty, inner := newStore k } : Masked).held = [] := by
  simp [held, BSet.toList, BSet.empty]

/-- Toggling event emission touches no value. -/
theorem setEmit {k : Nat} {ms : Masked} (h : StOk k ms) (b : Bool) :
    StOk k { ms with inner := ms.inner.setEmit b } ∧
      ({ ms with inner := ms.inner.setEmit b } : Masked).held = ms.held := by
  refine ⟨⟨good_setEmit h.good b, ?_, ?_⟩, ?_⟩
  · have := h.wf; cases hi : ms.inner <;> simp_all [UStore.setEmit, WF]
  · have := h.kind; cases hi : ms.inner <;> simp_all [UStore.setEmit, nullBased]
  · unfold held
    apply filterMap_congr'
    intro i _
    cases hi : ms.inner <;> simp [UStore.setEmit, UStore.get]

end StOk
end SpecsModel
