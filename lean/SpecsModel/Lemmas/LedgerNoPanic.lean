/-
  C08 (a), full strength: on a world satisfying the world invariant (`WInvX X`, in particular
  `WInv`), NO operation — with arbitrary arguments, well typed or not — returns a panic result.
  In the model every read of an uninitialised / moved-out slot is `Out.ub` and every failed
  `unwrap` / index is `Out.panic`; both are surfaced as `WRes.panic` (`.e (.panic _)` for the entity
  layer), so this is "no operation exposes a moved-out or never-written slot".
-/
import SpecsModel.Lemmas.LedgerStep2
namespace SpecsModel
open Masked Alloc
namespace World
variable {X : Nat → Prop}

/-! ### Builders -/

theorem np_buildComps : ∀ (comps : List (Nat × Int)) (w : World) (e : Entity), WInvX X w →
    e ∈ w.ent.log.toList → w.ent.alloc.isAlive e = true →
    (∀ kv, kv ∈ comps → (w.store? kv.1).isSome = true) →
    ∃ w', w.buildComps e comps = .ok w' ∧ w'.ent = w.ent := by
  intro comps
  induction comps with
  | nil => intro w e _ _ _ _; exact ⟨w, rfl, rfl⟩
  | cons kv comps ih =>
    intro w e hi he hal hreg
    obtain ⟨k, v⟩ := kv
    have hk := hreg (k, v) (by simp)
    cases hst : w.store? k with
    | none => simp [hst] at hk
    | some m =>
      obtain ⟨r, hr, _⟩ := Masked.good_insert (hi.good k m hst) w.ent.alloc e v
      have hne := (LazyQ.insert_alive hal hr).2
      -- the invariant after this one insertion, from the one-component builder
      have hone := inv_buildComps [(k, v)] w e hi he (by
        intro kv' hkv'; simp only [List.mem_singleton] at hkv'; subst hkv'; exact hk)
      simp only [buildComps, hst, hr] at hone ⊢
      cases hv : r.val with
      | wrongGen => exact absurd hv hne
      | inserted =>
        simp only [hv] at hone ⊢
        rcases hone with ⟨w1, h1, h2, h3⟩ | ⟨why, h1⟩
        · cases h1
          obtain ⟨w', g1, g2⟩ := ih _ e h2 he hal (by
            intro kv' hkv'
            have := hreg kv' (by simp [hkv'])
            rw [isSome_setStore hst]; exact this)
          exact ⟨w', g1, g2⟩
        · cases h1
      | replaced old =>
        simp only [hv] at hone ⊢
        rcases hone with ⟨w1, h1, h2, h3⟩ | ⟨why, h1⟩
        · cases h1
          obtain ⟨w', g1, g2⟩ := ih _ e h2 he hal (by
            intro kv' hkv'
            have := hreg kv' (by simp [hkv'])
            rw [isSome_setStore hst]; exact this)
          exact ⟨w', g1, g2⟩
        · cases h1

theorem np_createWith {w : World} (hi : WInvX X w) (atomic dropped : Bool) (comps : List (Nat × Int)) :
    (w.createWith atomic dropped comps).2.isPanic = false := by
  unfold createWith
  split
  · rfl
  · next hany =>
    obtain ⟨s, hs⟩ := hi.ent
    have hreg : ∀ kv, kv ∈ comps → (w.store? kv.1).isSome = true := by
      intro kv hkv
      cases hq : w.store? kv.1 with
      | some _ => rfl
      | none =>
        exfalso; apply hany
        simp only [List.any_eq_true]
        exact ⟨kv, hkv, by simp [hq]⟩
    obtain ⟨e, ew, s', hcre, hW, hal, hseen⟩ := create_alive hs atomic
    -- the world after the creation satisfies the invariant and logs the new handle
    have hcw := inv_createWith hi atomic false []
    have hlog : e ∈ ew.log.toList := by
      obtain ⟨e', s'', h1, _, h3, _⟩ := create_accept hs atomic false
      rw [hcre] at h1 h3
      simp only at h1 h3
      cases h1
      rw [h3]; simp
    have hi1 : WInvX X ({ w with ent := ew } : World) := by
      simp only [createWith, List.any_nil, Bool.false_eq_true, if_false, hcre, buildComps] at hcw
      exact hcw
    rw [hcre]
    simp only
    obtain ⟨w2, g1, g2⟩ := np_buildComps comps { w with ent := ew } e hi1 hlog hal hreg
    rw [g1]
    simp only
    cases dropped with
    | false => rfl
    | true =>
      simp only [if_true]
      have hW2 : WR w2.ent s' := by rw [g2]; exact hW
      obtain ⟨a', ok, s2, hk, _, _, hok, _⟩ := killAtomic_refine hW2.r e hseen
      have hal2 : w2.ent.alloc.isAlive e = true := by rw [g2]; exact hal
      rw [hal2] at hok; subst hok
      rw [hk]
      rfl

/-! ### Restricted join -/

theorem np_rjoinLoop (k : Nat) (mutable : Bool) : ∀ (ids : List Nat) (w : World) (acts : List RAct)
    (acc : List (Nat × ItemRes)),
    (∃ m, w.store? k = some m ∧ m.Good ∧ ∀ id, id ∈ ids → m.mask.mem id = true) →
    (rjoinLoop w k mutable ids acts acc).2.isPanic = false := by
  intro ids
  induction ids with
  | nil => intro w acts acc _; rfl
  | cons id ids ih =>
    intro w acts acc hst
    obtain ⟨m, hst, hg, hids⟩ := hst
    have hmem : m.mask.mem id = true := hids id (by simp)
    have hrest : ∀ id', id' ∈ ids → m.mask.mem id' = true := fun id' h' => hids id' (by simp [h'])
    have same : ∀ acts' acc', (rjoinLoop w k mutable ids acts' acc').2.isPanic = false :=
      fun acts' acc' => ih w acts' acc' ⟨m, hst, hg, hrest⟩
    have upd : ∀ (m2 : Masked) acts' acc', m2.mask = m.mask → m2.Good →
        (rjoinLoop (w.setStore k m2) k mutable ids acts' acc').2.isPanic = false := by
      intro m2 acts' acc' hmask h2
      have hs2 : (w.setStore k m2).store? k = some m2 := by
        have := store?_setStore_destroy hst m2 [] k
        simpa [destroy_nil] using this
      exact ih _ acts' acc' ⟨m2, hs2, h2, fun id' h' => hmask ▸ hrest id' h'⟩
    simp only [rjoinLoop, hst]
    cases hact : acts.head?.getD RAct.skip with
    | skip => exact same _ _
    | get =>
      simp only
      obtain ⟨old, hget, _⟩ := rjoin_access_good hg hmem 0 none
      simp only [hget]
      exact same _ _
    | getMut d wr =>
      simp only
      cases mutable with
      | false => simp only [Bool.not_false, if_true]; exact same _ _
      | true =>
        simp only [Bool.not_true, Bool.false_eq_true, if_false]
        obtain ⟨old, hget, hacc⟩ := rjoin_access_good hg hmem d wr
        simp only [hget]
        cases wr with
        | none => simp only at hacc ⊢; exact upd _ _ _ rfl hacc
        | some v =>
          simp only at hacc ⊢
          obtain ⟨inner', hp, hg'⟩ := hacc
          simp only [hp]
          exact upd _ _ _ rfl hg'
    | getOther hd =>
      simp only
      cases resolve w.ent.log hd with
      | none => exact same _ _
      | some e =>
        simp only
        obtain ⟨mm, hmm⟩ := hg.1
        simp only [Masked.getOther, Masked.get_ref hmm]
        exact same _ _
    | getOtherMut hd d wr =>
      simp only
      cases mutable with
      | false => simp only [Bool.not_false, if_true]; exact same _ _
      | true =>
        simp only [Bool.not_true, Bool.false_eq_true, if_false]
        cases resolve w.ent.log hd with
        | none => exact same _ _
        | some e =>
          simp only
          obtain ⟨r, hr, hg'⟩ := Masked.good_getMut hg w.ent.alloc e d wr
          simp only [hr]
          exact upd _ _ _ (getMut_mask hr) hg'

/-! ### Teardown -/

theorem np_dropStores (w : World) : ∀ (ks : List Nat) (acc : List Int),
    (∀ k ms, w.store? k = some ms → ms.Good) → ∃ d, w.dropStores ks acc = .ok d := by
  intro ks
  induction ks with
  | nil => intro acc _; exact ⟨acc, rfl⟩
  | cons k ks ih =>
    intro acc h
    simp only [dropStores]
    cases hk : w.store? k with
    | none => exact ih acc h
    | some m =>
      obtain ⟨r, g1, _⟩ := Masked.good_clear (h k m hk)
      simp only [g1]
      exact ih _ h

/-! ### Handle-taking storage operations -/

theorem np_handle_case {α} {w : World} (hi : WInvX X w) (k hd : Nat)
    (f : Masked → Alloc → Entity → Out (SRes α)) (g : α → WRes)
    (hgood : ∀ ms a e, ms.Good → ∃ r, f ms a e = .ok r)
    (hg : ∀ x, (g x).isPanic = false) :
    (match w.store? k, resolve w.ent.log hd with
      | none, _ => (w, WRes.noStore)
      | _, none => (w, WRes.skip)
      | some m, some e => w.applyS k (f m w.ent.alloc e) g).2.isPanic = false := by
  cases hst : w.store? k with
  | none => rfl
  | some m =>
    cases hr : resolve w.ent.log hd with
    | none => rfl
    | some e =>
      obtain ⟨r, h1⟩ := hgood m w.ent.alloc e (hi.good k m hst)
      simp only [h1, applyS]
      exact hg _

/-! ### Entity operations -/

theorem np_ent_nonmerge {w : World} (hi : WInvX X w) (fuel : Nat) (eop : EOp) (hne : eop ≠ .merge) :
    (step fuel w (.ent eop)).2.isPanic = false := by
  obtain ⟨s, hs⟩ := hi.ent
  have plain : ∀ op : EOp,
      (match w.ent.step op with | (ew, r) => (({ w with ent := ew } : World), WRes.e r)).2.isPanic = false := by
    intro op
    have hacc := (step_accept hs op).1
    generalize w.ent.step op = x at *
    obtain ⟨ew, r⟩ := x
    simp only at hacc ⊢
    cases r <;> first | rfl | (cases op <;> simp [resShapeOk] at hacc)
  have del : ∀ es, (∀ s, WR w.ent s → ∀ e, e ∈ es → e ∈ s.seen) → (w.deleteEntities es).2.isPanic = false := by
    intro es hes
    obtain ⟨_, r, hr⟩ := inv_deleteEntities hi es hes
    rw [hr]; rfl
  cases eop with
  | merge => exact absurd rfl hne
  | delAll =>
    simp only [step]
    obtain ⟨a', hk, _⟩ := delAll_refine hs.r
    obtain ⟨_, r, hr⟩ := inv_deleteEntities hi w.ent.alloc.joinEntities (by
      intro s' hs' e he
      exact ((hs'.r.liveIff e).mp ((mem_live_iff hs'.r e).mpr ((mem_joinEntities hs'.r.inv e).mp he))).1)
    have : r = .ok := by
      simp only [deleteEntities, hk] at hr
      split at hr <;> simp at hr
      exact hr.symm
    subst this
    have hw : w.deleteEntities w.ent.alloc.joinEntities =
        ((w.deleteEntities w.ent.alloc.joinEntities).1, .e (.kill .ok)) := Prod.ext rfl hr
    rw [hw]
    rfl
  | delNow hd =>
    simp only [step]
    cases hr : resolve w.ent.log hd with
    | none => rfl
    | some e =>
      exact del [e] (by
        intro s' hs' x hx'; simp only [List.mem_singleton] at hx'; subst hx'
        exact hs'.logSeen _ (resolve_mem hr))
  | delBatch hds =>
    simp only [step]
    cases hr : resolveAll w.ent.log hds with
    | none => rfl
    | some es => exact del es (by intro s' hs' x hx'; exact hs'.logSeen _ (resolveAll_mem hr x hx'))
  | createNow d => simp only [step]; exact plain (.createNow d)
  | createAtomic d => simp only [step]; exact plain (.createAtomic d)
  | createIterNow n => simp only [step]; exact plain (.createIterNow n)
  | createIterAtomic n => simp only [step]; exact plain (.createIterAtomic n)
  | delAtomic hd => simp only [step]; exact plain (.delAtomic hd)
  | alive hd => simp only [step]; exact plain (.alive hd)
  | walive hd => simp only [step]; exact plain (.walive hd)
  | ejoin => simp only [step]; exact plain .ejoin

/-! ### All operations -/

/-- Every operation other than `maintain`, any arguments, any fuel. -/
theorem np_step_nonrec {w : World} (hi : WInvX X w) (fuel : Nat) (op : WOp) (hne : op ≠ .ent .merge) :
    (step fuel w op).2.isPanic = false := by
  cases op with
  | ent eop => exact np_ent_nonmerge hi fuel eop (fun he => hne (he ▸ rfl))
  | reg k path => simp only [step]; rfl
  | createWith atomic dropped comps => simp only [step]; exact np_createWith hi atomic dropped comps
  | get k hd =>
    simp only [step]
    cases hst : w.store? k with
    | none => rfl
    | some m =>
      cases hr : resolve w.ent.log hd with
      | none => rfl
      | some e =>
        obtain ⟨mm, hmm⟩ := (hi.good k m hst).1
        simp only [Masked.get_ref hmm]
        rfl
  | getMut k hd d wr =>
    simp only [step]
    exact np_handle_case hi k hd (fun ms a e => ms.getMut a e d wr) .opt
      (fun ms a e hg => by obtain ⟨r, h, _⟩ := Masked.good_getMut hg a e d wr; exact ⟨r, h⟩) (fun _ => rfl)
  | has k hd =>
    simp only [step]
    cases w.store? k with
    | none => rfl
    | some m => cases resolve w.ent.log hd <;> rfl
  | ins k hd v =>
    simp only [step]
    exact np_handle_case hi k hd (fun ms a e => ms.insert a e v) .ins
      (fun ms a e hg => by obtain ⟨r, h, _⟩ := Masked.good_insert hg a e v; exact ⟨r, h⟩) (fun _ => rfl)
  | rem k hd =>
    simp only [step]
    exact np_handle_case hi k hd (fun ms a e => ms.remove a e) .opt
      (fun ms a e hg => by obtain ⟨r, h, _⟩ := Masked.good_remove hg a e; exact ⟨r, h⟩) (fun _ => rfl)
  | entry k hd eop =>
    simp only [step]
    exact np_handle_case hi k hd (fun ms a e => ms.entry a e eop) .entry
      (fun ms a e hg => by obtain ⟨r, h, _⟩ := Masked.good_entry hg a e eop; exact ⟨r, h⟩) (fun _ => rfl)
  | mutOrDefault k hd d wr =>
    simp only [step]
    exact np_handle_case hi k hd (fun ms a e => ms.getMutOrDefault a e d wr) .opt
      (fun ms a e hg => by obtain ⟨r, h, _⟩ := Masked.good_getMutOrDefault hg a e d wr; exact ⟨r, h⟩)
      (fun _ => rfl)
  | count k => simp only [step]; cases w.store? k <;> rfl
  | isEmpty k => simp only [step]; cases w.store? k <;> rfl
  | mask k => simp only [step]; cases w.store? k <;> rfl
  | clear k =>
    simp only [step]
    cases hst : w.store? k with
    | none => rfl
    | some m =>
      obtain ⟨r, h1, _⟩ := Masked.good_clear (hi.good k m hst)
      simp only [h1, applyS]; rfl
  | drain k n =>
    simp only [step]
    cases hst : w.store? k with
    | none => rfl
    | some m =>
      obtain ⟨r, h1, _⟩ := Masked.good_drain (hi.good k m hst) n
      simp only [h1, applyS]; rfl
  | slice k => simp only [step]; cases w.store? k <;> rfl
  | emit k b => simp only [step]; cases w.store? k <;> rfl
  | events k =>
    simp only [step]
    cases w.store? k with
    | none => rfl
    | some m => simp only; cases m.inner.events <;> rfl
  | lazyIns k hd v =>
    simp only [step]
    cases w.store? k with
    | none => rfl
    | some m => cases resolve w.ent.log hd <;> rfl
  | lazyInsAll k items =>
    simp only [step]
    cases w.store? k with
    | none => rfl
    | some m => cases resolveAll w.ent.log (items.map (·.1)) <;> rfl
  | lazyRem k hd =>
    simp only [step]
    cases w.store? k with
    | none => rfl
    | some m => cases resolve w.ent.log hd <;> rfl
  | lazyCreate comps =>
    simp only [step]
    split
    · rfl
    · obtain ⟨s, hs⟩ := hi.ent
      obtain ⟨e, ew, s', hcre, _, _, _⟩ := create_alive hs true
      simp only [if_true] at hcre
      rw [hcre]
      rfl
  | lazyExec s => simp only [step]; rfl
  | rjoin k mutable acts =>
    simp only [step]
    cases hst : w.store? k with
    | none => rfl
    | some m =>
      exact np_rjoinLoop k mutable _ w acts []
        ⟨m, hst, hi.good k m hst, fun id hid => (BSet.mem_toList _ _).mp hid⟩
  | dropWorld =>
    simp only [step]
    obtain ⟨d, h1⟩ := np_dropStores w w.table [] hi.good
    rw [h1]
    rfl

/-- **No operation panics / exposes an invalid slot**: every operation, any arguments, on any
    world satisfying the world invariant (fuel ≥ 2 lets a top-level `maintain` start its queue). -/
theorem step_no_panic' {w : World} (hi : WInvX X w) (op : WOp) (fuel : Nat) (hf : 2 ≤ fuel) :
    (step fuel w op).2.isPanic = false := by
  by_cases hm : op = .ent .merge
  · subst hm
    obtain ⟨f, rfl⟩ : ∃ f, fuel = f + 2 := ⟨fuel - 2, by omega⟩
    obtain ⟨w2, _, hrun, _⟩ := inv_maintain_pre hi
    simp only [step]
    rw [hrun f]
    rfl
  · exact np_step_nonrec hi fuel op hm

end World
end SpecsModel
