/-
  C20 support: the internal order of `HashMapStorage` (modelled as the order of the association
  list in `UStore.hash`; in the real system it depends on the hash seed) never reaches an
  observable of the world model.

  * `UStore.Eqv` / `Masked.Eqv` / `World.Eqv`: equality up to the order of hash lists (keys
    duplicate-free) and up to the order of the destruction ledger.
  * every function of Model/Storages.lean, Model/Storage.lean and Model/World.lean respects the
    relation: equal results, related states, destroyed lists equal up to order;
  * `World.mutual_eqv`: the five mutually recursive functions `step/runScript/runAct/runQueue/
    maintain`, by induction on `fuel`;
  * `World.runOpsFrom_eqv`, `World.runScrambledFrom_eqv`, `World.runSeeded_*`: histories, arbitrary
    re-ordering between steps, and the seeded model.
-/
import SpecsModel.Model.World
namespace SpecsModel

/-! ## Relations on outcomes -/

/-- Two outcomes have the same shape; `ok` payloads are related by `R`, panic/ub reasons equal. -/
def Out.Rel {α} (R : α → α → Prop) : Out α → Out α → Prop
  | .ok a, .ok b => R a b
  | .panic w, .panic w' => w = w'
  | .ub w, .ub w' => w = w'
  | _, _ => False

namespace Out.Rel
variable {α : Type} {R : α → α → Prop}

@[simp] theorem ok_ok {a b : α} : Out.Rel R (.ok a) (.ok b) ↔ R a b := Iff.rfl
@[simp] theorem panic_panic {w w' : String} : Out.Rel R (.panic w : Out α) (.panic w') ↔ w = w' := Iff.rfl
@[simp] theorem ub_ub {w w' : String} : Out.Rel R (.ub w : Out α) (.ub w') ↔ w = w' := Iff.rfl
@[simp] theorem ok_panic {a : α} {w} : Out.Rel R (.ok a) (.panic w) ↔ False := Iff.rfl
@[simp] theorem ok_ub {a : α} {w} : Out.Rel R (.ok a) (.ub w) ↔ False := Iff.rfl
@[simp] theorem panic_ok {a : α} {w} : Out.Rel R (.panic w) (.ok a) ↔ False := Iff.rfl
@[simp] theorem panic_ub {w w' : String} : Out.Rel R (.panic w : Out α) (.ub w') ↔ False := Iff.rfl
@[simp] theorem ub_ok {a : α} {w} : Out.Rel R (.ub w) (.ok a) ↔ False := Iff.rfl
@[simp] theorem ub_panic {w w' : String} : Out.Rel R (.ub w : Out α) (.panic w') ↔ False := Iff.rfl

theorem of_eq {o : Out α} (h : ∀ a, o = .ok a → R a a) : Out.Rel R o o := by
  cases o with
  | ok a => exact h a rfl
  | panic w => rfl
  | ub w => rfl

theorem mono {S : α → α → Prop} {o₁ o₂ : Out α} (h : Out.Rel R o₁ o₂) (hRS : ∀ a b, R a b → S a b) :
    Out.Rel S o₁ o₂ := by
  cases o₁ <;> cases o₂ <;> simp_all

theorem symm {o₁ o₂ : Out α} (h : Out.Rel R o₁ o₂) (hR : ∀ a b, R a b → R b a) : Out.Rel R o₂ o₁ := by
  cases o₁ <;> cases o₂ <;> simp_all

theorem trans {o₁ o₂ o₃ : Out α} (h : Out.Rel R o₁ o₂) (h' : Out.Rel R o₂ o₃)
    (hR : ∀ a b c, R a b → R b c → R a c) : Out.Rel R o₁ o₃ := by
  cases o₁ <;> cases o₂ <;> cases o₃ <;> simp_all
  exact hR _ _ _ h h'

/-- Related outcomes with equality as the payload relation are equal. -/
theorem eq_of_rel_eq {o₁ o₂ : Out α} (h : Out.Rel (· = ·) o₁ o₂) : o₁ = o₂ := by
  cases o₁ <;> cases o₂ <;> simp_all

/-- The shape dichotomy used to consume a relation. -/
theorem cases' {o₁ o₂ : Out α} (h : Out.Rel R o₁ o₂) :
    (∃ a b, o₁ = .ok a ∧ o₂ = .ok b ∧ R a b) ∨ (∃ w, o₁ = .panic w ∧ o₂ = .panic w) ∨
    (∃ w, o₁ = .ub w ∧ o₂ = .ub w) := by
  cases o₁ <;> cases o₂ <;> simp_all

end Out.Rel

/-! ## Association lists with duplicate-free keys -/

namespace UStore

theorem assocGet_eq_some_iff {l : List (Nat × Int)} (hn : (l.map (·.1)).Nodup) (id : Nat) (v : Int) :
    assocGet l id = some v ↔ (id, v) ∈ l := by
  induction l with
  | nil => simp [assocGet]
  | cons p l ih =>
    obtain ⟨k, x⟩ := p
    simp only [List.map_cons, List.nodup_cons, List.mem_map, not_exists, not_and] at hn
    have ih := ih hn.2
    simp only [assocGet] at ih ⊢
    by_cases hk : k = id
    · subst hk
      simp only [List.find?_cons, beq_self_eq_true, Option.map_some, Option.some.injEq,
        List.mem_cons, Prod.mk.injEq, true_and]
      constructor
      · intro h; exact Or.inl h.symm
      · rintro (h | h)
        · exact h.symm
        · exact absurd rfl (hn.1 (k, v) h)
    · have hb : (k == id) = false := by simpa using hk
      simp only [List.find?_cons, hb, List.mem_cons, Prod.mk.injEq]
      rw [ih]
      constructor
      · intro h; exact Or.inr h
      · rintro (h | h)
        · exact absurd h.1.symm hk
        · exact h

theorem keys_nodup_of_perm {l₁ l₂ : List (Nat × Int)} (hp : l₁.Perm l₂) (hn : (l₁.map (·.1)).Nodup) :
    (l₂.map (·.1)).Nodup := ((hp.map (·.1)).nodup_iff).1 hn

/-- Lookup does not depend on the internal order (keys are unique). -/
theorem assocGet_perm {l₁ l₂ : List (Nat × Int)} (hp : l₁.Perm l₂) (hn : (l₁.map (·.1)).Nodup)
    (id : Nat) : assocGet l₁ id = assocGet l₂ id := by
  have hn2 := keys_nodup_of_perm hp hn
  cases h1 : assocGet l₁ id with
  | some v =>
    have := (assocGet_eq_some_iff hn id v).1 h1
    exact ((assocGet_eq_some_iff hn2 id v).2 (hp.mem_iff.1 this)).symm
  | none =>
    cases h2 : assocGet l₂ id with
    | none => rfl
    | some v =>
      have := (assocGet_eq_some_iff hn2 id v).1 h2
      have := (assocGet_eq_some_iff hn id v).2 (hp.mem_iff.2 this)
      rw [h1] at this; cases this

theorem assocErase_perm {l₁ l₂ : List (Nat × Int)} (hp : l₁.Perm l₂) (id : Nat) :
    (assocErase l₁ id).Perm (assocErase l₂ id) := hp.filter _

theorem assocErase_keys_nodup {l : List (Nat × Int)} (hn : (l.map (·.1)).Nodup) (id : Nat) :
    ((assocErase l id).map (·.1)).Nodup :=
  hn.sublist (List.Sublist.map _ List.filter_sublist)

theorem not_mem_keys_assocErase (l : List (Nat × Int)) (id : Nat) :
    id ∉ (assocErase l id).map (·.1) := by
  simp [assocErase]

theorem insert_keys_nodup {l : List (Nat × Int)} (hn : (l.map (·.1)).Nodup) (id : Nat) (v : Int) :
    (((id, v) :: assocErase l id).map (·.1)).Nodup := by
  rw [List.map_cons, List.nodup_cons]
  exact ⟨not_mem_keys_assocErase l id, assocErase_keys_nodup hn id⟩

theorem pokeMap_keys (l : List (Nat × Int)) (id : Nat) (v : Int) :
    (l.map (fun p => if p.1 == id then (id, v) else p)).map (·.1) = l.map (·.1) := by
  rw [List.map_map]
  apply List.map_congr_left
  intro p _
  simp only [Function.comp]
  split
  · rename_i h; simpa using (by simpa using h : p.1 = id).symm
  · rfl

/-! ## The order-forgetting relation on storages -/

/-- `s₁ ~ s₂`: equal up to the internal order of `HashMapStorage` lists (whose keys must be
    duplicate-free). Every other constructor is related only to itself. -/
def Eqv : UStore → UStore → Prop
  | hash l₁, hash l₂ => l₁.Perm l₂ ∧ (l₁.map (·.1)).Nodup
  | flagged i₁ ev₁ em₁, flagged i₂ ev₂ em₂ => Eqv i₁ i₂ ∧ ev₁ = ev₂ ∧ em₁ = em₂
  | derefFlagged i₁ ev₁ em₁, derefFlagged i₂ ev₂ em₂ => Eqv i₁ i₂ ∧ ev₁ = ev₂ ∧ em₁ = em₂
  | hash _, _ => False
  | flagged .., _ => False
  | derefFlagged .., _ => False
  | s₁, s₂ => s₁ = s₂

/-- Well-formedness: hash lists have duplicate-free keys. -/
def HWF : UStore → Prop
  | hash l => (l.map (·.1)).Nodup
  | flagged i _ _ => HWF i
  | derefFlagged i _ _ => HWF i
  | _ => True

/-- Inductive presentation of `Eqv` (gives the induction principle used below). -/
inductive EqvI : UStore → UStore → Prop
  | hash {l₁ l₂} : l₁.Perm l₂ → (l₁.map (·.1)).Nodup → EqvI (hash l₁) (hash l₂)
  | flagged {i₁ i₂} (ev em) : EqvI i₁ i₂ → EqvI (flagged i₁ ev em) (flagged i₂ ev em)
  | derefFlagged {i₁ i₂} (ev em) : EqvI i₁ i₂ → EqvI (derefFlagged i₁ ev em) (derefFlagged i₂ ev em)
  | vec (a) : EqvI (vec a) (vec a)
  | dense (d e i) : EqvI (dense d e i) (dense d e i)
  | dvec (a) : EqvI (dvec a) (dvec a)
  | btree (m) : EqvI (btree m) (btree m)
  | null : EqvI null null

@[simp] theorem eqv_hash {l₁ l₂} : Eqv (hash l₁) (hash l₂) ↔ l₁.Perm l₂ ∧ (l₁.map (·.1)).Nodup := by
  simp [Eqv]
@[simp] theorem eqv_flagged {i₁ i₂ ev₁ ev₂ em₁ em₂} :
    Eqv (flagged i₁ ev₁ em₁) (flagged i₂ ev₂ em₂) ↔ Eqv i₁ i₂ ∧ ev₁ = ev₂ ∧ em₁ = em₂ := by
  simp [Eqv]
@[simp] theorem eqv_derefFlagged {i₁ i₂ ev₁ ev₂ em₁ em₂} :
    Eqv (derefFlagged i₁ ev₁ em₁) (derefFlagged i₂ ev₂ em₂) ↔ Eqv i₁ i₂ ∧ ev₁ = ev₂ ∧ em₁ = em₂ := by
  simp [Eqv]
@[simp] theorem eqv_vec {a} : Eqv (vec a) (vec a) := by simp [Eqv]
@[simp] theorem eqv_dense {d e i} : Eqv (dense d e i) (dense d e i) := by simp [Eqv]
@[simp] theorem eqv_dvec {a} : Eqv (dvec a) (dvec a) := by simp [Eqv]
@[simp] theorem eqv_btree {m} : Eqv (btree m) (btree m) := by simp [Eqv]
@[simp] theorem eqv_null : Eqv null null := by simp [Eqv]

theorem EqvI.toEqv {s₁ s₂} (h : EqvI s₁ s₂) : Eqv s₁ s₂ := by
  induction h <;> simp_all

theorem Eqv.toI : ∀ {s₁ s₂}, Eqv s₁ s₂ → EqvI s₁ s₂ := by
  intro s₁
  induction s₁ with
  | hash l₁ => intro s₂ h; cases s₂ <;> simp [Eqv] at h; exact .hash h.1 h.2
  | flagged i₁ ev em ih =>
    intro s₂ h; cases s₂ <;> simp [Eqv] at h
    obtain ⟨h1, rfl, rfl⟩ := h; exact .flagged _ _ (ih h1)
  | derefFlagged i₁ ev em ih =>
    intro s₂ h; cases s₂ <;> simp [Eqv] at h
    obtain ⟨h1, rfl, rfl⟩ := h; exact .derefFlagged _ _ (ih h1)
  | vec a => intro s₂ h; cases s₂ <;> simp [Eqv] at h; subst h; exact .vec _
  | dense d e i => intro s₂ h; cases s₂ <;> simp [Eqv] at h; obtain ⟨rfl, rfl, rfl⟩ := h; exact .dense _ _ _
  | dvec a => intro s₂ h; cases s₂ <;> simp [Eqv] at h; subst h; exact .dvec _
  | btree m => intro s₂ h; cases s₂ <;> simp [Eqv] at h; subst h; exact .btree _
  | null => intro s₂ h; cases s₂ <;> simp [Eqv] at h; exact .null

theorem eqv_iff_eqvI {s₁ s₂} : Eqv s₁ s₂ ↔ EqvI s₁ s₂ := ⟨Eqv.toI, EqvI.toEqv⟩

/-- Reflexivity is exactly well-formedness. -/
theorem eqv_self_iff_wf (s : UStore) : Eqv s s ↔ HWF s := by
  induction s <;> simp_all [Eqv, HWF]

theorem Eqv.refl {s : UStore} (h : HWF s) : Eqv s s := (eqv_self_iff_wf s).2 h

theorem Eqv.symm {s₁ s₂} (h : Eqv s₁ s₂) : Eqv s₂ s₁ := by
  replace h := h.toI
  induction h with
  | hash hp hn => exact eqv_hash.2 ⟨hp.symm, keys_nodup_of_perm hp hn⟩
  | flagged ev em _ ih => exact eqv_flagged.2 ⟨ih, rfl, rfl⟩
  | derefFlagged ev em _ ih => exact eqv_derefFlagged.2 ⟨ih, rfl, rfl⟩
  | _ => simp

theorem Eqv.trans {s₁ s₂ s₃} (h : Eqv s₁ s₂) (h' : Eqv s₂ s₃) : Eqv s₁ s₃ := by
  replace h := h.toI
  induction h generalizing s₃ with
  | hash hp hn =>
    cases s₃ <;> simp [Eqv] at h'
    exact eqv_hash.2 ⟨hp.trans h'.1, hn⟩
  | flagged ev em _ ih =>
    cases s₃ <;> simp [Eqv] at h'
    obtain ⟨h1, rfl, rfl⟩ := h'
    exact eqv_flagged.2 ⟨ih h1, rfl, rfl⟩
  | derefFlagged ev em _ ih =>
    cases s₃ <;> simp [Eqv] at h'
    obtain ⟨h1, rfl, rfl⟩ := h'
    exact eqv_derefFlagged.2 ⟨ih h1, rfl, rfl⟩
  | _ => exact h'

theorem Eqv.wf_left {s₁ s₂} (h : Eqv s₁ s₂) : HWF s₁ := (eqv_self_iff_wf _).1 (h.trans h.symm)
theorem Eqv.wf_right {s₁ s₂} (h : Eqv s₁ s₂) : HWF s₂ := (eqv_self_iff_wf _).1 (h.symm.trans h)

theorem wf_newStore (k : Nat) : HWF (newStore k) := by
  unfold newStore; split <;> simp [HWF]

/-! ## Every storage function respects the relation -/

theorem get_eqv {s₁ s₂} (h : Eqv s₁ s₂) (id : Nat) : s₁.get id = s₂.get id := by
  replace h := h.toI
  induction h with
  | hash hp hn => simp only [get, assocGet_perm hp hn]
  | flagged ev em _ ih => simpa only [get] using ih
  | derefFlagged ev em _ ih => simpa only [get] using ih
  | _ => rfl

theorem events_eqv {s₁ s₂} (h : Eqv s₁ s₂) : s₁.events = s₂.events := by
  replace h := h.toI
  cases h <;> rfl

theorem asSlice_eqv {s₁ s₂} (h : Eqv s₁ s₂) : s₁.asSlice = s₂.asSlice := by
  replace h := h.toI
  cases h <;> rfl

/-- Payload relation for `insert` / `remove`: related stores, equal values. -/
def RelSV {β : Type} (p q : UStore × β) : Prop := Eqv p.1 q.1 ∧ p.2 = q.2
/-- Payload relation for `clean`: related stores, destroyed lists equal up to order. -/
def RelSP (p q : UStore × List Int) : Prop := Eqv p.1 q.1 ∧ p.2.Perm q.2

theorem insert_eqv {s₁ s₂} (h : Eqv s₁ s₂) (id : Nat) (v : Int) :
    Out.Rel RelSV (s₁.insert id v) (s₂.insert id v) := by
  replace h := h.toI
  induction h with
  | hash hp hn =>
    simp only [insert, Out.Rel.ok_ok, RelSV, assocGet_perm hp hn, and_true]
    exact eqv_hash.2 ⟨(assocErase_perm hp id).cons _, insert_keys_nodup hn id v⟩
  | flagged ev em _ ih =>
    simp only [insert]
    rcases ih.cases' with ⟨a, b, h1, h2, h3⟩ | ⟨w, h1, h2⟩ | ⟨w, h1, h2⟩
    · rw [h1, h2]; obtain ⟨a1, a2⟩ := a; obtain ⟨b1, b2⟩ := b
      simp only [RelSV] at h3
      simp [RelSV, h3.1, h3.2]
    · rw [h1, h2]; simp
    · rw [h1, h2]; simp
  | derefFlagged ev em _ ih =>
    simp only [insert]
    rcases ih.cases' with ⟨a, b, h1, h2, h3⟩ | ⟨w, h1, h2⟩ | ⟨w, h1, h2⟩
    · rw [h1, h2]; obtain ⟨a1, a2⟩ := a; obtain ⟨b1, b2⟩ := b
      simp only [RelSV] at h3
      simp [RelSV, h3.1, h3.2]
    · rw [h1, h2]; simp
    · rw [h1, h2]; simp
  | dvec a => simp only [insert]; split <;> simp [RelSV]
  | _ => simp [insert, RelSV]

theorem poke_eqv {s₁ s₂} (h : Eqv s₁ s₂) (id : Nat) (v : Int) :
    Out.Rel Eqv (s₁.poke id v) (s₂.poke id v) := by
  replace h := h.toI
  induction h with
  | hash hp hn =>
    simp only [poke, ← assocGet_perm hp hn]
    split
    · simp only [Out.Rel.ok_ok, eqv_hash, pokeMap_keys]
      exact ⟨hp.map _, hn⟩
    · simp
  | flagged ev em _ ih =>
    simp only [poke]
    rcases ih.cases' with ⟨a, b, h1, h2, h3⟩ | ⟨w, h1, h2⟩ | ⟨w, h1, h2⟩
    · rw [h1, h2]; simp [h3]
    · rw [h1, h2]; simp
    · rw [h1, h2]; simp
  | derefFlagged ev em _ ih =>
    simp only [poke]
    rcases ih.cases' with ⟨a, b, h1, h2, h3⟩ | ⟨w, h1, h2⟩ | ⟨w, h1, h2⟩
    · rw [h1, h2]; simp [h3]
    · rw [h1, h2]; simp
    · rw [h1, h2]; simp
  | _ => simp only [poke] <;> (repeat' split) <;> simp

theorem touch_eqv {s₁ s₂} (h : Eqv s₁ s₂) (id d : Nat) : Eqv (s₁.touch id d) (s₂.touch id d) := by
  have h' := h.toI
  cases h' with
  | flagged ev em hi => simp only [touch]; exact eqv_flagged.2 ⟨hi.toEqv, rfl, rfl⟩
  | derefFlagged ev em hi => simp only [touch]; exact eqv_derefFlagged.2 ⟨hi.toEqv, rfl, rfl⟩
  | _ => simpa only [touch] using h

theorem setEmit_eqv {s₁ s₂} (h : Eqv s₁ s₂) (b : Bool) : Eqv (s₁.setEmit b) (s₂.setEmit b) := by
  have h' := h.toI
  cases h' with
  | flagged ev em hi => simp only [setEmit]; exact eqv_flagged.2 ⟨hi.toEqv, rfl, rfl⟩
  | derefFlagged ev em hi => simp only [setEmit]; exact eqv_derefFlagged.2 ⟨hi.toEqv, rfl, rfl⟩
  | _ => simpa only [setEmit] using h

theorem remove_eqv {s₁ s₂} (h : Eqv s₁ s₂) (id : Nat) :
    Out.Rel RelSV (s₁.remove id) (s₂.remove id) := by
  replace h := h.toI
  induction h with
  | hash hp hn =>
    simp only [remove, ← assocGet_perm hp hn]
    split
    · simp only [Out.Rel.ok_ok, RelSV, eqv_hash, and_true]
      exact ⟨assocErase_perm hp id, assocErase_keys_nodup hn id⟩
    · simp
  | flagged ev em _ ih =>
    simp only [remove]
    rcases ih.cases' with ⟨a, b, h1, h2, h3⟩ | ⟨w, h1, h2⟩ | ⟨w, h1, h2⟩
    · rw [h1, h2]; obtain ⟨a1, a2⟩ := a; obtain ⟨b1, b2⟩ := b
      simp only [RelSV] at h3
      simp [RelSV, h3.1, h3.2]
    · rw [h1, h2]; simp
    · rw [h1, h2]; simp
  | derefFlagged ev em _ ih =>
    simp only [remove]
    rcases ih.cases' with ⟨a, b, h1, h2, h3⟩ | ⟨w, h1, h2⟩ | ⟨w, h1, h2⟩
    · rw [h1, h2]; obtain ⟨a1, a2⟩ := a; obtain ⟨b1, b2⟩ := b
      simp only [RelSV] at h3
      simp [RelSV, h3.1, h3.2]
    · rw [h1, h2]; simp
    · rw [h1, h2]; simp
  | _ => simp only [remove] <;> (repeat' split) <;> simp [RelSV]

theorem clean_eqv {s₁ s₂} (h : Eqv s₁ s₂) (has : BSet) :
    Out.Rel RelSP (s₁.clean has) (s₂.clean has) := by
  replace h := h.toI
  induction h with
  | hash hp hn =>
    simp only [clean, Out.Rel.ok_ok, RelSP, eqv_hash]
    exact ⟨⟨.refl _, by simp⟩, hp.map _⟩
  | flagged ev em _ ih =>
    simp only [clean]
    rcases ih.cases' with ⟨a, b, h1, h2, h3⟩ | ⟨w, h1, h2⟩ | ⟨w, h1, h2⟩
    · rw [h1, h2]; obtain ⟨a1, a2⟩ := a; obtain ⟨b1, b2⟩ := b
      simp only [RelSP] at h3
      simp [RelSP, h3.1, h3.2]
    · rw [h1, h2]; simp
    · rw [h1, h2]; simp
  | derefFlagged ev em _ ih =>
    simp only [clean]
    rcases ih.cases' with ⟨a, b, h1, h2, h3⟩ | ⟨w, h1, h2⟩ | ⟨w, h1, h2⟩
    · rw [h1, h2]; obtain ⟨a1, a2⟩ := a; obtain ⟨b1, b2⟩ := b
      simp only [RelSP] at h3
      simp [RelSP, h3.1, h3.2]
    · rw [h1, h2]; simp
    · rw [h1, h2]; simp
  | _ => simp only [clean] <;> (repeat' split) <;> simp [RelSP]

/-! Preservation of well-formedness by every operation (consequences of the above). -/

theorem wf_insert {s : UStore} (h : HWF s) {id v s' d} (he : s.insert id v = .ok (s', d)) : HWF s' := by
  have := insert_eqv (Eqv.refl h) id v
  rw [he] at this; exact this.1.wf_left

theorem wf_poke {s : UStore} (h : HWF s) {id v s'} (he : s.poke id v = .ok s') : HWF s' := by
  have := poke_eqv (Eqv.refl h) id v
  rw [he] at this; exact Eqv.wf_left this

theorem wf_remove {s : UStore} (h : HWF s) {id s' v} (he : s.remove id = .ok (s', v)) : HWF s' := by
  have := remove_eqv (Eqv.refl h) id
  rw [he] at this; exact this.1.wf_left

theorem wf_clean {s : UStore} (h : HWF s) {has s' d} (he : s.clean has = .ok (s', d)) : HWF s' := by
  have := clean_eqv (Eqv.refl h) has
  rw [he] at this; exact this.1.wf_left

theorem wf_touch {s : UStore} (h : HWF s) (id d : Nat) : HWF (s.touch id d) :=
  (touch_eqv (Eqv.refl h) id d).wf_left

theorem wf_setEmit {s : UStore} (h : HWF s) (b : Bool) : HWF (s.setEmit b) :=
  (setEmit_eqv (Eqv.refl h) b).wf_left

end UStore
end SpecsModel

namespace SpecsModel

/-! ## Masked storages -/

/-- Equal masks, related inner storages. -/
def Masked.Eqv (m₁ m₂ : Masked) : Prop := m₁.mask = m₂.mask ∧ UStore.Eqv m₁.inner m₂.inner

/-- Well-formed masked storage. -/
def Masked.WF (m : Masked) : Prop := m.inner.HWF

/-- Related storage-level results: related storages, equal values, destroyed lists equal up to
    order. -/
def SRes.Rel {α : Type} (r₁ r₂ : SRes α) : Prop :=
  Masked.Eqv r₁.st r₂.st ∧ r₁.val = r₂.val ∧ r₁.destroyed.Perm r₂.destroyed

namespace Masked
open UStore (get_eqv touch_eqv poke_eqv insert_eqv remove_eqv clean_eqv)

theorem eqv_self_iff_wf (m : Masked) : Eqv m m ↔ WF m := by
  simp [Eqv, WF, UStore.eqv_self_iff_wf]

theorem Eqv.refl {m : Masked} (h : WF m) : Eqv m m := (eqv_self_iff_wf m).2 h
theorem Eqv.symm {m₁ m₂ : Masked} (h : Eqv m₁ m₂) : Eqv m₂ m₁ := ⟨h.1.symm, h.2.symm⟩
theorem Eqv.trans {m₁ m₂ m₃ : Masked} (h : Eqv m₁ m₂) (h' : Eqv m₂ m₃) : Eqv m₁ m₃ :=
  ⟨h.1.trans h'.1, h.2.trans h'.2⟩
theorem Eqv.wf_left {m₁ m₂ : Masked} (h : Eqv m₁ m₂) : WF m₁ := h.2.wf_left
theorem Eqv.wf_right {m₁ m₂ : Masked} (h : Eqv m₁ m₂) : WF m₂ := h.2.wf_right

theorem lift_rel {α β : Type} {R : α → α → Prop} {S : β → β → Prop} {o₁ o₂ : Out α}
    {f g : α → Out β} (h : Out.Rel R o₁ o₂) (hf : ∀ a b, R a b → Out.Rel S (f a) (g b)) :
    Out.Rel S (lift o₁ f) (lift o₂ g) := by
  rcases h.cases' with ⟨a, b, h1, h2, h3⟩ | ⟨w, h1, h2⟩ | ⟨w, h1, h2⟩
  · rw [h1, h2]; exact hf a b h3
  · rw [h1, h2]; simp [lift]
  · rw [h1, h2]; simp [lift]

theorem lift_rel_eq {α β : Type} {S : β → β → Prop} (o : Out α)
    {f g : α → Out β} (hf : ∀ a, Out.Rel S (f a) (g a)) :
    Out.Rel S (lift o f) (lift o g) := by
  cases o <;> simp [lift, hf]

variable {m₁ m₂ : Masked}

theorem get_eqv (h : Eqv m₁ m₂) (a : Alloc) (e : Entity) : m₁.get a e = m₂.get a e := by
  simp only [get, h.1, UStore.get_eqv h.2]

theorem contains_eqv (h : Eqv m₁ m₂) (a : Alloc) (e : Entity) : m₁.contains a e = m₂.contains a e := by
  simp only [contains, h.1]

theorem getOther_eqv (h : Eqv m₁ m₂) (a : Alloc) (e : Entity) : m₁.getOther a e = m₂.getOther a e :=
  get_eqv h a e

/-- `get`, `touch`, optional `poke` on the inner storage with a fixed mask: the common tail of
    `getMut` and the entry paths. -/
theorem touchWrite_rel {α : Type} {i₁ i₂ : UStore} (hi : UStore.Eqv i₁ i₂) (mask : BSet) (id derefs : Nat)
    (write : Option Int) (val : α) (d₁ d₂ : List Int) (hd : d₁.Perm d₂) :
    Out.Rel SRes.Rel
      (match write with
       | none => (.ok { st := { mask := mask, inner := i₁.touch id derefs }, val := val, destroyed := d₁ } : Out (SRes α))
       | some v => lift ((i₁.touch id derefs).poke id v) (fun inner' =>
           .ok { st := { mask := mask, inner := inner' }, val := val, destroyed := d₁ }))
      (match write with
       | none => .ok { st := { mask := mask, inner := i₂.touch id derefs }, val := val, destroyed := d₂ }
       | some v => lift ((i₂.touch id derefs).poke id v) (fun inner' =>
           .ok { st := { mask := mask, inner := inner' }, val := val, destroyed := d₂ })) := by
  cases write with
  | none => exact ⟨⟨rfl, touch_eqv hi _ _⟩, rfl, hd⟩
  | some v =>
    exact lift_rel (poke_eqv (touch_eqv hi _ _) _ _) (fun a b hab => ⟨⟨rfl, hab⟩, rfl, hd⟩)

theorem getMut_eqv (h : Eqv m₁ m₂) (a : Alloc) (e : Entity) (derefs : Nat) (write : Option Int) :
    Out.Rel SRes.Rel (m₁.getMut a e derefs write) (m₂.getMut a e derefs write) := by
  simp only [getMut, h.1, UStore.get_eqv h.2]
  split
  · apply lift_rel_eq; intro old
    exact touchWrite_rel h.2 m₂.mask e.id derefs write (some old) [] [] (.refl _)
  · exact ⟨h, rfl, .refl _⟩

theorem notPresentInsert_eqv (h : Eqv m₁ m₂) (id : Nat) (v : Int) :
    Out.Rel SRes.Rel (m₁.notPresentInsert id v) (m₂.notPresentInsert id v) := by
  simp only [notPresentInsert, h.1]
  refine lift_rel (insert_eqv h.2 id v) ?_
  rintro ⟨a1, a2⟩ ⟨b1, b2⟩ ⟨h1, h2⟩
  dsimp only at h1 h2; subst h2
  exact ⟨⟨rfl, h1⟩, rfl, .refl _⟩

theorem insert_eqv (h : Eqv m₁ m₂) (a : Alloc) (e : Entity) (v : Int) :
    Out.Rel SRes.Rel (m₁.insert a e v) (m₂.insert a e v) := by
  simp only [insert, h.1, UStore.get_eqv h.2]
  split
  · split
    · apply lift_rel_eq; intro old
      exact lift_rel (poke_eqv (touch_eqv h.2 _ _) _ _) (fun a b hab => ⟨⟨rfl, hab⟩, rfl, .refl _⟩)
    · refine lift_rel (notPresentInsert_eqv h _ _) ?_
      intro r₁ r₂ hr
      exact ⟨hr.1, rfl, hr.2.2⟩
  · exact ⟨h, rfl, .refl _⟩

theorem removeId_eqv (h : Eqv m₁ m₂) (id : Nat) :
    Out.Rel SRes.Rel (m₁.removeId id) (m₂.removeId id) := by
  simp only [removeId, h.1]
  split
  · refine lift_rel (remove_eqv h.2 id) ?_
    rintro ⟨a1, a2⟩ ⟨b1, b2⟩ ⟨h1, h2⟩
    dsimp only at h1 h2; subst h2
    exact ⟨⟨rfl, h1⟩, rfl, .refl _⟩
  · exact ⟨h, rfl, .refl _⟩

theorem remove_eqv (h : Eqv m₁ m₂) (a : Alloc) (e : Entity) :
    Out.Rel SRes.Rel (m₁.remove a e) (m₂.remove a e) := by
  simp only [remove]
  split
  · exact removeId_eqv h _
  · exact ⟨h, rfl, .refl _⟩

theorem dropId_eqv (h : Eqv m₁ m₂) (id : Nat) :
    Out.Rel SRes.Rel (m₁.dropId id) (m₂.dropId id) := by
  simp only [dropId, h.1]
  split
  · refine lift_rel (UStore.remove_eqv h.2 id) ?_
    rintro ⟨a1, a2⟩ ⟨b1, b2⟩ ⟨h1, h2⟩
    dsimp only at h1 h2; subst h2
    exact ⟨⟨rfl, h1⟩, rfl, .refl _⟩
  · exact ⟨h, rfl, .refl _⟩

theorem dropAll_eqv (es : List Entity) : ∀ {m₁ m₂ : Masked} (_ : Eqv m₁ m₂) (acc₁ acc₂ : List Int)
    (_ : acc₁.Perm acc₂), Out.Rel SRes.Rel (m₁.dropAll es acc₁) (m₂.dropAll es acc₂) := by
  induction es with
  | nil =>
    intro m₁ m₂ h acc₁ acc₂ ha
    exact ⟨h, rfl, (List.reverse_perm _).trans (ha.trans (List.reverse_perm _).symm)⟩
  | cons e es ih =>
    intro m₁ m₂ h acc₁ acc₂ ha
    simp only [dropAll]
    refine lift_rel (dropId_eqv h e.id) ?_
    intro r₁ r₂ hr
    exact ih hr.1 _ _
      ((((List.reverse_perm _).trans hr.2.2).trans (List.reverse_perm _).symm).append ha)

theorem clear_eqv (h : Eqv m₁ m₂) : Out.Rel SRes.Rel m₁.clear m₂.clear := by
  simp only [clear, h.1]
  refine lift_rel (clean_eqv h.2 _) ?_
  rintro ⟨a1, a2⟩ ⟨b1, b2⟩ ⟨h1, h2⟩
  exact ⟨⟨rfl, h1⟩, rfl, h2⟩

theorem drainLoop_eqv (ids : List Nat) : ∀ {m₁ m₂ : Masked} (_ : Eqv m₁ m₂) (n : Nat)
    (acc : List (Nat × Int)), Out.Rel SRes.Rel (m₁.drainLoop ids n acc) (m₂.drainLoop ids n acc) := by
  induction ids with
  | nil => intro m₁ m₂ h n acc; simp only [drainLoop]; exact ⟨h, rfl, .refl _⟩
  | cons id ids ih =>
    intro m₁ m₂ h n acc
    cases n with
    | zero => simp only [drainLoop]; exact ⟨h, rfl, .refl _⟩
    | succ n =>
      simp only [drainLoop]
      refine lift_rel (removeId_eqv h id) ?_
      intro r₁ r₂ hr
      rw [hr.2.1]
      split
      · exact ih hr.1 _ _
      · simp

theorem drain_eqv (h : Eqv m₁ m₂) (n : Nat) : Out.Rel SRes.Rel (m₁.drain n) (m₂.drain n) := by
  simp only [drain, h.1]
  exact drainLoop_eqv _ h _ _

theorem entry_eqv (h : Eqv m₁ m₂) (a : Alloc) (e : Entity) (op : EntryOp) :
    Out.Rel SRes.Rel (m₁.entry a e op) (m₂.entry a e op) := by
  simp only [entry, h.1, UStore.get_eqv h.2]
  split
  · split
    · cases op with
      | orInsert v0 derefs write =>
        dsimp only
        apply lift_rel_eq; intro old
        exact touchWrite_rel h.2 m₂.mask e.id derefs write (EntryRes.occupied old) [v0] [v0] (.refl _)
      | replace v =>
        dsimp only
        apply lift_rel_eq; intro old
        exact lift_rel (poke_eqv (touch_eqv h.2 _ _) _ _) (fun a b hab => ⟨⟨rfl, hab⟩, rfl, .refl _⟩)
      | remove =>
        dsimp only
        refine lift_rel (removeId_eqv h _) ?_
        intro r₁ r₂ hr
        rw [hr.2.1]
        split
        · exact ⟨hr.1, rfl, .refl _⟩
        · simp
    · cases op with
      | orInsert v derefs write =>
        dsimp only
        refine lift_rel (notPresentInsert_eqv h _ _) ?_
        intro r₁ r₂ hr
        have := touchWrite_rel hr.1.2 r₂.st.mask e.id derefs write EntryRes.vacant _ _ hr.2.2
        simp only [hr.1.1]
        exact this
      | replace v =>
        dsimp only
        refine lift_rel (notPresentInsert_eqv h _ _) ?_
        intro r₁ r₂ hr
        exact ⟨⟨hr.1.1, touch_eqv hr.1.2 _ _⟩, rfl, hr.2.2⟩
      | remove => exact ⟨h, rfl, .refl _⟩
  · exact ⟨h, rfl, .refl _⟩

theorem getMutOrDefault_eqv (h : Eqv m₁ m₂) (a : Alloc) (e : Entity) (derefs : Nat)
    (write : Option Int) :
    Out.Rel SRes.Rel (m₁.getMutOrDefault a e derefs write) (m₂.getMutOrDefault a e derefs write) := by
  simp only [getMutOrDefault, contains_eqv h]
  split
  · refine lift_rel (insert_eqv h a e 0) ?_
    intro r₁ r₂ hr
    rw [hr.2.1]
    split
    · exact ⟨hr.1, rfl, hr.2.2⟩
    · refine lift_rel (getMut_eqv hr.1 a e derefs write) ?_
      intro q₁ q₂ hq
      exact ⟨hq.1, hq.2.1, hr.2.2.append hq.2.2⟩
  · exact getMut_eqv h a e derefs write

end Masked
end SpecsModel

namespace SpecsModel

/-! ## Worlds -/

/-- `none` with `none`, `some` with related `some`. -/
def ORel {α : Type} (R : α → α → Prop) : Option α → Option α → Prop
  | none, none => True
  | some a, some b => R a b
  | _, _ => False

namespace World

/-- Two worlds that differ only in the internal order of their hash-map storages and in the order
    of the destruction ledger. -/
structure Eqv (w₁ w₂ : World) : Prop where
  ent : w₁.ent = w₂.ent
  size : w₁.stores.size = w₂.stores.size
  stores : ∀ k, ORel Masked.Eqv (w₁.store? k) (w₂.store? k)
  table : w₁.table = w₂.table
  queue : w₁.queue = w₂.queue
  cursors : w₁.cursors = w₂.cursors
  nextTag : w₁.nextTag = w₂.nextTag
  ledger : w₁.ledger.Perm w₂.ledger
  trace : w₁.trace = w₂.trace

/-- Every registered storage is well-formed. -/
def WF (w : World) : Prop := ∀ k m, w.store? k = some m → m.WF

/-- Related (world, result) pairs: related worlds, equal results. -/
def PRel {β : Type} (p q : World × β) : Prop := Eqv p.1 q.1 ∧ p.2 = q.2

theorem eqv_self_iff_wf (w : World) : Eqv w w ↔ WF w := by
  constructor
  · intro h k m hm
    have := h.stores k
    rw [hm] at this
    exact (Masked.eqv_self_iff_wf m).1 this
  · intro h
    refine ⟨rfl, rfl, ?_, rfl, rfl, rfl, rfl, .refl _, rfl⟩
    intro k
    cases hm : w.store? k with
    | none => trivial
    | some m => exact Masked.Eqv.refl (h k m hm)

theorem Eqv.refl {w : World} (h : WF w) : Eqv w w := (eqv_self_iff_wf w).2 h

theorem Eqv.symm {w₁ w₂ : World} (h : Eqv w₁ w₂) : Eqv w₂ w₁ := by
  refine ⟨h.ent.symm, h.size.symm, ?_, h.table.symm, h.queue.symm, h.cursors.symm, h.nextTag.symm,
    h.ledger.symm, h.trace.symm⟩
  intro k
  have := h.stores k
  cases h1 : w₁.store? k <;> cases h2 : w₂.store? k <;> simp_all [ORel]
  exact this.symm

theorem Eqv.trans {w₁ w₂ w₃ : World} (h : Eqv w₁ w₂) (h' : Eqv w₂ w₃) : Eqv w₁ w₃ := by
  refine ⟨h.ent.trans h'.ent, h.size.trans h'.size, ?_, h.table.trans h'.table,
    h.queue.trans h'.queue, h.cursors.trans h'.cursors, h.nextTag.trans h'.nextTag,
    h.ledger.trans h'.ledger, h.trace.trans h'.trace⟩
  intro k
  have a := h.stores k
  have b := h'.stores k
  cases h1 : w₁.store? k <;> cases h2 : w₂.store? k <;> cases h3 : w₃.store? k <;> simp_all [ORel]
  exact a.trans b

theorem Eqv.wf_left {w₁ w₂ : World} (h : Eqv w₁ w₂) : WF w₁ := (eqv_self_iff_wf _).1 (h.trans h.symm)
theorem Eqv.wf_right {w₁ w₂ : World} (h : Eqv w₁ w₂) : WF w₂ := (eqv_self_iff_wf _).1 (h.symm.trans h)

theorem wf_empty : WF ({} : World) := by
  intro k m hm
  simp only [store?, Array.getElem?_replicate] at hm
  split at hm <;> simp at hm

theorem eqv_empty : Eqv ({} : World) {} := Eqv.refl wf_empty

variable {w₁ w₂ : World}

theorem Eqv.store_cases (h : Eqv w₁ w₂) (k : Nat) :
    (w₁.store? k = none ∧ w₂.store? k = none) ∨
    ∃ m₁ m₂, w₁.store? k = some m₁ ∧ w₂.store? k = some m₂ ∧ Masked.Eqv m₁ m₂ := by
  have := h.stores k
  cases h1 : w₁.store? k <;> cases h2 : w₂.store? k <;> simp_all [ORel]

theorem Eqv.isNone_store (h : Eqv w₁ w₂) (k : Nat) : (w₁.store? k).isNone = (w₂.store? k).isNone := by
  rcases h.store_cases k with ⟨h1, h2⟩ | ⟨m₁, m₂, h1, h2, _⟩ <;> simp [h1, h2]

theorem store?_setStore_ite (w : World) (k : Nat) (m : Masked) (k' : Nat) :
    (w.setStore k m).store? k' = if k' = k ∧ k < w.stores.size then some m else w.store? k' := by
  simp only [store?, setStore, Array.getElem?_setIfInBounds]
  by_cases hk : k = k'
  · subst hk
    by_cases hlt : k < w.stores.size
    · simp [hlt]
    · simp [hlt]
  · have : ¬ k' = k := fun h => hk h.symm
    simp [hk, this]

theorem Eqv.setStore (h : Eqv w₁ w₂) (k : Nat) {m₁ m₂ : Masked} (hm : Masked.Eqv m₁ m₂) :
    Eqv (w₁.setStore k m₁) (w₂.setStore k m₂) := by
  refine ⟨h.ent, ?_, ?_, h.table, h.queue, h.cursors, h.nextTag, h.ledger, h.trace⟩
  · simp [World.setStore, h.size]
  · intro k'
    rw [store?_setStore_ite, store?_setStore_ite, h.size]
    split
    · exact hm
    · exact h.stores k'

theorem Eqv.destroy (h : Eqv w₁ w₂) {d₁ d₂ : List Int} (hd : d₁.Perm d₂) :
    Eqv (w₁.destroy d₁) (w₂.destroy d₂) :=
  { h with ledger := (((List.reverse_perm _).trans hd).trans (List.reverse_perm _).symm).append h.ledger }

theorem Eqv.withEnt (h : Eqv w₁ w₂) (e : EWorld) : Eqv { w₁ with ent := e } { w₂ with ent := e } :=
  { h with ent := rfl }

theorem Eqv.withTrace (h : Eqv w₁ w₂) (t : List (Nat × WOp × WRes)) :
    Eqv { w₁ with trace := t } { w₂ with trace := t } :=
  { h with trace := rfl }

theorem Eqv.withQueue (h : Eqv w₁ w₂) (q : List LazyAct) :
    Eqv { w₁ with queue := q } { w₂ with queue := q } :=
  { h with queue := rfl }

theorem Eqv.withCursors (h : Eqv w₁ w₂) (c : Array Nat) :
    Eqv { w₁ with cursors := c } { w₂ with cursors := c } :=
  { h with cursors := rfl }

theorem Eqv.withQueueTag (h : Eqv w₁ w₂) (q : List LazyAct) (t : Nat) :
    Eqv { w₁ with queue := q, nextTag := t } { w₂ with queue := q, nextTag := t } :=
  { h with queue := rfl, nextTag := rfl }

theorem _root_.SpecsModel.Masked.Eqv.withInner {m₁ m₂ : Masked} (h : Masked.Eqv m₁ m₂) {i₁ i₂ : UStore}
    (hi : UStore.Eqv i₁ i₂) : Masked.Eqv { m₁ with inner := i₁ } { m₂ with inner := i₂ } := ⟨h.1, hi⟩

/-! ### The building blocks of `step` -/

theorem applyS_eqv {α : Type} (h : Eqv w₁ w₂) (k : Nat) {o₁ o₂ : Out (SRes α)}
    (ho : Out.Rel SRes.Rel o₁ o₂) (f : α → WRes) : PRel (w₁.applyS k o₁ f) (w₂.applyS k o₂ f) := by
  rcases ho.cases' with ⟨a, b, h1, h2, h3⟩ | ⟨w, h1, h2⟩ | ⟨w, h1, h2⟩
  · simp only [h1, h2]
    exact ⟨(h.setStore k h3.1).destroy h3.2.2, by simp only [applyS, h3.2.1]⟩
  · simp only [h1, h2]; exact ⟨h, rfl⟩
  · simp only [h1, h2]; exact ⟨h, rfl⟩

theorem regTable_eqv (h : Eqv w₁ w₂) (k : Nat) :
    Eqv (if w₁.table.contains k then w₁ else { w₁ with table := w₁.table ++ [k] })
        (if w₂.table.contains k then w₂ else { w₂ with table := w₂.table ++ [k] }) := by
  rw [h.table]
  split
  · exact h
  · exact { h with table := rfl }

theorem register_eqv (h : Eqv w₁ w₂) (k : Nat) : Eqv (w₁.register k) (w₂.register k) := by
  simp only [register]
  split
  · rcases h.store_cases k with ⟨h1, h2⟩ | ⟨m₁, m₂, h1, h2, _⟩
    · simp only [h1, h2]
      exact regTable_eqv (h.setStore k (Masked.Eqv.refl (m := ⟨.empty, newStore k⟩) (UStore.wf_newStore k))) k
    · simp only [h1, h2]
      exact regTable_eqv h k
  · exact h

theorem deleteComponents_eqv (es : List Entity) (ks : List Nat) :
    ∀ {w₁ w₂ : World}, Eqv w₁ w₂ →
      Out.Rel Eqv (w₁.deleteComponents es ks) (w₂.deleteComponents es ks) := by
  induction ks with
  | nil => intro w₁ w₂ h; exact h
  | cons k ks ih =>
    intro w₁ w₂ h
    simp only [deleteComponents]
    rcases h.store_cases k with ⟨h1, h2⟩ | ⟨m₁, m₂, h1, h2, hm⟩
    · simp only [h1, h2]; exact ih h
    · simp only [h1, h2]
      rcases (Masked.dropAll_eqv es hm [] [] (.refl _)).cases' with
        ⟨a, b, e1, e2, e3⟩ | ⟨w, e1, e2⟩ | ⟨w, e1, e2⟩
      · simp only [e1, e2]; exact ih ((h.setStore k e3.1).destroy e3.2.2)
      · simp only [e1, e2]; simp
      · simp only [e1, e2]; simp

theorem deleteEntities_tail (h : Eqv w₁ w₂) (purged : List Entity) (r : Alloc.KillRes) :
    PRel (match w₁.deleteComponents purged w₁.table with
          | .ok w' => (w', WRes.e (.kill r))
          | .panic why => (w₁, .panic why)
          | .ub why => (w₁, .panic ("UB: " ++ why)))
         (match w₂.deleteComponents purged w₂.table with
          | .ok w' => (w', WRes.e (.kill r))
          | .panic why => (w₂, .panic why)
          | .ub why => (w₂, .panic ("UB: " ++ why))) := by
  rw [h.table]
  rcases (deleteComponents_eqv purged w₂.table h).cases' with
    ⟨x, y, e1, e2, e3⟩ | ⟨w, e1, e2⟩ | ⟨w, e1, e2⟩
  · simp only [e1, e2]; exact ⟨e3, rfl⟩
  · simp only [e1, e2]; exact ⟨h, rfl⟩
  · simp only [e1, e2]; exact ⟨h, rfl⟩

theorem deleteEntities_eqv (h : Eqv w₁ w₂) (es : List Entity) :
    PRel (w₁.deleteEntities es) (w₂.deleteEntities es) := by
  unfold deleteEntities
  rw [h.ent]
  cases hk : w₂.ent.alloc.kill es with
  | ok p =>
    obtain ⟨a, r⟩ := p
    exact deleteEntities_tail (h.withEnt _) _ r
  | panic w => exact ⟨h, rfl⟩
  | ub w => exact ⟨h, rfl⟩

theorem buildComps_eqv (e : Entity) (comps : List (Nat × Int)) :
    ∀ {w₁ w₂ : World}, Eqv w₁ w₂ → Out.Rel Eqv (w₁.buildComps e comps) (w₂.buildComps e comps) := by
  induction comps with
  | nil => intro w₁ w₂ h; exact h
  | cons kv cs ih =>
    intro w₁ w₂ h
    obtain ⟨k, v⟩ := kv
    simp only [buildComps, h.ent]
    rcases h.store_cases k with ⟨h1, h2⟩ | ⟨m₁, m₂, h1, h2, hm⟩
    · simp only [h1, h2]; simp
    · simp only [h1, h2]
      rcases (Masked.insert_eqv hm w₂.ent.alloc e v).cases' with
        ⟨a, b, e1, e2, e3⟩ | ⟨w, e1, e2⟩ | ⟨w, e1, e2⟩
      · simp only [e1, e2]; rw [e3.2.1]
        split
        · simp
        · exact ih ((h.setStore k e3.1).destroy (List.Perm.append e3.2.2 (List.Perm.refl _)))
      · simp only [e1, e2]; simp
      · simp only [e1, e2]; simp

theorem any_isNone_eqv (h : Eqv w₁ w₂) (comps : List (Nat × Int)) :
    comps.any (fun kv => (w₁.store? kv.1).isNone) = comps.any (fun kv => (w₂.store? kv.1).isNone) := by
  congr 1; funext kv; exact h.isNone_store kv.1

theorem createWith_eqv (h : Eqv w₁ w₂) (atomic dropped : Bool) (comps : List (Nat × Int)) :
    PRel (w₁.createWith atomic dropped comps) (w₂.createWith atomic dropped comps) := by
  simp only [createWith, any_isNone_eqv h, h.ent]
  split
  · exact ⟨h, rfl⟩
  · split
    · rename_i ew e _
      rcases (buildComps_eqv e comps (h.withEnt ew)).cases' with
        ⟨x, y, e1, e2, e3⟩ | ⟨w, e1, e2⟩ | ⟨w, e1, e2⟩
      · simp only [e1, e2]
        split
        · rw [e3.ent]
          split
          · exact ⟨e3.withEnt _, rfl⟩
          · exact ⟨e3, rfl⟩
          · exact ⟨e3, rfl⟩
          · exact ⟨e3, rfl⟩
        · exact ⟨e3, rfl⟩
      · simp only [e1, e2]; exact ⟨h.withEnt ew, rfl⟩
      · simp only [e1, e2]; exact ⟨h.withEnt ew, rfl⟩
    · exact ⟨h.withEnt _, rfl⟩

theorem enqueue_eqv (h : Eqv w₁ w₂) (mk : Nat → LazyAct) : PRel (w₁.enqueue mk) (w₂.enqueue mk) := by
  simp only [enqueue, h.queue, h.nextTag]
  exact ⟨h.withQueueTag _ _, rfl⟩

theorem sliceView_eqv {m₁ m₂ : Masked} (h : Masked.Eqv m₁ m₂) : sliceView m₁ = sliceView m₂ := by
  obtain ⟨k₁, i₁⟩ := m₁
  obtain ⟨k₂, i₂⟩ := m₂
  obtain ⟨hk, hi⟩ := h
  dsimp only at hk hi
  subst hk
  cases hi.toI <;> simp [sliceView, UStore.asSlice]

theorem rjoinLoop_eqv (k : Nat) (mutable : Bool) (ids : List Nat) :
    ∀ {w₁ w₂ : World}, Eqv w₁ w₂ → ∀ (acts : List RAct) (acc : List (Nat × ItemRes)),
      PRel (rjoinLoop w₁ k mutable ids acts acc) (rjoinLoop w₂ k mutable ids acts acc) := by
  induction ids with
  | nil => intro w₁ w₂ h acts acc; exact ⟨h, rfl⟩
  | cons id ids ih =>
    intro w₁ w₂ h acts acc
    simp only [rjoinLoop, h.ent]
    rcases h.store_cases k with ⟨h1, h2⟩ | ⟨m₁, m₂, h1, h2, hm⟩
    · simp only [h1, h2]; exact ⟨h, rfl⟩
    · simp only [h1, h2]
      cases acts.head?.getD .skip with
      | skip => exact ih h _ _
      | get =>
        dsimp only
        rw [UStore.get_eqv hm.2]
        split
        · exact ih h _ _
        · exact ⟨h, rfl⟩
        · exact ⟨h, rfl⟩
      | getMut derefs write =>
        dsimp only
        split
        · exact ih h _ _
        · rw [UStore.get_eqv hm.2]
          split
          · cases write with
            | none =>
              dsimp only
              exact ih (h.setStore k (hm.withInner (UStore.touch_eqv hm.2 _ _))) _ _
            | some v =>
              dsimp only
              rcases (UStore.poke_eqv (UStore.touch_eqv hm.2 id derefs) id v).cases' with
                ⟨a, b, e1, e2, e3⟩ | ⟨w, e1, e2⟩ | ⟨w, e1, e2⟩
              · simp only [e1, e2]; exact ih (h.setStore k (hm.withInner e3)) _ _
              · simp only [e1, e2]; exact ⟨h, rfl⟩
              · simp only [e1, e2]; exact ⟨h, rfl⟩
          · exact ⟨h, rfl⟩
          · exact ⟨h, rfl⟩
      | getOther hh =>
        dsimp only
        split
        · exact ih h _ _
        · rw [Masked.getOther_eqv hm]
          split
          · exact ih h _ _
          · exact ⟨h, rfl⟩
          · exact ⟨h, rfl⟩
      | getOtherMut hh derefs write =>
        dsimp only
        split
        · exact ih h _ _
        · split
          · exact ih h _ _
          · rename_i e _
            rcases (Masked.getMut_eqv hm w₂.ent.alloc e derefs write).cases' with
              ⟨a, b, e1, e2, e3⟩ | ⟨w, e1, e2⟩ | ⟨w, e1, e2⟩
            · simp only [e1, e2]; rw [e3.2.1]; exact ih (h.setStore k e3.1) _ _
            · simp only [e1, e2]; exact ⟨h, rfl⟩
            · simp only [e1, e2]; exact ⟨h, rfl⟩

theorem dropStores_eqv (h : Eqv w₁ w₂) (ks : List Nat) :
    ∀ (acc₁ acc₂ : List Int), acc₁.Perm acc₂ →
      Out.Rel List.Perm (w₁.dropStores ks acc₁) (w₂.dropStores ks acc₂) := by
  induction ks with
  | nil => intro acc₁ acc₂ ha; exact ha
  | cons k ks ih =>
    intro acc₁ acc₂ ha
    simp only [dropStores]
    rcases h.store_cases k with ⟨h1, h2⟩ | ⟨m₁, m₂, h1, h2, hm⟩
    · simp only [h1, h2]; exact ih _ _ ha
    · simp only [h1, h2]
      rcases (Masked.clear_eqv hm).cases' with ⟨a, b, e1, e2, e3⟩ | ⟨w, e1, e2⟩ | ⟨w, e1, e2⟩
      · simp only [e1, e2]; exact ih _ _ (ha.append e3.2.2)
      · simp only [e1, e2]; simp
      · simp only [e1, e2]; simp

theorem lazyCreateFold_eqv (e : Entity) (comps : List (Nat × Int)) :
    ∀ {w₁ w₂ : World}, Eqv w₁ w₂ →
      Eqv (comps.foldl (fun (w : World) (kv : Nat × Int) =>
            { w with queue := w.queue ++ [.ins w.nextTag kv.1 e kv.2], nextTag := w.nextTag + 1 }) w₁)
          (comps.foldl (fun (w : World) (kv : Nat × Int) =>
            { w with queue := w.queue ++ [.ins w.nextTag kv.1 e kv.2], nextTag := w.nextTag + 1 }) w₂) := by
  induction comps with
  | nil => intro w₁ w₂ h; exact h
  | cons kv cs ih =>
    intro w₁ w₂ h
    simp only [List.foldl_cons]
    apply ih
    rw [h.queue, h.nextTag]
    exact h.withQueueTag _ _

end World
end SpecsModel

namespace SpecsModel
namespace World

variable {w₁ w₂ : World}

/-! ### `step`, one op group at a time (all but `merge` are independent of `fuel`) -/

theorem step_get_eqv (fuel : Nat) (hE : Eqv w₁ w₂) (k h : Nat) :
    PRel (step fuel w₁ (.get k h)) (step fuel w₂ (.get k h)) := by
  simp only [step, hE.ent]
  rcases hE.store_cases k with ⟨h1, h2⟩ | ⟨m₁, m₂, h1, h2, hm⟩
  · simp only [h1, h2]; exact ⟨hE, rfl⟩
  · cases hr : resolve w₂.ent.log h with
    | none => simp only [h1, h2]; exact ⟨hE, rfl⟩
    | some e =>
      simp only [h1, h2, Masked.get_eqv hm]
      split <;> exact ⟨hE, rfl⟩

theorem step_has_eqv (fuel : Nat) (hE : Eqv w₁ w₂) (k h : Nat) :
    PRel (step fuel w₁ (.has k h)) (step fuel w₂ (.has k h)) := by
  simp only [step, hE.ent]
  rcases hE.store_cases k with ⟨h1, h2⟩ | ⟨m₁, m₂, h1, h2, hm⟩
  · simp only [h1, h2]; exact ⟨hE, rfl⟩
  · cases hr : resolve w₂.ent.log h with
    | none => simp only [h1, h2]; exact ⟨hE, rfl⟩
    | some e =>
      simp only [h1, h2, Masked.contains_eqv hm]
      exact ⟨hE, rfl⟩

/-- The shared shape of the handle-taking storage ops that go through `applyS`. -/
theorem step_applyS_shape {α : Type} (hE : Eqv w₁ w₂) (k h : Nat)
    (g : Masked → Alloc → Entity → Out (SRes α))
    (hg : ∀ m₁ m₂ a e, Masked.Eqv m₁ m₂ → Out.Rel SRes.Rel (g m₁ a e) (g m₂ a e)) (f : α → WRes) :
    PRel (match w₁.store? k, resolve w₁.ent.log h with
          | none, _ => (w₁, WRes.noStore)
          | _, none => (w₁, WRes.skip)
          | some m, some e => w₁.applyS k (g m w₁.ent.alloc e) f)
         (match w₂.store? k, resolve w₂.ent.log h with
          | none, _ => (w₂, WRes.noStore)
          | _, none => (w₂, WRes.skip)
          | some m, some e => w₂.applyS k (g m w₂.ent.alloc e) f) := by
  rw [hE.ent]
  rcases hE.store_cases k with ⟨h1, h2⟩ | ⟨m₁, m₂, h1, h2, hm⟩
  · simp only [h1, h2]; exact ⟨hE, rfl⟩
  · cases hr : resolve w₂.ent.log h with
    | none => simp only [h1, h2]; exact ⟨hE, rfl⟩
    | some e =>
      simp only [h1, h2]
      exact applyS_eqv hE k (hg _ _ _ _ hm) f

theorem step_getMut_eqv (fuel : Nat) (hE : Eqv w₁ w₂) (k h d : Nat) (wr : Option Int) :
    PRel (step fuel w₁ (.getMut k h d wr)) (step fuel w₂ (.getMut k h d wr)) := by
  simp only [step]
  exact step_applyS_shape hE k h (fun m a e => m.getMut a e d wr)
    (fun _ _ a e hm => Masked.getMut_eqv hm a e d wr) _

theorem step_ins_eqv (fuel : Nat) (hE : Eqv w₁ w₂) (k h : Nat) (v : Int) :
    PRel (step fuel w₁ (.ins k h v)) (step fuel w₂ (.ins k h v)) := by
  simp only [step]
  exact step_applyS_shape hE k h (fun m a e => m.insert a e v)
    (fun _ _ a e hm => Masked.insert_eqv hm a e v) _

theorem step_rem_eqv (fuel : Nat) (hE : Eqv w₁ w₂) (k h : Nat) :
    PRel (step fuel w₁ (.rem k h)) (step fuel w₂ (.rem k h)) := by
  simp only [step]
  exact step_applyS_shape hE k h (fun m a e => m.remove a e)
    (fun _ _ a e hm => Masked.remove_eqv hm a e) _

theorem step_entry_eqv (fuel : Nat) (hE : Eqv w₁ w₂) (k h : Nat) (op : Masked.EntryOp) :
    PRel (step fuel w₁ (.entry k h op)) (step fuel w₂ (.entry k h op)) := by
  simp only [step]
  exact step_applyS_shape hE k h (fun m a e => m.entry a e op)
    (fun _ _ a e hm => Masked.entry_eqv hm a e op) _

theorem step_mutOrDefault_eqv (fuel : Nat) (hE : Eqv w₁ w₂) (k h d : Nat) (wr : Option Int) :
    PRel (step fuel w₁ (.mutOrDefault k h d wr)) (step fuel w₂ (.mutOrDefault k h d wr)) := by
  simp only [step]
  exact step_applyS_shape hE k h (fun m a e => m.getMutOrDefault a e d wr)
    (fun _ _ a e hm => Masked.getMutOrDefault_eqv hm a e d wr) _

theorem step_count_eqv (fuel : Nat) (hE : Eqv w₁ w₂) (k : Nat) :
    PRel (step fuel w₁ (.count k)) (step fuel w₂ (.count k)) := by
  simp only [step]
  rcases hE.store_cases k with ⟨h1, h2⟩ | ⟨m₁, m₂, h1, h2, hm⟩
  · simp only [h1, h2]; exact ⟨hE, rfl⟩
  · simp only [h1, h2, hm.1]; exact ⟨hE, rfl⟩

theorem step_isEmpty_eqv (fuel : Nat) (hE : Eqv w₁ w₂) (k : Nat) :
    PRel (step fuel w₁ (.isEmpty k)) (step fuel w₂ (.isEmpty k)) := by
  simp only [step]
  rcases hE.store_cases k with ⟨h1, h2⟩ | ⟨m₁, m₂, h1, h2, hm⟩
  · simp only [h1, h2]; exact ⟨hE, rfl⟩
  · simp only [h1, h2, hm.1]; exact ⟨hE, rfl⟩

theorem step_mask_eqv (fuel : Nat) (hE : Eqv w₁ w₂) (k : Nat) :
    PRel (step fuel w₁ (.mask k)) (step fuel w₂ (.mask k)) := by
  simp only [step]
  rcases hE.store_cases k with ⟨h1, h2⟩ | ⟨m₁, m₂, h1, h2, hm⟩
  · simp only [h1, h2]; exact ⟨hE, rfl⟩
  · simp only [h1, h2, hm.1]; exact ⟨hE, rfl⟩

theorem step_clear_eqv (fuel : Nat) (hE : Eqv w₁ w₂) (k : Nat) :
    PRel (step fuel w₁ (.clear k)) (step fuel w₂ (.clear k)) := by
  simp only [step]
  rcases hE.store_cases k with ⟨h1, h2⟩ | ⟨m₁, m₂, h1, h2, hm⟩
  · simp only [h1, h2]; exact ⟨hE, rfl⟩
  · simp only [h1, h2]; exact applyS_eqv hE k (Masked.clear_eqv hm) _

theorem step_drain_eqv (fuel : Nat) (hE : Eqv w₁ w₂) (k n : Nat) :
    PRel (step fuel w₁ (.drain k n)) (step fuel w₂ (.drain k n)) := by
  simp only [step]
  rcases hE.store_cases k with ⟨h1, h2⟩ | ⟨m₁, m₂, h1, h2, hm⟩
  · simp only [h1, h2]; exact ⟨hE, rfl⟩
  · simp only [h1, h2]; exact applyS_eqv hE k (Masked.drain_eqv hm n) _

theorem step_slice_eqv (fuel : Nat) (hE : Eqv w₁ w₂) (k : Nat) :
    PRel (step fuel w₁ (.slice k)) (step fuel w₂ (.slice k)) := by
  simp only [step]
  rcases hE.store_cases k with ⟨h1, h2⟩ | ⟨m₁, m₂, h1, h2, hm⟩
  · simp only [h1, h2]; exact ⟨hE, rfl⟩
  · simp only [h1, h2, sliceView_eqv hm]; exact ⟨hE, rfl⟩

theorem step_emit_eqv (fuel : Nat) (hE : Eqv w₁ w₂) (k : Nat) (b : Bool) :
    PRel (step fuel w₁ (.emit k b)) (step fuel w₂ (.emit k b)) := by
  simp only [step]
  rcases hE.store_cases k with ⟨h1, h2⟩ | ⟨m₁, m₂, h1, h2, hm⟩
  · simp only [h1, h2]; exact ⟨hE, rfl⟩
  · simp only [h1, h2]
    exact ⟨hE.setStore k (hm.withInner (UStore.setEmit_eqv hm.2 b)), rfl⟩

theorem step_events_eqv (fuel : Nat) (hE : Eqv w₁ w₂) (k : Nat) :
    PRel (step fuel w₁ (.events k)) (step fuel w₂ (.events k)) := by
  simp only [step]
  rcases hE.store_cases k with ⟨h1, h2⟩ | ⟨m₁, m₂, h1, h2, hm⟩
  · simp only [h1, h2]; exact ⟨hE, rfl⟩
  · simp only [h1, h2, UStore.events_eqv hm.2, hE.cursors]
    split
    · exact ⟨hE, rfl⟩
    · exact ⟨hE.withCursors _, rfl⟩

theorem step_lazyIns_eqv (fuel : Nat) (hE : Eqv w₁ w₂) (k h : Nat) (v : Int) :
    PRel (step fuel w₁ (.lazyIns k h v)) (step fuel w₂ (.lazyIns k h v)) := by
  simp only [step, hE.ent]
  rcases hE.store_cases k with ⟨h1, h2⟩ | ⟨m₁, m₂, h1, h2, hm⟩
  · simp only [h1, h2]; exact ⟨hE, rfl⟩
  · cases hr : resolve w₂.ent.log h with
    | none => simp only [h1, h2]; exact ⟨hE, rfl⟩
    | some e => simp only [h1, h2]; exact enqueue_eqv hE _

theorem step_lazyRem_eqv (fuel : Nat) (hE : Eqv w₁ w₂) (k h : Nat) :
    PRel (step fuel w₁ (.lazyRem k h)) (step fuel w₂ (.lazyRem k h)) := by
  simp only [step, hE.ent]
  rcases hE.store_cases k with ⟨h1, h2⟩ | ⟨m₁, m₂, h1, h2, hm⟩
  · simp only [h1, h2]; exact ⟨hE, rfl⟩
  · cases hr : resolve w₂.ent.log h with
    | none => simp only [h1, h2]; exact ⟨hE, rfl⟩
    | some e => simp only [h1, h2]; exact enqueue_eqv hE _

theorem step_lazyInsAll_eqv (fuel : Nat) (hE : Eqv w₁ w₂) (k : Nat) (items : List (Nat × Int)) :
    PRel (step fuel w₁ (.lazyInsAll k items)) (step fuel w₂ (.lazyInsAll k items)) := by
  simp only [step, hE.ent]
  rcases hE.store_cases k with ⟨h1, h2⟩ | ⟨m₁, m₂, h1, h2, hm⟩
  · simp only [h1, h2]; exact ⟨hE, rfl⟩
  · cases hr : resolveAll w₂.ent.log (items.map (·.1)) with
    | none => simp only [h1, h2]; exact ⟨hE, rfl⟩
    | some es => simp only [h1, h2]; exact enqueue_eqv hE _

theorem step_lazyExec_eqv (fuel : Nat) (hE : Eqv w₁ w₂) (script : List WOp) :
    PRel (step fuel w₁ (.lazyExec script)) (step fuel w₂ (.lazyExec script)) := by
  simp only [step]; exact enqueue_eqv hE _

theorem step_lazyCreate_eqv (fuel : Nat) (hE : Eqv w₁ w₂) (comps : List (Nat × Int)) :
    PRel (step fuel w₁ (.lazyCreate comps)) (step fuel w₂ (.lazyCreate comps)) := by
  simp only [step, any_isNone_eqv hE, hE.ent]
  split
  · exact ⟨hE, rfl⟩
  · split
    · rename_i ew e _
      exact ⟨lazyCreateFold_eqv e comps (hE.withEnt ew), rfl⟩
    · exact ⟨hE.withEnt _, rfl⟩

theorem step_reg_eqv (fuel : Nat) (hE : Eqv w₁ w₂) (k p : Nat) :
    PRel (step fuel w₁ (.reg k p)) (step fuel w₂ (.reg k p)) := by
  simp only [step]; exact ⟨register_eqv hE k, rfl⟩

theorem step_createWith_eqv (fuel : Nat) (hE : Eqv w₁ w₂) (a d : Bool) (comps : List (Nat × Int)) :
    PRel (step fuel w₁ (.createWith a d comps)) (step fuel w₂ (.createWith a d comps)) := by
  simp only [step]; exact createWith_eqv hE a d comps

theorem step_rjoin_eqv (fuel : Nat) (hE : Eqv w₁ w₂) (k : Nat) (mutable : Bool) (acts : List RAct) :
    PRel (step fuel w₁ (.rjoin k mutable acts)) (step fuel w₂ (.rjoin k mutable acts)) := by
  simp only [step]
  rcases hE.store_cases k with ⟨h1, h2⟩ | ⟨m₁, m₂, h1, h2, hm⟩
  · simp only [h1, h2]; exact ⟨hE, rfl⟩
  · simp only [h1, h2, hm.1]; exact rjoinLoop_eqv k mutable _ hE acts []

theorem step_dropWorld_eqv (fuel : Nat) (hE : Eqv w₁ w₂) :
    PRel (step fuel w₁ .dropWorld) (step fuel w₂ .dropWorld) := by
  simp only [step, hE.table, hE.queue]
  rcases (dropStores_eqv hE w₂.table [] [] (.refl _)).cases' with
    ⟨a, b, e1, e2, e3⟩ | ⟨w, e1, e2⟩ | ⟨w, e1, e2⟩
  · simp only [e1, e2]
    refine ⟨⟨hE.ent, rfl, ?_, rfl, rfl, hE.cursors, hE.nextTag, ?_, hE.trace⟩, rfl⟩
    · intro k; exact (Eqv.refl wf_empty).stores k
    · exact (((List.reverse_perm _).trans (e3.append_right _)).trans
        (List.reverse_perm _).symm).append hE.ledger
  · simp only [e1, e2]; exact ⟨hE, rfl⟩
  · simp only [e1, e2]; exact ⟨hE, rfl⟩

/-- Entity ops other than `merge` (which needs `maintain`). -/
theorem step_ent_eqv (fuel : Nat) (hE : Eqv w₁ w₂) (op : EOp) (hop : op ≠ .merge) :
    PRel (step fuel w₁ (.ent op)) (step fuel w₂ (.ent op)) := by
  cases op with
  | merge => exact absurd rfl hop
  | delAll =>
    simp only [step, hE.ent]
    have := deleteEntities_eqv hE w₂.ent.alloc.joinEntities
    revert this
    generalize w₁.deleteEntities w₂.ent.alloc.joinEntities = p
    generalize w₂.deleteEntities w₂.ent.alloc.joinEntities = q
    intro hpq
    obtain ⟨p1, p2⟩ := p
    obtain ⟨q1, q2⟩ := q
    obtain ⟨h1, h2⟩ := hpq
    dsimp only at h1 h2
    subst h2
    split <;> split <;> simp_all [PRel]
  | delNow h =>
    simp only [step, hE.ent]
    split
    · exact ⟨hE, rfl⟩
    · exact deleteEntities_eqv hE _
  | delBatch hs =>
    simp only [step, hE.ent]
    split
    · exact ⟨hE, rfl⟩
    · exact deleteEntities_eqv hE _
  | _ => simp only [step, hE.ent]; exact ⟨hE.withEnt _, rfl⟩

end World
end SpecsModel

namespace SpecsModel
namespace World

variable {w₁ w₂ : World}

/-- All of `step` from the `merge` case. -/
theorem step_eqv_of_merge (fuel : Nat)
    (hm : ∀ {w₁ w₂ : World}, Eqv w₁ w₂ → PRel (step fuel w₁ (.ent .merge)) (step fuel w₂ (.ent .merge)))
    (hE : Eqv w₁ w₂) (op : WOp) : PRel (step fuel w₁ op) (step fuel w₂ op) := by
  cases op with
  | ent eop =>
    by_cases he : eop = .merge
    · subst he; exact hm hE
    · exact step_ent_eqv fuel hE eop he
  | reg k p => exact step_reg_eqv fuel hE k p
  | createWith a d c => exact step_createWith_eqv fuel hE a d c
  | get k h => exact step_get_eqv fuel hE k h
  | getMut k h d w => exact step_getMut_eqv fuel hE k h d w
  | has k h => exact step_has_eqv fuel hE k h
  | ins k h v => exact step_ins_eqv fuel hE k h v
  | rem k h => exact step_rem_eqv fuel hE k h
  | entry k h o => exact step_entry_eqv fuel hE k h o
  | mutOrDefault k h d w => exact step_mutOrDefault_eqv fuel hE k h d w
  | count k => exact step_count_eqv fuel hE k
  | isEmpty k => exact step_isEmpty_eqv fuel hE k
  | mask k => exact step_mask_eqv fuel hE k
  | clear k => exact step_clear_eqv fuel hE k
  | drain k n => exact step_drain_eqv fuel hE k n
  | slice k => exact step_slice_eqv fuel hE k
  | emit k b => exact step_emit_eqv fuel hE k b
  | events k => exact step_events_eqv fuel hE k
  | lazyIns k h v => exact step_lazyIns_eqv fuel hE k h v
  | lazyInsAll k items => exact step_lazyInsAll_eqv fuel hE k items
  | lazyRem k h => exact step_lazyRem_eqv fuel hE k h
  | lazyCreate c => exact step_lazyCreate_eqv fuel hE c
  | lazyExec s => exact step_lazyExec_eqv fuel hE s
  | rjoin k m a => exact step_rjoin_eqv fuel hE k m a
  | dropWorld => exact step_dropWorld_eqv fuel hE

/-- The body of a queued insert (shared by `LazyAct.ins` and `LazyAct.insAll`). -/
def lazyInsStep (k : Nat) (w : World) (ev : Entity × Int) : World :=
  match w.store? k with
  | none => w
  | some m =>
    match m.insert w.ent.alloc ev.1 ev.2 with
    | .ok r => (w.setStore k r.st).destroy (r.destroyed ++ (match r.val with | .replaced old => [old] | _ => []))
    | _ => w

theorem lazyInsStep_eqv (hE : Eqv w₁ w₂) (k : Nat) (ev : Entity × Int) :
    Eqv (lazyInsStep k w₁ ev) (lazyInsStep k w₂ ev) := by
  simp only [lazyInsStep, hE.ent]
  rcases hE.store_cases k with ⟨h1, h2⟩ | ⟨m₁, m₂, h1, h2, hm⟩
  · simp only [h1, h2]; exact hE
  · simp only [h1, h2]
    rcases (Masked.insert_eqv hm w₂.ent.alloc ev.1 ev.2).cases' with
      ⟨a, b, e1, e2, e3⟩ | ⟨w, e1, e2⟩ | ⟨w, e1, e2⟩
    · simp only [e1, e2, e3.2.1]
      exact (hE.setStore k e3.1).destroy (e3.2.2.append_right _)
    · simp only [e1, e2]; exact hE
    · simp only [e1, e2]; exact hE

theorem lazyInsFold_eqv (k : Nat) (items : List (Entity × Int)) :
    ∀ {w₁ w₂ : World}, Eqv w₁ w₂ →
      Eqv (items.foldl (lazyInsStep k) w₁) (items.foldl (lazyInsStep k) w₂) := by
  induction items with
  | nil => intro w₁ w₂ h; exact h
  | cons ev items ih => intro w₁ w₂ h; exact ih (lazyInsStep_eqv h k ev)

theorem runAct_ins_eq (fuel : Nat) (w : World) (t k : Nat) (e : Entity) (v : Int) :
    runAct fuel w (.ins t k e v) = lazyInsStep k w (e, v) := by
  cases fuel <;> simp only [runAct, lazyInsStep] <;> rfl

theorem runAct_insAll_eq (fuel : Nat) (w : World) (t k : Nat) (items : List (Entity × Int)) :
    runAct fuel w (.insAll t k items) = items.foldl (lazyInsStep k) w := by
  cases fuel <;> simp only [runAct] <;> rfl

theorem runAct_rem_eqv (fuel : Nat) (hE : Eqv w₁ w₂) (t k : Nat) (e : Entity) :
    Eqv (runAct fuel w₁ (.rem t k e)) (runAct fuel w₂ (.rem t k e)) := by
  simp only [runAct, hE.ent]
  rcases hE.store_cases k with ⟨h1, h2⟩ | ⟨m₁, m₂, h1, h2, hm⟩
  · simp only [h1, h2]; exact hE
  · simp only [h1, h2]
    rcases (Masked.remove_eqv hm w₂.ent.alloc e).cases' with
      ⟨a, b, e1, e2, e3⟩ | ⟨w, e1, e2⟩ | ⟨w, e1, e2⟩
    · simp only [e1, e2, e3.2.1]
      exact (hE.setStore k e3.1).destroy (.refl _)
    · simp only [e1, e2]; exact hE
    · simp only [e1, e2]; exact hE

/-- All of `runAct` from the `exec` case. -/
theorem runAct_eqv_of_exec (fuel : Nat)
    (hx : ∀ {w₁ w₂ : World} (t : Nat) (s : List WOp), Eqv w₁ w₂ →
      Eqv (runAct fuel w₁ (.exec t s)) (runAct fuel w₂ (.exec t s)))
    (hE : Eqv w₁ w₂) (act : LazyAct) : Eqv (runAct fuel w₁ act) (runAct fuel w₂ act) := by
  cases act with
  | ins t k e v => rw [runAct_ins_eq, runAct_ins_eq]; exact lazyInsStep_eqv hE k _
  | insAll t k items => rw [runAct_insAll_eq, runAct_insAll_eq]; exact lazyInsFold_eqv k items hE
  | rem t k e => exact runAct_rem_eqv fuel hE t k e
  | exec t s => exact hx t s hE

/-- The part of `maintain` before the queue runs. -/
theorem maintain_pre_eqv (hE : Eqv w₁ w₂) (deleted : List Entity) :
    Out.Rel Eqv (if deleted.isEmpty then .ok w₁ else w₁.deleteComponents deleted w₁.table)
      (if deleted.isEmpty then .ok w₂ else w₂.deleteComponents deleted w₂.table) := by
  rw [hE.table]
  split
  · exact hE
  · exact deleteComponents_eqv deleted w₂.table hE

/-- All of `maintain` from what it does after the purge. -/
theorem maintain_eqv_of_tail
    (tail : World → World × WRes)
    (htail : ∀ {a b : World}, Eqv a b → PRel (tail a) (tail b))
    (hE : Eqv w₁ w₂) :
    PRel
      (match w₁.ent.alloc.merge with
       | .ok (a, deleted) =>
         (match (if deleted.isEmpty then Out.ok { w₁ with ent := { w₁.ent with alloc := a } }
                 else ({ w₁ with ent := { w₁.ent with alloc := a } } : World).deleteComponents deleted
                   ({ w₁ with ent := { w₁.ent with alloc := a } } : World).table) with
          | .ok w2 => tail w2
          | .panic why => ({ w₁ with ent := { w₁.ent with alloc := a } }, WRes.panic why)
          | .ub why => ({ w₁ with ent := { w₁.ent with alloc := a } }, .panic ("UB: " ++ why)))
       | .panic why => (w₁, .panic why)
       | .ub why => (w₁, .panic ("UB: " ++ why)))
      (match w₂.ent.alloc.merge with
       | .ok (a, deleted) =>
         (match (if deleted.isEmpty then Out.ok { w₂ with ent := { w₂.ent with alloc := a } }
                 else ({ w₂ with ent := { w₂.ent with alloc := a } } : World).deleteComponents deleted
                   ({ w₂ with ent := { w₂.ent with alloc := a } } : World).table) with
          | .ok w2 => tail w2
          | .panic why => ({ w₂ with ent := { w₂.ent with alloc := a } }, WRes.panic why)
          | .ub why => ({ w₂ with ent := { w₂.ent with alloc := a } }, .panic ("UB: " ++ why)))
       | .panic why => (w₂, .panic why)
       | .ub why => (w₂, .panic ("UB: " ++ why))) := by
  rw [hE.ent]
  cases hk : w₂.ent.alloc.merge with
  | ok p =>
    obtain ⟨a, deleted⟩ := p
    have h' := hE.withEnt { w₂.ent with alloc := a }
    rcases (maintain_pre_eqv h' deleted).cases' with ⟨x, y, e1, e2, e3⟩ | ⟨w, e1, e2⟩ | ⟨w, e1, e2⟩
    · simp only [] at e1 e2 ⊢
      rw [e1, e2]; exact htail e3
    · simp only [] at e1 e2 ⊢
      rw [e1, e2]; exact ⟨h', rfl⟩
    · simp only [] at e1 e2 ⊢
      rw [e1, e2]; exact ⟨h', rfl⟩
  | panic w => exact ⟨hE, rfl⟩
  | ub w => exact ⟨hE, rfl⟩

/-- Hash-map order never reaches a result, in any of the five mutually recursive functions. -/
theorem mutual_eqv (fuel : Nat) :
    (∀ {w₁ w₂ : World} (op : WOp), Eqv w₁ w₂ → PRel (step fuel w₁ op) (step fuel w₂ op)) ∧
    (∀ {w₁ w₂ : World} (tag : Nat) (ops : List WOp), Eqv w₁ w₂ →
      Eqv (runScript fuel tag w₁ ops) (runScript fuel tag w₂ ops)) ∧
    (∀ {w₁ w₂ : World} (act : LazyAct), Eqv w₁ w₂ → Eqv (runAct fuel w₁ act) (runAct fuel w₂ act)) ∧
    (∀ {w₁ w₂ : World} (acc : List Nat), Eqv w₁ w₂ →
      PRel (runQueue fuel w₁ acc) (runQueue fuel w₂ acc)) ∧
    (∀ {w₁ w₂ : World}, Eqv w₁ w₂ → PRel (maintain fuel w₁) (maintain fuel w₂)) := by
  induction fuel with
  | zero =>
    refine ⟨?_, ?_, ?_, ?_, ?_⟩
    · intro w₁ w₂ op hE
      refine step_eqv_of_merge 0 ?_ hE op
      intro a b hab
      simp only [step]; exact ⟨hab, rfl⟩
    · intro w₁ w₂ tag ops hE
      cases ops <;> simp only [runScript] <;> exact hE
    · intro w₁ w₂ act hE
      refine runAct_eqv_of_exec 0 ?_ hE act
      intro a b t s hab
      simp only [runAct]; exact hab
    · intro w₁ w₂ acc hE
      simp only [runQueue]; exact ⟨hE, rfl⟩
    · intro w₁ w₂ hE
      simp only [maintain]
      exact maintain_eqv_of_tail (fun w2 => (w2, .panic "model out of fuel"))
        (fun hab => ⟨hab, rfl⟩) hE
  | succ fuel ih =>
    obtain ⟨ihS, ihR, ihA, ihQ, ihM⟩ := ih
    refine ⟨?_, ?_, ?_, ?_, ?_⟩
    · intro w₁ w₂ op hE
      refine step_eqv_of_merge (fuel + 1) ?_ hE op
      intro a b hab
      simp only [step]; exact ihM hab
    · intro w₁ w₂ tag ops hE
      cases ops with
      | nil => simp only [runScript]; exact hE
      | cons op ops =>
        simp only [runScript]
        obtain ⟨h1, h2⟩ := ihS op hE
        rw [h2]
        exact ihR tag ops (by rw [h1.trace]; exact h1.withTrace _)
    · intro w₁ w₂ act hE
      refine runAct_eqv_of_exec (fuel + 1) ?_ hE act
      intro a b t s hab
      simp only [runAct]; exact ihR t s hab
    · intro w₁ w₂ acc hE
      simp only [runQueue, hE.queue]
      split
      · exact ⟨hE, rfl⟩
      · exact ihQ _ (ihA _ (hE.withQueue _))
    · intro w₁ w₂ hE
      simp only [maintain]
      exact maintain_eqv_of_tail (fun w2 => ((runQueue fuel w2 []).1, .acts (runQueue fuel w2 []).2))
        (fun hab => ⟨(ihQ [] hab).1, by rw [(ihQ [] hab).2]⟩) hE

end World
end SpecsModel

namespace SpecsModel
namespace World

variable {w₁ w₂ : World}

/-! ### Histories -/

/-- Run a history, collecting the results. -/
def runOpsFrom (fuel : Nat) (w : World) : List WOp → World × List WRes
  | [] => (w, [])
  | op :: ops =>
    let p := step fuel w op
    let q := runOpsFrom fuel p.1 ops
    (q.1, p.2 :: q.2)

/-- Run a history from the empty world. -/
def runOps (fuel : Nat) (ops : List WOp) : World × List WRes := runOpsFrom fuel {} ops

/-- Sequence form of non-interference: related initial worlds, same history ⇒ equal transcripts
    and related final worlds. -/
theorem runOpsFrom_eqv (fuel : Nat) (ops : List WOp) :
    ∀ {w₁ w₂ : World}, Eqv w₁ w₂ → PRel (runOpsFrom fuel w₁ ops) (runOpsFrom fuel w₂ ops) := by
  induction ops with
  | nil => intro w₁ w₂ h; exact ⟨h, rfl⟩
  | cons op ops ih =>
    intro w₁ w₂ h
    obtain ⟨h1, h2⟩ := (mutual_eqv fuel).1 op h
    obtain ⟨h3, h4⟩ := ih h1
    exact ⟨h3, by simp only [runOpsFrom, h2, h4]⟩

/-- The `foldl` presentation used in the examples of other property files is the same function. -/
theorem foldl_step_eq_runOpsFrom (fuel : Nat) (ops : List WOp) : ∀ (w : World) (acc : List WRes),
    ops.foldl (fun (st : World × List WRes) op =>
      let (w', r) := step fuel st.1 op; (w', st.2 ++ [r])) (w, acc)
    = ((runOpsFrom fuel w ops).1, acc ++ (runOpsFrom fuel w ops).2) := by
  induction ops with
  | nil => intro w acc; simp [runOpsFrom]
  | cons op ops ih =>
    intro w acc
    simp only [List.foldl_cons, runOpsFrom]
    rw [ih]
    simp

theorem foldl_step_eqv (fuel : Nat) (ops : List WOp) (h : Eqv w₁ w₂) :
    (ops.foldl (fun (st : World × List WRes) op =>
      let (w', r) := step fuel st.1 op; (w', st.2 ++ [r])) (w₁, [])).2
    = (ops.foldl (fun (st : World × List WRes) op =>
      let (w', r) := step fuel st.1 op; (w', st.2 ++ [r])) (w₂, [])).2 := by
  rw [foldl_step_eq_runOpsFrom, foldl_step_eq_runOpsFrom, (runOpsFrom_eqv fuel ops h).2]

/-- Every world reachable from the empty world is well-formed (its hash lists have unique keys). -/
theorem wf_runOpsFrom (fuel : Nat) (ops : List WOp) {w : World} (h : WF w) : WF (runOpsFrom fuel w ops).1 :=
  (runOpsFrom_eqv fuel ops (Eqv.refl h)).1.wf_left

/-! ### Adversarial re-ordering between steps -/

/-- Run a history, applying the world transformer `sc n` after the `n`-th step. -/
def runScrambledFrom (sc : Nat → World → World) (fuel : Nat) : Nat → World → List WOp → World × List WRes
  | _, w, [] => (w, [])
  | n, w, op :: ops =>
    let p := step fuel w op
    let q := runScrambledFrom sc fuel (n + 1) (sc n p.1) ops
    (q.1, p.2 :: q.2)

/-- Whatever re-ordering of hash-map internals happens between steps, the transcript is that of
    the plain run, and the final worlds are related. -/
theorem runScrambledFrom_eqv (sc : Nat → World → World) (hsc : ∀ n w, WF w → Eqv w (sc n w))
    (fuel : Nat) (ops : List WOp) :
    ∀ (n : Nat) {w₁ w₂ : World}, Eqv w₁ w₂ →
      PRel (runScrambledFrom sc fuel n w₁ ops) (runOpsFrom fuel w₂ ops) := by
  induction ops with
  | nil => intro n w₁ w₂ h; exact ⟨h, rfl⟩
  | cons op ops ih =>
    intro n w₁ w₂ h
    obtain ⟨h1, h2⟩ := (mutual_eqv fuel).1 op h
    obtain ⟨h3, h4⟩ := ih (n + 1) ((hsc n _ h1.wf_left).symm.trans h1)
    exact ⟨h3, by simp only [runScrambledFrom, runOpsFrom, h2, h4]⟩

/-! ### Seeds -/

/-- A seed-dependent permutation: reversal for odd seeds, a rotation for even ones. -/
def shuffleList {α : Type} (seed : Nat) (l : List α) : List α :=
  if seed % 2 = 1 then l.reverse
  else l.drop (seed / 2 % (l.length + 1)) ++ l.take (seed / 2 % (l.length + 1))

theorem shuffleList_perm {α : Type} (seed : Nat) (l : List α) : (shuffleList seed l).Perm l := by
  unfold shuffleList
  split
  · exact List.reverse_perm l
  · refine List.perm_append_comm.trans ?_
    rw [List.take_append_drop]

/-- Re-order every hash list of a storage with the seed. -/
def shuffleStore (seed : Nat) : UStore → UStore
  | .hash l => .hash (shuffleList seed l)
  | .flagged i ev em => .flagged (shuffleStore seed i) ev em
  | .derefFlagged i ev em => .derefFlagged (shuffleStore seed i) ev em
  | s => s

theorem shuffleStore_eqv (seed : Nat) {s : UStore} (h : s.HWF) : UStore.Eqv s (shuffleStore seed s) := by
  induction s with
  | hash l => exact UStore.eqv_hash.2 ⟨(shuffleList_perm seed l).symm, h⟩
  | flagged i ev em ih => exact UStore.eqv_flagged.2 ⟨ih h, rfl, rfl⟩
  | derefFlagged i ev em ih => exact UStore.eqv_derefFlagged.2 ⟨ih h, rfl, rfl⟩
  | _ => simp [shuffleStore]

def shuffleMasked (seed : Nat) (m : Masked) : Masked := { m with inner := shuffleStore seed m.inner }

/-- Re-order every hash storage of the world with the seed. -/
def shuffle (seed : Nat) (w : World) : World :=
  { w with stores := w.stores.map (Option.map (shuffleMasked seed)) }

theorem store?_shuffle (seed : Nat) (w : World) (k : Nat) :
    (shuffle seed w).store? k = (w.store? k).map (shuffleMasked seed) := by
  simp only [store?, shuffle, Array.getElem?_map]
  cases w.stores[k]? with
  | none => rfl
  | some o => cases o <;> rfl

theorem shuffle_eqv (seed : Nat) {w : World} (h : WF w) : Eqv w (shuffle seed w) := by
  refine ⟨rfl, by simp [shuffle], ?_, rfl, rfl, rfl, rfl, .refl _, rfl⟩
  intro k
  rw [store?_shuffle]
  cases hm : w.store? k with
  | none => trivial
  | some m => exact ⟨rfl, shuffleStore_eqv seed (h k m hm)⟩

/-- The model with a hash seed: after every step all hash storages are re-ordered by the seed. -/
def runSeededFrom (seed fuel : Nat) (w : World) (ops : List WOp) : World × List WRes :=
  runScrambledFrom (fun _ => shuffle seed) fuel 0 w ops

def runSeeded (seed fuel : Nat) (ops : List WOp) : List WRes := (runSeededFrom seed fuel {} ops).2

theorem runSeededFrom_eqv (seed fuel : Nat) (ops : List WOp) (h : Eqv w₁ w₂) :
    PRel (runSeededFrom seed fuel w₁ ops) (runOpsFrom fuel w₂ ops) :=
  runScrambledFrom_eqv _ (fun _ _ hw => shuffle_eqv seed hw) fuel ops 0 h

theorem runSeeded_eq_run (seed fuel : Nat) (ops : List WOp) :
    runSeeded seed fuel ops = (runOps fuel ops).2 :=
  (runSeededFrom_eqv seed fuel ops eqv_empty).2

theorem runSeeded_indep (s₁ s₂ fuel : Nat) (ops : List WOp) :
    runSeeded s₁ fuel ops = runSeeded s₂ fuel ops := by
  rw [runSeeded_eq_run, runSeeded_eq_run]

/-- The destruction ledgers of two seeded runs are permutations of each other. -/
theorem runSeeded_ledger_perm (s₁ s₂ fuel : Nat) (ops : List WOp) :
    (runSeededFrom s₁ fuel {} ops).1.ledger.Perm (runSeededFrom s₂ fuel {} ops).1.ledger :=
  ((runSeededFrom_eqv s₁ fuel ops eqv_empty).1.trans
    (runSeededFrom_eqv s₂ fuel ops eqv_empty).1.symm).ledger

end World
end SpecsModel

namespace SpecsModel
namespace World

/-- Well-formedness (unique keys in every hash list) is preserved by every operation. -/
theorem wf_step (fuel : Nat) {w : World} (h : WF w) (op : WOp) : WF (step fuel w op).1 :=
  ((mutual_eqv fuel).1 op (Eqv.refl h)).1.wf_left

end World
end SpecsModel
