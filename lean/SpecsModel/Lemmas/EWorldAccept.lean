/-
  Every transcript of the entity world model is accepted by the entity monitor.
-/
import SpecsModel.Lemmas.EntRefine
import SpecsModel.Model.EWorld
namespace SpecsModel
open Alloc

/-- World-level coupling: allocator/spec relation, and every logged handle has been seen. -/
structure WR (w : EWorld) (s : EntSpec) : Prop where
  r : R w.alloc s []
  logSeen : ∀ e, e ∈ w.log.toList → e ∈ s.seen

theorem WR_init : WR {} EntSpec.init := ⟨R_init, by simp⟩

theorem step_created_ok {s s' : EntSpec} {e : Entity} (h : s.step (.created e) = .ok s') :
    s'.seen = e :: s.seen ∧ s'.live = s.live ++ [e] := by
  simp only [EntSpec.step] at h
  split at h
  · cases h
  · split at h
    · cases h
    · split at h
      · cases h
      · split at h
        · cases h; exact ⟨rfl, rfl⟩
        · cases h

theorem resolve_mem {log : Array Entity} {k : Nat} {e : Entity} (h : resolve log k = some e) :
    e ∈ log.toList := by
  unfold resolve at h
  split at h
  · cases h
  · exact Array.mem_toList_iff.mpr (Array.mem_of_getElem? h)

theorem resolveAll_mem {log : Array Entity} {ks : List Nat} {es : List Entity}
    (h : resolveAll log ks = some es) : ∀ e, e ∈ es → e ∈ log.toList := by
  unfold resolveAll at h
  split at h
  · cases h
  · cases h
    intro e he
    obtain ⟨k, _, hk⟩ := List.mem_filterMap.mp he
    exact Array.mem_toList_iff.mpr (Array.mem_of_getElem? hk)

/-- What one creation does, for both creation paths and both builder outcomes. -/
theorem create_accept {w : EWorld} {s : EntSpec} (h : WR w s) (atomic dropped : Bool) :
    ∃ e s', (if atomic then w.createAtomic dropped else w.createNow dropped).2 = .ent e ∧
      s.run (.created e :: (if dropped then [.killAtomic e true] else [])) = .ok s' ∧
      (if atomic then w.createAtomic dropped else w.createNow dropped).1.log = w.log.push e ∧
      WR (if atomic then w.createAtomic dropped else w.createNow dropped).1 s' := by
  have key : ∀ (o : Out (Alloc × Entity)),
      (∃ a' e s', o = .ok (a', e) ∧ s.step (.created e) = .ok s' ∧ R a' s' []) →
      ∃ e s', (EWorld.outToRes o (fun (a, e) =>
          let w := { w with alloc := a, log := w.log.push e }
          if dropped then
            EWorld.outToRes (a.killAtomic e) (fun (a, ok) =>
              if ok then ({ w with alloc := a }, .ent e)
              else (w, .panic "dropped builder: delete(..).unwrap() on Err")) w
          else (w, .ent e)) w).2 = .ent e ∧
        s.run (.created e :: (if dropped then [.killAtomic e true] else [])) = .ok s' ∧
        (EWorld.outToRes o (fun (a, e) =>
          let w := { w with alloc := a, log := w.log.push e }
          if dropped then
            EWorld.outToRes (a.killAtomic e) (fun (a, ok) =>
              if ok then ({ w with alloc := a }, .ent e)
              else (w, .panic "dropped builder: delete(..).unwrap() on Err")) w
          else (w, .ent e)) w).1.log = w.log.push e ∧
        WR (EWorld.outToRes o (fun (a, e) =>
          let w := { w with alloc := a, log := w.log.push e }
          if dropped then
            EWorld.outToRes (a.killAtomic e) (fun (a, ok) =>
              if ok then ({ w with alloc := a }, .ent e)
              else (w, .panic "dropped builder: delete(..).unwrap() on Err")) w
          else (w, .ent e)) w).1 s' := by
    rintro o ⟨a', e, s1, rfl, hs1, hR1⟩
    obtain ⟨hseen, hlive⟩ := step_created_ok hs1
    have hlog : ∀ x, x ∈ (w.log.push e).toList → x ∈ s1.seen := by
      intro x hx
      rw [hseen]
      simp only [Array.toList_push, List.mem_append, List.mem_singleton] at hx
      rcases hx with hx | rfl
      · exact List.mem_cons_of_mem _ (h.logSeen x hx)
      · exact List.mem_cons_self
    cases dropped
    · refine ⟨e, s1, rfl, ?_, rfl, ⟨hR1, hlog⟩⟩
      simp [EntSpec.run, hs1]
    · have he1 : e ∈ s1.seen := by rw [hseen]; exact List.mem_cons_self
      obtain ⟨a'', ok, s2, hk, hs2, hR2, hok, hseen2⟩ := killAtomic_refine hR1 e he1
      have hal : a'.isAlive e = true :=
        ((hR1.liveIff e).mp (by rw [hlive]; simp)).2
      rw [hal] at hok; subst hok
      refine ⟨e, s2, ?_, ?_, ?_, ?_⟩
      · simp [EWorld.outToRes, hk]
      · simp [EntSpec.run, hs1, hs2]
      · simp [EWorld.outToRes, hk]
      · simp only [EWorld.outToRes, hk, if_true]
        exact ⟨hR2, by intro x hx; rw [hseen2]; exact hlog x hx⟩
  cases atomic
  · exact key _ (allocate_refine h.r)
  · exact key _ (allocateAtomic_refine h.r)


theorem run_append (s : EntSpec) (l₁ l₂ : List EntEv) :
    s.run (l₁ ++ l₂) = match s.run l₁ with | .ok s' => s'.run l₂ | .error w => .error w := by
  induction l₁ generalizing s with
  | nil => rfl
  | cons e l ih =>
    simp only [List.cons_append, EntSpec.run]
    cases s.step e with
    | ok s' => exact ih s'
    | error w => rfl

theorem createIter_accept (atomic : Bool) : ∀ (n : Nat) (w : EWorld) (s : EntSpec) (acc : List Entity),
    WR w s →
    ∃ es s', (EWorld.createIter atomic w n acc).2 = .ents (acc.reverse ++ es) ∧
      s.run (es.map .created) = .ok s' ∧
      (EWorld.createIter atomic w n acc).1.log = w.log ++ es.toArray ∧
      WR (EWorld.createIter atomic w n acc).1 s' := by
  intro n
  induction n with
  | zero => intro w s acc h; exact ⟨[], s, by simp [EWorld.createIter], rfl, by simp [EWorld.createIter], h⟩
  | succ n ih =>
    intro w s acc h
    obtain ⟨e, s1, hres, hrun, hlog, hW⟩ := create_accept h atomic false
    generalize hx : (if atomic = true then w.createAtomic false else w.createNow false) = x at *
    obtain ⟨w1, r1⟩ := x
    simp only at hres hlog hW
    subst hres
    obtain ⟨es, s2, h1, h2, h3, h4⟩ := ih w1 s1 (e :: acc) hW
    refine ⟨e :: es, s2, ?_, ?_, ?_, ?_⟩
    · simp only [EWorld.createIter, hx]; rw [h1]; simp
    · simp only [Bool.false_eq_true, if_false] at hrun
      simp only [List.map_cons]
      have := run_append s [.created e] (es.map .created)
      simp only [List.singleton_append] at this
      rw [this, hrun]; exact h2
    · simp only [EWorld.createIter, hx]; rw [h3, hlog]; simp
    · simp only [EWorld.createIter, hx]; exact h4


theorem delBatch_accept {w : EWorld} {s : EntSpec} (h : WR w s) (es : List Entity)
    (hes : ∀ e, e ∈ es → e ∈ w.log.toList) :
    ∃ r s', (w.delBatch es).2 = .kill r ∧ s.step (.kill es r) = .ok s' ∧
      (w.delBatch es).1.log = w.log ∧ WR (w.delBatch es).1 s' ∧ s'.seen = s.seen := by
  obtain ⟨a', r, s', hk, hs, hR⟩ := kill_refine h.r es (fun e he => h.logSeen e (hes e he))
  have hseen : s'.seen = s.seen := by
    simp only [EntSpec.step] at hs
    split at hs
    · cases hs; rfl
    · cases hs
  refine ⟨r, s', by simp [EWorld.delBatch, EWorld.outToRes, hk], hs,
    by simp [EWorld.delBatch, EWorld.outToRes, hk], ?_, hseen⟩
  simp only [EWorld.delBatch, EWorld.outToRes, hk]
  exact ⟨hR, by intro x hx; rw [hseen]; exact h.logSeen x hx⟩

theorem accept_of {w : EWorld} {s : EntSpec} {op : EOp} (w' : EWorld) (r : ERes)
    (hstep : w.step op = (w', r)) (hshape : resShapeOk op r = true) (s' : EntSpec)
    (hrun : s.run (entEvents w.log op r).1 = .ok s') (hlog : (entEvents w.log op r).2 = w'.log)
    (hW : WR w' s') :
    resShapeOk op (w.step op).2 = true ∧
    ∃ s', s.run (entEvents w.log op (w.step op).2).1 = .ok s' ∧
      (entEvents w.log op (w.step op).2).2 = (w.step op).1.log ∧ WR (w.step op).1 s' := by
  rw [hstep]; exact ⟨hshape, s', hrun, hlog, hW⟩

theorem pair_eta {α β} (x : α × β) (b : β) (h : x.2 = b) : x = (x.1, b) := by
  cases x; simp_all

/-- One step of the model world: the result is well-formed (no panic), the entity events of the
    transcript line are accepted by the specification, and the coupling is re-established. -/
theorem step_accept {w : EWorld} {s : EntSpec} (h : WR w s) (op : EOp) :
    resShapeOk op (w.step op).2 = true ∧
    ∃ s', s.run (entEvents w.log op (w.step op).2).1 = .ok s' ∧
      (entEvents w.log op (w.step op).2).2 = (w.step op).1.log ∧ WR (w.step op).1 s' := by
  cases op with
  | createNow d =>
    obtain ⟨e, s', h1, h2, h3, h4⟩ := create_accept h false d
    simp only [Bool.false_eq_true, if_false] at h1 h2 h3 h4
    exact accept_of _ (.ent e) (pair_eta (w.createNow d) _ h1) rfl s' h2 h3.symm h4
  | createAtomic d =>
    obtain ⟨e, s', h1, h2, h3, h4⟩ := create_accept h true d
    simp only [if_true] at h1 h2 h3 h4
    exact accept_of _ (.ent e) (pair_eta (w.createAtomic d) _ h1) rfl s' h2 h3.symm h4
  | createIterNow n =>
    obtain ⟨es, s', h1, h2, h3, h4⟩ := createIter_accept false n w s [] h
    simp only [List.reverse_nil, List.nil_append] at h1
    exact accept_of _ (.ents es) (pair_eta (EWorld.createIter false w n []) _ h1) rfl s' h2 h3.symm h4
  | createIterAtomic n =>
    obtain ⟨es, s', h1, h2, h3, h4⟩ := createIter_accept true n w s [] h
    simp only [List.reverse_nil, List.nil_append] at h1
    exact accept_of _ (.ents es) (pair_eta (EWorld.createIter true w n []) _ h1) rfl s' h2 h3.symm h4
  | delNow k =>
    cases hr : resolve w.log k with
    | none => exact accept_of w .skip (by simp [EWorld.step, hr]) rfl s rfl rfl h
    | some e =>
      obtain ⟨r, s', h1, h2, h3, h4, _⟩ := delBatch_accept h [e] (by
        intro x hx; simp only [List.mem_singleton] at hx; subst hx; exact resolve_mem hr)
      exact accept_of _ (.kill r) (by simp only [EWorld.step, hr]; exact pair_eta _ _ h1) rfl s'
        (by simp [entEvents, hr, EntSpec.run, h2]) (by simp [entEvents, hr, h3]) h4
  | delBatch ks =>
    cases hr : resolveAll w.log ks with
    | none => exact accept_of w .skip (by simp [EWorld.step, hr]) rfl s rfl rfl h
    | some es =>
      obtain ⟨r, s', h1, h2, h3, h4, _⟩ := delBatch_accept h es (resolveAll_mem hr)
      exact accept_of _ (.kill r) (by simp only [EWorld.step, hr]; exact pair_eta _ _ h1) rfl s'
        (by simp [entEvents, hr, EntSpec.run, h2]) (by simp [entEvents, hr, h3]) h4
  | delAtomic k =>
    cases hr : resolve w.log k with
    | none => exact accept_of w .skip (by simp [EWorld.step, hr]) rfl s rfl rfl h
    | some e =>
      obtain ⟨a', ok, s', hk, hs, hR, _, hseen⟩ := killAtomic_refine h.r e (h.logSeen e (resolve_mem hr))
      refine accept_of { w with alloc := a' } (.kill (if ok then .ok else .err 0))
        (by simp [EWorld.step, hr, EWorld.outToRes, hk]) rfl s' ?_ (by simp [entEvents, hr])
        ⟨hR, by intro x hx; rw [hseen]; exact h.logSeen x hx⟩
      cases ok
      · have : (KillRes.err 0 == KillRes.ok) = false := by decide
        simp [entEvents, hr, EntSpec.run, this, hs]
      · simp [entEvents, hr, EntSpec.run, hs]
  | delAll =>
    obtain ⟨a', hk, hR⟩ := delAll_refine h.r
    exact accept_of { w with alloc := a' } .unit
      (by simp [EWorld.step, EWorld.delBatch, EWorld.outToRes, hk]) rfl _ rfl rfl ⟨hR, h.logSeen⟩
  | merge =>
    obtain ⟨a', del, s', hm, hs, hR⟩ := merge_refine h.r
    have hseen : s'.seen = s.seen := by simp only [EntSpec.step] at hs; cases hs; rfl
    exact accept_of { w with alloc := a' } .unit (by simp [EWorld.step, EWorld.outToRes, hm]) rfl s'
      (by simp [entEvents, EntSpec.run, hs]) rfl
      ⟨hR, by intro x hx; rw [hseen]; exact h.logSeen x hx⟩
  | alive k =>
    cases hr : resolve w.log k with
    | none => exact accept_of w .skip (by simp [EWorld.step, hr]) rfl s rfl rfl h
    | some e =>
      have := isAlive_refine h.r e (h.logSeen e (resolve_mem hr))
      exact accept_of w (.bool (w.alloc.isAlive e)) (by simp [EWorld.step, hr]) rfl s
        (by simp [entEvents, hr, EntSpec.run, this]) (by simp [entEvents, hr]) h
  | walive k =>
    cases hr : resolve w.log k with
    | none => exact accept_of w .skip (by simp [EWorld.step, hr]) rfl s rfl rfl h
    | some e =>
      have hpos := (h.r.seenOk e (h.logSeen e (resolve_mem hr))).pos
      have hg : e.gen > 0 := by omega
      exact accept_of w (.bool (w.alloc.generation e.id == some e.gen))
        (by simp [EWorld.step, hr, worldIsAlive, hg, EWorld.outToRes]) rfl s rfl rfl h
  | ejoin =>
    have := join_refine h.r
    exact accept_of w (.ents w.alloc.joinEntities) rfl rfl s
      (by simp [entEvents, EntSpec.run, this]) rfl h

/-- Every transcript of the model is accepted by the monitor, from any coupled state. -/
theorem runFrom_accept : ∀ (ops : List EOp) (w : EWorld) (s : EntSpec), WR w s →
    ∃ s', monitorEnt s w.log (w.runFrom ops).2 = .ok s' ∧ WR (w.runFrom ops).1 s' := by
  intro ops
  induction ops with
  | nil => intro w s h; exact ⟨s, rfl, h⟩
  | cons op ops ih =>
    intro w s h
    obtain ⟨hshape, s1, hrun, hlog, hW⟩ := step_accept h op
    obtain ⟨s2, hm, hW2⟩ := ih (w.step op).1 s1 hW
    refine ⟨s2, ?_, by simpa [EWorld.runFrom] using hW2⟩
    simp only [EWorld.runFrom, monitorEnt, hshape, Bool.not_true, Bool.false_eq_true, if_false]
    generalize hev : entEvents w.log op (w.step op).2 = ev at *
    obtain ⟨evs, log'⟩ := ev
    simp only at hrun hlog
    simp only [hrun, hlog]
    exact hm

end SpecsModel
