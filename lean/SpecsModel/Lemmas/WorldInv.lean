/-
  The world invariant: allocator/spec coupling, well-formed storages, "components exist only at
  occupied indices" (the core of C05), every storage is in the meta table, queued actions target
  logged handles. Preserved by every operation of the world model, for any fuel.
-/
import SpecsModel.Lemmas.Good
import SpecsModel.Lemmas.MaskFacts
import SpecsModel.Lemmas.AllocOcc
import SpecsModel.Lemmas.EWorldAccept
import SpecsModel.Lemmas.LazyQueue
import SpecsModel.Lemmas.EntSpecFacts
namespace SpecsModel
open Alloc

def LazyAct.ents : LazyAct → List Entity
  | .ins _ _ e _ => [e]
  | .insAll _ _ items => items.map (·.1)
  | .rem _ _ e => [e]
  | .exec _ _ => []

/-- `X` exempts indices from the ownership clause: after an entity purge that was interrupted by a
    panicking destructor (C19) components of dead entities may remain; `X = fun _ => False` is the
    invariant of fault-free histories. -/
structure WInvX (X : Nat → Prop) (w : World) : Prop where
  ent : ∃ s, WR w.ent s
  size : w.stores.size = numKinds
  good : ∀ k ms, w.store? k = some ms → ms.Good
  owned : ∀ k ms, w.store? k = some ms → ∀ i, ms.mask.mem i = true → w.ent.alloc.occ i = true ∨ X i
  inTable : ∀ k ms, w.store? k = some ms → k ∈ w.table
  queueOk : ∀ act, act ∈ w.queue → ∀ e, e ∈ act.ents → e ∈ w.ent.log.toList

/-- The invariant of fault-free histories. -/
abbrev WInv (w : World) : Prop := WInvX (fun _ => False) w

variable {X : Nat → Prop}

namespace World

theorem store?_setStore (w : World) (k k' : Nat) (m : Masked) :
    (w.setStore k m).store? k' = if k' = k ∧ k < w.stores.size then some m else w.store? k' := by
  simp only [store?, setStore, Array.getElem?_setIfInBounds]
  by_cases hk : k' = k
  · subst hk
    by_cases hlt : k' < w.stores.size
    · simp [hlt]
    · simp [hlt, Array.getElem?_eq_none (Nat.le_of_not_lt hlt)]
  · simp [hk, Ne.symm hk]

@[simp] theorem store?_destroy (w : World) (d : List Int) (k : Nat) : (w.destroy d).store? k = w.store? k := rfl

theorem lt_size_of_store? {w : World} {k : Nat} {m : Masked} (h : w.store? k = some m) :
    k < w.stores.size := by
  by_cases hlt : k < w.stores.size
  · exact hlt
  · simp [store?, Array.getElem?_eq_none (Nat.le_of_not_lt hlt)] at h

theorem inv_init : WInvX X ({} : World) := by
  refine ⟨⟨_, WR_init⟩, by simp [numKinds], ?_, ?_, ?_, by simp⟩
  all_goals
    intro k ms h
    exfalso
    simp only [store?] at h
    by_cases hk : k < numKinds
    · simp [Array.getElem?_replicate, hk] at h
    · simp [Array.getElem?_replicate, hk] at h

/-- A logged handle that is reported alive occupies its index. -/
theorem alive_occ {w : World} {s : EntSpec} (h : WR w.ent s) {e : Entity}
    (he : e ∈ w.ent.log.toList) (hal : w.ent.alloc.isAlive e = true) : w.ent.alloc.occ e.id = true :=
  (h.r.occ_of_live e ((h.r.liveIff e).mpr ⟨h.logSeen e he, hal⟩)).1

/-- Replacing one storage by a good one whose new members sit at occupied indices. -/
theorem inv_setStore {w : World} (h : WInvX X w) {k : Nat} {ms ms' : Masked}
    (hk : w.store? k = some ms) (hg : ms'.Good)
    (hm : ∀ i, ms'.mask.mem i = true → ms.mask.mem i = true ∨ w.ent.alloc.occ i = true)
    (d : List Int) : WInvX X ((w.setStore k ms').destroy d) := by
  have hlt := lt_size_of_store? hk
  have hs : ∀ k', ((w.setStore k ms').destroy d).store? k' = if k' = k then some ms' else w.store? k' := by
    intro k'
    have := store?_setStore w k k' ms'
    simp only [hlt, and_true] at this
    exact this
  refine ⟨h.ent, by simpa [destroy, setStore] using h.size, ?_, ?_, ?_, h.queueOk⟩
  · intro k' m' hk'
    rw [hs] at hk'
    split at hk'
    · cases hk'; exact hg
    · exact h.good k' m' hk'
  · intro k' m' hk' i hi
    rw [hs] at hk'
    split at hk'
    · cases hk'
      rcases hm i hi with h1 | h1
      · exact h.owned k ms hk i h1
      · exact Or.inl h1
    · exact h.owned k' m' hk' i hi
  · intro k' m' hk'
    rw [hs] at hk'
    split at hk'
    · next heq => subst heq; exact h.inTable _ ms hk
    · exact h.inTable k' m' hk'

/-- `applyS` with a result that keeps the storage good and only adds members at occupied indices. -/
theorem inv_applyS {α} {w : World} (h : WInvX X w) {k : Nat} {ms : Masked} (hk : w.store? k = some ms)
    {o : Out (SRes α)} {r : SRes α} (ho : o = .ok r) (hg : r.st.Good)
    (hm : ∀ i, r.st.mask.mem i = true → ms.mask.mem i = true ∨ w.ent.alloc.occ i = true)
    (f : α → WRes) : WInvX X (w.applyS k o f).1 := by
  subst ho
  exact inv_setStore h hk hg hm _


/-- A storage operation through a logged handle: good result, new members only at the handle's
    index and only if the handle is alive. -/
theorem inv_applyS_handle {α} {w : World} (h : WInvX X w) {k hd : Nat} {ms : Masked} {e : Entity}
    (hk : w.store? k = some ms) (hr : resolve w.ent.log hd = some e) (o : Out (SRes α))
    (hgood : ∃ r, o = .ok r ∧ r.st.Good)
    (hmask : ∀ r, o = .ok r → ∀ j, r.st.mask.mem j = true →
      ms.mask.mem j = true ∨ (j = e.id ∧ w.ent.alloc.isAlive e = true))
    (f : α → WRes) : WInvX X (w.applyS k o f).1 := by
  obtain ⟨r, ho, hg⟩ := hgood
  obtain ⟨s, hs⟩ := h.ent
  refine inv_applyS h hk ho hg ?_ f
  intro i hi
  rcases hmask r ho i hi with h1 | ⟨rfl, hal⟩
  · exact Or.inl h1
  · exact Or.inr (alive_occ hs (resolve_mem hr) hal)

theorem inv_enqueue {w : World} (h : WInvX X w) (mk : Nat → LazyAct)
    (hents : ∀ t e, e ∈ (mk t).ents → e ∈ w.ent.log.toList) : WInvX X (w.enqueue mk).1 := by
  refine ⟨h.ent, h.size, h.good, h.owned, h.inTable, ?_⟩
  intro act hact e he
  simp only [enqueue, List.mem_append, List.mem_singleton] at hact
  rcases hact with hact | rfl
  · exact h.queueOk act hact e he
  · exact hents _ e he

theorem resolveAll_zip_mem {log : Array Entity} {ks : List Nat} {es : List Entity} {vs : List Int}
    (h : resolveAll log ks = some es) : ∀ e, e ∈ (es.zip vs).map (·.1) → e ∈ log.toList := by
  intro e he
  obtain ⟨p, hp, rfl⟩ := List.mem_map.mp he
  exact resolveAll_mem h _ (List.of_mem_zip hp).1

theorem inv_register {w : World} (h : WInvX X w) (k : Nat) : WInvX X (w.register k) := by
  unfold register
  split
  · next hk =>
    have key : ∀ w' : World, WInvX X w' → (∀ m, w'.store? k = some m → True) →
        WInvX X (if w'.table.contains k then w' else { w' with table := w'.table ++ [k] }) := by
      intro w' h' _
      split
      · exact h'
      · refine ⟨h'.ent, h'.size, h'.good, h'.owned, ?_, h'.queueOk⟩
        intro k' m' hk'
        exact List.mem_append_left _ (h'.inTable k' m' hk')
    cases hst : w.store? k with
    | some m =>
      simp only
      have hin := h.inTable k m hst
      have hc : w.table.contains k = true := by simpa using hin
      rw [if_pos hc]; exact h
    | none =>
      simp only
      -- add the empty storage, then the table entry
      have hlt : k < w.stores.size := by rw [h.size]; exact hk
      have hs : ∀ k', (w.setStore k { mask := .empty, inner := newStore k }).store? k' =
          if k' = k then some { mask := .empty, inner := newStore k } else w.store? k' := by
        intro k'; have := store?_setStore w k k' { mask := .empty, inner := newStore k }
        simpa [hlt] using this
      have hnot : ¬ (k ∈ w.table) → True := fun _ => trivial
      by_cases hc : (w.setStore k { mask := .empty, inner := newStore k }).table.contains k = true
      · simp only [hc, if_true]
        refine ⟨h.ent, by simpa [setStore] using h.size, ?_, ?_, ?_, h.queueOk⟩
        · intro k' m' hk'; rw [hs] at hk'; split at hk'
          · cases hk'; exact Masked.good_new k
          · exact h.good k' m' hk'
        · intro k' m' hk' i hi; rw [hs] at hk'; split at hk'
          · cases hk'; simp at hi
          · exact h.owned k' m' hk' i hi
        · intro k' m' hk'; rw [hs] at hk'; split at hk'
          · next heq => subst heq; simpa using hc
          · exact h.inTable k' m' hk'
      · simp only [hc, if_false]
        refine ⟨h.ent, by simpa [setStore] using h.size, ?_, ?_, ?_, h.queueOk⟩
        · intro k' m' hk'
          have hk'' : (w.setStore k { mask := .empty, inner := newStore k }).store? k' = some m' := hk'
          rw [hs] at hk''; split at hk''
          · cases hk''; exact Masked.good_new k
          · exact h.good k' m' hk''
        · intro k' m' hk' i hi
          have hk'' : (w.setStore k { mask := .empty, inner := newStore k }).store? k' = some m' := hk'
          rw [hs] at hk''; split at hk''
          · cases hk''; simp at hi
          · exact h.owned k' m' hk'' i hi
        · intro k' m' hk'
          have hk'' : (w.setStore k { mask := .empty, inner := newStore k }).store? k' = some m' := hk'
          rw [hs] at hk''; split at hk''
          · next heq => subst heq; simp [setStore]
          · simp only [setStore]; exact List.mem_append_left _ (h.inTable k' m' hk'')
  · exact h


/-! ### Purge -/

theorem deleteComponents_good (es : List Entity) : ∀ (ks : List Nat) (w : World),
    (∀ k ms, w.store? k = some ms → ms.Good) →
    ∃ w', w.deleteComponents es ks = .ok w' ∧ (∀ k ms, w'.store? k = some ms → ms.Good) ∧
      w'.stores.size = w.stores.size := by
  intro ks
  induction ks with
  | nil => intro w hg; exact ⟨w, rfl, hg, rfl⟩
  | cons k ks ih =>
    intro w hg
    simp only [deleteComponents]
    cases hk : w.store? k with
    | none => simpa using ih w hg
    | some m =>
      obtain ⟨r, hr, hgr⟩ := Masked.good_dropAll es (hg k m hk) []
      simp only [hr]
      have hlt := lt_size_of_store? hk
      obtain ⟨w', h1, h2, h3⟩ := ih ((w.setStore k r.st).destroy r.destroyed) (by
        intro k' m' hk'
        have : ((w.setStore k r.st).destroy r.destroyed).store? k' = if k' = k then some r.st else w.store? k' := by
          have := store?_setStore w k k' r.st
          rw [store?_destroy]; simpa [hlt] using this
        rw [this] at hk'
        split at hk'
        · cases hk'; exact hgr
        · exact hg k' m' hk')
      exact ⟨w', h1, h2, by rw [h3]; simp [destroy, setStore]⟩

/-- After a deletion has taken effect in the allocator (`a'`: the purged indices are no longer
    occupied, nothing else changed), purging those entities re-establishes the invariant. -/
theorem inv_purge {w : World} (h : WInvX X w) {a' : Alloc} {s' : EntSpec} (es : List Entity)
    (hW : WR { w.ent with alloc := a' } s')
    (hocc : ∀ j, a'.occ j = (w.ent.alloc.occ j && !(es.map (·.id)).contains j)) :
    ∃ w', ({ w with ent := { w.ent with alloc := a' } } : World).deleteComponents es w.table = .ok w' ∧ WInvX X w' := by
  obtain ⟨w', hdel, hgood, hsize⟩ :=
    deleteComponents_good es w.table { w with ent := { w.ent with alloc := a' } } h.good
  have hfr := LazyQ.deleteComponents_frame es _ _ _ hdel
  refine ⟨w', hdel, ?_⟩
  have hback : ∀ k ms', w'.store? k = some ms' →
      ∃ ms, w.store? k = some ms ∧ (∀ j, ms'.mask.mem j = true → ms.mask.mem j = true) ∧
        (∀ e ∈ es, ms'.mask.mem e.id = false) := by
    intro k ms' hk'
    cases hk : w.store? k with
    | none =>
      -- a storage cannot appear
      exfalso
      have key : ∀ (ks : List Nat) (w1 w2 : World), w1.deleteComponents es ks = .ok w2 →
          w1.store? k = none → w2.store? k = none := by
        intro ks
        induction ks with
        | nil => intro w1 w2 h1 h2; simp only [deleteComponents] at h1; cases h1; exact h2
        | cons k0 ks ih =>
          intro w1 w2 h1 h2
          simp only [deleteComponents] at h1
          split at h1
          · exact ih _ _ h1 h2
          · next m0 hm0 =>
            split at h1
            · next r hr =>
              apply ih _ _ h1
              have hlt0 := lt_size_of_store? hm0
              have : ((w1.setStore k0 r.st).destroy r.destroyed).store? k = if k = k0 then some r.st else w1.store? k := by
                have := store?_setStore w1 k0 k r.st
                rw [store?_destroy]; simpa [hlt0] using this
              rw [this]
              split
              · next heq => subst heq; rw [h2] at hm0; cases hm0
              · exact h2
            · cases h1
            · cases h1
      have := key w.table _ _ hdel (by simpa [store?] using hk)
      rw [this] at hk'; cases hk'
    | some ms =>
      obtain ⟨m'', h1, h2, h3⟩ := LazyQ.deleteComponents_purged es w.table _ _ hdel k ms (by simpa [store?] using hk)
      rw [h1] at hk'; cases hk'
      exact ⟨ms, rfl, h2, h3 (h.inTable k ms hk)⟩
  refine ⟨⟨s', by rw [hfr.ent]; exact hW⟩, by rw [hsize]; exact h.size, hgood, ?_, ?_, ?_⟩
  · intro k ms' hk' i hi
    obtain ⟨ms, hk, hsub, hclr⟩ := hback k ms' hk'
    rcases h.owned k ms hk i (hsub i hi) with ho | hx
    · left
      rw [hfr.ent]; simp only
      rw [hocc i, ho]
      simp only [Bool.true_and, Bool.not_eq_true', List.contains_eq_mem, decide_eq_false_iff_not,
        List.mem_map, not_exists, not_and]
      intro e he heq
      have := hclr e he
      rw [heq] at this; rw [this] at hi; cases hi
    · exact Or.inr hx
  · intro k ms' hk'
    obtain ⟨ms, hk, _, _⟩ := hback k ms' hk'
    rw [hfr.table]; exact h.inTable k ms hk
  · intro act hact e he
    rw [hfr.queue] at hact; rw [hfr.ent]
    exact h.queueOk act hact e he


/-! ### Entity operations that do not delete -/

end World

def EntEv.nonDel : EntEv → Bool
  | .created _ | .killAtomic _ _ | .isAlive _ _ | .join _ => true
  | _ => false

theorem EntSpec.step_nonDel_live {s s' : EntSpec} {ev : EntEv} (hn : ev.nonDel = true)
    (h : s.step ev = .ok s') : ∀ x, x ∈ s.live → x ∈ s'.live := by
  intro x hx
  cases ev with
  | created e =>
    rcases EntSpec.step_facts h with ⟨e', he, _, _, hl, _⟩ | ⟨hnc, _⟩
    · rw [hl]; exact List.mem_append_left _ hx
    · exact absurd rfl (hnc e)
  | killAtomic e ok =>
    simp only [EntSpec.step] at h
    split at h
    · split at h
      · cases h; exact hx
      · cases h
    · split at h
      · cases h
      · cases h; exact hx
  | isAlive e r =>
    simp only [EntSpec.step] at h
    split at h
    · cases h; exact hx
    · cases h
  | join es =>
    simp only [EntSpec.step] at h
    split at h
    · cases h; exact hx
    · cases h
  | kill _ _ => simp [EntEv.nonDel] at hn
  | merge => simp [EntEv.nonDel] at hn
  | deleteAll => simp [EntEv.nonDel] at hn

theorem EntSpec.run_nonDel_live : ∀ (evs : List EntEv) (s s' : EntSpec),
    (∀ ev, ev ∈ evs → ev.nonDel = true) → s.run evs = .ok s' → ∀ x, x ∈ s.live → x ∈ s'.live := by
  intro evs
  induction evs with
  | nil => intro s s' _ h x hx; simp only [EntSpec.run] at h; cases h; exact hx
  | cons ev evs ih =>
    intro s s' hn h x hx
    simp only [EntSpec.run] at h
    cases hs : s.step ev with
    | error w => simp [hs] at h
    | ok s1 =>
      simp only [hs] at h
      exact ih s1 s' (fun e he => hn e (by simp [he])) h x
        (EntSpec.step_nonDel_live (hn ev (by simp)) hs x hx)

/-- Entity ops that `World.step` forwards to the entity world unchanged. -/
def EOp.plain : EOp → Bool
  | .merge | .delAll | .delNow _ | .delBatch _ => false
  | _ => true

theorem entEvents_plain (log : Array Entity) (op : EOp) (r : ERes) (hp : op.plain = true) :
    (∀ ev, ev ∈ (entEvents log op r).1 → ev.nonDel = true) ∧
    (∀ e, e ∈ log.toList → e ∈ (entEvents log op r).2.toList) := by
  have triv : (∀ ev, ev ∈ ([] : List EntEv) → ev.nonDel = true) ∧ (∀ e, e ∈ log.toList → e ∈ log.toList) :=
    ⟨(fun ev hev => nomatch hev), fun e he => he⟩
  cases op with
  | merge => cases hp
  | delAll => cases hp
  | delNow _ => cases hp
  | delBatch _ => cases hp
  | createNow d =>
    cases r with
    | ent e =>
      simp only [entEvents]
      refine ⟨?_, fun x hx => by simp only [Array.toList_push, List.mem_append]; exact Or.inl hx⟩
      intro ev hev
      cases d <;> simp at hev
      · subst hev; rfl
      · rcases hev with rfl | rfl <;> rfl
    | _ => exact triv
  | createAtomic d =>
    cases r with
    | ent e =>
      simp only [entEvents]
      refine ⟨?_, fun x hx => by simp only [Array.toList_push, List.mem_append]; exact Or.inl hx⟩
      intro ev hev
      cases d <;> simp at hev
      · subst hev; rfl
      · rcases hev with rfl | rfl <;> rfl
    | _ => exact triv
  | createIterNow n =>
    cases r with
    | ents es =>
      simp only [entEvents]
      refine ⟨?_, fun x hx => by simp only [Array.toList_append, List.mem_append]; exact Or.inl hx⟩
      intro ev hev
      obtain ⟨x, _, rfl⟩ := List.mem_map.mp hev; rfl
    | _ => exact triv
  | createIterAtomic n =>
    cases r with
    | ents es =>
      simp only [entEvents]
      refine ⟨?_, fun x hx => by simp only [Array.toList_append, List.mem_append]; exact Or.inl hx⟩
      intro ev hev
      obtain ⟨x, _, rfl⟩ := List.mem_map.mp hev; rfl
    | _ => exact triv
  | delAtomic h =>
    cases r with
    | kill r' =>
      simp only [entEvents]
      cases resolve log h with
      | none => exact triv
      | some e =>
        refine ⟨?_, fun x hx => hx⟩
        intro ev hev; simp at hev; subst hev; rfl
    | _ => exact triv
  | alive h =>
    cases r with
    | bool b =>
      simp only [entEvents]
      cases resolve log h with
      | none => exact triv
      | some e =>
        refine ⟨?_, fun x hx => hx⟩
        intro ev hev; simp at hev; subst hev; rfl
    | _ => exact triv
  | walive h => cases r <;> exact triv
  | ejoin =>
    cases r with
    | ents es =>
      simp only [entEvents]
      refine ⟨?_, fun x hx => hx⟩
      intro ev hev; simp at hev; subst hev; rfl
    | _ => exact triv

namespace World

theorem occ_mono {ew ew' : EWorld} {s s' : EntSpec} (h : WR ew s) (h' : WR ew' s')
    (hl : ∀ x, x ∈ s.live → x ∈ s'.live) : ∀ j, ew.alloc.occ j = true → ew'.alloc.occ j = true := by
  intro j hj
  have := hl _ (h.r.live_of_occ j hj)
  exact (h'.r.occ_of_live _ this).1

/-- Replacing the entity world by a later one in which nothing died and the log only grew. -/
theorem inv_ent {w : World} (h : WInvX X w) {ew' : EWorld} {s s' : EntSpec} (hs : WR w.ent s) (hs' : WR ew' s')
    (hl : ∀ x, x ∈ s.live → x ∈ s'.live) (hlog : ∀ e, e ∈ w.ent.log.toList → e ∈ ew'.log.toList) :
    WInvX X { w with ent := ew' } :=
  ⟨⟨s', hs'⟩, h.size, h.good,
    fun k ms hk i hi => (h.owned k ms hk i hi).imp (occ_mono hs hs' hl i) id,
    h.inTable, fun act ha e he => hlog e (h.queueOk act ha e he)⟩

theorem inv_estep {w : World} (h : WInvX X w) (op : EOp) (hp : op.plain = true) :
    WInvX X { w with ent := (w.ent.step op).1 } := by
  obtain ⟨s, hs⟩ := h.ent
  obtain ⟨_, s', hrun, hlog, hW⟩ := step_accept hs op
  obtain ⟨hnd, hmono⟩ := entEvents_plain w.ent.log op (w.ent.step op).2 hp
  exact inv_ent h hs hW (EntSpec.run_nonDel_live _ s s' hnd hrun) (by rw [← hlog]; exact hmono)


/-! ### Deletion -/

theorem kill_seen {s s' : EntSpec} {es : List Entity} {r : KillRes}
    (h : s.step (.kill es r) = .ok s') : s'.seen = s.seen := by
  simp only [EntSpec.step] at h
  split at h
  · cases h; rfl
  · cases h

/-- `World::delete_entities` on logged handles. -/
theorem inv_deleteEntities {w : World} (h : WInvX X w) (es : List Entity)
    (hes : ∀ s, WR w.ent s → ∀ e, e ∈ es → e ∈ s.seen) :
    WInvX X (w.deleteEntities es).1 ∧ ∃ r, (w.deleteEntities es).2 = .e (.kill r) := by
  obtain ⟨s, hs⟩ := h.ent
  have hseen : ∀ e, e ∈ es → e ∈ s.seen := hes s hs
  obtain ⟨a', r, s', hk, hstep, hR⟩ := kill_refine hs.r es hseen
  obtain ⟨a'', r'', hk', hocc⟩ := kill_occ hs.r es hseen
  rw [hk] at hk'; cases hk'
  have hW : WR { w.ent with alloc := a' } s' :=
    ⟨hR, by intro e he; rw [kill_seen hstep]; exact hs.logSeen e he⟩
  simp only [deleteEntities, hk]
  cases r with
  | ok =>
    obtain ⟨w', hdel, hinv⟩ := inv_purge h es hW (by intro j; rw [hocc j]; rfl)
    simp only; rw [hdel]; exact ⟨hinv, .ok, rfl⟩
  | err pos =>
    obtain ⟨w', hdel, hinv⟩ := inv_purge h (es.take pos) hW (by intro j; rw [hocc j]; simp [killedIds])
    simp only; rw [hdel]; exact ⟨hinv, .err pos, rfl⟩

/-! ### Builders -/

/-- `buildComps` inserts at the index of the (alive, logged) entity `e` only. -/
theorem inv_buildComps : ∀ (comps : List (Nat × Int)) (w : World) (e : Entity), WInvX X w →
    e ∈ w.ent.log.toList → (∀ kv, kv ∈ comps → (w.store? kv.1).isSome = true) →
    (∃ w', w.buildComps e comps = .ok w' ∧ WInvX X w' ∧ w'.ent = w.ent) ∨
    (∃ why, w.buildComps e comps = .panic why) := by
  intro comps
  induction comps with
  | nil => intro w e h _ _; exact Or.inl ⟨w, rfl, h, rfl⟩
  | cons kv comps ih =>
    intro w e h he hreg
    obtain ⟨k, v⟩ := kv
    have hk := hreg (k, v) (by simp)
    simp only [buildComps]
    cases hst : w.store? k with
    | none => simp [hst] at hk
    | some m =>
      simp only
      obtain ⟨r, hr, hg⟩ := Masked.good_insert (h.good k m hst) w.ent.alloc e v
      rw [hr]; simp only
      have hinv1 : ∀ d, WInvX X ((w.setStore k r.st).destroy d) := by
        intro d
        obtain ⟨s, hs⟩ := h.ent
        refine inv_setStore h hst hg ?_ d
        intro i hi
        rw [Masked.insert_mask hr i] at hi
        split at hi
        · next hc => exact Or.inr (hc.1 ▸ alive_occ hs he hc.2)
        · exact Or.inl hi
      cases hv : r.val with
      | wrongGen => exact Or.inr ⟨_, rfl⟩
      | inserted =>
        simp only
        have hlt := lt_size_of_store? hst
        rcases ih _ e (hinv1 _) he (by
          intro kv' hkv'
          have := hreg kv' (by simp [hkv'])
          rw [store?_destroy, store?_setStore]
          split
          · rfl
          · exact this) with ⟨w', h1, h2, h3⟩ | ⟨why, h1⟩
        · exact Or.inl ⟨w', h1, h2, h3⟩
        · exact Or.inr ⟨why, h1⟩
      | replaced old =>
        simp only
        rcases ih _ e (hinv1 _) he (by
          intro kv' hkv'
          have := hreg kv' (by simp [hkv'])
          rw [store?_destroy, store?_setStore]
          split
          · rfl
          · exact this) with ⟨w', h1, h2, h3⟩ | ⟨why, h1⟩
        · exact Or.inl ⟨w', h1, h2, h3⟩
        · exact Or.inr ⟨why, h1⟩


theorem inv_killAtomic {w : World} (h : WInvX X w) (e : Entity) (he : e ∈ w.ent.log.toList) :
    ∃ a ok, w.ent.alloc.killAtomic e = .ok (a, ok) ∧ WInvX X { w with ent := { w.ent with alloc := a } } := by
  obtain ⟨s, hs⟩ := h.ent
  obtain ⟨a', ok, s', hk, hstep, hR, _, hseen⟩ := killAtomic_refine hs.r e (hs.logSeen e he)
  refine ⟨a', ok, hk, ?_⟩
  have hW : WR { w.ent with alloc := a' } s' := ⟨hR, by intro x hx; rw [hseen]; exact hs.logSeen x hx⟩
  exact inv_ent h hs hW (EntSpec.step_nonDel_live rfl hstep) (fun x hx => hx)

theorem inv_createWith {w : World} (h : WInvX X w) (atomic dropped : Bool) (comps : List (Nat × Int)) :
    WInvX X (w.createWith atomic dropped comps).1 := by
  unfold createWith
  split
  · exact h
  · next hany =>
    have hreg : ∀ kv, kv ∈ comps → (w.store? kv.1).isSome = true := by
      intro kv hkv
      cases hx : w.store? kv.1 with
      | some _ => rfl
      | none =>
        exfalso; apply hany
        simp only [List.any_eq_true]
        exact ⟨kv, hkv, by simp [hx]⟩
    obtain ⟨s, hs⟩ := h.ent
    obtain ⟨e, s', hres, hrun, hlog, hW⟩ := create_accept hs atomic false
    have hstepinv : WInvX X { w with ent := (if atomic = true then w.ent.createAtomic false else w.ent.createNow false).1 } := by
      refine inv_ent h hs hW ?_ (by rw [hlog]; intro x hx; simp only [Array.toList_push, List.mem_append]; exact Or.inl hx)
      apply EntSpec.run_nonDel_live _ s s' _ hrun
      intro ev hev; simp at hev; subst hev; rfl
    generalize hx : (if atomic = true then w.ent.createAtomic false else w.ent.createNow false) = x at *
    obtain ⟨ew, r⟩ := x
    simp only at hres hlog hstepinv
    subst hres
    simp only
    have he : e ∈ ({ w with ent := ew } : World).ent.log.toList := by
      simp only [hlog, Array.toList_push, List.mem_append, List.mem_singleton, or_true]
    rcases inv_buildComps comps { w with ent := ew } e hstepinv he hreg with ⟨w2, hb, hinv2, hent2⟩ | ⟨why, hb⟩
    · rw [hb]; simp only
      cases dropped with
      | false => exact hinv2
      | true =>
        simp only [if_true]
        obtain ⟨a, ok, hk, hinv3⟩ := inv_killAtomic hinv2 e (by rw [hent2]; exact he)
        rw [hk]
        cases ok with
        | true => exact hinv3
        | false => exact hinv2
    · rw [hb]; exact hstepinv

theorem inv_lazyCreate {w : World} (h : WInvX X w) (comps : List (Nat × Int)) :
    WInvX X (step 0 w (.lazyCreate comps)).1 ∧ ∀ f, step f w (.lazyCreate comps) = step 0 w (.lazyCreate comps) := by
  refine ⟨?_, fun f => by cases f <;> rfl⟩
  simp only [step]
  split
  · exact h
  · obtain ⟨s, hs⟩ := h.ent
    obtain ⟨e, s', hres, hrun, hlog, hW⟩ := create_accept hs true false
    simp only [if_true] at hres hlog hW hrun
    have hinv1 : WInvX X { w with ent := (w.ent.createAtomic false).1 } := by
      refine inv_ent h hs hW ?_ (by rw [hlog]; intro x hx; simp only [Array.toList_push, List.mem_append]; exact Or.inl hx)
      apply EntSpec.run_nonDel_live _ s s' _ hrun
      intro ev hev; simp at hev; subst hev; rfl
    generalize hx : w.ent.createAtomic false = x at *
    obtain ⟨ew, r⟩ := x
    simp only at hres hlog hinv1
    subst hres
    simp only
    -- the fold only appends `.ins _ _ e _` actions
    have key : ∀ (cs : List (Nat × Int)) (w1 : World), WInvX X w1 → e ∈ w1.ent.log.toList →
        WInvX X (cs.foldl (fun (w : World) (kv : Nat × Int) =>
          { w with queue := w.queue ++ [.ins w.nextTag kv.1 e kv.2], nextTag := w.nextTag + 1 }) w1) := by
      intro cs
      induction cs with
      | nil => intro w1 h1 _; exact h1
      | cons kv cs ih =>
        intro w1 h1 he1
        simp only [List.foldl_cons]
        refine ih _ ?_ he1
        refine ⟨h1.ent, h1.size, h1.good, h1.owned, h1.inTable, ?_⟩
        intro act hact x hx
        simp only [List.mem_append, List.mem_singleton] at hact
        rcases hact with hact | rfl
        · exact h1.queueOk act hact x hx
        · simp only [LazyAct.ents, List.mem_singleton] at hx; subst hx; exact he1
    exact key comps _ hinv1 (by simp only [hlog, Array.toList_push, List.mem_append, List.mem_singleton, or_true])


/-! ### Restricted join -/

theorem isAlive_init (id : Nat) : Alloc.init.isAlive ⟨id, 1⟩ = true := by
  simp [Alloc.isAlive, Alloc.curGen, Alloc.genAt, Alloc.init]

/-- The per-item mutable access of a restricted join is `Masked.getMut` without the aliveness
    test (the join only visits members). -/
theorem rjoin_access_good {m : Masked} (hg : m.Good) {id : Nat} (hmem : m.mask.mem id = true)
    (d : Nat) (wr : Option Int) :
    ∃ old, m.inner.get id = .ok old ∧
      (match wr with
       | none => ({ m with inner := m.inner.touch id d } : Masked).Good
       | some v => ∃ inner', (m.inner.touch id d).poke id v = .ok inner' ∧ ({ m with inner := inner' } : Masked).Good) := by
  obtain ⟨r, hr, hgr⟩ := Masked.good_getMut hg Alloc.init ⟨id, 1⟩ d wr
  simp only [Masked.getMut, hmem, isAlive_init, Bool.and_self, if_true] at hr
  cases hget : m.inner.get id with
  | ok old =>
    refine ⟨old, rfl, ?_⟩
    simp only [hget, Masked.lift] at hr
    cases wr with
    | none => simp only at hr ⊢; cases hr; exact hgr
    | some v =>
      simp only at hr ⊢
      cases hp : (m.inner.touch id d).poke id v with
      | ok inner' => simp only [hp] at hr; cases hr; exact ⟨inner', rfl, hgr⟩
      | panic w => simp [hp] at hr
      | ub w => simp [hp] at hr
  | panic w => simp [hget, Masked.lift] at hr
  | ub w => simp [hget, Masked.lift] at hr

theorem inv_rjoinLoop (k : Nat) (mutable : Bool) : ∀ (ids : List Nat) (w : World) (acts : List RAct)
    (acc : List (Nat × ItemRes)), WInvX X w →
    (∀ m, w.store? k = some m → ∀ id, id ∈ ids → m.mask.mem id = true) →
    WInvX X (rjoinLoop w k mutable ids acts acc).1 := by
  intro ids
  induction ids with
  | nil => intro w acts acc h _; exact h
  | cons id ids ih =>
    intro w acts acc h hids
    simp only [rjoinLoop]
    cases hst : w.store? k with
    | none => exact h
    | some m =>
      simp only
      have hmem : m.mask.mem id = true := hids m hst id (by simp)
      have hrest : ∀ m', w.store? k = some m' → ∀ id', id' ∈ ids → m'.mask.mem id' = true :=
        fun m' hm' id' hid' => hids m' hm' id' (by simp [hid'])
      have hlt := lt_size_of_store? hst
      -- replacing the storage by one with the same mask keeps the side condition
      have hkeep : ∀ (m2 : Masked), m2.mask = m.mask → m2.Good →
          WInvX X (w.setStore k m2) ∧ (∀ m', (w.setStore k m2).store? k = some m' → ∀ id', id' ∈ ids → m'.mask.mem id' = true) := by
        intro m2 hmask hg2
        refine ⟨by simpa [destroy] using inv_setStore h hst hg2 (fun i hi => Or.inl (hmask ▸ hi)) [], ?_⟩
        intro m' hm' id' hid'
        rw [store?_setStore] at hm'
        simp only [hlt, and_self, if_true] at hm'
        cases hm'
        rw [hmask]; exact hrest m hst id' hid'
      cases hact : acts.head?.getD RAct.skip with
      | skip => simp only; exact ih w _ _ h hrest
      | get =>
        simp only
        cases m.inner.get id with
        | ok v => exact ih w _ _ h hrest
        | panic why => exact h
        | ub why => exact h
      | getMut d wr =>
        simp only
        cases mutable with
        | false => simp only [Bool.not_false, if_true]; exact ih w _ _ h hrest
        | true =>
          simp only [Bool.not_true, Bool.false_eq_true, if_false]
          obtain ⟨old, hget, hacc⟩ := rjoin_access_good (h.good k m hst) hmem d wr
          simp only [hget]
          cases wr with
          | none =>
            simp only at hacc ⊢
            obtain ⟨h1, h2⟩ := hkeep { m with inner := m.inner.touch id d } rfl hacc
            exact ih _ _ _ h1 h2
          | some v =>
            simp only at hacc ⊢
            obtain ⟨inner', hp, hg'⟩ := hacc
            simp only [hp]
            obtain ⟨h1, h2⟩ := hkeep { m with inner := inner' } rfl hg'
            exact ih _ _ _ h1 h2
      | getOther hd =>
        simp only
        cases resolve w.ent.log hd with
        | none => exact ih w _ _ h hrest
        | some e =>
          simp only
          cases m.getOther w.ent.alloc e with
          | ok r => exact ih w _ _ h hrest
          | panic why => exact h
          | ub why => exact h
      | getOtherMut hd d wr =>
        simp only
        cases mutable with
        | false => simp only [Bool.not_false, if_true]; exact ih w _ _ h hrest
        | true =>
          simp only [Bool.not_true, Bool.false_eq_true, if_false]
          cases resolve w.ent.log hd with
          | none => exact ih w _ _ h hrest
          | some e =>
            simp only
            obtain ⟨r, hr, hg'⟩ := Masked.good_getMut (h.good k m hst) w.ent.alloc e d wr
            simp only [hr]
            obtain ⟨h1, h2⟩ := hkeep r.st (Masked.getMut_mask hr) hg'
            exact ih _ _ _ h1 h2

/-! ### Teardown -/

theorem inv_dropWorld {w : World} (h : WInvX X w) (fuel : Nat) : WInvX X (step fuel w .dropWorld).1 := by
  simp only [step]
  cases w.dropStores w.table [] with
  | ok d =>
    simp only
    refine ⟨h.ent, by simp [numKinds], ?_, ?_, ?_, by simp⟩
    all_goals
      intro k ms hk
      exfalso
      simp only [store?] at hk
      by_cases hk' : k < numKinds
      · simp [Array.getElem?_replicate, hk'] at hk
      · simp [Array.getElem?_replicate, hk'] at hk
  | panic why => exact h
  | ub why => exact h


end World
end SpecsModel
