/-
  The world invariant: allocator/spec coupling, well-formed storages, "components exist only at
  occupied indices" (the core of C05), every storage is in the meta table, queued actions target
  logged handles. Preserved by every operation of the world model, for any fuel.
-/
import SpecsModel.Lemmas.Good
import SpecsModel.Lemmas.MaskFacts
import SpecsModel.Lemmas.AllocOcc
import SpecsModel.Lemmas.EWorldAccept
namespace SpecsModel
open Alloc

def LazyAct.ents : LazyAct → List Entity
  | .ins _ _ e _ => [e]
  | .insAll _ _ items => items.map (·.1)
  | .rem _ _ e => [e]
  | .exec _ _ => []

structure WInv (w : World) : Prop where
  ent : ∃ s, WR w.ent s
  size : w.stores.size = numKinds
  good : ∀ k ms, w.store? k = some ms → ms.Good
  owned : ∀ k ms, w.store? k = some ms → ∀ i, ms.mask.mem i = true → w.ent.alloc.occ i = true
  inTable : ∀ k ms, w.store? k = some ms → k ∈ w.table
  queueOk : ∀ act, act ∈ w.queue → ∀ e, e ∈ act.ents → e ∈ w.ent.log.toList

namespace World

theorem store?_setStore (w : World) (k k' : Nat) (m : Masked) :
    (w.setStore k m).store? k' = if k' = k ∧ k < w.stores.size then some m else w.store? k' := by
  simp only [store?, setStore, Array.getElem?_setIfInBounds]
  by_cases hk : k' = k
  · subst hk
    by_cases hlt : k' < w.stores.size
    · simp [hlt]
    · simp [hlt, Array.getElem?_eq_none (Nat.le_of_not_lt hlt)]
  · simp [hk, Ne.symm hk]

theorem lt_size_of_store? {w : World} {k : Nat} {m : Masked} (h : w.store? k = some m) :
    k < w.stores.size := by
  by_cases hlt : k < w.stores.size
  · exact hlt
  · simp [store?, Array.getElem?_eq_none (Nat.le_of_not_lt hlt)] at h

theorem inv_init : WInv ({} : World) := by
  refine ⟨⟨_, WR_init⟩, by simp [numKinds], ?_, ?_, ?_, by simp⟩
  all_goals
    intro k ms h
    exfalso
    simp only [store?] at h
    by_cases hk : k < numKinds
    · simp [Array.getElem?_replicate, hk] at h
    · simp [Array.getElem?_replicate, hk] at h

/-- A logged handle that is reported alive occupies its index. -/
theorem alive_occ {w : World} {s : EntSpec} (h : WR w.ent s) {e : Entity}
    (he : e ∈ w.ent.log.toList) (hal : w.ent.alloc.isAlive e = true) : w.ent.alloc.occ e.id = true :=
  (h.r.occ_of_live e ((h.r.liveIff e).mpr ⟨h.logSeen e he, hal⟩)).1

/-- Replacing one storage by a good one whose new members sit at occupied indices. -/
theorem inv_setStore {w : World} (h : WInv w) {k : Nat} {ms ms' : Masked}
    (hk : w.store? k = some ms) (hg : ms'.Good)
    (hm : ∀ i, ms'.mask.mem i = true → ms.mask.mem i = true ∨ w.ent.alloc.occ i = true)
    (d : List Int) : WInv ((w.setStore k ms').destroy d) := by
  have hlt := lt_size_of_store? hk
  have hs : ∀ k', ((w.setStore k ms').destroy d).store? k' = if k' = k then some ms' else w.store? k' := by
    intro k'
    have := store?_setStore w k k' ms'
    simp only [hlt, and_true] at this
    exact this
  refine ⟨h.ent, by simpa [destroy, setStore] using h.size, ?_, ?_, ?_, h.queueOk⟩
  · intro k' m' hk'
    rw [hs] at hk'
    split at hk'
    · cases hk'; exact hg
    · exact h.good k' m' hk'
  · intro k' m' hk' i hi
    rw [hs] at hk'
    split at hk'
    · cases hk'
      rcases hm i hi with h1 | h1
      · exact h.owned k ms hk i h1
      · exact h1
    · exact h.owned k' m' hk' i hi
  · intro k' m' hk'
    rw [hs] at hk'
    split at hk'
    · next heq => subst heq; exact h.inTable _ ms hk
    · exact h.inTable k' m' hk'

/-- `applyS` with a result that keeps the storage good and only adds members at occupied indices. -/
theorem inv_applyS {α} {w : World} (h : WInv w) {k : Nat} {ms : Masked} (hk : w.store? k = some ms)
    {o : Out (SRes α)} {r : SRes α} (ho : o = .ok r) (hg : r.st.Good)
    (hm : ∀ i, r.st.mask.mem i = true → ms.mask.mem i = true ∨ w.ent.alloc.occ i = true)
    (f : α → WRes) : WInv (w.applyS k o f).1 := by
  subst ho
  exact inv_setStore h hk hg hm _


/-- A storage operation through a logged handle: good result, new members only at the handle's
    index and only if the handle is alive. -/
theorem inv_applyS_handle {α} {w : World} (h : WInv w) {k hd : Nat} {ms : Masked} {e : Entity}
    (hk : w.store? k = some ms) (hr : resolve w.ent.log hd = some e) (o : Out (SRes α))
    (hgood : ∃ r, o = .ok r ∧ r.st.Good)
    (hmask : ∀ r, o = .ok r → ∀ j, r.st.mask.mem j = true →
      ms.mask.mem j = true ∨ (j = e.id ∧ w.ent.alloc.isAlive e = true))
    (f : α → WRes) : WInv (w.applyS k o f).1 := by
  obtain ⟨r, ho, hg⟩ := hgood
  obtain ⟨s, hs⟩ := h.ent
  refine inv_applyS h hk ho hg ?_ f
  intro i hi
  rcases hmask r ho i hi with h1 | ⟨rfl, hal⟩
  · exact Or.inl h1
  · exact Or.inr (alive_occ hs (resolve_mem hr) hal)

theorem inv_enqueue {w : World} (h : WInv w) (mk : Nat → LazyAct)
    (hents : ∀ t e, e ∈ (mk t).ents → e ∈ w.ent.log.toList) : WInv (w.enqueue mk).1 := by
  refine ⟨h.ent, h.size, h.good, h.owned, h.inTable, ?_⟩
  intro act hact e he
  simp only [enqueue, List.mem_append, List.mem_singleton] at hact
  rcases hact with hact | rfl
  · exact h.queueOk act hact e he
  · exact hents _ e he

theorem resolveAll_zip_mem {log : Array Entity} {ks : List Nat} {es : List Entity} {vs : List Int}
    (h : resolveAll log ks = some es) : ∀ e, e ∈ (es.zip vs).map (·.1) → e ∈ log.toList := by
  intro e he
  obtain ⟨p, hp, rfl⟩ := List.mem_map.mp he
  exact resolveAll_mem h _ (List.of_mem_zip hp).1

theorem inv_register {w : World} (h : WInv w) (k : Nat) : WInv (w.register k) := by
  unfold register
  split
  · next hk =>
    have key : ∀ w' : World, WInv w' → (∀ m, w'.store? k = some m → True) →
        WInv (if w'.table.contains k then w' else { w' with table := w'.table ++ [k] }) := by
      intro w' h' _
      split
      · exact h'
      · refine ⟨h'.ent, h'.size, h'.good, h'.owned, ?_, h'.queueOk⟩
        intro k' m' hk'
        exact List.mem_append_left _ (h'.inTable k' m' hk')
    cases hst : w.store? k with
    | some m =>
      simp only
      have hin := h.inTable k m hst
      have hc : w.table.contains k = true := by simpa using hin
      rw [if_pos hc]; exact h
    | none =>
      simp only
      -- add the empty storage, then the table entry
      have hlt : k < w.stores.size := by rw [h.size]; exact hk
      have hs : ∀ k', (w.setStore k { mask := .empty, inner := newStore k }).store? k' =
          if k' = k then some { mask := .empty, inner := newStore k } else w.store? k' := by
        intro k'; have := store?_setStore w k k' { mask := .empty, inner := newStore k }
        simpa [hlt] using this
      have hnot : ¬ (k ∈ w.table) → True := fun _ => trivial
      by_cases hc : (w.setStore k { mask := .empty, inner := newStore k }).table.contains k = true
      · simp only [hc, if_true]
        refine ⟨h.ent, by simpa [setStore] using h.size, ?_, ?_, ?_, h.queueOk⟩
        · intro k' m' hk'; rw [hs] at hk'; split at hk'
          · cases hk'; exact Masked.good_new k
          · exact h.good k' m' hk'
        · intro k' m' hk' i hi; rw [hs] at hk'; split at hk'
          · cases hk'; simp at hi
          · exact h.owned k' m' hk' i hi
        · intro k' m' hk'; rw [hs] at hk'; split at hk'
          · next heq => subst heq; simpa using hc
          · exact h.inTable k' m' hk'
      · simp only [hc, if_false]
        refine ⟨h.ent, by simpa [setStore] using h.size, ?_, ?_, ?_, h.queueOk⟩
        · intro k' m' hk'
          have hk'' : (w.setStore k { mask := .empty, inner := newStore k }).store? k' = some m' := hk'
          rw [hs] at hk''; split at hk''
          · cases hk''; exact Masked.good_new k
          · exact h.good k' m' hk''
        · intro k' m' hk' i hi
          have hk'' : (w.setStore k { mask := .empty, inner := newStore k }).store? k' = some m' := hk'
          rw [hs] at hk''; split at hk''
          · cases hk''; simp at hi
          · exact h.owned k' m' hk'' i hi
        · intro k' m' hk'
          have hk'' : (w.setStore k { mask := .empty, inner := newStore k }).store? k' = some m' := hk'
          rw [hs] at hk''; split at hk''
          · next heq => subst heq; simp [setStore]
          · simp only [setStore]; exact List.mem_append_left _ (h.inTable k' m' hk'')
  · exact h

end World
end SpecsModel
