/-
  Operation sequences over a masked storage versus the same sequence over a plain map
  (`MapSpec`: an association list kept in ascending key order), and the one-step refinement lemma
  from which Props/C04 derives the sequence theorem.
-/
import SpecsModel.Lemmas.MaskedRep
namespace SpecsModel

/-! ### The plain map -/
namespace MapSpec

def get : List (Nat × Int) → Nat → Option Int
  | [], _ => none
  | (k, v) :: l, i => if k = i then some v else get l i

/-- Insert or overwrite, keeping ascending key order. -/
def set : List (Nat × Int) → Nat → Int → List (Nat × Int)
  | [], i, v => [(i, v)]
  | (k, x) :: l, i, v =>
    if i < k then (i, v) :: (k, x) :: l
    else if i = k then (i, v) :: l
    else (k, x) :: set l i v

def erase (l : List (Nat × Int)) (i : Nat) : List (Nat × Int) := l.filter (fun p => p.1 != i)

def keys (l : List (Nat × Int)) : List Nat := l.map (·.1)

/-- Keys strictly ascending (hence distinct). -/
def Sorted (l : List (Nat × Int)) : Prop := (keys l).Pairwise (· < ·)

/-- Write through a mutable access: only an existing entry can be written. -/
def write (l : List (Nat × Int)) (i : Nat) (w : Option Int) : List (Nat × Int) :=
  match get l i, w with
  | some _, some x => set l i x
  | _, _ => l

/-- `entry(e)` + one entry operation on a live handle. -/
def entry (l : List (Nat × Int)) (i : Nat) : Masked.EntryOp → Masked.EntryRes × List (Nat × Int)
  | .orInsert v _ w =>
    match get l i with
    | some old => (.occupied old, write l i w)
    | none => (.vacant, set l i (w.getD v))
  | .replace v =>
    match get l i with
    | some old => (.occupied old, set l i v)
    | none => (.vacant, set l i v)
  | .remove =>
    match get l i with
    | some old => (.occupied old, erase l i)
    | none => (.vacant, l)

theorem get_set (l : List (Nat × Int)) (i j : Nat) (v : Int) :
    get (set l i v) j = if j = i then some v else get l j := by
  induction l with
  | nil => simp only [set, get]; grind
  | cons p l ih =>
    obtain ⟨k, x⟩ := p
    simp only [set]
    split
    · simp only [get]; grind
    · split
      · simp only [get]; grind
      · simp only [get, ih]; grind

theorem get_set_fun (l : List (Nat × Int)) (i : Nat) (v : Int) :
    get (set l i v) = upd (get l) i (some v) := by
  funext j; rw [get_set]; rfl

theorem get_erase (l : List (Nat × Int)) (i j : Nat) :
    get (erase l i) j = if j = i then none else get l j := by
  induction l with
  | nil => simp [erase, get]
  | cons p l ih =>
    obtain ⟨k, x⟩ := p
    unfold erase at ih ⊢
    simp only [List.filter_cons]
    by_cases h : k = i
    · simp only [h, bne_self_eq_false, Bool.false_eq_true, if_false, ih, get]; grind
    · have : (k != i) = true := by simp [h]
      simp only [this, if_true, get, ih]; grind

theorem get_erase_fun (l : List (Nat × Int)) (i : Nat) :
    get (erase l i) = upd (get l) i none := by
  funext j; rw [get_erase]; rfl

theorem get_nil : get [] = fun _ => none := by funext j; rfl

theorem mem_keys_iff (l : List (Nat × Int)) (i : Nat) : i ∈ keys l ↔ (get l i).isSome = true := by
  induction l with
  | nil => simp [keys, get]
  | cons p l ih =>
    obtain ⟨k, x⟩ := p
    simp only [keys, List.map_cons, List.mem_cons, get] at ih ⊢
    by_cases h : k = i
    · simp [h]
    · simp only [h, if_false, ← ih]
      constructor
      · rintro (h' | h')
        · exact absurd h'.symm h
        · exact h'
      · exact Or.inr

theorem sorted_nodup {l : List (Nat × Int)} (h : Sorted l) : (keys l).Nodup :=
  List.Pairwise.imp (fun hab => Nat.ne_of_lt hab) h

theorem mem_keys_set (l : List (Nat × Int)) (i j : Nat) (v : Int) :
    j ∈ keys (set l i v) ↔ j = i ∨ j ∈ keys l := by
  rw [mem_keys_iff, mem_keys_iff, get_set]
  by_cases h : j = i <;> simp [h]

theorem sorted_set {l : List (Nat × Int)} (h : Sorted l) (i : Nat) (v : Int) :
    Sorted (set l i v) := by
  induction l with
  | nil => simp [Sorted, keys, set]
  | cons p l ih =>
    obtain ⟨k, x⟩ := p
    have hk : ∀ j ∈ keys l, k < j := by
      simp only [Sorted, keys, List.map_cons, List.pairwise_cons] at h
      exact h.1
    have hl : Sorted l := by
      simp only [Sorted, keys, List.map_cons, List.pairwise_cons] at h
      exact h.2
    simp only [set]
    split
    · rename_i hik
      simp only [Sorted, keys, List.map_cons, List.pairwise_cons, List.mem_cons]
      refine ⟨?_, hk, hl⟩
      rintro j (rfl | hj)
      · exact hik
      · exact Nat.lt_trans hik (hk j hj)
    · split
      · rename_i _ hik
        subst hik
        simp only [Sorted, keys, List.map_cons, List.pairwise_cons]
        exact ⟨hk, hl⟩
      · rename_i h1 h2
        have := ih hl
        simp only [Sorted, keys, List.map_cons, List.pairwise_cons] at this ⊢
        refine ⟨?_, this⟩
        intro j hj
        rcases (mem_keys_set l i j v).mp hj with rfl | hj'
        · omega
        · exact hk j hj'

theorem sorted_erase {l : List (Nat × Int)} (h : Sorted l) (i : Nat) : Sorted (erase l i) := by
  unfold Sorted keys erase at *
  exact List.Pairwise.sublist (List.Sublist.map _ List.filter_sublist) h

theorem sorted_drop {l : List (Nat × Int)} (h : Sorted l) (n : Nat) : Sorted (l.drop n) := by
  unfold Sorted keys at *
  exact List.Pairwise.sublist (List.Sublist.map _ (List.drop_sublist n l)) h

theorem get_write_fun (l : List (Nat × Int)) (i : Nat) (w : Option Int) :
    get (write l i w) = PMap.write (get l) i w := by
  unfold write PMap.write
  cases h : get l i with
  | none => rfl
  | some old =>
    cases w with
    | none => rfl
    | some x => simp only [get_set_fun]

theorem sorted_write {l : List (Nat × Int)} (h : Sorted l) (i : Nat) (w : Option Int) :
    Sorted (write l i w) := by
  unfold write
  split
  · exact sorted_set h _ _
  · exact h

theorem entry_spec (l : List (Nat × Int)) (i : Nat) (op : Masked.EntryOp) :
    (entry l i op).1 = (PMap.entry (get l) i op).1 ∧
    get (entry l i op).2 = (PMap.entry (get l) i op).2 := by
  cases op with
  | orInsert v d w =>
    simp only [entry, PMap.entry]
    cases h : get l i <;> simp [get_set_fun, get_write_fun]
  | replace v =>
    simp only [entry, PMap.entry]
    cases h : get l i <;> simp [get_set_fun]
  | remove =>
    simp only [entry, PMap.entry]
    cases h : get l i <;> simp [get_erase_fun]

theorem sorted_entry {l : List (Nat × Int)} (h : Sorted l) (i : Nat) (op : Masked.EntryOp) :
    Sorted (entry l i op).2 := by
  cases op with
  | orInsert v d w =>
    simp only [entry]
    cases get l i
    · exact sorted_set h _ _
    · exact sorted_write h _ _
  | replace v =>
    simp only [entry]
    cases get l i <;> exact sorted_set h _ _
  | remove =>
    simp only [entry]
    cases get l i
    · exact h
    · exact sorted_erase h _

theorem get_of_mem {l : List (Nat × Int)} (hn : (keys l).Nodup) {p : Nat × Int} (hp : p ∈ l) :
    get l p.1 = some p.2 := by
  induction l with
  | nil => simp at hp
  | cons q l ih =>
    obtain ⟨k, x⟩ := q
    simp only [keys, List.map_cons, List.nodup_cons] at hn
    rcases List.mem_cons.mp hp with rfl | hp'
    · simp [get]
    · have hne : k ≠ p.1 := by
        intro e; exact hn.1 (e ▸ List.mem_map.mpr ⟨p, hp', rfl⟩)
      simp only [get, hne, if_false]
      exact ih hn.2 hp'

/-- The first `n` entries are the entries at the first `n` keys. -/
theorem entries_take {l : List (Nat × Int)} (hn : (keys l).Nodup) (n : Nat) :
    PMap.entries (get l) ((keys l).take n) = l.take n := by
  unfold PMap.entries keys
  rw [← List.map_take, List.filterMap_map]
  have : (l.take n).filterMap ((fun i => (get l i).map (fun v => (i, v))) ∘ (·.1)) =
      (l.take n).filterMap some := by
    apply filterMap_congr'
    intro p hp
    have := get_of_mem hn (List.mem_of_mem_take hp)
    simp [this]
  rw [this, List.filterMap_some]

/-- Dropping the first `n` entries erases exactly the first `n` keys. -/
theorem get_drop {l : List (Nat × Int)} (hn : (keys l).Nodup) (n : Nat) :
    get (l.drop n) = PMap.eraseAll (get l) ((keys l).take n) := by
  induction n generalizing l with
  | zero => funext i; simp [PMap.eraseAll]
  | succ n ih =>
    cases l with
    | nil => funext i; simp [PMap.eraseAll, get, keys]
    | cons p l =>
      obtain ⟨k, x⟩ := p
      simp only [keys, List.map_cons, List.nodup_cons] at hn
      have hk : get l k = none := by
        cases hg : get l k with
        | none => rfl
        | some y => exact absurd ((mem_keys_iff l k).mpr (by simp [hg])) hn.1
      simp only [List.drop_succ_cons, keys, List.map_cons, List.take_succ_cons]
      rw [ih hn.2]
      funext i
      simp only [PMap.eraseAll, List.mem_cons, get, keys]
      by_cases hik : i = k
      · subst hik; simp [hk]
      · have : ¬ k = i := fun e => hik e.symm
        by_cases hmem : i ∈ List.take n (List.map (fun x => x.fst) l)
        · simp [hmem]
        · simp [hik, this, hmem]

end MapSpec

/-! ### Operation sequences -/

/-- One operation of the `Storage` API, on a handle. -/
inductive StOp where
  | get (e : Entity)
  | contains (e : Entity)
  | getMut (e : Entity) (derefs : Nat) (write : Option Int)
  | insert (e : Entity) (v : Int)
  | remove (e : Entity)
  | entry (e : Entity) (op : Masked.EntryOp)
  | mutOrDefault (e : Entity) (derefs : Nat) (write : Option Int)
  | drain (n : Nat)
  | clear
  | count
  | isEmpty
  | mask
  deriving Repr, DecidableEq

/-- Observable result of one operation. -/
inductive StRes where
  | opt (v : Option Int)
  | bool (b : Bool)
  | ins (r : Masked.InsRes)
  | entry (r : Masked.EntryRes)
  | pairs (l : List (Nat × Int))
  | unit
  | nat (n : Nat)
  | ids (l : List Nat)
  | fail (why : String)      -- the model reached a `panic` or `ub` outcome
  deriving Repr, DecidableEq

def StRes.isFail : StRes → Bool
  | .fail _ => true
  | _ => false

/-- Values written by the operation are storable: `nb` says the storage is null-based, which can
    only hold the unit value `0`. -/
def StOp.valsOk (nb : Bool) : StOp → Prop
  | .getMut _ _ w => ∀ x, w = some x → nb = true → x = 0
  | .insert _ v => nb = true → v = 0
  | .entry _ (.orInsert v _ w) => (nb = true → v = 0) ∧ ∀ x, w = some x → nb = true → x = 0
  | .entry _ (.replace v) => nb = true → v = 0
  | .mutOrDefault _ _ w => ∀ x, w = some x → nb = true → x = 0
  | _ => True

/-- Kinds that are not null-based accept every value. -/
theorem StOp.valsOk_false (op : StOp) : op.valsOk false := by
  cases op with
  | entry e eop => cases eop <;> simp [StOp.valsOk]
  | _ => simp [StOp.valsOk]

namespace Masked

def ofOut {α} (ms : Masked) (o : Out (SRes α)) (f : α → StRes) : Masked × StRes :=
  match o with
  | .ok r => (r.st, f r.val)
  | .panic w => (ms, .fail w)
  | .ub w => (ms, .fail ("UB: " ++ w))

/-- One operation on the model. -/
def stepOp (a : Alloc) (ms : Masked) : StOp → Masked × StRes
  | .get e =>
    (match ms.get a e with
     | .ok r => (ms, .opt r)
     | .panic w => (ms, .fail w)
     | .ub w => (ms, .fail ("UB: " ++ w)))
  | .contains e => (ms, .bool (ms.contains a e))
  | .getMut e d w => ms.ofOut (ms.getMut a e d w) .opt
  | .insert e v => ms.ofOut (ms.insert a e v) .ins
  | .remove e => ms.ofOut (ms.remove a e) .opt
  | .entry e op => ms.ofOut (ms.entry a e op) .entry
  | .mutOrDefault e d w => ms.ofOut (ms.getMutOrDefault a e d w) .opt
  | .drain n => ms.ofOut (ms.drain n) .pairs
  | .clear => ms.ofOut ms.clear (fun _ => .unit)
  | .count => (ms, .nat ms.mask.count)
  | .isEmpty => (ms, .bool ms.mask.isEmpty)
  | .mask => (ms, .ids ms.mask.toList)

/-- Run a sequence, collecting the results. -/
def runOps (a : Alloc) : Masked → List StOp → Masked × List StRes
  | ms, [] => (ms, [])
  | ms, op :: ops =>
    let (ms', r) := stepOp a ms op
    let (ms'', rs) := runOps a ms' ops
    (ms'', r :: rs)

end Masked

namespace MapSpec

/-- The same operation on the plain map; `alive` is the allocator's verdict on the handle. -/
def stepOp (alive : Entity → Bool) (l : List (Nat × Int)) : StOp → List (Nat × Int) × StRes
  | .get e => (l, .opt (if alive e then get l e.id else none))
  | .contains e => (l, .bool (alive e && (get l e.id).isSome))
  | .getMut e _ w =>
    (if alive e then write l e.id w else l, .opt (if alive e then get l e.id else none))
  | .insert e v =>
    if alive e then
      (set l e.id v, .ins (match get l e.id with | some old => .replaced old | none => .inserted))
    else (l, .ins .wrongGen)
  | .remove e => if alive e then (erase l e.id, .opt (get l e.id)) else (l, .opt none)
  | .entry e op =>
    if alive e then ((entry l e.id op).2, .entry (entry l e.id op).1) else (l, .entry .wrongGen)
  | .mutOrDefault e _ w =>
    if alive e then
      (set l e.id (w.getD ((get l e.id).getD 0)), .opt (some ((get l e.id).getD 0)))
    else (l, .opt none)
  | .drain n => (l.drop n, .pairs (l.take n))
  | .clear => ([], .unit)
  | .count => (l, .nat l.length)
  | .isEmpty => (l, .bool l.isEmpty)
  | .mask => (l, .ids (keys l))

def runOps (alive : Entity → Bool) : List (Nat × Int) → List StOp → List (Nat × Int) × List StRes
  | l, [] => (l, [])
  | l, op :: ops =>
    let (l', r) := stepOp alive l op
    let (l'', rs) := runOps alive l' ops
    (l'', r :: rs)

theorem stepOp_not_fail (alive : Entity → Bool) (l : List (Nat × Int)) (op : StOp) :
    (stepOp alive l op).2.isFail = false := by
  cases op <;> simp only [stepOp] <;> (try split) <;> rfl

theorem runOps_not_fail (alive : Entity → Bool) (l : List (Nat × Int)) (ops : List StOp) :
    ∀ r ∈ (runOps alive l ops).2, r.isFail = false := by
  induction ops generalizing l with
  | nil => simp [runOps]
  | cons op ops ih =>
    simp only [runOps, List.mem_cons]
    rintro r (rfl | hr)
    · exact stepOp_not_fail alive l op
    · exact ih _ r hr


end MapSpec

/-! ### One-step simulation -/

/-- The model state `ms` and the plain map `l` are in correspondence (`nb`: null-based kind). -/
structure Sim (nb : Bool) (ms : Masked) (l : List (Nat × Int)) : Prop where
  rep : Masked.MRep ms (MapSpec.get l)
  sorted : MapSpec.Sorted l
  kind : ms.inner.nullBased = nb

namespace Sim
open Masked MapSpec

theorem valOk {nb : Bool} {ms : Masked} {l : List (Nat × Int)} (h : Sim nb ms l) {x : Int}
    (hx : nb = true → x = 0) : ms.inner.valOk x := by
  rw [UStore.valOk_iff, h.kind]; exact hx

theorem mask_eq {nb : Bool} {ms : Masked} {l : List (Nat × Int)} (h : Sim nb ms l) :
    ms.mask.toList = keys l :=
  mask_toList_eq h.rep h.sorted (fun i => mem_keys_iff l i)

theorem step {nb : Bool} {ms : Masked} {l : List (Nat × Int)} (h : Sim nb ms l) (a : Alloc)
    (op : StOp) (hop : op.valsOk nb) :
    (Masked.stepOp a ms op).2 = (MapSpec.stepOp a.isAlive l op).2 ∧
    Sim nb (Masked.stepOp a ms op).1 (MapSpec.stepOp a.isAlive l op).1 := by
  cases op with
  | get e =>
    simp only [Masked.stepOp, MapSpec.stepOp, get_ref h.rep]
    exact ⟨trivial, h⟩
  | contains e =>
    simp only [Masked.stepOp, MapSpec.stepOp, contains_ref h.rep]
    exact ⟨trivial, h⟩
  | getMut e d w =>
    obtain ⟨r, h1, h2, _, h4, h5⟩ := getMut_ref h.rep a e d w (fun x hx => h.valOk (hop x hx))
    simp only [Masked.stepOp, MapSpec.stepOp, h1, ofOut, h2]
    refine ⟨trivial, ?_, ?_, h5.trans h.kind⟩
    · cases hal : a.isAlive e
      · simpa [hal] using h4
      · simpa [hal, get_write_fun] using h4
    · split
      · exact sorted_write h.sorted _ _
      · exact h.sorted
  | insert e v =>
    obtain ⟨r, h1, h2, h3, _, h5⟩ := insert_ref h.rep a e v (h.valOk hop)
    simp only [Masked.stepOp, MapSpec.stepOp, h1, ofOut, h2]
    cases hal : a.isAlive e
    · simp only [hal, Bool.false_eq_true, if_false] at h3 ⊢
      exact ⟨trivial, h3, h.sorted, h5.trans h.kind⟩
    · simp only [hal, if_true] at h3 ⊢
      exact ⟨rfl, by rw [get_set_fun]; exact h3, sorted_set h.sorted _ _, h5.trans h.kind⟩
  | remove e =>
    obtain ⟨r, h1, h2, _, h4, h5⟩ := remove_ref h.rep a e
    simp only [Masked.stepOp, MapSpec.stepOp, h1, ofOut, h2]
    cases hal : a.isAlive e
    · simp only [hal, Bool.false_eq_true, if_false] at h4 ⊢
      exact ⟨trivial, h4, h.sorted, h5.trans h.kind⟩
    · simp only [hal, if_true] at h4 ⊢
      exact ⟨trivial, by rw [get_erase_fun]; exact h4, sorted_erase h.sorted _, h5.trans h.kind⟩
  | entry e eop =>
    have hvals : entryValsOk ms.inner eop := by
      cases eop with
      | orInsert v d w => exact ⟨h.valOk hop.1, fun x hx => h.valOk (hop.2 x hx)⟩
      | replace v => exact h.valOk hop
      | remove => trivial
    obtain ⟨r, h1, h2, h3, h4, _⟩ := entry_ref h.rep a e eop hvals
    obtain ⟨s1, s2⟩ := entry_spec l e.id eop
    simp only [Masked.stepOp, MapSpec.stepOp, h1, ofOut, h2]
    cases hal : a.isAlive e
    · simp only [hal, Bool.false_eq_true, if_false] at h3 ⊢
      exact ⟨trivial, h3, h.sorted, h4.trans h.kind⟩
    · simp only [hal, if_true] at h3 ⊢
      exact ⟨by rw [s1], by rw [s2]; exact h3, sorted_entry h.sorted _ _, h4.trans h.kind⟩
  | mutOrDefault e d w =>
    obtain ⟨r, h1, h2, h3, h4, _⟩ := getMutOrDefault_ref h.rep a e d w
      (fun x hx => h.valOk (hop x hx))
    simp only [Masked.stepOp, MapSpec.stepOp, h1, ofOut, h2]
    cases hal : a.isAlive e
    · simp only [hal, Bool.false_eq_true, if_false] at h3 ⊢
      exact ⟨trivial, h3, h.sorted, h4.trans h.kind⟩
    · simp only [hal, if_true] at h3 ⊢
      exact ⟨trivial, by rw [get_set_fun]; exact h3, sorted_set h.sorted _ _, h4.trans h.kind⟩
  | drain n =>
    obtain ⟨r, h1, h2, _, h4, h5⟩ := drain_ref h.rep n
    have hn := sorted_nodup h.sorted
    rw [h.mask_eq] at h2 h4
    rw [entries_take hn] at h2
    rw [← get_drop hn] at h4
    simp only [Masked.stepOp, MapSpec.stepOp, h1, ofOut, h2]
    exact ⟨trivial, h4, sorted_drop h.sorted n, h5.trans h.kind⟩
  | clear =>
    obtain ⟨r, h1, h2, _, _, h5⟩ := clear_ref h.rep
    simp only [Masked.stepOp, MapSpec.stepOp, h1, ofOut]
    exact ⟨trivial, by rw [get_nil]; exact h2, by simp [Sorted, keys], h5.trans h.kind⟩
  | count =>
    simp only [Masked.stepOp, MapSpec.stepOp, BSet.count, h.mask_eq, keys, List.length_map]
    exact ⟨trivial, h⟩
  | isEmpty =>
    simp only [Masked.stepOp, MapSpec.stepOp, BSet.isEmpty, h.mask_eq, keys, List.isEmpty_map]
    exact ⟨trivial, h⟩
  | mask =>
    simp only [Masked.stepOp, MapSpec.stepOp, h.mask_eq]
    exact ⟨trivial, h⟩

/-- Sequences: same result list, and the final states still correspond. -/
theorem run {nb : Bool} (a : Alloc) (ops : List StOp) : ∀ {ms : Masked} {l : List (Nat × Int)},
    Sim nb ms l → (∀ op ∈ ops, op.valsOk nb) →
    (Masked.runOps a ms ops).2 = (MapSpec.runOps a.isAlive l ops).2 ∧
    Sim nb (Masked.runOps a ms ops).1 (MapSpec.runOps a.isAlive l ops).1 := by
  induction ops with
  | nil => intro ms l h _; exact ⟨rfl, h⟩
  | cons op ops ih =>
    intro ms l h hops
    obtain ⟨h1, h2⟩ := h.step a op (hops op (by simp))
    obtain ⟨h3, h4⟩ := ih h2 (fun o ho => hops o (by simp [ho]))
    simp only [Masked.runOps, MapSpec.runOps]
    exact ⟨by rw [h1, h3], h4⟩


end Sim

/-! ### The plain-map run depends on the allocator only through the verdict on the handles used -/

def StOp.handle? : StOp → Option Entity
  | .get e | .contains e | .getMut e _ _ | .insert e _ | .remove e | .entry e _
  | .mutOrDefault e _ _ => some e
  | _ => none

namespace MapSpec

theorem stepOp_congr {al1 al2 : Entity → Bool} (l : List (Nat × Int)) (op : StOp)
    (h : ∀ e, op.handle? = some e → al1 e = al2 e) : stepOp al1 l op = stepOp al2 l op := by
  cases op <;> simp only [stepOp] <;> (try rw [h _ rfl])

theorem runOps_congr {al1 al2 : Entity → Bool} (ops : List StOp) :
    ∀ (l : List (Nat × Int)), (∀ op ∈ ops, ∀ e, op.handle? = some e → al1 e = al2 e) →
    runOps al1 l ops = runOps al2 l ops := by
  induction ops with
  | nil => intro l _; rfl
  | cons op ops ih =>
    intro l h
    simp only [runOps]
    rw [stepOp_congr l op (h op (by simp)), ih _ (fun o ho => h o (by simp [ho]))]

end MapSpec


end SpecsModel
