/-
  Every operation of the world model preserves the world invariant `WInvX X`, for any fuel —
  including `maintain` with arbitrarily nested lazily executed scripts.
-/
import SpecsModel.Lemmas.WorldInv
namespace SpecsModel
open Alloc
namespace World
variable {X : Nat → Prop}

/-- A handle-taking storage op: unregistered / empty log / applied to the storage. -/
theorem inv_handle_case {α} {w : World} (h : WInvX X w) (k hd : Nat)
    (f : Masked → Alloc → Entity → Out (SRes α)) (g : α → WRes)
    (hgood : ∀ ms a e, ms.Good → ∃ r, f ms a e = .ok r ∧ r.st.Good)
    (hmask : ∀ ms a e r, f ms a e = .ok r → ∀ j, r.st.mask.mem j = true →
      ms.mask.mem j = true ∨ (j = e.id ∧ a.isAlive e = true)) :
    WInvX X (match w.store? k, resolve w.ent.log hd with
      | none, _ => (w, WRes.noStore)
      | _, none => (w, WRes.skip)
      | some m, some e => w.applyS k (f m w.ent.alloc e) g).1 := by
  cases hst : w.store? k with
  | none => exact h
  | some m =>
    cases hr : resolve w.ent.log hd with
    | none => exact h
    | some e =>
      exact inv_applyS_handle h hst hr _ (hgood m _ e (h.good k m hst)) (hmask m _ e) g

theorem inv_estep' {w : World} (h : WInvX X w) (op : EOp) (hp : op.plain = true) :
    WInvX X (match w.ent.step op with | (ew, r) => (({ w with ent := ew } : World), WRes.e r)).1 := by
  have := inv_estep h op hp
  generalize w.ent.step op = x at *
  obtain ⟨ew, r⟩ := x
  exact this

theorem inv_step_ent_nonmerge (fuel : Nat) {w : World} (h : WInvX X w) (eop : EOp) (hne : eop ≠ .merge) :
    WInvX X (step fuel w (.ent eop)).1 := by
  cases eop with
  | merge => exact absurd rfl hne
  | delAll =>
    simp only [step]
    obtain ⟨hinv, r, hr⟩ := inv_deleteEntities h w.ent.alloc.joinEntities (by
      intro s hs e he
      exact ((hs.r.liveIff e).mp ((mem_live_iff hs.r e).mpr ((mem_joinEntities hs.r.inv e).mp he))).1)
    generalize w.deleteEntities w.ent.alloc.joinEntities = x at *
    obtain ⟨w', res⟩ := x
    simp only at hr hinv; subst hr
    cases r <;> exact hinv
  | delNow hd =>
    simp only [step]
    cases hr : resolve w.ent.log hd with
    | none => exact h
    | some e =>
      exact (inv_deleteEntities h [e] (by
        intro s hs x hx; simp only [List.mem_singleton] at hx; subst hx
        exact hs.logSeen _ (resolve_mem hr))).1
  | delBatch hds =>
    simp only [step]
    cases hr : resolveAll w.ent.log hds with
    | none => exact h
    | some es =>
      exact (inv_deleteEntities h es (by
        intro s hs x hx; exact hs.logSeen _ (resolveAll_mem hr x hx))).1
  | createNow d => simp only [step]; exact inv_estep' h (.createNow d) rfl
  | createAtomic d => simp only [step]; exact inv_estep' h (.createAtomic d) rfl
  | createIterNow n => simp only [step]; exact inv_estep' h (.createIterNow n) rfl
  | createIterAtomic n => simp only [step]; exact inv_estep' h (.createIterAtomic n) rfl
  | delAtomic hd => simp only [step]; exact inv_estep' h (.delAtomic hd) rfl
  | alive hd => simp only [step]; exact inv_estep' h (.alive hd) rfl
  | walive hd => simp only [step]; exact inv_estep' h (.walive hd) rfl
  | ejoin => simp only [step]; exact inv_estep' h .ejoin rfl

/-- All operations except `maintain`. -/
theorem inv_step_nonrec (fuel : Nat) {w : World} (h : WInvX X w) (op : WOp) (hop : op ≠ .ent .merge) :
    WInvX X (step fuel w op).1 := by
  cases op with
  | ent eop => exact inv_step_ent_nonmerge fuel h eop (fun he => hop (he ▸ rfl))
  | reg k path => simp only [step]; exact inv_register h k
  | createWith atomic dropped comps => simp only [step]; exact inv_createWith h atomic dropped comps
  | get k hd =>
    simp only [step]
    cases w.store? k with
    | none => exact h
    | some m =>
      cases resolve w.ent.log hd with
      | none => exact h
      | some e => simp only; cases m.get w.ent.alloc e <;> exact h
  | getMut k hd d wr =>
    simp only [step]
    exact inv_handle_case h k hd (fun ms a e => ms.getMut a e d wr) .opt
      (fun ms a e hg => Masked.good_getMut hg a e d wr)
      (fun ms a e r hr j hj => Or.inl (Masked.getMut_mask hr ▸ hj))
  | has k hd =>
    simp only [step]
    cases w.store? k with
    | none => exact h
    | some m => cases resolve w.ent.log hd <;> exact h
  | ins k hd v =>
    simp only [step]
    exact inv_handle_case h k hd (fun ms a e => ms.insert a e v) .ins
      (fun ms a e hg => Masked.good_insert hg a e v)
      (fun ms a e r hr j hj => by
        rw [Masked.insert_mask hr j] at hj
        split at hj
        · next hc => exact Or.inr hc
        · exact Or.inl hj)
  | rem k hd =>
    simp only [step]
    exact inv_handle_case h k hd (fun ms a e => ms.remove a e) .opt
      (fun ms a e hg => Masked.good_remove hg a e)
      (fun ms a e r hr j hj => Or.inl (Masked.remove_mask hr j hj))
  | entry k hd eop =>
    simp only [step]
    exact inv_handle_case h k hd (fun ms a e => ms.entry a e eop) .entry
      (fun ms a e hg => Masked.good_entry hg a e eop)
      (fun ms a e r hr j hj => Masked.entry_mask hr j hj)
  | mutOrDefault k hd d wr =>
    simp only [step]
    exact inv_handle_case h k hd (fun ms a e => ms.getMutOrDefault a e d wr) .opt
      (fun ms a e hg => Masked.good_getMutOrDefault hg a e d wr)
      (fun ms a e r hr j hj => Masked.getMutOrDefault_mask hr j hj)
  | count k => simp only [step]; cases w.store? k <;> exact h
  | isEmpty k => simp only [step]; cases w.store? k <;> exact h
  | mask k => simp only [step]; cases w.store? k <;> exact h
  | clear k =>
    simp only [step]
    cases hst : w.store? k with
    | none => exact h
    | some m =>
      obtain ⟨r, hr, hg⟩ := Masked.good_clear (h.good k m hst)
      exact inv_applyS h hst hr hg (fun i hi => by rw [Masked.clear_mask hr i] at hi; cases hi) _
  | drain k n =>
    simp only [step]
    cases hst : w.store? k with
    | none => exact h
    | some m =>
      obtain ⟨r, hr, hg⟩ := Masked.good_drain (h.good k m hst) n
      exact inv_applyS h hst hr hg (fun i hi => Or.inl (Masked.drain_mask hr i hi)) _
  | slice k => simp only [step]; cases w.store? k <;> exact h
  | emit k b =>
    simp only [step]
    cases hst : w.store? k with
    | none => exact h
    | some m =>
      simpa [destroy] using inv_setStore h hst (Masked.good_setEmit (h.good k m hst) b) (fun i hi => Or.inl hi) []
  | events k =>
    simp only [step]
    cases hst : w.store? k with
    | none => exact h
    | some m =>
      simp only
      cases m.inner.events with
      | none => exact h
      | some ev => exact ⟨h.ent, h.size, h.good, h.owned, h.inTable, h.queueOk⟩
  | lazyIns k hd v =>
    simp only [step]
    cases w.store? k with
    | none => exact h
    | some m =>
      cases hr : resolve w.ent.log hd with
      | none => exact h
      | some e =>
        exact inv_enqueue h _ (by
          intro t x hx; simp only [LazyAct.ents, List.mem_singleton] at hx; subst hx; exact resolve_mem hr)
  | lazyInsAll k items =>
    simp only [step]
    cases w.store? k with
    | none => exact h
    | some m =>
      cases hr : resolveAll w.ent.log (items.map (·.1)) with
      | none => exact h
      | some es =>
        exact inv_enqueue h _ (by
          intro t x hx; simp only [LazyAct.ents] at hx; exact resolveAll_zip_mem hr x hx)
  | lazyRem k hd =>
    simp only [step]
    cases w.store? k with
    | none => exact h
    | some m =>
      cases hr : resolve w.ent.log hd with
      | none => exact h
      | some e =>
        exact inv_enqueue h _ (by
          intro t x hx; simp only [LazyAct.ents, List.mem_singleton] at hx; subst hx; exact resolve_mem hr)
  | lazyCreate comps => rw [(inv_lazyCreate h comps).2 fuel]; exact (inv_lazyCreate h comps).1
  | lazyExec script =>
    simp only [step]
    exact inv_enqueue h _ (by intro t x hx; simp [LazyAct.ents] at hx)
  | rjoin k mutable acts =>
    simp only [step]
    cases hst : w.store? k with
    | none => exact h
    | some m =>
      exact inv_rjoinLoop k mutable _ w acts [] h (by
        intro m' hm' id hid
        rw [hst] at hm'; cases hm'
        exact (BSet.mem_toList _ _).mp hid)
  | dropWorld => exact inv_dropWorld h fuel

/-- A queued non-script action at the moment it runs. -/
theorem inv_runAct_nonexec (fuel : Nat) {w : World} (h : WInvX X w) (act : LazyAct)
    (hents : ∀ e, e ∈ act.ents → e ∈ w.ent.log.toList) (hne : ∀ t s, act ≠ .exec t s) :
    WInvX X (runAct fuel w act) := by
  obtain ⟨s, hs⟩ := h.ent
  have one : ∀ (w1 : World) (k : Nat) (e : Entity) (v : Int), WInvX X w1 → e ∈ w1.ent.log.toList →
      WInvX X (match w1.store? k with
        | none => w1
        | some m =>
          match m.insert w1.ent.alloc e v with
          | .ok r => (w1.setStore k r.st).destroy (r.destroyed ++ (match r.val with | .replaced old => [old] | _ => []))
          | _ => w1) := by
    intro w1 k e v h1 he
    cases hst : w1.store? k with
    | none => exact h1
    | some m =>
      simp only
      obtain ⟨r, hr, hg⟩ := Masked.good_insert (h1.good k m hst) w1.ent.alloc e v
      rw [hr]; simp only
      obtain ⟨s1, hs1⟩ := h1.ent
      refine inv_setStore h1 hst hg ?_ _
      intro i hi
      rw [Masked.insert_mask hr i] at hi
      split at hi
      · next hc => exact Or.inr (hc.1 ▸ alive_occ hs1 he hc.2)
      · exact Or.inl hi
  cases act with
  | ins t k e v =>
    simp only [runAct]
    exact one w k e v h (hents e (by simp [LazyAct.ents]))
  | insAll t k items =>
    simp only [runAct]
    have key : ∀ (items : List (Entity × Int)) (w1 : World), WInvX X w1 →
        (∀ p, p ∈ items → p.1 ∈ w1.ent.log.toList) →
        (∀ w2 : World, w2.ent = w1.ent → True) →
        WInvX X (items.foldl (fun (w : World) (ev : Entity × Int) =>
          match w.store? k with
          | none => w
          | some m =>
            match m.insert w.ent.alloc ev.1 ev.2 with
            | .ok r => (w.setStore k r.st).destroy (r.destroyed ++ (match r.val with | .replaced old => [old] | _ => []))
            | _ => w) w1) := by
      intro items
      induction items with
      | nil => intro w1 h1 _ _; exact h1
      | cons p items ih =>
        intro w1 h1 hp _
        simp only [List.foldl_cons]
        have hstep := one w1 k p.1 p.2 h1 (hp p (by simp))
        refine ih _ hstep ?_ (fun _ _ => trivial)
        intro q hq
        have hq' := hp q (by simp [hq])
        -- the log is unchanged by the insertion
        cases hst : w1.store? k with
        | none => simpa [hst] using hq'
        | some m =>
          simp only [hst]
          cases m.insert w1.ent.alloc p.1 p.2 with
          | ok r => simpa [destroy, setStore] using hq'
          | panic w => exact hq'
          | ub w => exact hq'
    exact key items w h (by
      intro p hp; exact hents p.1 (by simp only [LazyAct.ents, List.mem_map]; exact ⟨p, hp, rfl⟩)) (fun _ _ => trivial)
  | rem t k e =>
    simp only [runAct]
    cases hst : w.store? k with
    | none => exact h
    | some m =>
      simp only
      obtain ⟨r, hr, hg⟩ := Masked.good_remove (h.good k m hst) w.ent.alloc e
      rw [hr]; simp only
      exact inv_setStore h hst hg (fun i hi => Or.inl (Masked.remove_mask hr i hi)) _
  | exec t s => exact absurd rfl (hne t s)

/-- `maintain` up to the point where the lazy queue starts: merge and purge re-establish the
    invariant (or the model reports a panic in a state that satisfies it). -/
theorem inv_maintain_pre {w : World} (h : WInvX X w) :
    ∃ w2, WInvX X w2 ∧
      (∀ fuel, maintain (fuel + 1) w = ((runQueue fuel w2 []).1, .acts (runQueue fuel w2 []).2)) ∧
      (maintain 0 w).1 = w2 ∧
      (∀ j, w2.ent.alloc.occ j = (w.ent.alloc.occ j && !w.ent.alloc.killed.mem j)) ∧
      w2.ent.log = w.ent.log ∧ w2.queue = w.queue := by
  obtain ⟨s, hs⟩ := h.ent
  obtain ⟨a', del, s', hm, hstep, hR⟩ := merge_refine hs.r
  obtain ⟨a'', hm', _, hocc, _, _, _, _⟩ := merge_spec hs.r.inv
  rw [hm] at hm'; cases hm'
  have hseen : s'.seen = s.seen := by simp only [EntSpec.step] at hstep; cases hstep; rfl
  have hW : WR { w.ent with alloc := a' } s' := ⟨hR, by intro e he; rw [hseen]; exact hs.logSeen e he⟩
  by_cases hd : (w.ent.alloc.killed.toList.map (fun i => (⟨i, w.ent.alloc.top i⟩ : Entity))).isEmpty = true
  · -- nothing was deleted: occupancy is unchanged
    have hnil : w.ent.alloc.killed.toList = [] := by
      cases hl : w.ent.alloc.killed.toList with
      | nil => rfl
      | cons x xs => simp [hl] at hd
    have hk : ∀ j, w.ent.alloc.killed.mem j = false := by
      intro j
      cases hj : w.ent.alloc.killed.mem j with
      | false => rfl
      | true => have := (BSet.mem_toList _ _).mpr hj; rw [hnil] at this; cases this
    have hinv1 : WInvX X { w with ent := { w.ent with alloc := a' } } :=
      ⟨⟨s', hW⟩, h.size, h.good,
        fun k ms hk' i hi => by
          rcases h.owned k ms hk' i hi with ho | hx
          · left
            show a'.occ i = true
            rw [hocc i, ho, hk i]; rfl
          · exact Or.inr hx,
        h.inTable, h.queueOk⟩
    refine ⟨_, hinv1, ?_, ?_, hocc, rfl, rfl⟩
    · intro fuel; simp only [maintain, hm, hd, if_true]
    · simp only [maintain, hm, hd, if_true]
  · obtain ⟨w2, hdel, hinv2⟩ := inv_purge h (w.ent.alloc.killed.toList.map (fun i => (⟨i, w.ent.alloc.top i⟩ : Entity))) hW (by
      intro j
      rw [hocc j]
      congr 1
      simp only [List.map_map, Function.comp_def, List.map_id']
      cases hj : w.ent.alloc.killed.mem j with
      | false =>
        have : ¬ j ∈ w.ent.alloc.killed.toList := fun hc => by
          have := (BSet.mem_toList _ _).mp hc; rw [hj] at this; cases this
        simp [this]
      | true =>
        have : j ∈ w.ent.alloc.killed.toList := (BSet.mem_toList _ _).mpr hj
        simp [this])
    have hfr := LazyQ.deleteComponents_frame _ _ _ _ hdel
    refine ⟨w2, hinv2, ?_, ?_, by rw [hfr.ent]; exact hocc, by rw [hfr.ent], by rw [hfr.queue]⟩
    · intro fuel; simp only [maintain, hm, hd, Bool.false_eq_true, if_false]; rw [hdel]
    · simp only [maintain, hm, hd, Bool.false_eq_true, if_false]; rw [hdel]

/-- The five mutually recursive functions all preserve the invariant. -/
theorem inv_mutual : ∀ fuel : Nat,
    (∀ w op, WInvX X w → WInvX X (step fuel w op).1) ∧
    (∀ tag w ops, WInvX X w → WInvX X (runScript fuel tag w ops)) ∧
    (∀ w act, WInvX X w → (∀ e, e ∈ act.ents → e ∈ w.ent.log.toList) → WInvX X (runAct fuel w act)) ∧
    (∀ w acc, WInvX X w → WInvX X (runQueue fuel w acc).1) ∧
    (∀ w, WInvX X w → WInvX X (maintain fuel w).1) := by
  intro fuel
  induction fuel with
  | zero =>
    refine ⟨?_, ?_, ?_, ?_, ?_⟩
    · intro w op h
      by_cases hop : op = .ent .merge
      · subst hop; simp only [step]; exact h
      · exact inv_step_nonrec 0 h op hop
    · intro tag w ops h; cases ops <;> simpa [runScript] using h
    · intro w act h hents
      cases act with
      | exec t s => simpa [runAct] using h
      | _ => exact inv_runAct_nonexec 0 h _ hents (by intro t s hc; cases hc)
    · intro w acc h; simpa [runQueue] using h
    · intro w h
      obtain ⟨w2, hinv2, _, h0, _⟩ := inv_maintain_pre h
      rw [h0]; exact hinv2
  | succ n ih =>
    obtain ⟨ihStep, ihScript, ihAct, ihQueue, ihMaint⟩ := ih
    have hQueue : ∀ w acc, WInvX X w → WInvX X (runQueue (n + 1) w acc).1 := by
      intro w acc h
      simp only [runQueue]
      cases hq : w.queue with
      | nil => exact h
      | cons act rest =>
        simp only
        apply ihQueue
        have h1 : WInvX X { w with queue := rest } :=
          ⟨h.ent, h.size, h.good, h.owned, h.inTable,
            fun a ha e he => h.queueOk a (by rw [hq]; exact List.mem_cons_of_mem _ ha) e he⟩
        exact ihAct _ act h1 (fun e he => h.queueOk act (by rw [hq]; exact List.mem_cons_self) e he)
    refine ⟨?_, ?_, ?_, hQueue, ?_⟩
    · intro w op h
      by_cases hop : op = .ent .merge
      · subst hop; simp only [step]; exact ihMaint w h
      · exact inv_step_nonrec (n + 1) h op hop
    · intro tag w ops h
      cases ops with
      | nil => simpa [runScript] using h
      | cons op ops =>
        simp only [runScript]
        apply ihScript
        have := ihStep w op h
        generalize step n w op = x at *
        obtain ⟨w', r⟩ := x
        exact ⟨this.ent, this.size, this.good, this.owned, this.inTable, this.queueOk⟩
    · intro w act h hents
      cases act with
      | exec t s => simp only [runAct]; exact ihScript t w s h
      | ins t k e v => exact inv_runAct_nonexec _ h _ hents (by intro t s hc; cases hc)
      | insAll t k items => exact inv_runAct_nonexec _ h _ hents (by intro t s hc; cases hc)
      | rem t k e => exact inv_runAct_nonexec _ h _ hents (by intro t s hc; cases hc)
    · intro w h
      obtain ⟨w2, hinv2, hrun, _, _⟩ := inv_maintain_pre h
      rw [hrun n]; exact ihQueue w2 [] hinv2

/-- **Every reachable world satisfies the invariant**: any op list, any fuel. -/
theorem inv_run (fuel : Nat) : ∀ (ops : List WOp) (w : World), WInvX X w →
    WInvX X (ops.foldl (fun w op => (step fuel w op).1) w) := by
  intro ops
  induction ops with
  | nil => intro w h; exact h
  | cons op ops ih => intro w h; exact ih _ ((inv_mutual fuel).1 w op h)

end World
end SpecsModel
