/-
  Properties of the inner storage preserved by the `UnprotectedStorage` functions
  (`UStore.Preserved`: the well-formedness invariant `UStore.WF`, the kind) are preserved by
  every `Storage` API function and every operation sequence; with `WF`, `clear` (= `Drop for
  MaskedStorage`) destroys every stored value exactly once (`Masked.clear_perm`).
-/
import SpecsModel.Lemmas.StoreClean
import SpecsModel.Lemmas.StoreSeq
namespace SpecsModel
namespace Masked
open UStore

theorem lift_eq_ok {α β} {o : Out α} {f : α → Out β} {r : β} (h : lift o f = .ok r) :
    ∃ x, o = .ok x ∧ f x = .ok r := by
  cases o with
  | ok x => exact ⟨x, rfl, h⟩
  | panic w => cases h
  | ub w => cases h

/-! In this file `P` is any property of the inner storage preserved by the `UnprotectedStorage`
    functions (`UStore.Preserved`), e.g. `UStore.WF` or "is / is not default-filled". -/

theorem ofOut_wf {P : UStore → Prop} {α} {ms : Masked} (hw : P ms.inner) {o : Out (SRes α)}
    (f : α → StRes)
    (h : ∀ r, o = .ok r → P r.st.inner) : P (ms.ofOut o f).1.inner := by
  cases o with
  | ok r => exact h r rfl
  | panic w => exact hw
  | ub w => exact hw

section
variable {P : UStore → Prop} (hP : Preserved P)
include hP

theorem getMut_wf {ms : Masked} (hw : P ms.inner) {a : Alloc} {e : Entity} {d : Nat}
    {w : Option Int} {r : SRes (Option Int)} (h : ms.getMut a e d w = .ok r) : P r.st.inner := by
  unfold getMut at h
  split at h
  · obtain ⟨old, _, h2⟩ := lift_eq_ok h
    cases w with
    | none => cases h2; exact hP.touch _ _ hw
    | some v =>
      obtain ⟨s', h3, h4⟩ := lift_eq_ok h2
      cases h4
      exact hP.poke (hP.touch _ _ hw) h3
  · cases h; exact hw

theorem notPresentInsert_wf {ms : Masked} (hw : P ms.inner) {i : Nat} {v : Int} {r : SRes Unit}
    (h : ms.notPresentInsert i v = .ok r) : P r.st.inner := by
  unfold notPresentInsert at h
  obtain ⟨⟨s', dd⟩, h1, h2⟩ := lift_eq_ok h
  cases h2
  exact hP.insert hw h1

theorem insert_wf' {ms : Masked} (hw : P ms.inner) {a : Alloc} {e : Entity} {v : Int}
    {r : SRes InsRes} (h : ms.insert a e v = .ok r) : P r.st.inner := by
  unfold insert at h
  split at h
  · split at h
    · obtain ⟨old, _, h2⟩ := lift_eq_ok h
      obtain ⟨s', h3, h4⟩ := lift_eq_ok h2
      cases h4
      exact hP.poke (hP.touch _ _ hw) h3
    · obtain ⟨r1, h1, h2⟩ := lift_eq_ok h
      cases h2
      exact notPresentInsert_wf hP hw h1
  · cases h; exact hw

theorem removeId_wf {ms : Masked} (hw : P ms.inner) {i : Nat} {r : SRes (Option Int)}
    (h : ms.removeId i = .ok r) : P r.st.inner := by
  unfold removeId at h
  split at h
  · obtain ⟨⟨s', v⟩, h1, h2⟩ := lift_eq_ok h
    cases h2
    exact hP.remove hw h1
  · cases h; exact hw

theorem remove_wf' {ms : Masked} (hw : P ms.inner) {a : Alloc} {e : Entity}
    {r : SRes (Option Int)} (h : ms.remove a e = .ok r) : P r.st.inner := by
  unfold remove at h
  split at h
  · exact removeId_wf hP hw h
  · cases h; exact hw

theorem dropId_wf {ms : Masked} (hw : P ms.inner) {i : Nat} {r : SRes Unit}
    (h : ms.dropId i = .ok r) : P r.st.inner := by
  unfold dropId at h
  split at h
  · obtain ⟨⟨s', v⟩, h1, h2⟩ := lift_eq_ok h
    cases h2
    exact hP.remove hw h1
  · cases h; exact hw

theorem dropAll_wf : ∀ (es : List Entity) {ms : Masked} (_ : P ms.inner) {acc : List Int}
    {r : SRes Unit}, ms.dropAll es acc = .ok r → P r.st.inner := by
  intro es
  induction es with
  | nil => intro ms hw acc r h; cases h; exact hw
  | cons e es ih =>
    intro ms hw acc r h
    simp only [dropAll] at h
    obtain ⟨r1, h1, h2⟩ := lift_eq_ok h
    exact ih (dropId_wf hP hw h1) h2

theorem clear_wf {ms : Masked} (hw : P ms.inner) {r : SRes Unit} (h : ms.clear = .ok r) :
    P r.st.inner := by
  unfold clear at h
  obtain ⟨⟨s', dd⟩, h1, h2⟩ := lift_eq_ok h
  cases h2
  exact hP.clean hw h1

theorem drainLoop_wf : ∀ (ids : List Nat) {ms : Masked} (_ : P ms.inner) {n : Nat}
    {acc : List (Nat × Int)} {r : SRes (List (Nat × Int))},
    ms.drainLoop ids n acc = .ok r → P r.st.inner := by
  intro ids
  induction ids with
  | nil => intro ms hw n acc r h; cases h; exact hw
  | cons id ids ih =>
    intro ms hw n acc r h
    cases n with
    | zero => cases h; exact hw
    | succ n =>
      simp only [drainLoop] at h
      obtain ⟨r1, h1, h2⟩ := lift_eq_ok h
      split at h2
      · exact ih (removeId_wf hP hw h1) h2
      · cases h2

theorem drain_wf {ms : Masked} (hw : P ms.inner) {n : Nat} {r : SRes (List (Nat × Int))}
    (h : ms.drain n = .ok r) : P r.st.inner := drainLoop_wf hP _ hw h

theorem entry_wf {ms : Masked} (hw : P ms.inner) {a : Alloc} {e : Entity} {op : EntryOp}
    {r : SRes EntryRes} (h : ms.entry a e op = .ok r) : P r.st.inner := by
  unfold entry at h
  split at h
  · dsimp only at h
    split at h
    · cases op with
      | orInsert v0 d w =>
        dsimp only at h
        obtain ⟨old, _, h2⟩ := lift_eq_ok h
        cases w with
        | none => cases h2; exact hP.touch _ _ hw
        | some v =>
          obtain ⟨s', h3, h4⟩ := lift_eq_ok h2
          cases h4
          exact hP.poke (hP.touch _ _ hw) h3
      | replace v =>
        dsimp only at h
        obtain ⟨old, _, h2⟩ := lift_eq_ok h
        obtain ⟨s', h3, h4⟩ := lift_eq_ok h2
        cases h4
        exact hP.poke (hP.touch _ _ hw) h3
      | remove =>
        dsimp only at h
        obtain ⟨r1, h1, h2⟩ := lift_eq_ok h
        split at h2
        · cases h2; exact removeId_wf hP hw h1
        · cases h2
    · cases op with
      | orInsert v d w =>
        dsimp only at h
        obtain ⟨r1, h1, h2⟩ := lift_eq_ok h
        have hw1 := notPresentInsert_wf hP hw h1
        cases w with
        | none => cases h2; exact hP.touch _ _ hw1
        | some x =>
          obtain ⟨s', h3, h4⟩ := lift_eq_ok h2
          cases h4
          exact hP.poke (hP.touch _ _ hw1) h3
      | replace v =>
        dsimp only at h
        obtain ⟨r1, h1, h2⟩ := lift_eq_ok h
        cases h2
        exact hP.touch _ _ (notPresentInsert_wf hP hw h1)
      | remove => cases h; exact hw
  · cases h; exact hw

theorem getMutOrDefault_wf {ms : Masked} (hw : P ms.inner) {a : Alloc} {e : Entity} {d : Nat}
    {w : Option Int} {r : SRes (Option Int)} (h : ms.getMutOrDefault a e d w = .ok r) :
    P r.st.inner := by
  unfold getMutOrDefault at h
  split at h
  · obtain ⟨r1, h1, h2⟩ := lift_eq_ok h
    have hw1 := insert_wf' hP hw h1
    split at h2
    · cases h2; exact hw1
    · obtain ⟨r2, h3, h4⟩ := lift_eq_ok h2
      cases h4
      exact (getMut_wf hP hw1 h3 : P r2.st.inner)
  · exact getMut_wf hP hw h

/-- Every operation of a sequence preserves `P`. -/
theorem stepOp_wf {ms : Masked} (hw : P ms.inner)
    (a : Alloc) (op : StOp) :
    P (ms.stepOp a op).1.inner := by
  cases op with
  | get e => simp only [stepOp]; split <;> exact hw
  | contains e => exact hw
  | getMut e d w => exact ofOut_wf hw _ (fun r h => getMut_wf hP hw h)
  | insert e v => exact ofOut_wf hw _ (fun r h => insert_wf' hP hw h)
  | remove e => exact ofOut_wf hw _ (fun r h => remove_wf' hP hw h)
  | entry e eop => exact ofOut_wf hw _ (fun r h => entry_wf hP hw h)
  | mutOrDefault e d w => exact ofOut_wf hw _ (fun r h => getMutOrDefault_wf hP hw h)
  | drain n => exact ofOut_wf hw _ (fun r h => drain_wf hP hw h)
  | clear => exact ofOut_wf hw _ (fun r h => clear_wf hP hw h)
  | count => exact hw
  | isEmpty => exact hw
  | mask => exact hw

theorem runOps_wf (a : Alloc) (ops : List StOp) : ∀ {ms : Masked}, P ms.inner →
    P (runOps a ms ops).1.inner := by
  induction ops with
  | nil => intro ms hw; exact hw
  | cons op ops ih =>
    intro ms hw
    simp only [runOps]
    exact ih (stepOp_wf hP hw a op)

end

/-- `MaskedStorage::clear` / `Drop`: the destroyed values are the stored values, each exactly
    once, plus default fillers (zeros, only for the default-filled vector). -/
theorem clear_perm {ms : Masked} {m : Nat → Option Int} (h : MRep ms m) (hw : ms.inner.WF)
    {r : SRes Unit} (hc : ms.clear = .ok r) :
    ∃ fillers : List Int, (∀ x ∈ fillers, x = 0) ∧ (ms.inner.dvecBased = false → fillers = []) ∧
      r.destroyed.Perm (ms.mask.toList.filterMap m ++ fillers) := by
  unfold clear at hc
  obtain ⟨⟨s', dd⟩, h1, h2⟩ := lift_eq_ok hc
  cases h2
  exact clean_perm_fillers h.2 hw h.1 h1

end Masked

/-- The values of the plain map, in key order. -/
theorem MapSpec.filterMap_keys {l : List (Nat × Int)} (hn : (MapSpec.keys l).Nodup) :
    (MapSpec.keys l).filterMap (MapSpec.get l) = l.map (·.2) := by
  unfold MapSpec.keys
  rw [List.filterMap_map, ← List.filterMap_eq_map']
  apply filterMap_congr'
  intro p hp
  simp only [Function.comp, MapSpec.get_of_mem hn hp]

/-- In a state corresponding to the plain map `l`, `clear` destroys the values of `l`, each
    exactly once, plus default fillers. -/
theorem Sim.clear_perm {nb : Bool} {ms : Masked} {l : List (Nat × Int)} (h : Sim nb ms l)
    (hw : ms.inner.WF) :
    ∃ r fillers, ms.clear = .ok r ∧ (∀ x ∈ fillers, x = 0) ∧
      (ms.inner.dvecBased = false → fillers = []) ∧
      r.destroyed.Perm (l.map (·.2) ++ fillers) := by
  obtain ⟨r, hc, _⟩ := Masked.clear_ref h.rep
  obtain ⟨f, h1, h2, h3⟩ := Masked.clear_perm h.rep hw hc
  rw [h.mask_eq, MapSpec.filterMap_keys (MapSpec.sorted_nodup h.sorted)] at h3
  exact ⟨r, f, hc, h1, h2, h3⟩

end SpecsModel
