/-
  C08, world level (continued): restricted joins, and the dispatcher `led_step_nonrec`: every
  operation other than `maintain` preserves `XInv`, does not panic and balances the ledger.
-/
import SpecsModel.Lemmas.LedgerStep2
namespace SpecsModel
open Masked Alloc
namespace World

theorem XInv.setStore' {w : World} (hx : XInv w) {k : Nat} {ms ms' : Masked}
    (hk : w.store? k = some ms) (hst : StOk k ms') : XInv (w.setStore k ms') :=
  hx.setStore hk hst []

theorem tot_setStore_some' (w : World) (k : Nat) (ms ms' : Masked) (hk : w.store? k = some ms) (c : Int) :
    tot c (w.setStore k ms') + ms.held.count c = tot c w + ms'.held.count c := by
  have := tot_setStore_some w k ms ms' [] hk c
  simpa [destroy_nil] using this

theorem store?_setStore_same {w : World} {k : Nat} {ms : Masked} (hk : w.store? k = some ms)
    (ms' : Masked) : (w.setStore k ms').store? k = some ms' := by
  have := store?_setStore_destroy hk ms' [] k
  simpa [destroy_nil] using this

/-- The per-item mutable access of a restricted join: `get_mut` without the aliveness test. -/
theorem rjoin_access_led {k : Nat} {m : Masked} (h : StOk k m) {id : Nat} (hmem : m.mask.mem id = true)
    (d : Nat) (wr : Option Int) (hw : ∀ x, wr = some x → vOk k x) :
    ∃ old, m.inner.get id = .ok old ∧
      (match wr with
       | none => StOk k { m with inner := m.inner.touch id d } ∧
           ({ m with inner := m.inner.touch id d } : Masked).held = m.held
       | some v => ∃ inner', (m.inner.touch id d).poke id v = .ok inner' ∧
           StOk k { m with inner := inner' } ∧
           ∀ c : Int, c ≠ 0 → ({ m with inner := inner' } : Masked).held.count c + [old].count c =
             m.held.count c + [v].count c) := by
  obtain ⟨r, hr, hst, _, hc⟩ := h.getMut Alloc.init ⟨id, 1⟩ d wr hw
  simp only [Masked.getMut, hmem, isAlive_init, Bool.and_self, if_true] at hr
  cases hget : m.inner.get id with
  | ok old =>
    refine ⟨old, rfl, ?_⟩
    simp only [hget, Masked.lift] at hr
    cases wr with
    | none =>
      simp only at hr ⊢
      cases hr
      refine ⟨hst, ?_⟩
      unfold Masked.held
      simp only [UStore.touch_get]
    | some v =>
      simp only at hr ⊢
      cases hp : (m.inner.touch id d).poke id v with
      | ok inner' =>
        simp only [hp] at hr
        cases hr
        refine ⟨inner', rfl, hst, ?_⟩
        intro c hc0
        have := hc c hc0
        simpa [accIn, accOut] using this
      | panic w => simp [hp] at hr
      | ub w => simp [hp] at hr
  | panic w => simp [hget, Masked.lift] at hr
  | ub w => simp [hget, Masked.lift] at hr

theorem itemIn_other (h d : Nat) (wr x : Option Int) :
    itemIn true (.getOtherMut h d wr) (.opt x) = accIn wr x := by
  cases wr <;> cases x <;> rfl

theorem itemOut_other (h d : Nat) (wr x : Option Int) :
    itemOut true (.getOtherMut h d wr) (.opt x) = accOut wr x := by
  cases wr <;> cases x <;> rfl

theorem led_rjoinLoop (k : Nat) (mutable : Bool) : ∀ (ids : List Nat) (w : World) (acts : List RAct)
    (acc : List (Nat × ItemRes)), XInv w →
    (∃ m, w.store? k = some m ∧ StOk k m ∧ ∀ id, id ∈ ids → m.mask.mem id = true) →
    acts.all (ractOkB k) = true →
    ∃ l, (rjoinLoop w k mutable ids acts acc).2 = .items (acc.reverse ++ l) ∧
      XInv (rjoinLoop w k mutable ids acts acc).1 ∧
      Bal w (rjoinLoop w k mutable ids acts acc).1 (rjoinIn mutable acts l, rjoinOut mutable acts l) := by
  intro ids
  induction ids with
  | nil =>
    intro w acts acc hx _ _
    exact ⟨[], by simp [rjoinLoop], hx, Bal.refl w⟩
  | cons id ids ih =>
    intro w acts acc hx hst hok
    obtain ⟨m, hst, hm, hids⟩ := hst
    have hmem : m.mask.mem id = true := hids id (by simp)
    have hrest : ∀ id', id' ∈ ids → m.mask.mem id' = true := fun id' h' => hids id' (by simp [h'])
    have hhead : ractOkB k (acts.head?.getD .skip) = true := by
      cases acts with
      | nil => rfl
      | cons a as => simp only [List.all_cons, Bool.and_eq_true] at hok; exact hok.1
    have htail : acts.tail.all (ractOkB k) = true := by
      cases acts with
      | nil => rfl
      | cons a as => simp only [List.all_cons, Bool.and_eq_true] at hok; exact hok.2
    -- continue with the same world, nothing moved by this item
    have same : ∀ ir, ∃ l, (rjoinLoop w k mutable ids acts.tail ((id, ir) :: acc)).2 =
          .items (acc.reverse ++ ((id, ir) :: l)) ∧
        XInv (rjoinLoop w k mutable ids acts.tail ((id, ir) :: acc)).1 ∧
        Bal w (rjoinLoop w k mutable ids acts.tail ((id, ir) :: acc)).1
          ([] ++ rjoinIn mutable acts.tail l, [] ++ rjoinOut mutable acts.tail l) := by
      intro ir
      obtain ⟨l, e1, e2, e3⟩ := ih w acts.tail ((id, ir) :: acc) hx ⟨m, hst, hm, hrest⟩ htail
      exact ⟨l, by rw [e1]; simp, e2, e3⟩
    -- continue with an updated storage of the same mask
    have upd : ∀ (m2 : Masked) (ir : ItemRes) (mi rt : List Int), m2.mask = m.mask → StOk k m2 →
        (∀ c : Int, c ≠ 0 → m2.held.count c + rt.count c = m.held.count c + mi.count c) →
        ∃ l, (rjoinLoop (w.setStore k m2) k mutable ids acts.tail ((id, ir) :: acc)).2 =
          .items (acc.reverse ++ ((id, ir) :: l)) ∧
        XInv (rjoinLoop (w.setStore k m2) k mutable ids acts.tail ((id, ir) :: acc)).1 ∧
        Bal w (rjoinLoop (w.setStore k m2) k mutable ids acts.tail ((id, ir) :: acc)).1
          (mi ++ rjoinIn mutable acts.tail l, rt ++ rjoinOut mutable acts.tail l) := by
      intro m2 ir mi rt hmask h2 hc
      obtain ⟨l, e1, e2, e3⟩ := ih (w.setStore k m2) acts.tail ((id, ir) :: acc)
        (hx.setStore' hst h2) ⟨m2, store?_setStore_same hst m2, h2, fun id' h' => hmask ▸ hrest id' h'⟩ htail
      refine ⟨l, by rw [e1]; simp, e2, ?_⟩
      have hb : Bal w (w.setStore k m2) (mi, rt) := by
        intro c hc0
        have a1 := tot_setStore_some' w k m m2 hst c
        have a2 := hc c hc0
        simp only
        omega
      exact hb.trans e3
    simp only [rjoinLoop, hst]
    cases hact : acts.head?.getD RAct.skip with
    | skip =>
      simp only
      obtain ⟨l, e1, e2, e3⟩ := same .skip
      exact ⟨_, e1, e2, by simpa [rjoinIn, rjoinOut, hact, itemIn, itemOut] using e3⟩
    | get =>
      simp only
      obtain ⟨old, hget, _⟩ := rjoin_access_led hm hmem 0 none (by simp)
      simp only [hget]
      obtain ⟨l, e1, e2, e3⟩ := same (.val old)
      exact ⟨_, e1, e2, by simpa [rjoinIn, rjoinOut, hact, itemIn, itemOut] using e3⟩
    | getMut d wr =>
      simp only
      cases mutable with
      | false =>
        simp only [Bool.not_false, if_true]
        obtain ⟨l, e1, e2, e3⟩ := same .skip
        exact ⟨_, e1, e2, by simpa [rjoinIn, rjoinOut, hact, itemIn, itemOut] using e3⟩
      | true =>
        simp only [Bool.not_true, Bool.false_eq_true, if_false]
        rw [hact] at hhead
        obtain ⟨old, hget, hacc⟩ := rjoin_access_led hm hmem d wr ((wOkB_iff k wr).mp hhead)
        simp only [hget]
        cases wr with
        | none =>
          simp only at hacc ⊢
          obtain ⟨l, e1, e2, e3⟩ := upd { m with inner := m.inner.touch id d } (.val old) [] [] rfl hacc.1
            (fun c _ => by rw [hacc.2])
          exact ⟨_, e1, e2, by simpa [rjoinIn, rjoinOut, hact, itemIn, itemOut] using e3⟩
        | some v =>
          simp only at hacc ⊢
          obtain ⟨inner', hp, hst', hc⟩ := hacc
          simp only [hp]
          obtain ⟨l, e1, e2, e3⟩ := upd { m with inner := inner' } (.val old) [v] [old] rfl hst' hc
          exact ⟨_, e1, e2, by simpa [rjoinIn, rjoinOut, hact, itemIn, itemOut] using e3⟩
    | getOther hd =>
      simp only
      cases resolve w.ent.log hd with
      | none =>
        simp only
        obtain ⟨l, e1, e2, e3⟩ := same .skip
        exact ⟨_, e1, e2, by simpa [rjoinIn, rjoinOut, hact, itemIn, itemOut] using e3⟩
      | some e =>
        simp only
        obtain ⟨v, hv⟩ := hm.get w.ent.alloc e
        simp only [Masked.getOther, hv]
        obtain ⟨l, e1, e2, e3⟩ := same (.opt v)
        exact ⟨_, e1, e2, by simpa [rjoinIn, rjoinOut, hact, itemIn, itemOut] using e3⟩
    | getOtherMut hd d wr =>
      simp only
      cases mutable with
      | false =>
        simp only [Bool.not_false, if_true]
        obtain ⟨l, e1, e2, e3⟩ := same .skip
        exact ⟨_, e1, e2, by simpa [rjoinIn, rjoinOut, hact, itemIn, itemOut] using e3⟩
      | true =>
        simp only [Bool.not_true, Bool.false_eq_true, if_false]
        cases resolve w.ent.log hd with
        | none =>
          simp only
          obtain ⟨l, e1, e2, e3⟩ := same .skip
          exact ⟨_, e1, e2, by simpa [rjoinIn, rjoinOut, hact, itemIn, itemOut] using e3⟩
        | some e =>
          simp only
          rw [hact] at hhead
          obtain ⟨r, hr, hst', hd0, hc⟩ := hm.getMut w.ent.alloc e d wr ((wOkB_iff k wr).mp hhead)
          simp only [hr]
          obtain ⟨l, e1, e2, e3⟩ := upd r.st (.opt r.val) (accIn wr r.val) (accOut wr r.val)
            (getMut_mask hr) hst' (fun c hc0 => by have := hc c hc0; rw [hd0] at this; simpa using this)
          refine ⟨_, e1, e2, ?_⟩
          simp only [rjoinIn, rjoinOut, hact, itemIn_other, itemOut_other]
          exact e3

theorem led_rjoin {w : World} (hi : WInv w) (hx : XInv w) (fuel k : Nat) (mutable : Bool)
    (acts : List RAct) (hop : opOk (.rjoin k mutable acts) = true) :
    Led w (.rjoin k mutable acts) (step fuel w (.rjoin k mutable acts)) := by
  simp only [step]
  cases hst : w.store? k with
  | none => exact Led.same hx rfl rfl rfl rfl rfl rfl rfl
  | some m =>
    simp only
    obtain ⟨l, e1, e2, e3⟩ := led_rjoinLoop k mutable m.mask.toList w acts [] hx
      ⟨m, hst, stOk_of hi hx hst, fun id hid => (BSet.mem_toList _ _).mp hid⟩
      (by simpa [opOk] using hop)
    simp only [List.reverse_nil, List.nil_append] at e1
    refine ⟨e2, ?_, by rw [e1]; rfl⟩
    rw [e1]
    exact e3

/-! ### All operations except `maintain` -/

theorem led_step_nonrec {w : World} (hi : WInv w) (hx : XInv w) (fuel : Nat) (op : WOp)
    (hop : opOk op = true) (hne : op ≠ .ent .merge) : Led w op (step fuel w op) := by
  cases op with
  | ent eop => exact led_ent_nonmerge hi hx fuel eop (fun he => hne (he ▸ rfl))
  | reg k path => exact led_reg hi hx fuel k path
  | createWith atomic dropped comps => exact led_createWith hi hx fuel atomic dropped comps hop
  | get k hd => exact led_get hi hx fuel k hd
  | getMut k hd d wr => exact led_getMut hi hx fuel k hd d wr hop
  | has k hd =>
    simp only [step]
    cases w.store? k with
    | none => exact Led.same hx rfl rfl rfl rfl rfl rfl rfl
    | some m => cases resolve w.ent.log hd <;> exact Led.same hx rfl rfl rfl rfl rfl rfl rfl
  | ins k hd v => exact led_ins hi hx fuel k hd v hop
  | rem k hd => exact led_rem hi hx fuel k hd
  | entry k hd eop => exact led_entry hi hx fuel k hd eop hop
  | mutOrDefault k hd d wr => exact led_mutOrDefault hi hx fuel k hd d wr hop
  | count k => simp only [step]; cases w.store? k <;> exact Led.same hx rfl rfl rfl rfl rfl rfl rfl
  | isEmpty k => simp only [step]; cases w.store? k <;> exact Led.same hx rfl rfl rfl rfl rfl rfl rfl
  | mask k => simp only [step]; cases w.store? k <;> exact Led.same hx rfl rfl rfl rfl rfl rfl rfl
  | clear k => exact led_clear hi hx fuel k
  | drain k n => exact led_drain hi hx fuel k n
  | slice k => simp only [step]; cases w.store? k <;> exact Led.same hx rfl rfl rfl rfl rfl rfl rfl
  | emit k b => exact led_emit hi hx fuel k b
  | events k =>
    simp only [step]
    cases w.store? k with
    | none => exact Led.same hx rfl rfl rfl rfl rfl rfl rfl
    | some m =>
      simp only
      cases m.inner.events <;> exact Led.same hx rfl rfl rfl rfl rfl rfl rfl
  | lazyIns k hd v => exact led_lazyIns hx fuel k hd v hop
  | lazyInsAll k items => exact led_lazyInsAll hx fuel k items hop
  | lazyRem k hd => exact led_lazyRem hx fuel k hd
  | lazyCreate comps => exact led_lazyCreate hi hx fuel comps hop
  | lazyExec s => exact led_lazyExec hx fuel s hop
  | rjoin k mutable acts => exact led_rjoin hi hx fuel k mutable acts hop
  | dropWorld => exact led_dropWorld hi hx fuel

end World
end SpecsModel
