/-
  C08, world level: conservation through the whole mutual block.

  * ghost accounting `stepL … maintainL` (what every operation — also the ones run inside lazily
    executed scripts — moved in and handed back), `ledger_agree`: it computes the model;
  * `led_all`: the five mutually recursive functions preserve `XInv` and balance the ledger, for
    EVERY fuel and arbitrarily nested scripts;
  * histories: `runL`, `led_run`, `conservation`, `never_both_never_twice`,
    `no_leak_after_drop_world`;
  * the per-API conservation statements in `Perm (nz …) (nz …)` form.
-/
import SpecsModel.Lemmas.LedgerStep3
namespace SpecsModel
open Masked Alloc
namespace World

/-! ## Ghost accounting -/

mutual
/-- `step` together with what the operation (including everything a `maintain` runs) moved in
    and handed back. -/
def stepL (fuel : Nat) (w : World) (op : WOp) : (World × WRes) × Acct :=
  match op with
  | .ent .merge =>
    (match fuel with
     | 0 => ((w, .panic "model out of fuel"), ([], []))
     | fuel + 1 => maintainL fuel w)
  | op => (step fuel w op, (opIn op (step fuel w op).2, opOut op (step fuel w op).2))
termination_by structural fuel

def runScriptL (fuel : Nat) (tag : Nat) (w : World) : List WOp → World × Acct
  | [] => (w, ([], []))
  | op :: ops =>
    match fuel with
    | 0 => (w, ([], []))
    | fuel + 1 =>
      let r := stepL fuel w op
      let r2 := runScriptL fuel tag { r.1.1 with trace := (tag, op, r.1.2) :: r.1.1.trace } ops
      (r2.1, r.2.add r2.2)
termination_by structural fuel

def runActL (fuel : Nat) (w : World) : LazyAct → World × Acct
  | .exec tag script =>
    (match fuel with
     | 0 => (w, ([], []))
     | fuel + 1 => runScriptL fuel tag w script)
  | act => (runAct fuel w act, ([], []))
termination_by structural fuel

def runQueueL (fuel : Nat) (w : World) (acc : List Nat) : (World × List Nat) × Acct :=
  match fuel with
  | 0 => ((w, acc.reverse), ([], []))
  | fuel + 1 =>
    match w.queue with
    | [] => ((w, acc.reverse), ([], []))
    | act :: rest =>
      let r := runActL fuel { w with queue := rest } act
      let r2 := runQueueL fuel r.1 (match act with | .exec t _ => t :: acc | _ => acc)
      (r2.1, r.2.add r2.2)
termination_by structural fuel

def maintainL (fuel : Nat) (w : World) : (World × WRes) × Acct :=
  match w.ent.alloc.merge with
  | .ok (a, deleted) =>
    let w1 := { w with ent := { w.ent with alloc := a } }
    (match (if deleted.isEmpty then .ok w1 else w1.deleteComponents deleted w1.table) with
     | .ok w2 =>
       (match fuel with
        | 0 => ((w2, .panic "model out of fuel"), ([], []))
        | fuel + 1 =>
          let r := runQueueL fuel w2 []
          ((r.1.1, .acts r.1.2), r.2))
     | .panic why => ((w1, .panic why), ([], []))
     | .ub why => ((w1, .panic ("UB: " ++ why)), ([], [])))
  | .panic why => ((w, .panic why), ([], []))
  | .ub why => ((w, .panic ("UB: " ++ why)), ([], []))
termination_by structural fuel
end

/-- The ghost accounting computes the model's worlds and results. -/
theorem ledger_agree (fuel : Nat) :
    (∀ w op, (stepL fuel w op).1 = step fuel w op) ∧
    (∀ tag w ops, (runScriptL fuel tag w ops).1 = runScript fuel tag w ops) ∧
    (∀ w act, (runActL fuel w act).1 = runAct fuel w act) ∧
    (∀ w acc, (runQueueL fuel w acc).1 = runQueue fuel w acc) ∧
    (∀ w, (maintainL fuel w).1 = maintain fuel w) := by
  induction fuel with
  | zero =>
    refine ⟨?_, ?_, ?_, ?_, ?_⟩
    · intro w op
      unfold stepL
      split
      · simp [step]
      · rfl
    · intro tag w ops
      cases ops <;> simp [runScriptL, runScript]
    · intro w act
      cases act <;> simp [runActL, runAct]
    · intro w acc
      simp [runQueueL, runQueue]
    · intro w
      unfold maintainL maintain
      cases w.ent.alloc.merge with
      | ok p =>
        obtain ⟨a, deleted⟩ := p
        dsimp only
        by_cases hd : deleted.isEmpty = true
        · simp only [hd, if_true]
        · simp only [hd, if_false, Bool.false_eq_true]
          cases deleteComponents _ deleted w.table <;> rfl
      | panic => rfl
      | ub => rfl
  | succ f ih =>
    obtain ⟨ih1, ih2, ih3, ih4, ih5⟩ := ih
    refine ⟨?_, ?_, ?_, ?_, ?_⟩
    · intro w op
      unfold stepL
      split
      · simp only [step]; exact ih5 w
      · rfl
    · intro tag w ops
      cases ops with
      | nil => simp [runScriptL, runScript]
      | cons op ops =>
        simp only [runScriptL, runScript]
        rw [ih2, ih1]
    · intro w act
      cases act with
      | exec t s => simp only [runActL, runAct]; exact ih2 _ _ _
      | _ => simp [runActL]
    · intro w acc
      simp only [runQueueL, runQueue]
      cases hq : w.queue with
      | nil => rfl
      | cons act rest =>
        simp only []
        rw [ih4, ih3]
        cases act <;> rfl
    · intro w
      unfold maintainL maintain
      cases w.ent.alloc.merge with
      | ok p =>
        obtain ⟨a, deleted⟩ := p
        dsimp only
        by_cases hd : deleted.isEmpty = true
        · simp only [hd, if_true, ih4]
        · simp only [hd, if_false, Bool.false_eq_true]
          cases deleteComponents _ deleted w.table with
          | ok w2 => simp only [ih4]
          | _ => rfl
      | panic => rfl
      | ub => rfl

/-! ## Queued actions at the moment they run -/

theorem winv_trace {X : Nat → Prop} {w : World} (h : WInvX X w) (t : List (Nat × WOp × WRes)) :
    WInvX X { w with trace := t } :=
  ⟨h.ent, h.size, h.good, h.owned, h.inTable, h.queueOk⟩

theorem winv_pop {X : Nat → Prop} {w : World} (h : WInvX X w) {act : LazyAct} {rest : List LazyAct}
    (hq : w.queue = act :: rest) : WInvX X { w with queue := rest } :=
  ⟨h.ent, h.size, h.good, h.owned, h.inTable,
    fun a ha e he => h.queueOk a (by rw [hq]; exact List.mem_cons_of_mem _ ha) e he⟩

/-- A queued insert: the captured value goes into the storage (a replaced value is destroyed) or,
    if the target is dead, is destroyed. -/
theorem led_runAct_ins (f : Nat) {w : World} (ha : AllOk w) (hx : XInv w) (t k : Nat) (e : Entity)
    (v : Int) (hok : (w.store? k).isSome = true ∧ vOk k v) :
    XInv (runAct f w (.ins t k e v)) ∧ AllOk (runAct f w (.ins t k e v)) ∧
      (∀ k', ((runAct f w (.ins t k e v)).store? k').isSome = (w.store? k').isSome) ∧
      ∀ c : Int, c ≠ 0 → tot c (runAct f w (.ins t k e v)) = tot c w + [v].count c := by
  simp only [runAct]
  cases hst : w.store? k with
  | none => rw [hst] at hok; cases hok.1
  | some m =>
    simp only
    obtain ⟨r, h1, h2, _, h4⟩ := (ha k m hst).insert w.ent.alloc e v hok.2
    rw [h1]
    simp only
    refine ⟨hx.setStore hst h2 _, ha.setStore hst h2 _, fun k' => isSome_setStore hst _ _ k', ?_⟩
    intro c hc
    have e1 := fun d => tot_setStore_some w k m r.st d hst c
    have e2 := h4 c hc
    cases hv : r.val with
    | wrongGen =>
      have := e1 (r.destroyed ++ [])
      simp only [hv, insOut, List.count_append, List.count_nil] at this e2 ⊢
      omega
    | inserted =>
      have := e1 (r.destroyed ++ [])
      simp only [hv, insOut, List.count_append, List.count_nil] at this e2 ⊢
      omega
    | replaced old =>
      have := e1 (r.destroyed ++ [old])
      simp only [hv, insOut, List.count_append] at this e2 ⊢
      omega

theorem led_runAct_insAll (f : Nat) (t k : Nat) : ∀ (items : List (Entity × Int)) {w : World},
    AllOk w → XInv w → (w.store? k).isSome = true → (∀ p, p ∈ items → vOk k p.2) →
    XInv (runAct f w (.insAll t k items)) ∧
      ∀ c : Int, c ≠ 0 → tot c (runAct f w (.insAll t k items)) = tot c w + (items.map (·.2)).count c := by
  intro items
  induction items with
  | nil => intro w _ hx _ _; exact ⟨by simpa [runAct] using hx, fun c _ => by simp [runAct]⟩
  | cons p items ih =>
    intro w ha hx hs hv
    rw [LazyQ.runAct_insAll_eq]
    simp only [List.foldl_cons]
    obtain ⟨a1, a2, a3, a4⟩ := led_runAct_ins f ha hx t k p.1 p.2 ⟨hs, hv p (by simp)⟩
    have := ih a2 a1 (by rw [a3 k]; exact hs) (fun q hq => hv q (by simp [hq]))
    rw [LazyQ.runAct_insAll_eq] at this
    refine ⟨this.1, ?_⟩
    intro c hc
    rw [this.2 c hc, a4 c hc]
    simp only [List.map_cons, List.count_cons, List.count_nil]
    omega

/-- A queued remove: the removed value is destroyed. -/
theorem led_runAct_rem (f : Nat) {w : World} (ha : AllOk w) (hx : XInv w) (t k : Nat) (e : Entity) :
    XInv (runAct f w (.rem t k e)) ∧ ∀ c : Int, tot c (runAct f w (.rem t k e)) = tot c w := by
  simp only [runAct]
  cases hst : w.store? k with
  | none => exact ⟨hx, fun _ => rfl⟩
  | some m =>
    simp only
    obtain ⟨r, h1, h2, h3⟩ := (ha k m hst).remove w.ent.alloc e
    rw [h1]
    simp only
    refine ⟨hx.setStore hst h2 _, ?_⟩
    intro c
    have e1 := tot_setStore_some w k m r.st r.val.toList hst c
    have e2 := h3 c
    have e0 : r.destroyed = [] := by
      obtain ⟨mm, hmm⟩ := (ha k m hst).good.1
      obtain ⟨r', g1, _, g3, _⟩ := Masked.remove_ref hmm w.ent.alloc e
      rw [h1] at g1; cases g1; exact g3
    rw [e0] at e2
    simp only [List.count_nil] at e2
    omega

/-- The balance of a queued non-script action, the values it captured counted as moved in. -/
theorem led_runAct_nonexec (f : Nat) {w : World} (hi : WInv w) (hx : XInv w) (act : LazyAct)
    (hok : ActOk w act) (hne : ∀ t s, act ≠ .exec t s) :
    XInv (runAct f w act) ∧ Bal w (runAct f w act) (queuedValues act, []) := by
  have ha := allOk_of hi hx
  cases act with
  | ins t k e v =>
    obtain ⟨a1, _, _, a4⟩ := led_runAct_ins f ha hx t k e v hok
    exact ⟨a1, fun c hc => by simpa [queuedValues] using a4 c hc⟩
  | insAll t k items =>
    obtain ⟨a1, a2⟩ := led_runAct_insAll f t k items ha hx hok.1 hok.2
    exact ⟨a1, fun c hc => by simpa [queuedValues] using a2 c hc⟩
  | rem t k e =>
    obtain ⟨a1, a2⟩ := led_runAct_rem f ha hx t k e
    exact ⟨a1, fun c _ => by simp [queuedValues, a2 c]⟩
  | exec t s => exact absurd rfl (hne t s)

/-! ## `maintain` up to the lazy queue -/

theorem maintainL_pre {w : World} (hi : WInv w) (hx : XInv w) :
    ∃ w2, WInv w2 ∧ XInv w2 ∧ (∀ c, tot c w2 = tot c w) ∧
      (∀ fuel, maintainL (fuel + 1) w =
        (((runQueueL fuel w2 []).1.1, .acts (runQueueL fuel w2 []).1.2), (runQueueL fuel w2 []).2)) ∧
      maintainL 0 w = ((w2, .panic "model out of fuel"), ([], [])) := by
  obtain ⟨w2i, hinv2, _, h0, _⟩ := inv_maintain_pre hi
  obtain ⟨s, hs⟩ := hi.ent
  obtain ⟨a, deleted, _, hm, _, _⟩ := merge_refine hs.r
  have hall : AllOk ({ w with ent := { w.ent with alloc := a } } : World) :=
    fun k ms hk => stOk_of hi hx hk
  by_cases hd : deleted.isEmpty = true
  · have e0 : (maintain 0 w).1 = { w with ent := { w.ent with alloc := a } } := by
      simp only [maintain, hm, hd, if_true]
    rw [e0] at h0
    subst h0
    refine ⟨_, hinv2, XInv.of_same (w := w) rfl rfl rfl hx, fun c => tot_congr rfl rfl rfl c, ?_, ?_⟩
    · intro fuel; simp only [maintainL, hm, hd, if_true]
    · simp only [maintainL, hm, hd, if_true]
  · obtain ⟨w2, g1, g2, g3, g4⟩ := led_deleteComponents deleted w.table _ hall
    have hfr := LazyQ.deleteComponents_frame _ _ _ _ g1
    have e0 : (maintain 0 w).1 = w2 := by
      simp only [maintain, hm, hd, Bool.false_eq_true, if_false]; rw [g1]
    rw [e0] at h0
    subst h0
    refine ⟨w2, hinv2, hx.of_allOk g2 g3 hfr.table hfr.queue,
      fun c => by rw [g4 c]; exact tot_congr rfl rfl rfl c, ?_, ?_⟩
    · intro fuel; simp only [maintainL, hm, hd, Bool.false_eq_true, if_false]; rw [g1]
    · simp only [maintainL, hm, hd, Bool.false_eq_true, if_false]; rw [g1]

/-! ## The five mutually recursive functions balance the ledger -/

theorem tot_pop {w : World} {act : LazyAct} {rest : List LazyAct} (hq : w.queue = act :: rest) (c : Int) :
    tot c w = tot c ({ w with queue := rest } : World) + (queuedValues act).count c := by
  simp only [tot, held, heldQueue, hq, List.map_cons, List.flatten_cons, List.count_append]
  have : ({ w with queue := rest } : World).heldStores = w.heldStores := rfl
  rw [this]
  omega

theorem xinv_pop {w : World} (hx : XInv w) {act : LazyAct} {rest : List LazyAct}
    (hq : w.queue = act :: rest) : XInv ({ w with queue := rest } : World) ∧ ActOk ({ w with queue := rest } : World) act :=
  ⟨⟨hx.st, hx.nodup, fun a ha => (hx.queue a (by rw [hq]; exact List.mem_cons_of_mem _ ha)).mono (fun _ h => h)⟩,
    (hx.queue act (by rw [hq]; exact List.mem_cons_self)).mono (fun _ h => h)⟩

/-- **Conservation for the whole mutual block, for every fuel**: each function preserves the extra
    invariant and its accounting balances the ledger — including scripts nested to any depth,
    `maintain` and `drop_world` called from inside scripts, and running out of fuel. -/
theorem led_all (fuel : Nat) :
    (∀ w op, WInv w → XInv w → opOk op = true →
      XInv (stepL fuel w op).1.1 ∧ Bal w (stepL fuel w op).1.1 (stepL fuel w op).2) ∧
    (∀ tag w ops, WInv w → XInv w → scriptOk ops = true →
      XInv (runScriptL fuel tag w ops).1 ∧ Bal w (runScriptL fuel tag w ops).1 (runScriptL fuel tag w ops).2) ∧
    (∀ w act, WInv w → XInv w → ActOk w act → (∀ e, e ∈ act.ents → e ∈ w.ent.log.toList) →
      XInv (runActL fuel w act).1 ∧
      Bal w (runActL fuel w act).1 (queuedValues act ++ (runActL fuel w act).2.1, (runActL fuel w act).2.2)) ∧
    (∀ w acc, WInv w → XInv w →
      XInv (runQueueL fuel w acc).1.1 ∧ Bal w (runQueueL fuel w acc).1.1 (runQueueL fuel w acc).2) ∧
    (∀ w, WInv w → XInv w →
      XInv (maintainL fuel w).1.1 ∧ Bal w (maintainL fuel w).1.1 (maintainL fuel w).2) := by
  induction fuel with
  | zero =>
    refine ⟨?_, ?_, ?_, ?_, ?_⟩
    · intro w op hi hx hop
      by_cases hm : op = .ent .merge
      · subst hm; simp only [stepL]; exact ⟨hx, Bal.refl w⟩
      · have : stepL 0 w op = (step 0 w op, (opIn op (step 0 w op).2, opOut op (step 0 w op).2)) := by
          unfold stepL; split
          · exact absurd rfl hm
          · rfl
        rw [this]
        have h := led_step_nonrec hi hx 0 op hop hm
        exact ⟨h.xinv, h.bal⟩
    · intro tag w ops _ hx _; cases ops <;> exact ⟨by simpa [runScriptL] using hx, by simpa [runScriptL] using Bal.refl w⟩
    · intro w act hi hx hok _
      cases act with
      | exec t s => exact ⟨by simpa [runActL] using hx, by simpa [runActL, queuedValues] using Bal.refl w⟩
      | ins t k e v =>
        have := led_runAct_nonexec 0 hi hx (.ins t k e v) hok (by intro t s hc; cases hc)
        simpa [runActL] using this
      | insAll t k items =>
        have := led_runAct_nonexec 0 hi hx (.insAll t k items) hok (by intro t s hc; cases hc)
        simpa [runActL] using this
      | rem t k e =>
        have := led_runAct_nonexec 0 hi hx (.rem t k e) hok (by intro t s hc; cases hc)
        simpa [runActL] using this
    · intro w acc _ hx; exact ⟨by simpa [runQueueL] using hx, by simpa [runQueueL] using Bal.refl w⟩
    · intro w hi hx
      obtain ⟨w2, _, hx2, ht, _, h0⟩ := maintainL_pre hi hx
      rw [h0]; exact ⟨hx2, Bal.of_tot ht⟩
  | succ n ih =>
    obtain ⟨ihStep, ihScript, ihAct, ihQueue, ihMaint⟩ := ih
    obtain ⟨agS, agR, agA, agQ, agM⟩ := ledger_agree n
    obtain ⟨ivS, ivR, ivA, ivQ, ivM⟩ := inv_mutual n
    refine ⟨?_, ?_, ?_, ?_, ?_⟩
    · intro w op hi hx hop
      by_cases hm : op = .ent .merge
      · subst hm; simp only [stepL]; exact ihMaint w hi hx
      · have : stepL (n + 1) w op =
            (step (n + 1) w op, (opIn op (step (n + 1) w op).2, opOut op (step (n + 1) w op).2)) := by
          unfold stepL; split
          · exact absurd rfl hm
          · rfl
        rw [this]
        have h := led_step_nonrec hi hx (n + 1) op hop hm
        exact ⟨h.xinv, h.bal⟩
    · intro tag w ops hi hx hops
      cases ops with
      | nil => exact ⟨by simpa [runScriptL] using hx, by simpa [runScriptL] using Bal.refl w⟩
      | cons op ops =>
        simp only [scriptOk, Bool.and_eq_true] at hops
        simp only [runScriptL]
        obtain ⟨a1, a2⟩ := ihStep w op hi hx hops.1
        have hi1 : WInv (stepL n w op).1.1 := by rw [agS]; exact ivS w op hi
        have hx1' : XInv ({ (stepL n w op).1.1 with trace := (tag, op, (stepL n w op).1.2) :: (stepL n w op).1.1.trace } : World) :=
          XInv.of_same (w := (stepL n w op).1.1) rfl rfl rfl a1
        obtain ⟨b1, b2⟩ := ihScript tag _ ops (winv_trace hi1 _) hx1' hops.2
        refine ⟨b1, ?_⟩
        have a2' : Bal w ({ (stepL n w op).1.1 with trace := (tag, op, (stepL n w op).1.2) :: (stepL n w op).1.1.trace } : World)
            (stepL n w op).2 := a2.congr_right (tot_congr rfl rfl rfl)
        exact a2'.trans b2
    · intro w act hi hx hok hents
      cases act with
      | exec t s =>
        simp only [runActL]
        have := ihScript t w s hi hx hok
        simpa [queuedValues] using this
      | ins t k e v =>
        have := led_runAct_nonexec (n + 1) hi hx (.ins t k e v) hok (by intro t s hc; cases hc)
        simpa [runActL] using this
      | insAll t k items =>
        have := led_runAct_nonexec (n + 1) hi hx (.insAll t k items) hok (by intro t s hc; cases hc)
        simpa [runActL] using this
      | rem t k e =>
        have := led_runAct_nonexec (n + 1) hi hx (.rem t k e) hok (by intro t s hc; cases hc)
        simpa [runActL] using this
    · intro w acc hi hx
      simp only [runQueueL]
      cases hq : w.queue with
      | nil => exact ⟨hx, Bal.refl w⟩
      | cons act rest =>
        simp only
        have hi0 := winv_pop hi hq
        obtain ⟨hx0, hok⟩ := xinv_pop hx hq
        have hents : ∀ e, e ∈ act.ents → e ∈ ({ w with queue := rest } : World).ent.log.toList :=
          fun e he => hi.queueOk act (by rw [hq]; exact List.mem_cons_self) e he
        obtain ⟨a1, a2⟩ := ihAct _ act hi0 hx0 hok hents
        have hi1 : WInv (runActL n { w with queue := rest } act).1 := by
          rw [agA]; exact ivA _ act hi0 hents
        have key := fun acc' => ihQueue (runActL n { w with queue := rest } act).1 acc' hi1 a1
        refine ⟨(key _).1, ?_⟩
        have a2' : Bal w (runActL n { w with queue := rest } act).1 (runActL n { w with queue := rest } act).2 := by
          intro c hc
          have e1 := a2 c hc
          have e2 := tot_pop hq c
          simp only [List.count_append] at e1
          omega
        exact a2'.trans (key _).2
    · intro w hi hx
      obtain ⟨w2, hi2, hx2, ht, hrun, _⟩ := maintainL_pre hi hx
      rw [hrun n]
      obtain ⟨b1, b2⟩ := ihQueue w2 [] hi2 hx2
      exact ⟨b1, b2.congr_left (fun c => (ht c).symm)⟩

/-! ## (c) Histories -/

/-- Run a list of top-level operations with the accounting of everything they moved in / handed
    back (including what lazily executed scripts did). -/
def runL (fuel : Nat) : World → List WOp → World × Acct
  | w, [] => (w, ([], []))
  | w, op :: ops =>
    let r := stepL fuel w op
    let r2 := runL fuel r.1.1 ops
    (r2.1, r.2.add r2.2)

/-- The results of the top-level operations of a history. -/
def transcript (fuel : Nat) : World → List WOp → List WRes
  | _, [] => []
  | w, op :: ops => (step fuel w op).2 :: transcript fuel (step fuel w op).1 ops

theorem runL_world (fuel : Nat) : ∀ (ops : List WOp) (w : World),
    (runL fuel w ops).1 = ops.foldl (fun w op => (step fuel w op).1) w := by
  intro ops
  induction ops with
  | nil => intro w; rfl
  | cons op ops ih =>
    intro w
    simp only [runL, List.foldl_cons]
    rw [ih, (ledger_agree fuel).1]

theorem runL_append (fuel : Nat) : ∀ (a b : List WOp) (w : World),
    runL fuel w (a ++ b) =
      ((runL fuel (runL fuel w a).1 b).1, (runL fuel w a).2.add (runL fuel (runL fuel w a).1 b).2) := by
  intro a
  induction a with
  | nil => intro b w; simp [runL, Acct.add]
  | cons op a ih =>
    intro b w
    simp only [List.cons_append, runL]
    rw [ih]
    simp [Acct.add, List.append_assoc]

/-- Every reachable world (well-typed history) satisfies both invariants and balances. -/
theorem led_run (fuel : Nat) : ∀ (ops : List WOp) (w : World), WInv w → XInv w → scriptOk ops = true →
    WInv (runL fuel w ops).1 ∧ XInv (runL fuel w ops).1 ∧ Bal w (runL fuel w ops).1 (runL fuel w ops).2 := by
  intro ops
  induction ops with
  | nil => intro w hi hx _; exact ⟨hi, hx, Bal.refl w⟩
  | cons op ops ih =>
    intro w hi hx hok
    simp only [scriptOk, Bool.and_eq_true] at hok
    simp only [runL]
    obtain ⟨a1, a2⟩ := (led_all fuel).1 w op hi hx hok.1
    have hi1 : WInv (stepL fuel w op).1.1 := by
      rw [(ledger_agree fuel).1]; exact (inv_mutual fuel).1 w op hi
    obtain ⟨b0, b1, b2⟩ := ih _ hi1 a1 hok.2
    exact ⟨b0, b1, a2.trans b2⟩

theorem held_init : ({} : World).held = [] := by
  have h : ∀ k, ({} : World).store? k = none := fun k => store?_replicate_none _ rfl k
  simp only [held, heldQueue, List.map_nil, List.flatten_nil, List.append_nil, heldStores]
  rw [flatMap_congr' (g := fun _ => []) (fun j _ => by rw [h j]; rfl)]
  generalize List.range _ = L
  induction L with
  | nil => rfl
  | cons a L ih => rw [List.flatMap_cons, ih]; rfl

theorem bal_init_perm {w : World} {a : Acct} (h : Bal {} w a) :
    (nz (w.held ++ w.ledger ++ a.2)).Perm (nz a.1) := by
  apply NzEq.perm
  intro c hc
  have := h c hc
  simp only [tot, held_init, List.count_nil] at this
  simp only [List.count_append] at this ⊢
  omega

/-- **Conservation.** After any well-typed history from the empty world, for every fuel: the
    values still held (storages + queued lazy actions), the values destroyed so far and the values
    handed back are, together, exactly the values moved in — as multisets of non-zero values. -/
theorem conservation (fuel : Nat) (ops : List WOp) (hok : scriptOk ops = true) :
    (nz ((runL fuel {} ops).1.held ++ (runL fuel {} ops).1.ledger ++ (runL fuel {} ops).2.2)).Perm
      (nz (runL fuel {} ops).2.1) :=
  bal_init_perm (led_run fuel ops {} inv_init xinv_init hok).2.2

theorem nz_append (a b : List Int) : nz (a ++ b) = nz a ++ nz b := by
  simp [nz, List.filter_append]

/-- **Never both, never twice.** If the non-zero values moved in are pairwise distinct (tokens),
    then "held", "destroyed" and "handed back" are duplicate-free and pairwise disjoint, and a
    token is in one of them iff it was moved in. -/
theorem never_both_never_twice (fuel : Nat) (ops : List WOp) (hok : scriptOk ops = true)
    (hd : (nz (runL fuel {} ops).2.1).Nodup) :
    let r := runL fuel {} ops
    (nz r.1.held).Nodup ∧ (nz r.1.ledger).Nodup ∧ (nz r.2.2).Nodup ∧
    (∀ x, x ∈ nz r.1.held → x ∉ nz r.1.ledger ∧ x ∉ nz r.2.2) ∧
    (∀ x, x ∈ nz r.1.ledger → x ∉ nz r.2.2) ∧
    (∀ x, x ∈ nz r.2.1 ↔ (x ∈ nz r.1.held ∨ x ∈ nz r.1.ledger ∨ x ∈ nz r.2.2)) := by
  intro r
  have hp := conservation fuel ops hok
  have hn := hp.nodup_iff.mpr hd
  rw [nz_append, nz_append] at hn hp
  obtain ⟨h12, h3, hdis⟩ := List.nodup_append.mp hn
  obtain ⟨h1, h2, hdis12⟩ := List.nodup_append.mp h12
  refine ⟨h1, h2, h3, ?_, ?_, ?_⟩
  · intro x hx
    exact ⟨fun h => hdis12 x hx x h rfl, fun h => hdis x (List.mem_append_left _ hx) x h rfl⟩
  · intro x hx h
    exact hdis x (List.mem_append_right _ hx) x h rfl
  · intro x
    rw [← hp.mem_iff]
    simp only [List.mem_append, or_assoc]
    exact Iff.rfl

/-- `drop_world` that returned normally leaves nothing behind: no storage, no queued action. -/
theorem dropWorld_empties (fuel : Nat) (w : World) (h : (step fuel w .dropWorld).2 = .dropped) :
    (step fuel w .dropWorld).1.held = [] ∧ (step fuel w .dropWorld).1.queue = [] := by
  simp only [step] at h ⊢
  cases hd : w.dropStores w.table [] with
  | ok d =>
    simp only
    refine ⟨?_, by simp⟩
    simp only [held, heldQueue, List.map_nil, List.flatten_nil, List.append_nil, heldStores]
    rw [flatMap_congr' (g := fun _ => []) (fun j _ => by rw [store?_replicate_none _ rfl j]; rfl)]
    generalize List.range _ = L
    induction L with
    | nil => rfl
    | cons a L ih => rw [List.flatMap_cons, ih]; rfl
  | panic why => rw [hd] at h; cases h
  | ub why => rw [hd] at h; cases h

/-- In a reachable world `drop_world` returns normally. -/
theorem dropWorld_dropped {w : World} (hi : WInv w) (hx : XInv w) (fuel : Nat) :
    (step fuel w .dropWorld).2 = .dropped := by
  have h := (led_dropWorld hi hx fuel).noPanic
  simp only [step] at h ⊢
  cases hd : w.dropStores w.table [] with
  | ok d => rfl
  | panic why => rw [hd] at h; cases h
  | ub why => rw [hd] at h; cases h

/-- **No leak.** A well-typed history ending with `drop_world`: the world holds nothing, its queue
    is empty, and every non-zero value ever moved in has been destroyed or handed back. -/
theorem no_leak_after_drop_world (fuel : Nat) (ops : List WOp) (hok : scriptOk ops = true) :
    let r := runL fuel {} (ops ++ [.dropWorld])
    (step fuel (runL fuel {} ops).1 .dropWorld).2 = .dropped ∧
    r.1.held = [] ∧ r.1.queue = [] ∧ (nz (r.1.ledger ++ r.2.2)).Perm (nz r.2.1) := by
  intro r
  obtain ⟨hi, hx, _⟩ := led_run fuel ops {} inv_init xinv_init hok
  have hdrop := dropWorld_dropped hi hx fuel
  have hw : r.1 = (step fuel (runL fuel {} ops).1 .dropWorld).1 := by
    show (runL fuel {} (ops ++ [.dropWorld])).1 = _
    rw [runL_append]
    simp only [runL]
    rw [(ledger_agree fuel).1]
  obtain ⟨e1, e2⟩ := dropWorld_empties fuel _ hdrop
  have hok' : scriptOk (ops ++ [.dropWorld]) = true := by
    rw [scriptOk_iff] at hok ⊢
    intro op hop
    rcases List.mem_append.mp hop with h | h
    · exact hok op h
    · simp only [List.mem_singleton] at h; subst h; rfl
  have hc := conservation fuel (ops ++ [.dropWorld]) hok'
  refine ⟨hdrop, by rw [hw]; exact e1, by rw [hw]; exact e2, ?_⟩
  have : r.1.held = [] := by rw [hw]; exact e1
  show (nz (r.1.ledger ++ r.2.2)).Perm (nz r.2.1)
  have hc' : (nz (r.1.held ++ r.1.ledger ++ r.2.2)).Perm (nz r.2.1) := hc
  rw [this] at hc'
  simpa using hc'

end World

/-! ## (b) Storage level, in `Perm (nz …) (nz …)` form -/
namespace Masked
open UStore

/-- From the counting form to the permutation form. -/
theorem perm_of_count {h' d ret h mi : List Int}
    (hc : ∀ c : Int, c ≠ 0 → h'.count c + d.count c + ret.count c = h.count c + mi.count c) :
    (nz (h' ++ d ++ ret)).Perm (nz (h ++ mi)) := by
  apply NzEq.perm
  intro c hc0
  simp only [List.count_append]
  exact hc c hc0

theorem getMut_conservation {ms : Masked} {m : Nat → Option Int} (h : MRep ms m) (a : Alloc)
    (e : Entity) (d : Nat) (w : Option Int) (hw : ∀ x, w = some x → ms.inner.valOk x) :
    ∃ r m', ms.getMut a e d w = .ok r ∧ MRep r.st m' ∧
      m' = (if a.isAlive e then PMap.write m e.id w else m) ∧
      (nz (heldVals r.st m' ++ r.destroyed ++ accOut w r.val)).Perm (nz (heldVals ms m ++ accIn w r.val)) := by
  obtain ⟨r, m', h1, h2, _, h4, _, h6⟩ := getMut_cons h a e d w hw
  exact ⟨r, m', h1, h2, h4, perm_of_count (fun c _ => h6 c)⟩

theorem insert_conservation {ms : Masked} {m : Nat → Option Int} (h : MRep ms m) (a : Alloc)
    (e : Entity) (v : Int) (hv : ms.inner.valOk v) :
    ∃ r m', ms.insert a e v = .ok r ∧ MRep r.st m' ∧
      m' = (if a.isAlive e then upd m e.id (some v) else m) ∧
      (nz (heldVals r.st m' ++ r.destroyed ++ insOut r.val)).Perm (nz (heldVals ms m ++ [v])) := by
  obtain ⟨r, m', h1, h2, h3, _, _, h6⟩ := insert_cons h a e v hv
  exact ⟨r, m', h1, h2, h3, perm_of_count h6⟩

theorem removeId_conservation {ms : Masked} {m : Nat → Option Int} (h : MRep ms m) (i : Nat) :
    ∃ r, ms.removeId i = .ok r ∧ MRep r.st (upd m i none) ∧ r.val = m i ∧
      (nz (heldVals r.st (upd m i none) ++ r.destroyed ++ r.val.toList)).Perm (nz (heldVals ms m ++ [])) := by
  obtain ⟨r, h1, h2, h3, _, _, h6⟩ := removeId_cons h i
  exact ⟨r, h1, h2, h3, perm_of_count (fun c _ => by simpa using h6 c)⟩

theorem remove_conservation {ms : Masked} {m : Nat → Option Int} (h : MRep ms m) (a : Alloc) (e : Entity) :
    ∃ r m', ms.remove a e = .ok r ∧ MRep r.st m' ∧
      m' = (if a.isAlive e then upd m e.id none else m) ∧
      r.val = (if a.isAlive e then m e.id else none) ∧
      (nz (heldVals r.st m' ++ r.destroyed ++ r.val.toList)).Perm (nz (heldVals ms m ++ [])) := by
  obtain ⟨r, m', h1, h2, h3, h4, _, h6⟩ := remove_cons h a e
  exact ⟨r, m', h1, h2, h3, h4, perm_of_count (fun c _ => by simpa using h6 c)⟩

theorem dropId_conservation {ms : Masked} {m : Nat → Option Int} (h : MRep ms m) (i : Nat) :
    ∃ r, ms.dropId i = .ok r ∧ MRep r.st (upd m i none) ∧ r.destroyed = (m i).toList ∧
      (nz (heldVals r.st (upd m i none) ++ r.destroyed ++ [])).Perm (nz (heldVals ms m ++ [])) := by
  obtain ⟨r, h1, h2, h3, _, h6⟩ := dropId_cons h i
  exact ⟨r, h1, h2, h3, perm_of_count (fun c _ => by simpa using h6 c)⟩

theorem dropAll_conservation {ms : Masked} {m : Nat → Option Int} (h : MRep ms m) (es : List Entity) :
    ∃ r, ms.dropAll es [] = .ok r ∧ MRep r.st (PMap.eraseAll m (es.map (·.id))) ∧
      r.destroyed = PMap.dropVals m (es.map (·.id)) ∧
      (nz (heldVals r.st (PMap.eraseAll m (es.map (·.id))) ++ r.destroyed ++ [])).Perm
        (nz (heldVals ms m ++ [])) := by
  obtain ⟨r, h1, h2, _, h6⟩ := dropAll_cons es h []
  obtain ⟨r', g1, g2, _⟩ := dropAll_ref es h []
  rw [h1] at g1; cases g1
  exact ⟨r, h1, h2, by simpa using g2, perm_of_count (fun c _ => by simpa using h6 c)⟩

theorem clear_conservation {ms : Masked} {m : Nat → Option Int} (h : MRep ms m) (hw : ms.inner.WF) :
    ∃ r, ms.clear = .ok r ∧ MRep r.st (fun _ => none) ∧ r.st.mask = BSet.empty ∧
      (nz (heldVals r.st (fun _ => none) ++ r.destroyed ++ [])).Perm (nz (heldVals ms m ++ [])) := by
  obtain ⟨r, h1, h2, h3, _, h6⟩ := clear_cons h hw
  exact ⟨r, h1, h2, h3, perm_of_count (fun c hc => by simpa using h6 c hc)⟩

theorem drain_conservation {ms : Masked} {m : Nat → Option Int} (h : MRep ms m) (n : Nat) :
    ∃ r, ms.drain n = .ok r ∧ MRep r.st (PMap.eraseAll m (ms.mask.toList.take n)) ∧
      r.val = PMap.entries m (ms.mask.toList.take n) ∧
      (nz (heldVals r.st (PMap.eraseAll m (ms.mask.toList.take n)) ++ r.destroyed ++ r.val.map (·.2))).Perm
        (nz (heldVals ms m ++ [])) := by
  obtain ⟨r, h1, h2, h3, _, h6⟩ := drain_cons h n
  exact ⟨r, h1, h2, h3, perm_of_count (fun c _ => by simpa using h6 c)⟩

theorem entry_conservation {ms : Masked} {m : Nat → Option Int} (h : MRep ms m) (a : Alloc) (e : Entity)
    (op : EntryOp) (hop : entryValsOk ms.inner op) :
    ∃ r m', ms.entry a e op = .ok r ∧ MRep r.st m' ∧
      m' = (if a.isAlive e then (PMap.entry m e.id op).2 else m) ∧
      r.val = (if a.isAlive e then (PMap.entry m e.id op).1 else .wrongGen) ∧
      (nz (heldVals r.st m' ++ r.destroyed ++ entryOut op r.val)).Perm
        (nz (heldVals ms m ++ entryIn op r.val)) := by
  obtain ⟨r, m', h1, h2, h3, h4, _, h6⟩ := entry_cons h a e op hop
  exact ⟨r, m', h1, h2, h3, h4, perm_of_count h6⟩

theorem getMutOrDefault_conservation {ms : Masked} {m : Nat → Option Int} (h : MRep ms m) (a : Alloc)
    (e : Entity) (d : Nat) (w : Option Int) (hw : ∀ x, w = some x → ms.inner.valOk x) :
    ∃ r m', ms.getMutOrDefault a e d w = .ok r ∧ MRep r.st m' ∧
      m' = (if a.isAlive e then upd m e.id (some (w.getD ((m e.id).getD 0))) else m) ∧
      (nz (heldVals r.st m' ++ r.destroyed ++ accOut w r.val)).Perm (nz (heldVals ms m ++ accIn w r.val)) := by
  obtain ⟨r, m', h1, h2, h3, _, _, h6⟩ := getMutOrDefault_cons h a e d w hw
  exact ⟨r, m', h1, h2, h3, perm_of_count h6⟩

end Masked
end SpecsModel
