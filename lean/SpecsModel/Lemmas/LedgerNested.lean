/-
  C08 (a), nested: with enough fuel (the bound of `LazyQ.fuel_all`), no operation executed INSIDE a
  lazily executed script — at any nesting depth, including nested `maintain`s — returns a panic
  result either: every entry that `maintain` adds to `World.trace` is panic-free.
-/
import SpecsModel.Lemmas.LedgerNoPanic
import SpecsModel.Lemmas.LedgerCons
namespace SpecsModel
open Masked Alloc LazyQ
namespace World
variable {X : Nat → Prop}

/-! ### Only `maintain` writes to the trace -/

theorem applyS_trace {α} (w : World) (k : Nat) (o : Out (SRes α)) (f : α → WRes) :
    (w.applyS k o f).1.trace = w.trace := by
  cases o <;> rfl

theorem deleteEntities_trace (w : World) (es : List Entity) : (w.deleteEntities es).1.trace = w.trace := by
  unfold deleteEntities
  cases w.ent.alloc.kill es with
  | ok p =>
    obtain ⟨a, r⟩ := p
    simp only
    split
    · next w' h => exact (deleteComponents_frame _ _ _ _ h).trace
    · rfl
    · rfl
  | panic why => rfl
  | ub why => rfl

theorem buildComps_trace (e : Entity) : ∀ (cs : List (Nat × Int)) (w w' : World),
    w.buildComps e cs = .ok w' → w'.trace = w.trace := by
  intro cs
  induction cs with
  | nil => intro w w' h; simp only [buildComps] at h; cases h; rfl
  | cons kv cs ih =>
    intro w w' h
    obtain ⟨k, v⟩ := kv
    simp only [buildComps] at h
    split at h
    · cases h
    · split at h
      · split at h
        · cases h
        · exact (ih _ _ h).trans rfl
      · cases h
      · cases h

theorem createWith_trace (w : World) (a d : Bool) (comps : List (Nat × Int)) :
    (w.createWith a d comps).1.trace = w.trace := by
  unfold createWith
  split
  · rfl
  · split
    · next ew e hcre =>
      simp only
      split
      · next w2 hb =>
        have := buildComps_trace e comps _ _ hb
        split
        · split <;> first | exact this | (simp only; exact this)
        · exact this
      · rfl
      · rfl
    · rfl

theorem rjoinLoop_trace (k : Nat) (mutable : Bool) : ∀ (ids : List Nat) (w : World) (acts : List RAct)
    (acc : List (Nat × ItemRes)), (rjoinLoop w k mutable ids acts acc).1.trace = w.trace := by
  intro ids
  induction ids with
  | nil => intro w acts acc; rfl
  | cons id ids ih =>
    intro w acts acc
    simp only [rjoinLoop]
    split
    · rfl
    · next m hm =>
      split
      · exact ih _ _ _
      · split
        · exact ih _ _ _
        · rfl
        · rfl
      · split
        · exact ih _ _ _
        · split
          · split
            · rw [ih]; rfl
            · split
              · rw [ih]; rfl
              · rfl
              · rfl
          · rfl
          · rfl
      · split
        · exact ih _ _ _
        · split
          · exact ih _ _ _
          · rfl
          · rfl
      · split
        · exact ih _ _ _
        · split
          · exact ih _ _ _
          · split
            · rw [ih]; rfl
            · rfl
            · rfl

theorem lazyCreate_fold_trace (e : Entity) : ∀ (cs : List (Nat × Int)) (w1 : World),
    (cs.foldl (fun (w : World) (kv : Nat × Int) =>
      { w with queue := w.queue ++ [.ins w.nextTag kv.1 e kv.2], nextTag := w.nextTag + 1 }) w1).trace
      = w1.trace := by
  intro cs
  induction cs with
  | nil => intro w1; rfl
  | cons kv cs ih => intro w1; simp only [List.foldl_cons]; rw [ih]

theorem register_trace (w : World) (k : Nat) : (w.register k).trace = w.trace := by
  unfold register
  split
  · cases w.store? k <;> (simp only []; split <;> rfl)
  · rfl

/-- Every operation other than `maintain` leaves the trace alone. -/
theorem step_trace_nonmerge (f : Nat) (w : World) (op : WOp) (h : op ≠ .ent .merge) :
    (step f w op).1.trace = w.trace := by
  cases op with
  | ent eop =>
    cases eop with
    | merge => exact absurd rfl h
    | delAll =>
      simp only [step]
      have := deleteEntities_trace w w.ent.alloc.joinEntities
      generalize w.deleteEntities w.ent.alloc.joinEntities = x at *
      obtain ⟨w', r⟩ := x
      simp only at this ⊢
      split <;> simp_all
    | delNow hd => simp only [step]; split <;> first | rfl | exact deleteEntities_trace _ _
    | delBatch hds => simp only [step]; split <;> first | rfl | exact deleteEntities_trace _ _
    | _ => simp only [step]
  | reg k path => simp only [step]; exact register_trace w k
  | createWith a d comps => simp only [step]; exact createWith_trace w a d comps
  | get k hd => simp only [step]; split <;> first | rfl | (split <;> rfl)
  | getMut k hd d wr => simp only [step]; split <;> first | rfl | exact applyS_trace ..
  | has k hd => simp only [step]; split <;> rfl
  | ins k hd v => simp only [step]; split <;> first | rfl | exact applyS_trace ..
  | rem k hd => simp only [step]; split <;> first | rfl | exact applyS_trace ..
  | entry k hd eop => simp only [step]; split <;> first | rfl | exact applyS_trace ..
  | mutOrDefault k hd d wr => simp only [step]; split <;> first | rfl | exact applyS_trace ..
  | count k => simp only [step]; split <;> rfl
  | isEmpty k => simp only [step]; split <;> rfl
  | mask k => simp only [step]; split <;> rfl
  | clear k => simp only [step]; split <;> first | rfl | exact applyS_trace ..
  | drain k n => simp only [step]; split <;> first | rfl | exact applyS_trace ..
  | slice k => simp only [step]; split <;> rfl
  | emit k b => simp only [step]; split <;> rfl
  | events k => simp only [step]; split <;> first | rfl | (split <;> rfl)
  | lazyIns k hd v => simp only [step]; split <;> rfl
  | lazyInsAll k items => simp only [step]; split <;> rfl
  | lazyRem k hd => simp only [step]; split <;> rfl
  | lazyCreate comps =>
    simp only [step]
    split
    · rfl
    · split
      · simp only; rw [lazyCreate_fold_trace]
      · rfl
  | lazyExec s => simp only [step]; rfl
  | rjoin k mutable acts => simp only [step]; split <;> first | rfl | exact rjoinLoop_trace ..
  | dropWorld => simp only [step]; split <;> rfl

theorem runAct_trace_nonexec (f : Nat) (w : World) (act : LazyAct) (h : ∀ t s, act ≠ .exec t s) :
    (runAct f w act).trace = w.trace := by
  cases act with
  | ins t k e v => exact (runAct_ins_only f w t k e v).trace
  | insAll t k items => exact (runAct_insAll_only f w t k items).trace
  | rem t k e => exact (runAct_rem_only f w t k e).trace
  | exec t s => exact absurd rfl (h t s)

/-! ### Every nested result is panic-free -/

/-- Every result recorded for an operation run inside a lazily executed script is panic-free. -/
def TraceOk (w : World) : Prop := ∀ x, x ∈ w.trace → x.2.2.isPanic = false

theorem TraceOk.of_eq {w w' : World} (h : TraceOk w) (e : w'.trace = w.trace) : TraceOk w' := by
  intro x hx; rw [e] at hx; exact h x hx

/-- With the fuel bound of `LazyQ.fuel_all`: every function of the mutual block keeps the trace
    panic-free, and `step` / `maintain` themselves do not panic — for arbitrary operations. -/
theorem trace_all (f : Nat) :
    (∀ w op, WInvX X w → TraceOk w → qsize w.queue + opSize op ≤ f →
      TraceOk (step f w op).1 ∧ (step f w op).2.isPanic = false) ∧
    (∀ tag w ops, WInvX X w → TraceOk w → qsize w.queue + listSize ops + 1 ≤ f →
      TraceOk (runScript f tag w ops)) ∧
    (∀ w act, WInvX X w → (∀ e, e ∈ act.ents → e ∈ w.ent.log.toList) → TraceOk w →
      qsize w.queue + actCost act + 1 ≤ f → TraceOk (runAct f w act)) ∧
    (∀ w acc, WInvX X w → TraceOk w → qsize w.queue + 2 ≤ f → TraceOk (runQueue f w acc).1) ∧
    (∀ w, WInvX X w → TraceOk w → qsize w.queue + 3 ≤ f →
      TraceOk (maintain f w).1 ∧ (maintain f w).2.isPanic = false) := by
  induction f with
  | zero =>
    refine ⟨?_, ?_, ?_, ?_, ?_⟩
    · intro w op _ _ h; have := opSize_pos op; omega
    · intro tag w ops _ _ h; omega
    · intro w act _ _ _ h; omega
    · intro w acc _ _ h; omega
    · intro w _ _ h; omega
  | succ f ih =>
    obtain ⟨ihS, ihR, ihA, ihQ, ihM⟩ := ih
    obtain ⟨fS, fR, fA, fQ, fM⟩ := fuel_all f
    obtain ⟨ivS, ivR, ivA, ivQ, ivM⟩ := inv_mutual (X := X) f
    refine ⟨?_, ?_, ?_, ?_, ?_⟩
    · intro w op hi ht hb
      by_cases hm : op = .ent .merge
      · subst hm
        simp only [opSize] at hb
        simp only [step]
        exact ihM w hi ht (by omega)
      · exact ⟨ht.of_eq (step_trace_nonmerge _ w op hm), np_step_nonrec hi _ op hm⟩
    · intro tag w ops hi ht hb
      cases ops with
      | nil => simpa [runScript] using ht
      | cons op rest =>
        simp only [listSize] at hb
        simp only [runScript]
        obtain ⟨t1, p1⟩ := ihS w op hi ht (by omega)
        have m1 := (fS w op (by omega)).1
        apply ihR
        · exact winv_trace (ivS w op hi) _
        · intro x hx
          simp only [List.mem_cons] at hx
          rcases hx with rfl | hx
          · exact p1
          · exact t1 x hx
        · simp only []; omega
    · intro w act hi hents ht hb
      cases act with
      | exec t s =>
        simp only [actCost] at hb
        simp only [runAct]
        exact ihR t w s hi ht (by omega)
      | ins t k e v => exact ht.of_eq (runAct_trace_nonexec _ w _ (by intro t s hc; cases hc))
      | insAll t k items => exact ht.of_eq (runAct_trace_nonexec _ w _ (by intro t s hc; cases hc))
      | rem t k e => exact ht.of_eq (runAct_trace_nonexec _ w _ (by intro t s hc; cases hc))
    · intro w acc hi ht hb
      simp only [runQueue]
      cases hq : w.queue with
      | nil => exact ht
      | cons act rest =>
        simp only
        rw [hq] at hb
        simp only [qsize] at hb
        have hi0 := winv_pop hi hq
        have hents : ∀ e, e ∈ act.ents → e ∈ ({ w with queue := rest } : World).ent.log.toList :=
          fun e he => hi.queueOk act (by rw [hq]; exact List.mem_cons_self) e he
        have t1 := ihA { w with queue := rest } act hi0 hents (ht.of_eq rfl) (by simp only []; omega)
        have m1 := (fA { w with queue := rest } act (by simp only []; omega)).1
        simp only [] at m1
        exact ihQ _ _ (ivA _ act hi0 hents) t1 (by omega)
    · intro w hi ht hb
      obtain ⟨w2i, hi2, hrun, h0, _, _, hq2⟩ := inv_maintain_pre hi
      rcases maintain_cases w with ⟨a, deleted, w2, _, _, fr, _, h0'⟩ | ⟨w', why, _, hp⟩
      · have hw : w2i = w2 := by rw [← h0, h0']
        subst hw
        rw [hrun f]
        refine ⟨?_, rfl⟩
        exact ihQ w2i [] hi2 (ht.of_eq fr.trace) (by rw [hq2]; omega)
      · have h1 := hrun 0
        rw [hp 1] at h1
        cases h1

/-- **Nested no-panic**, one operation: with `qsize queue + opSize op ≤ fuel`, the operation does not
    panic and neither does any operation it causes to run inside lazily executed scripts. -/
theorem step_no_panic_nested {w : World} (hi : WInvX X w) (ht : TraceOk w) (op : WOp) (fuel : Nat)
    (hf : qsize w.queue + opSize op ≤ fuel) :
    (step fuel w op).2.isPanic = false ∧ TraceOk (step fuel w op).1 :=
  ⟨((trace_all fuel).1 w op hi ht hf).2, ((trace_all fuel).1 w op hi ht hf).1⟩

/-- The fuel a history needs: enough for each of its operations on the queue it meets. -/
def fuelOk (fuel : Nat) : World → List WOp → Prop
  | _, [] => True
  | w, op :: ops => qsize w.queue + opSize op ≤ fuel ∧ fuelOk fuel (step fuel w op).1 ops

/-- The size of the whole history is always enough fuel (from the empty queue). -/
theorem fuelOk_of_size (fuel : Nat) : ∀ (ops : List WOp) (w : World),
    qsize w.queue + listSize ops ≤ fuel → fuelOk fuel w ops := by
  intro ops
  induction ops with
  | nil => intro w _; trivial
  | cons op ops ih =>
    intro w h
    simp only [listSize] at h
    have hs : qsize w.queue + opSize op ≤ fuel := by omega
    refine ⟨hs, ih _ ?_⟩
    have := ((fuel_all fuel).1 w op hs).1
    omega

/-- **Nested no-panic**, histories: no top-level result and no nested result is a panic. -/
theorem run_no_panic_nested (fuel : Nat) : ∀ (ops : List WOp) (w : World), WInvX X w → TraceOk w →
    fuelOk fuel w ops →
    (∀ r, r ∈ transcript fuel w ops → r.isPanic = false) ∧
    TraceOk (ops.foldl (fun w op => (step fuel w op).1) w) := by
  intro ops
  induction ops with
  | nil => intro w _ ht _; exact ⟨fun r hr => (by cases hr), ht⟩
  | cons op ops ih =>
    intro w hi ht hf
    obtain ⟨h1, h2⟩ := hf
    obtain ⟨p1, t1⟩ := step_no_panic_nested hi ht op fuel h1
    obtain ⟨a1, a2⟩ := ih _ ((inv_mutual fuel).1 w op hi) t1 h2
    refine ⟨?_, a2⟩
    intro r hr
    simp only [transcript, List.mem_cons] at hr
    rcases hr with rfl | hr
    · exact p1
    · exact a1 r hr

end World
end SpecsModel
