/-
  `clean` destroys the stored values exactly once each (`clean_perm`), given the well-formedness
  invariant `UStore.WF` (map-based kinds have distinct keys), which every operation preserves.
  Complements `UStore.clean_ok` (Lemmas/StoreRep) for the drop ledger (C08).
-/
import SpecsModel.Lemmas.StoreRep
namespace SpecsModel
namespace UStore

/-- Map-based kinds hold each key once (the real `HashMap` / `BTreeMap` do by construction). -/
def WF : UStore → Prop
  | hash l => (l.map (·.1)).Nodup
  | btree l => (l.map (·.1)).Nodup
  | flagged inner _ _ => WF inner
  | derefFlagged inner _ _ => WF inner
  | _ => True

theorem erase_keys_nodup {l : List (Nat × Int)} (h : (l.map (·.1)).Nodup) (i : Nat) :
    (((i, v) :: assocErase l i).map (·.1)).Nodup := by
  simp only [List.map_cons, List.nodup_cons]
  constructor
  · intro hmem
    obtain ⟨p, hp, hpi⟩ := List.mem_map.mp hmem
    unfold assocErase at hp
    have := (List.mem_filter.mp hp).2
    simp [hpi] at this
  · exact List.Nodup.sublist (List.Sublist.map _ List.filter_sublist) h

theorem map_set_keys (l : List (Nat × Int)) (i : Nat) (v : Int) :
    (l.map (fun p => if p.1 == i then (i, v) else p)).map (·.1) = l.map (·.1) := by
  rw [List.map_map]
  apply List.map_congr_left
  intro p _
  simp only [Function.comp]
  by_cases h : p.1 = i
  · simp [h]
  · have : (p.1 == i) = false := by simp [h]
    simp [this]

theorem insert_wf {s s' : UStore} {i : Nat} {v : Int} {d : List Int} (hw : WF s)
    (h : s.insert i v = .ok (s', d)) : WF s' := by
  induction s generalizing s' d with
  | flagged inner ev emit ih =>
    simp only [insert] at h
    cases hi : insert inner i v with
    | ok p =>
      obtain ⟨s1, d1⟩ := p
      rw [hi] at h
      simp only [Out.ok.injEq, Prod.mk.injEq] at h
      obtain ⟨rfl, rfl⟩ := h
      exact (ih hw hi : WF s1)
    | panic w => rw [hi] at h; cases h
    | ub w => rw [hi] at h; cases h
  | derefFlagged inner ev emit ih =>
    simp only [insert] at h
    cases hi : insert inner i v with
    | ok p =>
      obtain ⟨s1, d1⟩ := p
      rw [hi] at h
      simp only [Out.ok.injEq, Prod.mk.injEq] at h
      obtain ⟨rfl, rfl⟩ := h
      exact (ih hw hi : WF s1)
    | panic w => rw [hi] at h; cases h
    | ub w => rw [hi] at h; cases h
  | dvec slots =>
    simp only [insert] at h
    split at h <;> (cases h; trivial)
  | hash l => cases h; exact erase_keys_nodup hw i
  | btree l => cases h; exact erase_keys_nodup hw i
  | _ => cases h; trivial

theorem poke_wf {s s' : UStore} {i : Nat} {v : Int} (hw : WF s) (h : s.poke i v = .ok s') :
    WF s' := by
  induction s generalizing s' with
  | flagged inner ev emit ih =>
    simp only [poke] at h
    cases hi : poke inner i v with
    | ok s1 => rw [hi] at h; simp only [Out.ok.injEq] at h; subst h; exact (ih hw hi : WF s1)
    | panic w => rw [hi] at h; cases h
    | ub w => rw [hi] at h; cases h
  | derefFlagged inner ev emit ih =>
    simp only [poke] at h
    cases hi : poke inner i v with
    | ok s1 => rw [hi] at h; simp only [Out.ok.injEq] at h; subst h; exact (ih hw hi : WF s1)
    | panic w => rw [hi] at h; cases h
    | ub w => rw [hi] at h; cases h
  | hash l =>
    simp only [poke] at h
    split at h
    · cases h; simp only [WF, map_set_keys]; exact hw
    · cases h
  | btree l =>
    simp only [poke] at h
    split at h
    · cases h; simp only [WF, map_set_keys]; exact hw
    · cases h
  | null => cases h; trivial
  | dense data eid did =>
    simp only [poke] at h
    repeat' split at h
    all_goals first | (cases h; trivial) | cases h
  | _ =>
    simp only [poke] at h
    split at h
    all_goals first | (cases h; trivial) | cases h

theorem touch_wf (s : UStore) (i d : Nat) : WF (s.touch i d) ↔ WF s := by
  cases s <;> exact Iff.rfl

theorem remove_wf {s s' : UStore} {i : Nat} {v : Int} (hw : WF s) (h : s.remove i = .ok (s', v)) :
    WF s' := by
  induction s generalizing s' v with
  | flagged inner ev emit ih =>
    simp only [remove] at h
    cases hi : remove inner i with
    | ok p =>
      obtain ⟨s1, d1⟩ := p
      rw [hi] at h
      simp only [Out.ok.injEq, Prod.mk.injEq] at h
      obtain ⟨rfl, rfl⟩ := h
      exact (ih hw hi : WF s1)
    | panic w => rw [hi] at h; cases h
    | ub w => rw [hi] at h; cases h
  | derefFlagged inner ev emit ih =>
    simp only [remove] at h
    cases hi : remove inner i with
    | ok p =>
      obtain ⟨s1, d1⟩ := p
      rw [hi] at h
      simp only [Out.ok.injEq, Prod.mk.injEq] at h
      obtain ⟨rfl, rfl⟩ := h
      exact (ih hw hi : WF s1)
    | panic w => rw [hi] at h; cases h
    | ub w => rw [hi] at h; cases h
  | hash l =>
    simp only [remove] at h
    split at h
    · cases h
      exact List.Nodup.sublist (List.Sublist.map _ List.filter_sublist) hw
    · cases h
  | btree l =>
    simp only [remove] at h
    split at h
    · cases h
      exact List.Nodup.sublist (List.Sublist.map _ List.filter_sublist) hw
    · cases h
  | null => cases h; trivial
  | dense data eid did =>
    simp only [remove] at h
    repeat' split at h
    all_goals first | (cases h; trivial) | cases h
  | _ =>
    simp only [remove] at h
    split at h
    all_goals first | (cases h; trivial) | cases h

theorem clean_wf {s s' : UStore} {mask : BSet} {d : List Int} (hw : WF s)
    (h : s.clean mask = .ok (s', d)) : WF s' := by
  induction s generalizing s' d with
  | flagged inner ev emit ih =>
    simp only [clean] at h
    cases hi : clean inner mask with
    | ok p =>
      obtain ⟨s1, d1⟩ := p
      rw [hi] at h
      simp only [Out.ok.injEq, Prod.mk.injEq] at h
      obtain ⟨rfl, rfl⟩ := h
      exact (ih hw hi : WF s1)
    | panic w => rw [hi] at h; cases h
    | ub w => rw [hi] at h; cases h
  | derefFlagged inner ev emit ih =>
    simp only [clean] at h
    cases hi : clean inner mask with
    | ok p =>
      obtain ⟨s1, d1⟩ := p
      rw [hi] at h
      simp only [Out.ok.injEq, Prod.mk.injEq] at h
      obtain ⟨rfl, rfl⟩ := h
      exact (ih hw hi : WF s1)
    | panic w => rw [hi] at h; cases h
    | ub w => rw [hi] at h; cases h
  | vec slots =>
    simp only [clean] at h
    split at h
    all_goals first | (cases h; trivial) | cases h
  | hash l => cases h; simp [WF]
  | btree l => cases h; simp [WF]
  | _ => cases h; trivial

/-! ### What `clean` destroys -/

theorem mem_keys_iff_assocGet (l : List (Nat × Int)) (i : Nat) :
    i ∈ l.map (·.1) ↔ (assocGet l i).isSome = true := by
  induction l with
  | nil => simp [assocGet]
  | cons p l ih =>
    rw [assocGet_cons]
    simp only [List.map_cons, List.mem_cons]
    by_cases h : p.1 = i
    · simp [h]
    · simp only [h, if_false, ← ih]
      constructor
      · rintro (h' | h')
        · exact absurd h'.symm h
        · exact h'
      · exact Or.inr

theorem assocGet_of_mem {l : List (Nat × Int)} (hn : (l.map (·.1)).Nodup) {p : Nat × Int}
    (hp : p ∈ l) : assocGet l p.1 = some p.2 := by
  induction l with
  | nil => simp at hp
  | cons q l ih =>
    simp only [List.map_cons, List.nodup_cons] at hn
    rw [assocGet_cons]
    rcases List.mem_cons.mp hp with rfl | hp'
    · simp
    · have hne : q.1 ≠ p.1 := by
        intro e; exact hn.1 (e ▸ List.mem_map.mpr ⟨p, hp', rfl⟩)
      simp only [hne, if_false]
      exact ih hn.2 hp'

/-- Values destroyed by clearing a map-based storage: a permutation of the stored values. -/
theorem assoc_vals_perm {l : List (Nat × Int)} (hn : (l.map (·.1)).Nodup) {m : Nat → Option Int}
    (h : ∀ i, assocGet l i = m i) {mask : BSet} (hmask : ∀ i, mask.mem i = (m i).isSome) :
    (l.map (·.2)).Perm (mask.toList.filterMap m) := by
  have h1 : l.map (·.2) = (l.map (·.1)).filterMap m := by
    rw [List.filterMap_map, ← List.filterMap_eq_map']
    apply filterMap_congr'
    intro p hp
    simp only [Function.comp, ← h p.1, assocGet_of_mem hn hp]
  rw [h1]
  apply List.Perm.filterMap
  rw [List.perm_ext_iff_of_nodup hn mask.toList_nodup]
  intro i
  rw [mem_keys_iff_assocGet, h i, BSet.mem_toList, hmask i]

/-- Masked indices below the slot count, ascending = the mask's members (all are below it). -/
theorem range_filter_mask {mask : BSet} {n : Nat} (h : ∀ i, mask.mem i = true → i < n) :
    (List.range n).filter mask.mem = mask.toList := by
  apply sortedLt_ext
  · exact List.Pairwise.sublist List.filter_sublist List.pairwise_lt_range
  · exact mask.toList_sorted
  · intro i
    rw [BSet.mem_toList, List.mem_filter, List.mem_range]
    exact ⟨fun hh => hh.2, fun hh => ⟨h i hh, hh⟩⟩

theorem toList_eq_filterMap_range (a : Array Int) :
    a.toList = (List.range a.size).filterMap (fun i => a[i]?) := by
  apply List.ext_getElem?
  intro k
  by_cases hk : k < a.size
  · have h1 : (List.range a.size).filterMap (fun i => a[i]?) =
        (List.range a.size).map (fun i => a[i]?.getD 0) := by
      rw [← List.filterMap_eq_map']
      apply filterMap_congr'
      intro i hi
      have := List.mem_range.mp hi
      simp [Array.getElem?_eq_getElem this]
    rw [h1]
    simp [hk]
  · have h2 : ((List.range a.size).filterMap (fun i => a[i]?)).length ≤ a.size := by
      have := List.length_filterMap_le (fun i => a[i]?) (List.range a.size)
      simpa using this
    rw [List.getElem?_eq_none (by simp; omega), List.getElem?_eq_none (by omega)]

/-- (A wrapper around) `DefaultVecStorage`, whose vector also holds default fillers. -/
def dvecBased : UStore → Bool
  | dvec _ => true
  | flagged inner _ _ => dvecBased inner
  | derefFlagged inner _ _ => dvecBased inner
  | _ => false

/-- **Every stored value is destroyed exactly once by `clean`**: the destroyed list is a
    permutation of the stored values (the map's values in ascending key order) plus default
    fillers (all 0), and there are fillers only for the default-filled vector. -/
theorem clean_perm_fillers {s s' : UStore} {m : Nat → Option Int} (h : Rep s m) (hw : WF s)
    {mask : BSet} (hmask : ∀ i, mask.mem i = (m i).isSome) {d : List Int}
    (hc : s.clean mask = .ok (s', d)) :
    ∃ fillers : List Int, (∀ x ∈ fillers, x = 0) ∧ (s.dvecBased = false → fillers = []) ∧
      d.Perm (mask.toList.filterMap m ++ fillers) := by
  induction s generalizing s' d with
  | vec slots =>
    simp only [Rep] at h
    obtain ⟨slots', hr⟩ := vecClean_spec mask (List.range slots.size) slots [] List.nodup_range (by
      intro i _ hi
      rw [hmask i] at hi
      obtain ⟨v, hv⟩ := Option.isSome_iff_exists.mp hi
      exact ⟨v, h i v hv⟩)
    simp only [clean, hr, Out.ok.injEq, Prod.mk.injEq] at hc
    obtain ⟨_, rfl⟩ := hc
    have hlt : ∀ i, mask.mem i = true → i < slots.size := by
      intro i hi
      rw [hmask i] at hi
      obtain ⟨v, hv⟩ := Option.isSome_iff_exists.mp hi
      exact getElem?_lt (h i v hv)
    rw [range_filter_mask hlt]
    have : mask.toList.filterMap (fun i => (slots[i]?).join) = mask.toList.filterMap m := by
      apply filterMap_congr'
      intro i hi
      have hi' := (BSet.mem_toList _ _).mp hi
      rw [hmask i] at hi'
      obtain ⟨v, hv⟩ := Option.isSome_iff_exists.mp hi'
      simp [hv, h i v hv]
    refine ⟨[], by simp, fun _ => rfl, ?_⟩
    simp only [List.reverse_nil, List.nil_append, this, List.append_nil]
    exact List.Perm.refl _
  | dense data eid did =>
    cases hc
    exact ⟨[], by simp, fun _ => rfl, by simpa using dense_slice_perm h hmask⟩
  | dvec slots =>
    cases hc
    obtain ⟨h1, h2⟩ := h
    have hlt : ∀ i, mask.mem i = true → i < slots.size := by
      intro i hi
      rw [hmask i] at hi
      obtain ⟨v, hv⟩ := Option.isSome_iff_exists.mp hi
      exact getElem?_lt (h1 i v hv)
    refine ⟨((List.range slots.size).filter (fun i => !mask.mem i)).filterMap (fun i => slots[i]?),
      ?_, by simp [dvecBased], ?_⟩
    · intro x hx
      obtain ⟨i, hi, hix⟩ := List.mem_filterMap.mp hx
      obtain ⟨hi1, hi2⟩ := List.mem_filter.mp hi
      have hn : m i = none := by
        have := hmask i
        cases hmi : m i with
        | none => rfl
        | some v => simp [hmi] at this; simp [this] at hi2
      rw [h2 i (List.mem_range.mp hi1) hn] at hix
      exact (Option.some.inj hix).symm
    · have e1 : mask.toList.filterMap m =
          ((List.range slots.size).filter mask.mem).filterMap (fun i => slots[i]?) := by
        rw [range_filter_mask hlt]
        apply filterMap_congr'
        intro i hi
        have hi' := (BSet.mem_toList _ _).mp hi
        rw [hmask i] at hi'
        obtain ⟨v, hv⟩ := Option.isSome_iff_exists.mp hi'
        rw [hv, h1 i v hv]
      rw [toList_eq_filterMap_range, e1, ← List.filterMap_append]
      exact (List.filter_append_perm mask.mem (List.range slots.size)).symm.filterMap _
  | hash l => cases hc; exact ⟨[], by simp, fun _ => rfl, by simpa using assoc_vals_perm hw h hmask⟩
  | btree l => cases hc; exact ⟨[], by simp, fun _ => rfl, by simpa using assoc_vals_perm hw h hmask⟩
  | null =>
    cases hc
    simp only [Rep] at h
    have : mask.toList.map (fun _ => (0 : Int)) = mask.toList.filterMap m := by
      rw [← List.filterMap_eq_map']
      apply filterMap_congr'
      intro i hi
      have hi' := (BSet.mem_toList _ _).mp hi
      rw [hmask i] at hi'
      obtain ⟨v, hv⟩ := Option.isSome_iff_exists.mp hi'
      rw [hv, h i v hv]
    exact ⟨[], by simp, fun _ => rfl, by rw [this]; simp⟩
  | flagged inner ev emit ih =>
    simp only [clean] at hc
    cases hi : clean inner mask with
    | ok p =>
      obtain ⟨s1, d1⟩ := p
      rw [hi] at hc
      simp only [Out.ok.injEq, Prod.mk.injEq] at hc
      obtain ⟨_, rfl⟩ := hc
      exact ih h hw hi
    | panic w => rw [hi] at hc; cases hc
    | ub w => rw [hi] at hc; cases hc
  | derefFlagged inner ev emit ih =>
    simp only [clean] at hc
    cases hi : clean inner mask with
    | ok p =>
      obtain ⟨s1, d1⟩ := p
      rw [hi] at hc
      simp only [Out.ok.injEq, Prod.mk.injEq] at hc
      obtain ⟨_, rfl⟩ := hc
      exact ih h hw hi
    | panic w => rw [hi] at hc; cases hc
    | ub w => rw [hi] at hc; cases hc

/-- The non-zero destroyed values are a permutation of the non-zero stored values (all kinds). -/
theorem clean_perm {s s' : UStore} {m : Nat → Option Int} (h : Rep s m) (hw : WF s) {mask : BSet}
    (hmask : ∀ i, mask.mem i = (m i).isSome) {d : List Int} (hc : s.clean mask = .ok (s', d)) :
    (d.filter (· ≠ 0)).Perm ((mask.toList.filterMap m).filter (· ≠ 0)) := by
  obtain ⟨f, hf, _, hp⟩ := clean_perm_fillers h hw hmask hc
  have h0 : f.filter (· ≠ 0) = [] := by
    rw [List.filter_eq_nil_iff]
    intro x hx
    simp [hf x hx]
  have := hp.filter (· ≠ 0)
  rwa [List.filter_append, h0, List.append_nil] at this

/-- For every kind but the default-filled vector: exactly the stored values. -/
theorem clean_perm_exact {s s' : UStore} {m : Nat → Option Int} (h : Rep s m) (hw : WF s)
    {mask : BSet} (hmask : ∀ i, mask.mem i = (m i).isSome) {d : List Int}
    (hc : s.clean mask = .ok (s', d)) (hk : s.dvecBased = false) :
    d.Perm (mask.toList.filterMap m) := by
  obtain ⟨f, _, hf, hp⟩ := clean_perm_fillers h hw hmask hc
  rwa [hf hk, List.append_nil] at hp


/-! ### The kind (here: default-filled or not) is never changed -/

theorem insert_dvecBased {s s' : UStore} {i : Nat} {v : Int} {d : List Int}
    (h : s.insert i v = .ok (s', d)) : s'.dvecBased = s.dvecBased := by
  induction s generalizing s' d with
  | flagged inner ev emit ih =>
    simp only [insert] at h
    cases hi : insert inner i v with
    | ok p =>
      obtain ⟨s1, d1⟩ := p
      rw [hi] at h
      simp only [Out.ok.injEq, Prod.mk.injEq] at h
      obtain ⟨rfl, rfl⟩ := h
      exact (ih hi : s1.dvecBased = _)
    | panic w => rw [hi] at h; cases h
    | ub w => rw [hi] at h; cases h
  | derefFlagged inner ev emit ih =>
    simp only [insert] at h
    cases hi : insert inner i v with
    | ok p =>
      obtain ⟨s1, d1⟩ := p
      rw [hi] at h
      simp only [Out.ok.injEq, Prod.mk.injEq] at h
      obtain ⟨rfl, rfl⟩ := h
      exact (ih hi : s1.dvecBased = _)
    | panic w => rw [hi] at h; cases h
    | ub w => rw [hi] at h; cases h
  | dvec slots =>
    simp only [insert] at h
    split at h <;> (cases h; rfl)
  | _ => cases h; rfl

theorem poke_dvecBased {s s' : UStore} {i : Nat} {v : Int} (h : s.poke i v = .ok s') :
    s'.dvecBased = s.dvecBased := by
  induction s generalizing s' with
  | flagged inner ev emit ih =>
    simp only [poke] at h
    cases hi : poke inner i v with
    | ok s1 => rw [hi] at h; simp only [Out.ok.injEq] at h; subst h; exact (ih hi : s1.dvecBased = _)
    | panic w => rw [hi] at h; cases h
    | ub w => rw [hi] at h; cases h
  | derefFlagged inner ev emit ih =>
    simp only [poke] at h
    cases hi : poke inner i v with
    | ok s1 => rw [hi] at h; simp only [Out.ok.injEq] at h; subst h; exact (ih hi : s1.dvecBased = _)
    | panic w => rw [hi] at h; cases h
    | ub w => rw [hi] at h; cases h
  | null => cases h; rfl
  | dense data eid did =>
    simp only [poke] at h
    repeat' split at h
    all_goals first | (cases h; rfl) | cases h
  | _ =>
    simp only [poke] at h
    split at h
    all_goals first | (cases h; rfl) | cases h

theorem touch_dvecBased (s : UStore) (i d : Nat) : (s.touch i d).dvecBased = s.dvecBased := by
  cases s <;> rfl

theorem remove_dvecBased {s s' : UStore} {i : Nat} {v : Int} (h : s.remove i = .ok (s', v)) :
    s'.dvecBased = s.dvecBased := by
  induction s generalizing s' v with
  | flagged inner ev emit ih =>
    simp only [remove] at h
    cases hi : remove inner i with
    | ok p =>
      obtain ⟨s1, d1⟩ := p
      rw [hi] at h
      simp only [Out.ok.injEq, Prod.mk.injEq] at h
      obtain ⟨rfl, rfl⟩ := h
      exact (ih hi : s1.dvecBased = _)
    | panic w => rw [hi] at h; cases h
    | ub w => rw [hi] at h; cases h
  | derefFlagged inner ev emit ih =>
    simp only [remove] at h
    cases hi : remove inner i with
    | ok p =>
      obtain ⟨s1, d1⟩ := p
      rw [hi] at h
      simp only [Out.ok.injEq, Prod.mk.injEq] at h
      obtain ⟨rfl, rfl⟩ := h
      exact (ih hi : s1.dvecBased = _)
    | panic w => rw [hi] at h; cases h
    | ub w => rw [hi] at h; cases h
  | null => cases h; rfl
  | dense data eid did =>
    simp only [remove] at h
    repeat' split at h
    all_goals first | (cases h; rfl) | cases h
  | _ =>
    simp only [remove] at h
    split at h
    all_goals first | (cases h; rfl) | cases h

theorem clean_dvecBased {s s' : UStore} {mask : BSet} {d : List Int}
    (h : s.clean mask = .ok (s', d)) : s'.dvecBased = s.dvecBased := by
  induction s generalizing s' d with
  | flagged inner ev emit ih =>
    simp only [clean] at h
    cases hi : clean inner mask with
    | ok p =>
      obtain ⟨s1, d1⟩ := p
      rw [hi] at h
      simp only [Out.ok.injEq, Prod.mk.injEq] at h
      obtain ⟨rfl, rfl⟩ := h
      exact (ih hi : s1.dvecBased = _)
    | panic w => rw [hi] at h; cases h
    | ub w => rw [hi] at h; cases h
  | derefFlagged inner ev emit ih =>
    simp only [clean] at h
    cases hi : clean inner mask with
    | ok p =>
      obtain ⟨s1, d1⟩ := p
      rw [hi] at h
      simp only [Out.ok.injEq, Prod.mk.injEq] at h
      obtain ⟨rfl, rfl⟩ := h
      exact (ih hi : s1.dvecBased = _)
    | panic w => rw [hi] at h; cases h
    | ub w => rw [hi] at h; cases h
  | vec slots =>
    simp only [clean] at h
    split at h
    all_goals first | (cases h; rfl) | cases h
  | _ => cases h; rfl

/-- A property of the inner storage that every `UnprotectedStorage` function preserves. -/
structure Preserved (P : UStore → Prop) : Prop where
  insert : ∀ {s s' : UStore} {i : Nat} {v : Int} {d : List Int}, P s → s.insert i v = .ok (s', d) → P s'
  poke : ∀ {s s' : UStore} {i : Nat} {v : Int}, P s → s.poke i v = .ok s' → P s'
  touch : ∀ {s : UStore} (i d : Nat), P s → P (s.touch i d)
  remove : ∀ {s s' : UStore} {i : Nat} {v : Int}, P s → s.remove i = .ok (s', v) → P s'
  clean : ∀ {s s' : UStore} {mask : BSet} {d : List Int}, P s → s.clean mask = .ok (s', d) → P s'

theorem preserved_wf : Preserved WF :=
  ⟨insert_wf, poke_wf, fun i d h => (touch_wf _ i d).mpr h, remove_wf, clean_wf⟩

theorem preserved_dvecBased (b : Bool) : Preserved (fun s => s.dvecBased = b) :=
  ⟨fun h e => (insert_dvecBased e).trans h, fun h e => (poke_dvecBased e).trans h,
   fun i d h => (touch_dvecBased _ i d).trans h, fun h e => (remove_dvecBased e).trans h,
   fun h e => (clean_dvecBased e).trans h⟩

end UStore
end SpecsModel
