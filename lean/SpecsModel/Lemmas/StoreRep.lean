/-
  Refinement of the `UnprotectedStorage` models (Model/Storages.lean) to a plain partial map
  `Nat → Option Int`: representation relation `UStore.Rep`, and one contract lemma per
  `UnprotectedStorage` function, for every storage kind and wrapper nesting.
-/
import SpecsModel.Model.Storages
namespace SpecsModel

/-- Point update of a partial map. -/
def upd (m : Nat → Option Int) (i : Nat) (v : Option Int) : Nat → Option Int :=
  fun j => if j = i then v else m j

theorem upd_apply (m : Nat → Option Int) (i j : Nat) (v : Option Int) :
    upd m i v j = if j = i then v else m j := rfl

@[simp] theorem upd_same (m : Nat → Option Int) (i : Nat) (v : Option Int) : upd m i v i = v := by
  simp [upd]

theorem upd_ne (m : Nat → Option Int) {i j : Nat} (v : Option Int) (h : j ≠ i) :
    upd m i v j = m j := by simp [upd, h]

theorem upd_self_eq (m : Nat → Option Int) (i : Nat) (v : Option Int) (h : m i = v) :
    upd m i v = m := by
  funext j; simp only [upd]; split
  · subst_vars; rfl
  · rfl

theorem filterMap_congr' {α β} {f g : α → Option β} {l : List α} (h : ∀ a ∈ l, f a = g a) :
    l.filterMap f = l.filterMap g := by
  induction l with
  | nil => rfl
  | cons a l ih =>
    have ha := h a (by simp)
    have := ih (fun b hb => h b (by simp [hb]))
    simp only [List.filterMap_cons, ha, this]

/-- Two strictly ascending lists with the same members are equal. -/
theorem sortedLt_ext {l₁ l₂ : List Nat} (h₁ : l₁.Pairwise (· < ·)) (h₂ : l₂.Pairwise (· < ·))
    (h : ∀ a, a ∈ l₁ ↔ a ∈ l₂) : l₁ = l₂ := by
  have n₁ : l₁.Nodup := h₁.imp (fun hab => Nat.ne_of_lt hab)
  have n₂ : l₂.Nodup := h₂.imp (fun hab => Nat.ne_of_lt hab)
  exact List.Perm.eq_of_pairwise (le := (· < ·)) (fun a b _ _ hab hba => by omega) h₁ h₂
    ((List.perm_ext_iff_of_nodup n₁ n₂).mpr h)

/-- Sorting forgets the order: permutations have the same sorted list. -/
theorem mergeSort_eq_of_perm {l₁ l₂ : List Int} (h : l₁.Perm l₂) :
    l₁.mergeSort (· ≤ ·) = l₂.mergeSort (· ≤ ·) := by
  have tr : ∀ a b c : Int, decide (a ≤ b) = true → decide (b ≤ c) = true → decide (a ≤ c) = true := by
    intro a b c h1 h2; simp only [decide_eq_true_eq] at *; omega
  have tot : ∀ a b : Int, (decide (a ≤ b) || decide (b ≤ a)) = true := by
    intro a b; simp only [Bool.or_eq_true, decide_eq_true_eq]; omega
  have p1 := List.pairwise_mergeSort tr tot l₁
  have p2 := List.pairwise_mergeSort tr tot l₂
  exact List.Perm.eq_of_pairwise
    (fun a b _ _ h1 h2 => by simp only [decide_eq_true_eq] at h1 h2; omega) p1 p2
    ((List.mergeSort_perm l₁ _).trans (h.trans (List.mergeSort_perm l₂ _).symm))

namespace UStore

/-! ### Array and association-list helpers -/

theorem size_growTo {α} (a : Array α) (id : Nat) (fill : α) :
    (growTo a id fill).size = max a.size (id + 1) := by
  unfold growTo; split
  · simp only [Array.size_append, Array.size_replicate]; omega
  · omega

theorem growTo_get? {α} (a : Array α) (id j : Nat) (fill : α) :
    (growTo a id fill)[j]? = if j < a.size then a[j]? else if j ≤ id then some fill else none := by
  unfold growTo; split
  · simp only [Array.getElem?_append, Array.getElem?_replicate]
    grind
  · grind

theorem swapRemove_get? {α} (a : Array α) (k j : Nat) (hk : k < a.size) :
    (swapRemove a k)[j]? =
      if j < a.size - 1 then (if j = k then a[a.size - 1]? else a[j]?) else none := by
  have h2 : a.back? = some a[a.size - 1] := by simp [Array.back?]
  unfold swapRemove
  rw [h2]
  simp only [Array.getElem?_pop, Array.size_setIfInBounds, Array.getElem?_setIfInBounds]
  grind

theorem size_swapRemove {α} (a : Array α) (k : Nat) (hk : k < a.size) :
    (swapRemove a k).size = a.size - 1 := by
  have h2 : a.back? = some a[a.size - 1] := by simp [Array.back?]
  unfold swapRemove
  rw [h2]
  simp

theorem assocGet_nil (j : Nat) : assocGet [] j = none := rfl

theorem assocGet_cons (p : Nat × Int) (l : List (Nat × Int)) (j : Nat) :
    assocGet (p :: l) j = if p.1 = j then some p.2 else assocGet l j := by
  unfold assocGet
  simp only [List.find?_cons]
  by_cases h : p.1 = j
  · simp [h]
  · have : (p.1 == j) = false := by simp [h]
    simp [h, this]

theorem assocGet_erase (l : List (Nat × Int)) (i j : Nat) :
    assocGet (assocErase l i) j = if j = i then none else assocGet l j := by
  induction l with
  | nil => simp [assocErase, assocGet]
  | cons p l ih =>
    unfold assocErase at ih ⊢
    simp only [List.filter_cons]
    by_cases h : p.1 = i
    · simp only [h, beq_self_eq_true, Bool.not_true, Bool.false_eq_true, if_false]
      rw [ih, assocGet_cons]
      grind
    · have : (!(p.1 == i)) = true := by simp [h]
      simp only [this, if_true]
      rw [assocGet_cons, assocGet_cons, ih]
      grind

theorem assocGet_map_set (l : List (Nat × Int)) (i j : Nat) (v : Int) :
    assocGet (l.map (fun p => if p.1 == i then (i, v) else p)) j =
      if j = i then (assocGet l i).map (fun _ => v) else assocGet l j := by
  induction l with
  | nil => simp [assocGet]
  | cons p l ih =>
    simp only [List.map_cons]
    rw [assocGet_cons, ih, assocGet_cons, assocGet_cons]
    by_cases h : p.1 = i
    · simp only [h, beq_self_eq_true, if_true]
      grind
    · have : (p.1 == i) = false := by simp [h]
      simp only [this, Bool.false_eq_true, if_false]
      grind

theorem mem_of_assocGet {l : List (Nat × Int)} {i : Nat} {v : Int} (h : assocGet l i = some v) :
    (i, v) ∈ l := by
  induction l with
  | nil => simp [assocGet] at h
  | cons p l ih =>
    rw [assocGet_cons] at h
    by_cases hp : p.1 = i
    · simp only [hp, if_true, Option.some.injEq] at h
      have : p = (i, v) := by cases p; simp_all
      simp [this]
    · simp only [hp, if_false] at h
      exact List.mem_cons_of_mem _ (ih h)

/-! ### The representation relation -/

/-- `Rep s m`: the storage `s` holds exactly the components of the partial map `m`
    (slots outside the domain of `m` are arbitrary: uninitialised, stale or default-filled). -/
def Rep : UStore → (Nat → Option Int) → Prop
  | vec slots, m => ∀ i v, m i = some v → slots[i]? = some (some v)
  | dense data eid did, m =>
    data.size = eid.size ∧
    (∀ i v, m i = some v → ∃ k, did[i]? = some (some k) ∧ data[k]? = some v ∧ eid[k]? = some i) ∧
    (∀ k i, eid[k]? = some i → (m i).isSome ∧ did[i]? = some (some k))
  | dvec slots, m =>
    (∀ i v, m i = some v → slots[i]? = some v) ∧
    (∀ i, i < slots.size → m i = none → slots[i]? = some 0)
  | hash l, m => ∀ i, assocGet l i = m i
  | btree l, m => ∀ i, assocGet l i = m i
  | null, m => ∀ i v, m i = some v → v = 0
  | flagged inner _ _, m => Rep inner m
  | derefFlagged inner _ _, m => Rep inner m

/-- The storage is (a wrapper around) `NullStorage`, which can only hold the unit value `0`. -/
def nullBased : UStore → Bool
  | null => true
  | flagged inner _ _ => nullBased inner
  | derefFlagged inner _ _ => nullBased inner
  | _ => false

/-- Values the storage can hold: null-based storages only hold `0`. -/
def valOk : UStore → Int → Prop
  | null, v => v = 0
  | flagged inner _ _, v => valOk inner v
  | derefFlagged inner _ _, v => valOk inner v
  | _, _ => True

theorem valOk_iff (s : UStore) (v : Int) : s.valOk v ↔ (s.nullBased = true → v = 0) := by
  induction s with
  | flagged inner ev emit ih => simpa [valOk, nullBased] using ih
  | derefFlagged inner ev emit ih => simpa [valOk, nullBased] using ih
  | _ => simp [valOk, nullBased]

theorem valOk_zero (s : UStore) : s.valOk 0 := by
  rw [valOk_iff]; intro _; rfl

/-- Event emission flag of a tracked storage (`false` for untracked kinds). -/
def emits : UStore → Bool
  | flagged _ _ e => e
  | derefFlagged _ _ e => e
  | _ => false

/-! ### `get` -/

theorem get_ok {s : UStore} {m : Nat → Option Int} (h : Rep s m) {i : Nat} {v : Int}
    (hm : m i = some v) : s.get i = .ok v := by
  induction s with
  | vec slots => simp only [Rep] at h; simp [get, h i v hm]
  | dense data eid did =>
    obtain ⟨_, hf, _⟩ := h
    obtain ⟨k, h1, h2, _⟩ := hf i v hm
    simp [get, h1, h2]
  | dvec slots => simp [get, h.1 i v hm]
  | hash l => simp only [Rep] at h; simp [get, h i, hm]
  | btree l => simp only [Rep] at h; simp [get, h i, hm]
  | null => simp only [Rep] at h; simp [get, h i v hm]
  | flagged inner ev emit ih => exact ih h
  | derefFlagged inner ev emit ih => exact ih h

/-! ### `insert` -/

theorem insert_ok {s : UStore} {m : Nat → Option Int} (h : Rep s m) {i : Nat} {v : Int}
    (hm : m i = none) (hv : s.valOk v) :
    ∃ s' d, s.insert i v = .ok (s', d) ∧ Rep s' (upd m i (some v)) ∧ (∀ x ∈ d, x = 0) := by
  induction s with
  | vec slots =>
    refine ⟨_, _, rfl, ?_, by simp⟩
    simp only [Rep] at h ⊢
    intro j w hj
    simp only [upd] at hj
    simp only [Array.getElem?_setIfInBounds, size_growTo, growTo_get?]
    by_cases hji : j = i
    · subst hji; simp only [if_true] at hj; simp [← hj]; omega
    · simp only [hji, if_false] at hj
      have := h j w hj
      grind
  | dense data eid did =>
    obtain ⟨hsz, hf, hb⟩ := h
    refine ⟨_, _, rfl, ?_, by simp⟩
    refine ⟨by simp [hsz], ?_, ?_⟩
    · intro j w hj
      simp only [upd] at hj
      by_cases hji : j = i
      · subst hji; simp only [if_true, Option.some.injEq] at hj
        refine ⟨data.size, ?_, ?_, ?_⟩
        · simp only [Array.getElem?_setIfInBounds, size_growTo, growTo_get?]; grind
        · simp [hj]
        · simp [hsz]
      · simp only [hji, if_false] at hj
        obtain ⟨k, h1, h2, h3⟩ := hf j w hj
        refine ⟨k, ?_, ?_, ?_⟩
        · simp only [Array.getElem?_setIfInBounds, size_growTo, growTo_get?]; grind
        · simp only [Array.getElem?_push]; grind
        · simp only [Array.getElem?_push]; grind
    · intro k j hk
      simp only [Array.getElem?_push] at hk
      simp only [upd, Array.getElem?_setIfInBounds, size_growTo, growTo_get?]
      by_cases hke : k = eid.size
      · simp only [hke, if_true, Option.some.injEq] at hk
        subst hk
        simp [hsz]; omega
      · simp only [hke, if_false] at hk
        have := hb k j hk
        grind
  | dvec slots =>
    obtain ⟨h1, h2⟩ := h
    unfold insert
    split
    · rename_i hle
      refine ⟨_, _, rfl, ⟨?_, ?_⟩, by simp⟩
      · intro j w hj
        simp only [upd] at hj
        simp only [Array.getElem?_push, Array.getElem?_append, Array.size_append,
          Array.size_replicate, Array.getElem?_replicate]
        by_cases hji : j = i
        · subst hji; simp only [if_true, Option.some.injEq] at hj; grind
        · simp only [hji, if_false] at hj
          have := h1 j w hj
          grind
      · intro j hj hn
        simp only [Array.size_push, Array.size_append, Array.size_replicate] at hj
        simp only [upd] at hn
        simp only [Array.getElem?_push, Array.getElem?_append, Array.size_append,
          Array.size_replicate, Array.getElem?_replicate]
        have := h2 j
        grind
    · rename_i hle
      have hlt : i < slots.size := by omega
      refine ⟨_, _, rfl, ⟨?_, ?_⟩, ?_⟩
      · intro j w hj
        simp only [upd] at hj
        simp only [Array.getElem?_setIfInBounds]
        have := h1 j w
        grind
      · intro j hj hn
        simp only [Array.size_setIfInBounds] at hj
        simp only [upd] at hn
        simp only [Array.getElem?_setIfInBounds]
        have := h2 j
        grind
      · intro x hx
        have := h2 i hlt hm
        simp [this] at hx
        exact hx
  | hash l =>
    simp only [Rep] at h
    refine ⟨_, _, rfl, ?_, ?_⟩
    · simp only [Rep]
      intro j
      rw [assocGet_cons, assocGet_erase, h j]
      simp only [upd]; grind
    · simp [h i, hm]
  | btree l =>
    simp only [Rep] at h
    refine ⟨_, _, rfl, ?_, ?_⟩
    · simp only [Rep]
      intro j
      rw [assocGet_cons, assocGet_erase, h j]
      simp only [upd]; grind
    · simp [h i, hm]
  | null =>
    simp only [valOk] at hv
    simp only [Rep] at h
    refine ⟨_, _, rfl, ?_, by simp⟩
    simp only [Rep, upd]
    intro j w hj
    have := h j w
    grind
  | flagged inner ev emit ih =>
    obtain ⟨s', d, h1, h2, h3⟩ := ih h hv
    exact ⟨flagged s' _ emit, d, by simp only [insert, h1]; rfl, h2, h3⟩
  | derefFlagged inner ev emit ih =>
    obtain ⟨s', d, h1, h2, h3⟩ := ih h hv
    exact ⟨derefFlagged s' _ emit, d, by simp only [insert, h1]; rfl, h2, h3⟩

/-! ### `poke` (the write through `get_mut`) -/

theorem poke_ok {s : UStore} {m : Nat → Option Int} (h : Rep s m) {i : Nat} {old v : Int}
    (hm : m i = some old) (hv : s.valOk v) :
    ∃ s', s.poke i v = .ok s' ∧ Rep s' (upd m i (some v)) := by
  induction s with
  | vec slots =>
    simp only [Rep] at h
    refine ⟨vec (slots.setIfInBounds i (some v)), by simp only [poke, h i old hm], ?_⟩
    simp only [Rep, upd]
    intro j w hj
    simp only [Array.getElem?_setIfInBounds]
    have := h j w
    have := h i old hm
    grind
  | dense data eid did =>
    obtain ⟨hsz, hf, hb⟩ := h
    obtain ⟨k, h1, h2, h3⟩ := hf i old hm
    have hk : k < data.size := by
      by_cases hk : k < data.size
      · exact hk
      · simp [Array.getElem?_eq_none (Nat.le_of_not_lt hk)] at h2
    refine ⟨dense (data.setIfInBounds k v) eid did, by simp only [poke, h1, hk, if_true], ?_⟩
    refine ⟨by simpa using hsz, ?_, ?_⟩
    · intro j w hj
      simp only [upd] at hj
      by_cases hji : j = i
      · subst hji; simp only [if_true, Option.some.injEq] at hj
        exact ⟨k, h1, by simp [hk, hj], h3⟩
      · simp only [hji, if_false] at hj
        obtain ⟨k', g1, g2, g3⟩ := hf j w hj
        refine ⟨k', g1, ?_, g3⟩
        have hkk : k' ≠ k := by
          intro e; subst e; rw [h3] at g3; exact hji (Option.some.inj g3).symm
        simp only [Array.getElem?_setIfInBounds]; grind
    · intro k' j hk'
      have := hb k' j hk'
      simp only [upd]; grind
  | dvec slots =>
    obtain ⟨h1, h2⟩ := h
    have hi := h1 i old hm
    have hlt : i < slots.size := by
      by_cases hk : i < slots.size
      · exact hk
      · simp [Array.getElem?_eq_none (Nat.le_of_not_lt hk)] at hi
    refine ⟨dvec (slots.setIfInBounds i v), by simp only [poke, hlt, if_true], ⟨?_, ?_⟩⟩
    · intro j w hj
      simp only [upd] at hj
      simp only [Array.getElem?_setIfInBounds]
      have := h1 j w
      grind
    · intro j hj hn
      simp only [Array.size_setIfInBounds] at hj
      simp only [upd] at hn
      simp only [Array.getElem?_setIfInBounds]
      have := h2 j
      grind
  | hash l =>
    simp only [Rep] at h
    refine ⟨hash (l.map (fun p => if p.1 == i then (i, v) else p)), by simp only [poke, h i, hm], ?_⟩
    simp only [Rep]
    intro j
    rw [assocGet_map_set, h j, h i, hm]
    simp only [upd]; grind
  | btree l =>
    simp only [Rep] at h
    refine ⟨btree (l.map (fun p => if p.1 == i then (i, v) else p)), by simp only [poke, h i, hm], ?_⟩
    simp only [Rep]
    intro j
    rw [assocGet_map_set, h j, h i, hm]
    simp only [upd]; grind
  | null =>
    simp only [valOk] at hv
    simp only [Rep] at h
    refine ⟨_, rfl, ?_⟩
    simp only [Rep, upd]
    intro j w hj
    have := h j w
    grind
  | flagged inner ev emit ih =>
    obtain ⟨s', h1, h2⟩ := ih h hv
    exact ⟨flagged s' ev emit, by simp only [poke, h1], h2⟩
  | derefFlagged inner ev emit ih =>
    obtain ⟨s', h1, h2⟩ := ih h hv
    exact ⟨derefFlagged s' ev emit, by simp only [poke, h1], h2⟩

/-! ### `touch` (event flagging of `get_mut` / `deref_mut`): only appends events -/

theorem touch_rep (s : UStore) (i d : Nat) (m : Nat → Option Int) :
    Rep (s.touch i d) m ↔ Rep s m := by
  cases s <;> exact Iff.rfl

theorem touch_get (s : UStore) (i d j : Nat) : (s.touch i d).get j = s.get j := by
  cases s <;> rfl

theorem touch_valOk (s : UStore) (i d : Nat) (v : Int) : (s.touch i d).valOk v ↔ s.valOk v := by
  cases s <;> exact Iff.rfl

theorem touch_nullBased (s : UStore) (i d : Nat) : (s.touch i d).nullBased = s.nullBased := by
  cases s <;> rfl

theorem touch_emits (s : UStore) (i d : Nat) : (s.touch i d).emits = s.emits := by
  cases s <;> rfl

/-- Writing after flagging is flagging after writing. -/
theorem touch_poke (s : UStore) (i d j : Nat) (v : Int) :
    (s.touch i d).poke j v = (s.poke j v).map (fun s' => s'.touch i d) := by
  cases s with
  | flagged inner ev emit =>
    simp only [touch, poke]
    cases poke inner j v <;> rfl
  | derefFlagged inner ev emit =>
    simp only [touch, poke]
    cases poke inner j v <;> rfl
  | vec slots => simp only [touch, poke]; split <;> rfl
  | dense data eid did => simp only [touch, poke]; split <;> (try split) <;> rfl
  | dvec slots => simp only [touch, poke]; split <;> rfl
  | hash l => simp only [touch, poke]; split <;> rfl
  | btree l => simp only [touch, poke]; split <;> rfl
  | null => rfl

/-! ### `remove` -/

theorem getElem?_lt {α} {a : Array α} {k : Nat} {x : α} (h : a[k]? = some x) : k < a.size := by
  by_cases hk : k < a.size
  · exact hk
  · simp [Array.getElem?_eq_none (Nat.le_of_not_lt hk)] at h

theorem back?_eq {α} (a : Array α) : a.back? = a[a.size - 1]? := by
  simp [Array.back?]

/-- `DenseVecStorage::remove`: swap_remove in `data` and `entity_id`, redirect the moved entry. -/
theorem remove_dense {data : Array Int} {eid : Array Nat} {did : Array (Option Nat)}
    {m : Nat → Option Int} (h : Rep (dense data eid did) m) {i : Nat} {v : Int}
    (hm : m i = some v) :
    ∃ s', (dense data eid did).remove i = .ok (s', v) ∧ Rep s' (upd m i none) := by
  obtain ⟨hsz, hf, hb⟩ := h
  obtain ⟨k, h1, h2, h3⟩ := hf i v hm
  have hk : k < eid.size := getElem?_lt h3
  have hkd : k < data.size := by omega
  obtain ⟨last, hlast⟩ : ∃ last, eid[eid.size - 1]? = some last :=
    ⟨eid[eid.size - 1]'(by omega), by simp⟩
  have hbl := hb _ _ hlast
  have hll : last < did.size := getElem?_lt hbl.2
  refine ⟨dense (swapRemove data k) (swapRemove eid k) (did.setIfInBounds last (some k)), ?_, ?_⟩
  · simp only [remove, h1, back?_eq, hlast, hll, if_true, h2, hk]
  · refine ⟨by rw [size_swapRemove _ _ hk, size_swapRemove _ _ hkd, hsz], ?_, ?_⟩
    · intro j w hj
      simp only [upd] at hj
      by_cases hji : j = i
      · simp [hji] at hj
      · simp only [hji, if_false] at hj
        obtain ⟨k', g1, g2, g3⟩ := hf j w hj
        have hk' : k' < eid.size := getElem?_lt g3
        have hkk : k' ≠ k := by
          intro e; subst e; rw [h3] at g3; exact hji (Option.some.inj g3).symm
        by_cases hend : k' = eid.size - 1
        · have hjl : j = last := by
            rw [hend, hlast] at g3; exact (Option.some.inj g3).symm
          refine ⟨k, ?_, ?_, ?_⟩
          · simp only [Array.getElem?_setIfInBounds]; grind
          · rw [swapRemove_get? _ _ _ hkd]; grind
          · rw [swapRemove_get? _ _ _ hk]; grind
        · have hjl : j ≠ last := by
            intro e; subst e
            rw [g1] at hbl; grind
          refine ⟨k', ?_, ?_, ?_⟩
          · simp only [Array.getElem?_setIfInBounds]; grind
          · rw [swapRemove_get? _ _ _ hkd]; grind
          · rw [swapRemove_get? _ _ _ hk]; grind
    · intro k' j hk'
      rw [swapRemove_get? _ _ _ hk] at hk'
      simp only [upd, Array.getElem?_setIfInBounds]
      by_cases hlt : k' < eid.size - 1
      · simp only [hlt, if_true] at hk'
        by_cases hkk : k' = k
        · simp only [hkk, if_true] at hk'
          have hjl : j = last := by rw [hlast] at hk'; exact (Option.some.inj hk').symm
          subst hjl
          have hji : j ≠ i := by
            intro e; subst e
            rw [h1] at hbl; grind
          grind
        · simp only [hkk, if_false] at hk'
          have := hb k' j hk'
          have hji : j ≠ i := by
            intro e; subst e; grind
          have hjl : j ≠ last := by
            intro e; subst e; grind
          grind
      · simp [hlt] at hk'

theorem remove_ok {s : UStore} {m : Nat → Option Int} (h : Rep s m) {i : Nat} {v : Int}
    (hm : m i = some v) :
    ∃ s', s.remove i = .ok (s', v) ∧ Rep s' (upd m i none) := by
  induction s with
  | vec slots =>
    simp only [Rep] at h
    refine ⟨vec (slots.setIfInBounds i none), by simp only [remove, h i v hm], ?_⟩
    simp only [Rep, upd]
    intro j w hj
    simp only [Array.getElem?_setIfInBounds]
    have := h j w
    grind
  | dense data eid did => exact remove_dense h hm
  | dvec slots =>
    obtain ⟨h1, h2⟩ := h
    have hi := h1 i v hm
    refine ⟨dvec (slots.setIfInBounds i 0), by simp only [remove, hi], ⟨?_, ?_⟩⟩
    · intro j w hj
      simp only [upd] at hj
      simp only [Array.getElem?_setIfInBounds]
      have := h1 j w
      grind
    · intro j hj hn
      simp only [Array.size_setIfInBounds] at hj
      simp only [upd] at hn
      simp only [Array.getElem?_setIfInBounds]
      have := h2 j
      grind
  | hash l =>
    simp only [Rep] at h
    refine ⟨hash (assocErase l i), by simp only [remove, h i, hm], ?_⟩
    simp only [Rep]
    intro j
    rw [assocGet_erase, h j]
    rfl
  | btree l =>
    simp only [Rep] at h
    refine ⟨btree (assocErase l i), by simp only [remove, h i, hm], ?_⟩
    simp only [Rep]
    intro j
    rw [assocGet_erase, h j]
    rfl
  | null =>
    simp only [Rep] at h
    have := h i v hm
    subst this
    refine ⟨null, rfl, ?_⟩
    simp only [Rep, upd]
    intro j w hj
    have := h j w
    grind
  | flagged inner ev emit ih =>
    obtain ⟨s', h1, h2⟩ := ih h
    exact ⟨flagged s' (if emit then ev.push (.removed i) else ev) emit, by simp only [remove, h1], h2⟩
  | derefFlagged inner ev emit ih =>
    obtain ⟨s', h1, h2⟩ := ih h
    exact ⟨derefFlagged s' (if emit then ev.push (.removed i) else ev) emit, by simp only [remove, h1], h2⟩

/-! ### `clean` -/

/-- The loop of `VecStorage::clean` over distinct indices whose masked slots are initialised:
    it never touches an uninitialised slot and destroys exactly the masked slots, in order. -/
theorem vecClean_spec (has : BSet) : ∀ (is : List Nat) (slots : Array (Option Int)) (acc : List Int),
    is.Nodup → (∀ i ∈ is, has.mem i = true → ∃ v, slots[i]? = some (some v)) →
    ∃ slots', vecClean has is slots acc =
      .ok (slots', acc.reverse ++ (is.filter has.mem).filterMap (fun i => (slots[i]?).join)) := by
  intro is
  induction is with
  | nil => intro slots acc _ _; exact ⟨slots, by simp [vecClean]⟩
  | cons i is ih =>
    intro slots acc hnd hs
    obtain ⟨hni, hnd'⟩ := List.nodup_cons.mp hnd
    by_cases hmem : has.mem i = true
    · obtain ⟨v, hv⟩ := hs i (by simp) hmem
      have hs' : ∀ j ∈ is, has.mem j = true → ∃ w, (slots.setIfInBounds i none)[j]? = some (some w) := by
        intro j hj hmj
        have hji : j ≠ i := fun e => hni (e ▸ hj)
        obtain ⟨w, hw⟩ := hs j (by simp [hj]) hmj
        exact ⟨w, by simp only [Array.getElem?_setIfInBounds]; grind⟩
      obtain ⟨slots', hr⟩ := ih (slots.setIfInBounds i none) (v :: acc) hnd' hs'
      refine ⟨slots', ?_⟩
      simp only [vecClean, hmem, if_true, hv, hr, List.filter_cons, List.filterMap_cons,
        Option.join_some, List.reverse_cons, List.append_assoc, List.singleton_append]
      congr 4
      apply filterMap_congr'
      intro j hj
      have hj' : j ∈ is := (List.mem_filter.mp hj).1
      have hji : j ≠ i := fun e => hni (e ▸ hj')
      simp only [Array.getElem?_setIfInBounds]; grind
    · obtain ⟨slots', hr⟩ := ih slots acc hnd' (fun j hj => hs j (by simp [hj]))
      refine ⟨slots', ?_⟩
      simp only [vecClean, hmem, hr, List.filter_cons]
      simp

theorem clean_ok {s : UStore} {m : Nat → Option Int} (h : Rep s m) {mask : BSet}
    (hmask : ∀ i, mask.mem i = (m i).isSome) :
    ∃ s' d, s.clean mask = .ok (s', d) ∧ Rep s' (fun _ => none) ∧ (∀ i v, m i = some v → v ∈ d) := by
  induction s with
  | vec slots =>
    simp only [Rep] at h
    obtain ⟨slots', hr⟩ := vecClean_spec mask (List.range slots.size) slots [] List.nodup_range (by
      intro i _ hi
      rw [hmask i] at hi
      cases hmi : m i with
      | none => simp [hmi] at hi
      | some v => exact ⟨v, h i v hmi⟩)
    refine ⟨vec slots', _, by simp only [clean, hr]; rfl, by simp [Rep], ?_⟩
    intro i v hmi
    have hs := h i v hmi
    simp only [List.reverse_nil, List.nil_append, List.mem_filterMap, List.mem_filter, List.mem_range]
    exact ⟨i, ⟨getElem?_lt hs, by rw [hmask i, hmi]; rfl⟩, by simp [hs]⟩
  | dense data eid did =>
    obtain ⟨_, hf, _⟩ := h
    refine ⟨dense #[] #[] #[], data.toList, rfl, ⟨rfl, by simp, by simp⟩, ?_⟩
    intro i v hmi
    obtain ⟨k, _, h2, _⟩ := hf i v hmi
    have hk := getElem?_lt h2
    rw [Array.getElem?_eq_getElem hk] at h2
    rw [← Option.some.inj h2]
    simp
  | dvec slots =>
    refine ⟨dvec #[], slots.toList, rfl, ⟨by simp, by simp⟩, ?_⟩
    intro i v hmi
    have h2 := h.1 i v hmi
    have hk := getElem?_lt h2
    rw [Array.getElem?_eq_getElem hk] at h2
    rw [← Option.some.inj h2]
    simp
  | hash l =>
    simp only [Rep] at h
    refine ⟨hash [], l.map (·.2), rfl, by simp [Rep, assocGet], ?_⟩
    intro i v hmi
    rw [← h i] at hmi
    exact List.mem_map.mpr ⟨(i, v), mem_of_assocGet hmi, rfl⟩
  | btree l =>
    simp only [Rep] at h
    refine ⟨btree [], l.map (·.2), rfl, by simp [Rep, assocGet], ?_⟩
    intro i v hmi
    rw [← h i] at hmi
    exact List.mem_map.mpr ⟨(i, v), mem_of_assocGet hmi, rfl⟩
  | null =>
    simp only [Rep] at h
    refine ⟨null, mask.toList.map (fun _ => 0), rfl, by simp [Rep], ?_⟩
    intro i v hmi
    have := h i v hmi
    subst this
    exact List.mem_map.mpr ⟨i, (BSet.mem_toList _ _).mpr (by rw [hmask i, hmi]; rfl), rfl⟩
  | flagged inner ev emit ih =>
    obtain ⟨s', d, h1, h2, h3⟩ := ih h
    exact ⟨flagged s' ev emit, d, by simp only [clean, h1], h2, h3⟩
  | derefFlagged inner ev emit ih =>
    obtain ⟨s', d, h1, h2, h3⟩ := ih h
    exact ⟨derefFlagged s' ev emit, d, by simp only [clean, h1], h2, h3⟩

/-! ### Kind, emission flag and event channel: events are only appended -/

/-- `insert` keeps the kind and the emission flag and appends exactly one `Inserted(i)` event to a
    tracked storage that emits (nothing otherwise; untracked kinds have no channel). -/
theorem insert_shape {s s' : UStore} {i : Nat} {v : Int} {d : List Int}
    (h : s.insert i v = .ok (s', d)) :
    s'.nullBased = s.nullBased ∧ s'.emits = s.emits ∧
    s'.events = s.events.map (fun ev => if s.emits then ev.push (.inserted i) else ev) := by
  induction s generalizing s' d with
  | flagged inner ev emit ih =>
    simp only [insert] at h
    cases hi : insert inner i v with
    | ok p =>
      obtain ⟨s1, d1⟩ := p
      rw [hi] at h
      simp only [Out.ok.injEq, Prod.mk.injEq] at h
      obtain ⟨rfl, rfl⟩ := h
      exact ⟨(ih hi).1, rfl, rfl⟩
    | panic w => rw [hi] at h; cases h
    | ub w => rw [hi] at h; cases h
  | derefFlagged inner ev emit ih =>
    simp only [insert] at h
    cases hi : insert inner i v with
    | ok p =>
      obtain ⟨s1, d1⟩ := p
      rw [hi] at h
      simp only [Out.ok.injEq, Prod.mk.injEq] at h
      obtain ⟨rfl, rfl⟩ := h
      exact ⟨(ih hi).1, rfl, rfl⟩
    | panic w => rw [hi] at h; cases h
    | ub w => rw [hi] at h; cases h
  | dvec slots =>
    simp only [insert] at h
    split at h <;> (cases h; exact ⟨rfl, rfl, rfl⟩)
  | _ => cases h; exact ⟨rfl, rfl, rfl⟩

theorem events_insert {s s' : UStore} {i : Nat} {v : Int} {d : List Int}
    (h : s.insert i v = .ok (s', d)) :
    s'.events = s.events.map (fun ev => if s.emits then ev.push (.inserted i) else ev) :=
  (insert_shape h).2.2

/-- `remove` keeps kind and flag and appends exactly one `Removed(i)` event when emitting. -/
theorem remove_shape {s s' : UStore} {i : Nat} {v : Int}
    (h : s.remove i = .ok (s', v)) :
    s'.nullBased = s.nullBased ∧ s'.emits = s.emits ∧
    s'.events = s.events.map (fun ev => if s.emits then ev.push (.removed i) else ev) := by
  induction s generalizing s' v with
  | flagged inner ev emit ih =>
    simp only [remove] at h
    cases hi : remove inner i with
    | ok p =>
      obtain ⟨s1, d1⟩ := p
      rw [hi] at h
      simp only [Out.ok.injEq, Prod.mk.injEq] at h
      obtain ⟨rfl, rfl⟩ := h
      exact ⟨(ih hi).1, rfl, rfl⟩
    | panic w => rw [hi] at h; cases h
    | ub w => rw [hi] at h; cases h
  | derefFlagged inner ev emit ih =>
    simp only [remove] at h
    cases hi : remove inner i with
    | ok p =>
      obtain ⟨s1, d1⟩ := p
      rw [hi] at h
      simp only [Out.ok.injEq, Prod.mk.injEq] at h
      obtain ⟨rfl, rfl⟩ := h
      exact ⟨(ih hi).1, rfl, rfl⟩
    | panic w => rw [hi] at h; cases h
    | ub w => rw [hi] at h; cases h
  | null => cases h; exact ⟨rfl, rfl, rfl⟩
  | dense data eid did =>
    simp only [remove] at h
    repeat' split at h
    all_goals first | (cases h; exact ⟨rfl, rfl, rfl⟩) | cases h
  | _ =>
    simp only [remove] at h
    split at h
    all_goals first | (cases h; exact ⟨rfl, rfl, rfl⟩) | cases h

theorem events_remove {s s' : UStore} {i : Nat} {v : Int} (h : s.remove i = .ok (s', v)) :
    s'.events = s.events.map (fun ev => if s.emits then ev.push (.removed i) else ev) :=
  (remove_shape h).2.2

/-- The write through a mutable access changes neither kind, flag nor event channel. -/
theorem poke_shape {s s' : UStore} {i : Nat} {v : Int} (h : s.poke i v = .ok s') :
    s'.nullBased = s.nullBased ∧ s'.emits = s.emits ∧ s'.events = s.events := by
  induction s generalizing s' with
  | flagged inner ev emit ih =>
    simp only [poke] at h
    cases hi : poke inner i v with
    | ok s1 =>
      rw [hi] at h
      simp only [Out.ok.injEq] at h
      subst h
      exact ⟨(ih hi).1, rfl, rfl⟩
    | panic w => rw [hi] at h; cases h
    | ub w => rw [hi] at h; cases h
  | derefFlagged inner ev emit ih =>
    simp only [poke] at h
    cases hi : poke inner i v with
    | ok s1 =>
      rw [hi] at h
      simp only [Out.ok.injEq] at h
      subst h
      exact ⟨(ih hi).1, rfl, rfl⟩
    | panic w => rw [hi] at h; cases h
    | ub w => rw [hi] at h; cases h
  | null => cases h; exact ⟨rfl, rfl, rfl⟩
  | dense data eid did =>
    simp only [poke] at h
    repeat' split at h
    all_goals first | (cases h; exact ⟨rfl, rfl, rfl⟩) | cases h
  | _ =>
    simp only [poke] at h
    split at h
    all_goals first | (cases h; exact ⟨rfl, rfl, rfl⟩) | cases h

theorem events_poke {s s' : UStore} {i : Nat} {v : Int} (h : s.poke i v = .ok s') :
    s'.events = s.events := (poke_shape h).2.2

/-- `clean` changes neither kind, flag nor event channel. -/
theorem clean_shape {s s' : UStore} {mask : BSet} {d : List Int} (h : s.clean mask = .ok (s', d)) :
    s'.nullBased = s.nullBased ∧ s'.emits = s.emits ∧ s'.events = s.events := by
  induction s generalizing s' d with
  | flagged inner ev emit ih =>
    simp only [clean] at h
    cases hi : clean inner mask with
    | ok p =>
      obtain ⟨s1, d1⟩ := p
      rw [hi] at h
      simp only [Out.ok.injEq, Prod.mk.injEq] at h
      obtain ⟨rfl, rfl⟩ := h
      exact ⟨(ih hi).1, rfl, rfl⟩
    | panic w => rw [hi] at h; cases h
    | ub w => rw [hi] at h; cases h
  | derefFlagged inner ev emit ih =>
    simp only [clean] at h
    cases hi : clean inner mask with
    | ok p =>
      obtain ⟨s1, d1⟩ := p
      rw [hi] at h
      simp only [Out.ok.injEq, Prod.mk.injEq] at h
      obtain ⟨rfl, rfl⟩ := h
      exact ⟨(ih hi).1, rfl, rfl⟩
    | panic w => rw [hi] at h; cases h
    | ub w => rw [hi] at h; cases h
  | vec slots =>
    simp only [clean] at h
    split at h
    all_goals first | (cases h; exact ⟨rfl, rfl, rfl⟩) | cases h
  | _ => cases h; exact ⟨rfl, rfl, rfl⟩

theorem events_clean {s s' : UStore} {mask : BSet} {d : List Int} (h : s.clean mask = .ok (s', d)) :
    s'.events = s.events := (clean_shape h).2.2

/-- `get_mut` / `deref_mut` flagging: `FlaggedStorage` appends one `Modified(i)` per call,
    `DerefFlaggedStorage` one per mutable dereference; nothing when not emitting; untracked kinds
    have no channel. The stored components are untouched (`touch_rep`, `touch_get`). -/
theorem events_touch (s : UStore) (i n : Nat) :
    (s.touch i n).events =
      match s with
      | flagged _ ev e => some (if e then ev.push (.modified i) else ev)
      | derefFlagged _ ev e => some (if e then ev ++ Array.replicate n (.modified i) else ev)
      | _ => none := by
  cases s <;> rfl

theorem events_none_iff (s : UStore) :
    s.events = none ↔ (∀ inner ev e, s ≠ flagged inner ev e ∧ s ≠ derefFlagged inner ev e) := by
  cases s <;> simp [events]

/-! ### The dense slice is a permutation of the stored values -/

theorem dense_eid_nodup {data : Array Int} {eid : Array Nat} {did : Array (Option Nat)}
    {m : Nat → Option Int} (h : Rep (dense data eid did) m) : eid.toList.Nodup := by
  obtain ⟨_, _, hb⟩ := h
  rw [List.Nodup, List.pairwise_iff_getElem]
  intro k1 k2 h1 h2 hlt heq
  have e1 : eid[k1]? = some eid.toList[k1] := by
    rw [← Array.getElem?_toList]; exact List.getElem?_eq_getElem h1
  have e2 : eid[k2]? = some eid.toList[k2] := by
    rw [← Array.getElem?_toList]; exact List.getElem?_eq_getElem h2
  have b1 := (hb _ _ e1).2
  have b2 := (hb _ _ e2).2
  rw [heq, b2] at b1
  simp only [Option.some.injEq] at b1
  omega

theorem dense_data_eq {data : Array Int} {eid : Array Nat} {did : Array (Option Nat)}
    {m : Nat → Option Int} (h : Rep (dense data eid did) m) :
    data.toList = eid.toList.filterMap m := by
  obtain ⟨hsz, hf, hb⟩ := h
  have hmap : data.toList.map some = eid.toList.map m := by
    apply List.ext_getElem?
    intro k
    simp only [List.getElem?_map, Array.getElem?_toList]
    by_cases hk : k < eid.size
    · have e1 : eid[k]? = some eid[k] := Array.getElem?_eq_getElem hk
      obtain ⟨hs, hd⟩ := hb _ _ e1
      cases hmi : m eid[k] with
      | none => simp [hmi] at hs
      | some v =>
        obtain ⟨k', g1, g2, _⟩ := hf _ _ hmi
        rw [hd] at g1
        simp only [Option.some.injEq] at g1
        subst g1
        simp [e1, g2, hmi]
    · have hk' : ¬ k < data.size := by omega
      simp [Array.getElem?_eq_none (Nat.le_of_not_lt hk), Array.getElem?_eq_none (Nat.le_of_not_lt hk')]
  have h1 : eid.toList.filterMap m = (eid.toList.map m).filterMap id := by
    rw [List.filterMap_map]; rfl
  rw [h1, ← hmap, List.filterMap_map]
  simp

/-- `DenseVecStorage::as_slice` lists the stored values in some order: it is a permutation of
    the values of the map taken in ascending key order. -/
theorem dense_slice_perm {data : Array Int} {eid : Array Nat} {did : Array (Option Nat)}
    {m : Nat → Option Int} (h : Rep (dense data eid did) m) {mask : BSet}
    (hmask : ∀ i, mask.mem i = (m i).isSome) :
    data.toList.Perm (mask.toList.filterMap m) := by
  rw [dense_data_eq h]
  apply List.Perm.filterMap
  rw [List.perm_ext_iff_of_nodup (dense_eid_nodup h) mask.toList_nodup]
  obtain ⟨_, hf, hb⟩ := h
  intro a
  rw [BSet.mem_toList, hmask a, List.mem_iff_getElem?]
  constructor
  · rintro ⟨k, hk⟩
    rw [Array.getElem?_toList] at hk
    exact (hb _ _ hk).1
  · intro hs
    cases hma : m a with
    | none => simp [hma] at hs
    | some v =>
      obtain ⟨k, _, _, g3⟩ := hf a v hma
      exact ⟨k, by rw [Array.getElem?_toList]; exact g3⟩

end UStore
end SpecsModel
