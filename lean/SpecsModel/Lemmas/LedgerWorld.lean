/-
  C08, world level, foundations: the values a world holds (`World.held`: all storages + the values
  captured by queued lazy actions), the ledger balance `Bal`, the accounting of what a transcript
  line moves in / hands back (`opIn`, `opOut`), well-typedness of operations w.r.t. the zero-sized
  kind (`opOk`), and the extra world invariant `XInv` needed for conservation.
-/
import SpecsModel.Lemmas.LedgerStore
import SpecsModel.Lemmas.WorldInvStep
namespace SpecsModel
open Masked

/-! ### Operations are well typed: values of the zero-sized kind (5) are the unit value -/

def vOkB (k : Nat) (v : Int) : Bool := k != 5 || v == 0

theorem vOkB_iff (k : Nat) (v : Int) : vOkB k v = true ↔ vOk k v := by
  unfold vOkB vOk
  by_cases hk : k = 5 <;> simp [hk]

def wOkB (k : Nat) : Option Int → Bool
  | some v => vOkB k v
  | none => true

theorem wOkB_iff (k : Nat) (w : Option Int) : wOkB k w = true ↔ ∀ x, w = some x → vOk k x := by
  cases w with
  | none => simp [wOkB]
  | some v => simp [wOkB, vOkB_iff]

def entryOkB (k : Nat) : EntryOp → Bool
  | .orInsert v _ w => vOkB k v && wOkB k w
  | .replace v => vOkB k v
  | .remove => true

theorem entryOkB_iff (k : Nat) (op : EntryOp) : entryOkB k op = true ↔ StOk.entryOk k op := by
  cases op <;> simp [entryOkB, StOk.entryOk, vOkB_iff, wOkB_iff]

def ractOkB (k : Nat) : RAct → Bool
  | .getMut _ w => wOkB k w
  | .getOtherMut _ _ w => wOkB k w
  | _ => true

mutual
/-- The operation only passes the unit value for the zero-sized kind (recursively in scripts). -/
def opOk : WOp → Bool
  | .createWith _ _ comps => comps.all (fun kv => vOkB kv.1 kv.2)
  | .getMut k _ _ w => wOkB k w
  | .ins k _ v => vOkB k v
  | .entry k _ op => entryOkB k op
  | .mutOrDefault k _ _ w => wOkB k w
  | .lazyIns k _ v => vOkB k v
  | .lazyInsAll k items => items.all (fun p => vOkB k p.2)
  | .lazyCreate comps => comps.all (fun kv => vOkB kv.1 kv.2)
  | .lazyExec s => scriptOk s
  | .rjoin k _ acts => acts.all (ractOkB k)
  | _ => true
def scriptOk : List WOp → Bool
  | [] => true
  | op :: ops => opOk op && scriptOk ops
end

theorem scriptOk_iff (ops : List WOp) : scriptOk ops = true ↔ ∀ op ∈ ops, opOk op = true := by
  induction ops with
  | nil => simp [scriptOk]
  | cons op ops ih => simp [scriptOk, ih]

/-! ### What a transcript line moves in and hands back -/

def itemIn (mutable : Bool) (act : RAct) (ir : ItemRes) : List Int :=
  match mutable, act, ir with
  | true, .getMut _ (some v), .val _ => [v]
  | true, .getOtherMut _ _ (some v), .opt (some _) => [v]
  | _, _, _ => []

def itemOut (mutable : Bool) (act : RAct) (ir : ItemRes) : List Int :=
  match mutable, act, ir with
  | true, .getMut _ (some _), .val old => [old]
  | true, .getOtherMut _ _ (some _), .opt (some old) => [old]
  | _, _, _ => []

/-- Values written in place during a restricted join (paired positionally with the actions). -/
def rjoinIn (mutable : Bool) : List RAct → List (Nat × ItemRes) → List Int
  | _, [] => []
  | acts, it :: rest => itemIn mutable (acts.head?.getD .skip) it.2 ++ rjoinIn mutable acts.tail rest

def rjoinOut (mutable : Bool) : List RAct → List (Nat × ItemRes) → List Int
  | _, [] => []
  | acts, it :: rest => itemOut mutable (acts.head?.getD .skip) it.2 ++ rjoinOut mutable acts.tail rest

/-- Values moved into the world by an operation, read off the operation and its result (exactly
    the `addToken`s of the monitor `WSpec.op`). -/
def opIn : WOp → WRes → List Int
  | .createWith _ _ comps, .e (.ent _) => comps.map (·.2)
  | .getMut _ _ _ w, .opt v => accIn w v
  | .ins _ _ v, .ins _ => [v]
  | .entry _ _ op, .entry r => entryIn op r
  | .mutOrDefault _ _ _ w, .opt v => accIn w v
  | .lazyIns _ _ v, .queued _ => [v]
  | .lazyInsAll _ items, .queued _ => items.map (·.2)
  | .lazyCreate comps, .e (.ent _) => comps.map (·.2)
  | .rjoin _ mutable acts, .items l => rjoinIn mutable acts l
  | _, _ => []

/-- Values handed back to the caller (returned by `insert`/`remove`/`drain`/entry operations, or
    overwritten in place through a mutable access): the `takeToken … "returned"/"overwritten in
    place"` of the monitor. -/
def opOut : WOp → WRes → List Int
  | .getMut _ _ _ w, .opt v => accOut w v
  | .ins _ _ _, .ins r => insOut r
  | .rem _ _, .opt v => v.toList
  | .entry _ _ op, .entry r => entryOut op r
  | .mutOrDefault _ _ _ w, .opt v => accOut w v
  | .drain _ _, .pairs l => l.map (·.2)
  | .rjoin _ mutable acts, .items l => rjoinOut mutable acts l
  | _, _ => []

/-- Accounting of a computation: (moved in, handed back). -/
abbrev Acct := List Int × List Int

def Acct.add (a b : Acct) : Acct := (a.1 ++ b.1, a.2 ++ b.2)

@[simp] theorem Acct.add_fst (a b : Acct) : (a.add b).1 = a.1 ++ b.1 := rfl
@[simp] theorem Acct.add_snd (a b : Acct) : (a.add b).2 = a.2 ++ b.2 := rfl

/-- A result that reports a panic (of the world or of the entity layer). -/
def WRes.isPanic : WRes → Bool
  | .panic _ => true
  | .e (.panic _) => true
  | _ => false

/-! ### Generic list facts -/

theorem flatMap_congr' {α β} {L : List α} {f g : α → List β} (h : ∀ j ∈ L, f j = g j) :
    L.flatMap f = L.flatMap g := by
  induction L with
  | nil => rfl
  | cons j L ih =>
    simp only [List.flatMap_cons]
    rw [h j (by simp), ih (fun i hi => h i (by simp [hi]))]

/-- Changing a function at one point of a duplicate-free index list. -/
theorem count_flatMap_update {L : List Nat} (hn : L.Nodup) (f f' : Nat → List Int) (k : Nat)
    (hk : k ∈ L) (hne : ∀ j, j ≠ k → f' j = f j) (c : Int) :
    (L.flatMap f').count c + (f k).count c = (L.flatMap f).count c + (f' k).count c := by
  induction L with
  | nil => cases hk
  | cons j L ih =>
    obtain ⟨hj, hn'⟩ := List.nodup_cons.mp hn
    simp only [List.flatMap_cons, List.count_append]
    by_cases hjk : j = k
    · subst hjk
      have : L.flatMap f' = L.flatMap f := flatMap_congr' (fun i hi => hne i (fun e => hj (e ▸ hi)))
      rw [this]; omega
    · have hk' : k ∈ L := by
        rcases List.mem_cons.mp hk with h | h
        · exact absurd h.symm hjk
        · exact h
      have := ih hn' hk'
      rw [hne j hjk]; omega

theorem count_flatMap_filter {L : List Nat} (f : Nat → List Int) (c : Int) :
    (L.flatMap f).count c = ((L.filter (fun j => !(f j).isEmpty)).flatMap f).count c := by
  induction L with
  | nil => rfl
  | cons j L ih =>
    simp only [List.flatMap_cons, List.count_append, List.filter_cons]
    by_cases hj : (f j).isEmpty = true
    · have : f j = [] := List.isEmpty_iff.mp hj
      simp only [this, List.isEmpty_nil, Bool.not_true, Bool.false_eq_true, if_false, List.count_nil, Nat.zero_add]
      exact ih
    · simp only [hj, Bool.not_false, if_true, List.flatMap_cons, List.count_append, ih]

/-- Two duplicate-free index lists that agree on the support of `f`. -/
theorem count_flatMap_support {L₁ L₂ : List Nat} (h₁ : L₁.Nodup) (h₂ : L₂.Nodup) (f : Nat → List Int)
    (h : ∀ j, f j ≠ [] → (j ∈ L₁ ↔ j ∈ L₂)) (c : Int) :
    (L₁.flatMap f).count c = (L₂.flatMap f).count c := by
  rw [count_flatMap_filter (L := L₁), count_flatMap_filter (L := L₂)]
  apply List.Perm.count_eq
  apply List.Perm.flatMap_right
  rw [List.perm_ext_iff_of_nodup (h₁.sublist List.filter_sublist) (h₂.sublist List.filter_sublist)]
  intro j
  simp only [List.mem_filter, Bool.not_eq_true', List.isEmpty_eq_false_iff]
  constructor
  · rintro ⟨a, b⟩; exact ⟨(h j b).mp a, b⟩
  · rintro ⟨a, b⟩; exact ⟨(h j b).mpr a, b⟩

namespace World

/-! ### The values a world holds -/

def storeHeld : Option Masked → List Int
  | some ms => ms.held
  | none => []

theorem storeHeld_some (ms : Masked) : storeHeld (some ms) = ms.held := rfl
theorem storeHeld_none : storeHeld none = [] := rfl

/-- Values held by the component storages. -/
def heldStores (w : World) : List Int :=
  (List.range w.stores.size).flatMap (fun k => storeHeld (w.store? k))

/-- Values captured by the still-queued lazy actions. -/
def heldQueue (w : World) : List Int := (w.queue.map queuedValues).flatten

/-- **Everything the world owns**: the components in all storages plus the queued values. -/
def held (w : World) : List Int := w.heldStores ++ w.heldQueue

/-- Occurrences of `c` among the values held and the values destroyed so far. -/
def tot (c : Int) (w : World) : Nat := w.held.count c + w.ledger.count c

/-- **Ledger balance** of a computation from `w` to `w'` that moved `a.1` in and handed `a.2`
    back: held + destroyed-so-far + handed back = held before + destroyed before + moved in,
    as multisets of non-zero values. -/
def Bal (w w' : World) (a : Acct) : Prop :=
  ∀ c : Int, c ≠ 0 → tot c w' + a.2.count c = tot c w + a.1.count c

theorem Bal.refl (w : World) : Bal w w ([], []) := fun _ _ => rfl

theorem Bal.trans {w w1 w2 : World} {a b : Acct} (h1 : Bal w w1 a) (h2 : Bal w1 w2 b) :
    Bal w w2 (a.add b) := by
  intro c hc
  have e1 := h1 c hc
  have e2 := h2 c hc
  simp only [Acct.add_fst, Acct.add_snd, List.count_append]
  omega

theorem Bal.of_tot {w w' : World} (h : ∀ c, tot c w' = tot c w) : Bal w w' ([], []) := by
  intro c _; simp [h c]

theorem Bal.congr_right {w w' w'' : World} {a : Acct} (h : Bal w w' a) (e : ∀ c, tot c w'' = tot c w') :
    Bal w w'' a := by
  intro c hc; rw [e c]; exact h c hc

theorem Bal.congr_left {w w0 w' : World} {a : Acct} (h : Bal w w' a) (e : ∀ c, tot c w0 = tot c w) :
    Bal w0 w' a := by
  intro c hc; rw [e c]; exact h c hc

/-- `tot` only looks at the storages, the queue and the ledger. -/
theorem tot_congr {w w' : World} (hs : w'.stores = w.stores) (hq : w'.queue = w.queue)
    (hl : w'.ledger = w.ledger) (c : Int) : tot c w' = tot c w := by
  simp only [tot, held, heldStores, heldQueue, store?, hs, hq, hl]

theorem size_setStore (w : World) (k : Nat) (m : Masked) : (w.setStore k m).stores.size = w.stores.size := by
  simp [setStore]

/-- Replacing (or creating) the storage of kind `k` and destroying `d`. -/
theorem tot_setStore (w : World) (k : Nat) (ms' : Masked) (d : List Int) (hk : k < w.stores.size)
    (c : Int) :
    tot c ((w.setStore k ms').destroy d) + (storeHeld (w.store? k)).count c =
      tot c w + ms'.held.count c + d.count c := by
  have hmem : k ∈ List.range w.stores.size := List.mem_range.mpr hk
  have hupd := count_flatMap_update List.nodup_range
    (fun j => storeHeld (w.store? j)) (fun j => storeHeld ((w.setStore k ms').store? j)) k hmem
    (by intro j hj; simp only [store?_setStore, hj, false_and, if_false]) c
  have hk' : storeHeld ((w.setStore k ms').store? k) = ms'.held := by
    simp [store?_setStore, hk, storeHeld]
  rw [hk'] at hupd
  simp only [tot, held, heldStores, heldQueue, destroy, List.count_append, List.count_reverse,
    size_setStore]
  have e1 : ∀ j, ({ w.setStore k ms' with ledger := d.reverse ++ (w.setStore k ms').ledger } : World).store? j
      = (w.setStore k ms').store? j := fun _ => rfl
  simp only [e1]
  have e2 : (w.setStore k ms').queue = w.queue := rfl
  have e3 : (w.setStore k ms').ledger = w.ledger := rfl
  rw [e2, e3]
  omega

theorem tot_setStore_some (w : World) (k : Nat) (ms ms' : Masked) (d : List Int)
    (hk : w.store? k = some ms) (c : Int) :
    tot c ((w.setStore k ms').destroy d) + ms.held.count c =
      tot c w + ms'.held.count c + d.count c := by
  have := tot_setStore w k ms' d (lt_size_of_store? hk) c
  rw [hk, storeHeld_some] at this
  exact this

/-! ### The extra invariant -/

/-- A queued action can be applied without losing a value: its storage is registered and its
    values are storable; a queued script is well typed. -/
def ActOk (w : World) : LazyAct → Prop
  | .ins _ k _ v => (w.store? k).isSome = true ∧ vOk k v
  | .insAll _ k items => (w.store? k).isSome = true ∧ ∀ p ∈ items, vOk k p.2
  | .rem _ _ _ => True
  | .exec _ s => scriptOk s = true

theorem ActOk.mono {w w' : World} (h : ∀ k, (w.store? k).isSome = true → (w'.store? k).isSome = true)
    {act : LazyAct} (ha : ActOk w act) : ActOk w' act := by
  cases act with
  | ins t k e v => exact ⟨h k ha.1, ha.2⟩
  | insAll t k items => exact ⟨h k ha.1, ha.2⟩
  | rem t k e => trivial
  | exec t s => exact ha

/-- What conservation needs on top of `WInv`: storages are well formed and null-based only for
    kind 5, the meta table lists each storage once (so `drop_world` clears each storage once),
    queued actions are applicable. -/
structure XInv (w : World) : Prop where
  st : ∀ k ms, w.store? k = some ms → ms.inner.WF ∧ (ms.inner.nullBased = true → k = 5)
  nodup : w.table.Nodup
  queue : ∀ act, act ∈ w.queue → ActOk w act

theorem xinv_init : XInv ({} : World) := by
  refine ⟨?_, by simp, by simp⟩
  intro k ms h
  exfalso
  simp only [store?] at h
  by_cases hk : k < numKinds
  · simp [hk] at h
  · simp [hk] at h

theorem stOk_of {w : World} (hi : WInv w) (hx : XInv w) {k : Nat} {ms : Masked}
    (hk : w.store? k = some ms) : StOk k ms :=
  ⟨hi.good k ms hk, (hx.st k ms hk).1, (hx.st k ms hk).2⟩

/-- Same storages (up to their content), same table, same queue. -/
theorem XInv.of_frame {w w' : World}
    (hs : ∀ k ms', w'.store? k = some ms' → ms'.inner.WF ∧ (ms'.inner.nullBased = true → k = 5))
    (hd : ∀ k, (w.store? k).isSome = true → (w'.store? k).isSome = true)
    (ht : w'.table = w.table) (hq : w'.queue = w.queue) (hx : XInv w) : XInv w' :=
  ⟨hs, ht ▸ hx.nodup, fun act ha => (hx.queue act (hq ▸ ha)).mono hd⟩

/-- Only non-storage, non-table, non-queue fields changed. -/
theorem XInv.of_same {w w' : World} (hs : w'.stores = w.stores) (ht : w'.table = w.table)
    (hq : w'.queue = w.queue) (hx : XInv w) : XInv w' := by
  have hst : ∀ k, w'.store? k = w.store? k := fun k => by simp only [store?, hs]
  exact XInv.of_frame (fun k ms' h => hx.st k ms' (hst k ▸ h)) (fun k h => by rw [hst k]; exact h) ht hq hx

theorem store?_setStore_destroy {w : World} {k : Nat} {ms : Masked} (hk : w.store? k = some ms)
    (ms' : Masked) (d : List Int) (k' : Nat) :
    ((w.setStore k ms').destroy d).store? k' = if k' = k then some ms' else w.store? k' := by
  have := store?_setStore w k k' ms'
  rw [store?_destroy]
  simpa [lt_size_of_store? hk] using this

theorem XInv.setStore {w : World} (hx : XInv w) {k : Nat} {ms ms' : Masked}
    (hk : w.store? k = some ms) (hst : StOk k ms') (d : List Int) :
    XInv ((w.setStore k ms').destroy d) := by
  refine XInv.of_frame (w := w) ?_ ?_ rfl rfl hx
  · intro k' m' h'
    rw [store?_setStore_destroy hk] at h'
    split at h'
    · next heq => cases h'; subst heq; exact ⟨hst.wf, hst.kind⟩
    · exact hx.st k' m' h'
  · intro k' h'
    rw [store?_setStore_destroy hk]
    split
    · rfl
    · exact h'

/-- A storage-level result applied to the world: invariant and balance. -/
theorem led_applyS {α} {w : World} (hx : XInv w) {k : Nat} {ms : Masked}
    (hk : w.store? k = some ms) {o : Out (SRes α)} {r : SRes α} (ho : o = .ok r)
    (hst : StOk k r.st) (mi rt : List Int)
    (hc : ∀ c : Int, c ≠ 0 → r.st.held.count c + r.destroyed.count c + rt.count c =
      ms.held.count c + mi.count c) (f : α → WRes) :
    XInv (w.applyS k o f).1 ∧ Bal w (w.applyS k o f).1 (mi, rt) ∧ (w.applyS k o f).2 = f r.val := by
  subst ho
  refine ⟨hx.setStore hk hst _, ?_, rfl⟩
  intro c hc0
  have h1 := tot_setStore_some w k ms r.st r.destroyed hk c
  have h2 := hc c hc0
  simp only [applyS]
  omega

end World
end SpecsModel
