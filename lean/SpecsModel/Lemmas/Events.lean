/-
  Lemmas for C12 (change-tracking storages): exact characterisation of the event channel after
  every `UStore` function and every `Masked` (Storage API) function, the replay law, and the
  lifting to operation sequences with emission toggled at arbitrary points.

  Everything here is about the model as it is (Model/Storages.lean, Model/Storage.lean); nothing
  is assumed about the inner storage kind, so all statements hold for both wrappers over every
  inner kind (and degenerate to "no events" for untracked kinds).

  Contents
  * vocabulary: `wrap`, `emitOn`, `evl`, `modEv`, `gate`, `Appends s s' X` (channel of `s'` = channel
    of `s` ++ `gate s X`, wrapper and flag unchanged), `Appends.events_some` (the `Option (Array _)` form);
  * `UStore` level: `insert_flagged` … `touch_derefFlagged` (defining equations, panic/ub paths
    explicit: `insert_tracked_not_ok`, `remove_tracked_not_ok`), `insert_appends`, `remove_appends`,
    `touch_appends`, `poke_appends`, `clean_appends`, `setEmit_spec`, `untracked_events_none`;
  * `replay`, `replay_append`;
  * `Masked` level (DESIGN Appendix C): expected events `xGetMut`, `xInsert`, `xRemoveId`, `xRemove`,
    `xDropAll`, `xDrain`, `xEntry`, `xGetMutOrDefault`; `Eff m m' X` = `Appends` + "mask of `m'` is
    `replay X` of the mask of `m`"; `getMut_eff`, `insert_eff`, `removeId_eff`, `remove_eff`,
    `dropId_eff`, `dropAll_eff`, `drain_eff`, `entry_eff`, `getMutOrDefault_eff`, `clear_appends`,
    `reads_pure`; result-keyed forms `getMut_val`, `remove_val`, `insert_val`, `entry_val`;
  * counting: `Faithful`, `opX_faithful`, `xDropAll_eq_map`, `xDropAll_nodup`; `access`, `opX_modified`;
  * sequences: `SOp`, `stepS`, `opX`, `opE`, `run`, `runX`, `runE`, `stepS_spec`, `run_events`,
    `run_mask`, `runE_eq_runX`, `runE_off`;
  * world level: `step_events`, `step_events_from_cursor`, `wopS`, `step_wopS`,
    `deleteComponents_store`.
-/
import SpecsModel.Model.World
namespace SpecsModel.Ev
open SpecsModel

/-! ## Vocabulary -/

/-- Which change-tracking wrapper a store is. -/
inductive Wrap where
  | none
  | flagged
  | deref
  deriving DecidableEq, Repr

def wrap : UStore → Wrap
  | .flagged _ _ _ => .flagged
  | .derefFlagged _ _ _ => .deref
  | _ => .none

/-- The `event_emission` flag (`false` for untracked kinds: they never emit). -/
def emitOn : UStore → Bool
  | .flagged _ _ b => b
  | .derefFlagged _ _ b => b
  | _ => false

/-- The channel content as a list (`[]` for untracked kinds). -/
def evl (s : UStore) : List CEv :=
  match s.events with
  | some a => a.toList
  | none => []

/-- Events of one mutable access with `derefs` mutable dereferences (Appendix C, "per dereference"). -/
def modEv : Wrap → Nat → Nat → List CEv
  | .flagged, i, _ => [.modified i]
  | .deref, i, d => List.replicate d (.modified i)
  | .none, _, _ => []

/-- Emission gate: the events are written only while emission is on. -/
def gate (s : UStore) (l : List CEv) : List CEv := if emitOn s then l else []

@[simp] theorem gate_nil (s : UStore) : gate s [] = [] := by simp [gate]

theorem gate_append (s : UStore) (l₁ l₂ : List CEv) : gate s (l₁ ++ l₂) = gate s l₁ ++ gate s l₂ := by
  unfold gate; split <;> simp

theorem gate_on {s : UStore} (h : emitOn s = true) (l : List CEv) : gate s l = l := by simp [gate, h]
theorem gate_off {s : UStore} (h : emitOn s = false) (l : List CEv) : gate s l = [] := by simp [gate, h]

theorem emitOn_of_wrap_none {s : UStore} (h : wrap s = .none) : emitOn s = false := by
  cases s <;> simp_all [wrap, emitOn]

theorem events_none_iff (s : UStore) : s.events = none ↔ wrap s = .none := by
  cases s <;> simp [UStore.events, wrap]

theorem evl_of_wrap_none {s : UStore} (h : wrap s = .none) : evl s = [] := by
  simp [evl, (events_none_iff s).2 h]

theorem events_eq_some_evl {s : UStore} (h : wrap s ≠ .none) : s.events = some (evl s).toArray := by
  cases s <;> simp_all [UStore.events, wrap, evl]

/-- `s'` is `s` with the gated events `X` appended to the channel; wrapper kind and emission flag
    unchanged. This is the shape of every `UStore` / `Masked` effect on the channel. -/
structure Appends (s s' : UStore) (X : List CEv) : Prop where
  evl_eq : evl s' = evl s ++ gate s X
  wrap_eq : wrap s' = wrap s
  emit_eq : emitOn s' = emitOn s

theorem Appends.refl (s : UStore) : Appends s s [] := ⟨by simp, rfl, rfl⟩

theorem Appends.trans {s s' s'' : UStore} {X Y : List CEv}
    (h₁ : Appends s s' X) (h₂ : Appends s' s'' Y) : Appends s s'' (X ++ Y) := by
  refine ⟨?_, h₂.wrap_eq.trans h₁.wrap_eq, h₂.emit_eq.trans h₁.emit_eq⟩
  rw [h₂.evl_eq, h₁.evl_eq, gate_append, List.append_assoc]
  simp [gate, h₁.emit_eq]

theorem Appends.of_eq {s s' : UStore} {X Y : List CEv} (h : Appends s s' X) (e : X = Y) :
    Appends s s' Y := e ▸ h

/-- Between untracked stores nothing is ever appended. -/
theorem Appends.untracked {s s' : UStore} (h : wrap s = .none) (h' : wrap s' = .none)
    (X : List CEv) : Appends s s' X :=
  ⟨by simp [evl_of_wrap_none h, evl_of_wrap_none h', gate_off (emitOn_of_wrap_none h)],
   h'.trans h.symm, (emitOn_of_wrap_none h').trans (emitOn_of_wrap_none h).symm⟩

/-- The `Option (Array CEv)` form: a tracked store's channel grows by exactly `gate s X`. -/
theorem Appends.events_some {s s' : UStore} {X : List CEv} (h : Appends s s' X)
    {ev : Array CEv} (hev : s.events = some ev) :
    s'.events = some (ev ++ (gate s X).toArray) := by
  have hw : Ev.wrap s ≠ .none := by
    intro hn; rw [(events_none_iff s).2 hn] at hev; cases hev
  have hw' : Ev.wrap s' ≠ .none := by rw [h.wrap_eq]; exact hw
  rw [events_eq_some_evl hw', h.evl_eq]
  have : Ev.evl s = ev.toList := by simp [Ev.evl, hev]
  rw [this]; simp

/-- Untracked stores stay without a channel. -/
theorem Appends.events_none {s s' : UStore} {X : List CEv} (h : Appends s s' X)
    (hev : s.events = none) : s'.events = none := by
  rw [events_none_iff] at hev ⊢; rw [h.wrap_eq]; exact hev

/-! ## `UStore` level -/

section ustore
variable (inner : UStore) (ev : Array CEv) (emit : Bool)

/-- `FlaggedStorage::insert`: the event is pushed *before* delegating to the inner storage; on the
    inner storage's panic/ub paths the result is that panic/ub and the state (with the pushed
    event) is discarded. -/
theorem insert_flagged (i : Nat) (v : Int) :
    (UStore.flagged inner ev emit).insert i v =
      match inner.insert i v with
      | .ok (inner', d) => .ok (.flagged inner' (if emit then ev.push (.inserted i) else ev) emit, d)
      | .panic w => .panic w
      | .ub w => .ub w := by
  simp only [UStore.insert]
  cases inner.insert i v with
  | ok p => cases p; rfl
  | _ => rfl

theorem insert_derefFlagged (i : Nat) (v : Int) :
    (UStore.derefFlagged inner ev emit).insert i v =
      match inner.insert i v with
      | .ok (inner', d) => .ok (.derefFlagged inner' (if emit then ev.push (.inserted i) else ev) emit, d)
      | .panic w => .panic w
      | .ub w => .ub w := by
  simp only [UStore.insert]
  cases inner.insert i v with
  | ok p => cases p; rfl
  | _ => rfl

/-- `FlaggedStorage::remove`: `Removed` is pushed before delegating; panic/ub of the inner storage
    propagate and the state is discarded. -/
theorem remove_flagged (i : Nat) :
    (UStore.flagged inner ev emit).remove i =
      match inner.remove i with
      | .ok (inner', v) => .ok (.flagged inner' (if emit then ev.push (.removed i) else ev) emit, v)
      | .panic w => .panic w
      | .ub w => .ub w := by
  simp only [UStore.remove]
  cases inner.remove i with
  | ok p => cases p; rfl
  | _ => rfl

theorem remove_derefFlagged (i : Nat) :
    (UStore.derefFlagged inner ev emit).remove i =
      match inner.remove i with
      | .ok (inner', v) => .ok (.derefFlagged inner' (if emit then ev.push (.removed i) else ev) emit, v)
      | .panic w => .panic w
      | .ub w => .ub w := by
  simp only [UStore.remove]
  cases inner.remove i with
  | ok p => cases p; rfl
  | _ => rfl

/-- The panic/ub paths made explicit: when the inner storage fails, the tracked storage fails the
    same way; there is no resulting state (the event pushed before delegating is discarded with
    it — in the real code the process is unwinding / has undefined behaviour at that point). -/
theorem insert_tracked_not_ok (i : Nat) (v : Int) :
    (∀ w, inner.insert i v = .panic w →
      (UStore.flagged inner ev emit).insert i v = .panic w ∧
      (UStore.derefFlagged inner ev emit).insert i v = .panic w) ∧
    (∀ w, inner.insert i v = .ub w →
      (UStore.flagged inner ev emit).insert i v = .ub w ∧
      (UStore.derefFlagged inner ev emit).insert i v = .ub w) := by
  refine ⟨fun w h => ?_, fun w h => ?_⟩ <;> rw [insert_flagged, insert_derefFlagged, h] <;> exact ⟨rfl, rfl⟩

theorem remove_tracked_not_ok (i : Nat) :
    (∀ w, inner.remove i = .panic w →
      (UStore.flagged inner ev emit).remove i = .panic w ∧
      (UStore.derefFlagged inner ev emit).remove i = .panic w) ∧
    (∀ w, inner.remove i = .ub w →
      (UStore.flagged inner ev emit).remove i = .ub w ∧
      (UStore.derefFlagged inner ev emit).remove i = .ub w) := by
  refine ⟨fun w h => ?_, fun w h => ?_⟩ <;> rw [remove_flagged, remove_derefFlagged, h] <;> exact ⟨rfl, rfl⟩

/-- `FlaggedStorage::get_mut`: one `Modified` at the call, whatever is done with the reference. -/
theorem touch_flagged (i d : Nat) :
    (UStore.flagged inner ev emit).touch i d =
      .flagged inner (if emit then ev.push (.modified i) else ev) emit := rfl

/-- `DerefFlaggedStorage::get_mut`: one `Modified` per mutable dereference of the access. -/
theorem touch_derefFlagged (i d : Nat) :
    (UStore.derefFlagged inner ev emit).touch i d =
      .derefFlagged inner (if emit then ev ++ Array.replicate d (.modified i) else ev) emit := rfl

end ustore

theorem insert_appends {s s' : UStore} {i : Nat} {v : Int} {d : List Int}
    (h : s.insert i v = .ok (s', d)) : Appends s s' [.inserted i] := by
  cases s with
  | flagged inner ev emit =>
    rw [insert_flagged] at h
    split at h <;> simp at h
    obtain ⟨rfl, _⟩ := h
    refine ⟨?_, rfl, rfl⟩
    cases emit <;> simp [evl, UStore.events, gate, emitOn]
  | derefFlagged inner ev emit =>
    rw [insert_derefFlagged] at h
    split at h <;> simp at h
    obtain ⟨rfl, _⟩ := h
    refine ⟨?_, rfl, rfl⟩
    cases emit <;> simp [evl, UStore.events, gate, emitOn]
  | dvec slots =>
    simp only [UStore.insert] at h
    split at h <;> simp at h <;> obtain ⟨rfl, _⟩ := h <;> exact Appends.untracked rfl rfl _
  | _ =>
    simp only [UStore.insert, Out.ok.injEq, Prod.mk.injEq] at h
    obtain ⟨rfl, _⟩ := h
    exact Appends.untracked rfl rfl _

theorem remove_appends {s s' : UStore} {i : Nat} {v : Int}
    (h : s.remove i = .ok (s', v)) : Appends s s' [.removed i] := by
  cases s with
  | flagged inner ev emit =>
    rw [remove_flagged] at h
    split at h <;> simp at h
    obtain ⟨rfl, _⟩ := h
    refine ⟨?_, rfl, rfl⟩
    cases emit <;> simp [evl, UStore.events, gate, emitOn]
  | derefFlagged inner ev emit =>
    rw [remove_derefFlagged] at h
    split at h <;> simp at h
    obtain ⟨rfl, _⟩ := h
    refine ⟨?_, rfl, rfl⟩
    cases emit <;> simp [evl, UStore.events, gate, emitOn]
  | _ =>
    simp only [UStore.remove] at h
    repeat' split at h
    all_goals first
      | (simp at h; done)
      | (simp only [Out.ok.injEq, Prod.mk.injEq] at h
         obtain ⟨rfl, _⟩ := h
         exact Appends.untracked rfl rfl _)

theorem touch_appends (s : UStore) (i d : Nat) : Appends s (s.touch i d) (modEv (wrap s) i d) := by
  cases s with
  | flagged inner ev emit =>
    refine ⟨?_, rfl, rfl⟩
    cases emit <;> simp [UStore.touch, evl, UStore.events, gate, emitOn, modEv, wrap]
  | derefFlagged inner ev emit =>
    refine ⟨?_, rfl, rfl⟩
    cases emit <;> simp [UStore.touch, evl, UStore.events, gate, emitOn, modEv, wrap]
  | _ => exact Appends.untracked rfl rfl _

theorem poke_appends {s s' : UStore} {i : Nat} {v : Int}
    (h : s.poke i v = .ok s') : Appends s s' [] := by
  cases s with
  | flagged inner ev emit =>
    simp only [UStore.poke] at h
    split at h <;> simp at h
    subst h
    exact ⟨by simp [evl, UStore.events], rfl, rfl⟩
  | derefFlagged inner ev emit =>
    simp only [UStore.poke] at h
    split at h <;> simp at h
    subst h
    exact ⟨by simp [evl, UStore.events], rfl, rfl⟩
  | _ =>
    simp only [UStore.poke] at h
    repeat' split at h
    all_goals first
      | (simp at h; done)
      | (simp only [Out.ok.injEq] at h
         subst h
         exact Appends.untracked rfl rfl _)

theorem clean_appends {s s' : UStore} {has : BSet} {d : List Int}
    (h : s.clean has = .ok (s', d)) : Appends s s' [] := by
  cases s with
  | flagged inner ev emit =>
    simp only [UStore.clean] at h
    split at h <;> simp at h
    obtain ⟨rfl, _⟩ := h
    exact ⟨by simp [evl, UStore.events], rfl, rfl⟩
  | derefFlagged inner ev emit =>
    simp only [UStore.clean] at h
    split at h <;> simp at h
    obtain ⟨rfl, _⟩ := h
    exact ⟨by simp [evl, UStore.events], rfl, rfl⟩
  | _ =>
    simp only [UStore.clean] at h
    repeat' split at h
    all_goals first
      | (simp at h; done)
      | (simp only [Out.ok.injEq, Prod.mk.injEq] at h
         obtain ⟨rfl, _⟩ := h
         exact Appends.untracked rfl rfl _)

/-- `get` has no state at all: it returns a value only. (Stated for the table's completeness.) -/
theorem get_flagged (inner : UStore) (ev : Array CEv) (emit : Bool) (i : Nat) :
    (UStore.flagged inner ev emit).get i = inner.get i ∧
    (UStore.derefFlagged inner ev emit).get i = inner.get i := ⟨by simp [UStore.get], by simp [UStore.get]⟩

/-- `set_event_emission`: channel and wrapper unchanged, flag set (tracked kinds only). -/
theorem setEmit_spec (s : UStore) (b : Bool) :
    evl (s.setEmit b) = evl s ∧ wrap (s.setEmit b) = wrap s ∧
    emitOn (s.setEmit b) = (if wrap s = .none then false else b) := by
  cases s <;> simp [UStore.setEmit, evl, UStore.events, wrap, emitOn]

/-- Untracked kinds never have a channel, whatever is done to them. -/
theorem untracked_events_none {s : UStore} (h : wrap s = .none) :
    s.events = none ∧
    (∀ i v s' d, s.insert i v = .ok (s', d) → s'.events = none) ∧
    (∀ i s' v, s.remove i = .ok (s', v) → s'.events = none) ∧
    (∀ i d, (s.touch i d).events = none) ∧
    (∀ i v s', s.poke i v = .ok s' → s'.events = none) ∧
    (∀ has s' d, s.clean has = .ok (s', d) → s'.events = none) ∧
    (∀ b, (s.setEmit b).events = none) := by
  have h0 := (events_none_iff s).2 h
  refine ⟨h0, ?_, ?_, ?_, ?_, ?_, ?_⟩
  · intro i v s' d hh; exact (insert_appends hh).events_none h0
  · intro i s' v hh; exact (remove_appends hh).events_none h0
  · intro i d; exact (touch_appends s i d).events_none h0
  · intro i v s' hh; exact (poke_appends hh).events_none h0
  · intro has s' d hh; exact (clean_appends hh).events_none h0
  · intro b; rw [events_none_iff, (setEmit_spec s b).2.1]; exact h


/-! ## Replay -/

/-- Replay a list of events over a membership function: `inserted i` sets `i`, `removed i` clears
    it, `modified` is ignored. -/
def replay (evs : List CEv) (mem : Nat → Bool) : Nat → Bool :=
  match evs with
  | [] => mem
  | .inserted i :: evs => replay evs (fun j => if j = i then true else mem j)
  | .modified _ :: evs => replay evs mem
  | .removed i :: evs => replay evs (fun j => if j = i then false else mem j)

theorem replay_append (l₁ l₂ : List CEv) (mem : Nat → Bool) :
    replay (l₁ ++ l₂) mem = replay l₂ (replay l₁ mem) := by
  induction l₁ generalizing mem with
  | nil => rfl
  | cons ev l ih => cases ev <;> simp only [List.cons_append, replay, ih]

theorem replay_replicate_modified (d i : Nat) (mem : Nat → Bool) :
    replay (List.replicate d (.modified i)) mem = mem := by
  induction d with
  | zero => rfl
  | succ d ih => simpa [List.replicate_succ, replay] using ih

@[simp] theorem replay_modEv (w : Wrap) (i d : Nat) (mem : Nat → Bool) :
    replay (modEv w i d) mem = mem := by
  cases w <;> simp [modEv, replay, replay_replicate_modified]

/-- Replaying removals of a list of indices clears exactly those. -/
theorem replay_map_removed (l : List Nat) (mem : Nat → Bool) (j : Nat) :
    replay (l.map .removed) mem j = (mem j && !decide (j ∈ l)) := by
  induction l generalizing mem with
  | nil => simp [replay]
  | cons i l ih =>
    simp only [List.map_cons, replay, ih, List.mem_cons]
    by_cases h : j = i <;> simp [h]

/-! ## `Masked` level: the table of DESIGN Appendix C -/

/-- Effect of a storage-API call on a `Masked`: the channel grows by the gated `X`, and the mask is
    the replay of the (ungated) `X` over the old mask. -/
structure Eff (m m' : Masked) (X : List CEv) : Prop where
  app : Appends m.inner m'.inner X
  mask : ∀ j, m'.mask.mem j = replay X (fun j => m.mask.mem j) j

theorem Eff.refl (m : Masked) : Eff m m [] := ⟨Appends.refl _, fun _ => rfl⟩

theorem Eff.trans {m m' m'' : Masked} {X Y : List CEv} (h₁ : Eff m m' X) (h₂ : Eff m' m'' Y) :
    Eff m m'' (X ++ Y) := by
  refine ⟨h₁.app.trans h₂.app, fun j => ?_⟩
  rw [h₂.mask j, replay_append]
  have : (fun j => m'.mask.mem j) = replay X (fun j => m.mask.mem j) := funext h₁.mask
  rw [this]

theorem Eff.of_eq {m m' : Masked} {X Y : List CEv} (h : Eff m m' X) (e : X = Y) : Eff m m' Y := e ▸ h

theorem lift_ok {α β : Type} {o : Out α} {f : α → Out β} {r : β}
    (h : Masked.lift o f = .ok r) : ∃ x, o = .ok x ∧ f x = .ok r := by
  cases o with
  | ok x => exact ⟨x, rfl, h⟩
  | panic w => simp [Masked.lift] at h
  | ub w => simp [Masked.lift] at h

/-- One access with a single dereference (overwrite through `access_mut`) is one `Modified` on both
    wrappers. -/
theorem Appends.modEv_one {s s' : UStore} {i : Nat} (h : Appends s s' (modEv (wrap s) i 1)) :
    Appends s s' [.modified i] := by
  cases hw : wrap s with
  | none => exact Appends.untracked hw (h.wrap_eq.trans hw) _
  | flagged => rw [hw] at h; exact h
  | deref => rw [hw] at h; exact h

/-! ### expected events (ungated), as functions of the op, the membership bit, aliveness, the
    wrapper kind and the number of mutable dereferences -/

def xGetMut (m : Masked) (a : Alloc) (e : Entity) (derefs : Nat) : List CEv :=
  if m.mask.mem e.id && a.isAlive e then modEv (wrap m.inner) e.id derefs else []

def xInsert (m : Masked) (a : Alloc) (e : Entity) : List CEv :=
  if a.isAlive e then (if m.mask.mem e.id then [.modified e.id] else [.inserted e.id]) else []

def xRemoveId (m : Masked) (id : Nat) : List CEv := if m.mask.mem id then [.removed id] else []

def xRemove (m : Masked) (a : Alloc) (e : Entity) : List CEv :=
  if a.isAlive e then xRemoveId m e.id else []

/-- Entity deletion: one `Removed` per listed entity whose bit is (still) set, in list order. -/
def xDropAll (mask : BSet) : List Entity → List CEv
  | [] => []
  | e :: es => if mask.mem e.id then .removed e.id :: xDropAll (mask.remove e.id) es else xDropAll mask es

def xDrain (m : Masked) (n : Nat) : List CEv := (m.mask.toList.take n).map .removed

def xEntry (m : Masked) (a : Alloc) (e : Entity) (op : Masked.EntryOp) : List CEv :=
  if a.isAlive e then
    if m.mask.mem e.id then
      match op with
      | .orInsert _ derefs _ => modEv (wrap m.inner) e.id derefs
      | .replace _ => [.modified e.id]
      | .remove => [.removed e.id]
    else
      match op with
      | .orInsert _ derefs _ => .inserted e.id :: modEv (wrap m.inner) e.id derefs
      | .replace _ => .inserted e.id :: modEv (wrap m.inner) e.id 0
      | .remove => []
  else []

def xGetMutOrDefault (m : Masked) (a : Alloc) (e : Entity) (derefs : Nat) : List CEv :=
  if a.isAlive e then
    if m.mask.mem e.id then modEv (wrap m.inner) e.id derefs
    else .inserted e.id :: modEv (wrap m.inner) e.id derefs
  else []

/-- `Storage::get`, `contains`, `get_other` return a value only (`Out (Option Int)` / `Bool`): the
    model gives them no way to change the storage, hence no event. Their dead-handle rows: -/
theorem reads_pure (m : Masked) (a : Alloc) (e : Entity) :
    m.getOther a e = m.get a e ∧ m.contains a e = (m.mask.mem e.id && a.isAlive e) ∧
    (a.isAlive e = false → m.get a e = .ok none) := by
  refine ⟨rfl, rfl, fun h => ?_⟩
  simp [Masked.get, h]

section masked
variable {m : Masked} {a : Alloc} {e : Entity}

theorem getMut_eff {derefs : Nat} {w : Option Int} {r : SRes (Option Int)}
    (h : m.getMut a e derefs w = .ok r) : Eff m r.st (xGetMut m a e derefs) := by
  unfold Masked.getMut at h
  unfold xGetMut
  split at h
  · rename_i hc
    rw [if_pos hc]
    obtain ⟨old, -, h⟩ := lift_ok h
    cases w with
    | none =>
      cases h
      exact ⟨touch_appends _ _ _, fun j => by simp⟩
    | some v =>
      obtain ⟨inner', hp, h⟩ := lift_ok h
      cases h
      exact ⟨((touch_appends _ _ _).trans (poke_appends hp)).of_eq (by simp), fun j => by simp⟩
  · rename_i hc
    rw [if_neg hc]
    cases h
    exact Eff.refl m

theorem notPresentInsert_eff {id : Nat} {v : Int} {r : SRes Unit}
    (h : m.notPresentInsert id v = .ok r) : Eff m r.st [.inserted id] := by
  unfold Masked.notPresentInsert at h
  obtain ⟨⟨inner, d⟩, hi, h⟩ := lift_ok h
  cases h
  exact ⟨insert_appends hi, fun j => by simp [replay, BSet.mem_add]⟩

theorem insert_eff {v : Int} {r : SRes Masked.InsRes}
    (h : m.insert a e v = .ok r) : Eff m r.st (xInsert m a e) := by
  unfold Masked.insert at h
  unfold xInsert
  split at h
  · rename_i ha
    rw [if_pos ha]
    split at h
    · rename_i hm
      rw [if_pos hm]
      obtain ⟨old, -, h⟩ := lift_ok h
      obtain ⟨inner, hp, h⟩ := lift_ok h
      cases h
      exact ⟨((touch_appends _ _ _).modEv_one.trans (poke_appends hp)).of_eq (by simp),
        fun j => by simp [replay]⟩
    · rename_i hm
      rw [if_neg hm]
      obtain ⟨r1, h1, h⟩ := lift_ok h
      cases h
      exact notPresentInsert_eff h1
  · rename_i ha
    rw [if_neg ha]
    cases h
    exact Eff.refl m

theorem removeId_eff {id : Nat} {r : SRes (Option Int)}
    (h : m.removeId id = .ok r) : Eff m r.st (xRemoveId m id) := by
  unfold Masked.removeId at h
  unfold xRemoveId
  split at h
  · rename_i hm
    rw [if_pos hm]
    obtain ⟨⟨inner, v⟩, hr, h⟩ := lift_ok h
    cases h
    exact ⟨remove_appends hr, fun j => by simp [replay, BSet.mem_remove]⟩
  · rename_i hm
    rw [if_neg hm]
    cases h
    exact Eff.refl m

/-- `removeId` returns `some` exactly when the bit was set. -/
theorem removeId_val {id : Nat} {r : SRes (Option Int)}
    (h : m.removeId id = .ok r) : r.val.isSome = m.mask.mem id ∧
      (m.mask.mem id = true → r.st.mask = m.mask.remove id) := by
  unfold Masked.removeId at h
  split at h
  · rename_i hm
    obtain ⟨⟨inner, v⟩, hr, h⟩ := lift_ok h
    cases h
    simp [hm]
  · rename_i hm
    cases h
    simp [hm]

theorem remove_eff {r : SRes (Option Int)}
    (h : m.remove a e = .ok r) : Eff m r.st (xRemove m a e) := by
  unfold Masked.remove at h
  unfold xRemove
  split at h
  · rename_i ha; rw [if_pos ha]; exact removeId_eff h
  · rename_i ha; rw [if_neg ha]; cases h; exact Eff.refl m

theorem dropId_eff {id : Nat} {r : SRes Unit}
    (h : m.dropId id = .ok r) : Eff m r.st (xRemoveId m id) ∧
      (m.mask.mem id = true → r.st.mask = m.mask.remove id) ∧ (m.mask.mem id = false → r.st = m) := by
  unfold Masked.dropId at h
  unfold xRemoveId
  split at h
  · rename_i hm
    rw [if_pos hm]
    obtain ⟨⟨inner, v⟩, hr, h⟩ := lift_ok h
    cases h
    exact ⟨⟨remove_appends hr, fun j => by simp [replay, BSet.mem_remove]⟩, fun _ => rfl, by simp [hm]⟩
  · rename_i hm
    rw [if_neg hm]
    cases h
    exact ⟨Eff.refl m, by simp [hm], fun _ => rfl⟩

theorem dropAll_eff {es : List Entity} {acc : List Int} {r : SRes Unit}
    (h : m.dropAll es acc = .ok r) : Eff m r.st (xDropAll m.mask es) := by
  induction es generalizing m acc with
  | nil =>
    simp only [Masked.dropAll] at h
    cases h
    exact Eff.refl m
  | cons e es ih =>
    simp only [Masked.dropAll] at h
    obtain ⟨r1, h1, h⟩ := lift_ok h
    obtain ⟨he, hset, hunset⟩ := dropId_eff h1
    have := ih h
    simp only [xDropAll]
    by_cases hm : m.mask.mem e.id = true
    · rw [if_pos hm]
      rw [hset hm] at this
      simp only [xRemoveId, if_pos hm] at he
      exact he.trans this
    · rw [if_neg hm]
      rw [hunset (by simpa using hm)] at this
      exact this

/-- `clear` emits nothing (by design) — and the mask is emptied, so the replay law does *not* hold
    for it; this is why C12 excludes it. -/
theorem clear_appends {r : SRes Unit} (h : m.clear = .ok r) :
    Appends m.inner r.st.inner [] ∧ ∀ j, r.st.mask.mem j = false := by
  unfold Masked.clear at h
  obtain ⟨⟨inner, d⟩, hc, h⟩ := lift_ok h
  cases h
  exact ⟨clean_appends hc, fun j => by simp⟩

theorem drainLoop_eff {ids : List Nat} {n : Nat} {acc : List (Nat × Int)} {r : SRes (List (Nat × Int))}
    (h : m.drainLoop ids n acc = .ok r) : Eff m r.st ((ids.take n).map .removed) := by
  induction ids generalizing m n acc with
  | nil =>
    simp only [Masked.drainLoop] at h
    cases h
    simpa using Eff.refl m
  | cons id ids ih =>
    cases n with
    | zero =>
      simp only [Masked.drainLoop] at h
      cases h
      simpa using Eff.refl m
    | succ n =>
      simp only [Masked.drainLoop] at h
      obtain ⟨r1, h1, h⟩ := lift_ok h
      have he := removeId_eff h1
      have hv := (removeId_val h1).1
      cases hval : r1.val with
      | none => rw [hval] at h; simp at h
      | some v =>
        rw [hval] at h hv
        have hm : m.mask.mem id = true := by simpa using hv.symm
        simp only [xRemoveId, if_pos hm] at he
        simpa using he.trans (ih h)

theorem drain_eff {n : Nat} {r : SRes (List (Nat × Int))}
    (h : m.drain n = .ok r) : Eff m r.st (xDrain m n) := drainLoop_eff h

theorem entry_eff {op : Masked.EntryOp} {r : SRes Masked.EntryRes}
    (h : m.entry a e op = .ok r) : Eff m r.st (xEntry m a e op) := by
  unfold Masked.entry at h
  unfold xEntry
  split at h
  · rename_i ha
    rw [if_pos ha]
    dsimp only at h
    split at h
    · rename_i hm
      rw [if_pos hm]
      cases op with
      | orInsert v0 derefs w =>
        dsimp only at h ⊢
        obtain ⟨old, -, h⟩ := lift_ok h
        cases w with
        | none =>
          cases h
          exact ⟨touch_appends _ _ _, fun j => by simp⟩
        | some v =>
          obtain ⟨inner', hp, h⟩ := lift_ok h
          cases h
          exact ⟨((touch_appends _ _ _).trans (poke_appends hp)).of_eq (by simp), fun j => by simp⟩
      | replace v =>
        dsimp only at h ⊢
        obtain ⟨old, -, h⟩ := lift_ok h
        obtain ⟨inner, hp, h⟩ := lift_ok h
        cases h
        exact ⟨((touch_appends _ _ _).modEv_one.trans (poke_appends hp)).of_eq (by simp),
          fun j => by simp [replay]⟩
      | remove =>
        dsimp only at h ⊢
        obtain ⟨r1, h1, h⟩ := lift_ok h
        have he := removeId_eff h1
        simp only [xRemoveId, if_pos hm] at he
        cases hval : r1.val with
        | none => rw [hval] at h; simp at h
        | some v => rw [hval] at h; cases h; exact he
    · rename_i hm
      rw [if_neg hm]
      cases op with
      | orInsert v derefs w =>
        dsimp only at h ⊢
        obtain ⟨r1, h1, h⟩ := lift_ok h
        have he := notPresentInsert_eff h1
        cases w with
        | none =>
          cases h
          have ht : Eff r1.st { r1.st with inner := r1.st.inner.touch e.id derefs }
              (modEv (wrap r1.st.inner) e.id derefs) :=
            ⟨touch_appends _ _ _, fun j => by simp⟩
          rw [he.app.wrap_eq] at ht
          exact he.trans ht
        | some v' =>
          obtain ⟨inner', hp, h⟩ := lift_ok h
          cases h
          have ht : Eff r1.st { r1.st with inner := inner' }
              (modEv (wrap r1.st.inner) e.id derefs) :=
            ⟨((touch_appends _ _ _).trans (poke_appends hp)).of_eq (by simp), fun j => by simp⟩
          rw [he.app.wrap_eq] at ht
          exact he.trans ht
      | replace v =>
        dsimp only at h ⊢
        obtain ⟨r1, h1, h⟩ := lift_ok h
        have he := notPresentInsert_eff h1
        cases h
        have ht : Eff r1.st { r1.st with inner := r1.st.inner.touch e.id 0 }
            (modEv (wrap r1.st.inner) e.id 0) :=
          ⟨touch_appends _ _ _, fun j => by simp⟩
        rw [he.app.wrap_eq] at ht
        exact he.trans ht
      | remove =>
        dsimp only at h ⊢
        cases h
        exact Eff.refl m
  · rename_i ha
    rw [if_neg ha]
    cases h
    exact Eff.refl m

theorem getMutOrDefault_eff {derefs : Nat} {w : Option Int} {r : SRes (Option Int)}
    (h : m.getMutOrDefault a e derefs w = .ok r) : Eff m r.st (xGetMutOrDefault m a e derefs) := by
  unfold Masked.getMutOrDefault at h
  unfold xGetMutOrDefault
  by_cases ha : a.isAlive e = true
  · rw [if_pos ha]
    by_cases hm : m.mask.mem e.id = true
    · rw [if_pos hm]
      have hc : m.contains a e = true := by simp [Masked.contains, ha, hm]
      simp only [hc, Bool.not_true, Bool.false_eq_true, if_false] at h
      have := getMut_eff h
      simpa [xGetMut, ha, hm] using this
    · rw [if_neg hm]
      have hc : m.contains a e = false := by simp [Masked.contains, hm]
      simp only [hc, Bool.not_false, if_true] at h
      obtain ⟨r1, h1, h⟩ := lift_ok h
      have he := insert_eff h1
      simp only [xInsert, if_pos ha, if_neg hm] at he
      have hv : r1.val ≠ .wrongGen := by
        unfold Masked.insert at h1
        simp only [ha, if_true, if_neg hm] at h1
        obtain ⟨r0, -, h1⟩ := lift_ok h1
        cases h1; simp
      have hbit : r1.st.mask.mem e.id = true := by rw [he.mask]; simp [replay]
      cases hval : r1.val with
      | wrongGen => exact absurd hval hv
      | inserted =>
        rw [hval] at h
        obtain ⟨r2, h2, h⟩ := lift_ok h
        cases h
        have h2e := getMut_eff h2
        simp only [xGetMut, hbit, ha, Bool.and_self, if_true, he.app.wrap_eq] at h2e
        exact he.trans h2e
      | replaced old =>
        rw [hval] at h
        obtain ⟨r2, h2, h⟩ := lift_ok h
        cases h
        have h2e := getMut_eff h2
        simp only [xGetMut, hbit, ha, Bool.and_self, if_true, he.app.wrap_eq] at h2e
        exact he.trans h2e
  · rw [if_neg ha]
    have hc : m.contains a e = false := by simp [Masked.contains, ha]
    simp only [hc, Bool.not_false, if_true] at h
    obtain ⟨r1, h1, h⟩ := lift_ok h
    have he := insert_eff h1
    simp only [xInsert, if_neg ha] at he
    unfold Masked.insert at h1
    simp only [if_neg ha] at h1
    cases h1
    cases h
    exact he

end masked


/-- The table in the `Option (Array CEv)` form of `UStore.events`: a tracked storage's channel
    after the call is the old channel followed by exactly the gated expected events. -/
theorem Eff.events_some {m m' : Masked} {X : List CEv} (h : Eff m m' X) {ev : Array CEv}
    (hev : m.inner.events = some ev) :
    m'.inner.events = some (ev ++ (gate m.inner X).toArray) := h.app.events_some hev

theorem Eff.events_none {m m' : Masked} {X : List CEv} (h : Eff m m' X)
    (hev : m.inner.events = none) : m'.inner.events = none := h.app.events_none hev

/-! ## Counting: exactly one `Inserted` per index that gains a component, exactly one `Removed`
    per index that loses one -/

/-- `X` reports membership changes faithfully w.r.t. the membership `mem` it starts from. -/
def Faithful (mem : Nat → Bool) (X : List CEv) : Prop :=
  ∀ i, X.count (.inserted i) = (if mem i = false ∧ replay X mem i = true then 1 else 0) ∧
       X.count (.removed i) = (if mem i = true ∧ replay X mem i = false then 1 else 0)

theorem count_modEv (w : Wrap) (i d j : Nat) :
    (modEv w i d).count (.inserted j) = 0 ∧ (modEv w i d).count (.removed j) = 0 := by
  cases w <;> simp [modEv, List.count_replicate]

theorem faithful_nil (mem : Nat → Bool) : Faithful mem [] := by
  intro i; cases h : mem i <;> simp [replay, h]

theorem faithful_modEv (mem : Nat → Bool) (w : Wrap) (i d : Nat) : Faithful mem (modEv w i d) := by
  intro j
  rw [replay_modEv, (count_modEv w i d j).1, (count_modEv w i d j).2]
  cases h : mem j <;> simp

theorem faithful_modified (mem : Nat → Bool) (i : Nat) : Faithful mem [.modified i] :=
  faithful_modEv mem .flagged i 0

theorem faithful_ins_modEv (mem : Nat → Bool) (w : Wrap) (i d : Nat) (h : mem i = false) :
    Faithful mem (.inserted i :: modEv w i d) := by
  intro j
  simp only [replay, replay_modEv, List.count_cons, (count_modEv w i d j).1, (count_modEv w i d j).2]
  by_cases hj : j = i
  · subst hj; simp [h]
  · have : ¬ i = j := fun e => hj e.symm
    cases hm : mem j <;> simp [hj, this]

theorem faithful_ins (mem : Nat → Bool) (i : Nat) (h : mem i = false) :
    Faithful mem [.inserted i] := faithful_ins_modEv mem .none i 0 h

theorem count_map_removed (l : List Nat) (j : Nat) :
    (l.map CEv.removed).count (.inserted j) = 0 ∧
    (l.map CEv.removed).count (.removed j) = l.count j := by
  induction l with
  | nil => simp
  | cons i l ih =>
    simp only [List.map_cons, List.count_cons, ih]
    by_cases h : i = j <;> simp [h]

theorem count_of_nodup {l : List Nat} (h : l.Nodup) (j : Nat) :
    l.count j = if j ∈ l then 1 else 0 := by
  induction l with
  | nil => simp
  | cons i l ih =>
    rw [List.nodup_cons] at h
    rw [List.count_cons, ih h.2]
    by_cases hj : i = j
    · subst hj; simp [h.1]
    · have : ¬ j = i := fun e => hj e.symm
      simp [hj, this]

theorem faithful_removed_list (mem : Nat → Bool) (l : List Nat) (hn : l.Nodup)
    (hm : ∀ i ∈ l, mem i = true) : Faithful mem (l.map .removed) := by
  intro j
  rw [replay_map_removed, (count_map_removed l j).1, (count_map_removed l j).2, count_of_nodup hn]
  by_cases hj : j ∈ l
  · simp [hj, hm j hj]
  · cases h : mem j <;> simp [hj]

theorem faithful_removed (mem : Nat → Bool) (i : Nat) (h : mem i = true) :
    Faithful mem [.removed i] :=
  faithful_removed_list mem [i] (by simp) (by simpa using h)

/-- Entity deletion, closed form: the removed indices form a duplicate-free list of members, taken
    from the batch. -/
theorem xDropAll_eq_map (mask : BSet) (es : List Entity) :
    ∃ l : List Nat, xDropAll mask es = l.map .removed ∧ l.Nodup ∧
      (∀ i ∈ l, mask.mem i = true) ∧ (∀ i ∈ l, i ∈ es.map (·.id)) := by
  induction es generalizing mask with
  | nil => exact ⟨[], rfl, List.nodup_nil, by simp, by simp⟩
  | cons e es ih =>
    simp only [xDropAll]
    by_cases hm : mask.mem e.id = true
    · rw [if_pos hm]
      obtain ⟨l, hl, hn, hmem, hsub⟩ := ih (mask.remove e.id)
      have hne : ∀ i ∈ l, i ≠ e.id ∧ mask.mem i = true := by
        intro i hi
        have := hmem i hi
        rw [BSet.mem_remove] at this
        by_cases hie : i = e.id
        · simp [hie] at this
        · simpa [hie] using this
      refine ⟨e.id :: l, by simp [hl], List.nodup_cons.2 ⟨fun hi => (hne _ hi).1 rfl, hn⟩, ?_, ?_⟩
      · intro i hi
        rcases List.mem_cons.1 hi with rfl | hi
        · exact hm
        · exact (hne i hi).2
      · intro i hi
        rcases List.mem_cons.1 hi with rfl | hi
        · simp
        · exact List.mem_cons_of_mem _ (hsub i hi)
    · rw [if_neg hm]
      obtain ⟨l, hl, hn, hmem, hsub⟩ := ih mask
      exact ⟨l, hl, hn, hmem, fun i hi => List.mem_cons_of_mem _ (hsub i hi)⟩

/-- Entity deletion with distinct indices in the batch: one `Removed e.id` for each entity of the
    batch whose bit was set, in batch order. -/
theorem xDropAll_nodup (mask : BSet) (es : List Entity) (hn : (es.map (·.id)).Nodup) :
    xDropAll mask es = (es.filter (fun e => mask.mem e.id)).map (fun e => .removed e.id) := by
  induction es generalizing mask with
  | nil => rfl
  | cons e es ih =>
    rw [List.map_cons, List.nodup_cons] at hn
    simp only [xDropAll, List.filter_cons]
    by_cases hm : mask.mem e.id = true
    · rw [if_pos hm, if_pos hm, ih _ hn.2, List.map_cons]
      congr 2
      apply List.filter_congr
      intro e' he'
      rw [BSet.mem_remove]
      have : e'.id ≠ e.id := fun h => hn.1 (h ▸ List.mem_map_of_mem he')
      simp [this]
    · rw [if_neg hm, if_neg hm, ih _ hn.2]

theorem faithful_xDropAll (mask : BSet) (es : List Entity) :
    Faithful (fun j => mask.mem j) (xDropAll mask es) := by
  obtain ⟨l, hl, hn, hmem, -⟩ := xDropAll_eq_map mask es
  rw [hl]
  exact faithful_removed_list _ l hn hmem

/-! ## Sequences of operations, emission toggled at arbitrary points -/

/-- Storage-API operations (every op other than the bulk `clear`). Each carries the allocator
    state it is executed against, so the entity population may change arbitrarily between ops. -/
inductive SOp where
  | insert (a : Alloc) (e : Entity) (v : Int)
  | getMut (a : Alloc) (e : Entity) (derefs : Nat) (write : Option Int)
  | remove (a : Alloc) (e : Entity)
  | entry (a : Alloc) (e : Entity) (op : Masked.EntryOp)
  | getMutOrDefault (a : Alloc) (e : Entity) (derefs : Nat) (write : Option Int)
  | drain (n : Nat)
  | dropAll (es : List Entity)          -- entity deletion taking effect (`AnyStorage::drop`)
  | get (a : Alloc) (e : Entity)
  | contains (a : Alloc) (e : Entity)
  | getOther (a : Alloc) (e : Entity)
  | setEmit (b : Bool)                  -- `set_event_emission`

def SOp.isSetEmit : SOp → Bool
  | .setEmit _ => true
  | _ => false

/-- One op on a `Masked`; the new storage state, or the panic / UB outcome. -/
def stepS (m : Masked) : SOp → Out Masked
  | .insert a e v => (m.insert a e v).map (·.st)
  | .getMut a e d w => (m.getMut a e d w).map (·.st)
  | .remove a e => (m.remove a e).map (·.st)
  | .entry a e op => (m.entry a e op).map (·.st)
  | .getMutOrDefault a e d w => (m.getMutOrDefault a e d w).map (·.st)
  | .drain n => (m.drain n).map (·.st)
  | .dropAll es => (m.dropAll es []).map (·.st)
  | .get a e => (m.get a e).map (fun _ => m)
  | .contains _ _ => .ok m
  | .getOther a e => (m.getOther a e).map (fun _ => m)
  | .setEmit b => .ok { m with inner := m.inner.setEmit b }

/-- Expected events of one op (ungated): the rows of DESIGN Appendix C. -/
def opX (m : Masked) : SOp → List CEv
  | .insert a e _ => xInsert m a e
  | .getMut a e d _ => xGetMut m a e d
  | .remove a e => xRemove m a e
  | .entry a e op => xEntry m a e op
  | .getMutOrDefault a e d _ => xGetMutOrDefault m a e d
  | .drain n => xDrain m n
  | .dropAll es => xDropAll m.mask es
  | _ => []

/-- Expected events of one op with the emission flag read from the state it is executed in. -/
def opE (m : Masked) (op : SOp) : List CEv := gate m.inner (opX m op)

/-- Run until the first non-ok result. -/
def run : Masked → List SOp → Out Masked
  | m, [] => .ok m
  | m, op :: ops =>
    match stepS m op with
    | .ok m' => run m' ops
    | .panic w => .panic w
    | .ub w => .ub w

/-- Concatenation of the ungated expected events along the run. -/
def runX : Masked → List SOp → List CEv
  | _, [] => []
  | m, op :: ops =>
    opX m op ++ (match stepS m op with
      | .ok m' => runX m' ops
      | _ => [])

/-- Concatenation of the per-op expected events, each gated by the emission flag of the state at
    that moment. -/
def runE : Masked → List SOp → List CEv
  | _, [] => []
  | m, op :: ops =>
    opE m op ++ (match stepS m op with
      | .ok m' => runE m' ops
      | _ => [])

theorem map_ok {α β : Type} {o : Out α} {f : α → β} {y : β} (h : o.map f = .ok y) :
    ∃ x, o = .ok x ∧ f x = y := by
  cases o with
  | ok x => simp only [Out.map, Out.ok.injEq] at h; exact ⟨x, rfl, h⟩
  | panic w => simp [Out.map] at h
  | ub w => simp [Out.map] at h

/-- Every op other than `setEmit` has the `Eff` shape with `X = opX m op`. -/
theorem stepS_eff {m m' : Masked} {op : SOp} (hne : op.isSetEmit = false)
    (h : stepS m op = .ok m') : Eff m m' (opX m op) := by
  cases op with
  | insert a e v => obtain ⟨r, hr, rfl⟩ := map_ok h; exact insert_eff hr
  | getMut a e d w => obtain ⟨r, hr, rfl⟩ := map_ok h; exact getMut_eff hr
  | remove a e => obtain ⟨r, hr, rfl⟩ := map_ok h; exact remove_eff hr
  | entry a e op => obtain ⟨r, hr, rfl⟩ := map_ok h; exact entry_eff hr
  | getMutOrDefault a e d w => obtain ⟨r, hr, rfl⟩ := map_ok h; exact getMutOrDefault_eff hr
  | drain n => obtain ⟨r, hr, rfl⟩ := map_ok h; exact drain_eff hr
  | dropAll es => obtain ⟨r, hr, rfl⟩ := map_ok h; exact dropAll_eff hr
  | get a e => obtain ⟨r, hr, rfl⟩ := map_ok h; exact Eff.refl _
  | contains a e => simp only [stepS, Out.ok.injEq] at h; subst h; exact Eff.refl _
  | getOther a e => obtain ⟨r, hr, rfl⟩ := map_ok h; exact Eff.refl _
  | setEmit b => simp [SOp.isSetEmit] at hne

/-- `setEmit` changes the flag only. -/
theorem stepS_setEmit (m : Masked) (b : Bool) :
    ∃ m', stepS m (.setEmit b) = .ok m' ∧ evl m'.inner = evl m.inner ∧ m'.mask = m.mask ∧
      wrap m'.inner = wrap m.inner ∧
      emitOn m'.inner = (if wrap m.inner = .none then false else b) :=
  ⟨_, rfl, (setEmit_spec _ _).1, rfl, (setEmit_spec _ _).2.1, (setEmit_spec _ _).2.2⟩

/-- Channel and mask after any single op, including `setEmit`. -/
theorem stepS_spec {m m' : Masked} {op : SOp} (h : stepS m op = .ok m') :
    evl m'.inner = evl m.inner ++ opE m op ∧
    (∀ j, m'.mask.mem j = replay (opX m op) (fun j => m.mask.mem j) j) ∧
    wrap m'.inner = wrap m.inner := by
  cases hs : op.isSetEmit with
  | false =>
    have he := stepS_eff hs h
    exact ⟨he.app.evl_eq, he.mask, he.app.wrap_eq⟩
  | true =>
    cases op <;> simp [SOp.isSetEmit] at hs
    rename_i b
    obtain ⟨m'', h1, h2, h3, h4, -⟩ := stepS_setEmit m b
    rw [h1] at h; cases h
    exact ⟨by simp [h2, opE, opX], fun j => by simp [h3, opX, replay], h4⟩

theorem stepS_emit {m m' : Masked} {op : SOp} (hne : op.isSetEmit = false)
    (h : stepS m op = .ok m') : emitOn m'.inner = emitOn m.inner :=
  (stepS_eff hne h).app.emit_eq

theorem run_cons_ok {m m' : Masked} {op : SOp} {ops : List SOp} (h : run m (op :: ops) = .ok m') :
    ∃ m₁, stepS m op = .ok m₁ ∧ run m₁ ops = .ok m' := by
  simp only [run] at h
  cases hs : stepS m op with
  | ok m₁ => rw [hs] at h; exact ⟨m₁, rfl, h⟩
  | panic w => rw [hs] at h; cases h
  | ub w => rw [hs] at h; cases h

/-- The events appended over a whole run are exactly the concatenation of the per-op expected
    events, each gated by the emission flag at that moment (emission toggled arbitrarily). -/
theorem run_events {m m' : Masked} {ops : List SOp} (h : run m ops = .ok m') :
    evl m'.inner = evl m.inner ++ runE m ops ∧ wrap m'.inner = wrap m.inner := by
  induction ops generalizing m with
  | nil => simp only [run, Out.ok.injEq] at h; subst h; simp [runE]
  | cons op ops ih =>
    obtain ⟨m₁, h1, h2⟩ := run_cons_ok h
    obtain ⟨e1, -, w1⟩ := stepS_spec h1
    obtain ⟨e2, w2⟩ := ih h2
    simp only [runE, h1]
    exact ⟨by rw [e2, e1, List.append_assoc], w2.trans w1⟩

/-- The final mask is the replay of the (ungated) expected events over the initial mask. -/
theorem run_mask {m m' : Masked} {ops : List SOp} (h : run m ops = .ok m') :
    ∀ j, m'.mask.mem j = replay (runX m ops) (fun j => m.mask.mem j) j := by
  induction ops generalizing m with
  | nil => simp only [run, Out.ok.injEq] at h; subst h; intro j; rfl
  | cons op ops ih =>
    obtain ⟨m₁, h1, h2⟩ := run_cons_ok h
    obtain ⟨-, k1, -⟩ := stepS_spec h1
    intro j
    simp only [runX, h1]
    rw [ih h2 j, replay_append]
    have : (fun j => m₁.mask.mem j) = replay (opX m op) (fun j => m.mask.mem j) := funext k1
    rw [this]

/-- With emission on and never switched, gated and ungated expectations coincide. -/
theorem runE_eq_runX {m : Masked} {ops : List SOp} (hon : emitOn m.inner = true)
    (hno : ∀ op ∈ ops, op.isSetEmit = false) : runE m ops = runX m ops := by
  induction ops generalizing m with
  | nil => rfl
  | cons op ops ih =>
    simp only [runE, runX, opE, gate_on hon]
    cases hs : stepS m op with
    | ok m₁ =>
      have := stepS_emit (hno op (List.mem_cons_self ..)) hs
      simp only
      rw [ih (this.trans hon) (fun o ho => hno o (List.mem_cons_of_mem _ ho))]
    | panic w => rfl
    | ub w => rfl

/-- With emission off and never switched, nothing is appended. -/
theorem runE_off {m : Masked} {ops : List SOp} (hoff : emitOn m.inner = false)
    (hno : ∀ op ∈ ops, op.isSetEmit = false) : runE m ops = [] := by
  induction ops generalizing m with
  | nil => rfl
  | cons op ops ih =>
    simp only [runE, opE, gate_off hoff, List.nil_append]
    cases hs : stepS m op with
    | ok m₁ =>
      have := stepS_emit (hno op (List.mem_cons_self ..)) hs
      simp only
      exact ih (this.trans hoff) (fun o ho => hno o (List.mem_cons_of_mem _ ho))
    | panic w => rfl
    | ub w => rfl

/-- Every op's expected events are faithful to the membership change it makes. -/
theorem opX_faithful (m : Masked) (op : SOp) : Faithful (fun j => m.mask.mem j) (opX m op) := by
  cases op with
  | insert a e v =>
    simp only [opX, xInsert]
    split
    · split
      · exact faithful_modified _ _
      · rename_i h; exact faithful_ins _ _ (by simpa using h)
    · exact faithful_nil _
  | getMut a e d w =>
    simp only [opX, xGetMut]
    split
    · exact faithful_modEv _ _ _ _
    · exact faithful_nil _
  | remove a e =>
    simp only [opX, xRemove, xRemoveId]
    split
    · split
      · rename_i h; exact faithful_removed _ _ h
      · exact faithful_nil _
    · exact faithful_nil _
  | entry a e eop =>
    simp only [opX, xEntry]
    split
    · split
      · rename_i h
        cases eop with
        | orInsert v d w => exact faithful_modEv _ _ _ _
        | replace v => exact faithful_modified _ _
        | remove => exact faithful_removed _ _ h
      · rename_i h
        cases eop with
        | orInsert v d w => exact faithful_ins_modEv _ _ _ _ (by simpa using h)
        | replace v => exact faithful_ins_modEv _ _ _ _ (by simpa using h)
        | remove => exact faithful_nil _
    · exact faithful_nil _
  | getMutOrDefault a e d w =>
    simp only [opX, xGetMutOrDefault]
    split
    · split
      · exact faithful_modEv _ _ _ _
      · rename_i h; exact faithful_ins_modEv _ _ _ _ (by simpa using h)
    · exact faithful_nil _
  | drain n =>
    simp only [opX, xDrain]
    exact faithful_removed_list _ _ ((BSet.toList_nodup _).sublist (List.take_sublist _ _))
      (fun i hi => (BSet.mem_toList _ _).1 (List.mem_of_mem_take hi))
  | dropAll es => exact faithful_xDropAll _ _
  | get a e => exact faithful_nil _
  | contains a e => exact faithful_nil _
  | getOther a e => exact faithful_nil _
  | setEmit b => exact faithful_nil _

/-! ### Modification events = mutable accesses -/

def isMod : CEv → Bool
  | .modified _ => true
  | _ => false

/-- The mutable access an op performs, as `(index, number of mutable dereferences)`; an overwrite
    through `access_mut` (overwriting `insert`, `entry.replace` on an occupied slot) counts as one
    dereference, the discarded `get_mut` of a vacant `entry.replace` as zero. `none`: the op hands
    out no mutable access (reads, removals, refused or absent targets). -/
def access (m : Masked) : SOp → Option (Nat × Nat)
  | .getMut a e d _ => if m.mask.mem e.id && a.isAlive e then some (e.id, d) else none
  | .insert a e _ => if m.mask.mem e.id && a.isAlive e then some (e.id, 1) else none
  | .entry a e (.orInsert _ d _) => if a.isAlive e then some (e.id, d) else none
  | .entry a e (.replace _) => if a.isAlive e then some (e.id, if m.mask.mem e.id then 1 else 0) else none
  | .getMutOrDefault a e d _ => if a.isAlive e then some (e.id, d) else none
  | _ => none

theorem filter_isMod_modEv (w : Wrap) (i d : Nat) : (modEv w i d).filter isMod = modEv w i d := by
  cases w <;> simp [modEv, isMod, List.filter_replicate]

theorem filter_isMod_map_removed (l : List Nat) : (l.map CEv.removed).filter isMod = [] := by
  induction l with
  | nil => rfl
  | cons i l ih => simp [isMod, ih]

/-- On a tracked storage the `Modified` events of an op are exactly those of its mutable access:
    one at the call for `flagged`, one per mutable dereference for `derefFlagged`. -/
theorem opX_modified (m : Masked) (op : SOp) (ht : wrap m.inner ≠ .none) :
    (opX m op).filter isMod =
      match access m op with
      | some (i, d) => modEv (wrap m.inner) i d
      | none => [] := by
  have one : ∀ i, [CEv.modified i] = modEv (wrap m.inner) i 1 := by
    intro i; cases hw : wrap m.inner <;> simp_all [modEv]
  cases op with
  | insert a e v =>
    simp only [opX, xInsert, access]
    by_cases ha : a.isAlive e = true <;> by_cases hm : m.mask.mem e.id = true <;>
      simp [ha, hm, isMod, ← one]
  | getMut a e d w =>
    simp only [opX, xGetMut, access]
    split <;> simp [filter_isMod_modEv]
  | remove a e =>
    simp only [opX, xRemove, xRemoveId, access]
    split <;> (try split) <;> simp [isMod]
  | entry a e eop =>
    simp only [opX, xEntry]
    by_cases ha : a.isAlive e = true <;> by_cases hm : m.mask.mem e.id = true <;>
      cases eop <;> simp [access, ha, hm, isMod, filter_isMod_modEv, ← one]
  | getMutOrDefault a e d w =>
    simp only [opX, xGetMutOrDefault, access]
    by_cases ha : a.isAlive e = true <;> by_cases hm : m.mask.mem e.id = true <;>
      simp [ha, hm, isMod, filter_isMod_modEv]
  | drain n => simp only [opX, xDrain, access]; exact filter_isMod_map_removed _
  | dropAll es =>
    simp only [opX, access]
    obtain ⟨l, hl, -⟩ := xDropAll_eq_map m.mask es
    rw [hl]; exact filter_isMod_map_removed _
  | get a e => rfl
  | contains a e => rfl
  | getOther a e => rfl
  | setEmit b => rfl


/-! ## World level: the reader cursor, storage ops and entity deletion -/

theorem store?_lt {w : World} {k : Nat} {m : Masked} (h : w.store? k = some m) :
    k < w.stores.size := by
  by_cases hlt : k < w.stores.size
  · exact hlt
  · simp [World.store?, Array.getElem?_eq_none (Nat.le_of_not_lt hlt)] at h

theorem store?_setStore (w : World) (k k' : Nat) (m : Masked) (hk : k < w.stores.size) :
    (w.setStore k m).store? k' = if k' = k then some m else w.store? k' := by
  simp only [World.store?, World.setStore]
  by_cases h : k' = k
  · subst h; simp [hk]
  · simp [h, Ne.symm h]

/-- `World.step … (.events k)` on a tracked storage: returns the channel content from the reader's
    cursor on, and moves the cursor to the end of the channel. Nothing else changes. -/
theorem step_events {fuel : Nat} {w : World} {k : Nat} {m : Masked} {ev : Array CEv}
    (hm : w.store? k = some m) (hev : m.inner.events = some ev) :
    World.step fuel w (.events k) =
      ({ w with cursors := w.cursors.setIfInBounds k ev.size },
       .events (ev.toList.drop ((w.cursors[k]?).getD 0))) := by
  simp only [World.step, hm, hev]

/-- Untracked storages have no channel: the read returns nothing and changes nothing. -/
theorem step_events_untracked {fuel : Nat} {w : World} {k : Nat} {m : Masked}
    (hm : w.store? k = some m) (hev : m.inner.events = none) :
    World.step fuel w (.events k) = (w, .events []) := by
  simp only [World.step, hm, hev]

/-- A read with an up-to-date view: if the reader's cursor stands at the end of the channel as it
    was (`old`), the read returns exactly what has been appended since (`new`) and leaves the cursor
    at the new end. -/
theorem step_events_from_cursor {fuel : Nat} {w : World} {k : Nat} {m : Masked} {old new : List CEv}
    (hm : w.store? k = some m) (ht : wrap m.inner ≠ .none)
    (hcur : w.cursors[k]? = some old.length) (hev : evl m.inner = old ++ new) :
    (World.step fuel w (.events k)).2 = .events new ∧
    (World.step fuel w (.events k)).1.cursors[k]? = some (old ++ new).length ∧
    (∀ k', (World.step fuel w (.events k)).1.store? k' = w.store? k') := by
  have hlt : k < w.cursors.size := by
    by_cases hlt : k < w.cursors.size
    · exact hlt
    · simp [Array.getElem?_eq_none (Nat.le_of_not_lt hlt)] at hcur
  rw [step_events hm (events_eq_some_evl ht)]
  refine ⟨?_, ?_, fun _ => rfl⟩
  · simp [hcur, hev]
  · simp [hlt, hev]

/-- The storage-level operation a world op performs, with the storage kind it addresses. -/
def wopS (w : World) : WOp → Option (Nat × SOp)
  | .getMut k h d wr => (resolve w.ent.log h).map (fun e => (k, .getMut w.ent.alloc e d wr))
  | .ins k h v => (resolve w.ent.log h).map (fun e => (k, .insert w.ent.alloc e v))
  | .rem k h => (resolve w.ent.log h).map (fun e => (k, .remove w.ent.alloc e))
  | .entry k h op => (resolve w.ent.log h).map (fun e => (k, .entry w.ent.alloc e op))
  | .mutOrDefault k h d wr => (resolve w.ent.log h).map (fun e => (k, .getMutOrDefault w.ent.alloc e d wr))
  | .drain k n => some (k, .drain n)
  | .get k h => (resolve w.ent.log h).map (fun e => (k, .get w.ent.alloc e))
  | .has k h => (resolve w.ent.log h).map (fun e => (k, .contains w.ent.alloc e))
  | .emit k b => some (k, .setEmit b)
  | _ => none

theorem applyS_ok {α : Type} (w : World) (k : Nat) (r : SRes α) (f : α → WRes) :
    (w.applyS k (.ok r) f).1 = (w.setStore k r.st).destroy r.destroyed := rfl

/-- A world-level storage op acts on its storage exactly as the storage-level op `wopS` names,
    touches no other storage and no reader cursor. -/
theorem step_wopS {fuel : Nat} {w : World} {wop : WOp} {k : Nat} {sop : SOp} {m m' : Masked}
    (hs : wopS w wop = some (k, sop)) (hm : w.store? k = some m) (hstep : stepS m sop = .ok m') :
    (∀ k', (World.step fuel w wop).1.store? k' = if k' = k then some m' else w.store? k') ∧
    (World.step fuel w wop).1.cursors = w.cursors := by
  have hk := store?_lt hm
  have hself : ∀ k', w.store? k' = if k' = k then some m else w.store? k' := by
    intro k'; by_cases h : k' = k <;> simp [h, hm]
  cases wop <;> simp only [wopS, Option.map_eq_some_iff, Prod.mk.injEq, Option.some.injEq,
    reduceCtorEq] at hs
  case getMut k0 h d wr =>
    obtain ⟨e, hr, rfl, rfl⟩ := hs
    obtain ⟨r, hr', rfl⟩ := map_ok hstep
    simp only [World.step, hm, hr, hr', applyS_ok]
    exact ⟨fun k' => store?_setStore w _ k' _ hk, rfl⟩
  case ins k0 h v =>
    obtain ⟨e, hr, rfl, rfl⟩ := hs
    obtain ⟨r, hr', rfl⟩ := map_ok hstep
    simp only [World.step, hm, hr, hr', applyS_ok]
    exact ⟨fun k' => store?_setStore w _ k' _ hk, rfl⟩
  case rem k0 h =>
    obtain ⟨e, hr, rfl, rfl⟩ := hs
    obtain ⟨r, hr', rfl⟩ := map_ok hstep
    simp only [World.step, hm, hr, hr', applyS_ok]
    exact ⟨fun k' => store?_setStore w _ k' _ hk, rfl⟩
  case entry k0 h op =>
    obtain ⟨e, hr, rfl, rfl⟩ := hs
    obtain ⟨r, hr', rfl⟩ := map_ok hstep
    simp only [World.step, hm, hr, hr', applyS_ok]
    exact ⟨fun k' => store?_setStore w _ k' _ hk, rfl⟩
  case mutOrDefault k0 h d wr =>
    obtain ⟨e, hr, rfl, rfl⟩ := hs
    obtain ⟨r, hr', rfl⟩ := map_ok hstep
    simp only [World.step, hm, hr, hr', applyS_ok]
    exact ⟨fun k' => store?_setStore w _ k' _ hk, rfl⟩
  case drain k0 n =>
    obtain ⟨rfl, rfl⟩ := hs
    obtain ⟨r, hr', rfl⟩ := map_ok hstep
    simp only [World.step, hm, hr', applyS_ok]
    exact ⟨fun k' => store?_setStore w _ k' _ hk, rfl⟩
  case get k0 h =>
    obtain ⟨e, hr, rfl, rfl⟩ := hs
    obtain ⟨r, hr', rfl⟩ := map_ok hstep
    simp only [World.step, hm, hr, hr']
    exact ⟨hself, trivial⟩
  case has k0 h =>
    obtain ⟨e, hr, rfl, rfl⟩ := hs
    simp only [stepS, Out.ok.injEq] at hstep; subst hstep
    simp only [World.step, hm, hr]
    exact ⟨hself, trivial⟩
  case emit k0 b =>
    obtain ⟨rfl, rfl⟩ := hs
    simp only [stepS, Out.ok.injEq] at hstep; subst hstep
    simp only [World.step, hm]
    exact ⟨fun k' => store?_setStore w _ k' _ hk, rfl⟩

/-- `dropAll` only clears bits, and clears the bit of every listed entity. -/
theorem dropAll_cleared {m : Masked} {es : List Entity} {acc : List Int} {r : SRes Unit}
    (h : m.dropAll es acc = .ok r) :
    (∀ e ∈ es, r.st.mask.mem e.id = false) ∧ (∀ j, r.st.mask.mem j = true → m.mask.mem j = true) := by
  induction es generalizing m acc with
  | nil => simp only [Masked.dropAll] at h; cases h; simp
  | cons e es ih =>
    simp only [Masked.dropAll] at h
    obtain ⟨r1, h1, h⟩ := lift_ok h
    obtain ⟨-, hset, hunset⟩ := dropId_eff h1
    obtain ⟨hc, hsub⟩ := ih h
    have h1bit : r1.st.mask.mem e.id = false ∧ ∀ j, r1.st.mask.mem j = true → m.mask.mem j = true := by
      cases hm : m.mask.mem e.id with
      | true =>
        rw [hset hm]
        refine ⟨by simp [BSet.mem_remove], fun j hj => ?_⟩
        rw [BSet.mem_remove] at hj
        by_cases hje : j = e.id <;> simp_all
      | false => rw [hunset hm]; exact ⟨hm, fun _ hj => hj⟩
    refine ⟨fun e' he' => ?_, fun j hj => h1bit.2 j (hsub j hj)⟩
    rcases List.mem_cons.1 he' with rfl | he'
    · cases hb : r.st.mask.mem e'.id with
      | false => rfl
      | true => have := hsub _ hb; rw [h1bit.1] at this; cases this
    · exact hc e' he'

theorem xDropAll_eq_nil (mask : BSet) (es : List Entity) (h : ∀ e ∈ es, mask.mem e.id = false) :
    xDropAll mask es = [] := by
  induction es with
  | nil => rfl
  | cons e es ih =>
    simp only [xDropAll, h e (List.mem_cons_self ..), Bool.false_eq_true, if_false]
    exact ih (fun e' he' => h e' (List.mem_cons_of_mem _ he'))

/-- `delete_components`: every registered storage named in the table gets exactly the removal
    events of the batch (one `Removed` per listed entity whose bit was set, in batch order), storages
    not in the table are untouched, reader cursors are untouched. -/
theorem deleteComponents_store {w w' : World} {es : List Entity} {ks : List Nat}
    (h : w.deleteComponents es ks = .ok w') (k : Nat) (m : Masked) (hm : w.store? k = some m) :
    ∃ m', w'.store? k = some m' ∧ Eff m m' (if k ∈ ks then xDropAll m.mask es else []) ∧
      w'.cursors = w.cursors := by
  induction ks generalizing w m with
  | nil =>
    simp only [World.deleteComponents, Out.ok.injEq] at h; subst h
    exact ⟨m, hm, by simpa using Eff.refl m, rfl⟩
  | cons k0 ks ih =>
    simp only [World.deleteComponents] at h
    cases h0 : w.store? k0 with
    | none =>
      rw [h0] at h
      have hne : k ≠ k0 := by intro e; rw [e, h0] at hm; cases hm
      obtain ⟨m', h1, h2, h3⟩ := ih h m hm
      exact ⟨m', h1, by simpa [hne] using h2, h3⟩
    | some m0 =>
      rw [h0] at h
      simp only at h
      cases hd : m0.dropAll es [] with
      | panic why => rw [hd] at h; cases h
      | ub why => rw [hd] at h; cases h
      | ok r =>
        rw [hd] at h
        simp only at h
        have hk0 := store?_lt h0
        have hst : ∀ k', ((w.setStore k0 r.st).destroy r.destroyed).store? k' =
            if k' = k0 then some r.st else w.store? k' := fun k' => store?_setStore w k0 k' r.st hk0
        by_cases hkk : k = k0
        · subst hkk
          rw [h0] at hm; cases hm
          obtain ⟨m', h1, h2, h3⟩ := ih h r.st (by rw [hst]; simp)
          have hnil : (if k ∈ ks then xDropAll r.st.mask es else []) = [] := by
            split
            · exact xDropAll_eq_nil _ _ (dropAll_cleared hd).1
            · rfl
          rw [hnil] at h2
          refine ⟨m', h1, ?_, h3⟩
          simpa using (dropAll_eff hd).trans h2
        · obtain ⟨m', h1, h2, h3⟩ := ih h m (by rw [hst]; simpa [hkk] using hm)
          exact ⟨m', h1, by simpa [hkk] using h2, h3⟩


/-! ## Result-keyed rows (Appendix C is keyed by what the call returned) -/

/-- Generic `Option (Array CEv)` form from the list form. -/
theorem events_of_evl {s s' : UStore} {ev : Array CEv} {L : List CEv} (hev : s.events = some ev)
    (hw : wrap s' = wrap s) (he : evl s' = evl s ++ L) : s'.events = some (ev ++ L.toArray) := by
  have hw0 : wrap s ≠ .none := by
    intro hn; rw [(events_none_iff s).2 hn] at hev; cases hev
  rw [events_eq_some_evl (by rw [hw]; exact hw0), he]
  have : evl s = ev.toList := by simp [evl, hev]
  rw [this]; simp

theorem getMut_val {m : Masked} {a : Alloc} {e : Entity} {d : Nat} {w : Option Int}
    {r : SRes (Option Int)} (h : m.getMut a e d w = .ok r) :
    r.val.isSome = (m.mask.mem e.id && a.isAlive e) := by
  unfold Masked.getMut at h
  split at h
  · rename_i hc
    obtain ⟨old, -, h⟩ := lift_ok h
    cases w with
    | none => cases h; simp [hc]
    | some v => obtain ⟨_, -, h⟩ := lift_ok h; cases h; simp [hc]
  · rename_i hc; cases h; simpa using hc

theorem remove_val {m : Masked} {a : Alloc} {e : Entity} {r : SRes (Option Int)}
    (h : m.remove a e = .ok r) : r.val.isSome = (a.isAlive e && m.mask.mem e.id) := by
  unfold Masked.remove at h
  split at h
  · rename_i ha; simp [(removeId_val h).1, ha]
  · rename_i ha; cases h; simp at ha; simp [ha]

theorem insert_val {m : Masked} {a : Alloc} {e : Entity} {v : Int} {r : SRes Masked.InsRes}
    (h : m.insert a e v = .ok r) :
    xInsert m a e = (match r.val with
      | .inserted => [.inserted e.id]
      | .replaced _ => [.modified e.id]
      | .wrongGen => []) := by
  unfold Masked.insert at h
  unfold xInsert
  split at h
  · rename_i ha
    split at h
    · rename_i hm
      obtain ⟨old, -, h⟩ := lift_ok h
      obtain ⟨inner, -, h⟩ := lift_ok h
      cases h; simp [ha, hm]
    · rename_i hm
      obtain ⟨r1, -, h⟩ := lift_ok h
      cases h; simp [ha, hm]
  · rename_i ha; cases h; simp [ha]

theorem entry_val {m : Masked} {a : Alloc} {e : Entity} {op : Masked.EntryOp}
    {r : SRes Masked.EntryRes} (h : m.entry a e op = .ok r) :
    (r.val = .wrongGen ↔ a.isAlive e = false) ∧
    ((∃ old, r.val = .occupied old) ↔ (a.isAlive e = true ∧ m.mask.mem e.id = true)) ∧
    (r.val = .vacant ↔ (a.isAlive e = true ∧ m.mask.mem e.id = false)) := by
  unfold Masked.entry at h
  split at h
  · rename_i ha
    dsimp only at h
    split at h
    · rename_i hm
      cases op with
      | orInsert v0 derefs w =>
        dsimp only at h
        obtain ⟨old, -, h⟩ := lift_ok h
        cases w with
        | none => cases h; simp [ha, hm]
        | some v => obtain ⟨_, -, h⟩ := lift_ok h; cases h; simp [ha, hm]
      | replace v =>
        dsimp only at h
        obtain ⟨old, -, h⟩ := lift_ok h
        obtain ⟨_, -, h⟩ := lift_ok h
        cases h; simp [ha, hm]
      | remove =>
        dsimp only at h
        obtain ⟨r1, h1, h⟩ := lift_ok h
        cases hval : r1.val with
        | none => rw [hval] at h; simp at h
        | some v => rw [hval] at h; cases h; simp [ha, hm]
    · rename_i hm
      cases op with
      | orInsert v derefs w =>
        dsimp only at h
        obtain ⟨r1, h1, h⟩ := lift_ok h
        cases w with
        | none => cases h; simp [ha, hm]
        | some v' => obtain ⟨_, -, h⟩ := lift_ok h; cases h; simp [ha, hm]
      | replace v =>
        dsimp only at h
        obtain ⟨r1, h1, h⟩ := lift_ok h
        cases h; simp [ha, hm]
      | remove => dsimp only at h; cases h; simp [ha, hm]
  · rename_i ha; cases h; simp [ha]

end SpecsModel.Ev
