/-
  Refinement: the allocator model, driven through its public functions, is accepted step by
  step by the abstract entity specification `EntSpec` (Spec/EntSpec.lean).
-/
import SpecsModel.Lemmas.AllocInv
import SpecsModel.Spec.EntSpec
namespace SpecsModel
open Alloc

/-- The coupling relation between the allocator model and the abstract specification;
    `p` = indices killed by a running `kill` loop and not yet in the free list. -/
structure R (a : Alloc) (s : EntSpec) (p : List Nat) : Prop where
  inv : InvP a p
  seenOk : ∀ h, h ∈ s.seen → Valid a h
  liveIff : ∀ h, h ∈ s.live ↔ (h ∈ s.seen ∧ a.isAlive h = true)
  complete : ∀ i, a.occ i = true → (⟨i, a.top i⟩ : Entity) ∈ s.seen
  pendIff : ∀ h, h ∈ s.pending ↔ (h ∈ s.live ∧ a.killed.mem h.id = true)
  liveNodup : s.live.Nodup
  pendNodup : s.pending.Nodup
  peakMax : a.maxId ≤ s.peak
  peakLen : s.live.length + p.length ≤ s.peak

theorem R_init : R Alloc.init EntSpec.init [] := by
  constructor <;> simp [EntSpec.init, Alloc.init, occ]
  exact inv_init

/-- In a related state the live handles are exactly the top handles of the occupied indices. -/
theorem R.live_of_occ {a s p} (h : R a s p) (i : Nat) (ho : a.occ i = true) :
    (⟨i, a.top i⟩ : Entity) ∈ s.live := by
  have hs := h.complete i ho
  have hv := h.seenOk _ hs
  exact (h.liveIff _).mpr ⟨hs, (isAlive_iff h.inv _ hv.pos hv.le hv.lt).mpr ⟨ho, rfl⟩⟩

theorem R.occ_of_live {a s p} (h : R a s p) (e : Entity) (he : e ∈ s.live) :
    a.occ e.id = true ∧ e.gen = a.top e.id := by
  obtain ⟨hs, hal⟩ := (h.liveIff e).mp he
  have hv := h.seenOk _ hs
  exact (isAlive_iff h.inv _ hv.pos hv.le hv.lt).mp hal

/-- Two live handles with the same index are equal (C01, second sentence). -/
theorem R.live_inj {a s p} (h : R a s p) (e₁ e₂ : Entity) (h₁ : e₁ ∈ s.live) (h₂ : e₂ ∈ s.live)
    (hid : e₁.id = e₂.id) : e₁ = e₂ := by
  have o₁ := h.occ_of_live e₁ h₁
  have o₂ := h.occ_of_live e₂ h₂
  cases e₁; cases e₂; simp_all

/-- When the free list is empty every index below `maxId` is occupied, so there are at least
    `maxId` live handles. -/
theorem R.maxId_le_live {a s} (h : R a s []) (hf : a.free = []) : a.maxId ≤ s.live.length := by
  have hsub : (List.range a.maxId).map (fun i => (⟨i, a.top i⟩ : Entity)) ⊆ s.live := by
    intro e he
    simp only [List.mem_map, List.mem_range] at he
    obtain ⟨i, hi, rfl⟩ := he
    apply h.live_of_occ
    have := h.inv.noLeak i hi
    simp only [hf, List.append_nil, List.not_mem_nil, or_false] at this
    simp only [occ, Bool.or_eq_true, decide_eq_true_eq]
    exact this
  have hnd : ((List.range a.maxId).map (fun i => (⟨i, a.top i⟩ : Entity))).Nodup := by
    apply List.Pairwise.map _ _ List.nodup_range
    intro x y hxy heq
    exact hxy (by simpa using congrArg Entity.id heq)
  have := List.Nodup.length_le_of_subset hnd hsub
  simpa using this


/-- Any creation: the new handle carries `top + 1` on an unoccupied index. -/
theorem created_refine {a a' : Alloc} {s : EntSpec} (h : R a s []) (hi' : Inv a')
    (id : Nat) (gen : Int)
    (hnocc : a.occ id = false) (hgen : gen = a.top id + 1) (htop0 : 0 ≤ a.top id)
    (hocc' : ∀ j, a'.occ j = if j = id then true else a.occ j)
    (htop' : ∀ j, a'.top j = if j = id then gen else a.top j)
    (hk : ∀ j, a'.killed.mem j = a.killed.mem j)
    (hcase : (a.free = [] ∧ id = a.maxId ∧ a'.maxId = a.maxId + 1) ∨
             (id < a.maxId ∧ a'.maxId = a.maxId)) :
    ∃ s', s.step (.created ⟨id, gen⟩) = .ok s' ∧ R a' s' [] := by
  have hnotseen : (⟨id, gen⟩ : Entity) ∉ s.seen := by
    intro hin; have := (h.seenOk _ hin).le; simp only at this; omega
  have hnotlive : id ∉ s.live.map (·.id) := by
    intro hin
    obtain ⟨e, he, rfl⟩ := List.mem_map.mp hin
    have := (h.occ_of_live e he).1
    simp [this] at hnocc
  have hidlt : id < max s.peak (s.live.length + 1) := by
    rcases hcase with ⟨hf, hid, _⟩ | ⟨hlt, _⟩
    · have := h.maxId_le_live hf; omega
    · have := h.peakMax; omega
  refine ⟨{ s with live := s.live ++ [⟨id, gen⟩], seen := ⟨id, gen⟩ :: s.seen,
                   peak := max s.peak (s.live.length + 1) }, ?_, ?_⟩
  · have h1 : ¬ (gen < 1) := by omega
    simp only [EntSpec.step, h1, if_false]
    simp [hnotseen, hnotlive, hidlt]
  · have hval : ∀ e, e ∈ s.seen → Valid a' e := by
      intro e he
      have hv := h.seenOk e he
      refine ⟨hv.pos, ?_, ?_⟩
      · rw [htop']; split
        · next heq => have := hv.le; rw [heq] at this; omega
        · exact hv.le
      · have := hv.lt; rcases hcase with ⟨_, _, hm⟩ | ⟨_, hm⟩ <;> omega
    have hvalnew : Valid a' ⟨id, gen⟩ := by
      refine ⟨by simp only; omega, by simp [htop'], ?_⟩
      rcases hcase with ⟨_, hid, hm⟩ | ⟨hlt, hm⟩ <;> simp only <;> omega
    have halive_new : a'.isAlive ⟨id, gen⟩ = true :=
      (isAlive_iff hi' _ hvalnew.pos hvalnew.le hvalnew.lt).mpr ⟨by simp [hocc'], by simp [htop']⟩
    have halive_old : ∀ e, e ∈ s.seen → (a'.isAlive e = true ↔ a.isAlive e = true) := by
      intro e he
      have hv := h.seenOk e he
      have hv' := hval e he
      rw [isAlive_iff hi' _ hv'.pos hv'.le hv'.lt, isAlive_iff h.inv _ hv.pos hv.le hv.lt,
        hocc', htop']
      by_cases heq : e.id = id
      · have := hv.le; rw [heq] at this
        simp [heq, hnocc]; omega
      · simp [heq]
    constructor
    · exact hi'
    · intro e he
      rcases List.mem_cons.mp he with rfl | he
      · exact hvalnew
      · exact hval e he
    · intro e
      simp only [List.mem_append, List.mem_cons, List.not_mem_nil, or_false]
      constructor
      · rintro (he | rfl)
        · have := (h.liveIff e).mp he
          exact ⟨Or.inr this.1, (halive_old e this.1).mpr this.2⟩
        · exact ⟨Or.inl rfl, halive_new⟩
      · rintro ⟨rfl | he, hal⟩
        · exact Or.inr rfl
        · exact Or.inl ((h.liveIff e).mpr ⟨he, (halive_old e he).mp hal⟩)
    · intro i hi
      rw [hocc'] at hi
      simp only [List.mem_cons]
      rw [htop']
      by_cases heq : i = id
      · left; simp [heq]
      · right; simp only [heq, if_false] at hi ⊢; exact h.complete i hi
    · intro e
      simp only [List.mem_append, List.mem_singleton, hk]
      rw [h.pendIff e]
      constructor
      · rintro ⟨h1, h2⟩; exact ⟨Or.inl h1, h2⟩
      · rintro ⟨h1 | rfl, h2⟩
        · exact ⟨h1, h2⟩
        · exfalso
          have := h.inv.killedOcc id h2
          simp only [occ, Bool.or_eq_false_iff, decide_eq_false_iff_not] at hnocc
          rcases this with h3 | h3
          · exact hnocc.1 h3
          · simp [h3] at hnocc
    · refine List.nodup_append.mpr ⟨h.liveNodup, by simp, ?_⟩
      intro x hx y hy; simp only [List.mem_singleton] at hy; subst hy
      intro hxy; subst hxy; exact hnotseen ((h.liveIff _).mp hx).1
    · exact h.pendNodup
    · simp only
      rcases hcase with ⟨hf, hid, hm⟩ | ⟨hlt, hm⟩
      · have := h.maxId_le_live hf; omega
      · have := h.peakMax; omega
    · simp; omega


theorem allocate_refine {a : Alloc} {s : EntSpec} (h : R a s []) :
    ∃ a' e s', a.allocate = .ok (a', e) ∧ s.step (.created e) = .ok s' ∧ R a' s' [] := by
  obtain ⟨a', id, he, hi', hnocc, hg, hgens, hr, hk, hcase⟩ := allocate_spec h.inv
  have hnr : a.raised.mem id = false := by
    simp only [occ, Bool.or_eq_false_iff] at hnocc; exact hnocc.2
  obtain ⟨s', hs, hR⟩ := created_refine h hi' id (1 - a.gens.get id) hnocc
    (by simp [top, hnr]; omega) (by simp [top, hnr]; omega)
    (by intro j; simp only [occ, hgens, hr]; split <;> simp_all; omega)
    (by
      intro j; simp only [top, hgens, hr]
      by_cases hj : j = id
      · subst hj; simp; omega
      · simp [hj])
    (by intro j; rw [hk])
    (by
      rcases hcase with ⟨h1, h2, h3, _⟩ | ⟨h1, h2⟩
      · exact Or.inl ⟨h1, h2, h3⟩
      · right; refine ⟨?_, h2⟩
        exact (h.inv.freeOk id (by rw [h1]; simp)).1)
  exact ⟨a', _, s', he, hs, hR⟩

theorem allocateAtomic_refine {a : Alloc} {s : EntSpec} (h : R a s []) :
    ∃ a' e s', a.allocateAtomic = .ok (a', e) ∧ s.step (.created e) = .ok s' ∧ R a' s' [] := by
  obtain ⟨a', id, he, hi', hnocc, hg, hgens, hr, hk, hcase⟩ := allocateAtomic_spec h.inv
  have hnr : a.raised.mem id = false := by
    simp only [occ, Bool.or_eq_false_iff] at hnocc; exact hnocc.2
  obtain ⟨s', hs, hR⟩ := created_refine h hi' id (1 - a.gens.get id) hnocc
    (by simp [top, hnr]; omega) (by simp [top, hnr]; omega)
    (by intro j; simp only [occ, hgens, hr]; split <;> simp_all)
    (by
      intro j; simp only [top, hgens, hr]
      by_cases hj : j = id
      · subst hj; have : ¬ (0 < a.gens.get j) := by omega
        simp [this]
      · simp [hj])
    (by intro j; rw [hk])
    (by
      rcases hcase with ⟨h1, h2, h3, _⟩ | ⟨h1, h2⟩
      · exact Or.inl ⟨h1, h2, h3⟩
      · right; refine ⟨?_, h2⟩
        exact (h.inv.freeOk id (by rw [h1]; simp)).1)
  exact ⟨a', _, s', he, hs, hR⟩


/-! ### Deletion -/

theorem valid_congr {a a' : Alloc} (ht : ∀ j, a'.top j = a.top j) (hm : a'.maxId = a.maxId)
    {e : Entity} (hv : Valid a e) : Valid a' e :=
  ⟨hv.pos, by rw [ht]; exact hv.le, by rw [hm]; exact hv.lt⟩

theorem isAlive_congr {a a' : Alloc} {p p' : List Nat} (hi : InvP a p) (hi' : InvP a' p')
    (ht : ∀ j, a'.top j = a.top j) (hm : a'.maxId = a.maxId) {e : Entity} (hv : Valid a e)
    (ho : a'.occ e.id = a.occ e.id) : a'.isAlive e = a.isAlive e := by
  have hv' := valid_congr ht hm hv
  have h1 := isAlive_iff hi e hv.pos hv.le hv.lt
  have h2 := isAlive_iff hi' e hv'.pos hv'.le hv'.lt
  rw [ho, ht] at h2
  cases hx : a.isAlive e <;> cases hy : a'.isAlive e <;> simp_all

/-- Changes of representation that keep occupancy, top generations, kill requests and `maxId`. -/
theorem R_transfer {a a' : Alloc} {s : EntSpec} {p p' : List Nat} (h : R a s p)
    (hi' : InvP a' p') (ho : ∀ j, a'.occ j = a.occ j) (ht : ∀ j, a'.top j = a.top j)
    (hk : ∀ j, a'.killed.mem j = a.killed.mem j) (hm : a'.maxId = a.maxId)
    (hp : p'.length ≤ p.length) : R a' s p' := by
  constructor
  · exact hi'
  · intro e he; exact valid_congr ht hm (h.seenOk e he)
  · intro e; rw [h.liveIff e]
    constructor
    · rintro ⟨h1, h2⟩; exact ⟨h1, by rw [isAlive_congr h.inv hi' ht hm (h.seenOk e h1) (ho _)]; exact h2⟩
    · rintro ⟨h1, h2⟩; exact ⟨h1, by rw [isAlive_congr h.inv hi' ht hm (h.seenOk e h1) (ho _)] at h2; exact h2⟩
  · intro i hi; rw [ho] at hi; rw [ht]; exact h.complete i hi
  · intro e; rw [h.pendIff e, hk]
  · exact h.liveNodup
  · exact h.pendNodup
  · rw [hm]; exact h.peakMax
  · have := h.peakLen; omega

theorem killAtomic_refine {a : Alloc} {s : EntSpec} {p : List Nat} (h : R a s p) (e : Entity)
    (he : e ∈ s.seen) :
    ∃ a' ok s', a.killAtomic e = .ok (a', ok) ∧ s.step (.killAtomic e ok) = .ok s' ∧ R a' s' p ∧
      ok = a.isAlive e ∧ s'.seen = s.seen := by
  have hv := h.seenOk e he
  rcases killAtomic_spec h.inv e hv with ⟨hd, hr⟩ | ⟨hal, a', hr, hi', hg, hra, hm, hf, hk⟩
  · refine ⟨a, false, s, hr, ?_, h, hd.symm, rfl⟩
    have : e ∉ s.live := fun hin => by have := ((h.liveIff e).mp hin).2; simp [hd] at this
    simp [EntSpec.step, this]
  · have hlive : e ∈ s.live := (h.liveIff e).mpr ⟨he, hal⟩
    have ho : ∀ j, a'.occ j = a.occ j := by intro j; simp [occ, hg, hra]
    have ht : ∀ j, a'.top j = a.top j := by intro j; simp [top, hg, hra]
    refine ⟨a', true, { s with pending := if s.pending.contains e then s.pending else e :: s.pending },
      hr, by simp [EntSpec.step, hlive], ?_, hal.symm, rfl⟩
    constructor
    · exact hi'
    · intro x hx; exact valid_congr ht hm (h.seenOk x hx)
    · intro x; rw [h.liveIff x]
      constructor
      · rintro ⟨h1, h2⟩; exact ⟨h1, by rw [isAlive_congr h.inv hi' ht hm (h.seenOk x h1) (ho _)]; exact h2⟩
      · rintro ⟨h1, h2⟩; exact ⟨h1, by rw [isAlive_congr h.inv hi' ht hm (h.seenOk x h1) (ho _)] at h2; exact h2⟩
    · intro i hi; rw [ho] at hi; rw [ht]; exact h.complete i hi
    · intro x
      simp only [hk]
      by_cases hc : s.pending.contains e = true
      · simp only [hc, if_true]
        rw [h.pendIff x]
        have hek := ((h.pendIff e).mp (by simpa using hc)).2
        by_cases hx : x.id = e.id
        · simp [hx, hek]
        · simp [hx]
      · have hc' : s.pending.contains e = false := by simpa using hc
        simp only [hc', Bool.false_eq_true, if_false, List.mem_cons]
        rw [h.pendIff x]
        by_cases hx : x.id = e.id
        · simp only [hx, if_true, and_true]
          constructor
          · rintro (rfl | h1)
            · exact hlive
            · exact h1.1
          · intro hxl; left; exact h.live_inj x e hxl hlive hx
        · simp only [hx, if_false]
          constructor
          · rintro (rfl | h1)
            · exact absurd rfl hx
            · exact h1
          · intro h1; exact Or.inr h1
    · exact h.liveNodup
    · simp only
      split
      · exact h.pendNodup
      · next hc => exact List.nodup_cons.mpr ⟨by simpa using hc, h.pendNodup⟩
    · rw [hm]; exact h.peakMax
    · exact h.peakLen


theorem killOne_refine {a : Alloc} {s : EntSpec} {p : List Nat} (h : R a s p) (e : Entity)
    (he : e ∈ s.seen) (hal : a.isAlive e = true) :
    ∃ a', a.killOne e = .ok a' ∧
      R a' { s with live := s.live.erase e, pending := s.pending.erase e } (p ++ [e.id]) := by
  have hv := h.seenOk e he
  obtain ⟨a', hr, e1, e2, e3, e4, e5, e6, e7, e8⟩ := killOne_spec h.inv e hv hal
  have hi' := killOne_inv h.inv e hv hal e1 e2 e3 e4 e5 e6 e7 e8
  have hlive : e ∈ s.live := (h.liveIff e).mpr ⟨he, hal⟩
  obtain ⟨hocc, htop⟩ := (isAlive_iff h.inv e hv.pos hv.le hv.lt).mp hal
  have hpos := hv.pos
  have ho : ∀ j, a'.occ j = if j = e.id then false else a.occ j := by
    intro j; simp only [occ, e1, e4, BSet.mem_remove]
    by_cases hj : j = e.id
    · subst hj; simp; omega
    · simp [hj]
  have ht : ∀ j, a'.top j = a.top j := by
    intro j; simp only [top, e1, e4, BSet.mem_remove]
    by_cases hj : j = e.id
    · subst hj
      have : ¬ (0 < -e.gen) := by omega
      simp only [if_true, this, if_false]
      simp only [top] at htop
      rw [← htop]; simp
    · simp [hj]
  have hk : ∀ j, a'.killed.mem j = if j = e.id then false else a.killed.mem j := by
    intro j; rw [e5, BSet.mem_remove]
  have halive' : ∀ x, x ∈ s.seen → (a'.isAlive x = true ↔ (x.id ≠ e.id ∧ a.isAlive x = true)) := by
    intro x hx
    have hvx := h.seenOk x hx
    have hvx' := valid_congr ht e8 hvx
    rw [isAlive_iff hi' x hvx'.pos hvx'.le hvx'.lt, isAlive_iff h.inv x hvx.pos hvx.le hvx.lt,
      ho, ht]
    by_cases hj : x.id = e.id <;> simp [hj]
  refine ⟨a', hr, ?_⟩
  constructor
  · exact hi'
  · intro x hx; exact valid_congr ht e8 (h.seenOk x hx)
  · intro x
    simp only [h.liveNodup.mem_erase_iff]
    constructor
    · rintro ⟨hne, hxl⟩
      have hx := (h.liveIff x).mp hxl
      refine ⟨hx.1, (halive' x hx.1).mpr ⟨?_, hx.2⟩⟩
      intro hid; exact hne (h.live_inj x e hxl hlive hid)
    · rintro ⟨hxs, hxa⟩
      have := (halive' x hxs).mp hxa
      exact ⟨fun hxe => this.1 (by rw [hxe]), (h.liveIff x).mpr ⟨hxs, this.2⟩⟩
  · intro i hi
    rw [ho] at hi
    by_cases hj : i = e.id
    · simp [hj] at hi
    · simp only [hj, if_false] at hi; rw [ht]; exact h.complete i hi
  · intro x
    simp only [h.liveNodup.mem_erase_iff, h.pendNodup.mem_erase_iff, hk]
    rw [h.pendIff x]
    constructor
    · rintro ⟨hne, hxl, hxk⟩
      refine ⟨⟨hne, hxl⟩, ?_⟩
      have : x.id ≠ e.id := fun hid => hne (h.live_inj x e hxl hlive hid)
      simp [this, hxk]
    · rintro ⟨⟨hne, hxl⟩, hxk⟩
      have : x.id ≠ e.id := fun hid => hne (h.live_inj x e hxl hlive hid)
      simp only [this, if_false] at hxk
      exact ⟨hne, hxl, hxk⟩
  · exact h.liveNodup.erase e
  · exact h.pendNodup.erase e
  · rw [e8]; exact h.peakMax
  · have := h.peakLen
    have hl := List.length_erase_of_mem hlive
    have : 0 < s.live.length := List.length_pos_of_mem hlive
    simp only [List.length_append, List.length_singleton, hl]
    omega


/-- Indices handed to the free list by `kill` for a given outcome. -/
def killedIds (es : List Entity) (pos : Nat) : Alloc.KillRes → List Nat
  | .ok => es.map (·.id)
  | .err q => (es.take (q - pos)).map (·.id)

theorem killLoop_refine : ∀ (es : List Entity) (a : Alloc) (s : EntSpec) (p : List Nat) (pos : Nat),
    R a s p → (∀ e, e ∈ es → e ∈ s.seen) →
    ∃ a' r live' pend', a.killLoop es pos = .ok (a', r) ∧
      EntSpec.killPrefix s.live s.pending es pos = (live', pend', r) ∧
      R a' { s with live := live', pending := pend' } (p ++ killedIds es pos r) ∧
      (∀ q, r = .err q → pos ≤ q) := by
  intro es
  induction es with
  | nil =>
    intro a s p pos h _
    exact ⟨a, .ok, s.live, s.pending, rfl, rfl, by simpa [killedIds] using h, by intro q hq; cases hq⟩
  | cons e es ih =>
    intro a s p pos h hs
    have he : e ∈ s.seen := hs e (by simp)
    have hv := h.seenOk e he
    cases hal : a.isAlive e
    · have hd := delErrOk_of_dead h.inv e hv.pos hv.le hv.lt hal
      have hnl : s.live.contains e = false := by
        cases hc : s.live.contains e
        · rfl
        · have := ((h.liveIff e).mp (by simpa using hc)).2; simp [hal] at this
      refine ⟨a, .err pos, s.live, s.pending, by simp [killLoop, hal, hd], by simp only [EntSpec.killPrefix, hnl]; rfl,
        by simpa [killedIds] using h, by intro q hq; cases hq; exact Nat.le_refl _⟩
    · obtain ⟨a1, hk1, hR1⟩ := killOne_refine h e he hal
      have hlive : s.live.contains e = true := by
        simpa using (h.liveIff e).mpr ⟨he, hal⟩
      obtain ⟨a', r, live', pend', hl, hkp, hR', hq⟩ :=
        ih a1 { s with live := s.live.erase e, pending := s.pending.erase e } (p ++ [e.id]) (pos + 1) hR1
          (fun x hx => hs x (by simp [hx]))
      refine ⟨a', r, live', pend', by simp [killLoop, hal, hk1, hl],
        by simp only [EntSpec.killPrefix, hlive, if_true]; exact hkp, ?_, ?_⟩
      · have hids : p ++ [e.id] ++ killedIds es (pos + 1) r = p ++ killedIds (e :: es) pos r := by
          cases r with
          | ok => simp [killedIds]
          | err q =>
            have := hq q rfl
            have hqp : q - pos = (q - (pos + 1)) + 1 := by omega
            simp [killedIds, hqp, List.take_succ_cons]
        rw [← hids]; exact hR'
      · intro q hr; have := hq q hr; omega

theorem R_cacheExtend {a : Alloc} {s : EntSpec} {p : List Nat} (h : R a s p) :
    R (a.cacheExtend p) s [] := by
  obtain ⟨f1, f2, f3, f4, f5, f6, f7⟩ := cacheExtend_fields a p
  have hf := free_cacheExtend a p
  apply R_transfer h
  · obtain ⟨i1, i2, i3, i4, i5, i6, i7, i8, i9, i10⟩ := h.inv
    constructor
    · exact f7
    all_goals (simp only [hf, f1, f2, f3, f4, f5, f6, List.append_nil])
    all_goals assumption
  · intro j; simp [occ, f1, f4]
  · intro j; simp [top, f1, f4]
  · intro j; rw [f5]
  · exact f6
  · simp

theorem kill_refine {a : Alloc} {s : EntSpec} (h : R a s []) (es : List Entity)
    (hs : ∀ e, e ∈ es → e ∈ s.seen) :
    ∃ a' r s', a.kill es = .ok (a', r) ∧ s.step (.kill es r) = .ok s' ∧ R a' s' [] := by
  obtain ⟨a1, r, live', pend', hl, hkp, hR, hq⟩ := killLoop_refine es a s [] 0 h hs
  have hR' := R_cacheExtend hR
  simp only [List.nil_append] at hR'
  refine ⟨a1.cacheExtend (killedIds es 0 r), r, { s with live := live', pending := pend' }, ?_, ?_, hR'⟩
  · cases r with
    | ok => simp [kill, hl, killedIds]
    | err q => simp [kill, hl, killedIds]
  · simp [EntSpec.step, hkp]


theorem merge_refine {a : Alloc} {s : EntSpec} (h : R a s []) :
    ∃ a' del s', a.merge = .ok (a', del) ∧ s.step .merge = .ok s' ∧ R a' s' [] := by
  obtain ⟨a', hm, hi', ho, ht, hk, hr, hmax⟩ := merge_spec h.inv
  refine ⟨a', _, { s with live := s.live.filter (fun e => !s.pending.contains e), pending := [] },
    hm, rfl, ?_⟩
  have halive' : ∀ x, x ∈ s.seen →
      (a'.isAlive x = true ↔ (a.isAlive x = true ∧ a.killed.mem x.id = false)) := by
    intro x hx
    have hvx := h.seenOk x hx
    have hvx' := valid_congr ht hmax hvx
    rw [isAlive_iff hi' x hvx'.pos hvx'.le hvx'.lt, isAlive_iff h.inv x hvx.pos hvx.le hvx.lt,
      ho, ht]
    cases a.occ x.id <;> cases a.killed.mem x.id <;> simp
  constructor
  · exact hi'
  · intro x hx; exact valid_congr ht hmax (h.seenOk x hx)
  · intro x
    simp only [List.mem_filter, Bool.not_eq_true', List.contains_eq_mem, decide_eq_false_iff_not]
    constructor
    · rintro ⟨hxl, hxp⟩
      have hx := (h.liveIff x).mp hxl
      refine ⟨hx.1, (halive' x hx.1).mpr ⟨hx.2, ?_⟩⟩
      cases hkx : a.killed.mem x.id
      · rfl
      · exact absurd ((h.pendIff x).mpr ⟨hxl, hkx⟩) hxp
    · rintro ⟨hxs, hxa⟩
      have := (halive' x hxs).mp hxa
      have hxl := (h.liveIff x).mpr ⟨hxs, this.1⟩
      refine ⟨hxl, fun hp => ?_⟩
      have := ((h.pendIff x).mp hp).2
      simp_all
  · intro i hi
    rw [ho] at hi
    simp only [Bool.and_eq_true] at hi
    rw [ht]; exact h.complete i hi.1
  · intro x; simp [hk]
  · exact h.liveNodup.filter _
  · simp
  · rw [hmax]; exact h.peakMax
  · have := h.peakLen
    have := List.length_filter_le (fun e => !s.pending.contains e) s.live
    simp only [List.length_nil, Nat.add_zero] at *
    omega


/-! ### Queries, join, delete_all -/

theorem isAlive_refine {a : Alloc} {s : EntSpec} {p : List Nat} (h : R a s p) (e : Entity)
    (he : e ∈ s.seen) : s.step (.isAlive e (a.isAlive e)) = .ok s := by
  have : s.live.contains e = a.isAlive e := by
    cases hal : a.isAlive e
    · cases hc : s.live.contains e
      · rfl
      · have := ((h.liveIff e).mp (by simpa using hc)).2; simp [hal] at this
    · simpa using (h.liveIff e).mpr ⟨he, hal⟩
  simp only [EntSpec.step, this, beq_self_eq_true, if_true]

theorem joinGen_eq_top {a : Alloc} {p : List Nat} (h : InvP a p) (i : Nat) (ho : a.occ i = true) :
    a.joinGen i = a.top i := by
  simp only [occ, Bool.or_eq_true, decide_eq_true_eq] at ho
  by_cases hg : 0 < a.gens.get i
  · rw [joinGen_alive a i h.beyond hg]; simp [top, hg]
  · have hr : a.raised.mem i = true := by rcases ho with ho | ho; exact absurd ho hg; exact ho
    rw [joinGen_dead a i h.beyond (by omega)]; simp [top, hg, hr]

theorem ascById_map (f : Nat → Int) : ∀ (l : List Nat), l.Pairwise (· < ·) →
    EntSpec.ascById (l.map (fun i => (⟨i, f i⟩ : Entity))) = true
  | [], _ => rfl
  | [_], _ => rfl
  | a :: b :: t, h => by
    have hab : a < b := (List.pairwise_cons.mp h).1 b (by simp)
    have := ascById_map f (b :: t) (List.pairwise_cons.mp h).2
    simp only [List.map_cons] at this ⊢
    simp [EntSpec.ascById, hab, this]

theorem mem_joinEntities {a : Alloc} {p : List Nat} (h : InvP a p) (e : Entity) :
    e ∈ a.joinEntities ↔ (a.occ e.id = true ∧ e.gen = a.top e.id) := by
  simp only [joinEntities, List.mem_map, BSet.mem_toList, BSet.mem_union]
  have hocc : ∀ i, (a.alive.mem i || a.raised.mem i) = a.occ i := by
    intro i; simp only [occ]
    have := h.aliveIff i
    cases ha : a.alive.mem i
    · have hn : ¬ (0 < a.gens.get i) := fun hg => by have := this.mpr hg; simp [ha] at this
      simp [hn]
    · simp [this.mp ha]
  constructor
  · rintro ⟨i, hi, rfl⟩
    rw [hocc] at hi
    exact ⟨hi, joinGen_eq_top h i hi⟩
  · rintro ⟨ho, hg⟩
    refine ⟨e.id, by rw [hocc]; exact ho, ?_⟩
    cases e; simp only at hg ⊢; rw [joinGen_eq_top h _ ho, hg]

theorem mem_live_iff {a : Alloc} {s : EntSpec} {p : List Nat} (h : R a s p) (e : Entity) :
    e ∈ s.live ↔ (a.occ e.id = true ∧ e.gen = a.top e.id) := by
  constructor
  · exact h.occ_of_live e
  · rintro ⟨ho, hg⟩
    have := h.live_of_occ e.id ho
    cases e; simp only at hg this ⊢; rw [hg]; exact this

theorem join_refine {a : Alloc} {s : EntSpec} {p : List Nat} (h : R a s p) :
    s.step (.join a.joinEntities) = .ok s := by
  have h1 : EntSpec.ascById a.joinEntities = true := ascById_map _ _ (BSet.toList_sorted _)
  have h2 : a.joinEntities.all (fun e => s.live.contains e) = true := by
    simp only [List.all_eq_true, List.contains_eq_mem, decide_eq_true_eq]
    intro e he; exact (mem_live_iff h e).mpr ((mem_joinEntities h.inv e).mp he)
  have h3 : s.live.all (fun e => a.joinEntities.contains e) = true := by
    simp only [List.all_eq_true, List.contains_eq_mem, decide_eq_true_eq]
    intro e he; exact (mem_joinEntities h.inv e).mpr ((mem_live_iff h e).mp he)
  simp only [EntSpec.step, EntSpec.joinOk, h1, h2, h3, Bool.and_self, if_true]

theorem killPrefix_all : ∀ (es live pending : List Entity) (pos : Nat),
    es.Nodup → live.Nodup → pending.Nodup → (∀ e, e ∈ es → e ∈ live) →
    ∃ l' p', EntSpec.killPrefix live pending es pos = (l', p', .ok) ∧
      (∀ x, x ∈ l' → x ∈ live ∧ x ∉ es) ∧ (∀ x, x ∈ p' → x ∈ pending ∧ x ∉ es) := by
  intro es
  induction es with
  | nil => intro live pending pos _ _ _ _; exact ⟨live, pending, rfl, by simp, by simp⟩
  | cons e es ih =>
    intro live pending pos hnd hl hp hsub
    obtain ⟨hne, hnd'⟩ := List.nodup_cons.mp hnd
    have hel : live.contains e = true := by simpa using hsub e (by simp)
    obtain ⟨l', p', hk, h1, h2⟩ := ih (live.erase e) (pending.erase e) (pos + 1) hnd' (hl.erase e) (hp.erase e)
      (by
        intro x hx
        have hxe : x ≠ e := fun h => hne (h ▸ hx)
        exact (List.mem_erase_of_ne hxe).mpr (hsub x (by simp [hx])))
    refine ⟨l', p', by simp only [EntSpec.killPrefix, hel, if_true]; exact hk, ?_, ?_⟩
    · intro x hx
      obtain ⟨hx1, hx2⟩ := h1 x hx
      have := (hl.mem_erase_iff).mp hx1
      exact ⟨this.2, by simp [this.1, hx2]⟩
    · intro x hx
      obtain ⟨hx1, hx2⟩ := h2 x hx
      have := (hp.mem_erase_iff).mp hx1
      exact ⟨this.2, by simp [this.1, hx2]⟩

theorem joinEntities_nodup (a : Alloc) : a.joinEntities.Nodup := by
  simp only [joinEntities]
  apply List.Pairwise.map _ _ (BSet.toList_nodup _)
  intro x y hxy heq
  exact hxy (by simpa using congrArg Entity.id heq)

/-- `World::delete_all`: deleting the collected join succeeds and leaves nothing alive. -/
theorem delAll_refine {a : Alloc} {s : EntSpec} (h : R a s []) :
    ∃ a', a.kill a.joinEntities = .ok (a', .ok) ∧
      R a' { s with live := [], pending := [] } [] := by
  have hsub : ∀ e, e ∈ a.joinEntities → e ∈ s.live :=
    fun e he => (mem_live_iff h e).mpr ((mem_joinEntities h.inv e).mp he)
  obtain ⟨a', r, s', hk, hs, hR⟩ := kill_refine h a.joinEntities
    (fun e he => ((h.liveIff e).mp (hsub e he)).1)
  obtain ⟨l', p', hkp, h1, h2⟩ := killPrefix_all a.joinEntities s.live s.pending 0
    (joinEntities_nodup a) h.liveNodup h.pendNodup hsub
  simp only [EntSpec.step, hkp] at hs
  have hl' : l' = [] := by
    apply List.eq_nil_iff_forall_not_mem.mpr
    intro x hx
    have := h1 x hx
    exact this.2 ((mem_joinEntities h.inv x).mpr ((mem_live_iff h x).mp this.1))
  have hp' : p' = [] := by
    apply List.eq_nil_iff_forall_not_mem.mpr
    intro x hx
    have := h2 x hx
    have hxl := ((h.pendIff x).mp this.1).1
    exact this.2 ((mem_joinEntities h.inv x).mpr ((mem_live_iff h x).mp hxl))
  subst hl' hp'
  cases r with
  | ok =>
    simp only [beq_self_eq_true, if_true, Except.ok.injEq] at hs
    subst hs; exact ⟨a', hk, hR⟩
  | err q => simp at hs

end SpecsModel
