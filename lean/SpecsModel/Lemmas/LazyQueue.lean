/-
  Lemmas for C09 (the lazy-update queue): world/lazy.rs `LazyUpdate::{insert, insert_all, remove,
  exec, exec_mut, create_entity, maintain}` and world_ext.rs `maintain`, as modelled by the mutual
  block `step / runScript / runAct / runQueue / maintain` of Model/World.lean.

  Contents
  * size measure `opSize / listSize / actCost / qsize` (nested scripts counted recursively);
  * ghost instrumentation `stepG … maintainG` returning the queue events (`GEv.pop`, `GEv.discard`)
    in temporal order, including those of a `maintain` called from inside a running script;
    `ghost_agree`: the ghost computes the model's worlds and results;
  * frame lemmas: which operations touch `queue` / `nextTag` (`step_qn_plain`, `step_enq`,
    `step_dropWorld`): only the five lazy ops append, at the END, with fresh consecutive tags;
  * conservation law `Cons` (`cons_all`, `cons_run`): events ++ still queued = queued at start ++
    tags issued in between — for every fuel, every script;
  * queue invariant `QInv` and `Cons.inv`: events strictly increasing, never re-queued;
  * `maintain_cases`, `maintain_after_merge`, `deleteComponents_purged`: merge, purge, then queue;
  * target exactness of queued inserts / removes (`runAct_ins_dead`, `runAct_ins_spec`, …);
  * fuel: `fuel_all` — `qsize queue + 2 ≤ fuel` (`runQueue`), `+ 3` (`maintain`), `+ 4`
    (`step (.ent .merge)`) suffices to empty the queue, and from there on the result does not depend
    on the fuel. Fully general (nested `lazyExec`, nested `maintain`, `drop_world` inside scripts).
-/
import SpecsModel.Model.World
import SpecsModel.Lemmas.AllocInv
namespace SpecsModel
namespace LazyQ

/-! ## Size measure -/

mutual
def opSize : WOp → Nat
  | .lazyExec s => 2 + listSize s
  | .lazyCreate comps => 1 + comps.length
  | .lazyIns .. => 2
  | .lazyInsAll .. => 2
  | .lazyRem .. => 2
  | .ent .merge => 4
  | _ => 1
def listSize : List WOp → Nat
  | [] => 0
  | op :: ops => opSize op + listSize ops
end

def actCost : LazyAct → Nat
  | .exec _ s => 1 + listSize s
  | _ => 1

def qsize : List LazyAct → Nat
  | [] => 0
  | a :: q => actCost a + qsize q

/-- Ghost event: a queued action is popped (and run) by `LazyUpdate::maintain`, or discarded by
    dropping the world. -/
inductive GEv where
  | pop (tag : Nat)
  | discard (tag : Nat)
  deriving Repr, DecidableEq

def GEv.tag : GEv → Nat
  | .pop t | .discard t => t

mutual
def stepG (fuel : Nat) (w : World) (op : WOp) : (World × WRes) × List GEv :=
  match op with
  | .ent .merge =>
    (match fuel with
     | 0 => ((w, .panic "model out of fuel"), [])
     | fuel + 1 => maintainG fuel w)
  | .dropWorld =>
    (World.step fuel w .dropWorld,
      match w.dropStores w.table [] with
      | .ok _ => w.queue.map (fun a => .discard a.tag)
      | _ => [])
  | op => (World.step fuel w op, [])
termination_by structural fuel

def runScriptG (fuel : Nat) (tag : Nat) (w : World) : List WOp → World × List GEv
  | [] => (w, [])
  | op :: ops =>
    match fuel with
    | 0 => (w, [])
    | fuel + 1 =>
      let r := stepG fuel w op
      let r2 := runScriptG fuel tag { r.1.1 with trace := (tag, op, r.1.2) :: r.1.1.trace } ops
      (r2.1, r.2 ++ r2.2)
termination_by structural fuel

def runActG (fuel : Nat) (w : World) : LazyAct → World × List GEv
  | .exec tag script =>
    (match fuel with
     | 0 => (w, [])
     | fuel + 1 => runScriptG fuel tag w script)
  | act => (World.runAct fuel w act, [])
termination_by structural fuel

def runQueueG (fuel : Nat) (w : World) (acc : List Nat) : (World × List Nat) × List GEv :=
  match fuel with
  | 0 => ((w, acc.reverse), [])
  | fuel + 1 =>
    match w.queue with
    | [] => ((w, acc.reverse), [])
    | act :: rest =>
      let r := runActG fuel { w with queue := rest } act
      let r2 := runQueueG fuel r.1 (match act with | .exec t _ => t :: acc | _ => acc)
      (r2.1, .pop act.tag :: (r.2 ++ r2.2))
termination_by structural fuel

def maintainG (fuel : Nat) (w : World) : (World × WRes) × List GEv :=
  match w.ent.alloc.merge with
  | .ok (a, deleted) =>
    let w1 := { w with ent := { w.ent with alloc := a } }
    (match (if deleted.isEmpty then .ok w1 else w1.deleteComponents deleted w1.table) with
     | .ok w2 =>
       (match fuel with
        | 0 => ((w2, .panic "model out of fuel"), [])
        | fuel + 1 =>
          let r := runQueueG fuel w2 []
          ((r.1.1, .acts r.1.2), r.2))
     | .panic why => ((w1, .panic why), [])
     | .ub why => ((w1, .panic ("UB: " ++ why)), []))
  | .panic why => ((w, .panic why), [])
  | .ub why => ((w, .panic ("UB: " ++ why)), [])
termination_by structural fuel
end

open World in
theorem ghost_agree (fuel : Nat) :
    (∀ w op, (stepG fuel w op).1 = step fuel w op) ∧
    (∀ tag w ops, (runScriptG fuel tag w ops).1 = runScript fuel tag w ops) ∧
    (∀ w act, (runActG fuel w act).1 = runAct fuel w act) ∧
    (∀ w acc, (runQueueG fuel w acc).1 = runQueue fuel w acc) ∧
    (∀ w, (maintainG fuel w).1 = maintain fuel w) := by
  induction fuel with
  | zero =>
    refine ⟨?_, ?_, ?_, ?_, ?_⟩
    · intro w op
      unfold stepG
      split
      · simp [World.step]
      · rfl
      · rfl
    · intro tag w ops
      cases ops <;> simp [runScriptG, runScript]
    · intro w act
      cases act <;> simp [runActG, runAct]
    · intro w acc
      simp [runQueueG, runQueue]
    · intro w
      unfold maintainG maintain
      cases w.ent.alloc.merge with
      | ok p =>
        obtain ⟨a, deleted⟩ := p
        dsimp only
        by_cases hd : deleted.isEmpty = true
        · simp only [hd, if_true]
        · simp only [hd, if_false, Bool.false_eq_true]
          cases World.deleteComponents _ deleted w.table <;> rfl
      | panic => rfl
      | ub => rfl
  | succ f ih =>
    obtain ⟨ih1, ih2, ih3, ih4, ih5⟩ := ih
    refine ⟨?_, ?_, ?_, ?_, ?_⟩
    · intro w op
      unfold stepG
      split
      · simp only [World.step]; exact ih5 w
      · rfl
      · rfl
    · intro tag w ops
      cases ops with
      | nil => simp [runScriptG, runScript]
      | cons op ops =>
        simp only [runScriptG, runScript]
        rw [ih2, ih1]
    · intro w act
      cases act with
      | exec t s => simp only [runActG, runAct]; exact ih2 _ _ _
      | _ => simp [runActG]
    · intro w acc
      simp only [runQueueG, runQueue]
      cases hq : w.queue with
      | nil => rfl
      | cons act rest =>
        simp only []
        rw [ih4, ih3]
        cases act <;> rfl
    · intro w
      unfold maintainG maintain
      cases w.ent.alloc.merge with
      | ok p =>
        obtain ⟨a, deleted⟩ := p
        dsimp only
        by_cases hd : deleted.isEmpty = true
        · simp only [hd, if_true, ih4]
        · simp only [hd, if_false, Bool.false_eq_true]
          cases World.deleteComponents _ deleted w.table with
          | ok w2 => simp only [ih4]
          | _ => rfl
      | panic => rfl
      | ub => rfl
/-! ## Frame: which operations touch `queue` / `nextTag` -/

/-- The two fields the queue discipline is about. -/
def qn (w : World) : List LazyAct × Nat := (w.queue, w.nextTag)

@[simp] theorem setStore_qn (w : World) (k : Nat) (m : Masked) : qn (w.setStore k m) = qn w := rfl
@[simp] theorem destroy_qn (w : World) (d : List Int) : qn (w.destroy d) = qn w := rfl
@[simp] theorem trace_qn (w : World) (t) : qn { w with trace := t } = qn w := rfl
@[simp] theorem ent_qn (w : World) (e) : qn { w with ent := e } = qn w := rfl

@[simp] theorem register_qn (w : World) (k : Nat) : qn (w.register k) = qn w := by
  unfold World.register
  split
  · dsimp only
    split <;> split <;> rfl
  · rfl

@[simp] theorem applyS_qn {α} (w : World) (k : Nat) (o : Out (SRes α)) (f : α → WRes) :
    qn (w.applyS k o f).1 = qn w := by
  cases o <;> rfl

theorem deleteComponents_qn (es : List Entity) :
    ∀ (ks : List Nat) (w w' : World), w.deleteComponents es ks = .ok w' → qn w' = qn w := by
  intro ks
  induction ks with
  | nil => intro w w' h; simp only [World.deleteComponents] at h; cases h; rfl
  | cons k ks ih =>
    intro w w' h
    simp only [World.deleteComponents] at h
    split at h
    · exact ih _ _ h
    · split at h
      · rw [ih _ _ h]; rfl
      · cases h
      · cases h

@[simp] theorem deleteEntities_qn (w : World) (es : List Entity) : qn (w.deleteEntities es).1 = qn w := by
  unfold World.deleteEntities
  split
  · dsimp only
    split
    · rename_i h; rw [deleteComponents_qn _ _ _ _ h]; rfl
    · rfl
    · rfl
  · rfl
  · rfl

theorem buildComps_qn (e : Entity) :
    ∀ (cs : List (Nat × Int)) (w w' : World), w.buildComps e cs = .ok w' → qn w' = qn w := by
  intro cs
  induction cs with
  | nil => intro w w' h; simp only [World.buildComps] at h; cases h; rfl
  | cons c cs ih =>
    intro w w' h
    obtain ⟨k, v⟩ := c
    simp only [World.buildComps] at h
    split at h
    · cases h
    · split at h
      · split at h
        · cases h
        · rw [ih _ _ h]; rfl
      · cases h
      · cases h

@[simp] theorem createWith_qn (w : World) (a d : Bool) (comps : List (Nat × Int)) :
    qn (w.createWith a d comps).1 = qn w := by
  unfold World.createWith
  split
  · rfl
  · split
    · dsimp only
      split
      · rename_i h
        have := buildComps_qn _ _ _ _ h
        split
        · split <;> simp_all
        · simp_all
      · rfl
      · rfl
    · rfl

theorem rjoinLoop_qn (k : Nat) (mutable : Bool) :
    ∀ (ids : List Nat) (w : World) (acts : List RAct) (acc : List (Nat × ItemRes)),
      qn (World.rjoinLoop w k mutable ids acts acc).1 = qn w := by
  intro ids
  induction ids with
  | nil => intro w acts acc; rfl
  | cons id ids ih =>
    intro w acts acc
    simp only [World.rjoinLoop]
    repeat' split
    all_goals first | rfl | (rw [ih]; done) | (rw [ih]; rfl)

/-- Operations that never touch the lazy queue. -/
def plain : WOp → Bool
  | .ent .merge => false
  | .dropWorld => false
  | .lazyIns .. => false
  | .lazyInsAll .. => false
  | .lazyRem .. => false
  | .lazyCreate .. => false
  | .lazyExec .. => false
  | _ => true

theorem step_qn_ent (f : Nat) (w : World) (eop : EOp) (h : eop ≠ .merge) :
    qn (World.step f w (.ent eop)).1 = qn w := by
  cases eop with
  | merge => exact absurd rfl h
  | delAll =>
    simp only [World.step]
    have := deleteEntities_qn w w.ent.alloc.joinEntities
    split <;> simp_all
  | delNow hh =>
    simp only [World.step]
    split
    · rfl
    · simp
  | delBatch hs =>
    simp only [World.step]
    split
    · rfl
    · simp
  | _ => simp only [World.step]; rfl

theorem step_qn_plain (f : Nat) (w : World) (op : WOp) (h : plain op = true) :
    qn (World.step f w op).1 = qn w := by
  cases op with
  | ent eop =>
    apply step_qn_ent
    rintro rfl
    simp [plain] at h
  | dropWorld => simp [plain] at h
  | lazyIns => simp [plain] at h
  | lazyInsAll => simp [plain] at h
  | lazyRem => simp [plain] at h
  | lazyCreate => simp [plain] at h
  | lazyExec => simp [plain] at h
  | reg k p => simp [World.step]
  | createWith a d c => simp [World.step]
  | rjoin k mu acts =>
    simp only [World.step]
    split
    · rfl
    · exact rjoinLoop_qn _ _ _ _ _ _
  | events k =>
    simp only [World.step]
    split
    · rfl
    · split <;> rfl
  | _ =>
    simp only [World.step]
    split <;> first | rfl | (simp; done) | (split <;> rfl)
/-- `w'` is `w` with the actions `l` appended at the END of the queue, carrying the fresh
    consecutive tags `w.nextTag, w.nextTag+1, …`. -/
structure Enq (w w' : World) (l : List LazyAct) : Prop where
  queue : w'.queue = w.queue ++ l
  next : w'.nextTag = w.nextTag + l.length
  tags : l.map LazyAct.tag = List.range' w.nextTag l.length

theorem Enq.of_qn {w w' : World} (h : qn w' = qn w) : Enq w w' [] := by
  simp only [qn, Prod.mk.injEq] at h
  exact ⟨by simp [h.1], by simp [h.2], rfl⟩

theorem enqueue_enq (w : World) (mk : Nat → LazyAct) (hmk : ∀ t, (mk t).tag = t) :
    Enq w (w.enqueue mk).1 [mk w.nextTag] :=
  ⟨rfl, rfl, by simp [hmk, List.range'_one]⟩

theorem opSize_pos (op : WOp) : 1 ≤ opSize op := by
  cases op with
  | ent eop => cases eop <;> simp [opSize]
  | _ => simp [opSize] <;> omega

theorem lazyCreate_fold (e : Entity) :
    ∀ (comps : List (Nat × Int)) (w : World),
      ∃ l, Enq w (comps.foldl (fun (w : World) (kv : Nat × Int) =>
          { w with queue := w.queue ++ [.ins w.nextTag kv.1 e kv.2], nextTag := w.nextTag + 1 }) w) l ∧
        qsize l = comps.length ∧
        (∀ a ∈ l, ∃ t k v, a = .ins t k e v ∧ (k, v) ∈ comps) ∧
        (comps.foldl (fun (w : World) (kv : Nat × Int) =>
          { w with queue := w.queue ++ [.ins w.nextTag kv.1 e kv.2], nextTag := w.nextTag + 1 }) w).ent = w.ent := by
  intro comps
  induction comps with
  | nil => intro w; exact ⟨[], ⟨by simp, rfl, rfl⟩, rfl, by simp, rfl⟩
  | cons kv comps ih =>
    intro w
    simp only [List.foldl_cons]
    obtain ⟨l, ⟨h1, h2, h3⟩, h4, h5, h6⟩ := ih { w with queue := w.queue ++ [.ins w.nextTag kv.1 e kv.2], nextTag := w.nextTag + 1 }
    refine ⟨.ins w.nextTag kv.1 e kv.2 :: l, ⟨?_, ?_, ?_⟩, ?_, ?_, ?_⟩
    · rw [h1]; simp
    · rw [h2]; simp; omega
    · simp only [List.map_cons, List.length_cons, List.range'_succ, h3, LazyAct.tag]
    · simp [qsize, actCost, h4]; omega
    · intro a ha
      rcases List.mem_cons.mp ha with rfl | ha
      · exact ⟨_, _, _, rfl, by simp⟩
      · obtain ⟨t, k, v, r1, r2⟩ := h5 a ha
        exact ⟨t, k, v, r1, List.mem_cons_of_mem _ r2⟩
    · rw [h6]

/-- Effect of any operation other than `maintain` and `drop_world` on the lazy queue: it appends
    (possibly nothing) at the end, with fresh consecutive tags; the cost of what is appended is paid
    by the size of the operation. -/
theorem step_enq (f : Nat) (w : World) (op : WOp) (h1 : op ≠ .ent .merge) (h2 : op ≠ .dropWorld) :
    ∃ l, Enq w (World.step f w op).1 l ∧ qsize l + 1 ≤ opSize op := by
  by_cases hp : plain op = true
  · exact ⟨[], Enq.of_qn (step_qn_plain f w op hp), opSize_pos op⟩
  · cases op with
    | lazyIns k h v =>
      simp only [World.step]
      split
      · exact ⟨[], Enq.of_qn rfl, by simp [qsize, opSize]⟩
      · exact ⟨[], Enq.of_qn rfl, by simp [qsize, opSize]⟩
      · exact ⟨_, enqueue_enq _ _ (fun _ => rfl), by simp [qsize, actCost, opSize]⟩
    | lazyInsAll k items =>
      simp only [World.step]
      split
      · exact ⟨[], Enq.of_qn rfl, by simp [qsize, opSize]⟩
      · exact ⟨[], Enq.of_qn rfl, by simp [qsize, opSize]⟩
      · exact ⟨_, enqueue_enq _ _ (fun _ => rfl), by simp [qsize, actCost, opSize]⟩
    | lazyRem k h =>
      simp only [World.step]
      split
      · exact ⟨[], Enq.of_qn rfl, by simp [qsize, opSize]⟩
      · exact ⟨[], Enq.of_qn rfl, by simp [qsize, opSize]⟩
      · exact ⟨_, enqueue_enq _ _ (fun _ => rfl), by simp [qsize, actCost, opSize]⟩
    | lazyExec s =>
      simp only [World.step]
      exact ⟨_, enqueue_enq _ _ (fun _ => rfl), by simp [qsize, actCost, opSize]; omega⟩
    | lazyCreate comps =>
      simp only [World.step]
      split
      · exact ⟨[], Enq.of_qn rfl, by simp [qsize, opSize]⟩
      · split
        · rename_i ew e hc
          obtain ⟨l, hl, hs, -, -⟩ := lazyCreate_fold e comps { w with ent := ew }
          exact ⟨l, ⟨hl.1, hl.2, hl.3⟩, by simp [opSize, hs]; omega⟩
        · exact ⟨[], Enq.of_qn rfl, by simp [qsize, opSize]⟩
    | ent eop =>
      cases eop <;> first | exact absurd rfl h1 | simp [plain] at hp
    | dropWorld => exact absurd rfl h2
    | _ => simp [plain] at hp
/-- `LazyUpdate::create_entity(..).with(c)….build()`: every action it queues is an insert aimed at
    exactly the entity it returns, one per component. -/
theorem step_lazyCreate_targets (f : Nat) (w : World) (comps : List (Nat × Int)) (e : Entity)
    (h : (World.step f w (.lazyCreate comps)).2 = .e (.ent e)) :
    ∃ l, Enq w (World.step f w (.lazyCreate comps)).1 l ∧ l.length = comps.length ∧
      ∀ a ∈ l, ∃ t k v, a = .ins t k e v ∧ (k, v) ∈ comps := by
  simp only [World.step] at h ⊢
  split
  · rename_i hc; simp [hc] at h
  · rename_i hc
    simp only [hc] at h
    split
    · rename_i ew e' hce
      simp only [hce] at h
      cases h
      obtain ⟨l, hl, hs, ht, -⟩ := lazyCreate_fold e comps { w with ent := ew }
      refine ⟨l, ⟨hl.1, hl.2, hl.3⟩, ?_, ht⟩
      have : ∀ l : List LazyAct, (∀ a ∈ l, ∃ t k v, a = LazyAct.ins t k e v ∧ (k, v) ∈ comps) →
          qsize l = l.length := by
        intro l
        induction l with
        | nil => intro _; rfl
        | cons a l ih =>
          intro hh
          obtain ⟨t, k, v, rfl, -⟩ := hh a (List.mem_cons_self ..)
          simp [qsize, actCost, ih (fun a ha => hh a (List.mem_cons_of_mem _ ha))]; omega
      rw [← this l ht, hs]
    · rename_i ew r hne hca
      exfalso
      rw [hca] at h
      simp only [Bool.false_eq_true, if_false] at h
      cases r with
      | ent e' => exact hne e' rfl
      | _ => simp at h

/-- `drop_world` discards the whole queue (or, on a panic, changes nothing). -/
theorem step_dropWorld (f : Nat) (w : World) :
    (∃ d, w.dropStores w.table [] = .ok d ∧ (World.step f w .dropWorld).1.queue = [] ∧
      (World.step f w .dropWorld).1.nextTag = w.nextTag) ∨
    ((∀ d, w.dropStores w.table [] ≠ .ok d) ∧ (World.step f w .dropWorld).1 = w) := by
  simp only [World.step]
  cases h : w.dropStores w.table [] with
  | ok d => exact .inl ⟨d, rfl, rfl, rfl⟩
  | panic => exact .inr ⟨by simp, rfl⟩
  | ub => exact .inr ⟨by simp, rfl⟩

theorem stepG_other (f : Nat) (w : World) (op : WOp) (h1 : op ≠ .ent .merge) (h2 : op ≠ .dropWorld) :
    stepG f w op = (World.step f w op, []) := by
  unfold stepG
  split
  · exact absurd rfl h1
  · exact absurd rfl h2
  · rfl

/-! ## Conservation of tags -/

def tagsOf (w : World) : List Nat := w.queue.map LazyAct.tag

theorem range'_split (a b c : Nat) (h1 : a ≤ b) (h2 : b ≤ c) :
    List.range' a (b - a) ++ List.range' b (c - b) = List.range' a (c - a) := by
  obtain ⟨d1, rfl⟩ := Nat.exists_eq_add_of_le h1
  obtain ⟨d2, rfl⟩ := Nat.exists_eq_add_of_le h2
  have e1 : a + d1 - a = d1 := by omega
  have e2 : a + d1 + d2 - (a + d1) = d2 := by omega
  have e3 : a + d1 + d2 - a = d1 + d2 := by omega
  rw [e1, e2, e3, List.range'_append_1]

/-- Conservation law: the ghost log of a computation from `w` to `w'`, followed by what is still
    queued, is what was queued at the start followed by every tag issued in between. -/
structure Cons (w w' : World) (log : List GEv) : Prop where
  mono : w.nextTag ≤ w'.nextTag
  eq : log.map GEv.tag ++ tagsOf w' = tagsOf w ++ List.range' w.nextTag (w'.nextTag - w.nextTag)

theorem Cons.refl (w : World) : Cons w w [] := ⟨Nat.le_refl _, by simp⟩

theorem Cons.of_qn {w w' : World} (h : qn w' = qn w) : Cons w w' [] := by
  simp only [qn, Prod.mk.injEq] at h
  exact ⟨by omega, by simp [tagsOf, h.1, h.2]⟩

theorem Cons.trans {w w1 w2 : World} {l1 l2 : List GEv} (h1 : Cons w w1 l1) (h2 : Cons w1 w2 l2) :
    Cons w w2 (l1 ++ l2) := by
  refine ⟨Nat.le_trans h1.mono h2.mono, ?_⟩
  have e1 := h1.eq
  have e2 := h2.eq
  have m1 := h1.mono
  have m2 := h2.mono
  rw [List.map_append, List.append_assoc, e2, ← List.append_assoc, e1, List.append_assoc]
  congr 1
  exact range'_split _ _ _ m1 m2

theorem Cons.of_enq {w w' : World} {l : List LazyAct} (h : Enq w w' l) : Cons w w' [] := by
  refine ⟨by rw [h.next]; omega, ?_⟩
  simp only [tagsOf, h.queue, h.next, List.map_nil, List.nil_append, List.map_append, h.tags]
  congr 2
  omega

theorem Cons.pop {w : World} {act : LazyAct} {rest : List LazyAct} (h : w.queue = act :: rest) :
    Cons w { w with queue := rest } [.pop act.tag] :=
  ⟨Nat.le_refl _, by simp [tagsOf, h, GEv.tag]⟩

theorem Cons.congr_right {w w' w'' : World} {l : List GEv} (h : Cons w w' l) (e : qn w'' = qn w') :
    Cons w w'' l := by
  simp only [qn, Prod.mk.injEq] at e
  exact ⟨by rw [e.2]; exact h.mono, by have := h.eq; simp only [tagsOf, e.1, e.2] at this ⊢; exact this⟩

theorem Cons.congr_left {w w' w0 : World} {l : List GEv} (h : Cons w w' l) (e : qn w0 = qn w) :
    Cons w0 w' l := by
  simp only [qn, Prod.mk.injEq] at e
  exact ⟨by rw [e.2]; exact h.mono, by have := h.eq; simp only [tagsOf, e.1, e.2] at this ⊢; exact this⟩

/-! ## Target exactness of queued insert / remove actions (d) -/

/-- Everything but storage `k` and the ledger is the same in `w` and `w'`. -/
structure OnlyStore (k : Nat) (w w' : World) : Prop where
  ent : w'.ent = w.ent
  table : w'.table = w.table
  queue : w'.queue = w.queue
  cursors : w'.cursors = w.cursors
  nextTag : w'.nextTag = w.nextTag
  trace : w'.trace = w.trace
  others : ∀ k', k' ≠ k → w'.store? k' = w.store? k'

theorem OnlyStore.refl (k : Nat) (w : World) : OnlyStore k w w :=
  ⟨rfl, rfl, rfl, rfl, rfl, rfl, fun _ _ => rfl⟩

theorem OnlyStore.trans {k : Nat} {w w1 w2 : World} (h1 : OnlyStore k w w1) (h2 : OnlyStore k w1 w2) :
    OnlyStore k w w2 :=
  ⟨h2.ent.trans h1.ent, h2.table.trans h1.table, h2.queue.trans h1.queue, h2.cursors.trans h1.cursors,
   h2.nextTag.trans h1.nextTag, h2.trace.trans h1.trace, fun k' hk => (h2.others k' hk).trans (h1.others k' hk)⟩

theorem OnlyStore.qn {k : Nat} {w w' : World} (h : OnlyStore k w w') : qn w' = qn w := by
  simp [LazyQ.qn, h.queue, h.nextTag]

theorem store?_setStore_ne (w : World) (k k' : Nat) (m : Masked) (h : k' ≠ k) :
    (w.setStore k m).store? k' = w.store? k' := by
  simp [World.store?, World.setStore, Ne.symm h]

theorem store?_setStore_self (w : World) (k : Nat) (m m' : Masked) (h : w.store? k = some m) :
    (w.setStore k m').store? k = some m' := by
  simp only [World.store?, World.setStore] at h ⊢
  have hlt : k < w.stores.size := by
    by_cases hlt : k < w.stores.size
    · exact hlt
    · simp [Array.getElem?_eq_none (Nat.le_of_not_lt hlt)] at h
  simp [hlt]

theorem setStore_same (w : World) (k : Nat) (m : Masked) (h : w.store? k = some m) :
    w.setStore k m = w := by
  simp only [World.store?] at h
  have hlt : k < w.stores.size := by
    by_cases hlt : k < w.stores.size
    · exact hlt
    · simp [Array.getElem?_eq_none (Nat.le_of_not_lt hlt)] at h
  have hk : w.stores[k]? = some (some m) := by
    cases hx : w.stores[k]? with
    | none => simp [hx] at h
    | some x => simp [hx] at h; simp [h]
  have : w.stores.setIfInBounds k (some m) = w.stores := by
    apply Array.ext_getElem?
    intro i
    rw [Array.getElem?_setIfInBounds]
    split
    · rename_i hi; subst hi
      rw [hk]
    · rfl
  simp only [World.setStore, this]

theorem onlyStore_set (w : World) (k : Nat) (m : Masked) (d : List Int) :
    OnlyStore k w ((w.setStore k m).destroy d) :=
  ⟨rfl, rfl, rfl, rfl, rfl, rfl, fun k' hk => store?_setStore_ne w k k' m hk⟩

/-- `Storage::insert` can change the membership mask at the target's index only. -/
theorem insert_mask {m : Masked} {a : Alloc} {e : Entity} {v : Int} {r : SRes Masked.InsRes}
    (h : m.insert a e v = .ok r) : ∀ i, i ≠ e.id → r.st.mask.mem i = m.mask.mem i := by
  intro i hi
  unfold Masked.insert at h
  split at h
  · split at h
    · simp only [Masked.lift] at h
      split at h
      · split at h
        · cases h; rfl
        · cases h
        · cases h
      · cases h
      · cases h
    · simp only [Masked.lift, Masked.notPresentInsert] at h
      split at h
      · rename_i r' hr
        split at hr
        · cases hr; cases h
          simp [BSet.mem_add, hi]
        · cases hr
        · cases hr
      · cases h
      · cases h
  · cases h; rfl

/-- `Storage::remove` can change the membership mask at the target's index only. -/
theorem remove_mask {m : Masked} {a : Alloc} {e : Entity} {r : SRes (Option Int)}
    (h : m.remove a e = .ok r) : ∀ i, i ≠ e.id → r.st.mask.mem i = m.mask.mem i := by
  intro i hi
  unfold Masked.remove at h
  split at h
  · unfold Masked.removeId at h
    split at h
    · simp only [Masked.lift] at h
      split at h
      · cases h; simp [BSet.mem_remove, hi]
      · cases h
      · cases h
    · cases h; rfl
  · cases h; rfl

/-- `Storage::insert` through a live handle sets the target's bit and is not refused. -/
theorem insert_alive {m : Masked} {a : Alloc} {e : Entity} {v : Int} {r : SRes Masked.InsRes}
    (ha : a.isAlive e = true) (h : m.insert a e v = .ok r) :
    r.st.mask.mem e.id = true ∧ r.val ≠ .wrongGen := by
  unfold Masked.insert at h
  simp only [ha, if_true] at h
  split at h
  · rename_i hmem
    simp only [Masked.lift] at h
    split at h
    · split at h
      · cases h; exact ⟨hmem, by simp⟩
      · cases h
      · cases h
    · cases h
    · cases h
  · simp only [Masked.lift, Masked.notPresentInsert] at h
    split at h
    · rename_i r' hr
      split at hr
      · cases hr; cases h
        exact ⟨by simp [BSet.mem_add], by simp⟩
      · cases hr
      · cases hr
    · cases h
    · cases h

/-- `Storage::remove` through a live handle clears the target's bit. -/
theorem remove_alive {m : Masked} {a : Alloc} {e : Entity} {r : SRes (Option Int)}
    (ha : a.isAlive e = true) (h : m.remove a e = .ok r) : r.st.mask.mem e.id = false := by
  unfold Masked.remove at h
  simp only [ha, if_true] at h
  unfold Masked.removeId at h
  split at h
  · simp only [Masked.lift] at h
    split at h
    · cases h; simp [BSet.mem_remove]
    · cases h
    · cases h
  · cases h
    rename_i hm
    simpa using hm

/-- A queued insert whose target is dead: the value is dropped, nothing else happens. -/
theorem runAct_ins_dead (f : Nat) (w : World) (t k : Nat) (e : Entity) (v : Int)
    (hd : w.ent.alloc.isAlive e = false) :
    World.runAct f w (.ins t k e v) =
      if (w.store? k).isSome then { w with ledger := v :: w.ledger } else w := by
  simp only [World.runAct]
  cases hm : w.store? k with
  | none => simp
  | some m =>
    simp only [Masked.insert, hd, Bool.false_eq_true, if_false, Option.isSome_some, if_true]
    rw [setStore_same w k m hm]
    simp [World.destroy]

/-- A queued insert whose target is alive: exactly `Storage::insert` on storage `k`. -/
theorem runAct_ins_spec (f : Nat) (w : World) (t k : Nat) (e : Entity) (v : Int) (m : Masked)
    (hm : w.store? k = some m) :
    (∃ r, m.insert w.ent.alloc e v = .ok r ∧
       World.runAct f w (.ins t k e v) =
         (w.setStore k r.st).destroy (r.destroyed ++ (match r.val with | .replaced old => [old] | _ => [])) ∧
       (∀ i, i ≠ e.id → r.st.mask.mem i = m.mask.mem i)) ∨
    ((∀ r, m.insert w.ent.alloc e v ≠ .ok r) ∧ World.runAct f w (.ins t k e v) = w) := by
  simp only [World.runAct, hm]
  cases hi : m.insert w.ent.alloc e v with
  | ok r => exact .inl ⟨r, rfl, rfl, insert_mask hi⟩
  | panic => exact .inr ⟨by simp, rfl⟩
  | ub => exact .inr ⟨by simp, rfl⟩

theorem runAct_ins_only (f : Nat) (w : World) (t k : Nat) (e : Entity) (v : Int) :
    OnlyStore k w (World.runAct f w (.ins t k e v)) := by
  simp only [World.runAct]
  split
  · exact OnlyStore.refl k w
  · split
    · exact onlyStore_set ..
    · exact OnlyStore.refl k w

/-- A queued remove whose target is dead changes nothing at all. -/
theorem runAct_rem_dead (f : Nat) (w : World) (t k : Nat) (e : Entity)
    (hd : w.ent.alloc.isAlive e = false) :
    World.runAct f w (.rem t k e) = w := by
  simp only [World.runAct]
  cases hm : w.store? k with
  | none => rfl
  | some m =>
    simp only [Masked.remove, hd, Bool.false_eq_true, if_false]
    rw [setStore_same w k m hm]
    simp [World.destroy]

theorem runAct_rem_spec (f : Nat) (w : World) (t k : Nat) (e : Entity) (m : Masked)
    (hm : w.store? k = some m) :
    (∃ r, m.remove w.ent.alloc e = .ok r ∧
       World.runAct f w (.rem t k e) = (w.setStore k r.st).destroy r.val.toList ∧
       (∀ i, i ≠ e.id → r.st.mask.mem i = m.mask.mem i)) ∨
    ((∀ r, m.remove w.ent.alloc e ≠ .ok r) ∧ World.runAct f w (.rem t k e) = w) := by
  simp only [World.runAct, hm]
  cases hi : m.remove w.ent.alloc e with
  | ok r => exact .inl ⟨r, rfl, rfl, remove_mask hi⟩
  | panic => exact .inr ⟨by simp, rfl⟩
  | ub => exact .inr ⟨by simp, rfl⟩

theorem runAct_rem_only (f : Nat) (w : World) (t k : Nat) (e : Entity) :
    OnlyStore k w (World.runAct f w (.rem t k e)) := by
  simp only [World.runAct]
  split
  · exact OnlyStore.refl k w
  · split
    · exact onlyStore_set ..
    · exact OnlyStore.refl k w

/-- A batch insert is the sequence of its single inserts. -/
theorem runAct_insAll_eq (f : Nat) (w : World) (t k : Nat) (items : List (Entity × Int)) :
    World.runAct f w (.insAll t k items) =
      items.foldl (fun w ev => World.runAct f w (.ins t k ev.1 ev.2)) w := by
  simp only [World.runAct]

theorem runAct_insAll_only (f : Nat) (w : World) (t k : Nat) (items : List (Entity × Int)) :
    OnlyStore k w (World.runAct f w (.insAll t k items)) := by
  rw [runAct_insAll_eq]
  induction items generalizing w with
  | nil => exact OnlyStore.refl k w
  | cons it items ih =>
    simp only [List.foldl_cons]
    exact (runAct_ins_only f w t k it.1 it.2).trans (ih _)

theorem runAct_qn_nonexec (f : Nat) (w : World) (act : LazyAct) (h : ∀ t s, act ≠ .exec t s) :
    qn (World.runAct f w act) = qn w := by
  cases act with
  | ins t k e v => exact (runAct_ins_only f w t k e v).qn
  | insAll t k items => exact (runAct_insAll_only f w t k items).qn
  | rem t k e => exact (runAct_rem_only f w t k e).qn
  | exec t s => exact absurd rfl (h t s)

theorem cons_step_nonmerge (f : Nat) (w : World) (op : WOp) (h : op ≠ .ent .merge) :
    Cons w (stepG f w op).1.1 (stepG f w op).2 := by
  by_cases h2 : op = .dropWorld
  · subst h2
    have e : stepG f w .dropWorld = (World.step f w .dropWorld,
        match w.dropStores w.table [] with
        | .ok _ => w.queue.map (fun a => GEv.discard a.tag)
        | _ => []) := by
      unfold stepG; rfl
    rw [e]
    simp only [World.step]
    cases w.dropStores w.table [] with
    | ok d =>
      refine ⟨Nat.le_refl _, ?_⟩
      simp [tagsOf, GEv.tag, Function.comp_def]
    | panic => exact Cons.refl w
    | ub => exact Cons.refl w
  · rw [stepG_other f w op h h2]
    obtain ⟨l, hl, -⟩ := step_enq f w op h h2
    exact Cons.of_enq hl

theorem cons_maintain_of (f : Nat) (hq : ∀ w acc, Cons w (runQueueG f w acc).1.1 (runQueueG f w acc).2)
    (w : World) : Cons w (maintainG (f + 1) w).1.1 (maintainG (f + 1) w).2 := by
  unfold maintainG
  cases w.ent.alloc.merge with
  | ok p =>
    obtain ⟨a, deleted⟩ := p
    dsimp only
    by_cases hd : deleted.isEmpty = true
    · simp only [hd, if_true]
      exact (hq _ []).congr_left rfl
    · simp only [hd, if_false, Bool.false_eq_true]
      cases hdc : World.deleteComponents _ deleted w.table with
      | ok w2 =>
        have := deleteComponents_qn _ _ _ _ hdc
        exact (hq w2 []).congr_left this.symm
      | panic => exact Cons.of_qn rfl
      | ub => exact Cons.of_qn rfl
  | panic => exact Cons.refl w
  | ub => exact Cons.refl w

theorem cons_maintain_zero (w : World) : Cons w (maintainG 0 w).1.1 (maintainG 0 w).2 := by
  unfold maintainG
  cases w.ent.alloc.merge with
  | ok p =>
    obtain ⟨a, deleted⟩ := p
    dsimp only
    by_cases hd : deleted.isEmpty = true
    · simp only [hd, if_true]
      exact Cons.of_qn rfl
    · simp only [hd, if_false, Bool.false_eq_true]
      cases hdc : World.deleteComponents _ deleted w.table with
      | ok w2 =>
        have := deleteComponents_qn _ _ _ _ hdc
        exact Cons.of_qn this
      | panic => exact Cons.of_qn rfl
      | ub => exact Cons.of_qn rfl
  | panic => exact Cons.refl w
  | ub => exact Cons.refl w

/-- Conservation holds for the five mutually recursive functions, for every fuel. -/
theorem cons_all (fuel : Nat) :
    (∀ w op, Cons w (stepG fuel w op).1.1 (stepG fuel w op).2) ∧
    (∀ tag w ops, Cons w (runScriptG fuel tag w ops).1 (runScriptG fuel tag w ops).2) ∧
    (∀ w act, Cons w (runActG fuel w act).1 (runActG fuel w act).2) ∧
    (∀ w acc, Cons w (runQueueG fuel w acc).1.1 (runQueueG fuel w acc).2) ∧
    (∀ w, Cons w (maintainG fuel w).1.1 (maintainG fuel w).2) := by
  induction fuel with
  | zero =>
    refine ⟨?_, ?_, ?_, ?_, cons_maintain_zero⟩
    · intro w op
      by_cases h : op = .ent .merge
      · subst h; simp only [stepG]; exact Cons.refl w
      · exact cons_step_nonmerge 0 w op h
    · intro tag w ops
      cases ops <;> simp only [runScriptG] <;> exact Cons.refl w
    · intro w act
      cases act <;> simp only [runActG] <;>
        first | exact Cons.refl w | exact Cons.of_qn (runAct_qn_nonexec _ _ _ (by simp))
    · intro w acc
      simp only [runQueueG]; exact Cons.refl w
  | succ f ih =>
    obtain ⟨ih1, ih2, ih3, ih4, ih5⟩ := ih
    refine ⟨?_, ?_, ?_, ?_, cons_maintain_of f ih4⟩
    · intro w op
      by_cases h : op = .ent .merge
      · subst h; simp only [stepG]; exact ih5 w
      · exact cons_step_nonmerge _ w op h
    · intro tag w ops
      cases ops with
      | nil => simp only [runScriptG]; exact Cons.refl w
      | cons op ops =>
        simp only [runScriptG]
        exact (ih1 w op).trans ((ih2 tag _ ops).congr_left rfl)
    · intro w act
      cases act with
      | exec t s => simp only [runActG]; exact ih2 _ _ _
      | _ => simp only [runActG]; exact Cons.of_qn (runAct_qn_nonexec _ _ _ (by simp))
    · intro w acc
      simp only [runQueueG]
      cases hq : w.queue with
      | nil => exact Cons.refl w
      | cons act rest =>
        simp only []
        exact (Cons.pop hq).trans ((ih3 _ act).trans (ih4 _ _))

/-! ## Queue invariant: tags strictly increasing and below `nextTag` -/

structure QInv (w : World) : Prop where
  sorted : (tagsOf w).Pairwise (· < ·)
  bound : ∀ t ∈ tagsOf w, t < w.nextTag

theorem QInv.empty : QInv {} := ⟨by simp [tagsOf], by simp [tagsOf]⟩

/-- What conservation gives under the invariant: the ghost log is strictly increasing (so no tag
    occurs twice), every logged tag is below `nextTag`, below everything still queued (so a popped
    tag never re-enters), and the invariant is preserved. -/
theorem Cons.inv {w w' : World} {log : List GEv} (hi : QInv w) (h : Cons w w' log) :
    QInv w' ∧ (log.map GEv.tag).Pairwise (· < ·) ∧ (∀ t ∈ log.map GEv.tag, t < w'.nextTag) ∧
    (∀ t ∈ log.map GEv.tag, ∀ u ∈ tagsOf w', t < u) ∧
    (∀ t ∈ log.map GEv.tag, t ∈ tagsOf w ∨ w.nextTag ≤ t) := by
  have hR : (tagsOf w ++ List.range' w.nextTag (w'.nextTag - w.nextTag)).Pairwise (· < ·) := by
    rw [List.pairwise_append]
    refine ⟨hi.sorted, List.pairwise_lt_range' .., ?_⟩
    intro a ha b hb
    have := hi.bound a ha
    have := (List.mem_range'_1.mp hb).1
    omega
  have hB : ∀ t ∈ tagsOf w ++ List.range' w.nextTag (w'.nextTag - w.nextTag), t < w'.nextTag := by
    intro t ht
    have hm := h.mono
    rcases List.mem_append.mp ht with ht | ht
    · have := hi.bound t ht; omega
    · have := (List.mem_range'_1.mp ht).2; omega
  rw [← h.eq] at hR hB
  rw [List.pairwise_append] at hR
  refine ⟨⟨hR.2.1, fun t ht => hB t (List.mem_append_right _ ht)⟩, hR.1,
    fun t ht => hB t (List.mem_append_left _ ht), hR.2.2, ?_⟩
  intro t ht
  have : t ∈ tagsOf w ++ List.range' w.nextTag (w'.nextTag - w.nextTag) := by
    rw [← h.eq]; exact List.mem_append_left _ ht
  rcases List.mem_append.mp this with ht | ht
  · exact .inl ht
  · exact .inr (List.mem_range'_1.mp ht).1

/-! ## Decomposition of `maintain` (c) -/

/-- Fields untouched by the component purge. -/
structure PurgeFrame (w w' : World) : Prop where
  ent : w'.ent = w.ent
  table : w'.table = w.table
  queue : w'.queue = w.queue
  cursors : w'.cursors = w.cursors
  nextTag : w'.nextTag = w.nextTag
  trace : w'.trace = w.trace

theorem deleteComponents_frame (es : List Entity) :
    ∀ (ks : List Nat) (w w' : World), w.deleteComponents es ks = .ok w' → PurgeFrame w w' := by
  intro ks
  induction ks with
  | nil => intro w w' h; simp only [World.deleteComponents] at h; cases h; exact ⟨rfl, rfl, rfl, rfl, rfl, rfl⟩
  | cons k ks ih =>
    intro w w' h
    simp only [World.deleteComponents] at h
    split at h
    · exact ih _ _ h
    · split at h
      · have := ih _ _ h
        exact ⟨this.ent, this.table, this.queue, this.cursors, this.nextTag, this.trace⟩
      · cases h
      · cases h

/-- `World::maintain` = `Allocator::merge`; purge of the merged deletions; then the lazy queue is
    run on the resulting world — or a panic with the queue untouched. -/
theorem maintain_cases (w : World) :
    (∃ a deleted w2,
        w.ent.alloc.merge = .ok (a, deleted) ∧
        (if deleted.isEmpty then .ok { w with ent := { w.ent with alloc := a } }
         else World.deleteComponents { w with ent := { w.ent with alloc := a } } deleted w.table) = .ok w2 ∧
        PurgeFrame { w with ent := { w.ent with alloc := a } } w2 ∧
        (∀ f, World.maintain (f + 1) w =
          ((World.runQueue f w2 []).1, .acts (World.runQueue f w2 []).2)) ∧
        World.maintain 0 w = (w2, .panic "model out of fuel")) ∨
    (∃ w' why, qn w' = qn w ∧ ∀ f, World.maintain f w = (w', .panic why)) := by
  cases hm : w.ent.alloc.merge with
  | ok p =>
    obtain ⟨a, deleted⟩ := p
    by_cases hd : deleted.isEmpty = true
    · refine .inl ⟨a, deleted, _, rfl, by simp only [hd, if_true], ⟨rfl, rfl, rfl, rfl, rfl, rfl⟩, ?_, ?_⟩
      · intro f; unfold World.maintain; simp only [hm, hd, if_true]
      · unfold World.maintain; simp only [hm, hd, if_true]
    · cases hdc : World.deleteComponents { w with ent := { w.ent with alloc := a } } deleted w.table with
      | ok w2 =>
        refine .inl ⟨a, deleted, w2, rfl, by simp only [hd, if_false, Bool.false_eq_true, hdc],
          deleteComponents_frame _ _ _ _ hdc, ?_, ?_⟩
        · intro f; unfold World.maintain; simp only [hm, hd, if_false, Bool.false_eq_true, hdc]
        · unfold World.maintain; simp only [hm, hd, if_false, Bool.false_eq_true, hdc]
      | panic why =>
        refine .inr ⟨{ w with ent := { w.ent with alloc := a } }, why, rfl, ?_⟩
        intro f; unfold World.maintain; simp only [hm, hd, if_false, Bool.false_eq_true, hdc]
      | ub why =>
        refine .inr ⟨{ w with ent := { w.ent with alloc := a } }, "UB: " ++ why, rfl, ?_⟩
        intro f; unfold World.maintain; simp only [hm, hd, if_false, Bool.false_eq_true, hdc]
  | panic why =>
    refine .inr ⟨w, why, rfl, ?_⟩
    intro f; unfold World.maintain; simp only [hm]
  | ub why =>
    refine .inr ⟨w, "UB: " ++ why, rfl, ?_⟩
    intro f; unfold World.maintain; simp only [hm]

/-! ## Fuel sufficiency and fuel independence (b) -/

theorem qsize_append (a b : List LazyAct) : qsize (a ++ b) = qsize a + qsize b := by
  induction a with
  | nil => simp [qsize]
  | cons x a ih => simp [qsize, ih]; omega

/-- Only `maintain` looks at the fuel. -/
theorem step_fuel_indep (f f' : Nat) (w : World) (op : WOp) (h : op ≠ .ent .merge) :
    World.step f w op = World.step f' w op := by
  cases op with
  | ent eop => cases eop <;> first | exact absurd rfl h | simp only [World.step]
  | _ => simp only [World.step]

theorem runAct_fuel_indep (f f' : Nat) (w : World) (act : LazyAct) (h : ∀ t s, act ≠ .exec t s) :
    World.runAct f w act = World.runAct f' w act := by
  cases act with
  | exec t s => exact absurd rfl (h t s)
  | _ => simp only [World.runAct]

/-- The potential `qsize queue` grows by less than the size of the operation. -/
theorem step_nonmerge_measure (f : Nat) (w : World) (op : WOp) (h : op ≠ .ent .merge) :
    qsize (World.step f w op).1.queue + 1 ≤ qsize w.queue + opSize op := by
  by_cases h2 : op = .dropWorld
  · subst h2
    rcases step_dropWorld f w with ⟨d, -, hq, -⟩ | ⟨-, hw⟩
    · rw [hq]; simp [qsize, opSize]
    · rw [hw]; simp [opSize]
  · obtain ⟨l, hl, hs⟩ := step_enq f w op h h2
    rw [hl.queue, qsize_append]; omega

/-- What "enough fuel" means, function by function. -/
theorem fuel_all (f : Nat) :
    (∀ w op, qsize w.queue + opSize op ≤ f →
      qsize (World.step f w op).1.queue + 1 ≤ qsize w.queue + opSize op ∧
      ∀ f', f ≤ f' → World.step f' w op = World.step f w op) ∧
    (∀ tag w ops, qsize w.queue + listSize ops + 1 ≤ f →
      qsize (World.runScript f tag w ops).queue + ops.length ≤ qsize w.queue + listSize ops ∧
      ∀ f', f ≤ f' → World.runScript f' tag w ops = World.runScript f tag w ops) ∧
    (∀ w act, qsize w.queue + actCost act + 1 ≤ f →
      qsize (World.runAct f w act).queue + 1 ≤ qsize w.queue + actCost act ∧
      ∀ f', f ≤ f' → World.runAct f' w act = World.runAct f w act) ∧
    (∀ w acc, qsize w.queue + 2 ≤ f →
      (World.runQueue f w acc).1.queue = [] ∧
      ∀ f', f ≤ f' → World.runQueue f' w acc = World.runQueue f w acc) ∧
    (∀ w, qsize w.queue + 3 ≤ f →
      qsize (World.maintain f w).1.queue ≤ qsize w.queue ∧
      ((∀ why, (World.maintain f w).2 ≠ .panic why) → (World.maintain f w).1.queue = []) ∧
      ∀ f', f ≤ f' → World.maintain f' w = World.maintain f w) := by
  induction f with
  | zero =>
    refine ⟨?_, ?_, ?_, ?_, ?_⟩
    · intro w op h; have := opSize_pos op; omega
    · intro tag w ops h; omega
    · intro w act h; omega
    · intro w acc h; omega
    · intro w h; omega
  | succ f ih =>
    obtain ⟨ihS, ihR, ihA, ihQ, ihM⟩ := ih
    refine ⟨?_, ?_, ?_, ?_, ?_⟩
    · -- step
      intro w op h
      by_cases hm : op = .ent .merge
      · subst hm
        have h3 : qsize w.queue + 3 ≤ f := by simp [opSize] at h; omega
        obtain ⟨m1, -, m3⟩ := ihM w h3
        refine ⟨?_, ?_⟩
        · simp only [World.step, opSize]; omega
        · intro f' hf'
          obtain ⟨f1, rfl⟩ : ∃ f1, f' = f1 + 1 := ⟨f' - 1, by omega⟩
          simp only [World.step]
          exact m3 f1 (by omega)
      · exact ⟨step_nonmerge_measure _ w op hm, fun f' _ => step_fuel_indep _ _ w op hm⟩
    · -- runScript
      intro tag w ops h
      cases ops with
      | nil => exact ⟨by simp [World.runScript], fun f' _ => by cases f' <;> simp [World.runScript]⟩
      | cons op rest =>
        simp only [listSize] at h
        obtain ⟨s1, s2⟩ := ihS w op (by omega)
        have hr := ihR tag { (World.step f w op).1 with
          trace := (tag, op, (World.step f w op).2) :: (World.step f w op).1.trace } rest
          (by simp only []; omega)
        obtain ⟨r1, r2⟩ := hr
        simp only [] at r1
        refine ⟨?_, ?_⟩
        · simp only [World.runScript, listSize, List.length_cons]; omega
        · intro f' hf'
          obtain ⟨f1, rfl⟩ : ∃ f1, f' = f1 + 1 := ⟨f' - 1, by omega⟩
          simp only [World.runScript]
          rw [s2 f1 (by omega)]
          exact r2 f1 (by omega)
    · -- runAct
      intro w act h
      cases act with
      | exec t s =>
        simp only [actCost] at h
        obtain ⟨r1, r2⟩ := ihR t w s (by omega)
        refine ⟨?_, ?_⟩
        · simp only [World.runAct, actCost]; omega
        · intro f' hf'
          obtain ⟨f1, rfl⟩ : ∃ f1, f' = f1 + 1 := ⟨f' - 1, by omega⟩
          simp only [World.runAct]
          exact r2 f1 (by omega)
      | ins t k e v =>
        refine ⟨?_, fun f' _ => runAct_fuel_indep _ _ _ _ (by simp)⟩
        rw [(runAct_ins_only (f+1) w t k e v).queue]; simp [actCost]
      | insAll t k items =>
        refine ⟨?_, fun f' _ => runAct_fuel_indep _ _ _ _ (by simp)⟩
        rw [(runAct_insAll_only (f+1) w t k items).queue]; simp [actCost]
      | rem t k e =>
        refine ⟨?_, fun f' _ => runAct_fuel_indep _ _ _ _ (by simp)⟩
        rw [(runAct_rem_only (f+1) w t k e).queue]; simp [actCost]
    · -- runQueue
      intro w acc h
      cases hq : w.queue with
      | nil =>
        refine ⟨by simp [World.runQueue, hq], ?_⟩
        intro f' hf'
        obtain ⟨f1, rfl⟩ : ∃ f1, f' = f1 + 1 := ⟨f' - 1, by omega⟩
        simp [World.runQueue, hq]
      | cons act rest =>
        rw [hq] at h
        simp only [qsize] at h
        obtain ⟨a1, a2⟩ := ihA { w with queue := rest } act (by simp only []; omega)
        simp only [] at a1
        have hQ := fun acc' => ihQ (World.runAct f { w with queue := rest } act) acc' (by omega)
        refine ⟨?_, ?_⟩
        · simp only [World.runQueue, hq]; exact (hQ _).1
        · intro f' hf'
          obtain ⟨f1, rfl⟩ : ∃ f1, f' = f1 + 1 := ⟨f' - 1, by omega⟩
          simp only [World.runQueue, hq]
          rw [a2 f1 (by omega)]
          exact (hQ _).2 f1 (by omega)
    · -- maintain
      intro w h
      rcases maintain_cases w with ⟨a, deleted, w2, -, -, fr, hrun, -⟩ | ⟨w', why, hqn, hp⟩
      · have hq2 : w2.queue = w.queue := fr.queue
        obtain ⟨q1, q2⟩ := ihQ w2 [] (by rw [hq2]; omega)
        refine ⟨?_, ?_, ?_⟩
        · rw [hrun f]; simp [q1, qsize]
        · intro _; rw [hrun f]; exact q1
        · intro f' hf'
          obtain ⟨f1, rfl⟩ : ∃ f1, f' = f1 + 1 := ⟨f' - 1, by omega⟩
          rw [hrun f, hrun f1, q2 f1 (by omega)]
      · simp only [qn, Prod.mk.injEq] at hqn
        refine ⟨?_, ?_, ?_⟩
        · rw [hp]; simp [hqn.1]
        · intro hne; exact absurd (by rw [hp]) (hne why)
        · intro f' _; rw [hp, hp]

/-! ## Queue discipline (a): head is popped, FIFO, exec tags -/

/-- Tags of the actions actually popped and run (discards by `drop_world` left out). -/
def pops (log : List GEv) : List Nat := log.filterMap (fun | .pop t => some t | .discard _ => none)

theorem pops_append (a b : List GEv) : pops (a ++ b) = pops a ++ pops b := by
  simp [pops, List.filterMap_append]

theorem pops_sublist (log : List GEv) : (pops log).Sublist (log.map GEv.tag) := by
  induction log with
  | nil => exact List.Sublist.slnil
  | cons x log ih =>
    cases x with
    | pop t => simpa [pops, GEv.tag] using ih
    | discard t => simpa [pops, GEv.tag] using ih.trans (List.sublist_cons_self _ _)

/-- The accumulator of `runQueue`: tags of the scripts run so far, newest first. -/
def accOf (act : LazyAct) (acc : List Nat) : List Nat :=
  match act with
  | .exec t _ => t :: acc
  | _ => acc

/-- Each iteration of the loop pops the HEAD of the queue, runs it on the world without it, and
    continues; the ghost log records the pop first, then whatever the action itself caused
    (a nested `maintain`), then the rest of the loop. -/
theorem runQueueG_cons (f : Nat) (w : World) (acc : List Nat) (act : LazyAct) (rest : List LazyAct)
    (hq : w.queue = act :: rest) :
    runQueueG (f + 1) w acc =
      ((runQueueG f (runActG f { w with queue := rest } act).1 (accOf act acc)).1,
       .pop act.tag :: ((runActG f { w with queue := rest } act).2 ++
         (runQueueG f (runActG f { w with queue := rest } act).1 (accOf act acc)).2)) := by
  simp only [runQueueG, hq]
  cases act <;> rfl

theorem runQueueG_nil (f : Nat) (w : World) (acc : List Nat) (hq : w.queue = []) :
    runQueueG f w acc = ((w, acc.reverse), []) := by
  cases f <;> simp only [runQueueG, hq]

/-- The `acts` list reported by `maintain` (tags of the scripts it ran) is a sublist of the pops. -/
theorem runQueueG_acts (f : Nat) : ∀ (w : World) (acc : List Nat),
    ∃ l, (runQueueG f w acc).1.2 = acc.reverse ++ l ∧ l.Sublist (pops (runQueueG f w acc).2) := by
  induction f with
  | zero => intro w acc; exact ⟨[], by simp [runQueueG], by simp [runQueueG, pops]⟩
  | succ f ih =>
    intro w acc
    cases hq : w.queue with
    | nil => rw [runQueueG_nil _ _ _ hq]; exact ⟨[], by simp, by simp [pops]⟩
    | cons act rest =>
      rw [runQueueG_cons f w acc act rest hq]
      cases act with
      | exec t s =>
        obtain ⟨l, h1, h2⟩ := ih (runActG f { w with queue := rest } (.exec t s)).1 (t :: acc)
        refine ⟨t :: l, by simp only [accOf]; rw [h1]; simp, ?_⟩
        simp only [pops, List.filterMap_cons, LazyAct.tag, List.filterMap_append]
        exact List.Sublist.cons_cons _ (h2.trans (List.sublist_append_right _ _))
      | ins t k e v =>
        obtain ⟨l, h1, h2⟩ := ih (runActG f { w with queue := rest } (.ins t k e v)).1 acc
        refine ⟨l, h1, ?_⟩
        simp only [pops, List.filterMap_cons, LazyAct.tag, List.filterMap_append]
        exact (h2.trans (List.sublist_append_right _ _)).trans (List.sublist_cons_self _ _)
      | insAll t k items =>
        obtain ⟨l, h1, h2⟩ := ih (runActG f { w with queue := rest } (.insAll t k items)).1 acc
        refine ⟨l, h1, ?_⟩
        simp only [pops, List.filterMap_cons, LazyAct.tag, List.filterMap_append]
        exact (h2.trans (List.sublist_append_right _ _)).trans (List.sublist_cons_self _ _)
      | rem t k e =>
        obtain ⟨l, h1, h2⟩ := ih (runActG f { w with queue := rest } (.rem t k e)).1 acc
        refine ⟨l, h1, ?_⟩
        simp only [pops, List.filterMap_cons, LazyAct.tag, List.filterMap_append]
        exact (h2.trans (List.sublist_append_right _ _)).trans (List.sublist_cons_self _ _)

/-- FIFO: with enough fuel the loop logs exactly the tags queued at entry, in queue order, followed
    by the tags issued while it ran, in the order they were issued; and the queue ends up empty. -/
theorem runQueueG_fifo (f : Nat) (w : World) (acc : List Nat) (h : qsize w.queue + 2 ≤ f) :
    (runQueueG f w acc).1.1.queue = [] ∧ w.nextTag ≤ (runQueueG f w acc).1.1.nextTag ∧
    (runQueueG f w acc).2.map GEv.tag =
      tagsOf w ++ List.range' w.nextTag ((runQueueG f w acc).1.1.nextTag - w.nextTag) := by
  have hc := (cons_all f).2.2.2.1 w acc
  have he : (runQueueG f w acc).1.1.queue = [] := by
    rw [(ghost_agree f).2.2.2.1 w acc]; exact ((fuel_all f).2.2.2.1 w acc h).1
  refine ⟨he, hc.mono, ?_⟩
  have := hc.eq
  simpa [tagsOf, he] using this

/-! ## Runs of top-level operations with the ghost log -/

/-- Run a list of top-level operations, accumulating the ghost log over all of them. -/
def runG (fuel : Nat) : World → List WOp → World × List GEv
  | w, [] => (w, [])
  | w, op :: ops =>
    let r := stepG fuel w op
    let r2 := runG fuel r.1.1 ops
    (r2.1, r.2 ++ r2.2)

theorem runG_world (fuel : Nat) : ∀ (ops : List WOp) (w : World),
    (runG fuel w ops).1 = ops.foldl (fun w op => (World.step fuel w op).1) w := by
  intro ops
  induction ops with
  | nil => intro w; rfl
  | cons op ops ih =>
    intro w
    simp only [runG, List.foldl_cons, ih, (ghost_agree fuel).1 w op]

theorem cons_run (fuel : Nat) : ∀ (ops : List WOp) (w : World),
    Cons w (runG fuel w ops).1 (runG fuel w ops).2 := by
  intro ops
  induction ops with
  | nil => intro w; exact Cons.refl w
  | cons op ops ih =>
    intro w
    simp only [runG]
    exact ((cons_all fuel).1 w op).trans (ih _)

theorem runG_append (fuel : Nat) : ∀ (a b : List WOp) (w : World),
    runG fuel w (a ++ b) =
      ((runG fuel (runG fuel w a).1 b).1, (runG fuel w a).2 ++ (runG fuel (runG fuel w a).1 b).2) := by
  intro a
  induction a with
  | nil => intro b w; simp [runG]
  | cons op a ih => intro b w; simp only [List.cons_append, runG, ih, List.append_assoc]

theorem runG_single (fuel : Nat) (w : World) (op : WOp) :
    runG fuel w [op] = ((World.step fuel w op).1, (stepG fuel w op).2) := by
  simp [runG, (ghost_agree fuel).1 w op]

/-- The invariant holds in every reachable world. -/
theorem qinv_run (fuel : Nat) (ops : List WOp) : QInv (runG fuel {} ops).1 :=
  ((cons_run fuel ops {}).inv QInv.empty).1

theorem pops_eq_of_noDiscard (log : List GEv) (h : ∀ e ∈ log, ∃ t, e = .pop t) :
    pops log = log.map GEv.tag := by
  induction log with
  | nil => rfl
  | cons x log ih =>
    obtain ⟨t, rfl⟩ := h _ (List.mem_cons_self ..)
    simp only [pops, List.filterMap_cons, List.map_cons, GEv.tag]
    congr 1
    exact ih (fun e he => h e (List.mem_cons_of_mem _ he))

/-- `maintain` level: with enough fuel and no panic, the ghost log of one `maintain` is the queue
    at entry followed by everything queued while it ran, and nothing is left. -/
theorem maintainG_fifo (f : Nat) (w : World) (h : qsize w.queue + 3 ≤ f)
    (hne : ∀ why, (World.maintain f w).2 ≠ .panic why) :
    (maintainG f w).1.1.queue = [] ∧ w.nextTag ≤ (maintainG f w).1.1.nextTag ∧
    (maintainG f w).2.map GEv.tag =
      tagsOf w ++ List.range' w.nextTag ((maintainG f w).1.1.nextTag - w.nextTag) := by
  have hc := (cons_all f).2.2.2.2 w
  have he : (maintainG f w).1.1.queue = [] := by
    rw [(ghost_agree f).2.2.2.2 w]; exact ((fuel_all f).2.2.2.2 w h).2.1 hne
  refine ⟨he, hc.mono, ?_⟩
  have := hc.eq
  simpa [tagsOf, he] using this

/-! ## The purge that precedes the queue (c, continued) -/

theorem dropId_mask {m : Masked} {id : Nat} {r : SRes Unit} (h : m.dropId id = .ok r) :
    ∀ j, r.st.mask.mem j = (if j = id then false else m.mask.mem j) := by
  intro j
  unfold Masked.dropId at h
  split at h
  · simp only [Masked.lift] at h
    split at h
    · cases h; simp [BSet.mem_remove]
    · cases h
    · cases h
  · cases h
    rename_i hm
    split
    · rename_i hj; subst hj; simpa using hm
    · rfl

theorem dropAll_mask : ∀ (es : List Entity) (m : Masked) (acc : List Int) (r : SRes Unit),
    m.dropAll es acc = .ok r →
    ∀ j, (r.st.mask.mem j = true → m.mask.mem j = true) ∧ (∀ e ∈ es, e.id = j → r.st.mask.mem j = false) := by
  intro es
  induction es with
  | nil =>
    intro m acc r h j
    simp only [Masked.dropAll] at h
    cases h
    exact ⟨id, by simp⟩
  | cons e es ih =>
    intro m acc r h j
    simp only [Masked.dropAll, Masked.lift] at h
    split at h
    · rename_i r1 h1
      have hm := dropId_mask h1 j
      obtain ⟨i1, i2⟩ := ih _ _ _ h j
      refine ⟨?_, ?_⟩
      · intro hj
        have := i1 hj
        rw [hm] at this
        split at this
        · cases this
        · exact this
      · intro e' he' hid
        rcases List.mem_cons.mp he' with rfl | he'
        · cases hx : r.st.mask.mem j with
          | false => rfl
          | true =>
            have := i1 hx
            rw [hm] at this
            simp [hid] at this
        · exact i2 e' he' hid
    · cases h
    · cases h

/-- After `delete_components(es)` every registered storage has lost the bits of `es`, and no storage
    gained a bit. -/
theorem deleteComponents_purged (es : List Entity) :
    ∀ (ks : List Nat) (w w' : World), w.deleteComponents es ks = .ok w' →
    ∀ k m, w.store? k = some m →
      ∃ m', w'.store? k = some m' ∧ (∀ j, m'.mask.mem j = true → m.mask.mem j = true) ∧
        (k ∈ ks → ∀ e ∈ es, m'.mask.mem e.id = false) := by
  intro ks
  induction ks with
  | nil =>
    intro w w' h k m hm
    simp only [World.deleteComponents] at h
    cases h
    exact ⟨m, hm, fun _ => id, by simp⟩
  | cons k0 ks ih =>
    intro w w' h k m hm
    simp only [World.deleteComponents] at h
    split at h
    · rename_i hnone
      obtain ⟨m', h1, h2, h3⟩ := ih _ _ h k m hm
      refine ⟨m', h1, h2, ?_⟩
      intro hk
      rcases List.mem_cons.mp hk with rfl | hk
      · rw [hm] at hnone; cases hnone
      · exact h3 hk
    · rename_i m0 hm0
      split at h
      · rename_i r hr
        by_cases hk : k = k0
        · subst hk
          rw [hm] at hm0; cases hm0
          have hs : ((w.setStore k r.st).destroy r.destroyed).store? k = some r.st :=
            store?_setStore_self w k m r.st hm
          obtain ⟨m', h1, h2, h3⟩ := ih _ _ h k r.st hs
          refine ⟨m', h1, fun j hj => (dropAll_mask _ _ _ _ hr j).1 (h2 j hj), ?_⟩
          intro _ e he
          cases hx : m'.mask.mem e.id with
          | false => rfl
          | true =>
            have := (dropAll_mask _ _ _ _ hr e.id).2 e he rfl
            rw [h2 e.id hx] at this; cases this
        · have hs : ((w.setStore k0 r.st).destroy r.destroyed).store? k = some m := by
            rw [← hm]; exact store?_setStore_ne w k0 k r.st hk
          obtain ⟨m', h1, h2, h3⟩ := ih _ _ h k m hs
          refine ⟨m', h1, h2, ?_⟩
          intro hk'
          rcases List.mem_cons.mp hk' with rfl | hk'
          · exact absurd rfl hk
          · exact h3 hk'
      · cases h
      · cases h

/-! ## Statements at the level of the public operation `maintain` = `step (.ent .merge)` -/

theorem stepG_merge_fifo (f : Nat) (w : World) (h : qsize w.queue + 4 ≤ f)
    (hne : ∀ why, (World.step f w (.ent .merge)).2 ≠ .panic why) :
    (World.step f w (.ent .merge)).1.queue = [] ∧
    w.nextTag ≤ (World.step f w (.ent .merge)).1.nextTag ∧
    (stepG f w (.ent .merge)).2.map GEv.tag =
      tagsOf w ++ List.range' w.nextTag ((World.step f w (.ent .merge)).1.nextTag - w.nextTag) := by
  obtain ⟨f1, rfl⟩ : ∃ f1, f = f1 + 1 := ⟨f - 1, by omega⟩
  have e1 : World.step (f1 + 1) w (.ent .merge) = World.maintain f1 w := by simp only [World.step]
  have e2 : stepG (f1 + 1) w (.ent .merge) = maintainG f1 w := by simp only [stepG]
  rw [e1] at hne ⊢
  rw [e2]
  have := maintainG_fifo f1 w (by omega) hne
  rw [(ghost_agree f1).2.2.2.2 w] at this
  exact this

theorem range'_at (n n' t : Nat) (h1 : n ≤ t) (h2 : t < n') :
    List.range' n (n' - n) = List.range' n (t - n) ++ t :: List.range' (t + 1) (n' - t - 1) := by
  rw [← range'_split n t n' h1 (by omega)]
  congr 1
  have : n' - t = (n' - t - 1) + 1 := by omega
  rw [this, List.range'_succ]
  congr 2

/-- (c) in one statement: under the allocator invariant `merge` succeeds and leaves no pending
    creations or deletions; the purge of the merged deletions has cleared their bits in every
    registered storage; only then does the queue run — or the purge panicked and nothing ran. -/
theorem maintain_after_merge (w : World) (hinv : Alloc.Inv w.ent.alloc) :
    ∃ a, w.ent.alloc.merge = .ok (a, w.ent.alloc.killed.toList.map (fun i => ⟨i, w.ent.alloc.top i⟩)) ∧
      (∀ j, a.raised.mem j = false) ∧ (∀ j, a.killed.mem j = false) ∧
      (∀ j, a.occ j = (w.ent.alloc.occ j && !w.ent.alloc.killed.mem j)) ∧
      ((∃ w2, w2.ent.alloc = a ∧ w2.ent.log = w.ent.log ∧ w2.queue = w.queue ∧ w2.nextTag = w.nextTag ∧
          (∀ k m, w.store? k = some m → ∃ m', w2.store? k = some m' ∧
            (∀ j, m'.mask.mem j = true → m.mask.mem j = true) ∧
            (k ∈ w.table → ∀ i, w.ent.alloc.killed.mem i = true → m'.mask.mem i = false)) ∧
          ∀ f, World.step (f + 2) w (.ent .merge) =
            ((World.runQueue f w2 []).1, .acts (World.runQueue f w2 []).2)) ∨
       (∃ w' why, w'.queue = w.queue ∧ ∀ f, World.step (f + 1) w (.ent .merge) = (w', .panic why))) := by
  obtain ⟨a', hmerge, -, hocc, -, hk, hr, -⟩ := Alloc.merge_spec hinv
  refine ⟨a', hmerge, hr, hk, hocc, ?_⟩
  rcases maintain_cases w with ⟨a, deleted, w2, hm, hpurge, fr, hrun, -⟩ | ⟨w', why, hqn, hp⟩
  · rw [hmerge] at hm
    injection hm with hm
    injection hm with ha hdel
    subst ha
    refine .inl ⟨w2, by rw [fr.ent], by rw [fr.ent], fr.queue, fr.nextTag, ?_, ?_⟩
    · intro k m hkm
      by_cases hd : deleted.isEmpty = true
      · simp only [hd, if_true] at hpurge
        injection hpurge with hpurge
        subst hpurge
        refine ⟨m, hkm, fun _ => id, ?_⟩
        intro _ i hi
        exfalso
        have : i ∈ w.ent.alloc.killed.toList := (BSet.mem_toList _ _).mpr hi
        rw [← hdel] at hd
        simp only [List.isEmpty_iff, List.map_eq_nil_iff] at hd
        rw [hd] at this
        cases this
      · simp only [hd, if_false, Bool.false_eq_true] at hpurge
        obtain ⟨m', h1, h2, h3⟩ := deleteComponents_purged deleted w.table _ w2 hpurge k m hkm
        refine ⟨m', h1, h2, ?_⟩
        intro hkt i hi
        have hmem : (⟨i, w.ent.alloc.top i⟩ : Entity) ∈ deleted := by
          rw [← hdel]
          exact List.mem_map.mpr ⟨i, (BSet.mem_toList _ _).mpr hi, rfl⟩
        exact h3 hkt _ hmem
    · intro f
      simp only [World.step]
      exact hrun f
  · simp only [qn, Prod.mk.injEq] at hqn
    exact .inr ⟨w', why, hqn.1, fun f => by simp only [World.step]; exact hp f⟩

end LazyQ
end SpecsModel
