/-
  C08, world level: every operation other than `maintain` preserves the extra invariant `XInv`,
  does not panic, and balances the ledger: `Bal w w' (opIn op r, opOut op r)`.
-/
import SpecsModel.Lemmas.LedgerWorld
namespace SpecsModel
open Masked Alloc
namespace World

/-- What every operation establishes. -/
structure Led (w : World) (op : WOp) (res : World × WRes) : Prop where
  xinv : XInv res.1
  bal : Bal w res.1 (opIn op res.2, opOut op res.2)
  noPanic : res.2.isPanic = false

theorem destroy_nil (w : World) : w.destroy [] = w := rfl

/-- Nothing relevant changed, nothing moved. -/
theorem Led.same {w : World} (hx : XInv w) {op : WOp} {w' : World} {r : WRes}
    (hs : w'.stores = w.stores) (ht : w'.table = w.table) (hq : w'.queue = w.queue)
    (hl : w'.ledger = w.ledger) (hin : opIn op r = []) (hout : opOut op r = [])
    (hp : r.isPanic = false) : Led w op (w', r) :=
  ⟨hx.of_same hs ht hq, by simp only [hin, hout]; exact Bal.of_tot (tot_congr hs hq hl), hp⟩

/-! ### Handle-taking storage operations -/

theorem led_handle_case {α} {w : World} (hi : WInv w) (hx : XInv w) (op : WOp) (k hd : Nat)
    (f : Masked → Alloc → Entity → Out (SRes α)) (g : α → WRes) (inF outF : α → List Int)
    (hf : ∀ ms a e, StOk k ms → ∃ r, f ms a e = .ok r ∧ StOk k r.st ∧
      ∀ c : Int, c ≠ 0 → r.st.held.count c + r.destroyed.count c + (outF r.val).count c =
        ms.held.count c + (inF r.val).count c)
    (hg : ∀ x, (g x).isPanic = false ∧ opIn op (g x) = inF x ∧ opOut op (g x) = outF x)
    (h0 : opIn op .noStore = [] ∧ opOut op .noStore = [] ∧ opIn op .skip = [] ∧ opOut op .skip = []) :
    Led w op (match w.store? k, resolve w.ent.log hd with
      | none, _ => (w, WRes.noStore)
      | _, none => (w, WRes.skip)
      | some m, some e => w.applyS k (f m w.ent.alloc e) g) := by
  cases hst : w.store? k with
  | none => exact Led.same hx rfl rfl rfl rfl h0.1 h0.2.1 rfl
  | some m =>
    cases hr : resolve w.ent.log hd with
    | none => exact Led.same hx rfl rfl rfl rfl h0.2.2.1 h0.2.2.2 rfl
    | some e =>
      obtain ⟨r, h1, h2, h3⟩ := hf m w.ent.alloc e (stOk_of hi hx hst)
      obtain ⟨a1, a2, a3⟩ := led_applyS hx hst h1 h2 (inF r.val) (outF r.val) h3 g
      simp only
      refine ⟨a1, ?_, ?_⟩
      · rw [a3, (hg r.val).2.1, (hg r.val).2.2]; exact a2
      · rw [a3]; exact (hg r.val).1

theorem led_getMut {w : World} (hi : WInv w) (hx : XInv w) (fuel k hd d : Nat) (wr : Option Int)
    (hop : opOk (.getMut k hd d wr) = true) : Led w (.getMut k hd d wr) (step fuel w (.getMut k hd d wr)) := by
  simp only [step]
  exact led_handle_case hi hx _ k hd (fun ms a e => ms.getMut a e d wr) .opt (accIn wr) (accOut wr)
    (fun ms a e h => by
      obtain ⟨r, h1, h2, _, h4⟩ := h.getMut a e d wr ((wOkB_iff k wr).mp (by simpa [opOk] using hop))
      exact ⟨r, h1, h2, h4⟩)
    (fun x => ⟨rfl, rfl, rfl⟩) ⟨rfl, rfl, rfl, rfl⟩

theorem led_ins {w : World} (hi : WInv w) (hx : XInv w) (fuel k hd : Nat) (v : Int)
    (hop : opOk (.ins k hd v) = true) : Led w (.ins k hd v) (step fuel w (.ins k hd v)) := by
  simp only [step]
  exact led_handle_case hi hx _ k hd (fun ms a e => ms.insert a e v) .ins (fun _ => [v]) insOut
    (fun ms a e h => by
      obtain ⟨r, h1, h2, _, h4⟩ := h.insert a e v ((vOkB_iff k v).mp (by simpa [opOk] using hop))
      exact ⟨r, h1, h2, h4⟩)
    (fun x => ⟨rfl, rfl, rfl⟩) ⟨rfl, rfl, rfl, rfl⟩

theorem led_rem {w : World} (hi : WInv w) (hx : XInv w) (fuel k hd : Nat) :
    Led w (.rem k hd) (step fuel w (.rem k hd)) := by
  simp only [step]
  exact led_handle_case hi hx _ k hd (fun ms a e => ms.remove a e) .opt (fun _ => []) Option.toList
    (fun ms a e h => by
      obtain ⟨r, h1, h2, h3⟩ := h.remove a e
      exact ⟨r, h1, h2, fun c _ => by simpa using h3 c⟩)
    (fun x => ⟨rfl, rfl, rfl⟩) ⟨rfl, rfl, rfl, rfl⟩

theorem led_entry {w : World} (hi : WInv w) (hx : XInv w) (fuel k hd : Nat) (eop : EntryOp)
    (hop : opOk (.entry k hd eop) = true) : Led w (.entry k hd eop) (step fuel w (.entry k hd eop)) := by
  simp only [step]
  exact led_handle_case hi hx _ k hd (fun ms a e => ms.entry a e eop) .entry (entryIn eop) (entryOut eop)
    (fun ms a e h => h.entry a e eop ((entryOkB_iff k eop).mp (by simpa [opOk] using hop)))
    (fun x => ⟨rfl, rfl, rfl⟩) ⟨rfl, rfl, rfl, rfl⟩

theorem led_mutOrDefault {w : World} (hi : WInv w) (hx : XInv w) (fuel k hd d : Nat) (wr : Option Int)
    (hop : opOk (.mutOrDefault k hd d wr) = true) :
    Led w (.mutOrDefault k hd d wr) (step fuel w (.mutOrDefault k hd d wr)) := by
  simp only [step]
  exact led_handle_case hi hx _ k hd (fun ms a e => ms.getMutOrDefault a e d wr) .opt (accIn wr) (accOut wr)
    (fun ms a e h => h.getMutOrDefault a e d wr ((wOkB_iff k wr).mp (by simpa [opOk] using hop)))
    (fun x => ⟨rfl, rfl, rfl⟩) ⟨rfl, rfl, rfl, rfl⟩

/-! ### Reads -/

theorem led_get {w : World} (hi : WInv w) (hx : XInv w) (fuel k hd : Nat) :
    Led w (.get k hd) (step fuel w (.get k hd)) := by
  simp only [step]
  cases hst : w.store? k with
  | none => exact Led.same hx rfl rfl rfl rfl rfl rfl rfl
  | some m =>
    cases hr : resolve w.ent.log hd with
    | none => exact Led.same hx rfl rfl rfl rfl rfl rfl rfl
    | some e =>
      obtain ⟨v, hv⟩ := (stOk_of hi hx hst).get w.ent.alloc e
      simp only [hv]
      exact Led.same hx rfl rfl rfl rfl rfl rfl rfl

/-! ### Whole-storage operations -/

theorem led_clear {w : World} (hi : WInv w) (hx : XInv w) (fuel k : Nat) :
    Led w (.clear k) (step fuel w (.clear k)) := by
  simp only [step]
  cases hst : w.store? k with
  | none => exact Led.same hx rfl rfl rfl rfl rfl rfl rfl
  | some m =>
    obtain ⟨r, h1, h2, h3, h4⟩ := (stOk_of hi hx hst).clear
    obtain ⟨a1, a2, a3⟩ := led_applyS hx hst h1 h2 [] []
      (fun c hc => by rw [h3, h4 c hc]; simp) (fun _ => WRes.unit)
    simp only
    refine ⟨a1, ?_, by rw [a3]; rfl⟩
    rw [a3]; exact a2

theorem led_drain {w : World} (hi : WInv w) (hx : XInv w) (fuel k n : Nat) :
    Led w (.drain k n) (step fuel w (.drain k n)) := by
  simp only [step]
  cases hst : w.store? k with
  | none => exact Led.same hx rfl rfl rfl rfl rfl rfl rfl
  | some m =>
    obtain ⟨r, h1, h2, h3⟩ := (stOk_of hi hx hst).drain n
    obtain ⟨a1, a2, a3⟩ := led_applyS hx hst h1 h2 [] (r.val.map (·.2))
      (fun c _ => by simpa using h3 c) WRes.pairs
    simp only
    refine ⟨a1, ?_, by rw [a3]; rfl⟩
    rw [a3]; exact a2

theorem led_emit {w : World} (hi : WInv w) (hx : XInv w) (fuel k : Nat) (b : Bool) :
    Led w (.emit k b) (step fuel w (.emit k b)) := by
  simp only [step]
  cases hst : w.store? k with
  | none => exact Led.same hx rfl rfl rfl rfl rfl rfl rfl
  | some m =>
    obtain ⟨h1, h2⟩ := (stOk_of hi hx hst).setEmit b
    simp only
    refine ⟨by simpa [destroy_nil] using hx.setStore hst h1 [], ?_, rfl⟩
    intro c _
    have := tot_setStore_some w k m { m with inner := m.inner.setEmit b } [] hst c
    rw [destroy_nil, h2] at this
    simp only [opIn, opOut, List.count_nil] at this ⊢
    omega

/-! ### Queueing -/

theorem led_enqueue {w : World} (hx : XInv w) (mk : Nat → LazyAct) (hok : ActOk w (mk w.nextTag)) :
    XInv (w.enqueue mk).1 ∧ Bal w (w.enqueue mk).1 (queuedValues (mk w.nextTag), []) := by
  constructor
  · refine ⟨hx.st, hx.nodup, ?_⟩
    intro act hact
    simp only [enqueue, List.mem_append, List.mem_singleton] at hact
    rcases hact with hact | rfl
    · exact (hx.queue act hact).mono (fun _ h => h)
    · exact hok.mono (fun _ h => h)
  · intro c _
    simp only [enqueue, tot, held, heldStores, heldQueue, List.map_append, List.flatten_append,
      List.count_append, List.map_cons, List.map_nil, List.flatten_cons, List.flatten_nil,
      List.append_nil, List.count_nil]
    have e1 : ∀ j, ({ w with queue := w.queue ++ [mk w.nextTag], nextTag := w.nextTag + 1 } : World).store? j
        = w.store? j := fun _ => rfl
    simp only [e1]
    omega

theorem resolveAll_length {log : Array Entity} {ks : List Nat} {es : List Entity}
    (h : resolveAll log ks = some es) : es.length = ks.length := by
  unfold resolveAll at h
  split at h
  · cases h
  · next hz =>
    cases h
    have : ∀ k, log[k % log.size]? = some (log[k % log.size]'(Nat.mod_lt _ (by omega))) := by
      intro k; exact Array.getElem?_eq_getElem _
    have e : (fun k => log[k % log.size]?) =
        fun k => some (log[k % log.size]'(Nat.mod_lt _ (by omega))) := funext this
    rw [e]
    have : ∀ (l : List Nat), (l.filterMap (fun k => some (log[k % log.size]'(Nat.mod_lt _ (by omega))))).length
        = l.length := by
      intro l; induction l with
      | nil => rfl
      | cons a l ih => simp
    exact this ks

theorem led_lazyIns {w : World} (hx : XInv w) (fuel k hd : Nat) (v : Int)
    (hop : opOk (.lazyIns k hd v) = true) : Led w (.lazyIns k hd v) (step fuel w (.lazyIns k hd v)) := by
  simp only [step]
  cases hst : w.store? k with
  | none => exact Led.same hx rfl rfl rfl rfl rfl rfl rfl
  | some m =>
    cases hr : resolve w.ent.log hd with
    | none => exact Led.same hx rfl rfl rfl rfl rfl rfl rfl
    | some e =>
      obtain ⟨a1, a2⟩ := led_enqueue hx (fun t => LazyAct.ins t k e v)
        ⟨by rw [hst]; rfl, (vOkB_iff k v).mp (by simpa [opOk] using hop)⟩
      exact ⟨a1, a2, rfl⟩

theorem led_lazyInsAll {w : World} (hx : XInv w) (fuel k : Nat) (items : List (Nat × Int))
    (hop : opOk (.lazyInsAll k items) = true) :
    Led w (.lazyInsAll k items) (step fuel w (.lazyInsAll k items)) := by
  simp only [step]
  cases hst : w.store? k with
  | none => exact Led.same hx rfl rfl rfl rfl rfl rfl rfl
  | some m =>
    cases hr : resolveAll w.ent.log (items.map (·.1)) with
    | none => exact Led.same hx rfl rfl rfl rfl rfl rfl rfl
    | some es =>
      have hlen : es.length = (items.map (·.2)).length := by
        rw [resolveAll_length hr]; simp
      have hall : ∀ p ∈ items, vOk k p.2 := by
        intro p hp
        have : items.all (fun p => vOkB k p.2) = true := by simpa [opOk] using hop
        exact (vOkB_iff k p.2).mp (List.all_eq_true.mp this p hp)
      obtain ⟨a1, a2⟩ := led_enqueue hx (fun t => LazyAct.insAll t k (es.zip (items.map (·.2))))
        ⟨by rw [hst]; rfl, by
          intro p hp
          obtain ⟨q, hq, hq2⟩ := List.mem_map.mp (List.of_mem_zip hp).2
          rw [← hq2]; exact hall q hq⟩
      refine ⟨a1, ?_, rfl⟩
      have hv : queuedValues (LazyAct.insAll w.nextTag k (es.zip (items.map (·.2)))) = items.map (·.2) := by
        simp only [queuedValues]
        rw [← List.unzip_snd, List.unzip_zip hlen]
      rw [hv] at a2
      exact a2

theorem led_lazyRem {w : World} (hx : XInv w) (fuel k hd : Nat) :
    Led w (.lazyRem k hd) (step fuel w (.lazyRem k hd)) := by
  simp only [step]
  cases hst : w.store? k with
  | none => exact Led.same hx rfl rfl rfl rfl rfl rfl rfl
  | some m =>
    cases hr : resolve w.ent.log hd with
    | none => exact Led.same hx rfl rfl rfl rfl rfl rfl rfl
    | some e =>
      obtain ⟨a1, a2⟩ := led_enqueue hx (fun t => LazyAct.rem t k e) trivial
      exact ⟨a1, a2, rfl⟩

theorem led_lazyExec {w : World} (hx : XInv w) (fuel : Nat) (s : List WOp)
    (hop : opOk (.lazyExec s) = true) : Led w (.lazyExec s) (step fuel w (.lazyExec s)) := by
  simp only [step]
  obtain ⟨a1, a2⟩ := led_enqueue hx (fun t => LazyAct.exec t s)
    (show scriptOk s = true by simpa [opOk] using hop)
  exact ⟨a1, a2, rfl⟩

end World
end SpecsModel
