/-
  How each `Storage` API function of the model changes the membership mask, whenever it returns
  normally. (That it always returns normally on well-formed storages is Lemmas/MaskedRep.)
-/
import SpecsModel.Model.Storage
namespace SpecsModel
namespace Masked

theorem lift_eq_ok {α β} {o : Out α} {f : α → Out β} {b : β} (h : lift o f = .ok b) :
    ∃ a, o = .ok a ∧ f a = .ok b := by
  cases o with
  | ok a => exact ⟨a, rfl, h⟩
  | panic w => simp [lift] at h
  | ub w => simp [lift] at h

theorem getMut_mask {m : Masked} {a : Alloc} {e : Entity} {d : Nat} {w : Option Int}
    {r : SRes (Option Int)} (h : m.getMut a e d w = .ok r) : r.st.mask = m.mask := by
  unfold getMut at h
  split at h
  · obtain ⟨old, _, h2⟩ := lift_eq_ok h
    cases w with
    | none => simp at h2; rw [← h2]
    | some v =>
      simp only at h2
      obtain ⟨inner', _, h3⟩ := lift_eq_ok h2
      simp at h3; rw [← h3]
  · simp at h; rw [← h]

theorem notPresentInsert_mask {m : Masked} {id : Nat} {v : Int} {r : SRes Unit}
    (h : m.notPresentInsert id v = .ok r) : r.st.mask = m.mask.add id := by
  unfold notPresentInsert at h
  obtain ⟨⟨inner, d⟩, _, h2⟩ := lift_eq_ok h
  simp at h2; rw [← h2]

/-- `insert`: a bit can only be set at the index of an alive handle. -/
theorem insert_mask {m : Masked} {a : Alloc} {e : Entity} {v : Int} {r : SRes InsRes}
    (h : m.insert a e v = .ok r) :
    ∀ j, r.st.mask.mem j = if j = e.id ∧ a.isAlive e = true then true else m.mask.mem j := by
  intro j
  unfold insert at h
  by_cases hal : a.isAlive e = true
  · simp only [hal, if_true] at h
    by_cases hm : m.mask.mem e.id = true
    · simp only [hm, if_true] at h
      obtain ⟨old, _, h2⟩ := lift_eq_ok h
      obtain ⟨inner, _, h3⟩ := lift_eq_ok h2
      simp at h3; rw [← h3]
      by_cases hj : j = e.id
      · subst hj; simp [hm, hal]
      · simp [hj]
    · simp only [hm] at h
      obtain ⟨r1, h1, h2⟩ := lift_eq_ok h
      simp at h2; rw [← h2]; simp only
      rw [notPresentInsert_mask h1, BSet.mem_add]
      by_cases hj : j = e.id <;> simp [hj, hal]
  · simp only [hal] at h
    simp at h; rw [← h]; simp [hal]

theorem removeId_mask {m : Masked} {id : Nat} {r : SRes (Option Int)} (h : m.removeId id = .ok r) :
    ∀ j, r.st.mask.mem j = if j = id then false else m.mask.mem j := by
  intro j
  unfold removeId at h
  by_cases hm : m.mask.mem id = true
  · simp only [hm, if_true] at h
    obtain ⟨⟨inner, v⟩, _, h2⟩ := lift_eq_ok h
    simp at h2; rw [← h2]; simp only; rw [BSet.mem_remove]
  · simp only [hm] at h
    simp at h; rw [← h]
    by_cases hj : j = id
    · subst hj; simp at hm; simp [hm]
    · simp [hj]

theorem remove_mask {m : Masked} {a : Alloc} {e : Entity} {r : SRes (Option Int)}
    (h : m.remove a e = .ok r) : ∀ j, r.st.mask.mem j = true → m.mask.mem j = true := by
  intro j hj
  unfold remove at h
  split at h
  · have := removeId_mask h j; rw [this] at hj; split at hj <;> simp_all
  · simp at h; rw [← h] at hj; exact hj

theorem dropId_mask {m : Masked} {id : Nat} {r : SRes Unit} (h : m.dropId id = .ok r) :
    ∀ j, r.st.mask.mem j = if j = id then false else m.mask.mem j := by
  intro j
  unfold dropId at h
  by_cases hm : m.mask.mem id = true
  · simp only [hm, if_true] at h
    obtain ⟨⟨inner, v⟩, _, h2⟩ := lift_eq_ok h
    simp at h2; rw [← h2]; simp only; rw [BSet.mem_remove]
  · simp only [hm] at h
    simp at h; rw [← h]
    by_cases hj : j = id
    · subst hj; simp at hm; simp [hm]
    · simp [hj]

/-- `AnyStorage::drop(entities)`: exactly the listed indices are cleared. -/
theorem dropAll_mask : ∀ (es : List Entity) (m : Masked) (acc : List Int) (r : SRes Unit),
    m.dropAll es acc = .ok r →
    ∀ j, r.st.mask.mem j = (m.mask.mem j && !(es.map (·.id)).contains j) := by
  intro es
  induction es with
  | nil => intro m acc r h j; simp [dropAll] at h; rw [← h]; simp
  | cons e es ih =>
    intro m acc r h j
    simp only [dropAll] at h
    obtain ⟨r1, h1, h2⟩ := lift_eq_ok h
    rw [ih r1.st _ r h2 j, dropId_mask h1 j]
    by_cases hj : j = e.id
    · subst hj; simp
    · have : (j == e.id) = false := by simpa using hj
      simp [hj, this]

theorem clear_mask {m : Masked} {r : SRes Unit} (h : m.clear = .ok r) : ∀ j, r.st.mask.mem j = false := by
  intro j
  unfold clear at h
  obtain ⟨⟨inner, d⟩, _, h2⟩ := lift_eq_ok h
  simp at h2; rw [← h2]; simp

theorem drainLoop_mask : ∀ (ids : List Nat) (m : Masked) (n : Nat) (acc : List (Nat × Int))
    (r : SRes (List (Nat × Int))), m.drainLoop ids n acc = .ok r →
    ∀ j, r.st.mask.mem j = true → m.mask.mem j = true := by
  intro ids
  induction ids with
  | nil => intro m n acc r h j hj; simp [drainLoop] at h; rw [← h] at hj; exact hj
  | cons id ids ih =>
    intro m n acc r h j hj
    cases n with
    | zero => simp [drainLoop] at h; rw [← h] at hj; exact hj
    | succ n =>
      simp only [drainLoop] at h
      obtain ⟨r1, h1, h2⟩ := lift_eq_ok h
      cases hv : r1.val with
      | none => simp [hv] at h2
      | some v =>
        simp only [hv] at h2
        have := ih r1.st n _ r h2 j hj
        rw [removeId_mask h1 j] at this
        split at this <;> simp_all

theorem drain_mask {m : Masked} {n : Nat} {r : SRes (List (Nat × Int))} (h : m.drain n = .ok r) :
    ∀ j, r.st.mask.mem j = true → m.mask.mem j = true :=
  drainLoop_mask _ m n [] r h

/-- `entry` + one entry operation: a bit can only be set at the index of an alive handle. -/
theorem entry_mask {m : Masked} {a : Alloc} {e : Entity} {op : EntryOp} {r : SRes EntryRes}
    (h : m.entry a e op = .ok r) :
    ∀ j, r.st.mask.mem j = true → (m.mask.mem j = true ∨ (j = e.id ∧ a.isAlive e = true)) := by
  intro j hj
  unfold entry at h
  by_cases hal : a.isAlive e = true
  · simp only [hal, if_true] at h
    by_cases hm : m.mask.mem e.id = true
    · simp only [hm, if_true] at h
      cases op with
      | orInsert v0 d w =>
        simp only at h
        obtain ⟨old, _, h2⟩ := lift_eq_ok h
        cases w with
        | none => simp at h2; rw [← h2] at hj; exact Or.inl hj
        | some v =>
          simp only at h2
          obtain ⟨inner', _, h3⟩ := lift_eq_ok h2
          simp at h3; rw [← h3] at hj; exact Or.inl hj
      | replace v =>
        simp only at h
        obtain ⟨old, _, h2⟩ := lift_eq_ok h
        obtain ⟨inner, _, h3⟩ := lift_eq_ok h2
        simp at h3; rw [← h3] at hj; exact Or.inl hj
      | remove =>
        simp only at h
        obtain ⟨r1, h1, h2⟩ := lift_eq_ok h
        cases hv : r1.val with
        | none => simp [hv] at h2
        | some v =>
          simp [hv] at h2; rw [← h2] at hj; simp only at hj
          have := removeId_mask h1 j; rw [this] at hj
          split at hj <;> simp_all
    · simp only [hm] at h
      cases op with
      | orInsert v d w =>
        simp only at h
        obtain ⟨r1, h1, h2⟩ := lift_eq_ok h
        have hmask := notPresentInsert_mask h1
        cases w with
        | none =>
          simp at h2; rw [← h2] at hj; simp only at hj
          rw [hmask, BSet.mem_add] at hj
          by_cases hje : j = e.id
          · exact Or.inr ⟨hje, hal⟩
          · simp [hje] at hj; exact Or.inl hj
        | some v' =>
          simp only at h2
          obtain ⟨inner', _, h3⟩ := lift_eq_ok h2
          simp at h3; rw [← h3] at hj; simp only at hj
          rw [hmask, BSet.mem_add] at hj
          by_cases hje : j = e.id
          · exact Or.inr ⟨hje, hal⟩
          · simp [hje] at hj; exact Or.inl hj
      | replace v =>
        simp only at h
        obtain ⟨r1, h1, h2⟩ := lift_eq_ok h
        have hmask := notPresentInsert_mask h1
        simp at h2; rw [← h2] at hj; simp only at hj
        rw [hmask, BSet.mem_add] at hj
        by_cases hje : j = e.id
        · exact Or.inr ⟨hje, hal⟩
        · simp [hje] at hj; exact Or.inl hj
      | remove => simp at h; rw [← h] at hj; exact Or.inl hj
  · simp only [hal] at h
    simp at h; rw [← h] at hj; exact Or.inl hj

theorem getMutOrDefault_mask {m : Masked} {a : Alloc} {e : Entity} {d : Nat} {w : Option Int}
    {r : SRes (Option Int)} (h : m.getMutOrDefault a e d w = .ok r) :
    ∀ j, r.st.mask.mem j = true → (m.mask.mem j = true ∨ (j = e.id ∧ a.isAlive e = true)) := by
  intro j hj
  unfold getMutOrDefault at h
  split at h
  · obtain ⟨r1, h1, h2⟩ := lift_eq_ok h
    have hm1 := insert_mask h1 j
    cases hv : r1.val with
    | wrongGen =>
      simp [hv] at h2; rw [← h2] at hj; simp only at hj
      rw [hm1] at hj; split at hj
      · next hc => exact Or.inr hc
      · exact Or.inl hj
    | inserted =>
      simp only [hv] at h2
      obtain ⟨r2, h3, h4⟩ := lift_eq_ok h2
      simp at h4; rw [← h4] at hj; simp only at hj
      rw [getMut_mask h3, hm1] at hj; split at hj
      · next hc => exact Or.inr hc
      · exact Or.inl hj
    | replaced old =>
      simp only [hv] at h2
      obtain ⟨r2, h3, h4⟩ := lift_eq_ok h2
      simp at h4; rw [← h4] at hj; simp only at hj
      rw [getMut_mask h3, hm1] at hj; split at hj
      · next hc => exact Or.inr hc
      · exact Or.inl hj
  · rw [getMut_mask h] at hj; exact Or.inl hj

end Masked
end SpecsModel
