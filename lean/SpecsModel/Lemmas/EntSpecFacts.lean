/-
  Facts about the abstract entity specification alone: what acceptance by the monitor means.
  These hold for *any* accepted event sequence, in particular for the implementation's.
-/
import SpecsModel.Spec.EntSpec
namespace SpecsModel
namespace EntSpec

theorem killPrefix_sub : ∀ (es live pending : List Entity) (pos : Nat),
    (∀ x, x ∈ (killPrefix live pending es pos).1 → x ∈ live) ∧
    (∀ x, x ∈ (killPrefix live pending es pos).2.1 → x ∈ pending) ∧
    (killPrefix live pending es pos).1.length ≤ live.length := by
  intro es
  induction es with
  | nil => intro live pending pos; simp [killPrefix]
  | cons e es ih =>
    intro live pending pos
    simp only [killPrefix]
    split
    · obtain ⟨h1, h2, h3⟩ := ih (live.erase e) (pending.erase e) (pos + 1)
      refine ⟨fun x hx => List.mem_of_mem_erase (h1 x hx), fun x hx => List.mem_of_mem_erase (h2 x hx), ?_⟩
      have := List.length_erase_le (a := e) (l := live)
      omega
    · simp

/-- What a single accepted step does to `seen`, `live` and `peak`. -/
theorem step_facts {s s' : EntSpec} {ev : EntEv} (h : s.step ev = .ok s') :
    ((∃ e, ev = .created e ∧ e ∉ s.seen ∧ s'.seen = e :: s.seen ∧ s'.live = s.live ++ [e] ∧
        s'.peak = max s.peak (s.live.length + 1) ∧ e.id < s'.peak ∧ e.id ∉ s.live.map (·.id)) ∨
     ((∀ e, ev ≠ .created e) ∧ s'.seen = s.seen ∧ s'.peak = s.peak ∧ (∀ x, x ∈ s'.live → x ∈ s.live) ∧
        s'.live.length ≤ s.live.length)) := by
  cases ev with
  | created e =>
    left
    simp only [step] at h
    split at h
    · cases h
    · split at h
      · cases h
      · split at h
        · cases h
        · split at h
          · next h1 h2 h3 h4 =>
            cases h
            refine ⟨e, rfl, by simpa using h2, rfl, rfl, by simp, ?_, by simpa using h3⟩
            simpa using h4
          · cases h
  | kill es r =>
    right
    simp only [step] at h
    split at h
    · cases h
      obtain ⟨h1, _, h3⟩ := killPrefix_sub es s.live s.pending 0
      exact ⟨(fun _ he => nomatch he), rfl, rfl, h1, h3⟩
    · cases h
  | killAtomic e ok =>
    right
    simp only [step] at h
    split at h
    · split at h
      · cases h; exact ⟨(fun _ he => nomatch he), rfl, rfl, fun x hx => hx, Nat.le_refl _⟩
      · cases h
    · split at h
      · cases h
      · cases h; exact ⟨(fun _ he => nomatch he), rfl, rfl, fun x hx => hx, Nat.le_refl _⟩
  | merge =>
    right
    simp only [step] at h; cases h
    exact ⟨(fun _ he => nomatch he), rfl, rfl, fun x hx => (List.mem_filter.mp hx).1,
      List.length_filter_le _ _⟩
  | isAlive e r =>
    right
    simp only [step] at h
    split at h
    · cases h; exact ⟨(fun _ he => nomatch he), rfl, rfl, fun x hx => hx, Nat.le_refl _⟩
    · cases h
  | join es =>
    right
    simp only [step] at h
    split at h
    · cases h; exact ⟨(fun _ he => nomatch he), rfl, rfl, fun x hx => hx, Nat.le_refl _⟩
    · cases h
  | deleteAll =>
    right
    simp only [step] at h; cases h
    exact ⟨(fun _ he => nomatch he), rfl, rfl, by simp, by simp⟩

/-- Handles created by an event list. -/
def createdBy : List EntEv → List Entity
  | [] => []
  | .created e :: t => e :: createdBy t
  | _ :: t => createdBy t

/-- Along an accepted run: `seen` is exactly the created handles on top of the old `seen`, and
    stays duplicate-free — no handle is ever returned twice (C01). -/
theorem run_seen : ∀ (evs : List EntEv) (s s' : EntSpec), s.run evs = .ok s' → s.seen.Nodup →
    s'.seen = (createdBy evs).reverse ++ s.seen ∧ s'.seen.Nodup := by
  intro evs
  induction evs with
  | nil => intro s s' h hn; simp only [run] at h; cases h; exact ⟨by simp [createdBy], hn⟩
  | cons ev evs ih =>
    intro s s' h hn
    simp only [run] at h
    cases hs : s.step ev with
    | error w => simp [hs] at h
    | ok s1 =>
      simp only [hs] at h
      rcases step_facts hs with ⟨e, rfl, hns, hseen, _⟩ | ⟨hnc, hseen, _⟩
      · obtain ⟨h1, h2⟩ := ih s1 s' h (by rw [hseen]; exact List.nodup_cons.mpr ⟨hns, hn⟩)
        exact ⟨by rw [h1, hseen]; simp [createdBy], h2⟩
      · obtain ⟨h1, h2⟩ := ih s1 s' h (by rw [hseen]; exact hn)
        refine ⟨?_, h2⟩
        rw [h1, hseen]
        cases ev <;> first | rfl | exact absurd rfl (hnc _)

/-- Once a handle has been seen and is not live, it is never live again (C02 "never reported
    alive again afterwards"), along any accepted continuation. -/
theorem run_dead_stays_dead : ∀ (evs : List EntEv) (s s' : EntSpec) (e : Entity),
    s.run evs = .ok s' → e ∈ s.seen → e ∉ s.live → e ∉ s'.live := by
  intro evs
  induction evs with
  | nil => intro s s' e h _ hl; simp only [run] at h; cases h; exact hl
  | cons ev evs ih =>
    intro s s' e h hs hl
    simp only [run] at h
    cases hst : s.step ev with
    | error w => simp [hst] at h
    | ok s1 =>
      simp only [hst] at h
      rcases step_facts hst with ⟨e', rfl, hns, hseen, hlive, _⟩ | ⟨_, hseen, _, hsub, _⟩
      · apply ih s1 s' e h (by rw [hseen]; exact List.mem_cons_of_mem _ hs)
        rw [hlive]; simp only [List.mem_append, List.mem_singleton, not_or]
        exact ⟨hl, fun heq => hns (heq ▸ hs)⟩
      · exact ih s1 s' e h (by rw [hseen]; exact hs) (fun hx => hl (hsub e hx))

/-- Running maximum of the number of live handles over a run, starting from `m`. -/
def peakAlong (s : EntSpec) (m : Nat) : List EntEv → Nat
  | [] => m
  | ev :: t =>
    match s.step ev with
    | .ok s' => peakAlong s' (max m s'.live.length) t
    | .error _ => m

/-- The monitor's `peak` is exactly the running maximum of the number of not-dead handles. -/
theorem run_peak : ∀ (evs : List EntEv) (s s' : EntSpec), s.run evs = .ok s' →
    s.live.length ≤ s.peak → s'.peak = peakAlong s s.peak evs ∧ s'.live.length ≤ s'.peak := by
  intro evs
  induction evs with
  | nil => intro s s' h hl; simp only [run] at h; cases h; exact ⟨rfl, hl⟩
  | cons ev evs ih =>
    intro s s' h hl
    simp only [run] at h
    cases hst : s.step ev with
    | error w => simp [hst] at h
    | ok s1 =>
      simp only [hst] at h
      have hp : s1.peak = max s.peak s1.live.length ∧ s1.live.length ≤ s1.peak := by
        rcases step_facts hst with ⟨e', rfl, _, _, hlive, hpeak, _⟩ | ⟨_, _, hpeak, _, hlen⟩
        · rw [hpeak, hlive]; simp; omega
        · rw [hpeak]; omega
      obtain ⟨h1, h2⟩ := ih s1 s' h hp.2
      refine ⟨?_, h2⟩
      simp only [peakAlong, hst]
      rw [h1, hp.1]

end EntSpec
end SpecsModel
