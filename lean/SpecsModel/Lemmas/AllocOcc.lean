/-
  How each allocator function changes occupancy (`occ`), top generations (`top`) and `maxId`.
  Used by the world-level invariants (C05): components may only exist at occupied indices.
-/
import SpecsModel.Lemmas.EntRefine
namespace SpecsModel
open Alloc

/-- `allocate`: exactly the new index becomes occupied. -/
theorem allocate_occ {a : Alloc} (h : Inv a) :
    ∃ a' e, a.allocate = .ok (a', e) ∧ a.occ e.id = false ∧
      (∀ j, a'.occ j = if j = e.id then true else a.occ j) ∧ a'.killed = a.killed := by
  obtain ⟨a', id, he, _, hnocc, hg, hgens, hr, hk, _⟩ := allocate_spec h
  refine ⟨a', _, he, hnocc, ?_, hk⟩
  intro j; simp only [occ, hgens, hr]
  by_cases hj : j = id
  · subst hj; simp; omega
  · simp [hj]

/-- `allocate_atomic`: exactly the new index becomes occupied. -/
theorem allocateAtomic_occ {a : Alloc} (h : Inv a) :
    ∃ a' e, a.allocateAtomic = .ok (a', e) ∧ a.occ e.id = false ∧
      (∀ j, a'.occ j = if j = e.id then true else a.occ j) ∧ a'.killed = a.killed := by
  obtain ⟨a', id, he, _, hnocc, hg, hgens, hr, hk, _⟩ := allocateAtomic_spec h
  refine ⟨a', _, he, hnocc, ?_, hk⟩
  intro j; simp only [occ, hgens, hr]
  by_cases hj : j = id
  · subst hj; simp
  · simp [hj]

/-- `kill_atomic` never changes occupancy. -/
theorem killAtomic_occ {a : Alloc} {p : List Nat} (h : InvP a p) (e : Entity) (hv : Valid a e) :
    ∃ a' ok, a.killAtomic e = .ok (a', ok) ∧ (∀ j, a'.occ j = a.occ j) := by
  rcases killAtomic_spec h e hv with ⟨_, hr⟩ | ⟨_, a', hr, _, hg, hra, _, _, _⟩
  · exact ⟨a, false, hr, fun _ => rfl⟩
  · exact ⟨a', true, hr, fun j => by simp [occ, hg, hra]⟩

/-- The loop of `kill`: exactly the killed prefix becomes unoccupied. -/
theorem killLoop_occ : ∀ (es : List Entity) (a : Alloc) (s : EntSpec) (p : List Nat) (pos : Nat),
    R a s p → (∀ e, e ∈ es → e ∈ s.seen) →
    ∃ a' r, a.killLoop es pos = .ok (a', r) ∧
      (∀ j, a'.occ j = (a.occ j && !(killedIds es pos r).contains j)) ∧
      (∀ q, r = .err q → pos ≤ q) := by
  intro es
  induction es with
  | nil =>
    intro a s p pos _ _
    exact ⟨a, .ok, rfl, by intro j; simp [killedIds], by intro q hq; cases hq⟩
  | cons e es ih =>
    intro a s p pos h hs
    have he : e ∈ s.seen := hs e (by simp)
    have hv := h.seenOk e he
    cases hal : a.isAlive e
    · have hd := delErrOk_of_dead h.inv e hv.pos hv.le hv.lt hal
      exact ⟨a, .err pos, by simp [killLoop, hal, hd], by intro j; simp [killedIds],
        by intro q hq; cases hq; exact Nat.le_refl _⟩
    · obtain ⟨a1, hk1, hR1⟩ := killOne_refine h e he hal
      obtain ⟨a1', hk1', e1, _, _, e4, _, _, _, _⟩ := killOne_spec h.inv e hv hal
      rw [hk1] at hk1'; cases hk1'
      obtain ⟨_, htop⟩ := (isAlive_iff h.inv e hv.pos hv.le hv.lt).mp hal
      have hpos := hv.pos
      have ho1 : ∀ j, a1.occ j = if j = e.id then false else a.occ j := by
        intro j; simp only [occ, e1, e4, BSet.mem_remove]
        by_cases hj : j = e.id
        · subst hj; simp; omega
        · simp [hj]
      obtain ⟨a', r, hl, ho, hq⟩ :=
        ih a1 { s with live := s.live.erase e, pending := s.pending.erase e } (p ++ [e.id]) (pos + 1) hR1
          (fun x hx => hs x (by simp [hx]))
      refine ⟨a', r, by simp [killLoop, hal, hk1, hl], ?_, by intro q hr; have := hq q hr; omega⟩
      intro j
      rw [ho j, ho1 j]
      cases r with
      | ok =>
        simp only [killedIds, List.map_cons, List.contains_cons]
        by_cases hj : j = e.id
        · subst hj; simp
        · have : (j == e.id) = false := by simpa using hj
          simp [hj, this]
      | err q =>
        have := hq q rfl
        have hqp : q - pos = (q - (pos + 1)) + 1 := by omega
        simp only [killedIds, hqp, List.take_succ_cons, List.map_cons, List.contains_cons]
        by_cases hj : j = e.id
        · subst hj; simp
        · have : (j == e.id) = false := by simpa using hj
          simp [hj, this]

/-- `Allocator::kill`: exactly the killed handles' indices become unoccupied. -/
theorem kill_occ {a : Alloc} {s : EntSpec} (h : R a s []) (es : List Entity)
    (hs : ∀ e, e ∈ es → e ∈ s.seen) :
    ∃ a' r, a.kill es = .ok (a', r) ∧
      (∀ j, a'.occ j = (a.occ j && !(killedIds es 0 r).contains j)) := by
  obtain ⟨a1, r, hl, ho, _⟩ := killLoop_occ es a s [] 0 h hs
  obtain ⟨f1, _, _, f4, _, _, _⟩ := cacheExtend_fields a1 (killedIds es 0 r)
  refine ⟨a1.cacheExtend (killedIds es 0 r), r, ?_, ?_⟩
  · cases r with
    | ok => simp [kill, hl, killedIds]
    | err q => simp [kill, hl, killedIds]
  · intro j; rw [← ho j]; simp [occ, f1, f4]

end SpecsModel
