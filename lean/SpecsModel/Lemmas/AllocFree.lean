/-
  The effective free list of the allocator model and how the `EntityCache` functions act on it.
-/
import SpecsModel.Model.Entity
namespace SpecsModel
namespace Alloc

/-- The effective free list: `cache[0 .. len)`. The next index handed out is its last element. -/
def free (a : Alloc) : List Nat := a.cache.toList.take a.cacheLen

theorem free_cacheMaintain (a : Alloc) : (a.cacheMaintain).free = a.free := by
  simp [free, cacheMaintain, Array.toList_extract, List.take_take]

theorem cacheMaintain_toList (a : Alloc) : (a.cacheMaintain).cache.toList = a.free := by
  simp [free, cacheMaintain, Array.toList_extract]

theorem free_cacheExtend (a : Alloc) (ids : List Nat) :
    (a.cacheExtend ids).free = a.free ++ ids := by
  simp only [cacheExtend, free]
  rw [List.take_of_length_le (by simp)]
  simp [cacheMaintain_toList, free]

theorem free_cachePop (a : Alloc) :
    (a.cachePop).1.free = a.free.dropLast ∧ (a.cachePop).2 = a.free.getLast? := by
  simp only [cachePop, free]
  constructor
  · rw [List.take_of_length_le (by simp)]
    simp [cacheMaintain_toList, free]
  · have : a.cacheMaintain.cache = (a.cacheMaintain.cache.toList).toArray := by simp
    rw [this, List.back?_toArray, cacheMaintain_toList]
    simp [free]

theorem cachePop_fields (a : Alloc) :
    (a.cachePop).1.gens = a.gens ∧ (a.cachePop).1.genLen = a.genLen ∧
    (a.cachePop).1.alive = a.alive ∧ (a.cachePop).1.raised = a.raised ∧
    (a.cachePop).1.killed = a.killed ∧ (a.cachePop).1.maxId = a.maxId ∧
    (a.cachePop).1.cacheLen ≤ (a.cachePop).1.cache.size := by
  simp [cachePop, cacheMaintain]

theorem cacheExtend_fields (a : Alloc) (ids : List Nat) :
    (a.cacheExtend ids).gens = a.gens ∧ (a.cacheExtend ids).genLen = a.genLen ∧
    (a.cacheExtend ids).alive = a.alive ∧ (a.cacheExtend ids).raised = a.raised ∧
    (a.cacheExtend ids).killed = a.killed ∧ (a.cacheExtend ids).maxId = a.maxId ∧
    (a.cacheExtend ids).cacheLen ≤ (a.cacheExtend ids).cache.size := by
  simp [cacheExtend, cacheMaintain]

theorem cachePopAtomic_zero (a : Alloc) (h0 : a.cacheLen = 0) :
    a.cachePopAtomic = .ok (a, none) ∧ a.free = [] := by
  simp [cachePopAtomic, h0, free]

theorem cachePopAtomic_pos (a : Alloc) (h : a.cacheLen ≤ a.cache.size) (h0 : a.cacheLen ≠ 0) :
    ∃ x, a.cachePopAtomic = .ok ({ a with cacheLen := a.cacheLen - 1 }, some x) ∧
      a.free = ({ a with cacheLen := a.cacheLen - 1 } : Alloc).free ++ [x] := by
  have hlt : a.cacheLen - 1 < a.cache.size := by omega
  refine ⟨a.cache[a.cacheLen - 1], ?_, ?_⟩
  · simp [cachePopAtomic, h0, Array.getElem?_eq_getElem hlt]
  · simp only [free]
    have : a.cacheLen = (a.cacheLen - 1) + 1 := by omega
    conv => lhs; rw [this]
    rw [List.take_succ_eq_append_getElem (by simpa using hlt)]
    simp

end Alloc
end SpecsModel
