/-
  C08 — Every component value is handed back or destroyed exactly once. Lemma library (entry point).

  Files
  * Lemmas/LedgerMasked  — `nz`, `NzEq`, `Masked.heldVals`, `Masked.held`; conservation for every
                           `Storage` API function under `MRep` (counting form `*_cons`);
  * Lemmas/LedgerStore   — the same for a storage of a world (`StOk`, `vOk`);
  * Lemmas/LedgerWorld   — `World.held`, `tot`, `Bal`, `opIn`/`opOut` (what a transcript line moves
                           in / hands back), `opOk`/`scriptOk` (well-typed: the zero-sized kind 5
                           only has the unit value), the extra invariant `XInv`;
  * Lemmas/LedgerStep{,2,3} — every operation but `maintain`: `Led` (XInv, balance, no panic);
  * Lemmas/LedgerCons    — ghost accounting `stepL … maintainL` (+ `ledger_agree`), `led_all` (the
                           whole mutual block, every fuel, nested scripts), `runL`, `conservation`,
                           `never_both_never_twice`, `no_leak_after_drop_world`, and the per-API
                           statements in `Perm (nz …) (nz …)` form (`Masked.*_conservation`);
  * Lemmas/LedgerNoPanic — `step_no_panic'`: no operation, any arguments, panics on a `WInvX` world;
  * Lemmas/LedgerNested  — `trace_all`, `run_no_panic_nested`: with the fuel bound of
                           `LazyQ.fuel_all`, no operation run inside lazily executed scripts panics.

  This file states the headline results (a), (c) under their final names; (b) is
  `Masked.getMut_conservation`, `insert_conservation`, `removeId_conservation`, `remove_conservation`,
  `dropId_conservation`, `dropAll_conservation`, `clear_conservation`, `drain_conservation`,
  `entry_conservation`, `getMutOrDefault_conservation` in Lemmas/LedgerCons.
-/
import SpecsModel.Lemmas.LedgerNested
namespace SpecsModel
open Masked Alloc LazyQ
namespace World

/-- `World.held` really is everything: the values `get` yields at every index of the mask of every
    storage in the `stores` array, plus the values captured by the queued lazy actions. -/
theorem held_eq_all (w : World) :
    w.held = w.stores.toList.flatMap storeHeld ++ (w.queue.map queuedValues).flatten := by
  have h : w.stores.toList = (List.range w.stores.size).map (fun k => w.store? k) := by
    apply List.ext_getElem
    · simp
    · intro i h1 h2
      simp only [List.getElem_map, List.getElem_range, store?, Array.getElem_toList]
      simp only [Array.length_toList] at h1
      simp [h1]
  unfold held heldStores heldQueue
  rw [h, List.flatMap_map]

/-! ## (a) NO EXPOSURE -/

/-- Every operation — any arguments — on a world satisfying the world invariant returns normally:
    never `panic` (failed `unwrap` / index) and never `UB` (read of a moved-out or never-written
    slot), both of which the model surfaces as a panic result; `.e (.panic _)` (entity layer)
    included. Fuel ≥ 2 lets a top-level `maintain` reach its queue. -/
theorem step_no_panic {w : World} (hi : WInv w) (op : WOp) (fuel : Nat) (hf : 2 ≤ fuel) :
    (step fuel w op).2.isPanic = false :=
  step_no_panic' hi op fuel hf

/-- In particular the result is never `.panic _`. -/
theorem step_ne_panic {w : World} (hi : WInv w) (op : WOp) (fuel : Nat) (hf : 2 ≤ fuel) (why : String) :
    (step fuel w op).2 ≠ .panic why := by
  intro h
  have := step_no_panic hi op fuel hf
  rw [h] at this
  cases this

/-- Every operation list from any world satisfying the invariant: no top-level result is a panic. -/
theorem run_no_panic (fuel : Nat) (hf : 2 ≤ fuel) : ∀ (ops : List WOp) (w : World), WInv w →
    ∀ r, r ∈ transcript fuel w ops → r.isPanic = false := by
  intro ops
  induction ops with
  | nil => intro w _ r hr; cases hr
  | cons op ops ih =>
    intro w hi r hr
    simp only [transcript, List.mem_cons] at hr
    rcases hr with rfl | hr
    · exact step_no_panic hi op fuel hf
    · exact ih _ ((inv_mutual fuel).1 w op hi) r hr

/-- With `listSize ops ≤ fuel` (nested scripts counted recursively): neither a top-level operation
    nor any operation run inside a lazily executed script, at any depth, panics. -/
theorem run_no_panic_deep (fuel : Nat) (ops : List WOp) (hf : listSize ops ≤ fuel) :
    (∀ r, r ∈ transcript fuel {} ops → r.isPanic = false) ∧
    TraceOk (ops.foldl (fun w op => (step fuel w op).1) {}) :=
  run_no_panic_nested (X := fun _ => False) fuel ops {} inv_init (fun x hx => by cases hx)
    (fuelOk_of_size fuel ops {} (by simpa [qsize] using hf))

/-! ## (c) CONSERVATION — see `conservation`, `never_both_never_twice`, `no_leak_after_drop_world`
    (Lemmas/LedgerCons), stated for `runL fuel {} ops`; `runL_world`: its world is the model's. -/

/-- The accounting of a history in one statement: for every well-typed history and every fuel, with
    `(w, (movedIn, returned)) = runL fuel {} ops`,
    `nz (held w ++ w.ledger ++ returned) ~ nz movedIn`. -/
theorem conservation_stmt (fuel : Nat) (ops : List WOp) (hok : scriptOk ops = true) :
    ∃ w movedIn returned, runL fuel {} ops = (w, (movedIn, returned)) ∧
      w = ops.foldl (fun w op => (step fuel w op).1) {} ∧
      (nz (w.held ++ w.ledger ++ returned)).Perm (nz movedIn) :=
  ⟨_, _, _, rfl, runL_world fuel ops {}, conservation fuel ops hok⟩

end World
end SpecsModel
