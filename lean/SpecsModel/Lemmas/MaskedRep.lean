/-
  Refinement of `MaskedStorage` / the `Storage` API (Model/Storage.lean) to a plain partial map
  `Nat → Option Int`, for every storage kind: under `MRep ms m` every API function returns what
  the map operation returns, ends in a state representing the updated map, and never reaches a
  `panic` / `ub` outcome (no operation exposes a moved-out or never-written slot).
-/
import SpecsModel.Model.Storage
import SpecsModel.Lemmas.StoreRep
namespace SpecsModel

/-! ### Operations on plain partial maps used to state the refinement -/
namespace PMap

/-- Write through a mutable access: only an existing entry can be written. -/
def write (m : Nat → Option Int) (i : Nat) (w : Option Int) : Nat → Option Int :=
  match m i, w with
  | some _, some x => upd m i (some x)
  | _, _ => m

/-- Remove all keys of `l`. -/
def eraseAll (m : Nat → Option Int) (l : List Nat) : Nat → Option Int :=
  fun i => if i ∈ l then none else m i

/-- The entries at the keys `l`, in the order of `l`. -/
def entries (m : Nat → Option Int) (l : List Nat) : List (Nat × Int) :=
  l.filterMap (fun i => (m i).map (fun v => (i, v)))

/-- Values dropped by erasing the keys `l` one after the other. -/
def dropVals (m : Nat → Option Int) : List Nat → List Int
  | [] => []
  | i :: is => (m i).toList ++ dropVals (upd m i none) is

/-- Result and final map of `entry(e)` followed by one entry operation, on a live handle. -/
def entry (m : Nat → Option Int) (i : Nat) : Masked.EntryOp → Masked.EntryRes × (Nat → Option Int)
  | .orInsert v _ w =>
    match m i with
    | some old => (.occupied old, write m i w)
    | none => (.vacant, upd m i (some (w.getD v)))
  | .replace v =>
    match m i with
    | some old => (.occupied old, upd m i (some v))
    | none => (.vacant, upd m i (some v))
  | .remove =>
    match m i with
    | some old => (.occupied old, upd m i none)
    | none => (.vacant, m)

theorem write_none (m : Nat → Option Int) (i : Nat) : write m i none = m := by
  unfold write; split <;> simp_all

theorem write_absent (m : Nat → Option Int) (i : Nat) (w : Option Int) (h : m i = none) :
    write m i w = m := by
  unfold write; split <;> simp_all

theorem write_some (m : Nat → Option Int) (i : Nat) (x old : Int) (h : m i = some old) :
    write m i (some x) = upd m i (some x) := by
  unfold write; split <;> simp_all

theorem upd_upd (m : Nat → Option Int) (i : Nat) (v w : Option Int) :
    upd (upd m i v) i w = upd m i w := by
  funext j; simp only [upd]; split <;> rfl

end PMap

namespace Masked
open UStore

/-- The masked storage represents the partial map `m`: the mask is the key set, the inner
    storage holds the values. -/
def MRep (ms : Masked) (m : Nat → Option Int) : Prop :=
  (∀ i, ms.mask.mem i = (m i).isSome) ∧ ms.inner.Rep m

@[simp] theorem lift_ok {α β} (x : α) (f : α → Out β) : lift (.ok x) f = f x := rfl

theorem mrep_empty (s : UStore) (h : s.Rep (fun _ => none)) : MRep { mask := .empty, inner := s } (fun _ => none) :=
  ⟨by simp, h⟩

theorem mem_of_some {ms : Masked} {m : Nat → Option Int} (h : MRep ms m) {i : Nat} {v : Int}
    (hm : m i = some v) : ms.mask.mem i = true := by rw [h.1 i, hm]; rfl

theorem mem_of_none {ms : Masked} {m : Nat → Option Int} (h : MRep ms m) {i : Nat}
    (hm : m i = none) : ms.mask.mem i = false := by rw [h.1 i, hm]; rfl

/-! ### Mask facts: membership, count, emptiness, ascending key list -/

theorem mask_toList_keys {ms : Masked} {m : Nat → Option Int} (h : MRep ms m) (i : Nat) :
    i ∈ ms.mask.toList ↔ (m i).isSome = true := by
  rw [BSet.mem_toList, h.1 i]

/-- `mask.toList` (the order in which `join`/`drain` visit the storage) is the ascending key list. -/
theorem mask_toList_eq {ms : Masked} {m : Nat → Option Int} (h : MRep ms m) {l : List Nat}
    (hs : l.Pairwise (· < ·)) (hl : ∀ i, i ∈ l ↔ (m i).isSome = true) : ms.mask.toList = l :=
  sortedLt_ext ms.mask.toList_sorted hs (fun i => by rw [mask_toList_keys h, hl])

/-- `count` is the number of keys. -/
theorem count_eq {ms : Masked} {m : Nat → Option Int} (h : MRep ms m) {l : List Nat}
    (hn : l.Nodup) (hl : ∀ i, i ∈ l ↔ (m i).isSome = true) : ms.mask.count = l.length := by
  unfold BSet.count
  exact ((List.perm_ext_iff_of_nodup ms.mask.toList_nodup hn).mpr
    (fun i => by rw [mask_toList_keys h, hl])).length_eq

/-- `is_empty` holds exactly when the map has no key. -/
theorem isEmpty_iff {ms : Masked} {m : Nat → Option Int} (h : MRep ms m) :
    ms.mask.isEmpty = true ↔ ∀ i, m i = none := by
  unfold BSet.isEmpty
  rw [List.isEmpty_iff]
  constructor
  · intro he i
    have := mask_toList_keys h i
    rw [he] at this
    cases hmi : m i with
    | none => rfl
    | some v => simp [hmi] at this
  · intro hn
    apply List.eq_nil_iff_forall_not_mem.mpr
    intro i hi
    have := (mask_toList_keys h i).mp hi
    simp [hn i] at this

/-! ### `get`, `contains` -/

theorem get_ref {ms : Masked} {m : Nat → Option Int} (h : MRep ms m) (a : Alloc) (e : Entity) :
    ms.get a e = .ok (if a.isAlive e then m e.id else none) := by
  unfold get
  cases hal : a.isAlive e
  · simp
  · cases hmi : m e.id with
    | none => simp [mem_of_none h hmi]
    | some v => simp [mem_of_some h hmi, get_ok h.2 hmi]

theorem contains_ref {ms : Masked} {m : Nat → Option Int} (h : MRep ms m) (a : Alloc) (e : Entity) :
    ms.contains a e = (a.isAlive e && (m e.id).isSome) := by
  unfold contains
  rw [h.1 e.id, Bool.and_comm]

/-! ### `get_mut` (+ dereferences + optional write) -/

/-- The part shared by `get_mut`, `entry().or_insert()` on an occupied entry and
    `get_mut_or_default`: read, flag, optionally write. -/
theorem access_ok {s : UStore} {m : Nat → Option Int} (hrep : s.Rep m) {i : Nat} {old : Int}
    (hmi : m i = some old) (d : Nat) (w : Option Int) (hw : ∀ x, w = some x → s.valOk x) :
    ∃ s', (match w with
           | none => (Out.ok (s.touch i d) : Out UStore)
           | some v => (s.touch i d).poke i v) = .ok s' ∧
      s'.Rep (PMap.write m i w) ∧ s'.nullBased = s.nullBased ∧ s'.emits = s.emits := by
  cases w with
  | none =>
    exact ⟨s.touch i d, rfl, by rw [PMap.write_none]; exact (touch_rep _ _ _ _).mpr hrep,
      touch_nullBased _ _ _, touch_emits _ _ _⟩
  | some x =>
    obtain ⟨s', hp, hr⟩ := poke_ok ((touch_rep s i d m).mpr hrep) hmi
      ((touch_valOk s i d x).mpr (hw x rfl))
    have hs := poke_shape hp
    exact ⟨s', hp, by rw [PMap.write_some _ _ _ _ hmi]; exact hr,
      by rw [hs.1, touch_nullBased], by rw [hs.2.1, touch_emits]⟩

theorem getMut_ref {ms : Masked} {m : Nat → Option Int} (h : MRep ms m) (a : Alloc) (e : Entity)
    (d : Nat) (w : Option Int) (hw : ∀ x, w = some x → ms.inner.valOk x) :
    ∃ r, ms.getMut a e d w = .ok r ∧ r.val = (if a.isAlive e then m e.id else none) ∧
      r.destroyed = [] ∧ MRep r.st (if a.isAlive e then PMap.write m e.id w else m) ∧
      r.st.inner.nullBased = ms.inner.nullBased := by
  unfold getMut
  cases hal : a.isAlive e
  · simp only [Bool.and_false, Bool.false_eq_true, if_false]
    exact ⟨_, rfl, rfl, rfl, h, rfl⟩
  · cases hmi : m e.id with
    | none =>
      simp only [mem_of_none h hmi, Bool.false_and, Bool.false_eq_true, if_false, if_true]
      refine ⟨_, rfl, rfl, rfl, ?_, rfl⟩
      rw [PMap.write_absent _ _ _ hmi]; exact h
    | some old =>
      obtain ⟨s', hs, hr, hn, _⟩ := access_ok h.2 hmi d w hw
      simp only [mem_of_some h hmi, Bool.and_self, if_true, get_ok h.2 hmi, lift_ok]
      cases w with
      | none =>
        simp only [Out.ok.injEq] at hs
        subst hs
        refine ⟨_, rfl, rfl, rfl, ⟨?_, hr⟩, hn⟩
        rw [PMap.write_none]; exact h.1
      | some x =>
        simp only at hs
        simp only [hs, lift_ok]
        refine ⟨_, rfl, rfl, rfl, ⟨?_, hr⟩, hn⟩
        intro j
        rw [h.1 j, PMap.write_some _ _ _ _ hmi]
        simp only [upd]; grind

/-! ### `insert` -/

theorem notPresentInsert_ref {ms : Masked} {m : Nat → Option Int} (h : MRep ms m) {i : Nat}
    (hmi : m i = none) (v : Int) (hv : ms.inner.valOk v) :
    ∃ r, ms.notPresentInsert i v = .ok r ∧ MRep r.st (upd m i (some v)) ∧
      (∀ x ∈ r.destroyed, x = 0) ∧ r.st.inner.nullBased = ms.inner.nullBased := by
  obtain ⟨s', dd, hi, hr, hd⟩ := insert_ok h.2 hmi hv
  unfold notPresentInsert
  simp only [hi, lift_ok]
  refine ⟨_, rfl, ⟨?_, hr⟩, hd, (insert_shape hi).1⟩
  intro j
  simp only [BSet.mem_add, h.1 j, upd]; grind

/-- Overwrite of a present component: `swap(&mut v, get_mut(id))`. -/
theorem overwrite_ok {s : UStore} {m : Nat → Option Int} (hrep : s.Rep m) {i : Nat} {old : Int}
    (hmi : m i = some old) (d : Nat) (v : Int) (hv : s.valOk v) :
    ∃ s', (s.touch i d).poke i v = .ok s' ∧ s'.Rep (upd m i (some v)) ∧
      s'.nullBased = s.nullBased := by
  obtain ⟨s', hs, hr, hn, _⟩ := access_ok hrep hmi d (some v) (by intro x hx; cases hx; exact hv)
  exact ⟨s', hs, by rw [← PMap.write_some _ _ _ _ hmi]; exact hr, hn⟩

theorem mask_upd_some {ms : Masked} {m : Nat → Option Int} (h : MRep ms m) {i : Nat} {old : Int}
    (hmi : m i = some old) (v : Int) (j : Nat) : ms.mask.mem j = (upd m i (some v) j).isSome := by
  rw [h.1 j]; simp only [upd]; grind

theorem insert_ref {ms : Masked} {m : Nat → Option Int} (h : MRep ms m) (a : Alloc) (e : Entity)
    (v : Int) (hv : ms.inner.valOk v) :
    ∃ r, ms.insert a e v = .ok r ∧
      r.val = (if a.isAlive e then
                 (match m e.id with | some old => InsRes.replaced old | none => InsRes.inserted)
               else InsRes.wrongGen) ∧
      MRep r.st (if a.isAlive e then upd m e.id (some v) else m) ∧
      (if a.isAlive e then ∀ x ∈ r.destroyed, x = 0 else r.destroyed = [v]) ∧
      r.st.inner.nullBased = ms.inner.nullBased := by
  unfold insert
  cases hal : a.isAlive e
  · simp only [Bool.false_eq_true, if_false]
    exact ⟨_, rfl, rfl, h, rfl, rfl⟩
  · cases hmi : m e.id with
    | none =>
      obtain ⟨r, hr, hrep, hd, hn⟩ := notPresentInsert_ref h hmi v hv
      simp only [if_true, mem_of_none h hmi, Bool.false_eq_true, if_false, hr, lift_ok]
      exact ⟨_, rfl, rfl, hrep, hd, hn⟩
    | some old =>
      obtain ⟨s', hs, hr, hn⟩ := overwrite_ok h.2 hmi 1 v hv
      simp only [if_true, mem_of_some h hmi, get_ok h.2 hmi, lift_ok, hs]
      exact ⟨_, rfl, rfl, ⟨mask_upd_some h hmi v, hr⟩, by simp, hn⟩

/-! ### `remove`, `drop` -/

theorem removeId_ref {ms : Masked} {m : Nat → Option Int} (h : MRep ms m) (i : Nat) :
    ∃ r, ms.removeId i = .ok r ∧ r.val = m i ∧ r.destroyed = [] ∧ MRep r.st (upd m i none) ∧
      r.st.inner.nullBased = ms.inner.nullBased := by
  unfold removeId
  cases hmi : m i with
  | none =>
    simp only [mem_of_none h hmi, Bool.false_eq_true, if_false]
    refine ⟨_, rfl, rfl, rfl, ?_, rfl⟩
    rw [upd_self_eq m i none hmi]; exact h
  | some v =>
    obtain ⟨s', hr, hrep⟩ := remove_ok h.2 hmi
    simp only [mem_of_some h hmi, if_true, hr, lift_ok]
    refine ⟨_, rfl, rfl, rfl, ⟨?_, hrep⟩, (remove_shape hr).1⟩
    intro j
    simp only [BSet.mem_remove, h.1 j, upd]; grind

theorem remove_ref {ms : Masked} {m : Nat → Option Int} (h : MRep ms m) (a : Alloc) (e : Entity) :
    ∃ r, ms.remove a e = .ok r ∧ r.val = (if a.isAlive e then m e.id else none) ∧
      r.destroyed = [] ∧ MRep r.st (if a.isAlive e then upd m e.id none else m) ∧
      r.st.inner.nullBased = ms.inner.nullBased := by
  unfold remove
  cases hal : a.isAlive e
  · simp only [Bool.false_eq_true, if_false]
    exact ⟨_, rfl, rfl, rfl, h, rfl⟩
  · simpa using removeId_ref h e.id

theorem dropId_ref {ms : Masked} {m : Nat → Option Int} (h : MRep ms m) (i : Nat) :
    ∃ r, ms.dropId i = .ok r ∧ r.destroyed = (m i).toList ∧ MRep r.st (upd m i none) ∧
      r.st.inner.nullBased = ms.inner.nullBased := by
  unfold dropId
  cases hmi : m i with
  | none =>
    simp only [mem_of_none h hmi, Bool.false_eq_true, if_false]
    refine ⟨_, rfl, rfl, ?_, rfl⟩
    rw [upd_self_eq m i none hmi]; exact h
  | some v =>
    obtain ⟨s', hr, hrep⟩ := remove_ok h.2 hmi
    simp only [mem_of_some h hmi, if_true, hr, lift_ok]
    refine ⟨_, rfl, rfl, ⟨?_, hrep⟩, (remove_shape hr).1⟩
    intro j
    simp only [BSet.mem_remove, h.1 j, upd]; grind

/-- `AnyStorage::drop(entities)`: drops, in order, the component of each listed index. -/
theorem dropAll_ref : ∀ (es : List Entity) {ms : Masked} {m : Nat → Option Int} (_ : MRep ms m)
    (acc : List Int),
    ∃ r, ms.dropAll es acc = .ok r ∧
      r.destroyed = acc.reverse ++ PMap.dropVals m (es.map (·.id)) ∧
      MRep r.st (PMap.eraseAll m (es.map (·.id))) ∧
      r.st.inner.nullBased = ms.inner.nullBased := by
  intro es
  induction es with
  | nil =>
    intro ms m h acc
    refine ⟨_, rfl, by simp [PMap.dropVals], ?_, rfl⟩
    have : PMap.eraseAll m [] = m := by funext j; simp [PMap.eraseAll]
    simpa [this] using h
  | cons e es ih =>
    intro ms m h acc
    obtain ⟨r1, h1, hd1, hrep1, hn1⟩ := dropId_ref h e.id
    obtain ⟨r, h2, hd2, hrep2, hn2⟩ := ih hrep1 (r1.destroyed.reverse ++ acc)
    refine ⟨r, by simp only [dropAll, h1, lift_ok, h2], ?_, ?_, by rw [hn2, hn1]⟩
    · rw [hd2, hd1]
      simp [PMap.dropVals]
    · have : PMap.eraseAll (upd m e.id none) (es.map (·.id)) = PMap.eraseAll m ((e :: es).map (·.id)) := by
        funext j; simp only [PMap.eraseAll, upd, List.map_cons, List.mem_cons]; grind
      rw [← this]; exact hrep2

/-! ### `clear` -/

theorem clear_ref {ms : Masked} {m : Nat → Option Int} (h : MRep ms m) :
    ∃ r, ms.clear = .ok r ∧ MRep r.st (fun _ => none) ∧ r.st.mask = BSet.empty ∧
      (∀ i v, m i = some v → v ∈ r.destroyed) ∧
      r.st.inner.nullBased = ms.inner.nullBased := by
  obtain ⟨s', dd, hc, hr, hd⟩ := clean_ok h.2 h.1
  unfold clear
  simp only [hc, lift_ok]
  exact ⟨_, rfl, ⟨by simp, hr⟩, rfl, hd, (clean_shape hc).1⟩

/-! ### `drain` -/

theorem drainLoop_ref : ∀ (ids : List Nat) {ms : Masked} {m : Nat → Option Int} (_ : MRep ms m)
    (n : Nat) (acc : List (Nat × Int)), ids.Nodup → (∀ i ∈ ids, (m i).isSome = true) →
    ∃ r, ms.drainLoop ids n acc = .ok r ∧
      r.val = acc.reverse ++ PMap.entries m (ids.take n) ∧ r.destroyed = [] ∧
      MRep r.st (PMap.eraseAll m (ids.take n)) ∧
      r.st.inner.nullBased = ms.inner.nullBased := by
  intro ids
  induction ids with
  | nil =>
    intro ms m h n acc _ _
    have : PMap.eraseAll m [] = m := by funext j; simp [PMap.eraseAll]
    exact ⟨_, rfl, by simp [PMap.entries], rfl, by simpa [this] using h, rfl⟩
  | cons id ids ih =>
    intro ms m h n acc hnd hall
    cases n with
    | zero =>
      have : PMap.eraseAll m [] = m := by funext j; simp [PMap.eraseAll]
      exact ⟨_, rfl, by simp [PMap.entries], rfl, by simpa [this] using h, rfl⟩
    | succ n =>
      obtain ⟨hni, hnd'⟩ := List.nodup_cons.mp hnd
      obtain ⟨r1, h1, hv1, hd1, hrep1, hn1⟩ := removeId_ref h id
      obtain ⟨v, hv⟩ : ∃ v, m id = some v := Option.isSome_iff_exists.mp (hall id (by simp))
      have hall' : ∀ i ∈ ids, (upd m id none i).isSome = true := by
        intro i hi
        have hne : i ≠ id := fun e => hni (e ▸ hi)
        rw [upd_ne _ _ hne]; exact hall i (by simp [hi])
      obtain ⟨r, h2, hv2, hd2, hrep2, hn2⟩ := ih hrep1 n ((id, v) :: acc) hnd' hall'
      rw [hv] at hv1
      refine ⟨r, by simp only [drainLoop, h1, lift_ok, hv1, h2], ?_, hd2, ?_, by rw [hn2, hn1]⟩
      · rw [hv2]
        have : PMap.entries (upd m id none) (ids.take n) = PMap.entries m (ids.take n) := by
          unfold PMap.entries
          apply filterMap_congr'
          intro i hi
          have hne : i ≠ id := fun e => hni (e ▸ List.mem_of_mem_take hi)
          rw [upd_ne _ _ hne]
        rw [this]
        simp [PMap.entries, hv]
      · have : PMap.eraseAll (upd m id none) (ids.take n) = PMap.eraseAll m ((id :: ids).take (n + 1)) := by
          funext j; simp only [PMap.eraseAll, upd, List.take_succ_cons, List.mem_cons]; grind
        rw [← this]; exact hrep2

/-- `drain().join()` consumed for `n` items yields the first `n` entries of the map in ascending
    index order and removes exactly those. -/
theorem drain_ref {ms : Masked} {m : Nat → Option Int} (h : MRep ms m) (n : Nat) :
    ∃ r, ms.drain n = .ok r ∧ r.val = PMap.entries m (ms.mask.toList.take n) ∧ r.destroyed = [] ∧
      MRep r.st (PMap.eraseAll m (ms.mask.toList.take n)) ∧
      r.st.inner.nullBased = ms.inner.nullBased := by
  obtain ⟨r, h1, h2, h3, h4, h5⟩ := drainLoop_ref ms.mask.toList h n [] ms.mask.toList_nodup
    (fun i hi => (mask_toList_keys h i).mp hi)
  exact ⟨r, h1, by simpa using h2, h3, h4, h5⟩

/-! ### `entry` -/

theorem valOk_congr {s s' : UStore} (h : s'.nullBased = s.nullBased) (v : Int) :
    s'.valOk v ↔ s.valOk v := by
  rw [valOk_iff, valOk_iff, h]

/-- Values handed to an entry operation must be storable (only matters for null storages). -/
def entryValsOk (s : UStore) : EntryOp → Prop
  | .orInsert v _ w => s.valOk v ∧ ∀ x, w = some x → s.valOk x
  | .replace v => s.valOk v
  | .remove => True

theorem isSome_congr {m m' : Nat → Option Int} {ms : Masked}
    (h : ∀ i, ms.mask.mem i = (m i).isSome) (h' : ∀ i, (m' i).isSome = (m i).isSome) :
    ∀ i, ms.mask.mem i = (m' i).isSome := fun i => by rw [h i, h' i]

theorem entry_dead {ms : Masked} {a : Alloc} {e : Entity} (op : EntryOp)
    (hal : a.isAlive e = false) : ms.entry a e op = .ok { st := ms, val := .wrongGen } := by
  simp [entry, hal]

theorem entry_occupied_orInsert {ms : Masked} {m : Nat → Option Int} (h : MRep ms m) {a : Alloc}
    {e : Entity} (hal : a.isAlive e = true) {old : Int} (hmi : m e.id = some old)
    (v : Int) (d : Nat) (w : Option Int) (hw : ∀ x, w = some x → ms.inner.valOk x) :
    ∃ r, ms.entry a e (.orInsert v d w) = .ok r ∧ r.val = .occupied old ∧ r.destroyed = [v] ∧
      MRep r.st (PMap.write m e.id w) ∧ r.st.inner.nullBased = ms.inner.nullBased := by
  obtain ⟨s', hs, hr, hn, _⟩ := access_ok h.2 hmi d w hw
  simp only [entry, hal, if_true, mem_of_some h hmi, get_ok h.2 hmi, lift_ok]
  cases w with
  | none =>
    simp only [Out.ok.injEq] at hs
    subst hs
    refine ⟨_, rfl, rfl, rfl, ⟨?_, hr⟩, hn⟩
    rw [PMap.write_none]; exact h.1
  | some x =>
    simp only at hs
    simp only [hs, lift_ok]
    refine ⟨_, rfl, rfl, rfl, ⟨?_, hr⟩, hn⟩
    rw [PMap.write_some _ _ _ _ hmi]
    exact mask_upd_some h hmi x

theorem entry_occupied_replace {ms : Masked} {m : Nat → Option Int} (h : MRep ms m) {a : Alloc}
    {e : Entity} (hal : a.isAlive e = true) {old : Int} (hmi : m e.id = some old)
    (v : Int) (hv : ms.inner.valOk v) :
    ∃ r, ms.entry a e (.replace v) = .ok r ∧ r.val = .occupied old ∧ r.destroyed = [] ∧
      MRep r.st (upd m e.id (some v)) ∧ r.st.inner.nullBased = ms.inner.nullBased := by
  obtain ⟨s', hs, hr, hn⟩ := overwrite_ok h.2 hmi 1 v hv
  simp only [entry, hal, if_true, mem_of_some h hmi, get_ok h.2 hmi, lift_ok, hs]
  exact ⟨_, rfl, rfl, rfl, ⟨mask_upd_some h hmi v, hr⟩, hn⟩

theorem entry_occupied_remove {ms : Masked} {m : Nat → Option Int} (h : MRep ms m) {a : Alloc}
    {e : Entity} (hal : a.isAlive e = true) {old : Int} (hmi : m e.id = some old) :
    ∃ r, ms.entry a e .remove = .ok r ∧ r.val = .occupied old ∧ r.destroyed = [] ∧
      MRep r.st (upd m e.id none) ∧ r.st.inner.nullBased = ms.inner.nullBased := by
  obtain ⟨r1, h1, hv1, hd1, hrep1, hn1⟩ := removeId_ref h e.id
  rw [hmi] at hv1
  simp only [entry, hal, if_true, mem_of_some h hmi, h1, lift_ok, hv1]
  exact ⟨_, rfl, rfl, rfl, hrep1, hn1⟩

theorem entry_vacant_orInsert {ms : Masked} {m : Nat → Option Int} (h : MRep ms m) {a : Alloc}
    {e : Entity} (hal : a.isAlive e = true) (hmi : m e.id = none)
    (v : Int) (d : Nat) (w : Option Int) (hv : ms.inner.valOk v)
    (hw : ∀ x, w = some x → ms.inner.valOk x) :
    ∃ r, ms.entry a e (.orInsert v d w) = .ok r ∧ r.val = .vacant ∧ (∀ x ∈ r.destroyed, x = 0) ∧
      MRep r.st (upd m e.id (some (w.getD v))) ∧ r.st.inner.nullBased = ms.inner.nullBased := by
  obtain ⟨r1, h1, hrep1, hd1, hn1⟩ := notPresentInsert_ref h hmi v hv
  have hmi' : upd m e.id (some v) e.id = some v := upd_same _ _ _
  obtain ⟨s', hs, hr, hn, _⟩ := access_ok hrep1.2 hmi' d w
    (fun x hx => (valOk_congr hn1 x).mpr (hw x hx))
  simp only [entry, hal, if_true, mem_of_none h hmi, Bool.false_eq_true, if_false, h1, lift_ok]
  cases w with
  | none =>
    simp only [Out.ok.injEq] at hs
    subst hs
    rw [PMap.write_none] at hr
    exact ⟨_, rfl, rfl, hd1, ⟨hrep1.1, hr⟩, by rw [hn, hn1]⟩
  | some x =>
    simp only at hs
    simp only [hs, lift_ok]
    rw [PMap.write_some _ _ _ _ hmi', PMap.upd_upd] at hr
    refine ⟨_, rfl, rfl, hd1, ⟨?_, hr⟩, by rw [hn, hn1]⟩
    apply isSome_congr hrep1.1
    intro i; simp only [Option.getD_some, upd]; grind

theorem entry_vacant_replace {ms : Masked} {m : Nat → Option Int} (h : MRep ms m) {a : Alloc}
    {e : Entity} (hal : a.isAlive e = true) (hmi : m e.id = none) (v : Int)
    (hv : ms.inner.valOk v) :
    ∃ r, ms.entry a e (.replace v) = .ok r ∧ r.val = .vacant ∧ (∀ x ∈ r.destroyed, x = 0) ∧
      MRep r.st (upd m e.id (some v)) ∧ r.st.inner.nullBased = ms.inner.nullBased := by
  obtain ⟨r1, h1, hrep1, hd1, hn1⟩ := notPresentInsert_ref h hmi v hv
  simp only [entry, hal, if_true, mem_of_none h hmi, Bool.false_eq_true, if_false, h1, lift_ok]
  exact ⟨_, rfl, rfl, hd1, ⟨hrep1.1, (touch_rep _ _ _ _).mpr hrep1.2⟩,
    by rw [touch_nullBased]; exact hn1⟩

theorem entry_vacant_remove {ms : Masked} {m : Nat → Option Int} (h : MRep ms m) {a : Alloc}
    {e : Entity} (hal : a.isAlive e = true) (hmi : m e.id = none) :
    ms.entry a e .remove = .ok { st := ms, val := .vacant } := by
  simp [entry, hal, mem_of_none h hmi]

/-- `Storage::entry(e)` followed by one entry operation, all three operations in all three
    states (stale handle / occupied / vacant), against `PMap.entry`. -/
theorem entry_ref {ms : Masked} {m : Nat → Option Int} (h : MRep ms m) (a : Alloc) (e : Entity)
    (op : EntryOp) (hop : entryValsOk ms.inner op) :
    ∃ r, ms.entry a e op = .ok r ∧
      r.val = (if a.isAlive e then (PMap.entry m e.id op).1 else .wrongGen) ∧
      MRep r.st (if a.isAlive e then (PMap.entry m e.id op).2 else m) ∧
      r.st.inner.nullBased = ms.inner.nullBased ∧
      (a.isAlive e = false → r.destroyed = []) ∧
      (a.isAlive e = true → (m e.id).isSome = true →
        r.destroyed = (match op with | .orInsert v _ _ => [v] | _ => [])) ∧
      (a.isAlive e = true → m e.id = none → ∀ x ∈ r.destroyed, x = 0) := by
  cases hal : a.isAlive e
  · rw [entry_dead op hal]
    exact ⟨_, rfl, rfl, h, rfl, fun _ => rfl, by simp, by simp⟩
  · cases hmi : m e.id with
    | some old =>
      cases op with
      | orInsert v d w =>
        obtain ⟨r, h1, h2, h3, h4, h5⟩ := entry_occupied_orInsert h hal hmi v d w hop.2
        exact ⟨r, h1, by simp [PMap.entry, hmi, h2], by simpa [PMap.entry, hmi] using h4, h5,
          by simp, fun _ _ => h3, by simp⟩
      | replace v =>
        obtain ⟨r, h1, h2, h3, h4, h5⟩ := entry_occupied_replace h hal hmi v hop
        exact ⟨r, h1, by simp [PMap.entry, hmi, h2], by simpa [PMap.entry, hmi] using h4, h5,
          by simp, fun _ _ => h3, by simp⟩
      | remove =>
        obtain ⟨r, h1, h2, h3, h4, h5⟩ := entry_occupied_remove h hal hmi
        exact ⟨r, h1, by simp [PMap.entry, hmi, h2], by simpa [PMap.entry, hmi] using h4, h5,
          by simp, fun _ _ => h3, by simp⟩
    | none =>
      cases op with
      | orInsert v d w =>
        obtain ⟨r, h1, h2, h3, h4, h5⟩ := entry_vacant_orInsert h hal hmi v d w hop.1 hop.2
        exact ⟨r, h1, by simp [PMap.entry, hmi, h2], by simpa [PMap.entry, hmi] using h4, h5,
          by simp, by simp, fun _ _ => h3⟩
      | replace v =>
        obtain ⟨r, h1, h2, h3, h4, h5⟩ := entry_vacant_replace h hal hmi v hop
        exact ⟨r, h1, by simp [PMap.entry, hmi, h2], by simpa [PMap.entry, hmi] using h4, h5,
          by simp, by simp, fun _ _ => h3⟩
      | remove =>
        rw [entry_vacant_remove h hal hmi]
        exact ⟨_, rfl, by simp [PMap.entry, hmi], by simpa [PMap.entry, hmi] using h, rfl,
          by simp, by simp, by simp⟩

/-! ### `get_mut_or_default` -/

theorem getMutOrDefault_ref {ms : Masked} {m : Nat → Option Int} (h : MRep ms m) (a : Alloc)
    (e : Entity) (d : Nat) (w : Option Int) (hw : ∀ x, w = some x → ms.inner.valOk x) :
    ∃ r, ms.getMutOrDefault a e d w = .ok r ∧
      r.val = (if a.isAlive e then some ((m e.id).getD 0) else none) ∧
      MRep r.st (if a.isAlive e then upd m e.id (some (w.getD ((m e.id).getD 0))) else m) ∧
      r.st.inner.nullBased = ms.inner.nullBased ∧
      (a.isAlive e = false → r.destroyed = [0]) ∧ (∀ x ∈ r.destroyed, x = 0) := by
  unfold getMutOrDefault
  rw [contains_ref h]
  cases hal : a.isAlive e
  · obtain ⟨r, h1, h2, h3, h4, h5⟩ := insert_ref h a e 0 (valOk_zero _)
    simp only [hal, Bool.false_eq_true, if_false] at h2 h3 h4
    simp only [Bool.false_and, Bool.not_false, if_true, h1, lift_ok, h2]
    exact ⟨_, rfl, rfl, h3, h5, fun _ => h4, by simp [h4]⟩
  · cases hmi : m e.id with
    | none =>
      obtain ⟨r, h1, h2, h3, h4, h5⟩ := insert_ref h a e 0 (valOk_zero _)
      simp only [hal, if_true, hmi] at h2 h3 h4
      obtain ⟨r2, g1, g2, g3, g4, g5⟩ := getMut_ref h3 a e d w
        (fun x hx => (valOk_congr h5 x).mpr (hw x hx))
      simp only [hal, if_true, upd_same] at g2 g4
      simp only [Option.isSome_none, Bool.and_false, Bool.not_false, if_true, h1, lift_ok, h2, g1]
      refine ⟨_, rfl, by simp [g2], ?_, by rw [g5, h5], by simp, ?_⟩
      · cases w with
        | none => simpa [PMap.write_none] using g4
        | some x =>
          rw [PMap.write_some _ _ _ _ (upd_same _ _ _), PMap.upd_upd] at g4
          simpa using g4
      · simp only [g3, List.append_nil]; exact h4
    | some old =>
      obtain ⟨r2, g1, g2, g3, g4, g5⟩ := getMut_ref h a e d w hw
      simp only [hal, if_true] at g2 g4
      simp only [Option.isSome_some, Bool.and_self, Bool.not_true, Bool.false_eq_true, if_false, g1]
      refine ⟨_, rfl, by simp [g2, hmi], ?_, g5, by simp, by simp [g3]⟩
      cases w with
      | none =>
        rw [PMap.write_none] at g4
        simpa [upd_self_eq m e.id (some old) hmi] using g4
      | some x =>
        rw [PMap.write_some _ _ _ _ hmi] at g4
        simpa using g4

end Masked
end SpecsModel
