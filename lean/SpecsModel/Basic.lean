def hello := "world"
