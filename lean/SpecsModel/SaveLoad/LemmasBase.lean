/-
  Save/load domain, basic facts: storages, the marker map, and the allocator steps seen through
  the abstract entity specification (`R a s []`, Lemmas/EntRefine): `s.live` is the list of
  not-dead handles, `s.seen` every handle ever returned.
-/
import SpecsModel.SaveLoad.Model
import SpecsModel.Lemmas.EWorldAccept
import SpecsModel.Lemmas.EntSpecFacts
namespace SpecsModel.SaveLoad
open SpecsModel Alloc

/-! ### Storages -/
namespace Store
variable {α : Type}

@[simp] theorem has_empty (d : α) (i : Nat) : (empty d).has i = false := by simp [empty, has]

theorem has_put (s : Store α) (i j : Nat) (v : α) :
    (s.put i v).has j = if j = i then true else s.has j := by
  simp only [put, has, BSet.mem_add]

theorem val_put (s : Store α) (i j : Nat) (v : α) :
    (s.put i v).val j = if j = i then v else s.val j := by
  simp only [put, val, DMap.get_set]

theorem has_del (s : Store α) (i j : Nat) :
    (s.del i).has j = if j = i then false else s.has j := by
  simp only [del, has, BSet.mem_remove]

@[simp] theorem val_del (s : Store α) (i j : Nat) : (s.del i).val j = s.val j := rfl

theorem has_dropAll (es : List Entity) : ∀ (s : Store α) (j : Nat),
    (s.dropAll es).has j = (s.has j && !decide (∃ e, e ∈ es ∧ e.id = j)) := by
  induction es with
  | nil => intro s j; simp [dropAll]
  | cons e es ih =>
    intro s j
    have : (s.dropAll (e :: es)) = (s.del e.id).dropAll es := rfl
    rw [this, ih, has_del]
    by_cases hj : j = e.id
    · subst hj; simp
    · have : ¬ e.id = j := fun h => hj h.symm
      simp [hj, this]

theorem val_dropAll (es : List Entity) : ∀ (s : Store α) (j : Nat),
    (s.dropAll es).val j = s.val j := by
  induction es with
  | nil => intro s j; rfl
  | cons e es ih =>
    intro s j
    have : (s.dropAll (e :: es)) = (s.del e.id).dropAll es := rfl
    rw [this, ih, val_del]

end Store

/-! ### The marker map (HashMap) is observed only through `mapLookup` -/

theorem mapLookup_filter_ne (m : List (Nat × Entity)) (k k' : Nat) :
    mapLookup (m.filter (fun kv => kv.1 ≠ k)) k' = if k' = k then none else mapLookup m k' := by
  induction m with
  | nil => simp [mapLookup]
  | cons kv t ih =>
    obtain ⟨a, v⟩ := kv
    by_cases ha : a = k
    · subst ha
      simp only [List.filter_cons, ne_eq, not_true_eq_false, decide_false, Bool.false_eq_true,
        if_false, ih, mapLookup]
      by_cases hk : k' = a
      · simp [hk]
      · have : ¬ a = k' := fun h => hk h.symm
        simp [hk, this]
    · simp only [List.filter_cons, ne_eq, ha, not_false_eq_true, decide_true, if_true, mapLookup, ih]
      by_cases hk : k' = k
      · subst hk; simp [ha]
      · simp [hk]

/-- `HashMap::insert` followed by `get`. -/
theorem mapLookup_mapInsert (m : List (Nat × Entity)) (k k' : Nat) (v : Entity) :
    mapLookup (mapInsert m k v) k' = if k' = k then some v else mapLookup m k' := by
  simp only [mapInsert, mapLookup, mapLookup_filter_ne]
  by_cases hk : k' = k
  · subst hk; simp
  · have : ¬ k = k' := fun h => hk h.symm
    simp [hk, this]

/-- `collect()` of `(id, entity)` pairs into a `HashMap`: the last pair with a key wins. -/
theorem mapLookup_collect (l : List (Entity × Nat)) : ∀ (m0 : List (Nat × Entity)) (k : Nat),
    mapLookup (l.foldl (fun m em => mapInsert m em.2 em.1) m0) k =
      match (l.reverse.find? (fun em => em.2 == k)) with
      | some em => some em.1
      | none => mapLookup m0 k := by
  induction l with
  | nil => intro m0 k; simp
  | cons em t ih =>
    intro m0 k
    simp only [List.foldl_cons, ih, List.reverse_cons, List.find?_append]
    cases hf : t.reverse.find? (fun em => em.2 == k) with
    | some x => simp
    | none =>
      simp only [Option.none_or, List.find?_cons, List.find?_nil, mapLookup_mapInsert]
      by_cases hk : em.2 = k
      · simp [hk]
      · have : ¬ k = em.2 := fun h => hk h.symm
        have hb : (em.2 == k) = false := by simpa using hk
        simp [this, hb]

/-- With pairwise distinct keys the collected map contains exactly the listed pairs. -/
theorem mapLookup_collect_nodup (l : List (Entity × Nat)) (hnd : (l.map (·.2)).Nodup) (k : Nat)
    (e : Entity) :
    mapLookup (l.foldl (fun m em => mapInsert m em.2 em.1) []) k = some e ↔ (e, k) ∈ l := by
  rw [mapLookup_collect]
  constructor
  · intro h
    cases hf : l.reverse.find? (fun em => em.2 == k) with
    | none => simp [hf, mapLookup] at h
    | some x =>
      simp only [hf, Option.some.injEq] at h
      have hm := List.mem_of_find?_eq_some hf
      have hp := List.find?_some hf
      simp only [beq_iff_eq] at hp
      have : x = (e, k) := by cases x; simp_all
      rw [← this]; exact List.mem_reverse.mp hm
  · intro hmem
    cases hf : l.reverse.find? (fun em => em.2 == k) with
    | none =>
      have := List.find?_eq_none.mp hf (e, k) (List.mem_reverse.mpr hmem)
      simp at this
    | some x =>
      have hm := List.mem_reverse.mp (List.mem_of_find?_eq_some hf)
      have hp := List.find?_some hf
      simp only [beq_iff_eq] at hp
      -- two pairs with key k in a key-nodup list are equal
      have : x = (e, k) := by
        have hinj : ∀ (l : List (Entity × Nat)), (l.map (·.2)).Nodup → ∀ a b, a ∈ l → b ∈ l → a.2 = b.2 → a = b := by
          intro l
          induction l with
          | nil => intro _ a b ha; cases ha
          | cons c t ih =>
            intro hnd a b ha hb hab
            simp only [List.map_cons, List.nodup_cons, List.mem_map, not_exists, not_and] at hnd
            rcases List.mem_cons.mp ha with ha | ha <;> rcases List.mem_cons.mp hb with hb | hb
            · rw [ha, hb]
            · rw [ha] at hab; exact absurd hab.symm (hnd.1 b hb)
            · rw [hb] at hab; exact absurd hab (hnd.1 a ha)
            · exact ih hnd.2 a b ha hb hab
        exact hinj l hnd x (e, k) hm hmem (by simp [hp])
      simp [this]

/-! ### Allocator steps through the abstract entity specification -/

theorem _root_.SpecsModel.R.alive_iff_live {a : Alloc} {s : EntSpec} {p : List Nat} (h : R a s p) {e : Entity}
    (he : e ∈ s.seen) : a.isAlive e = true ↔ e ∈ s.live := by
  rw [h.liveIff e]; exact ⟨fun ha => ⟨he, ha⟩, fun ha => ha.2⟩

theorem _root_.SpecsModel.R.live_seen {a : Alloc} {s : EntSpec} {p : List Nat} (h : R a s p) {e : Entity}
    (he : e ∈ s.live) : e ∈ s.seen := ((h.liveIff e).mp he).1

theorem _root_.SpecsModel.R.live_alive {a : Alloc} {s : EntSpec} {p : List Nat} (h : R a s p) {e : Entity}
    (he : e ∈ s.live) : a.isAlive e = true := ((h.liveIff e).mp he).2

/-- The entities join lists exactly the not-dead handles. -/
theorem _root_.SpecsModel.R.mem_join {a : Alloc} {s : EntSpec} {p : List Nat} (h : R a s p) (e : Entity) :
    e ∈ a.joinEntities ↔ e ∈ s.live := by
  rw [mem_joinEntities h.inv, mem_live_iff h]

theorem joinEntities_sorted (a : Alloc) : a.joinEntities.Pairwise (fun x y => x.id < y.id) := by
  simp only [joinEntities]
  exact List.Pairwise.map _ (fun _ _ h => h) (BSet.toList_sorted _)

/-- Any creation path. -/
theorem create_step {a : Alloc} {s : EntSpec} (h : R a s []) (atomic : Bool) :
    ∃ a' e s', (if atomic then a.allocateAtomic else a.allocate) = .ok (a', e) ∧ R a' s' [] ∧
      s'.seen = e :: s.seen ∧ s'.live = s.live ++ [e] ∧ s'.pending = s.pending ∧ e ∉ s.seen ∧
      (∀ x, x ∈ s.live → x.id ≠ e.id) ∧ a'.isAlive e = true := by
  have key : ∀ (o : Out (Alloc × Entity)),
      (∃ a' e s', o = .ok (a', e) ∧ s.step (.created e) = .ok s' ∧ R a' s' []) →
      ∃ a' e s', o = .ok (a', e) ∧ R a' s' [] ∧
        s'.seen = e :: s.seen ∧ s'.live = s.live ++ [e] ∧ s'.pending = s.pending ∧ e ∉ s.seen ∧
        (∀ x, x ∈ s.live → x.id ≠ e.id) ∧ a'.isAlive e = true := by
    rintro o ⟨a', e, s', ho, hs, hR⟩
    have hp : s'.pending = s.pending := by
      simp only [EntSpec.step] at hs
      split at hs
      · cases hs
      · split at hs
        · cases hs
        · split at hs
          · cases hs
          · split at hs
            · cases hs; rfl
            · cases hs
    rcases EntSpec.step_facts hs with ⟨e', he', h1, h2, h3, _, _, h6⟩ | ⟨hne, _⟩
    · cases he'
      refine ⟨a', e, s', ho, hR, h2, h3, hp, h1, ?_, ?_⟩
      · intro x hx hid
        exact h6 (List.mem_map.mpr ⟨x, hx, hid⟩)
      · exact hR.live_alive (by rw [h3]; simp)
    · exact absurd rfl (hne e)
  cases atomic
  · simpa using key _ (allocate_refine h)
  · simpa using key _ (allocateAtomic_refine h)

/-- What `killPrefix` computes: a prefix of live handles is removed. -/
theorem killPrefix_spec : ∀ (es live pending : List Entity) (pos : Nat), live.Nodup →
    ∃ n, n ≤ es.length ∧
      ((EntSpec.killPrefix live pending es pos).2.2 = .ok ∧ n = es.length ∨
       (EntSpec.killPrefix live pending es pos).2.2 = .err (pos + n)) ∧
      (∀ x, x ∈ (EntSpec.killPrefix live pending es pos).1 ↔ x ∈ live ∧ x ∉ es.take n) ∧
      (∀ x, x ∈ es.take n → x ∈ live) := by
  intro es
  induction es with
  | nil =>
    intro live pending pos _
    exact ⟨0, Nat.le_refl _, Or.inl ⟨rfl, rfl⟩, by simp [EntSpec.killPrefix], by simp⟩
  | cons e es ih =>
    intro live pending pos hnd
    simp only [EntSpec.killPrefix]
    by_cases hc : live.contains e = true
    · simp only [hc, if_true]
      obtain ⟨n, hn, hr, hl, hs⟩ := ih (live.erase e) (pending.erase e) (pos + 1) (hnd.erase e)
      have hel : e ∈ live := by simpa using hc
      refine ⟨n + 1, by simp; omega, ?_, ?_, ?_⟩
      · rcases hr with ⟨h1, h2⟩ | h1
        · exact Or.inl ⟨h1, by simp [h2]⟩
        · right; rw [h1]; congr 1; omega
      · intro x
        rw [hl x, hnd.mem_erase_iff]
        simp only [List.take_succ_cons, List.mem_cons, not_or]
        constructor
        · rintro ⟨⟨h1, h2⟩, h3⟩; exact ⟨h2, h1, h3⟩
        · rintro ⟨h1, h2, h3⟩; exact ⟨⟨h2, h1⟩, h3⟩
      · intro x hx
        simp only [List.take_succ_cons, List.mem_cons] at hx
        rcases hx with rfl | hx
        · exact hel
        · exact List.mem_of_mem_erase (hs x hx)
    · simp only [hc, Bool.false_eq_true, if_false]
      exact ⟨0, by omega, Or.inr rfl, by simp, by simp⟩

/-- `Allocator::kill` (all of `World::delete_entity`, `delete_entities`). `n` is the number of
    handles killed; on `Err` it is the reported position. -/
theorem kill_step {a : Alloc} {s : EntSpec} (h : R a s []) (es : List Entity)
    (hes : ∀ e, e ∈ es → e ∈ s.seen) :
    ∃ a' r s' n, a.kill es = .ok (a', r) ∧ R a' s' [] ∧ s'.seen = s.seen ∧ n ≤ es.length ∧
      (r = .ok ∧ n = es.length ∨ r = .err n) ∧
      (∀ x, x ∈ s'.live ↔ x ∈ s.live ∧ x ∉ es.take n) ∧ (∀ x, x ∈ es.take n → x ∈ s.live) := by
  obtain ⟨a', r, s', hk, hs, hR⟩ := kill_refine h es hes
  obtain ⟨n, hn, hr, hl, hsub⟩ := killPrefix_spec es s.live s.pending 0 h.liveNodup
  simp only [EntSpec.step] at hs
  generalize hkp : EntSpec.killPrefix s.live s.pending es 0 = kp at hs hr hl
  obtain ⟨live', pend', exp⟩ := kp
  simp only at hs hr hl
  split at hs
  · next heq =>
    cases hs
    have hexp : exp = r := by simpa using heq
    subst hexp
    refine ⟨a', exp, _, n, hk, hR, rfl, hn, ?_, hl, hsub⟩
    rcases hr with ⟨h1, h2⟩ | h1
    · exact Or.inl ⟨h1, h2⟩
    · right; rw [h1]; simp
  · cases hs

/-- `Allocator::kill_atomic` (`Entities::delete`). -/
theorem killAtomic_step {a : Alloc} {s : EntSpec} (h : R a s []) (e : Entity) (he : e ∈ s.seen) :
    ∃ a' ok s', a.killAtomic e = .ok (a', ok) ∧ R a' s' [] ∧ s'.seen = s.seen ∧ s'.live = s.live := by
  obtain ⟨a', ok, s', hk, hs, hR, _, hseen⟩ := killAtomic_refine h e he
  refine ⟨a', ok, s', hk, hR, hseen, ?_⟩
  simp only [EntSpec.step] at hs
  split at hs
  · split at hs
    · cases hs; rfl
    · cases hs
  · split at hs
    · cases hs
    · cases hs; rfl

/-- `Allocator::merge` (`World::maintain`): the returned handles were not dead and now are. -/
theorem merge_step {a : Alloc} {s : EntSpec} (h : R a s []) :
    ∃ a' del s', a.merge = .ok (a', del) ∧ R a' s' [] ∧ s'.seen = s.seen ∧
      (∀ x, x ∈ s'.live ↔ x ∈ s.live ∧ x ∉ del) ∧ (∀ x, x ∈ del → x ∈ s.live) := by
  obtain ⟨a', del, s', hm, hs, hR⟩ := merge_refine h
  obtain ⟨a2, hm2, _⟩ := merge_spec h.inv
  have hdel : del = a.killed.toList.map (fun i => ⟨i, a.top i⟩) := by
    rw [hm] at hm2; cases hm2; rfl
  simp only [EntSpec.step] at hs
  cases hs
  have hpend : ∀ x, x ∈ del ↔ x ∈ s.pending := by
    intro x
    rw [h.pendIff x, hdel]
    simp only [List.mem_map, BSet.mem_toList]
    constructor
    · rintro ⟨i, hi, rfl⟩
      have hocc : a.occ i = true := by
        have := h.inv.killedOcc i hi
        simp only [occ, Bool.or_eq_true, decide_eq_true_eq]; exact this
      exact ⟨h.live_of_occ i hocc, hi⟩
    · rintro ⟨hl, hk⟩
      refine ⟨x.id, hk, ?_⟩
      have := (h.occ_of_live x hl).2
      cases x; simp only at this ⊢; rw [this]
  refine ⟨a', del, _, hm, hR, rfl, ?_, ?_⟩
  · intro x
    simp only [List.mem_filter, Bool.not_eq_true', List.contains_eq_mem, decide_eq_false_iff_not]
    rw [hpend x]
  · intro x hx
    exact ((h.pendIff x).mp ((hpend x).mp hx)).1

end SpecsModel.SaveLoad
