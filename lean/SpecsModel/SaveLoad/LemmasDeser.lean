/-
  Save/load domain: what `deserialize` does to a world satisfying the marker invariant, for
  arbitrary data (own, foreign, repeated, ids above the counter, dangling references).
-/
import SpecsModel.SaveLoad.LemmasInv
namespace SpecsModel.SaveLoad
open SpecsModel Alloc

/-! ### Storage reads -/
namespace Store
variable {α : Type}
theorem get?_put (s : Store α) (i j : Nat) (v : α) :
    (s.put i v).get? j = if j = i then some v else s.get? j := by
  simp only [get?, has_put, val_put]; split <;> simp_all
theorem get?_del (s : Store α) (i j : Nat) :
    (s.del i).get? j = if j = i then none else s.get? j := by
  simp only [get?, has_del, val_del]; split <;> simp_all
theorem get?_eq_none {s : Store α} {i : Nat} : s.get? i = none ↔ s.has i = false := by
  simp only [get?]; cases s.has i <;> simp
theorem get?_eq_some {s : Store α} {i : Nat} {v : α} :
    s.get? i = some v ↔ s.has i = true ∧ s.val i = v := by
  simp only [get?]; cases s.has i <;> simp
end Store

/-! ### Marker ids mentioned by data -/

def EnD.refs : EnD → List Nat
  | .one m => [m]
  | _ => []

def EntityData.rRefs (d : EntityData) : List Nat :=
  match d.r with
  | some (a, b) => [a, b]
  | none => []

def EntityData.eRefs (d : EntityData) : List Nat :=
  match d.e with
  | some x => x.refs
  | none => []

/-- The record's own marker id and every id its components refer to. -/
def EntityData.mentioned (d : EntityData) : List Nat := d.marker :: (d.rRefs ++ d.eRefs)

def mentionedAll (ds : List EntityData) : List Nat := ds.flatMap EntityData.mentioned

/-! ### How a load extends a world -/

/-- `w', s'` extends `w, s` by entities created for the unknown ids among `M`. -/
structure Grow (w : SW) (s : EntSpec) (w' : SW) (s' : EntSpec) (M : List Nat) : Prop where
  live : ∀ x, x ∈ s.live → x ∈ s'.live
  seen : ∀ x, x ∈ s.seen → x ∈ s'.seen
  /-- known ids stay on their entities (merge in place) -/
  keep : ∀ e m, Carries w s e m → Carries w' s' e m
  /-- an entity that existed before is marked afterwards iff it was before -/
  oldMark : ∀ e, e ∈ s.live → w'.mks.has e.id = w.mks.has e.id
  /-- every created entity carries a mentioned id that nobody carried -/
  new : ∀ e, e ∈ s'.live → e ∉ s.live → ∃ m, m ∈ M ∧ Carries w' s' e m ∧ ∀ e0, ¬ Carries w s e0 m
  /-- afterwards every id of `M` has a carrier -/
  all : ∀ m, m ∈ M → ∃ e, Carries w' s' e m
  idx : w.ma.index ≤ w'.ma.index

namespace Grow
variable {w w1 w2 : SW} {s s1 s2 : EntSpec} {M M1 M2 : List Nat}

theorem refl (w : SW) (s : EntSpec) : Grow w s w s [] :=
  ⟨fun _ h => h, fun _ h => h, fun _ _ h => h, fun _ _ => rfl, fun _ h hn => absurd h hn,
   fun _ h => (by cases h), Nat.le_refl _⟩

theorem trans (g1 : Grow w s w1 s1 M1) (g2 : Grow w1 s1 w2 s2 M2) : Grow w s w2 s2 (M1 ++ M2) := by
  constructor
  · intro x hx; exact g2.live x (g1.live x hx)
  · intro x hx; exact g2.seen x (g1.seen x hx)
  · intro e m hc; exact g2.keep e m (g1.keep e m hc)
  · intro e he; rw [g2.oldMark e (g1.live e he), g1.oldMark e he]
  · intro e he hn
    by_cases h1 : e ∈ s1.live
    · obtain ⟨m, hm, hc, hu⟩ := g1.new e h1 hn
      exact ⟨m, List.mem_append_left _ hm, g2.keep e m hc, hu⟩
    · obtain ⟨m, hm, hc, hu⟩ := g2.new e he h1
      exact ⟨m, List.mem_append_right _ hm, hc, fun e0 h0 => hu e0 (g1.keep e0 m h0)⟩
  · intro m hm
    rcases List.mem_append.mp hm with hm | hm
    · obtain ⟨e, he⟩ := g1.all m hm; exact ⟨e, g2.keep e m he⟩
    · exact g2.all m hm
  · have := g1.idx; have := g2.idx; omega

/-- Changing only component storages does not affect `Grow`. -/
theorem comps_right (g : Grow w s w1 s1 M) {w1' : SW} (hm : w1'.mks = w1.mks) (hma : w1'.ma = w1.ma) :
    Grow w s w1' s1 M := by
  obtain ⟨g1, g2, g3, g4, g5, g6, g7⟩ := g
  constructor
  all_goals (try simp only [Carries, hm, hma] at *)
  all_goals assumption

theorem comps_left (g : Grow w s w1 s1 M) {w' : SW} (hm : w'.mks = w.mks) (hma : w'.ma = w.ma) :
    Grow w' s w1 s1 M := by
  obtain ⟨g1, g2, g3, g4, g5, g6, g7⟩ := g
  constructor
  all_goals (try simp only [Carries, hm, hma] at *)
  all_goals assumption

end Grow

/-- `retrieve_entity` in general: the carrier of a known id, a freshly created carrier for an
    unknown one; component storages untouched. -/
theorem retrieve_spec {w : SW} {s : EntSpec} (h : SInv w s) (m : Nat) :
    ∃ w' e s', w.retrieveEntity m = .ok (w', e) ∧ SInv w' s' ∧ Grow w s w' s' [m] ∧
      Carries w' s' e m ∧ w'.cp = w.cp ∧ w'.cr = w.cr ∧ w'.ce = w.ce := by
  by_cases hk : ∃ i, w.mks.has i = true ∧ w.mks.val i = m
  · obtain ⟨i, hi, hv⟩ := hk
    obtain ⟨e, hel, hei⟩ := h.mkLive i hi
    subst hei
    have hc : Carries w s e m := ⟨hel, hi, hv⟩
    obtain ⟨w', hr, ha, hma, hcp, hcr, hce, hh, hvv⟩ := retrieve_known h hc
    refine ⟨w', e, s, hr, h.of_eq ha hma hcp hcr hce hh hvv, ?_, ?_, hcp, hcr, hce⟩
    · refine ⟨fun _ h => h, fun _ h => h, ?_, fun e _ => hh e.id, fun _ h hn => absurd h hn, ?_,
        by rw [hma]; exact Nat.le_refl _⟩
      · intro x k hx; exact ⟨hx.1, by rw [hh]; exact hx.2.1, by rw [hvv]; exact hx.2.2⟩
      · intro k hk; simp only [List.mem_singleton] at hk; subst hk
        exact ⟨e, hel, by rw [hh]; exact hi, by rw [hvv]; exact hv⟩
    · exact ⟨hel, by rw [hh]; exact hi, by rw [hvv]; exact hv⟩
  · have hu : ∀ i, w.mks.has i = true → w.mks.val i ≠ m := fun i hi hv => hk ⟨i, hi, hv⟩
    obtain ⟨w', e, s', hr, hI, hlive, hseen, hns, hid, hh, hv, hcp, hcr, hce, hidx⟩ := retrieve_unknown h hu
    have hce' : Carries w' s' e m := ⟨by rw [hlive]; simp, by rw [hh]; simp, by rw [hv]; simp⟩
    refine ⟨w', e, s', hr, hI, ?_, hce', hcp, hcr, hce⟩
    constructor
    · intro x hx; rw [hlive]; exact List.mem_append_left _ hx
    · intro x hx; rw [hseen]; exact List.mem_cons_of_mem _ hx
    · intro x k hx
      have hne : x.id ≠ e.id := hid x hx.1
      exact ⟨by rw [hlive]; exact List.mem_append_left _ hx.1, by rw [hh]; simp [hne, hx.2.1],
        by rw [hv]; simp [hne, hx.2.2]⟩
    · intro x hx; rw [hh]; simp [hid x hx]
    · intro x hx hn
      rw [hlive] at hx
      rcases List.mem_append.mp hx with hx | hx
      · exact absurd hx hn
      · simp only [List.mem_singleton] at hx; subst hx
        exact ⟨m, by simp, hce', fun e0 h0 => hu e0.id h0.2.1 h0.2.2⟩
    · intro k hk; simp only [List.mem_singleton] at hk; subst hk; exact ⟨e, hce'⟩
    · rw [hidx]; split <;> omega

/-! ### One record -/

/-- Entity `e`'s components are exactly those of record `d`, references resolved to carriers. -/
structure Resolved (w : SW) (s : EntSpec) (e : Entity) (d : EntityData) : Prop where
  p : w.cp.get? e.id = d.p
  r : match d.r with
      | none => w.cr.get? e.id = none
      | some (ma, mb) => ∃ a b, Carries w s a ma ∧ Carries w s b mb ∧ w.cr.get? e.id = some (a, b)
  e : match d.e with
      | none => w.ce.get? e.id = none
      | some .nil => w.ce.get? e.id = some .nil
      | some (.val v) => w.ce.get? e.id = some (.val v)
      | some (.one m) => ∃ a, Carries w s a m ∧ w.ce.get? e.id = some (.one a)

/-- Component storages agree outside index `i`. -/
def OthersSame (w w' : SW) (i : Nat) : Prop :=
  ∀ j, j ≠ i → w'.cp.get? j = w.cp.get? j ∧ w'.cr.get? j = w.cr.get? j ∧ w'.ce.get? j = w.ce.get? j

theorem Resolved.stable {w w' : SW} {s s' : EntSpec} {e : Entity} {d : EntityData} {M : List Nat}
    (hr : Resolved w s e d) (g : Grow w s w' s' M)
    (hsame : w'.cp.get? e.id = w.cp.get? e.id ∧ w'.cr.get? e.id = w.cr.get? e.id ∧
      w'.ce.get? e.id = w.ce.get? e.id) : Resolved w' s' e d := by
  obtain ⟨hp, hrr, he⟩ := hr
  refine ⟨by rw [hsame.1]; exact hp, ?_, ?_⟩
  · cases hd : d.r with
    | none => simp only [hd] at hrr ⊢; rw [hsame.2.1]; exact hrr
    | some ab =>
      obtain ⟨ma, mb⟩ := ab
      simp only [hd] at hrr ⊢
      obtain ⟨a, b, ha, hb, hv⟩ := hrr
      exact ⟨a, b, g.keep a ma ha, g.keep b mb hb, by rw [hsame.2.1]; exact hv⟩
  · cases hd : d.e with
    | none => simp only [hd] at he ⊢; rw [hsame.2.2]; exact he
    | some x =>
      cases x with
      | nil => simp only [hd] at he ⊢; rw [hsame.2.2]; exact he
      | val v => simp only [hd] at he ⊢; rw [hsame.2.2]; exact he
      | one m =>
        simp only [hd] at he ⊢
        obtain ⟨a, ha, hv⟩ := he
        exact ⟨a, g.keep a m ha, by rw [hsame.2.2]; exact hv⟩

/-- `deserialize_entity` on a not-dead entity. -/
theorem deserEntity_spec {w : SW} {s : EntSpec} (h : SInv w s) {ent : Entity} (hent : ent ∈ s.live)
    (d : EntityData) :
    ∃ w' s', w.deserEntity ent d = .ok w' ∧ SInv w' s' ∧ Grow w s w' s' (d.rRefs ++ d.eRefs) ∧
      Resolved w' s' ent d ∧ OthersSame w w' ent.id := by
  have hal : w.alloc.isAlive ent = true := h.r.live_alive hent
  -- phase P
  obtain ⟨w1, hw1, hI1, ha1, hm1, hma1, hcr1, hce1, hp1, ho1⟩ :
      ∃ w1 : SW, w1 = SW.deserP w ent d.p ∧ SInv w1 s ∧
        w1.alloc = w.alloc ∧ w1.mks = w.mks ∧ w1.ma = w.ma ∧ w1.cr = w.cr ∧ w1.ce = w.ce ∧
        w1.cp.get? ent.id = d.p ∧ (∀ j, j ≠ ent.id → w1.cp.get? j = w.cp.get? j) := by
    cases hd : d.p with
    | some v =>
      refine ⟨_, rfl, ?_, rfl, rfl, rfl, rfl, rfl, ?_, ?_⟩
      · apply h.setCp (w' := { w with cp := (sinsert w.alloc w.cp ent v).1 }) rfl rfl rfl rfl rfl
        intro i hi
        simp only [sinsert, hal, if_true, Store.has_put] at hi
        by_cases hie : i = ent.id
        · exact Or.inr ⟨ent, hent, hie.symm⟩
        · simp only [hie, if_false] at hi; exact Or.inl hi
      · simp [SW.deserP, sinsert, hal, Store.get?_put]
      · intro j hj; simp [SW.deserP, sinsert, hal, Store.get?_put, hj]
    | none =>
      refine ⟨_, rfl, ?_, rfl, rfl, rfl, rfl, rfl, ?_, ?_⟩
      · apply h.setCp (w' := { w with cp := sremove w.alloc w.cp ent }) rfl rfl rfl rfl rfl
        intro i hi
        simp only [sremove, hal, if_true, Store.has_del] at hi
        by_cases hie : i = ent.id
        · simp [hie] at hi
        · simp only [hie, if_false] at hi; exact Or.inl hi
      · simp [SW.deserP, sremove, hal, Store.get?_del]
      · intro j hj; simp [SW.deserP, sremove, hal, Store.get?_del, hj]
  -- phase R
  obtain ⟨w2, s2, hw2, hI2, hg2, hcp2, hce2, hr2, ho2⟩ :
      ∃ (w2 : SW) (s2 : EntSpec), SW.deserR w1 ent d.r = Out.ok w2 ∧ SInv w2 s2 ∧
        Grow w1 s w2 s2 d.rRefs ∧ w2.cp = w1.cp ∧ w2.ce = w1.ce ∧
        (match d.r with
          | none => w2.cr.get? ent.id = none
          | some (ma, mb) => ∃ a b, Carries w2 s2 a ma ∧ Carries w2 s2 b mb ∧ w2.cr.get? ent.id = some (a, b)) ∧
        (∀ j, j ≠ ent.id → w2.cr.get? j = w1.cr.get? j) := by
    have hal1 : w1.alloc.isAlive ent = true := by rw [ha1]; exact hal
    cases hd : d.r with
    | none =>
      refine ⟨_, s, rfl, ?_, ?_, rfl, rfl, ?_, ?_⟩
      · apply hI1.setCr (w' := { w1 with cr := sremove w1.alloc w1.cr ent }) rfl rfl rfl rfl rfl
        intro i hi
        simp only [sremove, hal1, if_true, Store.has_del] at hi
        by_cases hie : i = ent.id
        · simp [hie] at hi
        · simp only [hie, if_false] at hi
          exact Or.inl ⟨hi, by simp [sremove, hal1]⟩
      · simp only [EntityData.rRefs, hd]
        exact (Grow.refl w1 s).comps_right (w1' := { w1 with cr := sremove w1.alloc w1.cr ent }) rfl rfl
      · simp [sremove, hal1, Store.get?_del]
      · intro j hj; simp [sremove, hal1, Store.get?_del, hj]
    | some ab =>
      obtain ⟨ma, mb⟩ := ab
      obtain ⟨wa, a, sa, hra, hIa, hga, hca, hcpa, hcra, hcea⟩ := retrieve_spec hI1 ma
      obtain ⟨wb, b, sb, hrb, hIb, hgb, hcb, hcpb, hcrb, hceb⟩ := retrieve_spec hIa mb
      have hentb : ent ∈ sb.live := hgb.live _ (hga.live _ hent)
      have halb : wb.alloc.isAlive ent = true := hIb.r.live_alive hentb
      refine ⟨{ wb with cr := (sinsert wb.alloc wb.cr ent (a, b)).1 }, sb, ?_, ?_, ?_, ?_, ?_, ?_, ?_⟩
      · simp only [SW.deserR, SW.convFrom, hra, hrb]
      · apply hIb.setCr (w' := { wb with cr := (sinsert wb.alloc wb.cr ent (a, b)).1 }) rfl rfl rfl rfl rfl
        intro i hi
        simp only [sinsert, halb, if_true, Store.has_put, Store.val_put] at hi ⊢
        by_cases hie : i = ent.id
        · right
          simp only [hie, if_true]
          exact ⟨⟨ent, hentb, rfl⟩, hIb.r.live_seen (hgb.keep a ma hca).1, hIb.r.live_seen hcb.1⟩
        · simp only [hie, if_false] at hi ⊢; exact Or.inl ⟨hi, trivial⟩
      · simp only [EntityData.rRefs, hd]
        exact (hga.trans hgb).comps_right (w1' := { wb with cr := (sinsert wb.alloc wb.cr ent (a, b)).1 }) rfl rfl
      · show wb.cp = w1.cp; rw [hcpb, hcpa]
      · show wb.ce = w1.ce; rw [hceb, hcea]
      · refine ⟨a, b, ?_, ?_, ?_⟩
        · exact hgb.keep a ma hca
        · exact hcb
        · simp [sinsert, halb, Store.get?_put]
      · intro j hj
        simp only [sinsert, halb, if_true, Store.get?_put, hj, if_false]
        rw [hcrb, hcra]
  -- phase E
  have hent2 : ent ∈ s2.live := hg2.live _ hent
  have hal2 : w2.alloc.isAlive ent = true := hI2.r.live_alive hent2
  obtain ⟨w3, s3, hw3, hI3, hg3, hcp3, hcr3, he3, ho3⟩ :
      ∃ (w3 : SW) (s3 : EntSpec), SW.deserE w2 ent d.e = Out.ok w3 ∧ SInv w3 s3 ∧
        Grow w2 s2 w3 s3 d.eRefs ∧ w3.cp = w2.cp ∧ w3.cr = w2.cr ∧
        (match d.e with
          | none => w3.ce.get? ent.id = none
          | some .nil => w3.ce.get? ent.id = some .nil
          | some (.val v) => w3.ce.get? ent.id = some (.val v)
          | some (.one m) => ∃ a, Carries w3 s3 a m ∧ w3.ce.get? ent.id = some (.one a)) ∧
        (∀ j, j ≠ ent.id → w3.ce.get? j = w2.ce.get? j) := by
    have plain : ∀ c : En, (∀ x, c ≠ .one x) →
        SInv { w2 with ce := (sinsert w2.alloc w2.ce ent c).1 } s2 ∧
        ({ w2 with ce := (sinsert w2.alloc w2.ce ent c).1 } : SW).ce.get? ent.id = some c ∧
        (∀ j, j ≠ ent.id → ({ w2 with ce := (sinsert w2.alloc w2.ce ent c).1 } : SW).ce.get? j = w2.ce.get? j) := by
      intro c hc
      refine ⟨?_, ?_, ?_⟩
      · apply hI2.setCe (w' := { w2 with ce := (sinsert w2.alloc w2.ce ent c).1 }) rfl rfl rfl rfl rfl
        intro i hi
        simp only [sinsert, hal2, if_true, Store.has_put, Store.val_put] at hi ⊢
        by_cases hie : i = ent.id
        · right
          simp only [hie, if_true]
          exact ⟨⟨ent, hent2, rfl⟩, fun x hx => absurd hx (hc x)⟩
        · simp only [hie, if_false] at hi ⊢; exact Or.inl ⟨hi, trivial⟩
      · simp [sinsert, hal2, Store.get?_put]
      · intro j hj; simp [sinsert, hal2, Store.get?_put, hj]
    cases hd : d.e with
    | none =>
      refine ⟨_, s2, rfl, ?_, ?_, rfl, rfl, ?_, ?_⟩
      · apply hI2.setCe (w' := { w2 with ce := sremove w2.alloc w2.ce ent }) rfl rfl rfl rfl rfl
        intro i hi
        simp only [sremove, hal2, if_true, Store.has_del] at hi
        by_cases hie : i = ent.id
        · simp [hie] at hi
        · simp only [hie, if_false] at hi
          exact Or.inl ⟨hi, by simp [sremove, hal2]⟩
      · simp only [EntityData.eRefs, hd]
        exact (Grow.refl w2 s2).comps_right (w1' := { w2 with ce := sremove w2.alloc w2.ce ent }) rfl rfl
      · simp [sremove, hal2, Store.get?_del]
      · intro j hj; simp [sremove, hal2, Store.get?_del, hj]
    | some x =>
      cases x with
      | nil =>
        obtain ⟨p1, p2, p3⟩ := plain .nil (by intro x hx; cases hx)
        refine ⟨_, s2, rfl, p1, ?_, rfl, rfl, p2, p3⟩
        simp only [EntityData.eRefs, hd, EnD.refs]
        exact (Grow.refl w2 s2).comps_right (w1' := { w2 with ce := (sinsert w2.alloc w2.ce ent .nil).1 }) rfl rfl
      | val v =>
        obtain ⟨p1, p2, p3⟩ := plain (.val v) (by intro x hx; cases hx)
        refine ⟨_, s2, rfl, p1, ?_, rfl, rfl, p2, p3⟩
        simp only [EntityData.eRefs, hd, EnD.refs]
        exact (Grow.refl w2 s2).comps_right (w1' := { w2 with ce := (sinsert w2.alloc w2.ce ent (.val v)).1 }) rfl rfl
      | one m =>
        obtain ⟨wa, a, sa, hra, hIa, hga, hca, hcpa, hcra, hcea⟩ := retrieve_spec hI2 m
        have henta : ent ∈ sa.live := hga.live _ hent2
        have hala : wa.alloc.isAlive ent = true := hIa.r.live_alive henta
        refine ⟨{ wa with ce := (sinsert wa.alloc wa.ce ent (.one a)).1 }, sa, ?_, ?_, ?_, hcpa, hcra, ?_, ?_⟩
        · simp only [SW.deserE, SW.convFrom, hra]
        · apply hIa.setCe (w' := { wa with ce := (sinsert wa.alloc wa.ce ent (.one a)).1 }) rfl rfl rfl rfl rfl
          intro i hi
          simp only [sinsert, hala, if_true, Store.has_put, Store.val_put] at hi ⊢
          by_cases hie : i = ent.id
          · right
            simp only [hie, if_true]
            refine ⟨⟨ent, henta, rfl⟩, ?_⟩
            intro x hx; cases hx; exact hIa.r.live_seen hca.1
          · simp only [hie, if_false] at hi ⊢; exact Or.inl ⟨hi, trivial⟩
        · simp only [EntityData.eRefs, hd, EnD.refs]
          exact hga.comps_right (w1' := { wa with ce := (sinsert wa.alloc wa.ce ent (.one a)).1 }) rfl rfl
        · exact ⟨a, hca, by simp [sinsert, hala, Store.get?_put]⟩
        · intro j hj
          simp only [sinsert, hala, if_true, Store.get?_put, hj, if_false]
          rw [hcea]
  -- assemble
  have hg12 : Grow w s w2 s2 d.rRefs := hg2.comps_left (w' := w) hm1.symm hma1.symm
  refine ⟨w3, s3, ?_, hI3, hg12.trans hg3, ?_, ?_⟩
  · simp only [SW.deserEntity]
    rw [← hw1, hw2]
    exact hw3
  · refine ⟨by rw [hcp3, hcp2]; exact hp1, ?_, he3⟩
    have : w3.cr.get? ent.id = w2.cr.get? ent.id := by rw [hcr3]
    cases hd : d.r with
    | none => simp only [hd] at hr2 ⊢; rw [this]; exact hr2
    | some ab =>
      obtain ⟨ma, mb⟩ := ab
      simp only [hd] at hr2 ⊢
      obtain ⟨a, b, ha, hb, hv⟩ := hr2
      exact ⟨a, b, hg3.keep a ma ha, hg3.keep b mb hb, by rw [this]; exact hv⟩
  · intro j hj
    refine ⟨?_, ?_, ?_⟩
    · rw [hcp3, hcp2]; exact ho1 j hj
    · rw [hcr3, ho2 j hj, hcr1]
    · rw [ho3 j hj, hce2, hce1]

/-- One element of the sequence: the entity for the record's id (existing or created), then its
    components. -/
theorem deserOne_spec {w : SW} {s : EntSpec} (h : SInv w s) (d : EntityData) :
    ∃ w' s', w.deserOne d = .ok w' ∧ SInv w' s' ∧ Grow w s w' s' d.mentioned ∧
      ∃ e, Carries w' s' e d.marker ∧ Resolved w' s' e d ∧ OthersSame w w' e.id := by
  obtain ⟨w1, e, s1, hr, hI1, hg1, hc1, hcp1, hcr1, hce1⟩ := retrieve_spec h d.marker
  obtain ⟨w2, s2, hd2, hI2, hg2, hres, hoth⟩ := deserEntity_spec hI1 hc1.1 d
  refine ⟨w2, s2, by simp only [SW.deserOne, hr]; exact hd2, hI2, ?_, e, hg2.keep e _ hc1, hres, ?_⟩
  · have := hg1.trans hg2
    simpa [EntityData.mentioned] using this
  · intro j hj
    have := hoth j hj
    rw [hcp1, hcr1, hce1] at this
    exact this

/-! ### The whole sequence -/

theorem mentionedAll_cons (d : EntityData) (ds : List EntityData) :
    mentionedAll (d :: ds) = d.mentioned ++ mentionedAll ds := by
  simp [mentionedAll]

/-- `deserialize`, any world satisfying the invariant, any data: it succeeds, keeps the invariant,
    extends the world by one entity per unknown mentioned id, each record that is the last one
    for its id determines exactly the components of the carrier of that id, and entities that
    carry no record id keep their components. -/
theorem deserialize_spec : ∀ (ds : List EntityData) {w : SW} {s : EntSpec}, SInv w s →
    ∃ w' s', w.deserialize ds = .ok w' ∧ SInv w' s' ∧ Grow w s w' s' (mentionedAll ds) ∧
      (∀ l1 d l2, ds = l1 ++ d :: l2 → (∀ d', d' ∈ l2 → d'.marker ≠ d.marker) →
        ∃ e, Carries w' s' e d.marker ∧ Resolved w' s' e d) ∧
      (∀ j, (∀ d e, d ∈ ds → Carries w' s' e d.marker → e.id ≠ j) →
        w'.cp.get? j = w.cp.get? j ∧ w'.cr.get? j = w.cr.get? j ∧ w'.ce.get? j = w.ce.get? j) := by
  intro ds
  induction ds with
  | nil =>
    intro w s h
    refine ⟨w, s, rfl, h, by simpa [mentionedAll] using Grow.refl w s, ?_, fun _ _ => ⟨rfl, rfl, rfl⟩⟩
    intro l1 d l2 hl; cases l1 <;> cases hl
  | cons d0 ds ih =>
    intro w s h
    obtain ⟨w1, s1, hd1, hI1, hg1, e0, hc0, hres0, hoth0⟩ := deserOne_spec h d0
    obtain ⟨w2, s2, hd2, hI2, hg2, hrec, hrest⟩ := ih hI1
    refine ⟨w2, s2, by simp only [SW.deserialize, hd1]; exact hd2, hI2, ?_, ?_, ?_⟩
    · rw [mentionedAll_cons]; exact hg1.trans hg2
    · intro l1 d l2 hl hlast
      cases l1 with
      | nil =>
        simp only [List.nil_append, List.cons.injEq] at hl
        obtain ⟨rfl, rfl⟩ := hl
        have hc2 : Carries w2 s2 e0 d0.marker := hg2.keep _ _ hc0
        refine ⟨e0, hc2, hres0.stable hg2 ?_⟩
        apply hrest
        intro d' e' hd' hc' heq
        have : e' = e0 := hI2.r.live_inj e' e0 hc'.1 hc2.1 heq
        subst this
        exact hlast d' hd' (SInv.carries_fun hc' hc2)
      | cons x l1 =>
        simp only [List.cons_append, List.cons.injEq] at hl
        obtain ⟨rfl, rfl⟩ := hl
        exact hrec l1 d l2 rfl hlast
    · intro j hj
      have h2 := hrest j (fun d e hd hc => hj d e (List.mem_cons_of_mem _ hd) hc)
      have hne : j ≠ e0.id := fun heq =>
        hj d0 e0 (by simp) (hg2.keep _ _ hc0) heq.symm
      have h1 := hoth0 j hne
      exact ⟨h2.1.trans h1.1, h2.2.1.trans h1.2.1, h2.2.2.trans h1.2.2⟩

end SpecsModel.SaveLoad
