/-
  Save/load domain: what `serialize` produces, and the round trip
  (data describing the marked entities of a world, loaded into an empty world).
-/
import SpecsModel.SaveLoad.LemmasDeser
namespace SpecsModel.SaveLoad
open SpecsModel Alloc

def convMsg : String := "Entity::convert_into: called `Option::unwrap()` on a `None` value"

/-- `markers.get(entity)`. -/
def SW.markerOf (w : SW) (e : Entity) : Option Nat := sget w.alloc w.mks e

def SW.recR (w : SW) (ent : Entity) : Option (Option (Nat × Nat)) :=
  match sget w.alloc w.cr ent with
  | none => some none
  | some (a, b) =>
    match w.markerOf a, w.markerOf b with
    | some ma, some mb => some (some (ma, mb))
    | _, _ => none

def SW.recE (w : SW) (ent : Entity) : Option (Option EnD) :=
  match sget w.alloc w.ce ent with
  | none => some none
  | some .nil => some (some .nil)
  | some (.val v) => some (some (.val v))
  | some (.one a) =>
    match w.markerOf a with
    | some ma => some (some (.one ma))
    | none => none

/-- The record `serialize` writes for entity `ent` with marker `m`; `none` when a referenced
    entity has no marker (the real code panics in `unwrap`). -/
def SW.recOf (w : SW) (ent : Entity) (m : Nat) : Option EntityData :=
  match w.recR ent, w.recE ent with
  | some r, some e => some { marker := m, p := sget w.alloc w.cp ent, r := r, e := e }
  | _, _ => none

def SW.recsOf (w : SW) : List (Entity × Nat) → Option (List EntityData)
  | [] => some []
  | (e, m) :: t =>
    match w.recOf e m, w.recsOf t with
    | some d, some ds => some (d :: ds)
    | _, _ => none

theorem recOf_marker {w : SW} {ent : Entity} {m : Nat} {d : EntityData}
    (h : w.recOf ent m = some d) : d.marker = m := by
  unfold SW.recOf at h
  cases h1 : w.recR ent <;> cases h2 : w.recE ent <;> simp [h1, h2] at h
  subst h; rfl

theorem serR_plain (w : SW) (ent : Entity) :
    SW.serR w (SW.idsPlain w) () ent =
      match w.recR ent with
      | some r => .ok ((), r)
      | none => .panic convMsg := by
  unfold SW.serR SW.recR
  cases h1 : sget w.alloc w.cr ent with
  | none => simp
  | some ab =>
    obtain ⟨a, b⟩ := ab
    cases ha : w.markerOf a <;> cases hb : w.markerOf b <;>
      simp_all [SW.convInto, SW.idsPlain, SW.markerOf, convMsg]

theorem serE_plain (w : SW) (ent : Entity) :
    SW.serE w (SW.idsPlain w) () ent =
      match w.recE ent with
      | some e => .ok ((), e)
      | none => .panic convMsg := by
  unfold SW.serE SW.recE
  cases h2 : sget w.alloc w.ce ent with
  | none => simp
  | some c =>
    cases c with
    | nil => simp
    | val v => simp
    | one a =>
      cases h3 : w.markerOf a <;> simp_all [SW.convInto, SW.idsPlain, SW.markerOf, convMsg]

theorem serEntity_plain (w : SW) (ent : Entity) (m : Nat) :
    SW.serEntity w (SW.idsPlain w) () ent =
      match w.recOf ent m with
      | some d => .ok ((), d.p, d.r, d.e)
      | none => .panic convMsg := by
  unfold SW.serEntity SW.recOf
  rw [serR_plain]
  cases h1 : w.recR ent with
  | none => simp
  | some r =>
    simp only []
    rw [serE_plain]
    cases h2 : w.recE ent <;> simp

theorem serLoop_eq (w : SW) : ∀ (l : List (Entity × Nat)),
    SW.serLoop w l = match w.recsOf l with
      | some ds => .ok ds
      | none => .panic convMsg := by
  intro l
  induction l with
  | nil => rfl
  | cons em t ih =>
    obtain ⟨e, m⟩ := em
    simp only [SW.serLoop, SW.recsOf, serEntity_plain w e m, ih]
    cases h1 : w.recOf e m <;> cases h2 : w.recsOf t <;> simp
    have := recOf_marker h1
    rename_i d _
    cases d; simp_all

/-- `serialize` is the pure record function over the join; it panics exactly when some marked
    entity refers to an entity `markers.get` knows nothing about. -/
theorem serialize_eq (w : SW) :
    w.serialize = match w.recsOf w.joinMarked with
      | some ds => .ok ds
      | none => .panic convMsg := serLoop_eq w _

/-! ### Records describe entities -/

theorem sget_live {α} {w : SW} {s : EntSpec} (h : SInv w s) (st : Store α) {e : Entity}
    (he : e ∈ s.live) : sget w.alloc st e = st.get? e.id := by
  simp [sget, Store.get?, h.r.live_alive he]

theorem markerOf_some {w : SW} {s : EntSpec} (h : SInv w s) {a : Entity} (ha : a ∈ s.seen) (m : Nat) :
    w.markerOf a = some m ↔ Carries w s a m := by
  simp only [SW.markerOf, sget, Carries]
  constructor
  · intro hs
    split at hs
    · next hc =>
      simp only [Bool.and_eq_true] at hc
      cases hs
      exact ⟨(h.r.alive_iff_live ha).mp hc.2, hc.1, rfl⟩
    · cases hs
  · rintro ⟨hl, hh, hv⟩
    simp [hh, h.r.live_alive hl, hv]

/-- The record written for a marked entity describes it: same components, references replaced
    by the ids their targets carry. -/
theorem recOf_resolved {w : SW} {s : EntSpec} (h : SInv w s) {ent : Entity} {m : Nat}
    (hc : Carries w s ent m) {d : EntityData} (hd : w.recOf ent m = some d) :
    d.marker = m ∧ Resolved w s ent d := by
  have hl := hc.1
  unfold SW.recOf SW.recR SW.recE at hd
  rw [sget_live h w.cr hl, sget_live h w.ce hl, sget_live h w.cp hl] at hd
  cases h1 : w.cr.get? ent.id with
  | none =>
    cases h2 : w.ce.get? ent.id with
    | none =>
      simp only [h1, h2, Option.some.injEq] at hd
      subst hd
      exact ⟨rfl, rfl, h1, h2⟩
    | some c =>
      cases c with
      | nil =>
        simp only [h1, h2, Option.some.injEq] at hd
        subst hd
        exact ⟨rfl, rfl, h1, h2⟩
      | val v =>
        simp only [h1, h2, Option.some.injEq] at hd
        subst hd
        exact ⟨rfl, rfl, h1, h2⟩
      | one a =>
        have hs := h.ceSeen ent.id a (Store.get?_eq_some.mp h2).1 (Store.get?_eq_some.mp h2).2
        cases h3 : w.markerOf a with
        | none => simp [h1, h2, h3] at hd
        | some ma =>
          simp only [h1, h2, h3, Option.some.injEq] at hd
          subst hd
          exact ⟨rfl, rfl, h1, ⟨a, (markerOf_some h hs ma).mp h3, h2⟩⟩
  | some ab =>
    obtain ⟨a, b⟩ := ab
    have hab := h.crSeen ent.id (Store.get?_eq_some.mp h1).1
    rw [(Store.get?_eq_some.mp h1).2] at hab
    cases ha : w.markerOf a with
    | none => simp [h1, ha] at hd
    | some ma =>
      cases hb : w.markerOf b with
      | none => simp [h1, ha, hb] at hd
      | some mb =>
        have hca := (markerOf_some h hab.1 ma).mp ha
        have hcb := (markerOf_some h hab.2 mb).mp hb
        cases h2 : w.ce.get? ent.id with
        | none =>
          simp only [h1, h2, ha, hb, Option.some.injEq] at hd
          subst hd
          exact ⟨rfl, rfl, ⟨a, b, hca, hcb, h1⟩, h2⟩
        | some c =>
          cases c with
          | nil =>
            simp only [h1, h2, ha, hb, Option.some.injEq] at hd
            subst hd
            exact ⟨rfl, rfl, ⟨a, b, hca, hcb, h1⟩, h2⟩
          | val v =>
            simp only [h1, h2, ha, hb, Option.some.injEq] at hd
            subst hd
            exact ⟨rfl, rfl, ⟨a, b, hca, hcb, h1⟩, h2⟩
          | one x =>
            have hs := h.ceSeen ent.id x (Store.get?_eq_some.mp h2).1 (Store.get?_eq_some.mp h2).2
            cases h3 : w.markerOf x with
            | none => simp [h1, h2, ha, hb, h3] at hd
            | some mx =>
              simp only [h1, h2, ha, hb, h3, Option.some.injEq] at hd
              subst hd
              exact ⟨rfl, rfl, ⟨a, b, hca, hcb, h1⟩, ⟨x, (markerOf_some h hs mx).mp h3, h2⟩⟩

/-- Entity fields of the components of the entity at index `i`. -/
def SW.refsAt (w : SW) (i : Nat) : List Entity :=
  (match w.cr.get? i with
    | some (a, b) => [a, b]
    | none => []) ++
  (match w.ce.get? i with
    | some (.one a) => [a]
    | _ => [])

/-- When every referenced entity carries a marker, the record exists. -/
theorem recOf_exists {w : SW} {s : EntSpec} (h : SInv w s) {ent : Entity} {m : Nat}
    (hc : Carries w s ent m) (hrefs : ∀ a, a ∈ w.refsAt ent.id → ∃ k, Carries w s a k) :
    ∃ d, w.recOf ent m = some d := by
  have hl := hc.1
  unfold SW.recOf SW.recR SW.recE
  rw [sget_live h w.cr hl, sget_live h w.ce hl, sget_live h w.cp hl]
  have mo : ∀ a, a ∈ w.refsAt ent.id → ∃ k, w.markerOf a = some k := by
    intro a ha
    obtain ⟨k, hk⟩ := hrefs a ha
    exact ⟨k, (markerOf_some h (h.r.live_seen hk.1) k).mpr hk⟩
  unfold SW.refsAt at mo
  cases h1 : w.cr.get? ent.id with
  | none =>
    cases h2 : w.ce.get? ent.id with
    | none => simp
    | some c =>
      cases c with
      | nil => simp
      | val v => simp
      | one a =>
        obtain ⟨k, hk⟩ := mo a (by simp [h1, h2])
        simp [hk]
  | some ab =>
    obtain ⟨a, b⟩ := ab
    obtain ⟨ka, hka⟩ := mo a (by simp [h1])
    obtain ⟨kb, hkb⟩ := mo b (by simp [h1])
    cases h2 : w.ce.get? ent.id with
    | none => simp [hka, hkb]
    | some c =>
      cases c with
      | nil => simp [hka, hkb]
      | val v => simp [hka, hkb]
      | one x =>
        obtain ⟨k, hk⟩ := mo x (by simp [h1, h2])
        simp [hka, hkb, hk]

/-- If the record exists, every referenced entity carries a marker. -/
theorem refs_of_resolved {w : SW} {s : EntSpec} {ent : Entity} {d : EntityData}
    (hr : Resolved w s ent d) : ∀ a, a ∈ w.refsAt ent.id → ∃ k, Carries w s a k := by
  intro a ha
  obtain ⟨_, h2, h3⟩ := hr
  unfold SW.refsAt at ha
  rcases List.mem_append.mp ha with ha | ha
  · cases hd : d.r with
    | none => simp only [hd] at h2; simp [h2] at ha
    | some ab =>
      obtain ⟨ma, mb⟩ := ab
      simp only [hd] at h2
      obtain ⟨x, y, hx, hy, hv⟩ := h2
      simp only [hv, List.mem_cons, List.not_mem_nil, or_false] at ha
      rcases ha with rfl | rfl
      · exact ⟨ma, hx⟩
      · exact ⟨mb, hy⟩
  · cases hd : d.e with
    | none => simp only [hd] at h3; simp [h3] at ha
    | some c =>
      cases c with
      | nil => simp only [hd] at h3; simp [h3] at ha
      | val v => simp only [hd] at h3; simp [h3] at ha
      | one k =>
        simp only [hd] at h3
        obtain ⟨x, hx, hv⟩ := h3
        simp only [hv, List.mem_cons, List.not_mem_nil, or_false] at ha
        subst ha
        exact ⟨k, hx⟩

/-- Ids mentioned by a record describing an entity are carried in that world. -/
theorem mentioned_carried {w : SW} {s : EntSpec} {ent : Entity} {d : EntityData}
    (hc : Carries w s ent d.marker) (hr : Resolved w s ent d) :
    ∀ k, k ∈ d.mentioned → ∃ a, Carries w s a k := by
  intro k hk
  simp only [EntityData.mentioned, List.mem_cons, List.mem_append] at hk
  obtain ⟨_, h2, h3⟩ := hr
  rcases hk with rfl | hk | hk
  · exact ⟨ent, hc⟩
  · unfold EntityData.rRefs at hk
    cases hd : d.r with
    | none => simp [hd] at hk
    | some ab =>
      obtain ⟨ma, mb⟩ := ab
      simp only [hd] at h2 hk
      obtain ⟨x, y, hx, hy, _⟩ := h2
      simp only [List.mem_cons, List.not_mem_nil, or_false] at hk
      rcases hk with rfl | rfl
      · exact ⟨x, hx⟩
      · exact ⟨y, hy⟩
  · unfold EntityData.eRefs at hk
    cases hd : d.e with
    | none => simp [hd] at hk
    | some c =>
      cases c with
      | nil => simp [hd, EnD.refs] at hk
      | val v => simp [hd, EnD.refs] at hk
      | one k' =>
        simp only [hd] at h3 hk
        obtain ⟨x, hx, _⟩ := h3
        simp only [EnD.refs, List.mem_cons, List.not_mem_nil, or_false] at hk
        subst hk
        exact ⟨x, hx⟩

/-- Data that describes the marked entities of `(w, s)`: one record per carried id. -/
structure DescribesWorld (w : SW) (s : EntSpec) (ds : List EntityData) : Prop where
  each : ∀ d, d ∈ ds → ∃ ent, Carries w s ent d.marker ∧ Resolved w s ent d
  all : ∀ ent m, Carries w s ent m → ∃ d, d ∈ ds ∧ d.marker = m
  nodup : (ds.map (·.marker)).Nodup

theorem DescribesWorld.perm {w : SW} {s : EntSpec} {ds ds' : List EntityData}
    (h : DescribesWorld w s ds) (hp : ds'.Perm ds) : DescribesWorld w s ds' :=
  ⟨fun d hd => h.each d (hp.mem_iff.mp hd),
   fun e m hc => by obtain ⟨d, hd, hm⟩ := h.all e m hc; exact ⟨d, hp.mem_iff.mpr hd, hm⟩,
   (hp.map _).nodup_iff.mpr h.nodup⟩

/-- The output of `serialize` describes the world. -/
theorem serialize_describes {w : SW} {s : EntSpec} (h : SInv w s) {ds : List EntityData}
    (hs : w.serialize = .ok ds) : DescribesWorld w s ds ∧ ds.map (·.marker) = w.joinMarked.map (·.2) := by
  rw [serialize_eq] at hs
  cases hr : w.recsOf w.joinMarked with
  | none => simp [hr] at hs
  | some ds' =>
    simp only [hr, Out.ok.injEq] at hs
    subst hs
    have key : ∀ (l : List (Entity × Nat)) (ds : List EntityData), w.recsOf l = some ds →
        (∀ em, em ∈ l → Carries w s em.1 em.2) →
        (∀ d, d ∈ ds → ∃ ent, Carries w s ent d.marker ∧ Resolved w s ent d) ∧
        ds.map (·.marker) = l.map (·.2) := by
      intro l
      induction l with
      | nil => intro ds hds _; simp only [SW.recsOf, Option.some.injEq] at hds; subst hds; exact ⟨by simp, rfl⟩
      | cons em t ih =>
        intro ds hds hl
        obtain ⟨e, m⟩ := em
        simp only [SW.recsOf] at hds
        cases h1 : w.recOf e m with
        | none => simp [h1] at hds
        | some d =>
          cases h2 : w.recsOf t with
          | none => simp [h1, h2] at hds
          | some ds' =>
            simp only [h1, h2, Option.some.injEq] at hds
            subst hds
            obtain ⟨i1, i2⟩ := ih ds' h2 (fun em hem => hl em (List.mem_cons_of_mem _ hem))
            have hc := hl _ (List.mem_cons_self)
            obtain ⟨r1, r2⟩ := recOf_resolved h hc h1
            refine ⟨?_, by simp [r1, i2]⟩
            intro d' hdm
            rcases List.mem_cons.mp hdm with rfl | hdm
            · exact ⟨_, by rw [r1]; exact hc, r2⟩
            · exact i1 d' hdm
    obtain ⟨k1, k2⟩ := key _ _ hr (fun em hem => (mem_joinMarked h em.1 em.2).mp hem)
    refine ⟨⟨k1, ?_, by rw [k2]; exact joinMarked_keys_nodup h⟩, k2⟩
    intro ent m hc
    have : m ∈ w.joinMarked.map (·.2) :=
      List.mem_map.mpr ⟨(ent, m), (mem_joinMarked h ent m).mpr hc, rfl⟩
    rw [← k2] at this
    obtain ⟨d, hd, hm⟩ := List.mem_map.mp this
    exact ⟨d, hd, hm⟩

/-- `serialize` succeeds exactly when every entity referenced by a marked entity is marked. -/
theorem serialize_ok_iff {w : SW} {s : EntSpec} (h : SInv w s) :
    (∃ ds, w.serialize = .ok ds) ↔
      ∀ ent m, Carries w s ent m → ∀ a, a ∈ w.refsAt ent.id → ∃ k, Carries w s a k := by
  constructor
  · rintro ⟨ds, hs⟩ ent m hc
    obtain ⟨hd, _⟩ := serialize_describes h hs
    obtain ⟨d, hdm, hm⟩ := hd.all ent m hc
    obtain ⟨ent', hc', hr⟩ := hd.each d hdm
    rw [hm] at hc'
    have := h.carries_inj hc hc'
    subst this
    exact refs_of_resolved hr
  · intro hall
    rw [serialize_eq]
    have : ∀ (l : List (Entity × Nat)), (∀ em, em ∈ l → Carries w s em.1 em.2) →
        ∃ ds, w.recsOf l = some ds := by
      intro l
      induction l with
      | nil => intro _; exact ⟨[], rfl⟩
      | cons em t ih =>
        intro hl
        obtain ⟨e, m⟩ := em
        obtain ⟨ds, hds⟩ := ih (fun em hem => hl em (List.mem_cons_of_mem _ hem))
        have hc := hl _ (List.mem_cons_self)
        obtain ⟨d, hd⟩ := recOf_exists h hc (hall e m hc)
        exact ⟨d :: ds, by simp [SW.recsOf, hd, hds]⟩
    obtain ⟨ds, hds⟩ := this _ (fun em hem => (mem_joinMarked h em.1 em.2).mp hem)
    exact ⟨ds, by simp [hds]⟩

/-! ### Round trip -/

/-- `e'` in the loaded world corresponds to `e` in the source world: same marker id. -/
def Corr (w : SW) (s : EntSpec) (w' : SW) (s' : EntSpec) (e e' : Entity) : Prop :=
  ∃ m, Carries w s e m ∧ Carries w' s' e' m

/-- Loading data that describes `(w, s)` into the empty world gives a world whose entities
    correspond one-to-one, by marker id, to the marked entities of `w`, with equal components
    and references mapped along the correspondence. -/
theorem roundtrip_core {w : SW} {s : EntSpec} (h : SInv w s) {ds : List EntityData}
    (hd : DescribesWorld w s ds) :
    ∃ w' s', ({} : SW).deserialize ds = .ok w' ∧ SInv w' s' ∧
      -- every marked source entity has an image carrying the same id
      (∀ e m, Carries w s e m → ∃ e', Carries w' s' e' m) ∧
      -- every entity of the loaded world is such an image (no other entities)
      (∀ e', e' ∈ s'.live → ∃ e m, Carries w s e m ∧ Carries w' s' e' m) ∧
      -- equal components, references mapped along the correspondence
      (∀ e e', Corr w s w' s' e e' →
        w'.cp.get? e'.id = w.cp.get? e.id ∧
        (match w.cr.get? e.id with
          | none => w'.cr.get? e'.id = none
          | some (a, b) => ∃ a' b', Corr w s w' s' a a' ∧ Corr w s w' s' b b' ∧
              w'.cr.get? e'.id = some (a', b')) ∧
        (match w.ce.get? e.id with
          | none => w'.ce.get? e'.id = none
          | some .nil => w'.ce.get? e'.id = some .nil
          | some (.val v) => w'.ce.get? e'.id = some (.val v)
          | some (.one a) => ∃ a', Corr w s w' s' a a' ∧ w'.ce.get? e'.id = some (.one a'))) := by
  obtain ⟨w', s', hde, hI', hg, hrec, _⟩ := deserialize_spec ds SInv_init
  have hment : ∀ k, k ∈ mentionedAll ds → ∃ a, Carries w s a k := by
    intro k hk
    simp only [mentionedAll, List.mem_flatMap] at hk
    obtain ⟨d, hdm, hk⟩ := hk
    obtain ⟨ent, hc, hr⟩ := hd.each d hdm
    exact mentioned_carried hc hr k hk
  -- every record is the last one for its id
  have hrec' : ∀ d, d ∈ ds → ∃ e', Carries w' s' e' d.marker ∧ Resolved w' s' e' d := by
    intro d hdm
    obtain ⟨l1, l2, hsplit⟩ := List.append_of_mem hdm
    apply hrec l1 d l2 hsplit
    intro d' hd' heq
    have hnd := hd.nodup
    rw [hsplit] at hnd
    simp only [List.map_append, List.map_cons] at hnd
    have := (List.nodup_append.mp hnd).2.1
    rw [List.nodup_cons] at this
    exact this.1 (List.mem_map.mpr ⟨d', hd', heq⟩)
  refine ⟨w', s', hde, hI', ?_, ?_, ?_⟩
  · intro e m hc
    obtain ⟨d, hdm, hm⟩ := hd.all e m hc
    obtain ⟨e', hc', _⟩ := hrec' d hdm
    exact ⟨e', by rw [← hm]; exact hc'⟩
  · intro e' he'
    obtain ⟨m, hm, hc', _⟩ := hg.new e' he' (by simp [EntSpec.init])
    obtain ⟨a, ha⟩ := hment m hm
    exact ⟨a, m, ha, hc'⟩
  · rintro e e' ⟨m, hc, hc'⟩
    obtain ⟨d, hdm, hm⟩ := hd.all e m hc
    obtain ⟨ent, hce, hre⟩ := hd.each d hdm
    obtain ⟨ent', hce', hre'⟩ := hrec' d hdm
    rw [hm] at hce hce'
    have := h.carries_inj hc hce
    subst this
    have := hI'.carries_inj hc' hce'
    subst this
    obtain ⟨p1, r1, e1⟩ := hre
    obtain ⟨p2, r2, e2⟩ := hre'
    refine ⟨by rw [p1, p2], ?_, ?_⟩
    · cases hdr : d.r with
      | none =>
        simp only [hdr] at r1 r2
        simp only [r1]; exact r2
      | some ab =>
        obtain ⟨ma, mb⟩ := ab
        simp only [hdr] at r1 r2
        obtain ⟨a, b, ha, hb, hv⟩ := r1
        obtain ⟨a', b', ha', hb', hv'⟩ := r2
        simp only [hv]
        exact ⟨a', b', ⟨ma, ha, ha'⟩, ⟨mb, hb, hb'⟩, hv'⟩
    · cases hde : d.e with
      | none =>
        simp only [hde] at e1 e2
        simp only [e1]; exact e2
      | some c =>
        cases c with
        | nil => simp only [hde] at e1 e2; simp only [e1]; exact e2
        | val v => simp only [hde] at e1 e2; simp only [e1]; exact e2
        | one k =>
          simp only [hde] at e1 e2
          obtain ⟨a, ha, hv⟩ := e1
          obtain ⟨a', ha', hv'⟩ := e2
          simp only [hv]
          exact ⟨a', ⟨k, ha, ha'⟩, hv'⟩

end SpecsModel.SaveLoad
