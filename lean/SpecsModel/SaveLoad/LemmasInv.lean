/-
  Save/load domain: the marker invariant (C15) and its preservation by the primitive
  operations: entity creation, marker assignment, component writes, deletion, maintenance.
-/
import SpecsModel.SaveLoad.LemmasBase
namespace SpecsModel.SaveLoad
open SpecsModel Alloc

/-- Not-dead entity `e` carries marker id `m`. -/
def Carries (w : SW) (s : EntSpec) (e : Entity) (m : Nat) : Prop :=
  e ∈ s.live ∧ w.mks.has e.id = true ∧ w.mks.val e.id = m

/-- The invariant of the save/load world; `s` is the abstract entity state (`s.live` = not-dead
    handles, `s.seen` = handles ever issued) coupled to the allocator by `R`. -/
structure SInv (w : SW) (s : EntSpec) : Prop where
  r : R w.alloc s []
  /-- a marker sits only on the index of a not-dead entity -/
  mkLive : ∀ i, w.mks.has i = true → ∃ e, e ∈ s.live ∧ e.id = i
  /-- no two not-dead entities carry the same marker id -/
  mkInj : ∀ i j, w.mks.has i = true → w.mks.has j = true → w.mks.val i = w.mks.val j → i = j
  /-- carried ids are below the allocator's counter -/
  mkLt : ∀ i, w.mks.has i = true → w.mks.val i < w.ma.index
  /-- the mapping knows every carried id -/
  mapC : ∀ e, e ∈ s.live → w.mks.has e.id = true → mapLookup w.ma.mapping (w.mks.val e.id) = some e
  mapS : ∀ id e, mapLookup w.ma.mapping id = some e → e ∈ s.seen
  /-- a mapping entry whose entity is not dead is not stale -/
  mapA : ∀ id e, mapLookup w.ma.mapping id = some e → e ∈ s.live →
    w.mks.has e.id = true ∧ w.mks.val e.id = id
  cpLive : ∀ i, w.cp.has i = true → ∃ e, e ∈ s.live ∧ e.id = i
  crLive : ∀ i, w.cr.has i = true → ∃ e, e ∈ s.live ∧ e.id = i
  ceLive : ∀ i, w.ce.has i = true → ∃ e, e ∈ s.live ∧ e.id = i
  crSeen : ∀ i, w.cr.has i = true → (w.cr.val i).1 ∈ s.seen ∧ (w.cr.val i).2 ∈ s.seen
  ceSeen : ∀ i e, w.ce.has i = true → w.ce.val i = .one e → e ∈ s.seen

theorem SInv_init : SInv {} EntSpec.init := by
  constructor
  · exact R_init
  all_goals intros
  all_goals simp_all [mapLookup, Store.has_empty]

namespace SInv
variable {w w' : SW} {s s' : EntSpec}

theorem carries_inj (h : SInv w s) {e e' : Entity} {m : Nat} (h1 : Carries w s e m)
    (h2 : Carries w s e' m) : e = e' := by
  have := h.mkInj e.id e'.id h1.2.1 h2.2.1 (by rw [h1.2.2, h2.2.2])
  exact h.r.live_inj e e' h1.1 h2.1 this

theorem carries_fun {e : Entity} {m m' : Nat} (h1 : Carries w s e m) (h2 : Carries w s e m') :
    m = m' := by rw [← h1.2.2, ← h2.2.2]

/-- Only the observable content of the marker storage matters. -/
theorem of_eq (h : SInv w s) (ha : w'.alloc = w.alloc) (hma : w'.ma = w.ma)
    (hcp : w'.cp = w.cp) (hcr : w'.cr = w.cr) (hce : w'.ce = w.ce)
    (hh : ∀ i, w'.mks.has i = w.mks.has i) (hv : ∀ i, w'.mks.val i = w.mks.val i) : SInv w' s := by
  obtain ⟨h1, h2, h3, h4, h5, h6, h7, h8, h9, h10, h11, h12⟩ := h
  constructor
  all_goals (try simp only [ha, hma, hcp, hcr, hce, hh, hv])
  all_goals assumption

/-- A new entity appears (any creation path); storages untouched. -/
theorem grow (h : SInv w s) (hR : R w'.alloc s' []) (e : Entity)
    (hseen : s'.seen = e :: s.seen) (hlive : s'.live = s.live ++ [e]) (hns : e ∉ s.seen)
    (hid : ∀ x, x ∈ s.live → x.id ≠ e.id)
    (hmk : w'.mks = w.mks) (hma : w'.ma = w.ma)
    (hcp : w'.cp = w.cp) (hcr : w'.cr = w.cr) (hce : w'.ce = w.ce) : SInv w' s' := by
  have old : ∀ i, (∃ x, x ∈ s.live ∧ x.id = i) → ∃ x, x ∈ s'.live ∧ x.id = i := by
    rintro i ⟨x, hx, hxi⟩; exact ⟨x, by rw [hlive]; simp [hx], hxi⟩
  have hnew : ∀ (st : Nat → Bool), (∀ i, st i = true → ∃ x, x ∈ s.live ∧ x.id = i) → st e.id = false := by
    intro st hst
    cases hc : st e.id
    · rfl
    · obtain ⟨x, hx, hxi⟩ := hst _ hc; exact absurd hxi (hid x hx)
  constructor
  all_goals (try simp only [hmk, hma, hcp, hcr, hce, hseen, hlive, List.mem_append,
    List.mem_cons, List.not_mem_nil, or_false])
  · exact hR
  · intro i hi; obtain ⟨x, hx, hxi⟩ := h.mkLive i hi; exact ⟨x, Or.inl hx, hxi⟩
  · exact h.mkInj
  · exact h.mkLt
  · rintro x (hx | rfl) hh
    · exact h.mapC x hx hh
    · have := hnew w.mks.has h.mkLive; simp [this] at hh
  · intro id x hx; exact Or.inr (h.mapS id x hx)
  · rintro id x hx (hl | rfl)
    · exact h.mapA id x hx hl
    · exact absurd (h.mapS id _ hx) hns
  · intro i hi; obtain ⟨x, hx, hxi⟩ := h.cpLive i hi; exact ⟨x, Or.inl hx, hxi⟩
  · intro i hi; obtain ⟨x, hx, hxi⟩ := h.crLive i hi; exact ⟨x, Or.inl hx, hxi⟩
  · intro i hi; obtain ⟨x, hx, hxi⟩ := h.ceLive i hi; exact ⟨x, Or.inl hx, hxi⟩
  · intro i hi; exact ⟨Or.inr (h.crSeen i hi).1, Or.inr (h.crSeen i hi).2⟩
  · intro i x hi hv; exact Or.inr (h.ceSeen i x hi hv)

/-- A not-dead, unmarked entity receives marker id `m` that nobody carries; the allocator
    records it and its counter ends above `m`. -/
theorem setMarker (h : SInv w s) {e : Entity} {m : Nat} (he : e ∈ s.live)
    (hno : w.mks.has e.id = false) (hfresh : ∀ i, w.mks.has i = true → w.mks.val i ≠ m)
    (ha : w'.alloc = w.alloc) (hcp : w'.cp = w.cp) (hcr : w'.cr = w.cr) (hce : w'.ce = w.ce)
    (hh : ∀ i, w'.mks.has i = if i = e.id then true else w.mks.has i)
    (hv : ∀ i, w'.mks.val i = if i = e.id then m else w.mks.val i)
    (hidx : w.ma.index ≤ w'.ma.index) (hm : m < w'.ma.index)
    (hmap : ∀ k, mapLookup w'.ma.mapping k = if k = m then some e else mapLookup w.ma.mapping k) :
    SInv w' s := by
  constructor
  all_goals (try simp only [ha, hcp, hcr, hce, hh, hv, hmap])
  · exact h.r
  · intro i hi
    by_cases hie : i = e.id
    · exact ⟨e, he, hie.symm⟩
    · simp only [hie, if_false] at hi; exact h.mkLive i hi
  · intro i j hi hj hij
    by_cases hie : i = e.id <;> by_cases hje : j = e.id
    · rw [hie, hje]
    · simp only [hie, hje, if_true, if_false] at hi hj hij
      exact absurd hij.symm (hfresh j hj)
    · simp only [hie, hje, if_true, if_false] at hi hj hij
      exact absurd hij (hfresh i hi)
    · simp only [hie, hje, if_false] at hi hj hij
      exact h.mkInj i j hi hj hij
  · intro i hi
    by_cases hie : i = e.id
    · simp only [hie, if_true]; exact hm
    · simp only [hie, if_false] at hi ⊢
      have := h.mkLt i hi; omega
  · intro x hx hxh
    by_cases hxe : x.id = e.id
    · have : x = e := h.r.live_inj x e hx he hxe
      subst this; simp
    · simp only [hxe, if_false] at hxh ⊢
      have hne : w.mks.val x.id ≠ m := hfresh x.id hxh
      simp only [hne, if_false]
      exact h.mapC x hx hxh
  · intro id x hx
    by_cases hid : id = m
    · simp only [hid, if_true, Option.some.injEq] at hx; subst hx; exact h.r.live_seen he
    · simp only [hid, if_false] at hx; exact h.mapS id x hx
  · intro id x hx hxl
    by_cases hid : id = m
    · simp only [hid, if_true, Option.some.injEq] at hx; subst hx; simp [hid]
    · simp only [hid, if_false] at hx
      obtain ⟨h1, h2⟩ := h.mapA id x hx hxl
      have hxe : x.id ≠ e.id := by intro hc; rw [hc, hno] at h1; cases h1
      simp only [hxe, if_false]; exact ⟨h1, h2⟩
  · exact h.cpLive
  · exact h.crLive
  · exact h.ceLive
  · exact h.crSeen
  · exact h.ceSeen

/-- A write to the `P` storage that only touches indices of not-dead entities. -/
theorem setCp (h : SInv w s) (ha : w'.alloc = w.alloc) (hmk : w'.mks = w.mks) (hma : w'.ma = w.ma)
    (hcr : w'.cr = w.cr) (hce : w'.ce = w.ce)
    (hc : ∀ i, w'.cp.has i = true → w.cp.has i = true ∨ ∃ e, e ∈ s.live ∧ e.id = i) : SInv w' s := by
  obtain ⟨h1, h2, h3, h4, h5, h6, h7, h8, h9, h10, h11, h12⟩ := h
  constructor
  all_goals (try simp only [ha, hmk, hma, hcr, hce])
  all_goals first | assumption | skip
  intro i hi
  rcases hc i hi with hc | hc
  · exact h8 i hc
  · exact hc

theorem setCr (h : SInv w s) (ha : w'.alloc = w.alloc) (hmk : w'.mks = w.mks) (hma : w'.ma = w.ma)
    (hcp : w'.cp = w.cp) (hce : w'.ce = w.ce)
    (hc : ∀ i, w'.cr.has i = true → (w.cr.has i = true ∧ w'.cr.val i = w.cr.val i) ∨
      ((∃ e, e ∈ s.live ∧ e.id = i) ∧ (w'.cr.val i).1 ∈ s.seen ∧ (w'.cr.val i).2 ∈ s.seen)) :
    SInv w' s := by
  obtain ⟨h1, h2, h3, h4, h5, h6, h7, h8, h9, h10, h11, h12⟩ := h
  constructor
  all_goals (try simp only [ha, hmk, hma, hcp, hce])
  all_goals first | assumption | skip
  · intro i hi
    rcases hc i hi with hc | hc
    · exact h9 i hc.1
    · exact hc.1
  · intro i hi
    rcases hc i hi with hc | hc
    · rw [hc.2]; exact h11 i hc.1
    · exact hc.2

theorem setCe (h : SInv w s) (ha : w'.alloc = w.alloc) (hmk : w'.mks = w.mks) (hma : w'.ma = w.ma)
    (hcp : w'.cp = w.cp) (hcr : w'.cr = w.cr)
    (hc : ∀ i, w'.ce.has i = true → (w.ce.has i = true ∧ w'.ce.val i = w.ce.val i) ∨
      ((∃ e, e ∈ s.live ∧ e.id = i) ∧ ∀ x, w'.ce.val i = .one x → x ∈ s.seen)) :
    SInv w' s := by
  obtain ⟨h1, h2, h3, h4, h5, h6, h7, h8, h9, h10, h11, h12⟩ := h
  constructor
  all_goals (try simp only [ha, hmk, hma, hcp, hcr])
  all_goals first | assumption | skip
  · intro i hi
    rcases hc i hi with hc | hc
    · exact h10 i hc.1
    · exact hc.1
  · intro i x hi hv
    rcases hc i hi with hc | hc
    · rw [hc.2] at hv; exact h12 i x hc.1 hv
    · exact hc.2 x hv

/-- Entities `D` (all not dead before) die and their components are dropped. -/
theorem shrink (h : SInv w s) {a' : Alloc} (hR : R a' s' []) (D : List Entity)
    (hseen : s'.seen = s.seen) (hlive : ∀ x, x ∈ s'.live ↔ x ∈ s.live ∧ x ∉ D)
    (hD : ∀ x, x ∈ D → x ∈ s.live) :
    SInv (({ w with alloc := a' } : SW).deleteComponents D) s' := by
  have keep : ∀ (st : Store Nat → Prop) i, (∃ x, x ∈ s.live ∧ x.id = i) → (¬ ∃ d, d ∈ D ∧ d.id = i) →
      ∃ x, x ∈ s'.live ∧ x.id = i := by
    rintro _ i ⟨x, hx, hxi⟩ hn
    exact ⟨x, (hlive x).mpr ⟨hx, fun hd => hn ⟨x, hd, hxi⟩⟩, hxi⟩
  have hdrop : ∀ {α} (st : Store α) i, (st.dropAll D).has i = true →
      st.has i = true ∧ ¬ ∃ d, d ∈ D ∧ d.id = i := by
    intro α st i hi
    rw [Store.has_dropAll] at hi
    simpa using hi
  constructor
  all_goals (try simp only [SW.deleteComponents, hseen, Store.val_dropAll])
  · exact hR
  · intro i hi; obtain ⟨h1, h2⟩ := hdrop _ i hi
    exact keep (fun _ => True) i (h.mkLive i h1) h2
  · intro i j hi hj; exact h.mkInj i j (hdrop _ i hi).1 (hdrop _ j hj).1
  · intro i hi; exact h.mkLt i (hdrop _ i hi).1
  · intro x hx hxh; exact h.mapC x ((hlive x).mp hx).1 (hdrop _ _ hxh).1
  · exact h.mapS
  · intro id x hx hxl
    obtain ⟨hl, hnd⟩ := (hlive x).mp hxl
    obtain ⟨h1, h2⟩ := h.mapA id x hx hl
    refine ⟨?_, h2⟩
    rw [Store.has_dropAll, h1]
    have : ¬ ∃ d, d ∈ D ∧ d.id = x.id := by
      rintro ⟨d, hd, hdi⟩
      exact hnd (h.r.live_inj d x (hD d hd) hl hdi ▸ hd)
    simp [this]
  · intro i hi; obtain ⟨h1, h2⟩ := hdrop _ i hi
    exact keep (fun _ => True) i (h.cpLive i h1) h2
  · intro i hi; obtain ⟨h1, h2⟩ := hdrop _ i hi
    exact keep (fun _ => True) i (h.crLive i h1) h2
  · intro i hi; obtain ⟨h1, h2⟩ := hdrop _ i hi
    exact keep (fun _ => True) i (h.ceLive i h1) h2
  · intro i hi; exact h.crSeen i (hdrop _ i hi).1
  · intro i x hi hv; exact h.ceSeen i x (hdrop _ i hi).1 hv

/-- Only the allocator changed, without changing who is not dead. -/
theorem sameLive (h : SInv w s) (hR : R w'.alloc s' []) (hseen : s'.seen = s.seen)
    (hlive : s'.live = s.live) (hmk : w'.mks = w.mks) (hma : w'.ma = w.ma)
    (hcp : w'.cp = w.cp) (hcr : w'.cr = w.cr) (hce : w'.ce = w.ce) : SInv w' s' := by
  obtain ⟨h1, h2, h3, h4, h5, h6, h7, h8, h9, h10, h11, h12⟩ := h
  constructor
  all_goals (try simp only [hmk, hma, hcp, hcr, hce, hseen, hlive])
  all_goals assumption

end SInv

/-! ### The `(entities, markers)` join -/

theorem mem_joinMarked {w : SW} {s : EntSpec} (h : SInv w s) (e : Entity) (m : Nat) :
    (e, m) ∈ w.joinMarked ↔ Carries w s e m := by
  simp only [SW.joinMarked, List.mem_map, List.mem_filter, Prod.mk.injEq, Carries, h.r.mem_join]
  constructor
  · rintro ⟨x, ⟨hx, hh⟩, rfl, rfl⟩; exact ⟨hx, hh, rfl⟩
  · rintro ⟨hx, hh, hv⟩; exact ⟨e, ⟨hx, hh⟩, rfl, hv⟩

theorem joinMarked_keys_nodup {w : SW} {s : EntSpec} (h : SInv w s) :
    (w.joinMarked.map (·.2)).Nodup := by
  simp only [SW.joinMarked, List.map_map]
  apply List.Pairwise.map (R := fun x y => x.id < y.id ∧ w.mks.has x.id = true ∧ w.mks.has y.id = true)
  · intro x y ⟨hlt, hx, hy⟩ heq
    have := h.mkInj x.id y.id hx hy (by simpa using heq)
    omega
  · have hs := (joinEntities_sorted w.alloc).filter (fun e => w.mks.has e.id)
    refine List.Pairwise.imp_of_mem ?_ hs
    intro x y hx hy hlt
    exact ⟨hlt, (List.mem_filter.mp hx).2, (List.mem_filter.mp hy).2⟩

theorem joinMarked_ents_nodup (w : SW) : (w.joinMarked.map (·.1)).Nodup := by
  simp only [SW.joinMarked, List.map_map]
  have : ((fun x : Entity × Nat => x.1) ∘ fun e => (e, w.mks.val e.id)) = id := by funext e; rfl
  rw [this, List.map_id]
  exact (joinEntities_nodup w.alloc).filter _

/-! ### Primitive operations -/

/-- `retrieve_entity` for an id carried by a not-dead entity: that entity, nothing changes. -/
theorem retrieve_known {w : SW} {s : EntSpec} (h : SInv w s) {e : Entity} {m : Nat}
    (hc : Carries w s e m) :
    ∃ w', w.retrieveEntity m = .ok (w', e) ∧ w'.alloc = w.alloc ∧ w'.ma = w.ma ∧
      w'.cp = w.cp ∧ w'.cr = w.cr ∧ w'.ce = w.ce ∧
      (∀ i, w'.mks.has i = w.mks.has i) ∧ (∀ i, w'.mks.val i = w.mks.val i) := by
  obtain ⟨hl, hh, hv⟩ := hc
  have hlk : mapLookup w.ma.mapping m = some e := by rw [← hv]; exact h.mapC e hl hh
  have hal : w.alloc.isAlive e = true := h.r.live_alive hl
  refine ⟨{ w with mks := ⟨w.mks.mask, w.mks.data.set e.id m⟩ }, ?_, rfl, rfl, rfl, rfl, rfl, ?_, ?_⟩
  · simp [SW.retrieveEntity, SW.lookupLive, MAlloc.retrieveInternal, hlk, hh, hal]
  · intro i; rfl
  · intro i
    simp only [Store.val, DMap.get_set]
    split
    · next hi => subst hi; exact hv.symm
    · rfl

/-- `retrieve_entity` for an id nobody carries (unknown, or only a stale mapping entry): a new
    entity is created, marked with exactly that id, and recorded. -/
theorem retrieve_unknown {w : SW} {s : EntSpec} (h : SInv w s) {m : Nat}
    (hu : ∀ i, w.mks.has i = true → w.mks.val i ≠ m) :
    ∃ w' e s', w.retrieveEntity m = .ok (w', e) ∧ SInv w' s' ∧
      s'.live = s.live ++ [e] ∧ s'.seen = e :: s.seen ∧ e ∉ s.seen ∧ (∀ x, x ∈ s.live → x.id ≠ e.id) ∧
      (∀ i, w'.mks.has i = if i = e.id then true else w.mks.has i) ∧
      (∀ i, w'.mks.val i = if i = e.id then m else w.mks.val i) ∧
      w'.cp = w.cp ∧ w'.cr = w.cr ∧ w'.ce = w.ce ∧
      w'.ma.index = (if m ≥ w.ma.index then m + 1 else w.ma.index) := by
  have hfound : w.lookupLive m = none := by
    unfold SW.lookupLive
    cases hl : w.ma.retrieveInternal m with
    | none => rfl
    | some e0 =>
      simp only
      split
      · next hc =>
        exfalso
        simp only [Bool.and_eq_true] at hc
        have hs := h.mapS m e0 hl
        have hlive := (h.r.alive_iff_live hs).mp hc.2
        obtain ⟨h1, h2⟩ := h.mapA m e0 hl hlive
        exact hu e0.id h1 h2
      · rfl
  obtain ⟨al, e, s', hal, hR, hseen, hlive, _, hns, hid, halive⟩ := create_step h.r true
  simp only [if_true] at hal
  have h1 : SInv { w with alloc := al } s' :=
    h.grow (w' := { w with alloc := al }) hR e hseen hlive hns hid rfl rfl rfl rfl rfl
  have hno : w.mks.has e.id = false := by
    cases hc : w.mks.has e.id
    · rfl
    · obtain ⟨x, hx, hxi⟩ := h.mkLive _ hc; exact absurd hxi (hid x hx)
  have hel : e ∈ s'.live := by rw [hlive]; simp
  refine ⟨{ w with alloc := al, ma := (w.ma.allocate e (some m)).1, mks := w.mks.put e.id m }, e, s',
    ?_, ?_, hlive, hseen, hns, hid, ?_, ?_, rfl, rfl, rfl, rfl⟩
  · simp [SW.retrieveEntity, hfound, hal, halive, MAlloc.allocate]
  · apply h1.setMarker (w' := { w with alloc := al, ma := (w.ma.allocate e (some m)).1, mks := w.mks.put e.id m })
      hel hno hu rfl rfl rfl rfl
    · intro i; exact Store.has_put _ _ _ _
    · intro i; exact Store.val_put _ _ _ _
    · simp only [MAlloc.allocate]; split <;> omega
    · simp only [MAlloc.allocate]; split <;> omega
    · intro k; simp only [MAlloc.allocate]; exact mapLookup_mapInsert _ _ _ _
  · intro i; exact Store.has_put _ _ _ _
  · intro i; exact Store.val_put _ _ _ _

/-- `mark`: existing marker returned and nothing allocated; a fresh id for an unmarked entity;
    `None` for a dead one. -/
theorem mark_spec {w : SW} {s : EntSpec} (h : SInv w s) {e : Entity} (he : e ∈ s.seen) :
    (e ∉ s.live ∧ w.mark e = (w, none)) ∨
    (e ∈ s.live ∧ w.mks.has e.id = true ∧ w.mark e = (w, some (w.mks.val e.id, false))) ∨
    (e ∈ s.live ∧ w.mks.has e.id = false ∧ ∃ w', w.mark e = (w', some (w.ma.index, true)) ∧ SInv w' s ∧
      w'.alloc = w.alloc ∧ w'.cp = w.cp ∧ w'.cr = w.cr ∧ w'.ce = w.ce ∧
      (∀ i, w'.mks.has i = if i = e.id then true else w.mks.has i) ∧
      (∀ i, w'.mks.val i = if i = e.id then w.ma.index else w.mks.val i) ∧
      w'.ma.index = w.ma.index + 1) := by
  by_cases hl : e ∈ s.live
  · have hal : w.alloc.isAlive e = true := h.r.live_alive hl
    cases hh : w.mks.has e.id
    · right; right
      refine ⟨hl, rfl, { w with ma := (w.ma.allocate e none).1, mks := w.mks.put e.id w.ma.index }, ?_, ?_,
        rfl, rfl, rfl, rfl, ?_, ?_, rfl⟩
      · simp [SW.mark, hal, hh, MAlloc.allocate]
      · apply h.setMarker (m := w.ma.index) (w' := { w with ma := (w.ma.allocate e none).1, mks := w.mks.put e.id w.ma.index })
          hl hh (fun i hi => by have := h.mkLt i hi; omega) rfl rfl rfl rfl
        · intro i; exact Store.has_put _ _ _ _
        · intro i; exact Store.val_put _ _ _ _
        · simp [MAlloc.allocate]
        · simp [MAlloc.allocate]
        · intro k; simp only [MAlloc.allocate]; exact mapLookup_mapInsert _ _ _ _
      · intro i; exact Store.has_put _ _ _ _
      · intro i; exact Store.val_put _ _ _ _
    · right; left
      exact ⟨hl, rfl, by simp [SW.mark, hal, hh]⟩
  · left
    have hal : w.alloc.isAlive e = false := by
      cases hc : w.alloc.isAlive e
      · rfl
      · exact absurd ((h.r.alive_iff_live he).mp hc) hl
    exact ⟨hl, by simp [SW.mark, hal]⟩

/-- `SimpleMarkerAllocator::maintain`: the mapping becomes exactly "id ↦ its carrier". -/
theorem allocMaintain_lookup {w : SW} {s : EntSpec} (h : SInv w s) (k : Nat) (e : Entity) :
    mapLookup w.allocMaintain.ma.mapping k = some e ↔ Carries w s e k := by
  simp only [SW.allocMaintain]
  rw [mapLookup_collect_nodup _ (joinMarked_keys_nodup h), mem_joinMarked h]

theorem allocMaintain_inv {w : SW} {s : EntSpec} (h : SInv w s) : SInv w.allocMaintain s := by
  have hl := allocMaintain_lookup h
  obtain ⟨h1, h2, h3, h4, h5, h6, h7, h8, h9, h10, h11, h12⟩ := h
  constructor
  all_goals first | assumption | skip
  · intro e he hh; exact (hl _ e).mpr ⟨he, hh, rfl⟩
  · intro id e hx; exact ((h1.liveIff e).mp ((hl id e).mp hx).1).1
  · intro id e hx _; exact ((hl id e).mp hx).2

end SpecsModel.SaveLoad
