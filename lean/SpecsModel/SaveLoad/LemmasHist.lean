/-
  Save/load domain: every history of operations keeps the marker invariant.
-/
import SpecsModel.SaveLoad.LemmasRec
namespace SpecsModel.SaveLoad
open SpecsModel Alloc

/-- World + handle log: the invariant holds and every logged handle was issued. -/
structure HInv (x : SLWorld) (s : EntSpec) : Prop where
  inv : SInv x.w s
  logSeen : ∀ e, e ∈ x.log.toList → e ∈ s.seen

theorem HInv_init : HInv {} EntSpec.init := ⟨SInv_init, by simp⟩

theorem sinsert_has {α} (a : Alloc) (st : Store α) (e : Entity) (v : α) (i : Nat) :
    (sinsert a st e v).1.has i = true → st.has i = true ∨ (a.isAlive e = true ∧ e.id = i) := by
  unfold sinsert
  split
  · next hal =>
    simp only [Store.has_put]
    split
    · next hi => intro _; exact Or.inr ⟨hal, hi.symm⟩
    · exact Or.inl
  · exact Or.inl

theorem sinsert_val {α} (a : Alloc) (st : Store α) (e : Entity) (v : α) (i : Nat) :
    ((sinsert a st e v).1.val i = st.val i) ∨ (a.isAlive e = true ∧ e.id = i ∧ (sinsert a st e v).1.val i = v) := by
  unfold sinsert
  split
  · next hal =>
    simp only [Store.val_put]
    split
    · next hi => exact Or.inr ⟨hal, hi.symm, rfl⟩
    · exact Or.inl rfl
  · exact Or.inl rfl

theorem sremove_has {α} (a : Alloc) (st : Store α) (e : Entity) (i : Nat) :
    (sremove a st e).has i = true → st.has i = true := by
  unfold sremove
  split
  · simp only [Store.has_del]; split
    · intro h; cases h
    · exact id
  · exact id

theorem sremove_val {α} (a : Alloc) (st : Store α) (e : Entity) (i : Nat) :
    (sremove a st e).val i = st.val i := by
  unfold sremove; split <;> rfl

/-- `World::delete_entities` on logged handles. -/
theorem deleteEntities_inv {w : SW} {s : EntSpec} (h : SInv w s) (es : List Entity)
    (hes : ∀ e, e ∈ es → e ∈ s.seen) :
    ∃ w' r s', w.deleteEntities es = .ok (w', r) ∧ SInv w' s' ∧ s'.seen = s.seen := by
  obtain ⟨a', r, s', n, hk, hR, hseen, hn, hr, hlive, hD⟩ := kill_step h.r es hes
  have hI := h.shrink hR (es.take n) hseen hlive hD
  rcases hr with ⟨rfl, hnl⟩ | rfl
  · rw [hnl, List.take_length] at hI
    exact ⟨_, .ok, s', by simp only [SW.deleteEntities, hk], hI, hseen⟩
  · exact ⟨_, .err n, s', by simp only [SW.deleteEntities, hk], hI, hseen⟩

/-- `World::maintain`. -/
theorem maintain_inv {w : SW} {s : EntSpec} (h : SInv w s) :
    ∃ w' s', w.maintain = .ok w' ∧ SInv w' s' ∧ s'.seen = s.seen := by
  obtain ⟨a', del, s', hm, hR, hseen, hlive, hD⟩ := merge_step h.r
  exact ⟨_, s', by simp only [SW.maintain, hm], h.shrink hR del hseen hlive hD, hseen⟩

/-- One step of a history keeps the invariant; only the two serialisers can panic. -/
theorem step_inv {x : SLWorld} {s : EntSpec} (h : HInv x s) (op : SOp) :
    (∃ s', HInv (x.step op).1 s') ∧
    (∀ why, (x.step op).2 = .panic why → (op = .serialize ∨ op = .serializeRec)) := by
  obtain ⟨hI, hlog⟩ := h
  cases op with
  | create atomic =>
    obtain ⟨a', e, s', hal, hR, hseen, hlive, _, hns, hid, _⟩ := create_step hI.r atomic
    have hI' : SInv { x.w with alloc := a' } s' :=
      hI.grow (w' := { x.w with alloc := a' }) hR e hseen hlive hns hid rfl rfl rfl rfl rfl
    refine ⟨⟨s', ?_⟩, ?_⟩
    · simp only [SLWorld.step, hal, SLWorld.outRes]
      refine ⟨hI', ?_⟩
      intro y hy
      rw [hseen]
      simp only [Array.toList_push, List.mem_append, List.mem_singleton] at hy
      rcases hy with hy | rfl
      · exact List.mem_cons_of_mem _ (hlog y hy)
      · exact List.mem_cons_self
    · intro why; simp [SLWorld.step, hal, SLWorld.outRes]
  | setP k v =>
    cases hr : resolve x.log k with
    | none => exact ⟨⟨s, by simp only [SLWorld.step, hr]; exact ⟨hI, hlog⟩⟩, by simp [SLWorld.step, hr]⟩
    | some e =>
      have hes := hlog e (resolve_mem hr)
      cases v with
      | some v =>
        refine ⟨⟨s, ?_⟩, ?_⟩
        · simp only [SLWorld.step, hr]
          refine ⟨?_, hlog⟩
          apply hI.setCp (w' := { x.w with cp := (sinsert x.w.alloc x.w.cp e v).1 }) rfl rfl rfl rfl rfl
          intro i hi
          rcases sinsert_has _ _ _ _ _ hi with h1 | ⟨hal, hid⟩
          · exact Or.inl h1
          · exact Or.inr ⟨e, (hI.r.alive_iff_live hes).mp hal, hid⟩
        · intro why; simp only [SLWorld.step, hr]; split <;> simp
      | none =>
        refine ⟨⟨s, ?_⟩, by simp [SLWorld.step, hr]⟩
        simp only [SLWorld.step, hr]
        refine ⟨?_, hlog⟩
        apply hI.setCp (w' := { x.w with cp := sremove x.w.alloc x.w.cp e }) rfl rfl rfl rfl rfl
        intro i hi; exact Or.inl (sremove_has _ _ _ _ hi)
  | setR k v =>
    cases hr : resolve x.log k with
    | none => exact ⟨⟨s, by simp only [SLWorld.step, hr]; exact ⟨hI, hlog⟩⟩, by simp [SLWorld.step, hr]⟩
    | some e =>
      have hes := hlog e (resolve_mem hr)
      cases v with
      | some ab =>
        obtain ⟨ka, kb⟩ := ab
        cases hra : resolve x.log ka with
        | none => exact ⟨⟨s, by simp only [SLWorld.step, hr, hra]; exact ⟨hI, hlog⟩⟩, by simp [SLWorld.step, hr, hra]⟩
        | some a =>
          cases hrb : resolve x.log kb with
          | none => exact ⟨⟨s, by simp only [SLWorld.step, hr, hra, hrb]; exact ⟨hI, hlog⟩⟩, by simp [SLWorld.step, hr, hra, hrb]⟩
          | some b =>
            have has := hlog a (resolve_mem hra)
            have hbs := hlog b (resolve_mem hrb)
            refine ⟨⟨s, ?_⟩, ?_⟩
            · simp only [SLWorld.step, hr, hra, hrb]
              refine ⟨?_, hlog⟩
              apply hI.setCr (w' := { x.w with cr := (sinsert x.w.alloc x.w.cr e (a, b)).1 }) rfl rfl rfl rfl rfl
              intro i hi
              rcases sinsert_val x.w.alloc x.w.cr e (a, b) i with hv | ⟨hal, hid, hv⟩
              · rcases sinsert_has _ _ _ _ _ hi with h1 | ⟨hal, hid⟩
                · exact Or.inl ⟨h1, hv⟩
                · right
                  refine ⟨⟨e, (hI.r.alive_iff_live hes).mp hal, hid⟩, ?_⟩
                  -- the value at `i` is the inserted one
                  have : (sinsert x.w.alloc x.w.cr e (a, b)).1.val i = (a, b) := by
                    simp [sinsert, hal, Store.val_put, hid]
                  simp only [this]; exact ⟨has, hbs⟩
              · right
                exact ⟨⟨e, (hI.r.alive_iff_live hes).mp hal, hid⟩, by simp only [hv]; exact ⟨has, hbs⟩⟩
            · intro why; simp only [SLWorld.step, hr, hra, hrb]; split <;> simp
      | none =>
        refine ⟨⟨s, ?_⟩, by simp [SLWorld.step, hr]⟩
        simp only [SLWorld.step, hr]
        refine ⟨?_, hlog⟩
        apply hI.setCr (w' := { x.w with cr := sremove x.w.alloc x.w.cr e }) rfl rfl rfl rfl rfl
        intro i hi; exact Or.inl ⟨sremove_has _ _ _ _ hi, sremove_val _ _ _ _⟩
  | setE k v =>
    cases hr : resolve x.log k with
    | none => exact ⟨⟨s, by simp only [SLWorld.step, hr]; exact ⟨hI, hlog⟩⟩, by simp [SLWorld.step, hr]⟩
    | some e =>
      have hes := hlog e (resolve_mem hr)
      have put : ∀ c : En, (∀ y, c = .one y → y ∈ s.seen) →
          SInv { x.w with ce := (sinsert x.w.alloc x.w.ce e c).1 } s := by
        intro c hc
        apply hI.setCe (w' := { x.w with ce := (sinsert x.w.alloc x.w.ce e c).1 }) rfl rfl rfl rfl rfl
        intro i hi
        rcases sinsert_val x.w.alloc x.w.ce e c i with hv | ⟨hal, hid, hv⟩
        · rcases sinsert_has _ _ _ _ _ hi with h1 | ⟨hal, hid⟩
          · exact Or.inl ⟨h1, hv⟩
          · right
            refine ⟨⟨e, (hI.r.alive_iff_live hes).mp hal, hid⟩, ?_⟩
            have : (sinsert x.w.alloc x.w.ce e c).1.val i = c := by
              simp [sinsert, hal, Store.val_put, hid]
            simp only [this]; exact hc
        · right
          exact ⟨⟨e, (hI.r.alive_iff_live hes).mp hal, hid⟩, by simp only [hv]; exact hc⟩
      cases v with
      | none =>
        refine ⟨⟨s, ?_⟩, by simp [SLWorld.step, hr]⟩
        simp only [SLWorld.step, hr]
        refine ⟨?_, hlog⟩
        apply hI.setCe (w' := { x.w with ce := sremove x.w.alloc x.w.ce e }) rfl rfl rfl rfl rfl
        intro i hi; exact Or.inl ⟨sremove_has _ _ _ _ hi, sremove_val _ _ _ _⟩
      | some c =>
        cases c with
        | nil =>
          refine ⟨⟨s, ?_⟩, ?_⟩
          · simp only [SLWorld.step, hr]; exact ⟨put .nil (by intro y hy; cases hy), hlog⟩
          · intro why; simp only [SLWorld.step, hr]; split <;> simp
        | val v =>
          refine ⟨⟨s, ?_⟩, ?_⟩
          · simp only [SLWorld.step, hr]; exact ⟨put (.val v) (by intro y hy; cases hy), hlog⟩
          · intro why; simp only [SLWorld.step, hr]; split <;> simp
        | one ka =>
          cases hra : resolve x.log ka with
          | none => exact ⟨⟨s, by simp only [SLWorld.step, hr, hra]; exact ⟨hI, hlog⟩⟩, by simp [SLWorld.step, hr, hra]⟩
          | some a =>
            have has := hlog a (resolve_mem hra)
            refine ⟨⟨s, ?_⟩, ?_⟩
            · simp only [SLWorld.step, hr, hra]
              exact ⟨put (.one a) (by intro y hy; cases hy; exact has), hlog⟩
            · intro why; simp only [SLWorld.step, hr, hra]; split <;> simp
  | mark k =>
    cases hr : resolve x.log k with
    | none => exact ⟨⟨s, by simp only [SLWorld.step, hr]; exact ⟨hI, hlog⟩⟩, by simp [SLWorld.step, hr]⟩
    | some e =>
      have hes := hlog e (resolve_mem hr)
      refine ⟨⟨s, ?_⟩, by simp [SLWorld.step, hr]⟩
      simp only [SLWorld.step, hr]
      rcases mark_spec hI hes with ⟨_, hm⟩ | ⟨_, _, hm⟩ | ⟨_, _, w', hm, hI', _⟩
      · rw [hm]; exact ⟨hI, hlog⟩
      · rw [hm]; exact ⟨hI, hlog⟩
      · rw [hm]; exact ⟨hI', hlog⟩
  | delNow k =>
    cases hr : resolve x.log k with
    | none => exact ⟨⟨s, by simp only [SLWorld.step, hr]; exact ⟨hI, hlog⟩⟩, by simp [SLWorld.step, hr]⟩
    | some e =>
      obtain ⟨w', r, s', hd, hI', hseen⟩ := deleteEntities_inv hI [e] (by
        intro y hy; simp only [List.mem_singleton] at hy; subst hy; exact hlog _ (resolve_mem hr))
      refine ⟨⟨s', ?_⟩, by simp [SLWorld.step, hr, hd, SLWorld.outRes]⟩
      simp only [SLWorld.step, hr, hd, SLWorld.outRes]
      exact ⟨hI', by intro y hy; rw [hseen]; exact hlog y hy⟩
  | delBatch ks =>
    cases hr : resolveAll x.log ks with
    | none => exact ⟨⟨s, by simp only [SLWorld.step, hr]; exact ⟨hI, hlog⟩⟩, by simp [SLWorld.step, hr]⟩
    | some es =>
      obtain ⟨w', r, s', hd, hI', hseen⟩ := deleteEntities_inv hI es
        (fun y hy => hlog y (resolveAll_mem hr y hy))
      refine ⟨⟨s', ?_⟩, by simp [SLWorld.step, hr, hd, SLWorld.outRes]⟩
      simp only [SLWorld.step, hr, hd, SLWorld.outRes]
      exact ⟨hI', by intro y hy; rw [hseen]; exact hlog y hy⟩
  | delAtomic k =>
    cases hr : resolve x.log k with
    | none => exact ⟨⟨s, by simp only [SLWorld.step, hr]; exact ⟨hI, hlog⟩⟩, by simp [SLWorld.step, hr]⟩
    | some e =>
      obtain ⟨a', ok, s', hk, hR, hseen, hlive⟩ := killAtomic_step hI.r e (hlog _ (resolve_mem hr))
      refine ⟨⟨s', ?_⟩, by simp [SLWorld.step, hr, hk, SLWorld.outRes]⟩
      simp only [SLWorld.step, hr, hk, SLWorld.outRes]
      exact ⟨hI.sameLive (w' := { x.w with alloc := a' }) hR hseen hlive rfl rfl rfl rfl rfl,
        by intro y hy; rw [hseen]; exact hlog y hy⟩
  | maintain =>
    obtain ⟨w', s', hm, hI', hseen⟩ := maintain_inv hI
    refine ⟨⟨s', ?_⟩, by simp [SLWorld.step, hm, SLWorld.outRes]⟩
    simp only [SLWorld.step, hm, SLWorld.outRes]
    exact ⟨hI', by intro y hy; rw [hseen]; exact hlog y hy⟩
  | allocMaintain =>
    exact ⟨⟨s, by simp only [SLWorld.step]; exact ⟨allocMaintain_inv hI, hlog⟩⟩, by simp [SLWorld.step]⟩
  | serialize =>
    refine ⟨⟨s, ?_⟩, fun _ _ => Or.inl rfl⟩
    simp only [SLWorld.step, SLWorld.outRes]
    split <;> exact ⟨hI, hlog⟩
  | serializeRec =>
    refine ⟨⟨s, ?_⟩, fun _ _ => Or.inr rfl⟩
    simp only [SLWorld.step]
    rcases serializeRecursive_spec hI with ⟨_, _, _, msg, hp⟩ | ⟨w', ds, _, hs, hI', _⟩
    · rw [hp]; exact ⟨hI, hlog⟩
    · rw [hs]; exact ⟨hI', hlog⟩
  | deserialize ds =>
    obtain ⟨w', s', hd, hI', hg, _, _⟩ := deserialize_spec ds hI
    refine ⟨⟨s', ?_⟩, by simp [SLWorld.step, hd, SLWorld.outRes]⟩
    simp only [SLWorld.step, hd, SLWorld.outRes]
    refine ⟨hI', ?_⟩
    intro y hy
    simp only [Array.toList_append, List.mem_append, List.mem_filter] at hy
    rcases hy with hy | ⟨hy, _⟩
    · exact hg.seen y (hlog y hy)
    · exact hI'.r.live_seen ((hI'.r.mem_join y).mp hy)

/-- Every history keeps the invariant. -/
theorem runFrom_inv : ∀ (ops : List SOp) {x : SLWorld} {s : EntSpec}, HInv x s →
    ∃ s', HInv (x.runFrom ops).1 s' := by
  intro ops
  induction ops with
  | nil => intro x s h; exact ⟨s, h⟩
  | cons op ops ih =>
    intro x s h
    obtain ⟨⟨s1, h1⟩, _⟩ := step_inv h op
    obtain ⟨s2, h2⟩ := ih h1
    exact ⟨s2, by simpa [SLWorld.runFrom] using h2⟩

theorem run_inv (ops : List SOp) : ∃ s, HInv (SLWorld.run ops).1 s := runFrom_inv ops HInv_init

/-- The record that describes an entity is what `serialize` would write for it. -/
theorem resolved_recOf {w : SW} {s : EntSpec} (h : SInv w s) {ent : Entity} {d : EntityData}
    (hc : Carries w s ent d.marker) (hr : Resolved w s ent d) : w.recOf ent d.marker = some d := by
  have hl := hc.1
  obtain ⟨hp, hrr, he⟩ := hr
  have mo : ∀ {a k}, Carries w s a k → w.markerOf a = some k :=
    fun {a k} hk => (markerOf_some h (h.r.live_seen hk.1) k).mpr hk
  have h1 : w.recR ent = some d.r := by
    unfold SW.recR
    rw [sget_live h w.cr hl]
    cases hd : d.r with
    | none => simp only [hd] at hrr; simp [hrr]
    | some ab =>
      obtain ⟨ma, mb⟩ := ab
      simp only [hd] at hrr
      obtain ⟨a, b, ha, hb, hv⟩ := hrr
      simp [hv, mo ha, mo hb]
  have h2 : w.recE ent = some d.e := by
    unfold SW.recE
    rw [sget_live h w.ce hl]
    cases hd : d.e with
    | none => simp only [hd] at he; simp [he]
    | some c =>
      cases c with
      | nil => simp only [hd] at he; simp [he]
      | val v => simp only [hd] at he; simp [he]
      | one k =>
        simp only [hd] at he
        obtain ⟨a, ha, hv⟩ := he
        simp [hv, mo ha]
  unfold SW.recOf
  rw [h1, h2, sget_live h w.cp hl, hp]

end SpecsModel.SaveLoad
