/-
  Save/load domain: `serialize_recursive` marks and writes exactly the reference closure of the
  marked entities.
-/
import SpecsModel.SaveLoad.LemmasSer
namespace SpecsModel.SaveLoad
open SpecsModel Alloc

/-- `Resolved` only depends on the components of the entity and on who carries which id. -/
theorem Resolved.of_keep {w w' : SW} {s s' : EntSpec} {e : Entity} {d : EntityData}
    (hr : Resolved w s e d) (hk : ∀ x m, Carries w s x m → Carries w' s' x m)
    (hcp : w'.cp = w.cp) (hcr : w'.cr = w.cr) (hce : w'.ce = w.ce) : Resolved w' s' e d := by
  obtain ⟨hp, hrr, he⟩ := hr
  refine ⟨by rw [hcp]; exact hp, ?_, ?_⟩
  · cases hd : d.r with
    | none => simp only [hd] at hrr ⊢; rw [hcr]; exact hrr
    | some ab =>
      obtain ⟨ma, mb⟩ := ab
      simp only [hd] at hrr ⊢
      obtain ⟨a, b, ha, hb, hv⟩ := hrr
      exact ⟨a, b, hk a ma ha, hk b mb hb, by rw [hcr]; exact hv⟩
  · cases hd : d.e with
    | none => simp only [hd] at he ⊢; rw [hce]; exact he
    | some x =>
      cases x with
      | nil => simp only [hd] at he ⊢; rw [hce]; exact he
      | val v => simp only [hd] at he ⊢; rw [hce]; exact he
      | one m =>
        simp only [hd] at he ⊢
        obtain ⟨a, ha, hv⟩ := he
        exact ⟨a, hk a m ha, by rw [hce]; exact hv⟩

/-- `w'` is `w` with the not-dead, previously unmarked entities of `L` marked (in this order,
    with the listed fresh ids); nothing else changed. -/
structure MStep (s : EntSpec) (w w' : SW) (L : List (Entity × Nat)) : Prop where
  alloc : w'.alloc = w.alloc
  cp : w'.cp = w.cp
  cr : w'.cr = w.cr
  ce : w'.ce = w.ce
  keep : ∀ i, w.mks.has i = true → w'.mks.has i = true ∧ w'.mks.val i = w.mks.val i
  newC : ∀ em, em ∈ L → Carries w' s em.1 em.2 ∧ w.mks.has em.1.id = false
  hasNew : ∀ i, w'.mks.has i = true → w.mks.has i = true ∨ ∃ em, em ∈ L ∧ em.1.id = i
  nodup : (L.map (·.1.id)).Nodup

namespace MStep
variable {s : EntSpec} {w w1 w2 : SW} {L L1 L2 : List (Entity × Nat)}

theorem refl (s : EntSpec) (w : SW) : MStep s w w [] :=
  ⟨rfl, rfl, rfl, rfl, fun _ h => ⟨h, rfl⟩, by simp, fun _ h => Or.inl h, by simp⟩

theorem carries (g : MStep s w w1 L) {e : Entity} {m : Nat} (hc : Carries w s e m) :
    Carries w1 s e m := by
  obtain ⟨h1, h2, h3⟩ := hc
  obtain ⟨k1, k2⟩ := g.keep e.id h2
  exact ⟨h1, k1, by rw [k2]; exact h3⟩

theorem trans (g1 : MStep s w w1 L1) (g2 : MStep s w1 w2 L2) : MStep s w w2 (L1 ++ L2) := by
  refine ⟨by rw [g2.alloc, g1.alloc], by rw [g2.cp, g1.cp], by rw [g2.cr, g1.cr],
    by rw [g2.ce, g1.ce], ?_, ?_, ?_, ?_⟩
  · intro i hi
    obtain ⟨a1, a2⟩ := g1.keep i hi
    obtain ⟨b1, b2⟩ := g2.keep i a1
    exact ⟨b1, by rw [b2, a2]⟩
  · intro em hem
    rcases List.mem_append.mp hem with hem | hem
    · obtain ⟨c, hn⟩ := g1.newC em hem
      exact ⟨g2.carries c, hn⟩
    · obtain ⟨c, hn⟩ := g2.newC em hem
      refine ⟨c, ?_⟩
      cases hh : w.mks.has em.1.id
      · rfl
      · rw [(g1.keep _ hh).1] at hn; cases hn
  · intro i hi
    rcases g2.hasNew i hi with h1 | ⟨em, hem, hi⟩
    · rcases g1.hasNew i h1 with h0 | ⟨em, hem, hi⟩
      · exact Or.inl h0
      · exact Or.inr ⟨em, List.mem_append_left _ hem, hi⟩
    · exact Or.inr ⟨em, List.mem_append_right _ hem, hi⟩
  · rw [List.map_append, List.nodup_append]
    refine ⟨g1.nodup, g2.nodup, ?_⟩
    intro i hi j hj hij
    subst hij
    obtain ⟨em1, hem1, rfl⟩ := List.mem_map.mp hi
    obtain ⟨em2, hem2, he⟩ := List.mem_map.mp hj
    have h1 := (g1.newC em1 hem1).1.2.1
    have h2 := (g2.newC em2 hem2).2
    rw [he, h1] at h2; cases h2

end MStep

/-- `convert_into` with the marking closure: panics on a dead entity, otherwise returns the
    marker the entity carries afterwards (marking it if necessary). -/
theorem convInto_rec {w : SW} {s : EntSpec} (h : SInv w s) {a : Entity} (ha : a ∈ s.seen)
    (add : List (Entity × Nat)) :
    (a ∉ s.live ∧ SW.convInto SW.idsRec (w, add) a = .panic convMsg) ∨
    (a ∈ s.live ∧ ∃ w' L m, SW.convInto SW.idsRec (w, add) a = .ok ((w', add ++ L), m) ∧ SInv w' s ∧
      MStep s w w' L ∧ Carries w' s a m ∧ (∀ em, em ∈ L → em.1 = a)) := by
  rcases mark_spec h ha with ⟨hn, hm⟩ | ⟨hl, hh, hm⟩ | ⟨hl, hh, w', hm, hI, e1, e2, e3, e4, e5, e6, e7⟩
  · left; exact ⟨hn, by simp [SW.convInto, SW.idsRec, hm, convMsg]⟩
  · right
    refine ⟨hl, w, [], w.mks.val a.id, ?_, h, MStep.refl s w, ⟨hl, hh, rfl⟩, by simp⟩
    simp [SW.convInto, SW.idsRec, hm]
  · right
    have hc : Carries w' s a w.ma.index := ⟨hl, by rw [e5]; simp, by rw [e6]; simp⟩
    refine ⟨hl, w', [(a, w.ma.index)], w.ma.index, ?_, hI, ?_, hc, by simp⟩
    · simp [SW.convInto, SW.idsRec, hm]
    · refine ⟨e1, e2, e3, e4, ?_, ?_, ?_, by simp⟩
      · intro i hi
        have hne : i ≠ a.id := by intro hc; rw [hc, hh] at hi; cases hi
        rw [e5, e6]; simp [hne, hi]
      · intro em hem
        simp only [List.mem_singleton] at hem; subst hem
        exact ⟨hc, hh⟩
      · intro i hi
        rw [e5] at hi
        by_cases hia : i = a.id
        · exact Or.inr ⟨(a, w.ma.index), by simp, hia.symm⟩
        · simp only [hia, if_false] at hi; exact Or.inl hi

theorem refsAt_seen {w0 w : SW} {s : EntSpec} (h : SInv w s) (hcr0 : w0.cr = w.cr) (hce0 : w0.ce = w.ce)
    (i : Nat) : ∀ a, a ∈ w0.refsAt i → a ∈ s.seen := by
  intro a ha
  unfold SW.refsAt at ha
  rw [hcr0, hce0] at ha
  rcases List.mem_append.mp ha with ha | ha
  · cases h1 : w.cr.get? i with
    | none => simp [h1] at ha
    | some ab =>
      obtain ⟨x, y⟩ := ab
      have hs := h.crSeen i (Store.get?_eq_some.mp h1).1
      rw [(Store.get?_eq_some.mp h1).2] at hs
      simp only [h1, List.mem_cons, List.not_mem_nil, or_false] at ha
      rcases ha with rfl | rfl
      · exact hs.1
      · exact hs.2
  · cases h2 : w.ce.get? i with
    | none => simp [h2] at ha
    | some c =>
      cases c with
      | nil => simp [h2] at ha
      | val v => simp [h2] at ha
      | one x =>
        simp only [h2, List.mem_cons, List.not_mem_nil, or_false] at ha
        subst ha
        exact h.ceSeen i _ (Store.get?_eq_some.mp h2).1 (Store.get?_eq_some.mp h2).2

/-- The `R` part of `serialize_entity` with the marking closure. -/
theorem serR_rec {w0 w : SW} {s : EntSpec} (h : SInv w s) (ha0 : w0.alloc = w.alloc)
    (hcr0 : w0.cr = w.cr) (hce0 : w0.ce = w.ce) {ent : Entity} (hent : ent ∈ s.live)
    (add : List (Entity × Nat)) :
    (∃ a, a ∈ w0.refsAt ent.id ∧ a ∉ s.live ∧ ∃ msg, SW.serR w0 SW.idsRec (w, add) ent = .panic msg) ∨
    (∃ w' L r, SW.serR w0 SW.idsRec (w, add) ent = .ok ((w', add ++ L), r) ∧
      SInv w' s ∧ MStep s w w' L ∧
      (match r with
        | none => w0.cr.get? ent.id = none
        | some (ma, mb) => ∃ a b, Carries w' s a ma ∧ Carries w' s b mb ∧ w0.cr.get? ent.id = some (a, b)) ∧
      (∀ em, em ∈ L → em.1 ∈ w0.refsAt ent.id)) := by
  have hal : w0.alloc.isAlive ent = true := by rw [ha0]; exact h.r.live_alive hent
  have hg : sget w0.alloc w0.cr ent = w0.cr.get? ent.id := by simp [sget, Store.get?, hal]
  have hseen := refsAt_seen h hcr0 hce0 ent.id
  unfold SW.serR
  rw [hg]
  cases h1 : w0.cr.get? ent.id with
  | none => right; exact ⟨w, [], none, by simp, h, MStep.refl s w, rfl, by simp⟩
  | some ab =>
    obtain ⟨a, b⟩ := ab
    have hra : a ∈ w0.refsAt ent.id := by simp [SW.refsAt, h1]
    have hrb : b ∈ w0.refsAt ent.id := by simp [SW.refsAt, h1]
    rcases convInto_rec h (hseen a hra) add with ⟨hn, hp⟩ | ⟨_, w1, L1, ma, hc1, hI1, hg1, hca, hL1⟩
    · left; exact ⟨a, hra, hn, convMsg, by simp only [hp]⟩
    · have hseen1 : b ∈ s.seen := hseen b hrb
      rcases convInto_rec hI1 hseen1 (add ++ L1) with ⟨hn, hp⟩ | ⟨_, w2, L2, mb, hc2, hI2, hg2, hcb, hL2⟩
      · left; exact ⟨b, hrb, hn, convMsg, by simp only [hc1, hp]⟩
      · right
        refine ⟨w2, L1 ++ L2, some (ma, mb), ?_, hI2, hg1.trans hg2, ⟨a, b, hg2.carries hca, hcb, rfl⟩, ?_⟩
        · simp only [hc1, hc2, List.append_assoc]
        · intro em hem
          rcases List.mem_append.mp hem with hem | hem
          · rw [hL1 em hem]; exact hra
          · rw [hL2 em hem]; exact hrb

/-- The `E` part. -/
theorem serE_rec {w0 w : SW} {s : EntSpec} (h : SInv w s) (ha0 : w0.alloc = w.alloc)
    (hcr0 : w0.cr = w.cr) (hce0 : w0.ce = w.ce) {ent : Entity} (hent : ent ∈ s.live)
    (add : List (Entity × Nat)) :
    (∃ a, a ∈ w0.refsAt ent.id ∧ a ∉ s.live ∧ ∃ msg, SW.serE w0 SW.idsRec (w, add) ent = .panic msg) ∨
    (∃ w' L e, SW.serE w0 SW.idsRec (w, add) ent = .ok ((w', add ++ L), e) ∧
      SInv w' s ∧ MStep s w w' L ∧
      (match e with
        | none => w0.ce.get? ent.id = none
        | some .nil => w0.ce.get? ent.id = some .nil
        | some (.val v) => w0.ce.get? ent.id = some (.val v)
        | some (.one k) => ∃ a, Carries w' s a k ∧ w0.ce.get? ent.id = some (.one a)) ∧
      (∀ em, em ∈ L → em.1 ∈ w0.refsAt ent.id)) := by
  have hal : w0.alloc.isAlive ent = true := by rw [ha0]; exact h.r.live_alive hent
  have hg : sget w0.alloc w0.ce ent = w0.ce.get? ent.id := by simp [sget, Store.get?, hal]
  have hseen := refsAt_seen h hcr0 hce0 ent.id
  unfold SW.serE
  rw [hg]
  cases h2 : w0.ce.get? ent.id with
  | none => right; exact ⟨w, [], none, by simp, h, MStep.refl s w, rfl, by simp⟩
  | some c =>
    cases c with
    | nil => right; exact ⟨w, [], some .nil, by simp, h, MStep.refl s w, rfl, by simp⟩
    | val v => right; exact ⟨w, [], some (.val v), by simp, h, MStep.refl s w, rfl, by simp⟩
    | one a =>
      have hra : a ∈ w0.refsAt ent.id := by simp [SW.refsAt, h2]
      rcases convInto_rec h (hseen a hra) add with ⟨hn, hp⟩ | ⟨_, w1, L1, k, hc1, hI1, hg1, hca, hL1⟩
      · left; exact ⟨a, hra, hn, convMsg, by simp only [hp]⟩
      · right
        refine ⟨w1, L1, some (.one k), by simp only [hc1], hI1, hg1, ⟨a, hca, rfl⟩, ?_⟩
        intro em hem; rw [hL1 em hem]; exact hra

/-- `serialize_entity` with the marking closure: panics when one of the entity's references is
    dead; otherwise the record describes the entity in the resulting marker state, and every
    entity it marked is one of the entity's references. `w0` is the world the components are
    read from (it differs from `w` only in markers). -/
theorem serEntity_rec {w0 w : SW} {s : EntSpec} (h : SInv w s) (ha0 : w0.alloc = w.alloc)
    (hcp0 : w0.cp = w.cp) (hcr0 : w0.cr = w.cr) (hce0 : w0.ce = w.ce)
    {ent : Entity} (hent : ent ∈ s.live) (add : List (Entity × Nat)) (m : Nat) :
    (∃ a, a ∈ w0.refsAt ent.id ∧ a ∉ s.live ∧
      ∃ msg, SW.serEntity w0 SW.idsRec (w, add) ent = .panic msg) ∨
    (∃ w' L p r e, SW.serEntity w0 SW.idsRec (w, add) ent = .ok ((w', add ++ L), p, r, e) ∧
      SInv w' s ∧ MStep s w w' L ∧ Resolved w' s ent { marker := m, p := p, r := r, e := e } ∧
      (∀ em, em ∈ L → em.1 ∈ w0.refsAt ent.id)) := by
  have hal : w0.alloc.isAlive ent = true := by rw [ha0]; exact h.r.live_alive hent
  have hgp : sget w0.alloc w0.cp ent = w0.cp.get? ent.id := by simp [sget, Store.get?, hal]
  rcases serR_rec h ha0 hcr0 hce0 hent add with ⟨a, hra, hn, msg, hp⟩ | ⟨w1, L1, r, hs1, hI1, hg1, hr1, hL1⟩
  · left; exact ⟨a, hra, hn, msg, by unfold SW.serEntity; simp only [hp]⟩
  rcases serE_rec hI1 (by rw [ha0, hg1.alloc]) (by rw [hcr0, hg1.cr]) (by rw [hce0, hg1.ce]) hent (add ++ L1)
    with ⟨a, hra, hn, msg, hp⟩ | ⟨w2, L2, e, hs2, hI2, hg2, he2, hL2⟩
  · left; exact ⟨a, hra, hn, msg, by unfold SW.serEntity; simp only [hs1, hp]⟩
  right
  refine ⟨w2, L1 ++ L2, w0.cp.get? ent.id, r, e, ?_, hI2, hg1.trans hg2, ?_, ?_⟩
  · unfold SW.serEntity
    simp only [hs1, hs2, hgp, List.append_assoc]
  · have e1 : w2.cp = w0.cp := by rw [hg2.cp, hg1.cp, hcp0]
    have e2 : w2.cr = w0.cr := by rw [hg2.cr, hg1.cr, hcr0]
    have e3 : w2.ce = w0.ce := by rw [hg2.ce, hg1.ce, hce0]
    refine ⟨by rw [e1], ?_, ?_⟩
    · cases r with
      | none => simp only at hr1 ⊢; rw [e2]; exact hr1
      | some ab =>
        obtain ⟨ma, mb⟩ := ab
        simp only at hr1 ⊢
        obtain ⟨a, b, ha, hb, hv⟩ := hr1
        exact ⟨a, b, hg2.carries ha, hg2.carries hb, by rw [e2]; exact hv⟩
    · cases e with
      | none => simp only at he2 ⊢; rw [e3]; exact he2
      | some c =>
        cases c with
        | nil => simp only at he2 ⊢; rw [e3]; exact he2
        | val v => simp only at he2 ⊢; rw [e3]; exact he2
        | one k =>
          simp only at he2 ⊢
          obtain ⟨a, ha, hv⟩ := he2
          exact ⟨a, ha, by rw [e3]; exact hv⟩
  · intro em hem
    rcases List.mem_append.mp hem with hem | hem
    · exact hL1 em hem
    · exact hL2 em hem

/-! ### One round, all rounds -/

/-- Records `ds` are, position by position, the descriptions of the entities `T` with the
    listed ids. -/
inductive Paired (w : SW) (s : EntSpec) : List (Entity × Nat) → List EntityData → Prop
  | nil : Paired w s [] []
  | cons {ent m d t ds} : d.marker = m → Resolved w s ent d → Paired w s t ds →
      Paired w s ((ent, m) :: t) (d :: ds)

theorem Paired.append {w : SW} {s : EntSpec} {t1 t2 : List (Entity × Nat)} {d1 d2 : List EntityData}
    (h1 : Paired w s t1 d1) (h2 : Paired w s t2 d2) : Paired w s (t1 ++ t2) (d1 ++ d2) := by
  induction h1 with
  | nil => exact h2
  | cons hm hr _ ih => exact .cons hm hr ih

theorem Paired.mstep {w w' : SW} {s : EntSpec} {t : List (Entity × Nat)} {ds : List EntityData}
    {L : List (Entity × Nat)} (h : Paired w s t ds) (g : MStep s w w' L) : Paired w' s t ds := by
  induction h with
  | nil => exact .nil
  | cons hm hr _ ih => exact .cons hm (hr.of_keep (fun _ _ hc => g.carries hc) g.cp g.cr g.ce) ih

theorem Paired.markers {w : SW} {s : EntSpec} {t : List (Entity × Nat)} {ds : List EntityData}
    (h : Paired w s t ds) : ds.map (·.marker) = t.map (·.2) := by
  induction h with
  | nil => rfl
  | cons hm _ _ ih => simp [hm, ih]

theorem Paired.each {w : SW} {s : EntSpec} {t : List (Entity × Nat)} {ds : List EntityData}
    (h : Paired w s t ds) : ∀ d, d ∈ ds → ∃ em, em ∈ t ∧ d.marker = em.2 ∧ Resolved w s em.1 d := by
  induction h with
  | nil => intro d hd; cases hd
  | cons hm hr _ ih =>
    intro d hd
    rcases List.mem_cons.mp hd with rfl | hd
    · exact ⟨_, List.mem_cons_self, hm, hr⟩
    · obtain ⟨em, hem, h1, h2⟩ := ih d hd
      exact ⟨em, List.mem_cons_of_mem _ hem, h1, h2⟩

theorem Paired.each' {w : SW} {s : EntSpec} {t : List (Entity × Nat)} {ds : List EntityData}
    (h : Paired w s t ds) : ∀ em, em ∈ t → ∃ d, d ∈ ds ∧ d.marker = em.2 ∧ Resolved w s em.1 d := by
  induction h with
  | nil => intro d hd; cases hd
  | cons hm hr _ ih =>
    intro em hem
    rcases List.mem_cons.mp hem with rfl | hem
    · exact ⟨_, List.mem_cons_self, hm, hr⟩
    · obtain ⟨d, hd, h1, h2⟩ := ih em hem
      exact ⟨d, List.mem_cons_of_mem _ hd, h1, h2⟩

/-- The `for` loop over `to_serialize`. -/
theorem serRound_rec {w0 : SW} {s : EntSpec} : ∀ (todo : List (Entity × Nat)) {w : SW}
    (add : List (Entity × Nat)), SInv w s → w0.alloc = w.alloc → w0.cp = w.cp → w0.cr = w.cr →
    w0.ce = w.ce → (∀ em, em ∈ todo → em.1 ∈ s.live) →
    (∃ t a, t ∈ todo ∧ a ∈ w0.refsAt t.1.id ∧ a ∉ s.live ∧
      ∃ msg, SW.serRound todo (w, add) = .panic msg) ∨
    (∃ w' L ds, SW.serRound todo (w, add) = .ok ((w', add ++ L), ds) ∧ SInv w' s ∧ MStep s w w' L ∧
      Paired w' s todo ds ∧ (∀ em, em ∈ L → ∃ t, t ∈ todo ∧ em.1 ∈ w0.refsAt t.1.id)) := by
  intro todo
  induction todo with
  | nil =>
    intro w add h _ _ _ _ _
    right
    exact ⟨w, [], [], by simp [SW.serRound], h, MStep.refl s w, .nil, by simp⟩
  | cons em t ih =>
    intro w add h ha hcp hcr hce hl
    obtain ⟨ent, m⟩ := em
    -- `serEntity st.1 ..` reads components from the current world, which agree with `w0`
    have hread : SW.serEntity w SW.idsRec (w, add) ent = SW.serEntity w0 SW.idsRec (w, add) ent := by
      unfold SW.serEntity SW.serR SW.serE
      rw [ha, hcp, hcr, hce]
    rcases serEntity_rec h ha hcp hcr hce (hl _ List.mem_cons_self) add m with
      ⟨a, hra, hn, msg, hp⟩ | ⟨w1, L1, p, r, e, hs1, hI1, hg1, hres1, hL1⟩
    · left
      exact ⟨(ent, m), a, List.mem_cons_self, hra, hn, msg, by simp only [SW.serRound, hread, hp]⟩
    rcases ih (add ++ L1) hI1 (by rw [ha, hg1.alloc]) (by rw [hcp, hg1.cp]) (by rw [hcr, hg1.cr])
        (by rw [hce, hg1.ce]) (fun em hem => hl em (List.mem_cons_of_mem _ hem)) with
      ⟨t', a, ht', hra, hn, msg, hp⟩ | ⟨w2, L2, ds, hs2, hI2, hg2, hp2, hL2⟩
    · left
      exact ⟨t', a, List.mem_cons_of_mem _ ht', hra, hn, msg, by simp only [SW.serRound, hread, hs1, hp]⟩
    right
    refine ⟨w2, L1 ++ L2, { marker := m, p := p, r := r, e := e } :: ds, ?_, hI2, hg1.trans hg2, ?_, ?_⟩
    · simp only [SW.serRound, hread, hs1, hs2, List.append_assoc]
    · exact .cons rfl (hres1.of_keep (fun _ _ hc => hg2.carries hc) hg2.cp hg2.cr hg2.ce) hp2
    · intro em hem
      rcases List.mem_append.mp hem with hem | hem
      · exact ⟨(ent, m), List.mem_cons_self, hL1 em hem⟩
      · obtain ⟨t', ht', hr'⟩ := hL2 em hem
        exact ⟨t', List.mem_cons_of_mem _ ht', hr'⟩

/-- Entities reachable from the marked entities of `w` through component references. -/
inductive Reach (w : SW) (s : EntSpec) : Entity → Prop
  | base {e m} : Carries w s e m → Reach w s e
  | step {e a} : Reach w s e → a ∈ w.refsAt e.id → Reach w s a

/-- All references of a marked entity carry markers. -/
def Closed (w0 w : SW) (s : EntSpec) (e : Entity) : Prop :=
  ∀ a, a ∈ w0.refsAt e.id → ∃ k, Carries w s a k

theorem filter_length_lt {α} (l : List α) (p q : α → Bool) (hpq : ∀ x, x ∈ l → q x = true → p x = true)
    (hex : ∃ x, x ∈ l ∧ p x = true ∧ q x = false) : (l.filter q).length < (l.filter p).length := by
  induction l with
  | nil => obtain ⟨x, hx, _⟩ := hex; cases hx
  | cons y t ih =>
    have hle : ∀ (t : List α), (∀ x, x ∈ t → q x = true → p x = true) →
        (t.filter q).length ≤ (t.filter p).length := by
      intro t
      induction t with
      | nil => intro _; simp
      | cons z t iht =>
        intro hz
        have := iht (fun x hx => hz x (List.mem_cons_of_mem _ hx))
        have hzz := hz z List.mem_cons_self
        simp only [List.filter_cons]
        cases hq : q z <;> cases hp : p z <;> simp_all <;> omega
    obtain ⟨x, hx, hp, hq⟩ := hex
    have htl := hle t (fun x hx => hpq x (List.mem_cons_of_mem _ hx))
    rcases List.mem_cons.mp hx with rfl | hx
    · simp only [List.filter_cons, hp, hq, if_true, Bool.false_eq_true, if_false, List.length_cons]
      omega
    · have := ih (fun x hx => hpq x (List.mem_cons_of_mem _ hx)) ⟨x, hx, hp, hq⟩
      have hyy := hpq y List.mem_cons_self
      simp only [List.filter_cons]
      cases hq' : q y <;> cases hp' : p y <;> simp_all <;> omega

theorem unmarked_lt {s : EntSpec} {w w' : SW} {L : List (Entity × Nat)} (h : SInv w s)
    (g : MStep s w w' L) (hne : L ≠ []) : w'.unmarkedCount < w.unmarkedCount := by
  unfold SW.unmarkedCount
  rw [g.alloc]
  apply filter_length_lt
  · intro x _ hx
    cases hh : w.mks.has x.id
    · rfl
    · rw [(g.keep _ hh).1] at hx; cases hx
  · cases L with
    | nil => exact absurd rfl hne
    | cons em t =>
      obtain ⟨hc, hn⟩ := g.newC em List.mem_cons_self
      exact ⟨em.1, (h.r.mem_join _).mpr hc.1, by simp [hn], by simp [hc.2.1]⟩

theorem MStep.carries_inv {s : EntSpec} {w w' : SW} {L : List (Entity × Nat)} (g : MStep s w w' L)
    (hI' : SInv w' s) {e : Entity} {k : Nat} (hc : Carries w' s e k) :
    Carries w s e k ∨ (e, k) ∈ L := by
  rcases g.hasNew e.id hc.2.1 with hh | ⟨em, hem, hid⟩
  · left
    exact ⟨hc.1, hh, by rw [← (g.keep _ hh).2]; exact hc.2.2⟩
  · right
    obtain ⟨hce', _⟩ := g.newC em hem
    have he : em.1 = e := hI'.r.live_inj _ _ hce'.1 hc.1 hid
    have hk : em.2 = k := SInv.carries_fun (w := w') (s := s) (he ▸ hce') hc
    cases em; simp only at he hk; subst he hk; exact hem

/-- The `while` loop: from a state in which every marked entity is either closed or still to
    be serialised, it either panics because some reachable entity is dead, or ends with every
    marked entity closed, having written one record for each entity of `todo` and each entity
    it marked, in that order. It never runs out of fuel. -/
theorem serWhile_rec {w0 : SW} {s : EntSpec} :
    ∀ (fuel : Nat) {w : SW} (todo : List (Entity × Nat)), SInv w s →
    w0.alloc = w.alloc → w0.cp = w.cp → w0.cr = w.cr → w0.ce = w.ce →
    (∀ e k, Carries w s e k → Reach w0 s e) →
    (∀ e k, Carries w s e k → Closed w0 w s e ∨ (e, k) ∈ todo) →
    (∀ em, em ∈ todo → Carries w s em.1 em.2) →
    (todo ≠ [] → w.unmarkedCount + 1 ≤ fuel) →
    (∃ a, Reach w0 s a ∧ a ∉ s.live ∧ ∃ msg, SW.serWhile fuel w todo = .panic msg) ∨
    (∃ w' ds T, SW.serWhile fuel w todo = .ok (w', ds) ∧ SInv w' s ∧ MStep s w w' T ∧
      Paired w' s (todo ++ T) ds ∧ (∀ e k, Carries w' s e k → Reach w0 s e) ∧
      (∀ e k, Carries w' s e k → Closed w0 w' s e)) := by
  intro fuel
  induction fuel with
  | zero =>
    intro w todo h _ _ _ _ h2 h3 _ hf
    cases todo with
    | nil =>
      right
      refine ⟨w, [], [], rfl, h, MStep.refl s w, .nil, h2, ?_⟩
      intro e k hc
      rcases h3 e k hc with hcl | hm
      · exact hcl
      · cases hm
    | cons em t => have := hf (by simp); omega
  | succ fuel ih =>
    intro w todo h ha hcp hcr hce h2 h3 h5 hf
    cases htodo : todo with
    | nil =>
      subst htodo
      right
      refine ⟨w, [], [], rfl, h, MStep.refl s w, .nil, h2, ?_⟩
      intro e k hc
      rcases h3 e k hc with hcl | hm
      · exact hcl
      · cases hm
    | cons em0 t0 =>
      rw [← htodo]
      have hne : todo ≠ [] := by rw [htodo]; simp
      rcases serRound_rec (w0 := w0) todo [] h ha hcp hcr hce (fun em hem => (h5 em hem).1) with
        ⟨t, a, ht, hra, hn, msg, hp⟩ | ⟨w1, L, ds1, hs1, hI1, hg1, hp1, hL1⟩
      · left
        refine ⟨a, .step (h2 _ _ (h5 t ht)) hra, hn, msg, ?_⟩
        rw [htodo] at hp ⊢
        simp only [SW.serWhile, hp]
      simp only [List.nil_append] at hs1
      have hcar1 : ∀ e k, Carries w1 s e k → (Carries w s e k ∨ (e, k) ∈ L) :=
        fun e k hc => hg1.carries_inv hI1 hc
      rcases ih (w := w1) L hI1
        (by rw [ha, hg1.alloc]) (by rw [hcp, hg1.cp]) (by rw [hcr, hg1.cr]) (by rw [hce, hg1.ce])
        (by
          intro e k hc
          rcases hcar1 e k hc with hold | hnew
          · exact h2 e k hold
          · obtain ⟨t, ht, hra⟩ := hL1 (e, k) hnew
            exact .step (h2 _ _ (h5 t ht)) hra)
        (by
          intro e k hc
          rcases hcar1 e k hc with hold | hnew
          · left
            rcases h3 e k hold with hcl | hin
            · intro a hra
              obtain ⟨k', hk'⟩ := hcl a hra
              exact ⟨k', hg1.carries hk'⟩
            · obtain ⟨d, _, _, hres⟩ := hp1.each' (e, k) hin
              have hh := refs_of_resolved hres
              intro a hra
              have hra' : a ∈ w1.refsAt e.id := by
                unfold SW.refsAt at hra ⊢
                rw [hg1.cr, ← hcr, hg1.ce, ← hce]; exact hra
              exact hh a hra'
          · exact Or.inr hnew)
        (fun em hem => (hg1.newC em hem).1)
        (by
          intro hLne
          have := unmarked_lt h hg1 hLne
          have := hf hne
          omega) with
        ⟨a, hra, hn, msg, hp⟩ | ⟨w2, ds2, T2, hs2, hI2, hg2, hp2, hr2, hc2⟩
      · left
        refine ⟨a, hra, hn, msg, ?_⟩
        rw [htodo] at hs1 ⊢
        simp only [SW.serWhile, hs1, hp]
      right
      refine ⟨w2, ds1 ++ ds2, L ++ T2, ?_, hI2, hg1.trans hg2, ?_, hr2, hc2⟩
      · rw [htodo] at hs1 ⊢
        simp only [SW.serWhile, hs1, hs2]
      · rw [← List.append_assoc]
        have := (hp1.mstep hg2).append (t2 := L ++ T2) (d2 := ds2) hp2
        simpa [List.append_assoc] using this

/-- Marker ids of pairs carried by entities with pairwise distinct indices are distinct. -/
theorem carried_ids_nodup {w : SW} {s : EntSpec} (h : SInv w s) (X : List (Entity × Nat))
    (hc : ∀ em, em ∈ X → Carries w s em.1 em.2) (hnd : (X.map (·.1.id)).Nodup) :
    (X.map (·.2)).Nodup := by
  rw [List.Nodup, List.pairwise_map] at hnd ⊢
  refine List.Pairwise.imp_of_mem ?_ hnd
  intro a b ha hb hab heq
  have ca := hc a ha
  have cb := hc b hb
  exact hab (h.mkInj a.1.id b.1.id ca.2.1 cb.2.1 (by rw [ca.2.2, cb.2.2, heq]))

/-- `serialize_recursive`: it panics exactly because an entity reachable from the marked ones
    through component references is dead; otherwise it marks precisely the reachable entities
    (nothing else changes) and its output describes the resulting world, i.e. one record per
    reachable entity. -/
theorem serializeRecursive_spec {w : SW} {s : EntSpec} (h : SInv w s) :
    (∃ a, Reach w s a ∧ a ∉ s.live ∧ ∃ msg, w.serializeRecursive = .panic msg) ∨
    (∃ w' ds T, w.serializeRecursive = .ok (w', ds) ∧ SInv w' s ∧ MStep s w w' T ∧
      DescribesWorld w' s ds ∧ (∀ e, (∃ k, Carries w' s e k) ↔ Reach w s e)) := by
  rcases serWhile_rec (w0 := w) (w.unmarkedCount + 1) w.joinMarked h rfl rfl rfl rfl
      (fun e k hc => .base hc) (fun e k hc => Or.inr ((mem_joinMarked h e k).mpr hc))
      (fun em hem => (mem_joinMarked h em.1 em.2).mp hem) (fun _ => Nat.le_refl _) with
    ⟨a, hra, hn, msg, hp⟩ | ⟨w', ds, T, hs, hI', hg, hp, hr, hc⟩
  · left; exact ⟨a, hra, hn, msg, hp⟩
  right
  refine ⟨w', ds, T, hs, hI', hg, ⟨?_, ?_, ?_⟩, ?_⟩
  · intro d hd
    obtain ⟨em, hem, hm, hres⟩ := hp.each d hd
    refine ⟨em.1, ?_, hres⟩
    rw [hm]
    rcases List.mem_append.mp hem with hem | hem
    · exact hg.carries ((mem_joinMarked h em.1 em.2).mp hem)
    · exact (hg.newC em hem).1
  · intro ent m hcar
    have hin : (ent, m) ∈ w.joinMarked ++ T := by
      rcases hg.carries_inv hI' hcar with hold | hnew
      · exact List.mem_append_left _ ((mem_joinMarked h ent m).mpr hold)
      · exact List.mem_append_right _ hnew
    obtain ⟨d, hd, hm, _⟩ := hp.each' (ent, m) hin
    exact ⟨d, hd, hm⟩
  · rw [hp.markers]
    apply carried_ids_nodup hI'
    · intro em hem
      rcases List.mem_append.mp hem with hem | hem
      · exact hg.carries ((mem_joinMarked h em.1 em.2).mp hem)
      · exact (hg.newC em hem).1
    · rw [List.map_append, List.nodup_append]
      refine ⟨?_, hg.nodup, ?_⟩
      · have := joinMarked_ents_nodup w
        have hs := joinEntities_sorted w.alloc
        simp only [SW.joinMarked, List.map_map]
        have hf := hs.filter (fun e => w.mks.has e.id)
        have : (List.map ((fun x : Entity × Nat => x.1.id) ∘ fun e => (e, w.mks.val e.id))
            (List.filter (fun e => w.mks.has e.id) w.alloc.joinEntities)) =
            (List.filter (fun e => w.mks.has e.id) w.alloc.joinEntities).map (·.id) := by
          apply List.map_congr_left; intro a _; rfl
        rw [this, List.Nodup, List.pairwise_map]
        exact hf.imp (fun hlt => by omega)
      · intro i hi j hj hij
        subst hij
        obtain ⟨em1, hem1, rfl⟩ := List.mem_map.mp hi
        obtain ⟨em2, hem2, he⟩ := List.mem_map.mp hj
        have h1 := ((mem_joinMarked h em1.1 em1.2).mp hem1).2.1
        have h2 := (hg.newC em2 hem2).2
        rw [he, h1] at h2; cases h2
  · intro e
    constructor
    · rintro ⟨k, hk⟩; exact hr e k hk
    · intro hreach
      induction hreach with
      | base hc0 => exact ⟨_, hg.carries hc0⟩
      | step _ hra ih =>
        obtain ⟨k, hk⟩ := ih
        exact hc _ k hk _ hra

end SpecsModel.SaveLoad
