/-
  Save/load domain: the results of Lemmas{Deser,Ser,Rec,Hist} restated without the ghost entity
  state, in terms of what the storages and joins of the model return.
-/
import SpecsModel.SaveLoad.LemmasHist
namespace SpecsModel.SaveLoad
open SpecsModel Alloc

/-- Apply an entity map to the entity field of the enum component. -/
def En.map (f : Entity → Entity) : En → En
  | .nil => .nil
  | .one e => .one (f e)
  | .val v => .val v

/-- The entity of `w'` that carries the marker id which `e` carries in `w` (`e` itself if there
    is none): the correspondence φ of the round trip, as an executable function. -/
def phi (w w' : SW) (e : Entity) : Entity :=
  match sget w.alloc w.mks e with
  | some m =>
    match w'.joinMarked.find? (fun em => em.2 == m) with
    | some em => em.1
    | none => e
  | none => e

theorem phi_eq {w w' : SW} {s s' : EntSpec} (h : SInv w s) (h' : SInv w' s') {e e' : Entity} {m : Nat}
    (hc : Carries w s e m) (hc' : Carries w' s' e' m) : phi w w' e = e' := by
  have hm : sget w.alloc w.mks e = some m := (markerOf_some h (h.r.live_seen hc.1) m).mpr hc
  unfold phi
  rw [hm]
  dsimp only
  cases hf : w'.joinMarked.find? (fun em => em.2 == m) with
  | none =>
    have := List.find?_eq_none.mp hf (e', m) ((mem_joinMarked h' e' m).mpr hc')
    simp at this
  | some em =>
    have hmem := List.mem_of_find?_eq_some hf
    have hp := List.find?_some hf
    simp only [beq_iff_eq] at hp
    have hcm := (mem_joinMarked h' em.1 em.2).mp hmem
    rw [hp] at hcm
    show em.1 = e'
    exact h'.carries_inj hcm hc'

/-- Entities reachable from the marked entities through component references. -/
inductive Reachable (w : SW) : Entity → Prop
  | base {e m} : (e, m) ∈ w.joinMarked → Reachable w e
  | step {e a} : Reachable w e → a ∈ w.refsAt e.id → Reachable w a

theorem reach_iff {w : SW} {s : EntSpec} (h : SInv w s) (e : Entity) : Reach w s e ↔ Reachable w e := by
  constructor
  · intro hr
    induction hr with
    | base hc => exact .base ((mem_joinMarked h _ _).mpr hc)
    | step _ ha ih => exact .step ih ha
  · intro hr
    induction hr with
    | base hc => exact .base ((mem_joinMarked h _ _).mp hc)
    | step _ ha ih => exact .step ih ha

/-- The marker invariant in concrete terms. -/
theorem inv_concrete {w : SW} {s : EntSpec} (h : SInv w s) :
    (∀ e m, (e, m) ∈ w.joinMarked →
      m < w.ma.index ∧ (∀ e', (e', m) ∈ w.joinMarked → e' = e) ∧ mapLookup w.ma.mapping m = some e) ∧
    (w.joinMarked.map (·.2)).Nodup := by
  refine ⟨?_, joinMarked_keys_nodup h⟩
  intro e m hem
  have hc := (mem_joinMarked h e m).mp hem
  refine ⟨?_, ?_, ?_⟩
  · rw [← hc.2.2]; exact h.mkLt _ hc.2.1
  · intro e' hem'; exact h.carries_inj ((mem_joinMarked h e' m).mp hem') hc
  · rw [← hc.2.2]; exact h.mapC e hc.1 hc.2.1

/-- `deserialize` into any world satisfying the invariant, concretely. -/
theorem deserialize_concrete {w : SW} {s : EntSpec} (h : SInv w s) (ds : List EntityData) :
    ∃ w' s', w.deserialize ds = .ok w' ∧ SInv w' s' ∧
      -- known ids stay on their entities
      (∀ e m, (e, m) ∈ w.joinMarked → (e, m) ∈ w'.joinMarked) ∧
      -- nothing dies, and an existing entity is marked afterwards iff it was before
      (∀ e, e ∈ w.alloc.joinEntities → e ∈ w'.alloc.joinEntities ∧ w'.mks.has e.id = w.mks.has e.id) ∧
      -- every mentioned id has a carrier
      (∀ m, m ∈ mentionedAll ds → ∃ e, (e, m) ∈ w'.joinMarked) ∧
      -- entities are created only for unknown mentioned ids
      (∀ e, e ∈ w'.alloc.joinEntities → e ∉ w.alloc.joinEntities →
        ∃ m, m ∈ mentionedAll ds ∧ (e, m) ∈ w'.joinMarked ∧ ∀ e0, (e0, m) ∉ w.joinMarked) ∧
      -- the carrier of an unknown mentioned id is a created entity
      (∀ m, m ∈ mentionedAll ds → (∀ e0, (e0, m) ∉ w.joinMarked) →
        ∀ e, (e, m) ∈ w'.joinMarked → e ∉ w.alloc.joinEntities) ∧
      -- the last record for an id determines exactly the components of its carrier
      (∀ l1 d l2, ds = l1 ++ d :: l2 → (∀ d', d' ∈ l2 → d'.marker ≠ d.marker) →
        ∃ e, (e, d.marker) ∈ w'.joinMarked ∧ w'.recOf e d.marker = some d) ∧
      -- entities that carry no record id keep their components
      (∀ e, e ∈ w.alloc.joinEntities → (∀ d, d ∈ ds → (e, d.marker) ∉ w'.joinMarked) →
        sget w'.alloc w'.cp e = sget w.alloc w.cp e ∧ sget w'.alloc w'.cr e = sget w.alloc w.cr e ∧
        sget w'.alloc w'.ce e = sget w.alloc w.ce e) := by
  obtain ⟨w', s', hd, hI', hg, hrec, hrest⟩ := deserialize_spec ds h
  refine ⟨w', s', hd, hI', ?_, ?_, ?_, ?_, ?_, ?_, ?_⟩
  · intro e m hem
    exact (mem_joinMarked hI' e m).mpr (hg.keep e m ((mem_joinMarked h e m).mp hem))
  · intro e he
    have hl := (h.r.mem_join e).mp he
    exact ⟨(hI'.r.mem_join e).mpr (hg.live e hl), hg.oldMark e hl⟩
  · intro m hm
    obtain ⟨e, he⟩ := hg.all m hm
    exact ⟨e, (mem_joinMarked hI' e m).mpr he⟩
  · intro e he hn
    have hl' := (hI'.r.mem_join e).mp he
    have hnl : e ∉ s.live := fun hl => hn ((h.r.mem_join e).mpr hl)
    obtain ⟨m, hm, hc, hu⟩ := hg.new e hl' hnl
    exact ⟨m, hm, (mem_joinMarked hI' e m).mpr hc, fun e0 h0 => hu e0 ((mem_joinMarked h e0 m).mp h0)⟩
  · intro m _ hu e hem hold
    have hl := (h.r.mem_join e).mp hold
    have hc' := (mem_joinMarked hI' e m).mp hem
    have hh : w.mks.has e.id = true := by rw [← hg.oldMark e hl]; exact hc'.2.1
    have hc0 : Carries w s e (w.mks.val e.id) := ⟨hl, hh, rfl⟩
    have := SInv.carries_fun (hg.keep _ _ hc0) hc'
    exact hu e ((mem_joinMarked h e m).mpr (this ▸ hc0))
  · intro l1 d l2 hsplit hlast
    obtain ⟨e, hc, hr⟩ := hrec l1 d l2 hsplit hlast
    exact ⟨e, (mem_joinMarked hI' e _).mpr hc, resolved_recOf hI' hc hr⟩
  · intro e he hno
    have hl := (h.r.mem_join e).mp he
    have hl' := hg.live e hl
    have := hrest e.id (by
      intro d x hd hc heq
      have : x = e := hI'.r.live_inj x e hc.1 hl' heq
      subst this
      exact hno d hd ((mem_joinMarked hI' _ _).mpr hc))
    rw [sget_live hI' _ hl', sget_live hI' _ hl', sget_live hI' _ hl',
      sget_live h _ hl, sget_live h _ hl, sget_live h _ hl]
    exact this

/-- Round trip, concretely: loading data that describes `w` into the empty world. -/
theorem roundtrip_concrete {w : SW} {s : EntSpec} (h : SInv w s) {ds : List EntityData}
    (hd : DescribesWorld w s ds) :
    ∃ w', ({} : SW).deserialize ds = .ok w' ∧
      (∀ e m, (e, m) ∈ w.joinMarked → (phi w w' e, m) ∈ w'.joinMarked) ∧
      (∀ e', e' ∈ w'.alloc.joinEntities → ∃ e m, (e, m) ∈ w.joinMarked ∧ phi w w' e = e') ∧
      (∀ e1 m1 e2 m2, (e1, m1) ∈ w.joinMarked → (e2, m2) ∈ w.joinMarked →
        phi w w' e1 = phi w w' e2 → e1 = e2) ∧
      (∀ e m, (e, m) ∈ w.joinMarked →
        sget w'.alloc w'.cp (phi w w' e) = sget w.alloc w.cp e ∧
        sget w'.alloc w'.cr (phi w w' e) =
          (sget w.alloc w.cr e).map (fun ab => (phi w w' ab.1, phi w w' ab.2)) ∧
        sget w'.alloc w'.ce (phi w w' e) = (sget w.alloc w.ce e).map (En.map (phi w w'))) ∧
      w'.alloc.joinEntities.length = w.joinMarked.length := by
  obtain ⟨w', s', hde, hI', himg, hsurj, hcomp⟩ := roundtrip_core h hd
  have hphi : ∀ {e e'}, Corr w s w' s' e e' → phi w w' e = e' := by
    rintro e e' ⟨m, hc, hc'⟩; exact phi_eq h hI' hc hc'
  refine ⟨w', hde, ?_, ?_, ?_, ?_, ?_⟩
  · intro e m hem
    have hc := (mem_joinMarked h e m).mp hem
    obtain ⟨e', hc'⟩ := himg e m hc
    rw [phi_eq h hI' hc hc']
    exact (mem_joinMarked hI' e' m).mpr hc'
  · intro e' he'
    obtain ⟨e, m, hc, hc'⟩ := hsurj e' ((hI'.r.mem_join e').mp he')
    exact ⟨e, m, (mem_joinMarked h e m).mpr hc, phi_eq h hI' hc hc'⟩
  · intro e1 m1 e2 m2 h1 h2 heq
    have c1 := (mem_joinMarked h e1 m1).mp h1
    have c2 := (mem_joinMarked h e2 m2).mp h2
    obtain ⟨e1', c1'⟩ := himg e1 m1 c1
    obtain ⟨e2', c2'⟩ := himg e2 m2 c2
    rw [phi_eq h hI' c1 c1', phi_eq h hI' c2 c2'] at heq
    subst heq
    have := SInv.carries_fun c1' c2'
    subst this
    exact h.carries_inj c1 c2
  · intro e m hem
    have hc := (mem_joinMarked h e m).mp hem
    obtain ⟨e', hc'⟩ := himg e m hc
    have hcorr : Corr w s w' s' e e' := ⟨m, hc, hc'⟩
    obtain ⟨p1, p2, p3⟩ := hcomp e e' hcorr
    rw [hphi hcorr, sget_live hI' _ hc'.1, sget_live hI' _ hc'.1, sget_live hI' _ hc'.1,
      sget_live h _ hc.1, sget_live h _ hc.1, sget_live h _ hc.1]
    refine ⟨p1, ?_, ?_⟩
    · cases hr : w.cr.get? e.id with
      | none => simp only [hr] at p2; simp [p2]
      | some ab =>
        obtain ⟨a, b⟩ := ab
        simp only [hr] at p2
        obtain ⟨a', b', ha, hb, hv⟩ := p2
        simp [hv, hphi ha, hphi hb]
    · cases hr : w.ce.get? e.id with
      | none => simp only [hr] at p3; simp [p3]
      | some c =>
        cases c with
        | nil => simp only [hr] at p3; simp [p3, En.map]
        | val v => simp only [hr] at p3; simp [p3, En.map]
        | one a =>
          simp only [hr] at p3
          obtain ⟨a', ha, hv⟩ := p3
          simp [hv, En.map, hphi ha]
  · -- all entities of w' are marked, and marker lists are permutations of each other
    have hall : ∀ e', e' ∈ w'.alloc.joinEntities → w'.mks.has e'.id = true := by
      intro e' he'
      obtain ⟨_, _, _, hc'⟩ := hsurj e' ((hI'.r.mem_join e').mp he')
      exact hc'.2.1
    have hlen : w'.joinMarked.length = w'.alloc.joinEntities.length := by
      simp only [SW.joinMarked, List.length_map]
      rw [List.filter_eq_self.mpr]
      intro a ha; exact hall a ha
    have hperm : (w'.joinMarked.map (·.2)).Perm (w.joinMarked.map (·.2)) := by
      apply (List.perm_ext_iff_of_nodup (joinMarked_keys_nodup hI') (joinMarked_keys_nodup h)).mpr
      intro m
      simp only [List.mem_map]
      constructor
      · rintro ⟨em, hem, rfl⟩
        obtain ⟨e, m, hc, hc'⟩ := hsurj em.1 (((mem_joinMarked hI' em.1 em.2).mp hem).1)
        have := SInv.carries_fun hc' ((mem_joinMarked hI' em.1 em.2).mp hem)
        exact ⟨(e, m), (mem_joinMarked h e m).mpr hc, this⟩
      · rintro ⟨em, hem, rfl⟩
        obtain ⟨e', hc'⟩ := himg em.1 em.2 ((mem_joinMarked h em.1 em.2).mp hem)
        exact ⟨(e', em.2), (mem_joinMarked hI' e' em.2).mpr hc', rfl⟩
    have := hperm.length_eq
    simp only [List.length_map] at this
    omega

/-- Records of data describing a world are, up to order, one per carried id. -/
theorem DescribesWorld.markers_perm {w : SW} {s : EntSpec} (h : SInv w s) {ds : List EntityData}
    (hd : DescribesWorld w s ds) : (ds.map (·.marker)).Perm (w.joinMarked.map (·.2)) := by
  apply (List.perm_ext_iff_of_nodup hd.nodup (joinMarked_keys_nodup h)).mpr
  intro m
  simp only [List.mem_map]
  constructor
  · rintro ⟨d, hdm, rfl⟩
    obtain ⟨ent, hc, _⟩ := hd.each d hdm
    exact ⟨(ent, d.marker), (mem_joinMarked h _ _).mpr hc, rfl⟩
  · rintro ⟨em, hem, rfl⟩
    obtain ⟨d, hdm, hm⟩ := hd.all em.1 em.2 ((mem_joinMarked h _ _).mp hem)
    exact ⟨d, hdm, hm⟩

/-- `serialize_recursive`, concretely. -/
theorem serializeRecursive_concrete {w : SW} {s : EntSpec} (h : SInv w s) :
    (∃ a, Reachable w a ∧ a ∉ w.alloc.joinEntities ∧ ∃ msg, w.serializeRecursive = .panic msg) ∨
    (∃ w1 ds, w.serializeRecursive = .ok (w1, ds) ∧ SInv w1 s ∧ DescribesWorld w1 s ds ∧
      (∀ e, (∃ m, (e, m) ∈ w1.joinMarked) ↔ Reachable w e) ∧
      (∀ e m, (e, m) ∈ w.joinMarked → (e, m) ∈ w1.joinMarked) ∧
      w1.alloc = w.alloc ∧ w1.cp = w.cp ∧ w1.cr = w.cr ∧ w1.ce = w.ce ∧
      (ds.map (·.marker)).Perm (w1.joinMarked.map (·.2))) := by
  rcases serializeRecursive_spec h with ⟨a, hra, hn, msg, hp⟩ | ⟨w1, ds, T, hs, hI1, hg, hd, hcl⟩
  · left
    exact ⟨a, (reach_iff h a).mp hra, fun hj => hn ((h.r.mem_join a).mp hj), msg, hp⟩
  · right
    refine ⟨w1, ds, hs, hI1, hd, ?_, ?_, hg.alloc, hg.cp, hg.cr, hg.ce, hd.markers_perm hI1⟩
    · intro e
      rw [← reach_iff h e, ← hcl e]
      constructor
      · rintro ⟨m, hm⟩; exact ⟨m, (mem_joinMarked hI1 e m).mp hm⟩
      · rintro ⟨m, hm⟩; exact ⟨m, (mem_joinMarked hI1 e m).mpr hm⟩
    · intro e m hem
      exact (mem_joinMarked hI1 e m).mpr (hg.carries ((mem_joinMarked h e m).mp hem))

end SpecsModel.SaveLoad
