/-
  The marker allocator's `HashMap<u64, Entity>` is observed only through look-ups (property C20 for the
  save/load domain).

  The model keeps the map as an association list; which list represents a given finite map depends on
  the insertion history exactly as the iteration order of the real hash map depends on its seed and
  growth history. `SW.Eqv` relates two worlds that agree on everything except that representation
  (the two lists answer every look-up alike). Every operation of the domain — marking, allocator
  maintenance, both serialisers, deserialisation, deletion, `maintain` — gives the same result on related
  worlds and keeps them related, hence whole histories do (`runFrom_eqv`), including histories in which
  the representation is disturbed arbitrarily between any two steps (`runScrambled_eqv`).
-/
import SpecsModel.SaveLoad.LemmasBase
namespace SpecsModel.SaveLoad
open SpecsModel

/-- Two association lists that answer every look-up alike. -/
def MapEqv (m1 m2 : List (Nat × Entity)) : Prop := ∀ k, mapLookup m1 k = mapLookup m2 k

theorem MapEqv.refl (m : List (Nat × Entity)) : MapEqv m m := fun _ => rfl

theorem MapEqv.insert {m1 m2 : List (Nat × Entity)} (h : MapEqv m1 m2) (k : Nat) (v : Entity) :
    MapEqv (mapInsert m1 k v) (mapInsert m2 k v) := by
  intro k'; simp only [mapLookup_mapInsert, h k']

/-- Same world up to the representation of the marker map. -/
structure SW.Eqv (w1 w2 : SW) : Prop where
  alloc : w1.alloc = w2.alloc
  mks : w1.mks = w2.mks
  idx : w1.ma.index = w2.ma.index
  map : MapEqv w1.ma.mapping w2.ma.mapping
  cp : w1.cp = w2.cp
  cr : w1.cr = w2.cr
  ce : w1.ce = w2.ce

theorem SW.Eqv.refl (w : SW) : SW.Eqv w w := ⟨rfl, rfl, rfl, MapEqv.refl _, rfl, rfl, rfl⟩

/-- Outcomes related by `R` on success, identical on panic / UB. -/
inductive OutRel {α : Type} (R : α → α → Prop) : Out α → Out α → Prop
  | ok {a b : α} : R a b → OutRel R (.ok a) (.ok b)
  | panic (s : String) : OutRel R (.panic s) (.panic s)
  | ub (s : String) : OutRel R (.ub s) (.ub s)

theorem OutRel.of_eq {α : Type} {R : α → α → Prop} (hR : ∀ a, R a a) {x y : Out α} (h : x = y) : OutRel R x y := by
  subst h
  cases x with
  | ok a => exact .ok (hR a)
  | panic s => exact .panic s
  | ub s => exact .ub s

namespace SW

theorem lookupLive_eqv {w1 w2 : SW} (h : Eqv w1 w2) (m : Nat) : w1.lookupLive m = w2.lookupLive m := by
  unfold lookupLive MAlloc.retrieveInternal
  rw [h.map m, h.mks, h.alloc]

theorem allocate_eqv {a1 a2 : MAlloc} (hi : a1.index = a2.index) (hm : MapEqv a1.mapping a2.mapping)
    (e : Entity) (o : Option Nat) :
    (a1.allocate e o).2 = (a2.allocate e o).2 ∧ (a1.allocate e o).1.index = (a2.allocate e o).1.index ∧
    MapEqv (a1.allocate e o).1.mapping (a2.allocate e o).1.mapping := by
  cases o with
  | none =>
    refine ⟨by simp only [MAlloc.allocate, hi], by simp only [MAlloc.allocate, hi], ?_⟩
    simp only [MAlloc.allocate, hi]; exact hm.insert _ _
  | some id =>
    refine ⟨by simp only [MAlloc.allocate], by simp only [MAlloc.allocate, hi], ?_⟩
    simp only [MAlloc.allocate]; exact hm.insert _ _

theorem retrieveEntity_eqv {w1 w2 : SW} (h : Eqv w1 w2) (m : Nat) :
    OutRel (fun a b => Eqv a.1 b.1 ∧ a.2 = b.2) (w1.retrieveEntity m) (w2.retrieveEntity m) := by
  unfold retrieveEntity
  rw [lookupLive_eqv h m]
  cases w2.lookupLive m with
  | some e =>
    simp only
    exact .ok ⟨⟨h.alloc, by simp only [h.mks], h.idx, h.map, h.cp, h.cr, h.ce⟩, rfl⟩
  | none =>
    simp only [h.alloc]
    cases w2.alloc.allocateAtomic with
    | panic s => exact .panic s
    | ub s => exact .ub s
    | ok p =>
      obtain ⟨al, e⟩ := p
      simp only
      obtain ⟨h1, h2, h3⟩ := allocate_eqv h.idx h.map e (some m)
      by_cases ha : al.isAlive e = true
      · simp only [ha, if_true]
        exact .ok ⟨⟨rfl, by simp only [h.mks, h1], h2, h3, h.cp, h.cr, h.ce⟩, rfl⟩
      · simp only [ha, Bool.false_eq_true, if_false]
        exact .panic _

theorem mark_eqv {w1 w2 : SW} (h : Eqv w1 w2) (e : Entity) :
    Eqv (w1.mark e).1 (w2.mark e).1 ∧ (w1.mark e).2 = (w2.mark e).2 := by
  unfold mark
  rw [h.alloc, h.mks]
  by_cases ha : w2.alloc.isAlive e = true
  · simp only [ha, if_true]
    by_cases hm : w2.mks.has e.id = true
    · simp only [hm, if_true]; exact ⟨h, trivial⟩
    · simp only [hm, Bool.false_eq_true, if_false]
      obtain ⟨h1, h2, h3⟩ := allocate_eqv h.idx h.map e none
      exact ⟨⟨rfl, by simp only [h1], h2, h3, h.cp, h.cr, h.ce⟩, by rw [h1]⟩
  · simp only [ha, Bool.false_eq_true, if_false]; exact ⟨h, trivial⟩

theorem joinMarked_eqv {w1 w2 : SW} (h : Eqv w1 w2) : w1.joinMarked = w2.joinMarked := by
  unfold joinMarked; rw [h.alloc, h.mks]

theorem allocMaintain_eqv {w1 w2 : SW} (h : Eqv w1 w2) : Eqv w1.allocMaintain w2.allocMaintain := by
  unfold allocMaintain
  exact ⟨h.alloc, h.mks, h.idx, by simp only [joinMarked_eqv h]; exact MapEqv.refl _, h.cp, h.cr, h.ce⟩

/-! ### Serialisers: generic in the closure's state -/

section Ser
variable {σ : Type} (R : σ → σ → Prop) (ids : σ → Entity → σ × Option Nat)
  (hids : ∀ s1 s2 e, R s1 s2 → R (ids s1 e).1 (ids s2 e).1 ∧ (ids s1 e).2 = (ids s2 e).2)
include hids

theorem convInto_rel {s1 s2 : σ} (hs : R s1 s2) (e : Entity) :
    OutRel (fun a b => R a.1 b.1 ∧ a.2 = b.2) (convInto ids s1 e) (convInto ids s2 e) := by
  unfold convInto
  have := hids s1 s2 e hs
  rcases h1 : ids s1 e with ⟨t1, o1⟩
  rcases h2 : ids s2 e with ⟨t2, o2⟩
  rw [h1, h2] at this
  obtain ⟨hr, ho⟩ := this
  simp only at hr ho
  subst ho
  cases o1 with
  | none => exact .panic _
  | some m => exact .ok ⟨hr, rfl⟩

theorem serR_rel {w1 w2 : SW} (ha : w1.alloc = w2.alloc) (hc : w1.cr = w2.cr) {s1 s2 : σ} (hs : R s1 s2)
    (ent : Entity) :
    OutRel (fun a b => R a.1 b.1 ∧ a.2 = b.2) (serR w1 ids s1 ent) (serR w2 ids s2 ent) := by
  unfold serR
  rw [ha, hc]
  cases sget w2.alloc w2.cr ent with
  | none => exact .ok ⟨hs, rfl⟩
  | some ab =>
    obtain ⟨a, b⟩ := ab
    simp only
    have h1 := convInto_rel R ids hids hs a
    generalize convInto ids s1 a = x1 at h1 ⊢
    generalize convInto ids s2 a = x2 at h1 ⊢
    cases h1 with
    | panic s => exact .panic s
    | ub s => exact .ub s
    | @ok p q hpq =>
      obtain ⟨t1, ma⟩ := p
      obtain ⟨t2, ma'⟩ := q
      obtain ⟨hr, hm⟩ := hpq
      simp only at hr hm
      subst hm
      simp only
      have h2 := convInto_rel R ids hids hr b
      generalize convInto ids t1 b = y1 at h2 ⊢
      generalize convInto ids t2 b = y2 at h2 ⊢
      cases h2 with
      | panic s => exact .panic s
      | ub s => exact .ub s
      | @ok p q hpq =>
        obtain ⟨u1, mb⟩ := p
        obtain ⟨u2, mb'⟩ := q
        obtain ⟨hr', hm'⟩ := hpq
        simp only at hr' hm'
        subst hm'
        exact .ok ⟨hr', rfl⟩

theorem serE_rel {w1 w2 : SW} (ha : w1.alloc = w2.alloc) (hc : w1.ce = w2.ce) {s1 s2 : σ} (hs : R s1 s2)
    (ent : Entity) :
    OutRel (fun a b => R a.1 b.1 ∧ a.2 = b.2) (serE w1 ids s1 ent) (serE w2 ids s2 ent) := by
  unfold serE
  rw [ha, hc]
  cases sget w2.alloc w2.ce ent with
  | none => exact .ok ⟨hs, rfl⟩
  | some c =>
    cases c with
    | nil => exact .ok ⟨hs, rfl⟩
    | val v => exact .ok ⟨hs, rfl⟩
    | one a =>
      simp only
      have h1 := convInto_rel R ids hids hs a
      generalize convInto ids s1 a = x1 at h1 ⊢
      generalize convInto ids s2 a = x2 at h1 ⊢
      cases h1 with
      | panic s => exact .panic s
      | ub s => exact .ub s
      | @ok p q hpq =>
        obtain ⟨t1, ma⟩ := p
        obtain ⟨t2, ma'⟩ := q
        obtain ⟨hr, hm⟩ := hpq
        simp only at hr hm
        subst hm
        exact .ok ⟨hr, rfl⟩

theorem serEntity_rel {w1 w2 : SW} (ha : w1.alloc = w2.alloc) (hp : w1.cp = w2.cp) (hr : w1.cr = w2.cr)
    (he : w1.ce = w2.ce) {s1 s2 : σ} (hs : R s1 s2) (ent : Entity) :
    OutRel (fun a b => R a.1 b.1 ∧ a.2 = b.2) (serEntity w1 ids s1 ent) (serEntity w2 ids s2 ent) := by
  unfold serEntity
  rw [hp]
  simp only [ha]
  have h1 := serR_rel R ids hids ha hr hs ent
  generalize serR w1 ids s1 ent = x1 at h1 ⊢
  generalize serR w2 ids s2 ent = x2 at h1 ⊢
  cases h1 with
  | panic s => exact .panic s
  | ub s => exact .ub s
  | @ok p q hpq =>
    obtain ⟨t1, r1⟩ := p
    obtain ⟨t2, r2⟩ := q
    obtain ⟨hr1, hm⟩ := hpq
    simp only at hr1 hm
    subst hm
    simp only
    have h2 := serE_rel R ids hids ha he hr1 ent
    generalize serE w1 ids t1 ent = y1 at h2 ⊢
    generalize serE w2 ids t2 ent = y2 at h2 ⊢
    cases h2 with
    | panic s => exact .panic s
    | ub s => exact .ub s
    | @ok p q hpq =>
      obtain ⟨u1, e1⟩ := p
      obtain ⟨u2, e2⟩ := q
      obtain ⟨hr2, hm2⟩ := hpq
      simp only at hr2 hm2
      subst hm2
      exact .ok ⟨hr2, rfl⟩

end Ser

/-! ### `serialize` does not touch the allocator at all -/

theorem serLoop_eqv {w1 w2 : SW} (h : Eqv w1 w2) (l : List (Entity × Nat)) : serLoop w1 l = serLoop w2 l := by
  have hi : idsPlain w1 = idsPlain w2 := by
    funext u e; simp only [idsPlain, h.alloc, h.mks]
  have hse : ∀ ent, serEntity w1 (idsPlain w1) () ent = serEntity w2 (idsPlain w2) () ent := by
    intro ent; rw [hi]; simp only [serEntity, serR, serE, h.alloc, h.cp, h.cr, h.ce]
  induction l with
  | nil => rfl
  | cons em t ih => obtain ⟨ent, m⟩ := em; simp only [serLoop, hse, ih]

theorem serialize_eqv {w1 w2 : SW} (h : Eqv w1 w2) : w1.serialize = w2.serialize := by
  unfold serialize; rw [joinMarked_eqv h, serLoop_eqv h]

/-! ### `serialize_recursive` marks through the allocator -/

/-- The closure state of `serialize_recursive`: related worlds, same `add` vector. -/
def RecRel (s1 s2 : SW × List (Entity × Nat)) : Prop := Eqv s1.1 s2.1 ∧ s1.2 = s2.2

theorem idsRec_rel (s1 s2 : SW × List (Entity × Nat)) (e : Entity) (hs : RecRel s1 s2) :
    RecRel (idsRec s1 e).1 (idsRec s2 e).1 ∧ (idsRec s1 e).2 = (idsRec s2 e).2 := by
  obtain ⟨hw, hl⟩ := hs
  obtain ⟨h1, h2⟩ := mark_eqv hw e
  unfold idsRec
  rcases hm1 : s1.1.mark e with ⟨v1, o1⟩
  rcases hm2 : s2.1.mark e with ⟨v2, o2⟩
  rw [hm1, hm2] at h1 h2
  simp only at h1 h2
  subst h2
  cases o1 with
  | none => exact ⟨⟨h1, hl⟩, rfl⟩
  | some ma =>
    obtain ⟨m, added⟩ := ma
    exact ⟨⟨h1, by simp only [hl]⟩, rfl⟩

theorem serRound_rel (l : List (Entity × Nat)) : ∀ (s1 s2 : SW × List (Entity × Nat)), RecRel s1 s2 →
    OutRel (fun a b => RecRel a.1 b.1 ∧ a.2 = b.2) (serRound l s1) (serRound l s2) := by
  induction l with
  | nil => intro s1 s2 hs; exact .ok ⟨hs, rfl⟩
  | cons em t ih =>
    intro s1 s2 hs
    obtain ⟨ent, m⟩ := em
    unfold serRound
    have h1 := serEntity_rel RecRel idsRec idsRec_rel hs.1.alloc hs.1.cp hs.1.cr hs.1.ce hs ent
    generalize serEntity s1.1 idsRec s1 ent = x1 at h1 ⊢
    generalize serEntity s2.1 idsRec s2 ent = x2 at h1 ⊢
    cases h1 with
    | panic s => exact .panic s
    | ub s => exact .ub s
    | @ok p q hpq =>
      obtain ⟨t1, d1⟩ := p
      obtain ⟨t2, d2⟩ := q
      obtain ⟨hr, hd⟩ := hpq
      simp only at hr hd
      subst hd
      obtain ⟨pp, rr, ee⟩ := d1
      simp only
      have h2 := ih t1 t2 hr
      generalize serRound t t1 = y1 at h2 ⊢
      generalize serRound t t2 = y2 at h2 ⊢
      cases h2 with
      | panic s => exact .panic s
      | ub s => exact .ub s
      | @ok p q hpq =>
        obtain ⟨u1, ds1⟩ := p
        obtain ⟨u2, ds2⟩ := q
        obtain ⟨hr2, hd2⟩ := hpq
        simp only at hr2 hd2
        subst hd2
        exact .ok ⟨hr2, rfl⟩

theorem serWhile_rel (fuel : Nat) : ∀ (w1 w2 : SW) (todo : List (Entity × Nat)), Eqv w1 w2 →
    OutRel (fun a b => Eqv a.1 b.1 ∧ a.2 = b.2) (serWhile fuel w1 todo) (serWhile fuel w2 todo) := by
  induction fuel with
  | zero =>
    intro w1 w2 todo h
    cases todo with
    | nil => exact .ok ⟨h, rfl⟩
    | cons a t => exact .ub _
  | succ n ih =>
    intro w1 w2 todo h
    cases todo with
    | nil => exact .ok ⟨h, rfl⟩
    | cons a t =>
      unfold serWhile
      have h1 := serRound_rel (a :: t) (w1, []) (w2, []) ⟨h, rfl⟩
      generalize serRound (a :: t) (w1, []) = x1 at h1 ⊢
      generalize serRound (a :: t) (w2, []) = x2 at h1 ⊢
      cases h1 with
      | panic s => exact .panic s
      | ub s => exact .ub s
      | @ok p q hpq =>
        obtain ⟨⟨v1, add1⟩, ds1⟩ := p
        obtain ⟨⟨v2, add2⟩, ds2⟩ := q
        obtain ⟨⟨hv, hadd⟩, hd⟩ := hpq
        simp only at hv hadd hd
        subst hadd; subst hd
        simp only
        have h2 := ih v1 v2 add1 hv
        generalize serWhile n v1 add1 = y1 at h2 ⊢
        generalize serWhile n v2 add1 = y2 at h2 ⊢
        cases h2 with
        | panic s => exact .panic s
        | ub s => exact .ub s
        | @ok p q hpq =>
          obtain ⟨z1, e1⟩ := p
          obtain ⟨z2, e2⟩ := q
          obtain ⟨hz, he⟩ := hpq
          simp only at hz he
          subst he
          exact .ok ⟨hz, rfl⟩

theorem serializeRecursive_rel {w1 w2 : SW} (h : Eqv w1 w2) :
    OutRel (fun a b => Eqv a.1 b.1 ∧ a.2 = b.2) w1.serializeRecursive w2.serializeRecursive := by
  unfold serializeRecursive
  have hu : w1.unmarkedCount = w2.unmarkedCount := by unfold unmarkedCount; rw [h.alloc, h.mks]
  rw [hu, joinMarked_eqv h]
  exact serWhile_rel _ w1 w2 _ h

/-! ### Deserialisation -/

theorem deserP_eqv {w1 w2 : SW} (h : Eqv w1 w2) (ent : Entity) (v : Option Int) :
    Eqv (deserP w1 ent v) (deserP w2 ent v) := by
  cases v with
  | none => exact ⟨h.alloc, h.mks, h.idx, h.map, by simp only [deserP, h.alloc, h.cp], h.cr, h.ce⟩
  | some v => exact ⟨h.alloc, h.mks, h.idx, h.map, by simp only [deserP, h.alloc, h.cp], h.cr, h.ce⟩

theorem deserR_rel {w1 w2 : SW} (h : Eqv w1 w2) (ent : Entity) (v : Option (Nat × Nat)) :
    OutRel Eqv (deserR w1 ent v) (deserR w2 ent v) := by
  cases v with
  | none => exact .ok ⟨h.alloc, h.mks, h.idx, h.map, h.cp, by simp only [h.alloc, h.cr], h.ce⟩
  | some ab =>
    obtain ⟨ma, mb⟩ := ab
    simp only [deserR, convFrom]
    have h1 := retrieveEntity_eqv h ma
    generalize w1.retrieveEntity ma = x1 at h1 ⊢
    generalize w2.retrieveEntity ma = x2 at h1 ⊢
    cases h1 with
    | panic s => exact .panic s
    | ub s => exact .ub s
    | @ok p q hpq =>
      obtain ⟨v1, a1⟩ := p
      obtain ⟨v2, a2⟩ := q
      obtain ⟨hv, ha⟩ := hpq
      simp only at hv ha
      subst ha
      simp only
      have h2 := retrieveEntity_eqv hv mb
      generalize v1.retrieveEntity mb = y1 at h2 ⊢
      generalize v2.retrieveEntity mb = y2 at h2 ⊢
      cases h2 with
      | panic s => exact .panic s
      | ub s => exact .ub s
      | @ok p q hpq =>
        obtain ⟨z1, b1⟩ := p
        obtain ⟨z2, b2⟩ := q
        obtain ⟨hz, hb⟩ := hpq
        simp only at hz hb
        subst hb
        exact .ok ⟨hz.alloc, hz.mks, hz.idx, hz.map, hz.cp, by simp only [hz.alloc, hz.cr], hz.ce⟩

theorem deserE_rel {w1 w2 : SW} (h : Eqv w1 w2) (ent : Entity) (v : Option EnD) :
    OutRel Eqv (deserE w1 ent v) (deserE w2 ent v) := by
  cases v with
  | none => exact .ok ⟨h.alloc, h.mks, h.idx, h.map, h.cp, h.cr, by simp only [h.alloc, h.ce]⟩
  | some c =>
    cases c with
    | nil => exact .ok ⟨h.alloc, h.mks, h.idx, h.map, h.cp, h.cr, by simp only [h.alloc, h.ce]⟩
    | val v => exact .ok ⟨h.alloc, h.mks, h.idx, h.map, h.cp, h.cr, by simp only [h.alloc, h.ce]⟩
    | one ma =>
      simp only [deserE, convFrom]
      have h1 := retrieveEntity_eqv h ma
      generalize w1.retrieveEntity ma = x1 at h1 ⊢
      generalize w2.retrieveEntity ma = x2 at h1 ⊢
      cases h1 with
      | panic s => exact .panic s
      | ub s => exact .ub s
      | @ok p q hpq =>
        obtain ⟨v1, a1⟩ := p
        obtain ⟨v2, a2⟩ := q
        obtain ⟨hv, ha⟩ := hpq
        simp only at hv ha
        subst ha
        exact .ok ⟨hv.alloc, hv.mks, hv.idx, hv.map, hv.cp, hv.cr, by simp only [hv.alloc, hv.ce]⟩

theorem deserEntity_rel {w1 w2 : SW} (h : Eqv w1 w2) (ent : Entity) (d : EntityData) :
    OutRel Eqv (deserEntity w1 ent d) (deserEntity w2 ent d) := by
  unfold deserEntity
  have h1 := deserR_rel (deserP_eqv h ent d.p) ent d.r
  generalize deserR (deserP w1 ent d.p) ent d.r = x1 at h1 ⊢
  generalize deserR (deserP w2 ent d.p) ent d.r = x2 at h1 ⊢
  cases h1 with
  | panic s => exact .panic s
  | ub s => exact .ub s
  | @ok p q hpq => exact deserE_rel hpq ent d.e

theorem deserOne_rel {w1 w2 : SW} (h : Eqv w1 w2) (d : EntityData) :
    OutRel Eqv (deserOne w1 d) (deserOne w2 d) := by
  unfold deserOne
  have h1 := retrieveEntity_eqv h d.marker
  generalize w1.retrieveEntity d.marker = x1 at h1 ⊢
  generalize w2.retrieveEntity d.marker = x2 at h1 ⊢
  cases h1 with
  | panic s => exact .panic s
  | ub s => exact .ub s
  | @ok p q hpq =>
    obtain ⟨v1, a1⟩ := p
    obtain ⟨v2, a2⟩ := q
    obtain ⟨hv, ha⟩ := hpq
    simp only at hv ha
    subst ha
    exact deserEntity_rel hv a1 d

theorem deserialize_rel (ds : List EntityData) : ∀ {w1 w2 : SW}, Eqv w1 w2 →
    OutRel Eqv (w1.deserialize ds) (w2.deserialize ds) := by
  induction ds with
  | nil => intro w1 w2 h; exact .ok h
  | cons d t ih =>
    intro w1 w2 h
    unfold deserialize
    have h1 := deserOne_rel h d
    generalize deserOne w1 d = x1 at h1 ⊢
    generalize deserOne w2 d = x2 at h1 ⊢
    cases h1 with
    | panic s => exact .panic s
    | ub s => exact .ub s
    | @ok p q hpq => exact ih hpq

/-! ### Deletion and `maintain` -/

theorem deleteComponents_eqv {w1 w2 : SW} (h : Eqv w1 w2) (es : List Entity) :
    Eqv (w1.deleteComponents es) (w2.deleteComponents es) :=
  ⟨h.alloc, by simp only [deleteComponents, h.mks], h.idx, h.map, by simp only [deleteComponents, h.cp],
   by simp only [deleteComponents, h.cr], by simp only [deleteComponents, h.ce]⟩

theorem withAlloc_eqv {w1 w2 : SW} (h : Eqv w1 w2) (a : Alloc) :
    Eqv { w1 with alloc := a } { w2 with alloc := a } :=
  ⟨rfl, h.mks, h.idx, h.map, h.cp, h.cr, h.ce⟩

theorem deleteEntities_rel {w1 w2 : SW} (h : Eqv w1 w2) (es : List Entity) :
    OutRel (fun a b => Eqv a.1 b.1 ∧ a.2 = b.2) (w1.deleteEntities es) (w2.deleteEntities es) := by
  unfold deleteEntities
  rw [h.alloc]
  cases w2.alloc.kill es with
  | panic s => exact .panic s
  | ub s => exact .ub s
  | ok p =>
    obtain ⟨a, r⟩ := p
    cases r with
    | ok => exact .ok ⟨deleteComponents_eqv (withAlloc_eqv h a) es, rfl⟩
    | err pos => exact .ok ⟨deleteComponents_eqv (withAlloc_eqv h a) _, rfl⟩

theorem maintain_rel {w1 w2 : SW} (h : Eqv w1 w2) : OutRel Eqv w1.maintain w2.maintain := by
  unfold maintain
  rw [h.alloc]
  cases w2.alloc.merge with
  | panic s => exact .panic s
  | ub s => exact .ub s
  | ok p =>
    obtain ⟨a, del⟩ := p
    exact .ok (deleteComponents_eqv (withAlloc_eqv h a) del)

end SW
/-! ### Histories -/

namespace SLWorld

/-- Same history state up to the representation of the marker map. -/
structure Eqv (x1 x2 : SLWorld) : Prop where
  w : SW.Eqv x1.w x2.w
  log : x1.log = x2.log

theorem Eqv.refl (x : SLWorld) : Eqv x x := ⟨SW.Eqv.refl _, rfl⟩

theorem outRes_rel {α : Type} {R : α → α → Prop} {o1 o2 : Out α} (ho : OutRel R o1 o2)
    {f1 f2 : α → SLWorld × SRes} {x1 x2 : SLWorld} (hx : Eqv x1 x2)
    (hf : ∀ a b, R a b → Eqv (f1 a).1 (f2 b).1 ∧ (f1 a).2 = (f2 b).2) :
    Eqv (outRes o1 f1 x1).1 (outRes o2 f2 x2).1 ∧ (outRes o1 f1 x1).2 = (outRes o2 f2 x2).2 := by
  cases ho with
  | ok h => exact hf _ _ h
  | panic s => exact ⟨hx, rfl⟩
  | ub s => exact ⟨hx, rfl⟩

theorem setCp_eqv {x1 x2 : SLWorld} (h : Eqv x1 x2) (s : Store Int) :
    Eqv { x1 with w := { x1.w with cp := s } } { x2 with w := { x2.w with cp := s } } :=
  ⟨⟨h.w.alloc, h.w.mks, h.w.idx, h.w.map, rfl, h.w.cr, h.w.ce⟩, h.log⟩

theorem setCr_eqv {x1 x2 : SLWorld} (h : Eqv x1 x2) (s : Store (Entity × Entity)) :
    Eqv { x1 with w := { x1.w with cr := s } } { x2 with w := { x2.w with cr := s } } :=
  ⟨⟨h.w.alloc, h.w.mks, h.w.idx, h.w.map, h.w.cp, rfl, h.w.ce⟩, h.log⟩

theorem setCe_eqv {x1 x2 : SLWorld} (h : Eqv x1 x2) (s : Store En) :
    Eqv { x1 with w := { x1.w with ce := s } } { x2 with w := { x2.w with ce := s } } :=
  ⟨⟨h.w.alloc, h.w.mks, h.w.idx, h.w.map, h.w.cp, h.w.cr, rfl⟩, h.log⟩

/-- Field-wise proof of `Eqv` between two structure literals whose fields are those of related states. -/
macro "eqv_fields " h:ident : tactic => `(tactic|
  (refine ⟨⟨?_, ?_, ?_, ?_, ?_, ?_, ?_⟩, ?_⟩ <;>
   first
   | rfl | exact ($h).w.idx | exact ($h).w.map | exact ($h).w.alloc | exact ($h).w.mks | exact ($h).w.cp
   | exact ($h).w.cr | exact ($h).w.ce | exact ($h).log))

/-- One operation: same result, related successor states. -/
theorem step_eqv {x1 x2 : SLWorld} (h : Eqv x1 x2) (op : SOp) :
    Eqv (x1.step op).1 (x2.step op).1 ∧ (x1.step op).2 = (x2.step op).2 := by
  cases op with
  | create atomic =>
    simp only [step, h.w.alloc, h.log]
    refine outRes_rel (R := Eq) (OutRel.of_eq (fun _ => rfl) rfl) h ?_
    intro a b hab; subst hab
    exact ⟨⟨SW.withAlloc_eqv h.w a.1, rfl⟩, rfl⟩
  | setP hh v =>
    simp only [step, h.log]
    cases resolve x2.log hh with
    | none => exact ⟨h, rfl⟩
    | some e =>
      cases v with
      | none => simp only [h.w.alloc, h.w.cp]; refine ⟨?_, ?_⟩ <;> first | rfl | trivial | eqv_fields h
      | some v => simp only [h.w.alloc, h.w.cp]; refine ⟨?_, ?_⟩ <;> first | rfl | trivial | eqv_fields h
  | setR hh v =>
    simp only [step, h.log]
    cases resolve x2.log hh with
    | none => exact ⟨h, rfl⟩
    | some e =>
      cases v with
      | none => simp only [h.w.alloc, h.w.cr]; refine ⟨?_, ?_⟩ <;> first | rfl | trivial | eqv_fields h
      | some ab =>
        obtain ⟨ha, hb⟩ := ab
        simp only
        cases resolve x2.log ha with
        | none => exact ⟨h, rfl⟩
        | some a =>
          cases resolve x2.log hb with
          | none => exact ⟨h, rfl⟩
          | some b => simp only [h.w.alloc, h.w.cr]; refine ⟨?_, ?_⟩ <;> first | rfl | trivial | eqv_fields h
  | setE hh v =>
    simp only [step, h.log]
    cases resolve x2.log hh with
    | none => exact ⟨h, rfl⟩
    | some e =>
      cases v with
      | none => simp only [h.w.alloc, h.w.ce]; refine ⟨?_, ?_⟩ <;> first | rfl | trivial | eqv_fields h
      | some c =>
        cases c with
        | nil => simp only [h.w.alloc, h.w.ce]; refine ⟨?_, ?_⟩ <;> first | rfl | trivial | eqv_fields h
        | val v => simp only [h.w.alloc, h.w.ce]; refine ⟨?_, ?_⟩ <;> first | rfl | trivial | eqv_fields h
        | one ha =>
          simp only
          cases resolve x2.log ha with
          | none => exact ⟨h, rfl⟩
          | some a => simp only [h.w.alloc, h.w.ce]; refine ⟨?_, ?_⟩ <;> first | rfl | trivial | eqv_fields h
  | mark hh =>
    simp only [step, h.log]
    cases resolve x2.log hh with
    | none => exact ⟨h, rfl⟩
    | some e =>
      obtain ⟨h1, h2⟩ := SW.mark_eqv h.w e
      simp only
      exact ⟨⟨h1, rfl⟩, by rw [h2]⟩
  | delNow hh =>
    simp only [step, h.log]
    cases resolve x2.log hh with
    | none => exact ⟨h, rfl⟩
    | some e =>
      refine outRes_rel (SW.deleteEntities_rel h.w [e]) h ?_
      intro a b hab
      exact ⟨⟨hab.1, rfl⟩, by rw [hab.2]⟩
  | delBatch hs =>
    simp only [step, h.log]
    cases resolveAll x2.log hs with
    | none => exact ⟨h, rfl⟩
    | some es =>
      refine outRes_rel (SW.deleteEntities_rel h.w es) h ?_
      intro a b hab
      exact ⟨⟨hab.1, rfl⟩, by rw [hab.2]⟩
  | delAtomic hh =>
    simp only [step, h.log]
    cases resolve x2.log hh with
    | none => exact ⟨h, rfl⟩
    | some e =>
      simp only [h.w.alloc]
      refine outRes_rel (R := Eq) (OutRel.of_eq (fun _ => rfl) rfl) h ?_
      intro a b hab; subst hab
      exact ⟨⟨SW.withAlloc_eqv h.w a.1, rfl⟩, rfl⟩
  | maintain =>
    simp only [step]
    refine outRes_rel (SW.maintain_rel h.w) h ?_
    intro a b hab
    exact ⟨⟨hab, h.log⟩, rfl⟩
  | allocMaintain =>
    simp only [step]
    exact ⟨⟨SW.allocMaintain_eqv h.w, h.log⟩, trivial⟩
  | serialize =>
    simp only [step, SW.serialize_eqv h.w]
    refine outRes_rel (R := Eq) (OutRel.of_eq (fun _ => rfl) rfl) h ?_
    intro a b hab; subst hab
    exact ⟨h, rfl⟩
  | serializeRec =>
    simp only [step]
    refine outRes_rel (SW.serializeRecursive_rel h.w) h ?_
    intro a b hab
    exact ⟨⟨hab.1, h.log⟩, by simp only [hab.2]⟩
  | deserialize ds =>
    simp only [step]
    refine outRes_rel (SW.deserialize_rel ds h.w) h ?_
    intro a b hab
    exact ⟨⟨hab, by simp only [h.log, hab.alloc, h.w.alloc]⟩, by simp only [hab.alloc, h.w.alloc]⟩

/-- Whole histories from related states: same results, related final states. -/
theorem runFrom_eqv (ops : List SOp) : ∀ {x1 x2 : SLWorld}, Eqv x1 x2 →
    Eqv (x1.runFrom ops).1 (x2.runFrom ops).1 ∧ (x1.runFrom ops).2 = (x2.runFrom ops).2 := by
  induction ops with
  | nil => intro x1 x2 h; exact ⟨h, rfl⟩
  | cons op t ih =>
    intro x1 x2 h
    obtain ⟨h1, h2⟩ := step_eqv h op
    obtain ⟨h3, h4⟩ := ih h1
    simp only [runFrom]
    exact ⟨h3, by rw [h2, h4]⟩

/-- `maintain` with lazily queued markings. -/
theorem maintainLazy_eqv {x1 x2 : SLWorld} (h : Eqv x1 x2) (js : List Nat) :
    Eqv (x1.maintainLazy js).1 (x2.maintainLazy js).1 ∧ (x1.maintainLazy js).2 = (x2.maintainLazy js).2 := by
  obtain ⟨h1, h2⟩ := step_eqv h .maintain
  have hfold : ∀ (js : List Nat) {y1 y2 : SLWorld}, Eqv y1 y2 →
      Eqv (js.foldl (fun y j => (y.step (.mark j)).1) y1) (js.foldl (fun y j => (y.step (.mark j)).1) y2) := by
    intro js
    induction js with
    | nil => intro y1 y2 hy; exact hy
    | cons j t ih => intro y1 y2 hy; exact ih (step_eqv hy (.mark j)).1
  unfold maintainLazy
  rcases hs1 : x1.step .maintain with ⟨y1, r1⟩
  rcases hs2 : x2.step .maintain with ⟨y2, r2⟩
  rw [hs1, hs2] at h1 h2
  simp only at h1 h2
  subst h2
  cases r1 <;> first | exact ⟨h1, rfl⟩ | exact ⟨hfold js h1, rfl⟩

/-- A history during which the representation of the marker map is disturbed by `sc n` before step `n`
    (rehash, growth, another seed — anything that keeps every look-up). -/
def runScrambled (sc : Nat → SLWorld → SLWorld) : Nat → SLWorld → List SOp → SLWorld × List SRes
  | _, x, [] => (x, [])
  | n, x, op :: ops =>
    let (x', r) := (sc n x).step op
    let (x'', t) := runScrambled sc (n + 1) x' ops
    (x'', r :: t)

theorem runScrambled_eqv (sc : Nat → SLWorld → SLWorld) (hsc : ∀ n x, Eqv x (sc n x)) (ops : List SOp) :
    ∀ (n : Nat) {x1 x2 : SLWorld}, Eqv x1 x2 →
    Eqv (runScrambled sc n x1 ops).1 (x2.runFrom ops).1 ∧ (runScrambled sc n x1 ops).2 = (x2.runFrom ops).2 := by
  induction ops with
  | nil => intro n x1 x2 h; exact ⟨h, rfl⟩
  | cons op t ih =>
    intro n x1 x2 h
    have hs : Eqv (sc n x1) x2 :=
      ⟨⟨(hsc n x1).w.alloc.symm.trans h.w.alloc, (hsc n x1).w.mks.symm.trans h.w.mks,
        (hsc n x1).w.idx.symm.trans h.w.idx, fun k => ((hsc n x1).w.map k).symm.trans (h.w.map k),
        (hsc n x1).w.cp.symm.trans h.w.cp, (hsc n x1).w.cr.symm.trans h.w.cr,
        (hsc n x1).w.ce.symm.trans h.w.ce⟩, (hsc n x1).log.symm.trans h.log⟩
    obtain ⟨h1, h2⟩ := step_eqv hs op
    obtain ⟨h3, h4⟩ := ih (n + 1) h1
    simp only [runScrambled, runFrom]
    exact ⟨h3, by rw [h2, h4]⟩

end SLWorld

end SpecsModel.SaveLoad
