/-
  Model of /repo/src/storage/mod.rs (`MaskedStorage`, `Storage` API), entry.rs, drain.rs,
  generic.rs (`get_mut_or_default`), restrict.rs (`get_other`, `get_other_mut`).
  Each handle-taking path carries its own copy of "mask ∧ is_alive", as in the code.
-/
import SpecsModel.Model.Storages
import SpecsModel.Model.Entity
namespace SpecsModel

/-- `MaskedStorage<T>`. -/
structure Masked where
  mask : BSet
  inner : UStore
  deriving Repr

/-- Result of a storage-level operation. `destroyed` lists values dropped inside the call. -/
structure SRes (α : Type) where
  st : Masked
  val : α
  destroyed : List Int := []

namespace Masked

def lift {α β} (o : Out α) (f : α → Out β) : Out β :=
  match o with
  | .ok a => f a
  | .panic w => .panic w
  | .ub w => .ub w

/-- `Storage::get`. -/
def get (m : Masked) (a : Alloc) (e : Entity) : Out (Option Int) :=
  if m.mask.mem e.id && a.isAlive e then lift (m.inner.get e.id) (fun v => .ok (some v)) else .ok none

/-- `Storage::contains`. -/
def contains (m : Masked) (a : Alloc) (e : Entity) : Bool := m.mask.mem e.id && a.isAlive e

/-- `Storage::get_mut(e)`, then `derefs` mutable dereferences, then optionally a write.
    Returns the value seen before the write. -/
def getMut (m : Masked) (a : Alloc) (e : Entity) (derefs : Nat) (write : Option Int) :
    Out (SRes (Option Int)) :=
  if m.mask.mem e.id && a.isAlive e then
    lift (m.inner.get e.id) (fun old =>
      let inner := m.inner.touch e.id derefs
      match write with
      | none => .ok { st := { m with inner := inner }, val := some old }
      | some v => lift (inner.poke e.id v) (fun inner' => .ok { st := { m with inner := inner' }, val := some old }))
  else .ok { st := m, val := none }

/-- `Storage::not_present_insert` (the drop guard is unreachable for indices < 2^24). -/
def notPresentInsert (m : Masked) (id : Nat) (v : Int) : Out (SRes Unit) :=
  lift (m.inner.insert id v) (fun (inner, d) =>
    .ok { st := { mask := m.mask.add id, inner := inner }, val := (), destroyed := d })

inductive InsRes where
  | inserted            -- Ok(None)
  | replaced (old : Int) -- Ok(Some(old))
  | wrongGen            -- Err(WrongGeneration)
  deriving Repr, DecidableEq

/-- `Storage::insert`. -/
def insert (m : Masked) (a : Alloc) (e : Entity) (v : Int) : Out (SRes InsRes) :=
  if a.isAlive e then
    if m.mask.mem e.id then
      -- `swap(&mut v, get_mut(id).access_mut())`
      lift (m.inner.get e.id) (fun old =>
        lift ((m.inner.touch e.id 1).poke e.id v) (fun inner =>
          .ok { st := { m with inner := inner }, val := .replaced old }))
    else
      lift (m.notPresentInsert e.id v) (fun r => .ok { st := r.st, val := .inserted, destroyed := r.destroyed })
  else .ok { st := m, val := .wrongGen, destroyed := [v] }

/-- `MaskedStorage::remove`. -/
def removeId (m : Masked) (id : Nat) : Out (SRes (Option Int)) :=
  if m.mask.mem id then
    lift (m.inner.remove id) (fun (inner, v) =>
      .ok { st := { mask := m.mask.remove id, inner := inner }, val := some v })
  else .ok { st := m, val := none }

/-- `Storage::remove`. -/
def remove (m : Masked) (a : Alloc) (e : Entity) : Out (SRes (Option Int)) :=
  if a.isAlive e then m.removeId e.id else .ok { st := m, val := none }

/-- `MaskedStorage::drop(id)`: the bit is cleared before the value is moved out and destroyed. -/
def dropId (m : Masked) (id : Nat) : Out (SRes Unit) :=
  if m.mask.mem id then
    lift (m.inner.remove id) (fun (inner, v) =>
      .ok { st := { mask := m.mask.remove id, inner := inner }, val := (), destroyed := [v] })
  else .ok { st := m, val := () }

/-- `AnyStorage::drop(entities)`. -/
def dropAll (m : Masked) : List Entity → List Int → Out (SRes Unit)
  | [], acc => .ok { st := m, val := (), destroyed := acc.reverse }
  | e :: es, acc => lift (m.dropId e.id) (fun r => dropAll r.st es (r.destroyed.reverse ++ acc))

/-- `MaskedStorage::clear`. -/
def clear (m : Masked) : Out (SRes Unit) :=
  lift (m.inner.clean m.mask) (fun (inner, d) =>
    .ok { st := { mask := BSet.empty, inner := inner }, val := (), destroyed := d })

/-- `Storage::drain().join()` consumed for at most `n` items (the mask is cloned at `open`). -/
def drainLoop (m : Masked) : List Nat → Nat → List (Nat × Int) → Out (SRes (List (Nat × Int)))
  | [], _, acc => .ok { st := m, val := acc.reverse }
  | _ :: _, 0, acc => .ok { st := m, val := acc.reverse }
  | id :: ids, n + 1, acc =>
    lift (m.removeId id) (fun r =>
      match r.val with
      | some v => drainLoop r.st ids n ((id, v) :: acc)
      | none => .panic "Tried to access same index twice")

def drain (m : Masked) (n : Nat) : Out (SRes (List (Nat × Int))) := m.drainLoop m.mask.toList n []

inductive EntryOp where
  | orInsert (v : Int) (derefs : Nat) (write : Option Int)  -- entry.or_insert(v), derefs, optional write
  | replace (v : Int)                                       -- entry.replace(v)
  | remove                                                  -- occupied → remove(); vacant → nothing
  deriving Repr, DecidableEq

inductive EntryRes where
  | wrongGen
  | occupied (old : Int)     -- value that was there (or_insert: current; replace/remove: returned)
  | vacant                   -- was vacant (or_insert/replace inserted; remove did nothing)
  deriving Repr, DecidableEq

/-- `Storage::entry(e)` followed by one entry operation. -/
def entry (m : Masked) (a : Alloc) (e : Entity) (op : EntryOp) : Out (SRes EntryRes) :=
  if a.isAlive e then
    let id := e.id
    if m.mask.mem id then
      match op with
      | .orInsert v0 derefs write =>
        -- `occupied.into_mut()` = `inner.get_mut(id)`; the unused `component` is dropped
        lift (m.inner.get id) (fun old =>
          let inner := m.inner.touch id derefs
          match write with
          | none => .ok { st := { m with inner := inner }, val := .occupied old, destroyed := [v0] }
          | some v => lift (inner.poke id v) (fun inner' =>
              .ok { st := { m with inner := inner' }, val := .occupied old, destroyed := [v0] }))
      | .replace v =>
        lift (m.inner.get id) (fun old =>
          lift ((m.inner.touch id 1).poke id v) (fun inner => .ok { st := { m with inner := inner }, val := .occupied old }))
      | .remove =>
        lift (m.removeId id) (fun r =>
          match r.val with
          | some v => .ok { st := r.st, val := .occupied v }
          | none => .panic "OccupiedEntry::remove: unwrap on None")
    else
      match op with
      | .orInsert v derefs write =>
        lift (m.notPresentInsert id v) (fun r =>
          let inner := r.st.inner.touch id derefs
          match write with
          | none => .ok { st := { r.st with inner := inner }, val := .vacant, destroyed := r.destroyed }
          | some w => lift (inner.poke id w) (fun inner' =>
              .ok { st := { r.st with inner := inner' }, val := .vacant, destroyed := r.destroyed }))
      | .replace v =>
        -- `vacant.insert(component)`: not_present_insert, then `get_mut` whose result is dropped
        lift (m.notPresentInsert id v) (fun r =>
          .ok { st := { r.st with inner := r.st.inner.touch id 0 }, val := .vacant, destroyed := r.destroyed })
      | .remove => .ok { st := m, val := .vacant }
  else
    -- `entry(e)` fails before any component is handed over
    .ok { st := m, val := .wrongGen }

/-- `GenericWriteStorage::get_mut_or_default(e)` (default value 0), then `derefs` dereferences
    and an optional write. `none` = the call returned `None`. -/
def getMutOrDefault (m : Masked) (a : Alloc) (e : Entity) (derefs : Nat) (write : Option Int) :
    Out (SRes (Option Int)) :=
  if !(m.contains a e) then
    lift (m.insert a e 0) (fun r =>
      match r.val with
      | .wrongGen => .ok { st := r.st, val := none, destroyed := r.destroyed }
      | _ => lift (r.st.getMut a e derefs write) (fun r2 =>
          .ok { st := r2.st, val := r2.val, destroyed := r.destroyed ++ r2.destroyed }))
  else m.getMut a e derefs write

/-- `PairedStorage*::get_other` / `get_other_mut` through a restricted storage. -/
def getOther (m : Masked) (a : Alloc) (e : Entity) : Out (Option Int) := m.get a e

end Masked
end SpecsModel
