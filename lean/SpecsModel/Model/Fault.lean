/-
  C19: the world model under a panicking component destructor.
  `stepFault fuel w op n implD` = the operation `op` during which the `n`-th (0-based) destructor
  call of a non-zero component value panics and the panic is caught by the caller. Zero values (the
  unit value of the null storage, default fillers) never panic. Which state each site leaves behind
  follows DESIGN Appendix D, read off the Rust:

  * a value dropped at the end of a refused `insert` / unused `or_insert` argument: the operation
    had already completed;
  * `MaskedStorage::drop(id)` during entity deletion: bit cleared and value moved out *before* it is
    destroyed; the rest of this storage's batch and all later storages are not purged; the allocator
    state is final (kill / merge ran first); in `maintain` the lazy queue does not run;
  * `MaskedStorage::clear` / world teardown: the mask was swapped out first, so the storage reports
    empty; which of the remaining values std's containers still destroy is taken from the run
    (`implD`), the model only requires it to be a sub-multiset of what a complete clear destroys.
-/
import SpecsModel.Model.World
namespace SpecsModel
namespace World

def nzCount (l : List Int) : Nat := (l.filter (fun v => v != 0)).length

/-- Entity purge as the sequence of `MaskedStorage::drop(id)` calls the Rust performs (storages in
    table order, entities in batch order), stopping right after the call whose destructor panics.
    Returns the world and the remaining budget (`none` = the fault fired). -/
def purgeFault (w : World) : List (Nat × Nat) → Nat → World × Option Nat
  | [], n => (w, some n)
  | (k, id) :: rest, n =>
    match w.store? k with
    | none => purgeFault w rest n
    | some m =>
      match m.dropId id with
      | .ok r =>
        let w' := (w.setStore k r.st).destroy r.destroyed
        let c := nzCount r.destroyed
        if c > n then (w', none) else purgeFault w' rest (n - c)
      | _ => (w, none)

def purgePairs (w : World) (es : List Entity) : List (Nat × Nat) :=
  (w.table.filter (fun k => (w.store? k).isSome)).flatMap (fun k => es.map (fun e => (k, e.id)))

/-- `delete_entities(es)` with a fault budget. -/
def deleteEntitiesFault (fuel : Nat) (w : World) (es : List Entity) (n : Nat) (op : WOp) : World × WRes :=
  match w.ent.alloc.kill es with
  | .ok (a, r) =>
    let w1 := { w with ent := { w.ent with alloc := a } }
    let purged := match r with
      | .ok => es
      | .err pos => es.take pos
    (match purgeFault w1 (purgePairs w1 purged) n with
     | (w2, none) => (w2, .panic "injected destructor panic")
     | (_, some _) => step fuel w op)
  | _ => step fuel w op

/-- Sub-multiset test used to validate the implementation-reported destroyed values. -/
def subMultiset : List Int → List Int → Bool
  | [], _ => true
  | x :: xs, ys => if ys.contains x then subMultiset xs (ys.erase x) else false

def stepFault (fuel : Nat) (w : World) (op : WOp) (n : Nat) (implD : List Int) : World × WRes :=
  match op with
  | .ins k h v =>
    (match w.store? k, resolve w.ent.log h with
     | some _, some e =>
       if !w.ent.alloc.isAlive e && v != 0 && n == 0 then (w.destroy [v], .panic "injected destructor panic")
       else step fuel w op
     | _, _ => step fuel w op)
  | .entry k h (.orInsert v _ _) =>
    (match w.store? k, resolve w.ent.log h with
     | some m, some e =>
       if w.ent.alloc.isAlive e && m.mask.mem e.id && v != 0 && n == 0 then
         ((step fuel w (.entry k h (.orInsert v 0 none))).1, .panic "injected destructor panic")
       else step fuel w op
     | _, _ => step fuel w op)
  | .ent (.delNow h) =>
    (match resolve w.ent.log h with
     | none => step fuel w op
     | some e => deleteEntitiesFault fuel w [e] n op)
  | .ent (.delBatch hs) =>
    (match resolveAll w.ent.log hs with
     | none => step fuel w op
     | some es => deleteEntitiesFault fuel w es n op)
  | .ent .delAll => deleteEntitiesFault fuel w w.ent.alloc.joinEntities n op
  | .ent .merge =>
    (match w.ent.alloc.merge with
     | .ok (a, deleted) =>
       let w1 := { w with ent := { w.ent with alloc := a } }
       (match purgeFault w1 (purgePairs w1 deleted) n with
        | (w2, none) => (w2, .panic "injected destructor panic")
        | (_, some _) => step fuel w op)
     | _ => step fuel w op)
  | .clear _ | .dropWorld =>
    let (w', r) := step fuel w op
    let d := w'.ledger.take (w'.ledger.length - w.ledger.length)
    if nzCount d > n && subMultiset implD d && nzCount implD > n then
      ({ w' with ledger := implD.reverse ++ w.ledger }, .panic "injected destructor panic")
    else (w', r)
  | _ => step fuel w op

/-- `dump`: the observable content of every registered storage, in kind order. -/
def dump (w : World) : List (Nat × List (Nat × Int)) :=
  (List.range numKinds).filterMap (fun k =>
    match w.store? k with
    | none => none
    | some m => some (k, m.mask.toList.map (fun i => (i, match m.inner.get i with | .ok v => v | _ => -1))))

end World
end SpecsModel
