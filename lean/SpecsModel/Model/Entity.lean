/-
  Model of /repo/src/world/entity.rs — `Allocator`, `EntityCache`, `ZeroableGeneration`.
  One Lean function per Rust function. `&mut self` becomes state passing, `assert!`,
  `unwrap`, slice indexing become `panic` outcomes (proved unreachable in Lemmas/AllocInv).

  Numbers: indices are `Nat` (real bound 2^24, hibitset), generations `Int` (real: NonZeroI32;
  the overflow panic after 2^31 reuses of one index is out of scope, see DESIGN §3).
  A `ZeroableGeneration` is an `Int`, `0` standing for `None`.
-/
import SpecsModel.Data.BSet
import SpecsModel.Data.Out
namespace SpecsModel

structure Entity where
  id : Nat
  gen : Int
  deriving DecidableEq, Repr, Inhabited

/-- `Allocator` + `EntityCache` (fields `cache`, `cacheLen`). -/
structure Alloc where
  gens : DMap Int          -- `generations: Vec<ZeroableGeneration>`, 0 = `None`
  genLen : Nat             -- `generations.len()`
  alive : BSet
  raised : BSet            -- AtomicBitSet
  killed : BSet            -- AtomicBitSet
  cache : Array Nat        -- `EntityCache::cache`
  cacheLen : Nat           -- `EntityCache::len` (atomic)
  maxId : Nat              -- `max_id` (atomic)
  deriving Repr

namespace Alloc

def init : Alloc :=
  { gens := DMap.empty 0, genLen := 0, alive := .empty, raised := .empty, killed := .empty,
    cache := #[], cacheLen := 0, maxId := 0 }

/-- `generations.get(id)`: `none` when out of range. -/
def genAt (a : Alloc) (id : Nat) : Option Int :=
  if id < a.genLen then some (a.gens.get id) else none

/-- The `match` shared by `is_alive` and `entity`. -/
def curGen (a : Alloc) (id : Nat) : Int :=
  match a.genAt id with
  | some g =>
    if !(g > 0) && a.raised.mem id then 1 - g      -- `g.raised()`
    else if g = 0 then 1 else g                    -- `g.0.unwrap_or_else(Generation::one)`
  | none => 1

/-- `Allocator::is_alive`. -/
def isAlive (a : Alloc) (e : Entity) : Bool := e.gen == a.curGen e.id

/-- `Allocator::entity`. -/
def entity (a : Alloc) (id : Nat) : Entity := ⟨id, a.curGen id⟩

/-- `Allocator::generation`. -/
def generation (a : Alloc) (id : Nat) : Option Int :=
  match a.genAt id with
  | some g => if g = 0 then none else some g
  | none => none

/-- The generation reported by `allocate_atomic` and by the `Join` impls of `EntitiesRes`:
    `generation(id).map(|g| if g.is_alive() { g } else { g.raised() }).unwrap_or(one)`. -/
def joinGen (a : Alloc) (id : Nat) : Int :=
  match a.generation id with
  | some g => if g > 0 then g else 1 - g
  | none => 1

/-- `update_generation_length`. -/
def updLen (a : Alloc) (i : Nat) : Alloc :=
  if a.genLen ≤ i then { a with genLen := i + 1 } else a

/-- `EntityCache::maintain`. -/
def cacheMaintain (a : Alloc) : Alloc := { a with cache := a.cache.extract 0 a.cacheLen }

/-- `EntityCache::extend`. -/
def cacheExtend (a : Alloc) (ids : List Nat) : Alloc :=
  let a := a.cacheMaintain
  let c := a.cache ++ ids.toArray
  { a with cache := c, cacheLen := c.size }

/-- `EntityCache::pop`. -/
def cachePop (a : Alloc) : Alloc × Option Nat :=
  let a := a.cacheMaintain
  let x := a.cache.back?
  let c := a.cache.pop
  ({ a with cache := c, cacheLen := c.size }, x)

/-- `EntityCache::pop_atomic` (sequential composition of its atomic steps;
    the interleaved version is in Model/Concurrent). -/
def cachePopAtomic (a : Alloc) : Out (Alloc × Option Nat) :=
  if a.cacheLen = 0 then .ok (a, none)
  else
    match a.cache[a.cacheLen - 1]? with
    | some x => .ok ({ a with cacheLen := a.cacheLen - 1 }, some x)
    | none => .panic "pop_atomic: index out of bounds"

/-- `ZeroableGeneration::raise` applied to `generations[id]` (panics if alive or out of range). -/
def raiseAt (a : Alloc) (id : Nat) : Out (Alloc × Int) :=
  match a.genAt id with
  | none => .panic "generations index out of bounds"
  | some g =>
    if g > 0 then .panic "raised(): assertion failed: !self.is_alive()"
    else .ok ({ a with gens := a.gens.set id (1 - g) }, 1 - g)

/-- `ZeroableGeneration::die` applied to `generations[id]` (`debug_assert!(is_alive)`). -/
def dieAt (a : Alloc) (id : Nat) : Out Alloc :=
  match a.genAt id with
  | none => .panic "generations index out of bounds"
  | some g =>
    if g > 0 then .ok { a with gens := a.gens.set id (-g) }
    else .panic "die(): debug assertion failed: self.is_alive()"

/-- Tail of `allocate` once the index is chosen: `update_generation_length`, `alive.add`,
    `generations[id].raise()`. -/
def allocateWith (a : Alloc) (id : Nat) : Out (Alloc × Entity) :=
  let a := a.updLen id
  let a := { a with alive := a.alive.add id }
  match a.raiseAt id with
  | .ok (a, g) => .ok (a, ⟨id, g⟩)
  | .panic w => .panic w
  | .ub w => .ub w

/-- `Allocator::allocate`. -/
def allocate (a : Alloc) : Out (Alloc × Entity) :=
  match a.cachePop with
  | (a, some id) => a.allocateWith id
  | (a, none) => ({ a with maxId := a.maxId + 1 }).allocateWith a.maxId

/-- Tail of `allocate_atomic` once the index is chosen: `raised.add_atomic`, read generation. -/
def allocateAtomicWith (a : Alloc) (id : Nat) : Alloc × Entity :=
  let a := { a with raised := a.raised.add id }
  (a, ⟨id, a.joinGen id⟩)

/-- `Allocator::allocate_atomic`. -/
def allocateAtomic (a : Alloc) : Out (Alloc × Entity) :=
  match a.cachePopAtomic with
  | .ok (a, some id) => .ok (a.allocateAtomicWith id)
  | .ok (a, none) => .ok (({ a with maxId := a.maxId + 1 }).allocateAtomicWith a.maxId)
  | .panic w => .panic w
  | .ub w => .ub w

inductive KillRes where
  | ok
  | err (pos : Nat)
  deriving Repr, DecidableEq

/-- Body of the `for` loop of `Allocator::kill` for one (already checked alive) entity. -/
def killOne (a : Alloc) (e : Entity) : Out Alloc :=
  let id := e.id
  let a := { a with alive := a.alive.remove id, killed := a.killed.remove id }
  let a := a.updLen id
  let wasRaised := a.raised.mem id
  let a := { a with raised := a.raised.remove id }
  let r : Out Alloc :=
    if wasRaised then
      match a.raiseAt id with
      | .ok (a, _) => .ok a
      | .panic w => .panic w
      | .ub w => .ub w
    else .ok a
  match r with
  | .ok a => a.dieAt id
  | o => o

/-- `del_err` indexes `generations` directly: panics when out of range. -/
def delErrOk (a : Alloc) (e : Entity) : Bool := e.id < a.genLen

/-- The loop of `Allocator::kill`: returns the state, how many were killed and the outcome. -/
def killLoop (a : Alloc) : List Entity → Nat → Out (Alloc × KillRes)
  | [], _ => .ok (a, .ok)
  | e :: es, pos =>
    if !a.isAlive e then
      if a.delErrOk e then .ok (a, .err pos) else .panic "del_err: index out of bounds"
    else
      match a.killOne e with
      | .ok a => killLoop a es (pos + 1)
      | .panic w => .panic w
      | .ub w => .ub w

/-- `Allocator::kill`, as repaired by the `fix:` commit for finding F1: the killed prefix is
    handed to the free list on the error path as well. -/
def kill (a : Alloc) (es : List Entity) : Out (Alloc × KillRes) :=
  match a.killLoop es 0 with
  | .ok (a, .ok) => .ok (a.cacheExtend (es.map (·.id)), .ok)
  | .ok (a, .err pos) => .ok (a.cacheExtend ((es.take pos).map (·.id)), .err pos)
  | .panic w => .panic w
  | .ub w => .ub w

/-- `Allocator::kill` as found at the pinned commit (finding F1): early return before
    `cache.extend`. Kept for `Findings/F1.lean`. -/
def killUnrepaired (a : Alloc) (es : List Entity) : Out (Alloc × KillRes) :=
  match a.killLoop es 0 with
  | .ok (a, .ok) => .ok (a.cacheExtend (es.map (·.id)), .ok)
  | .ok (a, .err pos) => .ok (a, .err pos)
  | .panic w => .panic w
  | .ub w => .ub w

/-- `Allocator::kill_atomic`. `none` = Ok, `some ()` = Err(WrongGeneration). -/
def killAtomic (a : Alloc) (e : Entity) : Out (Alloc × Bool) :=
  if !a.isAlive e then
    if a.delErrOk e then .ok (a, false) else .panic "del_err: index out of bounds"
  else .ok ({ a with killed := a.killed.add e.id }, true)

/-- First loop of `merge`: raise every atomically created index. -/
def mergeRaise (a : Alloc) : List Nat → Out Alloc
  | [] => .ok a
  | i :: is =>
    match a.raiseAt i with
    | .ok (a, _) => mergeRaise { a with alive := a.alive.add i } is
    | .panic w => .panic w
    | .ub w => .ub w

/-- Second loop of `merge`. -/
def mergeKill (a : Alloc) : List Nat → List Entity → Out (Alloc × List Entity)
  | [], acc => .ok (a, acc.reverse)
  | i :: is, acc =>
    let a := { a with alive := a.alive.remove i }
    match a.generation i with
    | none => .panic "merge: unwrap on None generation"
    | some g =>
      match a.dieAt i with
      | .ok a => mergeKill a is (⟨i, g⟩ :: acc)
      | .panic w => .panic w
      | .ub w => .ub w

/-- `Allocator::merge`. -/
def merge (a : Alloc) : Out (Alloc × List Entity) :=
  let a := a.updLen (a.maxId + 1)
  match a.mergeRaise a.raised.toList with
  | .ok a =>
    let a := { a with raised := a.raised.clear }
    match a.mergeKill a.killed.toList [] with
    | .ok (a, deleted) =>
      let a := { a with killed := a.killed.clear }
      .ok (a.cacheExtend (deleted.map (·.id)), deleted)
    | .panic w => .panic w
    | .ub w => .ub w
  | .panic w => .panic w
  | .ub w => .ub w

/-- Items of `(&entities).join()`: ascending members of `alive | raised`, each with `joinGen`. -/
def joinEntities (a : Alloc) : List Entity :=
  (a.alive.union a.raised).toList.map (fun i => ⟨i, a.joinGen i⟩)

/-- `World::is_alive` (world_ext.rs): `generation(e.id) == Some(e.gen)`, asserting `e.gen > 0`. -/
def worldIsAlive (a : Alloc) (e : Entity) : Out Bool :=
  if e.gen > 0 then .ok (a.generation e.id == some e.gen) else .panic "Generation is dead"

end Alloc
end SpecsModel
