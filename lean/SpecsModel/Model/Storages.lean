/-
  Model of /repo/src/storage/storages.rs, flagged.rs, deref_flagged.rs: the `UnprotectedStorage`
  implementations. Component values are `Int`s. Uninitialised / moved-out slots are `none`; reading
  one is `Out.ub`; `unwrap`/indexing failures are `Out.panic`. Values destroyed by an operation are
  returned so that the ledger (C08) can account for them.
-/
import SpecsModel.Data.BSet
import SpecsModel.Data.Out
namespace SpecsModel

/-- `ComponentEvent`. -/
inductive CEv where
  | inserted (i : Nat)
  | modified (i : Nat)
  | removed (i : Nat)
  deriving Repr, DecidableEq

inductive UStore where
  | vec (slots : Array (Option Int))                                  -- VecStorage
  | dense (data : Array Int) (entityId : Array Nat) (dataId : Array (Option Nat))  -- DenseVecStorage
  | dvec (slots : Array Int)                                          -- DefaultVecStorage (default = 0)
  | hash (m : List (Nat × Int))                                       -- HashMapStorage
  | btree (m : List (Nat × Int))                                      -- BTreeStorage
  | null                                                              -- NullStorage
  | flagged (inner : UStore) (events : Array CEv) (emit : Bool)       -- FlaggedStorage
  | derefFlagged (inner : UStore) (events : Array CEv) (emit : Bool)  -- DerefFlaggedStorage
  deriving Repr

namespace UStore

/-- Extend an array with `fill` so that index `id` exists (`set_len(id+1)` / `resize`). -/
def growTo {α} (a : Array α) (id : Nat) (fill : α) : Array α :=
  if a.size ≤ id then a ++ Array.replicate (id + 1 - a.size) fill else a

/-- `Vec::swap_remove` (caller has checked `k < a.size`). -/
def swapRemove {α} (a : Array α) (k : Nat) : Array α :=
  match a.back? with
  | none => a
  | some l => (a.setIfInBounds k l).pop

def assocGet (m : List (Nat × Int)) (id : Nat) : Option Int := (m.find? (·.1 == id)).map (·.2)
def assocErase (m : List (Nat × Int)) (id : Nat) : List (Nat × Int) := m.filter (fun p => !(p.1 == id))

/-- `UnprotectedStorage::insert`. Returns the new storage and the values destroyed by the call
    (only an overwritten default-vector slot or map entry). -/
def insert : UStore → Nat → Int → Out (UStore × List Int)
  | vec slots, id, v => .ok (vec ((growTo slots id none).setIfInBounds id (some v)), [])
  | dense data eid did, id, v =>
    .ok (dense (data.push v) (eid.push id) ((growTo did id none).setIfInBounds id (some data.size)), [])
  | dvec slots, id, v =>
    if slots.size ≤ id then .ok (dvec ((slots ++ Array.replicate (id - slots.size) 0).push v), [])
    else .ok (dvec (slots.setIfInBounds id v), [slots[id]?.getD 0])
  | hash m, id, v => .ok (hash ((id, v) :: assocErase m id), (assocGet m id).toList)
  | btree m, id, v => .ok (btree ((id, v) :: assocErase m id), (assocGet m id).toList)
  | null, _, _ => .ok (null, [])
  | flagged inner ev emit, id, v =>
    let ev := if emit then ev.push (.inserted id) else ev
    match insert inner id v with
    | .ok (inner', d) => .ok (flagged inner' ev emit, d)
    | .panic w => .panic w
    | .ub w => .ub w
  | derefFlagged inner ev emit, id, v =>
    let ev := if emit then ev.push (.inserted id) else ev
    match insert inner id v with
    | .ok (inner', d) => .ok (derefFlagged inner' ev emit, d)
    | .panic w => .panic w
    | .ub w => .ub w

/-- `UnprotectedStorage::get`. -/
def get : UStore → Nat → Out Int
  | vec slots, id =>
    match slots[id]? with
    | some (some v) => .ok v
    | some none => .ub "VecStorage::get: uninitialised or moved-out slot"
    | none => .ub "VecStorage::get: get_unchecked out of bounds"
  | dense data _ did, id =>
    match did[id]? with
    | some (some k) =>
      (match data[k]? with
       | some v => .ok v
       | none => .ub "DenseVecStorage::get: data index out of bounds")
    | some none => .ub "DenseVecStorage::get: uninitialised data_id"
    | none => .ub "DenseVecStorage::get: data_id out of bounds"
  | dvec slots, id =>
    match slots[id]? with
    | some v => .ok v
    | none => .ub "DefaultVecStorage::get: get_unchecked out of bounds"
  | hash m, id =>
    match assocGet m id with
    | some v => .ok v
    | none => .panic "HashMapStorage::get: key not found"
  | btree m, id =>
    match assocGet m id with
    | some v => .ok v
    | none => .panic "BTreeStorage::get: key not found"
  | null, _ => .ok 0
  | flagged inner _ _, id => get inner id
  | derefFlagged inner _ _, id => get inner id

/-- The write through the reference returned by `get_mut` / `shared_get_mut` (no events here). -/
def poke : UStore → Nat → Int → Out UStore
  | vec slots, id, v =>
    match slots[id]? with
    | some (some _) => .ok (vec (slots.setIfInBounds id (some v)))
    | some none => .ub "VecStorage::get_mut: uninitialised or moved-out slot"
    | none => .ub "VecStorage::get_mut: get_unchecked out of bounds"
  | dense data eid did, id, v =>
    match did[id]? with
    | some (some k) =>
      if k < data.size then .ok (dense (data.setIfInBounds k v) eid did)
      else .ub "DenseVecStorage::get_mut: data index out of bounds"
    | some none => .ub "DenseVecStorage::get_mut: uninitialised data_id"
    | none => .ub "DenseVecStorage::get_mut: data_id out of bounds"
  | dvec slots, id, v =>
    if id < slots.size then .ok (dvec (slots.setIfInBounds id v))
    else .ub "DefaultVecStorage::get_mut: get_unchecked out of bounds"
  | hash m, id, v =>
    match assocGet m id with
    | some _ => .ok (hash (m.map (fun p => if p.1 == id then (id, v) else p)))
    | none => .panic "HashMapStorage::get_mut: unwrap on None"
  | btree m, id, v =>
    match assocGet m id with
    | some _ => .ok (btree (m.map (fun p => if p.1 == id then (id, v) else p)))
    | none => .panic "BTreeStorage::get_mut: unwrap on None"
  | null, _, _ => .ok null
  | flagged inner ev emit, id, v =>
    match poke inner id v with
    | .ok inner' => .ok (flagged inner' ev emit)
    | .panic w => .panic w
    | .ub w => .ub w
  | derefFlagged inner ev emit, id, v =>
    match poke inner id v with
    | .ok inner' => .ok (derefFlagged inner' ev emit)
    | .panic w => .panic w
    | .ub w => .ub w

/-- Events of `get_mut(id)` followed by `derefs` mutable dereferences of the returned access:
    `FlaggedStorage` flags at the call, `DerefFlaggedStorage` at each `deref_mut`. -/
def touch : UStore → Nat → Nat → UStore
  | flagged inner ev emit, id, _ => flagged inner (if emit then ev.push (.modified id) else ev) emit
  | derefFlagged inner ev emit, id, derefs =>
    derefFlagged inner (if emit then ev ++ Array.replicate derefs (.modified id) else ev) emit
  | s, _, _ => s

/-- `UnprotectedStorage::remove` (also the default `drop`). -/
def remove : UStore → Nat → Out (UStore × Int)
  | vec slots, id =>
    match slots[id]? with
    | some (some v) => .ok (vec (slots.setIfInBounds id none), v)
    | some none => .ub "VecStorage::remove: uninitialised or moved-out slot"
    | none => .ub "VecStorage::remove: get_unchecked out of bounds"
  | dense data eid did, id =>
    match did[id]? with
    | some (some k) =>
      (match eid.back? with
       | none => .panic "DenseVecStorage::remove: entity_id.last().unwrap() on empty"
       | some last =>
         if last < did.size then
           (match data[k]? with
            | some v =>
              if k < eid.size then
                .ok (dense (swapRemove data k) (swapRemove eid k) (did.setIfInBounds last (some k)), v)
              else .panic "DenseVecStorage::remove: swap_remove index out of bounds"
            | none => .panic "DenseVecStorage::remove: swap_remove index out of bounds")
         else .ub "DenseVecStorage::remove: data_id[last] out of bounds")
    | some none => .ub "DenseVecStorage::remove: uninitialised data_id"
    | none => .ub "DenseVecStorage::remove: data_id out of bounds"
  | dvec slots, id =>
    match slots[id]? with
    | some v => .ok (dvec (slots.setIfInBounds id 0), v)
    | none => .ub "DefaultVecStorage::remove: get_unchecked out of bounds"
  | hash m, id =>
    match assocGet m id with
    | some v => .ok (hash (assocErase m id), v)
    | none => .panic "HashMapStorage::remove: unwrap on None"
  | btree m, id =>
    match assocGet m id with
    | some v => .ok (btree (assocErase m id), v)
    | none => .panic "BTreeStorage::remove: unwrap on None"
  | null, _ => .ok (null, 0)
  | flagged inner ev emit, id =>
    let ev := if emit then ev.push (.removed id) else ev
    match remove inner id with
    | .ok (inner', v) => .ok (flagged inner' ev emit, v)
    | .panic w => .panic w
    | .ub w => .ub w
  | derefFlagged inner ev emit, id =>
    let ev := if emit then ev.push (.removed id) else ev
    match remove inner id with
    | .ok (inner', v) => .ok (derefFlagged inner' ev emit, v)
    | .panic w => .panic w
    | .ub w => .ub w

/-- Drop the slots of a `VecStorage` named by the mask (loop of `VecStorage::clean`). -/
def vecClean (has : BSet) : List Nat → Array (Option Int) → List Int → Out (Array (Option Int) × List Int)
  | [], slots, acc => .ok (slots, acc.reverse)
  | i :: is, slots, acc =>
    if has.mem i then
      match slots[i]? with
      | some (some v) => vecClean has is (slots.setIfInBounds i none) (v :: acc)
      | _ => .ub "VecStorage::clean: assume_init_drop on uninitialised slot"
    else vecClean has is slots acc

/-- `UnprotectedStorage::clean(has)`: returns the storage and the values it destroyed. -/
def clean : UStore → BSet → Out (UStore × List Int)
  | vec slots, has =>
    match vecClean has (List.range slots.size) slots [] with
    | .ok (slots', d) => .ok (vec slots', d)
    | .panic w => .panic w
    | .ub w => .ub w
  | dense data _ _, _ => .ok (dense #[] #[] #[], data.toList)
  | dvec slots, _ => .ok (dvec #[], slots.toList)
  | hash m, _ => .ok (hash [], m.map (·.2))
  | btree m, _ => .ok (btree [], m.map (·.2))
  | null, has => .ok (null, has.toList.map (fun _ => 0))
  | flagged inner ev emit, has =>
    match clean inner has with
    | .ok (inner', d) => .ok (flagged inner' ev emit, d)
    | .panic w => .panic w
    | .ub w => .ub w
  | derefFlagged inner ev emit, has =>
    match clean inner has with
    | .ok (inner', d) => .ok (derefFlagged inner' ev emit, d)
    | .panic w => .panic w
    | .ub w => .ub w

/-- The event channel content (all events ever written), `none` for untracked kinds. -/
def events : UStore → Option (Array CEv)
  | flagged _ ev _ => some ev
  | derefFlagged _ ev _ => some ev
  | _ => none

/-- `Tracked::set_event_emission`. -/
def setEmit : UStore → Bool → UStore
  | flagged inner ev _, b => flagged inner ev b
  | derefFlagged inner ev _, b => derefFlagged inner ev b
  | s, _ => s

/-- `SliceAccess::as_slice` for the kinds that have it: index-addressed (`vec`: `none` = not
    initialised; `dvec`) or dense. -/
inductive Slice where
  | opt (a : Array (Option Int))
  | vals (a : Array Int)
  | none
  deriving Repr

def asSlice : UStore → Slice
  | vec slots => .opt slots
  | dense data _ _ => .vals data
  | dvec slots => .vals slots
  | _ => .none

end UStore
end SpecsModel
