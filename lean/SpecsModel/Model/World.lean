/-
  Model of a `specs::World` with component storages, the `MetaTable` of registered storages and
  the `LazyUpdate` queue: world_ext.rs (`register*`, `delete_entities`, `delete_components`,
  `maintain`), world/mod.rs (builders), lazy.rs, storage/data.rs (`setup`).
  Component kinds are numbered 0..11 (the harness' twelve component types).
-/
import SpecsModel.Model.Storage
import SpecsModel.Model.EWorld
namespace SpecsModel

/-- Fresh storage for component kind `k`. -/
def newStore : Nat → UStore
  | 0 => .vec #[]
  | 1 => .dense #[] #[] #[]
  | 2 => .dvec #[]
  | 3 => .hash []
  | 4 => .btree []
  | 5 => .null
  | 6 => .flagged (.vec #[]) #[] true
  | 7 => .flagged (.dense #[] #[] #[]) #[] true
  | 8 => .flagged (.hash []) #[] true
  | 9 => .derefFlagged (.vec #[]) #[] true
  | 10 => .derefFlagged (.dense #[] #[] #[]) #[] true
  | _ => .derefFlagged (.btree []) #[] true

def numKinds : Nat := 12

/-- Per-item action of a restricted join (C13). -/
inductive RAct where
  | skip
  | get
  | getMut (derefs : Nat) (write : Option Int)
  | getOther (h : Nat)
  | getOtherMut (h : Nat) (derefs : Nat) (write : Option Int)
  deriving Repr, DecidableEq

inductive WOp where
  | ent (op : EOp)
  | reg (k : Nat) (path : Nat)                       -- 0 register, 1 register_with_storage, 2 SystemData::setup, 3 plain resource insert + setup
  | createWith (atomic dropped : Bool) (comps : List (Nat × Int))
  | get (k h : Nat)
  | getMut (k h derefs : Nat) (write : Option Int)
  | has (k h : Nat)
  | ins (k h : Nat) (v : Int)
  | rem (k h : Nat)
  | entry (k h : Nat) (op : Masked.EntryOp)
  | mutOrDefault (k h derefs : Nat) (write : Option Int)
  | count (k : Nat)
  | isEmpty (k : Nat)
  | mask (k : Nat)
  | clear (k : Nat)
  | drain (k n : Nat)
  | slice (k : Nat)
  | emit (k : Nat) (b : Bool)
  | events (k : Nat)
  | lazyIns (k h : Nat) (v : Int)
  | lazyInsAll (k : Nat) (items : List (Nat × Int))
  | lazyRem (k h : Nat)
  | lazyCreate (comps : List (Nat × Int))
  | lazyExec (script : List WOp)
  | rjoin (k : Nat) (mutable : Bool) (acts : List RAct)
  | dropWorld
  deriving Repr

/-- A queued `LazyUpdate` action; entities are captured when the action is queued. -/
inductive LazyAct where
  | ins (tag : Nat) (k : Nat) (e : Entity) (v : Int)
  | insAll (tag : Nat) (k : Nat) (items : List (Entity × Int))
  | rem (tag : Nat) (k : Nat) (e : Entity)
  | exec (tag : Nat) (script : List WOp)
  deriving Repr

def LazyAct.tag : LazyAct → Nat
  | .ins t .. | .insAll t .. | .rem t .. | .exec t .. => t

inductive SliceView where
  | none
  | opt (len : Nat) (occupied : List (Nat × Option Int))   -- vec: slot content at each mask index
  | dflt (len : Nat) (occupied : List (Nat × Int)) (nonDefaultElsewhere : Nat)  -- dvec
  | dense (sorted : List Int)                               -- dense: multiset of stored values
  deriving Repr, DecidableEq

inductive ItemRes where
  | skip
  | val (v : Int)
  | opt (v : Option Int)
  deriving Repr, DecidableEq

inductive WRes where
  | e (r : ERes)
  | unit
  | opt (v : Option Int)
  | bool (b : Bool)
  | ins (r : Masked.InsRes)
  | entry (r : Masked.EntryRes)
  | nat (n : Nat)
  | ids (l : List Nat)
  | pairs (l : List (Nat × Int))
  | events (l : List CEv)
  | slice (s : SliceView)
  | acts (l : List Nat)              -- tags of lazy actions run by this maintain, in order
  | items (l : List (Nat × ItemRes)) -- restricted join: index and result of the action
  | queued (tag : Nat)
  | dropped                          -- drop_world
  | noStore                          -- storage not registered: the real call panics in `fetch`
  | skip
  | panic (why : String)
  deriving Repr, DecidableEq

structure World where
  ent : EWorld := {}
  stores : Array (Option Masked) := Array.replicate numKinds none
  table : List Nat := []            -- MetaTable: kinds in registration order
  queue : List LazyAct := []        -- LazyUpdate queue, FIFO
  cursors : Array Nat := Array.replicate numKinds 0   -- reader positions of the harness' readers
  nextTag : Nat := 0
  ledger : List Int := []           -- values destroyed so far (C08), newest first
  trace : List (Nat × WOp × WRes) := []  -- results of ops run inside lazily executed scripts, newest first
  deriving Repr

namespace World

def store? (w : World) (k : Nat) : Option Masked := (w.stores[k]?).join

def setStore (w : World) (k : Nat) (m : Masked) : World :=
  { w with stores := w.stores.setIfInBounds k (some m) }

def destroy (w : World) (d : List Int) : World := { w with ledger := d.reverse ++ w.ledger }

/-- `register`, `register_with_storage`, `SystemData::setup`: ensure the resource, register in
    the meta table (all three paths do both; `path` is kept for the correspondence). -/
def register (w : World) (k : Nat) : World :=
  if k < numKinds then
    let w := match w.store? k with
      | some _ => w
      | none => w.setStore k { mask := .empty, inner := newStore k }
    if w.table.contains k then w else { w with table := w.table ++ [k] }
  else w

/-- Apply a storage-level result. -/
def applyS {α} (w : World) (k : Nat) (o : Out (SRes α)) (f : α → WRes) : World × WRes :=
  match o with
  | .ok r => ((w.setStore k r.st).destroy r.destroyed, f r.val)
  | .panic why => (w, .panic why)
  | .ub why => (w, .panic ("UB: " ++ why))

/-- `delete_components(delete)`: every storage in the meta table, in order, drops each entity. -/
def deleteComponents (w : World) (es : List Entity) : List Nat → Out World
  | [] => .ok w
  | k :: ks =>
    match w.store? k with
    | none => deleteComponents w es ks
    | some m =>
      match m.dropAll es [] with
      | .ok r => deleteComponents ((w.setStore k r.st).destroy r.destroyed) es ks
      | .panic why => .panic why
      | .ub why => .ub why

/-- `World::delete_entities`: kill, then purge the killed prefix. -/
def deleteEntities (w : World) (es : List Entity) : World × WRes :=
  match w.ent.alloc.kill es with
  | .ok (a, r) =>
    let w := { w with ent := { w.ent with alloc := a } }
    let purged := match r with
      | .ok => es
      | .err pos => es.take pos
    (match w.deleteComponents purged w.table with
     | .ok w' => (w', .e (.kill r))
     | .panic why => (w, .panic why)
     | .ub why => (w, .panic ("UB: " ++ why)))
  | .panic why => (w, .panic why)
  | .ub why => (w, .panic ("UB: " ++ why))

/-- Insert the builder's components for a just created entity (`storage.insert(e, c).unwrap()`). -/
def buildComps (w : World) (e : Entity) : List (Nat × Int) → Out World
  | [] => .ok w
  | (k, v) :: cs =>
    match w.store? k with
    | none => .panic "builder: storage not registered"
    | some m =>
      match m.insert w.ent.alloc e v with
      | .ok r =>
        (match r.val with
         | .wrongGen => .panic "builder: insert(..).unwrap() on Err"
         | _ =>
           -- the `Ok(Some(old))` of an overwriting insert is dropped by the builder
           buildComps ((w.setStore k r.st).destroy
             (r.destroyed ++ (match r.val with | .replaced old => [old] | _ => []))) e cs)
      | .panic why => .panic why
      | .ub why => .ub why

def createWith (w : World) (atomic dropped : Bool) (comps : List (Nat × Int)) : World × WRes :=
  if comps.any (fun kv => (w.store? kv.1).isNone) then (w, .noStore) else
  match (if atomic then w.ent.createAtomic false else w.ent.createNow false) with
  | (ew, .ent e) =>
    let w1 := { w with ent := ew }
    (match w1.buildComps e comps with
     | .ok w2 =>
       if dropped then
         (match w2.ent.alloc.killAtomic e with
          | .ok (a, true) => ({ w2 with ent := { w2.ent with alloc := a } }, .e (.ent e))
          | .ok (_, false) => (w2, .panic "dropped builder: delete(..).unwrap() on Err")
          | .panic why => (w2, .panic why)
          | .ub why => (w2, .panic ("UB: " ++ why)))
       else (w2, .e (.ent e))
     | .panic why => (w1, .panic why)
     | .ub why => (w1, .panic ("UB: " ++ why)))
  | (ew, r) => ({ w with ent := ew }, .e r)

def enqueue (w : World) (mk : Nat → LazyAct) : World × WRes :=
  ({ w with queue := w.queue ++ [mk w.nextTag], nextTag := w.nextTag + 1 }, .queued w.nextTag)

def sliceView (m : Masked) : SliceView :=
  let ids := m.mask.toList
  match m.inner.asSlice with
  | .opt a => .opt a.size (ids.map (fun i => (i, (a[i]?).join)))
  | .vals a =>
    match m.inner with
    | .dvec _ =>
      .dflt a.size (ids.map (fun i => (i, (a[i]?).getD 0)))
        (((List.range a.size).filter (fun i => !m.mask.mem i && (a[i]?).getD 0 != 0)).length)
    | _ => .dense (a.toList.mergeSort (· ≤ ·))
  | .none => .none

/-- Per-item actions of a restricted join over storage `k` (restrict / restrict_mut). -/
def rjoinLoop (w : World) (k : Nat) (mutable : Bool) :
    List Nat → List RAct → List (Nat × ItemRes) → World × WRes
  | [], _, acc => (w, .items acc.reverse)
  | id :: ids, acts, acc =>
    let act := acts.head?.getD .skip
    let rest := acts.tail
    match w.store? k with
    | none => (w, .noStore)
    | some m =>
      match act with
      | .skip => rjoinLoop w k mutable ids rest ((id, .skip) :: acc)
      | .get =>
        (match m.inner.get id with
         | .ok v => rjoinLoop w k mutable ids rest ((id, .val v) :: acc)
         | .panic why => (w, .panic why)
         | .ub why => (w, .panic ("UB: " ++ why)))
      | .getMut derefs write =>
        if !mutable then rjoinLoop w k mutable ids rest ((id, .skip) :: acc) else
        (match m.inner.get id with
         | .ok old =>
           let inner := m.inner.touch id derefs
           (match write with
            | none => rjoinLoop (w.setStore k { m with inner := inner }) k mutable ids rest ((id, .val old) :: acc)
            | some v =>
              (match inner.poke id v with
               | .ok inner' => rjoinLoop (w.setStore k { m with inner := inner' }) k mutable ids rest ((id, .val old) :: acc)
               | .panic why => (w, .panic why)
               | .ub why => (w, .panic ("UB: " ++ why))))
         | .panic why => (w, .panic why)
         | .ub why => (w, .panic ("UB: " ++ why)))
      | .getOther h =>
        (match resolve w.ent.log h with
         | none => rjoinLoop w k mutable ids rest ((id, .skip) :: acc)
         | some e =>
           (match m.getOther w.ent.alloc e with
            | .ok r => rjoinLoop w k mutable ids rest ((id, .opt r) :: acc)
            | .panic why => (w, .panic why)
            | .ub why => (w, .panic ("UB: " ++ why))))
      | .getOtherMut h derefs write =>
        if !mutable then rjoinLoop w k mutable ids rest ((id, .skip) :: acc) else
        (match resolve w.ent.log h with
         | none => rjoinLoop w k mutable ids rest ((id, .skip) :: acc)
         | some e =>
           (match m.getMut w.ent.alloc e derefs write with
            | .ok r => rjoinLoop (w.setStore k r.st) k mutable ids rest ((id, .opt r.val) :: acc)
            | .panic why => (w, .panic why)
            | .ub why => (w, .panic ("UB: " ++ why))))

/-- Drop every storage (`Drop for MaskedStorage` = `clear`); the queue's captures are destroyed. -/
def dropStores (w : World) : List Nat → List Int → Out (List Int)
  | [], acc => .ok acc
  | k :: ks, acc =>
    match w.store? k with
    | none => dropStores w ks acc
    | some m =>
      match m.clear with
      | .ok r => dropStores w ks (acc ++ r.destroyed)
      | .panic why => .panic why
      | .ub why => .ub why

def queuedValues : LazyAct → List Int
  | .ins _ _ _ v => [v]
  | .insAll _ _ items => items.map (·.2)
  | _ => []

mutual
/-- One operation. `fuel` bounds the nesting of lazily executed scripts (see `maintain`). -/
def step (fuel : Nat) (w : World) : WOp → World × WRes
  | .ent .merge =>
    (match fuel with
     | 0 => (w, .panic "model out of fuel")
     | fuel + 1 => maintain fuel w)
  | .ent .delAll =>
    -- `delete_entities(&entities.join().collect())`, then `.expect(..)`
    (match w.deleteEntities w.ent.alloc.joinEntities with
     | (w', .e (.kill .ok)) => (w', .e .unit)
     | (w', .e (.kill (.err _))) => (w', .panic "delete_all: Bug: previously collected entities are not valid")
     | r => r)
  | .ent (.delNow h) =>
    (match resolve w.ent.log h with
     | none => (w, .e .skip)
     | some e => w.deleteEntities [e])
  | .ent (.delBatch hs) =>
    (match resolveAll w.ent.log hs with
     | none => (w, .e .skip)
     | some es => w.deleteEntities es)
  | .ent op =>
    let (ew, r) := w.ent.step op
    ({ w with ent := ew }, .e r)
  | .reg k _ => (w.register k, .unit)
  | .createWith atomic dropped comps => w.createWith atomic dropped comps
  | .get k h =>
    (match w.store? k, resolve w.ent.log h with
     | none, _ => (w, .noStore)
     | _, none => (w, .skip)
     | some m, some e =>
       (match m.get w.ent.alloc e with
        | .ok r => (w, .opt r)
        | .panic why => (w, .panic why)
        | .ub why => (w, .panic ("UB: " ++ why))))
  | .getMut k h derefs write =>
    (match w.store? k, resolve w.ent.log h with
     | none, _ => (w, .noStore)
     | _, none => (w, .skip)
     | some m, some e => w.applyS k (m.getMut w.ent.alloc e derefs write) .opt)
  | .has k h =>
    (match w.store? k, resolve w.ent.log h with
     | none, _ => (w, .noStore)
     | _, none => (w, .skip)
     | some m, some e => (w, .bool (m.contains w.ent.alloc e)))
  | .ins k h v =>
    (match w.store? k, resolve w.ent.log h with
     | none, _ => (w, .noStore)
     | _, none => (w, .skip)
     | some m, some e => w.applyS k (m.insert w.ent.alloc e v) .ins)
  | .rem k h =>
    (match w.store? k, resolve w.ent.log h with
     | none, _ => (w, .noStore)
     | _, none => (w, .skip)
     | some m, some e => w.applyS k (m.remove w.ent.alloc e) .opt)
  | .entry k h op =>
    (match w.store? k, resolve w.ent.log h with
     | none, _ => (w, .noStore)
     | _, none => (w, .skip)
     | some m, some e => w.applyS k (m.entry w.ent.alloc e op) .entry)
  | .mutOrDefault k h derefs write =>
    (match w.store? k, resolve w.ent.log h with
     | none, _ => (w, .noStore)
     | _, none => (w, .skip)
     | some m, some e => w.applyS k (m.getMutOrDefault w.ent.alloc e derefs write) .opt)
  | .count k =>
    (match w.store? k with
     | none => (w, .noStore)
     | some m => (w, .nat m.mask.count))
  | .isEmpty k =>
    (match w.store? k with
     | none => (w, .noStore)
     | some m => (w, .bool m.mask.isEmpty))
  | .mask k =>
    (match w.store? k with
     | none => (w, .noStore)
     | some m => (w, .ids m.mask.toList))
  | .clear k =>
    (match w.store? k with
     | none => (w, .noStore)
     | some m => w.applyS k m.clear (fun _ => .unit))
  | .drain k n =>
    (match w.store? k with
     | none => (w, .noStore)
     | some m => w.applyS k (m.drain n) .pairs)
  | .slice k =>
    (match w.store? k with
     | none => (w, .noStore)
     | some m => (w, .slice (sliceView m)))
  | .emit k b =>
    (match w.store? k with
     | none => (w, .noStore)
     | some m => (w.setStore k { m with inner := m.inner.setEmit b }, .unit))
  | .events k =>
    (match w.store? k with
     | none => (w, .noStore)
     | some m =>
       (match m.inner.events with
        | none => (w, .events [])
        | some ev =>
          let pos := (w.cursors[k]?).getD 0
          ({ w with cursors := w.cursors.setIfInBounds k ev.size }, .events (ev.toList.drop pos))))
  | .lazyIns k h v =>
    (match w.store? k, resolve w.ent.log h with
     | none, _ => (w, .noStore)
     | _, none => (w, .skip)
     | _, some e => w.enqueue (fun t => .ins t k e v))
  | .lazyInsAll k items =>
    (match w.store? k, resolveAll w.ent.log (items.map (·.1)) with
     | none, _ => (w, .noStore)
     | _, none => (w, .skip)
     | _, some es => w.enqueue (fun t => .insAll t k (es.zip (items.map (·.2)))))
  | .lazyRem k h =>
    (match w.store? k, resolve w.ent.log h with
     | none, _ => (w, .noStore)
     | _, none => (w, .skip)
     | _, some e => w.enqueue (fun t => .rem t k e))
  | .lazyCreate comps =>
    if comps.any (fun kv => (w.store? kv.1).isNone) then (w, .noStore) else
    -- `lazy.create_entity(&entities).with(c)…build()`: atomic creation now, one queued insert per component
    (match w.ent.createAtomic false with
     | (ew, .ent e) =>
       let w1 := { w with ent := ew }
       let w2 := comps.foldl (fun (w : World) (kv : Nat × Int) =>
         { w with queue := w.queue ++ [.ins w.nextTag kv.1 e kv.2], nextTag := w.nextTag + 1 }) w1
       (w2, .e (.ent e))
     | (ew, r) => ({ w with ent := ew }, .e r))
  | .lazyExec script => w.enqueue (fun t => .exec t script)
  | .rjoin k mutable acts =>
    (match w.store? k with
     | none => (w, .noStore)
     | some m => rjoinLoop w k mutable m.mask.toList acts [])
  | .dropWorld =>
    (match w.dropStores w.table [] with
     | .ok d =>
       let q := (w.queue.map queuedValues).flatten
       ({ w with stores := Array.replicate numKinds none, table := [], queue := [],
                 ledger := (d ++ q).reverse ++ w.ledger }, .dropped)
     | .panic why => (w, .panic why)
     | .ub why => (w, .panic ("UB: " ++ why)))
termination_by structural fuel

/-- Run a script of ops (used for lazily executed closures). -/
def runScript (fuel : Nat) (tag : Nat) (w : World) : List WOp → World
  | [] => w
  | op :: ops =>
    match fuel with
    | 0 => w
    | fuel + 1 =>
      let (w', r) := step fuel w op
      runScript fuel tag { w' with trace := (tag, op, r) :: w'.trace } ops
termination_by structural fuel

/-- One queued action, at the moment it runs. -/
def runAct (fuel : Nat) (w : World) : LazyAct → World
  | .ins _ k e v =>
    (match w.store? k with
     | none => w          -- the real closure would panic in `fetch`; harness never queues for unregistered kinds
     | some m =>
       match m.insert w.ent.alloc e v with
       | .ok r => (w.setStore k r.st).destroy (r.destroyed ++ (match r.val with | .replaced old => [old] | _ => []))
       | _ => w)
  | .insAll _ k items =>
    items.foldl (fun (w : World) (ev : Entity × Int) =>
      match w.store? k with
      | none => w
      | some m =>
        match m.insert w.ent.alloc ev.1 ev.2 with
        | .ok r => (w.setStore k r.st).destroy (r.destroyed ++ (match r.val with | .replaced old => [old] | _ => []))
        | _ => w) w
  | .rem _ k e =>
    (match w.store? k with
     | none => w
     | some m =>
       match m.remove w.ent.alloc e with
       | .ok r => (w.setStore k r.st).destroy (r.val.toList)
       | _ => w)
  | .exec tag script =>
    match fuel with
    | 0 => w
    | fuel + 1 => runScript fuel tag w script
termination_by structural fuel

/-- `LazyUpdate::maintain`: `while let Some(l) = queue.pop() { l.update(world) }`. -/
def runQueue (fuel : Nat) (w : World) (acc : List Nat) : World × List Nat :=
  match fuel with
  | 0 => (w, acc.reverse)
  | fuel + 1 =>
    match w.queue with
    | [] => (w, acc.reverse)
    | act :: rest =>
      runQueue fuel (runAct fuel { w with queue := rest } act)
        (match act with | .exec t _ => t :: acc | _ => acc)
termination_by structural fuel

/-- `World::maintain`: merge, purge what was deleted, then run the lazy queue. -/
def maintain (fuel : Nat) (w : World) : World × WRes :=
  match w.ent.alloc.merge with
  | .ok (a, deleted) =>
    let w1 := { w with ent := { w.ent with alloc := a } }
    (match (if deleted.isEmpty then .ok w1 else w1.deleteComponents deleted w1.table) with
     | .ok w2 =>
       (match fuel with
        | 0 => (w2, .panic "model out of fuel")
        | fuel + 1 =>
          let (w3, tags) := runQueue fuel w2 []
          (w3, .acts tags))
     | .panic why => (w1, .panic why)
     | .ub why => (w1, .panic ("UB: " ++ why)))
  | .panic why => (w, .panic why)
  | .ub why => (w, .panic ("UB: " ++ why))
termination_by structural fuel
end

end World
end SpecsModel
