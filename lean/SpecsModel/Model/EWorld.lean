/-
  The entity part of a `World`: allocator + the log of handles returned so far, driven through
  the public creation / deletion paths of world_ext.rs, world/mod.rs and entity.rs.
  Handles are referenced by slot `@k` = `log[k mod log.size]` (DESIGN §3): forged handles are
  outside every property's quantifier, and every op sequence is well-formed.
-/
import SpecsModel.Spec.EntSpec
namespace SpecsModel

structure EWorld where
  alloc : Alloc := Alloc.init
  log : Array Entity := #[]
  deriving Repr

inductive EOp where
  | createNow (dropped : Bool)        -- World::create_entity().build() / builder dropped
  | createAtomic (dropped : Bool)     -- Entities::create / build_entity().build() / dropped
  | createIterNow (n : Nat)           -- World::create_iter().take(n)
  | createIterAtomic (n : Nat)        -- Entities::create_iter().take(n)
  | delNow (h : Nat)                  -- World::delete_entity
  | delBatch (hs : List Nat)          -- World::delete_entities
  | delAtomic (h : Nat)               -- Entities::delete
  | delAll                            -- World::delete_all
  | merge                             -- World::maintain (allocator part)
  | alive (h : Nat)                   -- Entities::is_alive
  | walive (h : Nat)                  -- World::is_alive
  | ejoin                             -- (&entities).join().collect()
  deriving Repr, DecidableEq

inductive ERes where
  | ent (e : Entity)
  | ents (es : List Entity)
  | kill (r : Alloc.KillRes)
  | bool (b : Bool)
  | unit
  | skip                  -- slot reference with an empty log
  | panic (why : String)
  deriving Repr, DecidableEq

/-- Slot resolution shared by model, monitors and harness. -/
def resolve (log : Array Entity) (k : Nat) : Option Entity :=
  if log.size = 0 then none else log[k % log.size]?

def resolveAll (log : Array Entity) (ks : List Nat) : Option (List Entity) :=
  if log.size = 0 then none else some (ks.filterMap (fun k => log[k % log.size]?))

namespace EWorld

def outToRes {α} (o : Out α) (f : α → EWorld × ERes) (w : EWorld) : EWorld × ERes :=
  match o with
  | .ok a => f a
  | .panic why => (w, .panic why)
  | .ub why => (w, .panic ("UB: " ++ why))

/-- One creation through `&mut` access; a dropped builder requests deferred deletion. -/
def createNow (w : EWorld) (dropped : Bool) : EWorld × ERes :=
  outToRes w.alloc.allocate (fun (a, e) =>
    let w := { w with alloc := a, log := w.log.push e }
    if dropped then
      outToRes (a.killAtomic e) (fun (a, ok) =>
        if ok then ({ w with alloc := a }, .ent e)
        else (w, .panic "dropped builder: delete(..).unwrap() on Err")) w
    else (w, .ent e)) w

def createAtomic (w : EWorld) (dropped : Bool) : EWorld × ERes :=
  outToRes w.alloc.allocateAtomic (fun (a, e) =>
    let w := { w with alloc := a, log := w.log.push e }
    if dropped then
      outToRes (a.killAtomic e) (fun (a, ok) =>
        if ok then ({ w with alloc := a }, .ent e)
        else (w, .panic "dropped builder: delete(..).unwrap() on Err")) w
    else (w, .ent e)) w

def createIter (atomic : Bool) : EWorld → Nat → List Entity → EWorld × ERes
  | w, 0, acc => (w, .ents acc.reverse)
  | w, n + 1, acc =>
    match (if atomic then w.createAtomic false else w.createNow false) with
    | (w', .ent e) => createIter atomic w' n (e :: acc)
    | (w', r) => (w', r)

def delBatch (w : EWorld) (es : List Entity) : EWorld × ERes :=
  outToRes (w.alloc.kill es) (fun (a, r) => ({ w with alloc := a }, .kill r)) w

def step (w : EWorld) : EOp → EWorld × ERes
  | .createNow d => w.createNow d
  | .createAtomic d => w.createAtomic d
  | .createIterNow n => createIter false w n []
  | .createIterAtomic n => createIter true w n []
  | .delNow h =>
    match resolve w.log h with
    | none => (w, .skip)
    | some e => w.delBatch [e]
  | .delBatch hs =>
    match resolveAll w.log hs with
    | none => (w, .skip)
    | some es => w.delBatch es
  | .delAtomic h =>
    match resolve w.log h with
    | none => (w, .skip)
    | some e =>
      outToRes (w.alloc.killAtomic e)
        (fun (a, ok) => ({ w with alloc := a }, .kill (if ok then .ok else .err 0))) w
  | .delAll =>
    -- `delete_entities(&entities.join().collect())`, then `.expect(..)`
    match w.delBatch w.alloc.joinEntities with
    | (w', .kill .ok) => (w', .unit)
    | (w', .kill (.err _)) => (w', .panic "delete_all: Bug: previously collected entities are not valid")
    | r => r
  | .merge =>
    outToRes w.alloc.merge (fun (a, _) => ({ w with alloc := a }, .unit)) w
  | .alive h =>
    match resolve w.log h with
    | none => (w, .skip)
    | some e => (w, .bool (w.alloc.isAlive e))
  | .walive h =>
    match resolve w.log h with
    | none => (w, .skip)
    | some e => outToRes (w.alloc.worldIsAlive e) (fun b => (w, .bool b)) w
  | .ejoin => (w, .ents w.alloc.joinEntities)

/-- Run a script from the empty world, producing the transcript. -/
def runFrom (w : EWorld) : List EOp → EWorld × List (EOp × ERes)
  | [] => (w, [])
  | op :: ops =>
    let (w', r) := w.step op
    let (w'', t) := runFrom w' ops
    (w'', (op, r) :: t)

def run (ops : List EOp) : EWorld × List (EOp × ERes) := runFrom {} ops

end EWorld

/-- Entity events of one transcript line, given the log of handles returned before it.
    Used identically on the model's and on the implementation's transcript. -/
def entEvents (log : Array Entity) : EOp → ERes → List EntEv × Array Entity
  | .createNow d, .ent e | .createAtomic d, .ent e =>
    (.created e :: (if d then [.killAtomic e true] else []), log.push e)
  | .createIterNow _, .ents es | .createIterAtomic _, .ents es =>
    (es.map .created, log ++ es.toArray)
  | .delNow h, .kill r =>
    match resolve log h with
    | some e => ([.kill [e] r], log)
    | none => ([], log)
  | .delBatch hs, .kill r =>
    match resolveAll log hs with
    | some es => ([.kill es r], log)
    | none => ([], log)
  | .delAtomic h, .kill r =>
    match resolve log h with
    | some e => ([.killAtomic e (r == .ok)], log)
    | none => ([], log)
  | .delAll, .unit => ([.deleteAll], log)
  | .merge, .unit => ([.merge], log)
  | .alive h, .bool b =>
    match resolve log h with
    | some e => ([.isAlive e b], log)
    | none => ([], log)
  | .ejoin, .ents es => ([.join es], log)
  | _, _ => ([], log)

/-- Results that are never acceptable for the given op (panics; shape mismatch). -/
def resShapeOk : EOp → ERes → Bool
  | _, .panic _ => false
  | .createNow _, .ent _ | .createAtomic _, .ent _ => true
  | .createIterNow _, .ents _ | .createIterAtomic _, .ents _ => true
  | .delNow _, .kill _ | .delBatch _, .kill _ | .delAtomic _, .kill _ => true
  | .delNow _, .skip | .delBatch _, .skip | .delAtomic _, .skip => true
  | .alive _, .skip | .walive _, .skip => true
  | .delAll, .unit | .merge, .unit => true
  | .alive _, .bool _ | .walive _, .bool _ => true
  | .ejoin, .ents _ => true
  | _, _ => false

/-- The C01/C02/C17 monitor over a transcript (threads the handle log). -/
def monitorEnt : EntSpec → Array Entity → List (EOp × ERes) → Except String EntSpec
  | s, _, [] => .ok s
  | s, log, (op, r) :: t =>
    if !resShapeOk op r then .error "panic or malformed result" else
    let (evs, log') := entEvents log op r
    match s.run evs with
    | .ok s' => monitorEnt s' log' t
    | .error why => .error why

end SpecsModel
