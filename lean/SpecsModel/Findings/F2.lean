/-
  Finding F2 (C14, unrepaired, listed in /verif/known_findings.txt).

  `specs::saveload::EntityData` serialises the components of an entity as a tuple of
  `Option<Component::Data>`. serde_json writes `None` as `null` and a unit struct as `null`, hence
  `Some(UnitStruct)` as `null` too: for a component type without data the "has it" bit is not in the
  text, and no loader can recover it. (RON writes `Some(())` / `None` and is not affected.)
  Observed on the real code by the probe `unit_roundtrip` of h_saveload (`unit kept 0 of 2` with
  JSON, `unit kept 2 of 2` with RON); C14's statement quantifies over "each data format used".
  This file only records the information-theoretic core; the save/load model itself
  (SpecsModel/SaveLoad) has no unit-struct component type.
-/
namespace SpecsModel.F2

/-- The two JSON texts that matter here. -/
inductive Json where
  | null
  | other
  deriving DecidableEq

/-- serde_json, `serialize_unit_struct`: `null`. -/
def encUnitStruct : Unit → Json := fun _ => .null

/-- serde_json, `serialize_none`: `null`; `serialize_some(v)`: the encoding of `v`. -/
def encOption : Option Unit → Json
  | none => .null
  | some u => encUnitStruct u

theorem some_and_none_collide : encOption (some ()) = encOption none := rfl

/-- No decoder recovers the presence bit from the text. -/
theorem no_decoder : ¬ ∃ dec : Json → Option Unit, ∀ o, dec (encOption o) = o := by
  intro ⟨dec, h⟩
  have h1 := h (some ())
  have h2 := h none
  rw [some_and_none_collide, h2] at h1
  cases h1

end SpecsModel.F2
