/-
  Finding F1 (C17), formal witness. `Allocator::kill` as found at the pinned commit returned
  `Err` before `self.cache.extend(..)`: the indices of the entities killed before the failing
  element never reached the free list. With the unrepaired function the four-op history
  create, create, delete_entities [@0,@0], create hands out index 2 although at most two entities
  were ever not dead at once, so the C17 monitor rejects it. Repaired by the `fix:` commit in /repo.
-/
import SpecsModel.Model.EWorld
namespace SpecsModel.F1
open SpecsModel

/-- The world step with the unrepaired `kill`. -/
def delBatchUnrepaired (w : EWorld) (es : List Entity) : EWorld × ERes :=
  EWorld.outToRes (w.alloc.killUnrepaired es) (fun (a, r) => ({ w with alloc := a }, .kill r)) w

def history : EWorld × List ERes :=
  let (w, r1) := ({} : EWorld).step (.createNow false)
  let (w, r2) := w.step (.createNow false)
  let (w, r3) := delBatchUnrepaired w [w.log[0]!, w.log[0]!]
  let (w, r4) := w.step (.createNow false)
  (w, [r1, r2, r3, r4])

theorem F1_transcript : history.2 = [.ent ⟨0, 1⟩, .ent ⟨1, 1⟩, .kill (.err 1), .ent ⟨2, 1⟩] := by
  decide +kernel

/-- The C17 monitor rejects that transcript: index 2 is not below the peak (2). -/
theorem F1_witness :
    (match EntSpec.init.run
        [.created ⟨0, 1⟩, .created ⟨1, 1⟩, .kill [⟨0, 1⟩, ⟨0, 1⟩] (.err 1), .created ⟨2, 1⟩] with
      | .error w => w == "C17 index not below the peak number of not-dead entities"
      | .ok _ => false) = true := by
  decide +kernel

end SpecsModel.F1
